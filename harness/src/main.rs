// rawr_harness: runs the real rawr library on the same line protocol as modelrun (the extracted Coq
// model).  Results go to the file named by argv[1] (one line per request); anything the library
// itself prints stays on stdout, bracketed by "@@ <n>" markers.
use rawr::chess::bitboard::Bitboard;
use rawr::chess::magic;
use rawr::chess::mv::Mv;
use rawr::chess::piece::Piece;
use rawr::chess::position::Position;
use rawr::chess::rays;
use rawr::chess::side::Side;
use rawr::chess::square::Square;
use rawr::search::eval::{eval, eval_us};
use rawr::search::hashtable::Hashtable;
use rawr::search::info::Info;
use rawr::search::qsearch::qsearch;
use rawr::search::root;
use rawr::search::settings;
use rawr::search::stats::Stats;
use rawr::search::ttentry::TTEntry;
use std::cell::RefCell;
use std::io::{BufRead, Write};
use std::panic::{catch_unwind, AssertUnwindSafe};

fn b01(b: bool) -> &'static str {
    if b {
        "1"
    } else {
        "0"
    }
}

fn piece_of(n: u8) -> Piece {
    match n {
        0 => Piece::Pawn,
        1 => Piece::Knight,
        2 => Piece::Bishop,
        3 => Piece::Rook,
        4 => Piece::Queen,
        5 => Piece::King,
        _ => Piece::None,
    }
}

fn mv_str(m: &Mv) -> String {
    format!("{}-{}-{}", m.from.0, m.to.0, m.promo as u8)
}

fn mv_of(s: &str) -> Mv {
    let v: Vec<u8> = s.split('-').map(|x| x.parse::<u8>().unwrap()).collect();
    Mv {
        from: Square(v[0]),
        to: Square(v[1]),
        promo: piece_of(v[2]),
    }
}

fn mvs_str(ms: &[Mv]) -> String {
    ms.iter().map(mv_str).collect::<Vec<_>>().join(",")
}

fn dump_pos(p: &Position) -> String {
    format!(
        "us={} them={} P={} N={} B={} R={} Q={} K={} hm={} fm={} turn={} ep={} cr={}{}{}{} cf={},{},{},{} hash={} frc={}",
        p.colours[0].0,
        p.colours[1].0,
        p.pieces[0].0,
        p.pieces[1].0,
        p.pieces[2].0,
        p.pieces[3].0,
        p.pieces[4].0,
        p.pieces[5].0,
        p.halfmoves,
        p.fullmoves,
        if p.turn == rawr::chess::colour::Colour::White { "w" } else { "b" },
        match p.ep {
            None => "-".to_string(),
            Some(s) => s.0.to_string(),
        },
        b01(p.us_ksc),
        b01(p.us_qsc),
        b01(p.them_ksc),
        b01(p.them_qsc),
        p.castle_files[0],
        p.castle_files[1],
        p.castle_files[2],
        p.castle_files[3],
        p.hash,
        b01(p.is_frc)
    )
}

fn parse_fen(frc: bool, s: &str) -> Position {
    let mut pos = Position::default();
    pos.is_frc = frc;
    pos.set_fen(s);
    pos
}

fn apply(p: &mut Position, tok: &str) {
    if tok == "null" {
        p.makenull();
    } else {
        p.makemove::<true>(&mv_of(tok));
    }
}

thread_local! {
    static INFOS: RefCell<Vec<String>> = RefCell::new(Vec::new());
}

fn collect_info(info: &Info) {
    let s = format!(
        "d={} sd={} n={} s={} hf={} pv={}",
        info.depth.unwrap_or(-1),
        info.seldepth.unwrap_or(-1),
        info.nodes.unwrap_or(0),
        info.score.unwrap_or(0),
        match info.hashfull {
            None => "-".to_string(),
            Some(h) => h.to_string(),
        },
        info.pv.iter().map(mv_str).collect::<Vec<_>>().join("/")
    );
    INFOS.with(|v| v.borrow_mut().push(s));
}

fn limit_of(s: &str) -> settings::Type {
    let v: Vec<&str> = s.split(':').collect();
    match v[0] {
        "depth" => settings::Type::Depth(v[1].parse().unwrap()),
        "nodes" => settings::Type::Nodes(v[1].parse().unwrap()),
        "movetime" => settings::Type::Movetime(v[1].parse().unwrap()),
        "time" => settings::Type::Time(
            v[1].parse().unwrap(),
            v[2].parse().unwrap(),
            None,
            None,
            if v.len() > 3 { v[3].parse().ok() } else { None },
        ),
        // timei:<wtime>:<btime>:<winc>:<binc>[:<movestogo>]
        "timei" => settings::Type::Time(
            v[1].parse().unwrap(),
            v[2].parse().unwrap(),
            v[3].parse().ok(),
            v[4].parse().ok(),
            if v.len() > 5 { v[5].parse().ok() } else { None },
        ),
        _ => settings::Type::Infinite,
    }
}

fn handle(line: &str) -> String {
    let f: Vec<&str> = line.split('\t').collect();
    match f[0] {
        "magic" => {
            let sq: i32 = f[2].parse().unwrap();
            let occ: u64 = f[3].parse().unwrap();
            let v = if f[1] == "B" { magic::bishop_moves(sq, occ).0 } else { magic::rook_moves(sq, occ).0 };
            // queen lookup is the union; checked here so that the model need not know about it
            let q = magic::queen_moves(sq, occ).0;
            let other = if f[1] == "B" { magic::rook_moves(sq, occ).0 } else { magic::bishop_moves(sq, occ).0 };
            if q != (v | other) {
                return format!("{} QUEEN-MISMATCH", v);
            }
            format!("{}", v)
        }
        "leaper" => {
            let bb: u64 = f[2].parse().unwrap();
            let r = match f[1] {
                "N" => rays::knights(Bitboard(bb)).0,
                "K" => Bitboard(bb).adjacent().0,
                "P1" => rays::pawns::<true>(Bitboard(bb)).0,
                "P0" => rays::pawns::<false>(Bitboard(bb)).0,
                "NSQ" => magic::knight_moves(Square(bb as u8)).0,
                "KSQ" => magic::king_moves(bb as i32).0,
                "POP" => Bitboard(bb).count() as u64,
                "LSB" => Bitboard(bb).lsb().0 as u64,
                "HSB" => Bitboard(bb).hsb().0 as u64,
                "FLIP" => Bitboard(bb).flip().0,
                _ => panic!("leaper kind"),
            };
            format!("{}", r)
        }
        "ray" => {
            let sq = Square(f[2].parse().unwrap());
            let bl = Bitboard(f[3].parse().unwrap());
            let r = match f[1] {
                "ne" => rays::ray_ne(sq, bl),
                "nw" => rays::ray_nw(sq, bl),
                "se" => rays::ray_se(sq, bl),
                "sw" => rays::ray_sw(sq, bl),
                "n" => rays::ray_n(sq, bl),
                "s" => rays::ray_s(sq, bl),
                "e" => rays::ray_e(sq, bl),
                "w" => rays::ray_w(sq, bl),
                _ => panic!("ray dir"),
            };
            format!("{}", r.0)
        }
        "gen" => {
            let p = parse_fen(false, f[1]);
            let ms = p.legal_moves();
            let mut cb: Vec<Mv> = vec![];
            let mut pieces = String::new();
            p.move_generator(|piece, from, to, promo| {
                cb.push(Mv { from, to, promo });
                pieces.push_str(&format!("{}", piece as u8));
            });
            let same = if cb == ms { "" } else { " CALLBACK-MISMATCH" };
            format!(
                "moves={} count={} caps={} iscap={} pieces={}{}",
                mvs_str(&ms),
                p.count_moves(),
                mvs_str(&p.legal_captures()),
                ms.iter().map(|m| b01(p.is_capture(m))).collect::<Vec<_>>().join(""),
                pieces,
                same
            )
        }
        "att" => {
            let p = parse_fen(false, f[1]);
            let mask = Bitboard(f[2].parse().unwrap());
            let sqset = |side: Side| -> u64 {
                let mut acc = 0u64;
                for i in 0..64u8 {
                    if p.is_sq_attacked(Square(i), side) {
                        acc |= 1u64 << i;
                    }
                }
                acc
            };
            format!(
                "sq_us={} sq_them={} bb_us={} bb_them={} ga_us={} ga_them={} chk={} chkthem={}",
                sqset(Side::Us),
                sqset(Side::Them),
                b01(p.is_bb_attacked(mask, Side::Us)),
                b01(p.is_bb_attacked(mask, Side::Them)),
                p.get_attacked(mask, Side::Us).0,
                p.get_attacked(mask, Side::Them).0,
                b01(p.in_check()),
                b01(p.in_check_them())
            )
        }
        "make" => {
            let p = parse_fen(false, f[1]);
            if f[2] == "null" {
                let q = p.after_null();
                format!("{} calc={} valid={} fen={}", dump_pos(&q), q.calculate_hash(), b01(q.validate().is_ok()), q.get_fen())
            } else {
                let m = mv_of(f[2]);
                let pred = p.predict_hash(&m);
                let q = p.after_move::<true>(&m);
                let q0 = p.after_move::<false>(&m);
                format!(
                    "{} pred={} calc={} nohash={} valid={} fen={}",
                    dump_pos(&q),
                    pred,
                    q.calculate_hash(),
                    q0.hash,
                    b01(q.validate().is_ok()),
                    q.get_fen()
                )
            }
        }
        "play" => {
            let mut p = parse_fen(false, f[1]);
            let mut keys = vec![p.hash.to_string()];
            if f.len() > 2 && !f[2].is_empty() {
                for t in f[2].split(' ') {
                    apply(&mut p, t);
                    keys.push(p.hash.to_string());
                }
            }
            format!("{} keys={} calc={} fen={}", dump_pos(&p), keys.join(","), p.calculate_hash(), p.get_fen())
        }
        "perft" => {
            let p = parse_fen(false, f[1]);
            format!("{}", p.perft(f[2].parse().unwrap()))
        }
        "fenraw" => {
            let s: String = if f[2].is_empty() {
                String::new()
            } else {
                f[2].split(' ').map(|c| char::from_u32(c.parse::<u32>().unwrap()).unwrap()).collect()
            };
            let p = Position::from_fen(&s);
            format!("ok {} valid={} calc={}", dump_pos(&p), b01(p.validate().is_ok()), p.calculate_hash())
        }
        "rt" => {
            let frc = f[1] == "1";
            let mut p = parse_fen(frc, f[2]);
            if f.len() > 3 && !f[3].is_empty() {
                for t in f[3].split(' ') {
                    apply(&mut p, t);
                }
            }
            let s = p.get_fen();
            match catch_unwind(AssertUnwindSafe(|| parse_fen(frc, &s))) {
                Ok(q) => format!("fen={} | {} | {} | again={}", s, dump_pos(&p), dump_pos(&q), q.get_fen()),
                Err(_) => format!("fen={} | {} | reject", s, dump_pos(&p)),
            }
        }
        "uci" => {
            let frc = f[1] == "1";
            let p = parse_fen(frc, f[2]);
            let ms = p.legal_moves();
            format!("moves={} strs={}", mvs_str(&ms), ms.iter().map(|m| m.to_uci(&p)).collect::<Vec<_>>().join(","))
        }
        "eval" => {
            let p = parse_fen(false, f[1]);
            let s = eval_us(&p);
            format!("eval={} us={},{}", eval(&p), s.mg(), s.eg())
        }
        "qs" => {
            let p = parse_fen(false, f[1]);
            let mut st = Stats::default();
            let ply: i32 = if f.len() > 4 { f[4].parse().unwrap() } else { 0 };
            let v = qsearch(&p, &mut st, f[2].parse().unwrap(), f[3].parse().unwrap(), ply);
            format!("v={} nodes={} sd={}", v, st.nodes, st.seldepth)
        }
        "root" => {
            let frc = f[1] == "1";
            let mut p = parse_fen(frc, f[2]);
            let mut hist = vec![p.hash];
            // a leading H:empty / H:drop / H:junk token reshapes the history handed to the search
            let mut shape = "";
            if !f[3].is_empty() {
                for t in f[3].split(' ') {
                    if let Some(sh) = t.strip_prefix("H:") {
                        shape = sh;
                        continue;
                    }
                    apply(&mut p, t);
                    hist.push(p.hash);
                }
            }
            match shape {
                "empty" => hist.clear(),
                "drop" => {
                    hist.pop();
                }
                "junk" => hist = vec![1, 2, 3],
                _ => {}
            }
            let mut tt = Hashtable::<TTEntry>::new(f[4].parse().unwrap());
            let mut outs = vec![];
            for ls in &f[5..] {
                INFOS.with(|v| v.borrow_mut().clear());
                let before_hist = hist.clone();
                let before_pos = p;
                let started = std::time::Instant::now();
                let r = root::root(p, &mut hist, &mut tt, limit_of(ls), collect_info);
                let ms = started.elapsed().as_millis();
                let infos = INFOS.with(|v| v.borrow().join(";"));
                outs.push(format!(
                    "best={} infos=[{}] hist_same={}{} ms={}",
                    match r {
                        Ok(m) => mv_str(&m),
                        Err(_) => "0000".to_string(),
                    },
                    infos,
                    b01(hist == before_hist),
                    if p == before_pos { "" } else { " POS-CHANGED" },
                    ms
                ));
            }
            outs.join(" || ")
        }
        "pos" => {
            let frc = f[1] == "1";
            let mut pos = Position::from_fen("startpos");
            pos.is_frc = frc;
            let mut hist = vec![pos.hash];
            let mut stream = f[2].split_ascii_whitespace();
            rawr::uci::position::position(&mut stream, &mut pos, &mut hist);
            pos.is_frc = frc;
            format!(
                "{} keys={}",
                dump_pos(&pos),
                hist.iter().map(|h| h.to_string()).collect::<Vec<_>>().join(",")
            )
        }
        "tt" => {
            // element size 8: entries are u64; 24: entries are TTEntry (the value is carried in the hash field, 0 = default)
            let ops: Vec<&str> = if f[2].is_empty() { vec![] } else { f[2].split(' ').collect() };
            match f[1] {
                "8" => run_tt::<u64>(&ops, |v| v, |e| *e),
                "24" => run_tt::<TTEntry>(&ops, |v| TTEntry { hash: v, ..Default::default() }, |e| e.hash),
                _ => panic!("tt element size"),
            }
        }
        "ttsize" => format!("{} {}", std::mem::size_of::<TTEntry>(), Hashtable::<TTEntry>::new(1).len()),
        c => panic!("unknown command {}", c),
    }
}

fn run_tt<T: Copy + Default + PartialEq>(ops: &[&str], mk: fn(u64) -> T, val: fn(&T) -> u64) -> String {
    let mut t = Hashtable::<T>::new(0);
    let mut outs = vec![];
    for op in ops {
        let v: Vec<&str> = op.split(':').collect();
        let r = catch_unwind(AssertUnwindSafe(|| match v[0] {
            "r" => {
                t.resize(v[1].parse().unwrap());
                "r".to_string()
            }
            "a" => {
                t.add(v[1].parse().unwrap(), &mk(v[2].parse::<u64>().unwrap()));
                "a".to_string()
            }
            // A:<first>:<count>:<val> stores val under count consecutive keys
            "A" => {
                let k0: u64 = v[1].parse().unwrap();
                let e = mk(v[3].parse::<u64>().unwrap());
                for j in 0..v[2].parse::<u64>().unwrap() {
                    t.add(k0.wrapping_add(j), &e);
                }
                "A".to_string()
            }
            "p" => val(&t.poll(v[1].parse().unwrap())).to_string(),
            // P:<first>:<count> number of non-default entries found under count consecutive keys
            "P" => {
                let k0: u64 = v[1].parse().unwrap();
                let mut n = 0u64;
                for j in 0..v[2].parse::<u64>().unwrap() {
                    n += (t.poll(k0.wrapping_add(j)) != T::default()) as u64;
                }
                n.to_string()
            }
            "c" => {
                t.clear();
                "c".to_string()
            }
            "h" => match t.hashfull() {
                Some(h) => h.to_string(),
                None => "-".to_string(),
            },
            "l" => t.len().to_string(),
            _ => panic!("tt op"),
        }));
        outs.push(match r {
            Ok(s) => s,
            Err(_) => "PANIC".to_string(),
        });
    }
    let n = t.len();
    let dump = if n <= 4096 {
        (0..n).map(|i| val(&t.poll(i as u64)).to_string()).collect::<Vec<_>>().join(",")
    } else {
        "big".to_string()
    };
    format!("{} | {}", outs.join(" "), dump)
}

fn main() {
    let args: Vec<String> = std::env::args().collect();
    let mut out = std::io::BufWriter::new(std::fs::File::create(&args[1]).unwrap());
    // the panic hook would write to stderr; keep it quiet but keep the default for real bugs
    std::panic::set_hook(Box::new(|_| {}));
    let stdin = std::io::stdin();
    for (i, line) in stdin.lock().lines().enumerate() {
        let line = line.unwrap();
        println!("@@ {}", i);
        let res = catch_unwind(AssertUnwindSafe(|| handle(&line)));
        match res {
            Ok(s) => writeln!(out, "{}", s).unwrap(),
            Err(e) => {
                let msg = if let Some(s) = e.downcast_ref::<String>() {
                    s.clone()
                } else if let Some(s) = e.downcast_ref::<&str>() {
                    s.to_string()
                } else {
                    "?".to_string()
                };
                writeln!(out, "PANIC {}", msg.replace('\n', " ")).unwrap()
            }
        }
    }
    out.flush().unwrap();
}
