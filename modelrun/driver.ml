(* modelrun: line-protocol driver around the extracted Coq model (hand-written, trusted as harness).
   One request per input line (TAB-separated fields), one answer line per request. *)
open Model
type string = Stdlib.String.t

(* ---------------------------------------------------------------- numbers *)
let rec pos_of_int64 (x : int64) : positive =
  (* x <> 0, unsigned *)
  if Int64.equal x 1L then XH
  else
    let half = Int64.shift_right_logical x 1 in
    if Int64.equal (Int64.logand x 1L) 1L then XI (pos_of_int64 half) else XO (pos_of_int64 half)

let n_of_int64 (x : int64) : n = if Int64.equal x 0L then N0 else Npos (pos_of_int64 x)

let rec int64_of_pos (p : positive) : int64 =
  match p with
  | XH -> 1L
  | XO q -> Int64.shift_left (int64_of_pos q) 1
  | XI q -> Int64.logor (Int64.shift_left (int64_of_pos q) 1) 1L

let int64_of_n (x : n) : int64 = match x with N0 -> 0L | Npos p -> int64_of_pos p
let n_of_string (s : string) : n = n_of_int64 (Int64.of_string ("0u" ^ s))
let string_of_n (x : n) : string = Printf.sprintf "%Lu" (int64_of_n x)
let n_of_int (i : int) : n = n_of_int64 (Int64.of_int i)
let int_of_n (x : n) : int = Int64.to_int (int64_of_n x)

let z_of_int (i : int) : z =
  if i = 0 then Z0 else if i > 0 then Zpos (pos_of_int64 (Int64.of_int i)) else Zneg (pos_of_int64 (Int64.of_int (-i)))
let int_of_z (x : z) : int =
  match x with Z0 -> 0 | Zpos p -> Int64.to_int (int64_of_pos p) | Zneg p -> - (Int64.to_int (int64_of_pos p))
let string_of_z (x : z) : string = string_of_int (int_of_z x)
let z_of_string (s : string) : z = z_of_int (int_of_string s)

let rec nat_of_int (i : int) : nat = if i <= 0 then O else S (nat_of_int (i - 1))

let str_of_string (s : string) : n list = List.init (String.length s) (fun i -> n_of_int (Char.code s.[i]))
let string_of_str (l : n list) : string =
  let b = Buffer.create 64 in
  List.iter (fun c -> let k = int_of_n c in if k < 128 then Buffer.add_char b (Char.chr k) else Buffer.add_string b (Printf.sprintf "\\u{%x}" k)) l;
  Buffer.contents b

(* arbitrary-size positive -> decimal string (double-and-add on a little-endian digit list) *)
let dec_of_pos (p : positive) : string =
  let rec bits p acc = match p with XH -> 1 :: acc | XO q -> bits q (0 :: acc) | XI q -> bits q (1 :: acc) in
  let step digits b =
    let rec go ds carry = match ds with
      | [] -> if carry = 0 then [] else [carry]
      | d :: t -> let v = 2 * d + carry in (v mod 10) :: go t (v / 10) in
    go digits b in
  let ds = List.fold_left step [] (bits p []) in
  String.concat "" (List.rev_map string_of_int ds)
let dec_of_z (x : z) : string = match x with Z0 -> "0" | Zpos p -> dec_of_pos p | Zneg p -> "-" ^ dec_of_pos p

(* ---------------------------------------------------------------- dumps *)
let b01 b = if b then "1" else "0"

let dump_pos (p : position) : string =
  Printf.sprintf "us=%s them=%s P=%s N=%s B=%s R=%s Q=%s K=%s hm=%s fm=%s turn=%s ep=%s cr=%s%s%s%s cf=%s,%s,%s,%s hash=%s frc=%s"
    (string_of_n p.c_us) (string_of_n p.c_them) (string_of_n p.pawns) (string_of_n p.knights)
    (string_of_n p.bishops) (string_of_n p.rooks) (string_of_n p.queens) (string_of_n p.kings)
    (string_of_z p.halfmoves) (string_of_z p.fullmoves) (if p.turn then "b" else "w")
    (match p.ep with None -> "-" | Some s -> string_of_n s)
    (b01 p.us_ksc) (b01 p.us_qsc) (b01 p.them_ksc) (b01 p.them_qsc)
    (string_of_n p.cf0) (string_of_n p.cf1) (string_of_n p.cf2) (string_of_n p.cf3)
    (string_of_n p.hash) (b01 p.is_frc)

let mv_str (m : mv) : string =
  Printf.sprintf "%d-%d-%d" (int_of_n m.m_from) (int_of_n m.m_to) (int_of_n m.m_promo)
let mv_of_string (s : string) : mv =
  match String.split_on_char '-' s with
  | [a; b; c] -> { m_from = n_of_int (int_of_string a); m_to = n_of_int (int_of_string b); m_promo = n_of_int (int_of_string c) }
  | _ -> failwith ("bad move " ^ s)
let mvs_str (l : mv list) : string = String.concat "," (List.map mv_str l)

let fen_of (p : position) : string = match get_fen p with Some s -> string_of_str s | None -> "PANIC"

let parse_fen ?(frc = false) (s : string) : position =
  match set_fen false frc (str_of_string s) with Some p -> p | None -> failwith ("model rejects FEN: " ^ s)

(* ---------------------------------------------------------------- specification side *)
let man_char (o : (colour * kind) option) : char =
  match o with
  | None -> '.'
  | Some (c, k) ->
    let ch = (match k with Pawn -> 'p' | Knight -> 'n' | Bishop -> 'b' | Rook -> 'r' | Queen -> 'q' | King -> 'k') in
    (match c with White -> Char.uppercase_ascii ch | Black -> ch)

let right_str (r : z option) = match r with None -> "-" | Some f -> string_of_z f

let sstate_str (s : sstate) : string =
  Printf.sprintf "%s/%s/%s%s%s%s/%s/%s/%s"
    (String.of_seq (List.to_seq (List.map man_char s.s_board)))
    (match s.s_turn with White -> "w" | Black -> "b")
    (right_str s.s_wk) (right_str s.s_wq) (right_str s.s_bk) (right_str s.s_bq)
    (match s.s_ep with None -> "-" | Some (f, r) -> string_of_z f ^ "," ^ string_of_z r)
    (string_of_z s.s_half) (string_of_z s.s_full)

let mv_key (m : mv) = (int_of_n m.m_from, int_of_n m.m_to, int_of_n m.m_promo)
let sorted_mvs (l : mv list) : string =
  mvs_str (List.sort (fun a b -> compare (mv_key a) (mv_key b)) l)

let pos_of_dump (line : string) : position =
  let tbl = Hashtbl.create 32 in
  List.iter (fun tok -> match String.index_opt tok '=' with
      | Some i -> Hashtbl.replace tbl (String.sub tok 0 i) (String.sub tok (i + 1) (String.length tok - i - 1))
      | None -> ()) (String.split_on_char ' ' line);
  let g k = Hashtbl.find tbl k in
  let cr = g "cr" in
  let cf = Array.of_list (String.split_on_char ',' (g "cf")) in
  { c_us = n_of_string (g "us"); c_them = n_of_string (g "them"); pawns = n_of_string (g "P"); knights = n_of_string (g "N");
    bishops = n_of_string (g "B"); rooks = n_of_string (g "R"); queens = n_of_string (g "Q"); kings = n_of_string (g "K");
    halfmoves = z_of_string (g "hm"); fullmoves = z_of_string (g "fm"); turn = (g "turn" = "b");
    ep = (if g "ep" = "-" then None else Some (n_of_string (g "ep")));
    us_ksc = cr.[0] = '1'; us_qsc = cr.[1] = '1'; them_ksc = cr.[2] = '1'; them_qsc = cr.[3] = '1';
    cf0 = n_of_string cf.(0); cf1 = n_of_string cf.(1); cf2 = n_of_string cf.(2); cf3 = n_of_string cf.(3);
    hash = n_of_string (g "hash"); is_frc = (g "frc" = "1") }

(* ---------------------------------------------------------------- magic *)
let table = lazy (gen_table bISHOP_STUFF_BUILD rOOK_STUFF_BUILD bISHOP_SHIFT_BUILD rOOK_SHIFT_BUILD nOT_A_BUILD nOT_H_BUILD)

let all64 = n_of_string "18446744073709551615"

(* ---------------------------------------------------------------- search helpers *)
let limit_of_string (s : string) : limit =
  match String.split_on_char ':' s with
  | ["depth"; d] -> LDepth (z_of_string d)
  | ["nodes"; k] -> LNodes (n_of_string k)
  | _ -> LNever

let info_str (p : position) (i : info) : string =
  Printf.sprintf "d=%s sd=%s n=%s s=%s hf=%s pv=%s" (string_of_z i.i_depth) (string_of_z i.i_seldepth)
    (string_of_n i.i_nodes) (string_of_z i.i_score)
    (match i.i_hashfull with None -> "-" | Some h -> string_of_z h) (mv_str i.i_pv)

let stats_of_nodes k = { st_depth = Z0; st_seldepth = Z0; st_nodes = k; st_best = None }

(* ---------------------------------------------------------------- generator: seeded random play-outs *)
let weight (p : position) (g : ((n * n) * n) * n) : int =
  let (((piece, from), to_), promo) = g in
  let cap = is_capture p from to_ in
  let castle = (int_of_n piece = 5) && (match piece_on p to_ with Some r -> int_of_n r = 3 && (match colour_on p to_ with Some c -> c = p.turn | None -> false) | None -> false) in
  let epc = (int_of_n piece = 0) && (match p.ep with Some e -> e = to_ | None -> false) in
  if epc then 40 else if castle then 25 else if int_of_n promo <> 6 then 6 else if cap then 4
  else if int_of_n piece = 0 then 2 else if int_of_n piece = 5 then 2 else 1

let pick (rng : Random.State.t) (p : position) (gs : (((n * n) * n) * n) list) =
  let ws = List.map (weight p) gs in
  let total = List.fold_left (+) 0 ws in
  let r = Random.State.int rng total in
  let rec go gs ws acc = match gs, ws with
    | g :: gt, w :: wt -> if r < acc + w then g else go gt wt (acc + w)
    | _ -> failwith "pick" in
  go gs ws 0

let gen_mv_of (g : ((n * n) * n) * n) : mv = let (((_, f), t), pr) = g in { m_from = f; m_to = t; m_promo = pr }

(* ---------------------------------------------------------------- request handling *)
let good_tbl : (string, bool) Hashtbl.t = Hashtbl.create 1024
let good_memo (fen : string) p =
  match Hashtbl.find_opt good_tbl fen with
  | Some b -> b
  | None -> let b = invr_b p in Hashtbl.replace good_tbl fen b; b

let handle (line : string) : string =
  let f = Array.of_list (String.split_on_char '\t' line) in
  match f.(0) with
  | "magic" ->
    let sq = n_of_string f.(2) and occ = n_of_string f.(3) in
    let t = Lazy.force table in
    (match f.(1) with
     | "B" -> string_of_n (tget t (lib_bishop_index sq occ)) ^ " " ^ string_of_n (bishop_walk sq occ)
     | _ -> string_of_n (tget t (lib_rook_index sq occ)) ^ " " ^ string_of_n (rook_walk sq occ))
  | "magicidx" ->
    let sq = n_of_string f.(2) and occ = n_of_string f.(3) in
    (match f.(1) with "B" -> string_of_n (lib_bishop_index sq occ) | _ -> string_of_n (lib_rook_index sq occ))
  | "leaper" ->
    let bb = n_of_string f.(2) in
    string_of_n (match f.(1) with
      | "N" -> knights_bb bb | "K" -> adjacent bb | "P1" -> pawns_bb true bb | "P0" -> pawns_bb false bb
      | "NSQ" -> knight_moves bb | "KSQ" -> king_moves bb
      | "POP" -> popcount bb | "LSB" -> lsb bb | "HSB" -> hsb bb | "FLIP" -> bswap bb
      | _ -> failwith "leaper kind")
  | "ray" ->
    let sq = n_of_string f.(2) and bl = n_of_string f.(3) in
    string_of_n (match f.(1) with
      | "ne" -> ray_ne sq bl | "nw" -> ray_nw sq bl | "se" -> ray_se sq bl | "sw" -> ray_sw sq bl
      | "n" -> ray_n sq bl | "s" -> ray_s sq bl | "e" -> ray_e sq bl | "w" -> ray_w sq bl
      | _ -> failwith "ray dir")
  | "gen" ->
    let p = parse_fen f.(1) in
    let gs = move_generator p in
    let ms = List.map gen_mv_of gs in
    let st = abs_state p in
    let sl = legal st in
    Printf.sprintf "moves=%s count=%s caps=%s iscap=%s pieces=%s spec=%s speccaps=%s inD=%s chk=%s good=%s"
      (mvs_str ms) (string_of_n (count_moves p)) (mvs_str (legal_captures p))
      (String.concat "" (List.map (fun m -> b01 (is_capture p m.m_from m.m_to)) ms))
      (String.concat "" (List.map (fun (((pc, _), _), _) -> string_of_n pc) gs))
      (sorted_mvs (List.map (enc p) sl))
      (sorted_mvs (List.map (enc p) (List.filter (captures st) sl)))
      (b01 (in_D p)) (b01 (in_check p)) (b01 (invr_b p))
  | "att" ->
    let p = parse_fen f.(1) in
    let mask = n_of_string f.(2) in
    let sqset us = List.fold_left (fun acc i -> if is_sq_attacked p (n_of_int i) us then Int64.logor acc (Int64.shift_left 1L i) else acc) 0L (List.init 64 (fun i -> i)) in
    Printf.sprintf "sq_us=%Lu sq_them=%Lu bb_us=%s bb_them=%s ga_us=%s ga_them=%s chk=%s chkthem=%s apre=%s"
      (sqset true) (sqset false) (b01 (is_bb_attacked p mask true)) (b01 (is_bb_attacked p mask false))
      (string_of_n (get_attacked p mask true)) (string_of_n (get_attacked p mask false))
      (b01 (in_check p)) (b01 (in_check_them p)) (b01 (attack_pre_b p))
  | "make" ->
    let p = parse_fen f.(1) in
    if f.(2) = "null" then
      let q = makenull p in
      Printf.sprintf "%s calc=%s valid=%s fen=%s spec=%s abs=%s inD=%s" (dump_pos q) (string_of_n (calculate_hash q))
        (b01 (validate q = None)) (fen_of q) (sstate_str (pass_turn (abs_state p))) (sstate_str (abs_state q)) (b01 (in_D q))
    else
      let m = mv_of_string f.(2) in
      let q = makemove true p m in
      let q0 = makemove false p m in
      Printf.sprintf "%s pred=%s calc=%s nohash=%s valid=%s fen=%s spec=%s abs=%s inD=%s prem=%s kprem=%s good=%s" (dump_pos q) (string_of_n (predict_hash p m))
        (string_of_n (calculate_hash q)) (string_of_n q0.hash) (b01 (validate q = None)) (fen_of q)
        (sstate_str (apply (abs_state p) (dec p m))) (sstate_str (abs_state q)) (b01 (in_D q)) (b01 (refines_b p m)) (b01 (key_move_b p m)) (b01 (good_memo f.(1) p))
  | "play" ->
    let p0 = parse_fen f.(1) in
    let toks = if Array.length f > 2 && f.(2) <> "" then String.split_on_char ' ' f.(2) else [] in
    let (p, hs) = List.fold_left (fun (p, hs) t ->
        let q = if t = "null" then makenull p else makemove true p (mv_of_string t) in (q, q.hash :: hs)) (p0, [p0.hash]) toks in
    Printf.sprintf "%s keys=%s calc=%s fen=%s" (dump_pos p) (String.concat "," (List.rev_map string_of_n hs))
      (string_of_n (calculate_hash p)) (fen_of p)
  | "perft" ->
    let p = parse_fen f.(1) in
    string_of_n (perft (nat_of_int (int_of_string f.(2))) p)
  | "fenraw" ->
    let mode = f.(1) = "checked" in
    let cps = if f.(2) = "" then [] else List.map n_of_string (String.split_on_char ' ' f.(2)) in
    (match from_fen mode cps with
     | Some p -> "ok " ^ dump_pos p ^ " valid=" ^ b01 (validate p = None) ^ " calc=" ^ string_of_n (calculate_hash p)
     | None -> "reject")
  | "rt" ->
    (* print / parse round trip on a position reached by moves: fen, then moves *)
    let frc = f.(1) = "1" in
    let p0 = parse_fen ~frc f.(2) in
    let toks = if Array.length f > 3 && f.(3) <> "" then String.split_on_char ' ' f.(3) else [] in
    let p = List.fold_left (fun p t -> if t = "null" then makenull p else makemove true p (mv_of_string t)) p0 toks in
    let s = fen_of p in
    (match set_fen false frc (str_of_string s) with
     | Some q -> Printf.sprintf "fen=%s | %s | %s | again=%s" s (dump_pos p) (dump_pos q) (fen_of q)
     | None -> Printf.sprintf "fen=%s | %s | reject" s (dump_pos p))
  | "uci" ->
    let frc = f.(1) = "1" in
    let p = parse_fen ~frc f.(2) in
    let ms = legal_moves p in
    Printf.sprintf "moves=%s strs=%s" (mvs_str ms) (String.concat "," (List.map (fun m -> string_of_str (to_uci p m)) ms))
  | "eval" ->
    let p = parse_fen f.(1) in
    let (mg, eg) = eval_us p in
    Printf.sprintf "eval=%s us=%s,%s" (string_of_z (eval p)) (string_of_z mg) (string_of_z eg)
  | "qs" ->
    let p = parse_fen f.(1) in
    let ply = if Array.length f > 4 then z_of_string f.(4) else Z0 in
    (match qsearch (nat_of_int 64) p (stats_of_nodes N0) (z_of_string f.(2)) (z_of_string f.(3)) ply with
     | Some (v, st) -> Printf.sprintf "v=%s nodes=%s sd=%s" (string_of_z v) (string_of_n st.st_nodes) (string_of_z st.st_seldepth)
     | None -> "fuel")
  | "root" ->
    (* root <frc> <fen> <moves played before (relative triples)> <hash MB> <limit> [<limit2> ...]
       the searches run one after the other on the same table (pre-filling) *)
    let frc = f.(1) = "1" in
    let p0 = parse_fen ~frc f.(2) in
    let toks = if f.(3) <> "" then String.split_on_char ' ' f.(3) else [] in
    let shape = List.fold_left (fun a t -> if String.length t > 2 && String.sub t 0 2 = "H:" then String.sub t 2 (String.length t - 2) else a) "" toks in
    let toks = List.filter (fun t -> not (String.length t > 2 && String.sub t 0 2 = "H:")) toks in
    let (p, hist) = List.fold_left (fun (p, hs) t ->
        let q = if t = "null" then makenull p else makemove true p (mv_of_string t) in (q, q.hash :: hs)) (p0, [p0.hash]) toks in
    let hist = match shape with
      | "empty" -> [] | "drop" -> List.tl hist | "junk" -> [n_of_int 3; n_of_int 2; n_of_int 1] | _ -> hist in
    let tt0 = tt_new (n_of_string f.(4)) in
    let lims = Array.to_list (Array.sub f 5 (Array.length f - 5)) in
    let (_, outs) = List.fold_left (fun (tt, outs) ls ->
        match root (stop_of (limit_of_string ls)) (nat_of_int 400) p hist tt with
        | None -> (tt, "fuel" :: outs)
        | Some r ->
          let o = Printf.sprintf "best=%s infos=[%s] hist_same=%s"
              (match r.rr_best with None -> "0000" | Some m -> mv_str m)
              (String.concat ";" (List.map (info_str p) r.rr_infos))
              (b01 (r.rr_state.ss_hist = hist)) in
          (r.rr_state.ss_tt, o :: outs)) (tt0, []) lims in
    String.concat " || " (List.rev outs)
  | "playout" ->
    (* playout <seed> <plies> <nullpercent> <fen> -> start fen, then the moves; positions are re-derived *)
    let rng = Random.State.make [| int_of_string f.(1) |] in
    let plies = int_of_string f.(2) and nullp = int_of_string f.(3) in
    let p0 = parse_fen f.(4) in
    let rec go p k acc =
      if k = 0 then List.rev acc else
      let gs = move_generator p in
      if gs = [] then List.rev acc
      else if Random.State.int rng 100 < nullp && not (in_check p) then go (makenull p) (k - 1) ("null" :: acc)
      else let g = pick rng p gs in let m = gen_mv_of g in go (makemove true p m) (k - 1) (mv_str m :: acc) in
    String.concat " " (go p0 plies [])
  | "fens" ->
    (* fens <fen> <moves> -> the FEN of every position along the line, '|'-separated *)
    let p0 = parse_fen f.(1) in
    let toks = if Array.length f > 2 && f.(2) <> "" then String.split_on_char ' ' f.(2) else [] in
    let (_, fs) = List.fold_left (fun (p, fs) t ->
        let q = if t = "null" then makenull p else makemove true p (mv_of_string t) in (q, fen_of q :: fs)) (p0, [fen_of p0]) toks in
    String.concat "|" (List.rev fs)
  | "absdump" ->
    let p = pos_of_dump f.(1) in
    Printf.sprintf "abs=%s valid=%s inD=%s calc=%s" (sstate_str (abs_state p)) (b01 (valid_b p)) (b01 (in_D p)) (string_of_n (calculate_hash p))
  | "specatt" ->
    let p = parse_fen f.(1) in
    let sqset us = List.fold_left (fun acc i -> if spec_attacked p (n_of_int i) us then Int64.logor acc (Int64.shift_left 1L i) else acc) 0L (List.init 64 (fun i -> i)) in
    Printf.sprintf "sq_us=%Lu sq_them=%Lu apre=%s" (sqset true) (sqset false) (b01 (attack_pre_b p))
  | "leaves" ->
    let p = parse_fen f.(1) in
    string_of_z (leaves (nat_of_int (int_of_string f.(2))) (abs_state p))
  | "inD" -> (match set_fen false false (str_of_string f.(1)) with Some p -> b01 (in_D p) | None -> "reject")
  | "pos" ->
    (* pos <frc> <tokens after "position">: model of uci::position::position on a fresh engine state *)
    let frc = f.(1) = "1" in
    let toks = List.filter (fun t -> t <> "") (String.split_on_char ' ' f.(2)) in
    let p0 = set_frc (parse_fen "startpos") frc in
    (match position_cmd false (List.map str_of_string toks) p0 with
     | None -> "PANIC"
     | Some ((p, h), out) ->
       let p = set_frc p frc in
       Printf.sprintf "%s keys=%s diag=%s" (dump_pos p) (String.concat "," (List.rev_map string_of_n h))
         (String.concat ";" (List.map string_of_str out)))
  | "posspec" ->
    (* specification of the same: <frc> <fen or startpos> <move tokens> -> final abstract state, number of
       positions reached, unknown tokens *)
    let frc = f.(1) = "1" in
    let p0 = parse_fen ~frc f.(2) in
    let toks = if f.(3) = "" then [] else List.filter (fun t -> t <> "") (String.split_on_char ' ' f.(3)) in
    let ((s, reached), unknown) = play_tokens frc (abs_state p0) (List.map str_of_string toks) [] [] in
    Printf.sprintf "abs=%s reached=%d unknown=%s" (sstate_str s) (List.length reached)
      (String.concat ";" (List.map string_of_str unknown))
  | "ucispec" ->
    (* how the rules write every legal move: <frc> <fen> -> sorted "triple:string" *)
    let frc = f.(1) = "1" in
    let p = parse_fen ~frc f.(2) in
    let st = abs_state p in
    let items = List.map (fun m -> (mv_key (enc p m), string_of_str (move_str frc st m))) (legal st) in
    String.concat "," (List.map (fun ((a, b, c), s) -> Printf.sprintf "%d-%d-%d:%s" a b c s) (List.sort compare items))
  | "session" ->
    let mode = f.(1) = "checked" in
    let lines = if Array.length f < 3 || f.(2) = "" then [] else String.split_on_char '|' f.(2) in
    let toks l = List.map str_of_string (List.filter (fun t -> t <> "") (String.split_on_char ' ' (String.map (fun c -> if c = '\t' then ' ' else c) l))) in
    (match run_session mode (List.map toks lines) with
     | Quit out -> "QUIT " ^ String.concat "|" (List.map string_of_str out)
     | Cont (_, out) -> "CONT " ^ String.concat "|" (List.map string_of_str out)
     | Panic site -> "PANIC " ^ string_of_str site
     | NeedsClock _ -> "CLOCK"
     | OutOfFuel -> "FUEL")
  | "tt" ->
    (* tt <esize> <ops>: ops = n:<mb> r:<mb> a:<key>:<val> p:<key> c h l ; entries are u64 values *)
    let esize = n_of_string f.(1) in
    let ops = if f.(2) = "" then [] else String.split_on_char ' ' f.(2) in
    let dflt = N0 in
    let eqb a b = (a = b) in
    let t = ref (t_new_empty) in
    let outs = List.map (fun op ->
        match String.split_on_char ':' op with
        | ["r"; mb] -> t := t_resize dflt esize !t (n_of_string mb); "r"
        | ["a"; k; v] -> (match t_add !t (n_of_string k) (n_of_string v) with Some t' -> t := t'; "a" | None -> "PANIC")
        | ["p"; k] -> (match t_poll dflt !t (n_of_string k) with Some v -> string_of_n v | None -> "PANIC")
        | ["A"; k0; cnt; v] ->
          let k0 = n_of_string k0 and v = n_of_string v in
          let bad = ref false in
          for j = 0 to int_of_string cnt - 1 do
            (match t_add !t (N.add k0 (n_of_int j)) v with Some t' -> t := t' | None -> bad := true) done;
          if !bad then "PANIC" else "A"
        | ["P"; k0; cnt] ->
          let k0 = n_of_string k0 in
          let bad = ref false and n = ref 0 in
          for j = 0 to int_of_string cnt - 1 do
            (match t_poll dflt !t (N.add k0 (n_of_int j)) with Some v -> if not (eqb v dflt) then incr n | None -> bad := true) done;
          if !bad then "PANIC" else string_of_int !n
        | ["c"] -> t := t_clear !t; "c"
        | ["h"] -> (match t_hashfull dflt eqb !t with Some z -> string_of_z z | None -> "-")
        | ["l"] -> string_of_n (!t).t_len
        | _ -> failwith "tt op") ops in
    let n = int_of_n (!t).t_len in
    let dump = if n <= 4096 then String.concat "," (List.init n (fun i -> string_of_n (slot dflt !t (n_of_int i)))) else "big" in
    String.concat " " outs ^ " | " ^ dump
  | "matein1" ->
    let p = parse_fen f.(1) in
    Printf.sprintf "mates=%s inD=%s n=%d" (sorted_mvs (mating_moves p)) (b01 (in_D p)) (List.length (legal_moves p))
  | "qvalue" ->
    let p = parse_fen f.(1) in
    (match qvalue_b (nat_of_int 40) p (n_of_string f.(2)) with Some (v, _) -> string_of_z v | None -> "budget")
  | "uci2rel" ->
    let p0 = parse_fen f.(1) in
    let toks = if Array.length f < 3 || f.(2) = "" then [] else String.split_on_char ' ' f.(2) in
    let (_, out) = List.fold_left (fun (p, acc) t ->
        match find_move p (str_of_string t) with
        | Some m -> (makemove true p m, mv_str m :: acc)
        | None -> failwith ("uci2rel: not a legal move: " ^ t)) (p0, []) toks in
    String.concat " " (List.rev out)
  | "alldrawn" ->
    let p0 = parse_fen f.(1) in
    let toks = if Array.length f < 3 || f.(2) = "" then [] else String.split_on_char ' ' f.(2) in
    let ident p = let s = sstate_str (abs_state p) in
      (* identity of a position: placement, turn, castling-right flags, ep file *)
      (match String.split_on_char '/' s with
       | b :: t :: r :: e :: _ -> b ^ t ^ (String.map (fun c -> if c = '-' then '-' else 'x') r) ^ e
       | _ -> s) in
    let (p, game) = List.fold_left (fun (p, acc) t ->
        let q = if t = "null" then makenull p else makemove true p (mv_of_string t) in (q, q :: acc)) (p0, [p0]) toks in
    let window = List.filteri (fun i _ -> i <= int_of_z p.halfmoves) game in
    let ids = List.map ident window in
    let ms = legal_moves p in
    let drawn m =
      let q = makemove true p m in
      int_of_z q.halfmoves >= 100 || (int_of_z q.halfmoves > 0 && List.mem (ident q) ids) in
    if ms <> [] && List.for_all drawn ms then "1" else "0"
  | "posspecfen" ->
    let frc = f.(1) = "1" in
    let p = parse_fen ~frc f.(2) in
    (match denotes frc (abs_state p) (str_of_string f.(3)) with
     | Some m -> fen_of (makemove true p (enc p m))
     | None -> f.(2))
  | "style" ->
    (* style <k=v;...>: integer statistics of style.py; lists are comma separated, game_length is idx:freq pairs *)
    let tbl = Hashtbl.create 64 in
    List.iter (fun tok -> match String.index_opt tok '=' with
        | Some i -> Hashtbl.replace tbl (String.sub tok 0 i) (String.sub tok (i + 1) (String.length tok - i - 1))
        | None -> ()) (String.split_on_char ';' f.(1));
    let qi (s : string) : q = { qnum = z_of_int (int_of_string s); qden = XH } in
    let g k = qi (Hashtbl.find tbl k) in
    let gl k = let v = Hashtbl.find tbl k in if v = "" then [] else List.map qi (String.split_on_char ',' v) in
    let glen = let v = Hashtbl.find tbl "game_length" in
      if v = "" then [] else List.map (fun it -> match String.split_on_char ':' it with [a; b] -> (qi a, qi b) | _ -> failwith "gl") (String.split_on_char ',' v) in
    let st = { num_wins = g "num_wins"; num_draws = g "num_draws"; num_losses = g "num_losses"; num_games = g "num_games";
               castle_same = g "castle_same"; castle_opposite = g "castle_opposite"; total_captures = g "total_captures";
               total_noncaptures = g "total_noncaptures"; total_moves = g "total_moves"; checks = g "checks"; nonchecks = g "nonchecks";
               early_captures = g "early_captures"; mid_captures = g "mid_captures"; late_captures = g "late_captures";
               extreme_captures = g "extreme_captures"; capture_distance = gl "capture_distance";
               noncapture_distance = gl "noncapture_distance"; game_length = glen; short_games = g "short_games";
               medium_games = g "medium_games"; long_games = g "long_games"; extreme_games = g "extreme_games";
               num_win_ahead = g "num_win_ahead"; num_win_equal = g "num_win_equal"; num_win_behind = g "num_win_behind";
               early_pawn_pushes = gl "early_pawn_pushes"; mid_pawn_pushes = gl "mid_pawn_pushes"; late_pawn_pushes = gl "late_pawn_pushes";
               total_pawn_pushes = g "total_pawn_pushes"; total_pawn_pushes_towards_king = g "total_pawn_pushes_towards_king";
               num_rook_threats = g "num_rook_threats"; num_bishop_threats = g "num_bishop_threats" } in
    let sr r = match r with NoGames -> "None" | Raised -> "Raised" | Score x -> dec_of_z x.qnum ^ "/" ^ dec_of_pos x.qden in
    Printf.sprintf "valid=%s agg=%s pos=%s pp=%s" (b01 (Model.is_valid st)) (sr (aggression_score st)) (sr (positional_score st)) (sr (pawn_pusher_score st))
  | "stylegame" ->
    (* stylegame <w|b> <R:tok tok ...|R:...>: analyse_games of model/StyleGame.v; R = W (1-0), B (0-1), D (1/2-1/2); moves as in playout *)
    let side = f.(1) = "b" in
    let games = if Array.length f < 3 || f.(2) = "" then [] else
      List.map (fun g ->
        let hd = match g.[0] with 'W' -> WhiteWins | 'B' -> BlackWins | _ -> DrawnGame in
        let rest = String.sub g 2 (String.length g - 2) in
        let toks = List.filter (fun t -> t <> "") (String.split_on_char ' ' rest) in
        (hd, List.map mv_of_string toks)) (String.split_on_char '|' f.(2)) in
    let st = analyse_games side games in
    let qs (x : q) = if x.qden = XH then dec_of_z x.qnum else dec_of_z x.qnum ^ "/" ^ dec_of_pos x.qden in
    let ql l = String.concat "," (List.map qs l) in
    let sr r = match r with NoGames -> "None" | Raised -> "Raised" | Score x -> dec_of_z x.qnum ^ "/" ^ dec_of_pos x.qden in
    String.concat ";" [
      "num_wins=" ^ qs st.num_wins; "num_draws=" ^ qs st.num_draws; "num_losses=" ^ qs st.num_losses; "num_games=" ^ qs st.num_games;
      "castle_same=" ^ qs st.castle_same; "castle_opposite=" ^ qs st.castle_opposite;
      "total_captures=" ^ qs st.total_captures; "total_noncaptures=" ^ qs st.total_noncaptures; "total_moves=" ^ qs st.total_moves;
      "checks=" ^ qs st.checks; "nonchecks=" ^ qs st.nonchecks;
      "early_captures=" ^ qs st.early_captures; "mid_captures=" ^ qs st.mid_captures; "late_captures=" ^ qs st.late_captures;
      "extreme_captures=" ^ qs st.extreme_captures;
      "capture_distance=" ^ ql st.capture_distance; "noncapture_distance=" ^ ql st.noncapture_distance;
      "game_length=" ^ String.concat "," (List.map (fun (a, b) -> qs a ^ ":" ^ qs b) st.game_length);
      "short_games=" ^ qs st.short_games; "medium_games=" ^ qs st.medium_games; "long_games=" ^ qs st.long_games;
      "extreme_games=" ^ qs st.extreme_games;
      "num_win_ahead=" ^ qs st.num_win_ahead; "num_win_equal=" ^ qs st.num_win_equal; "num_win_behind=" ^ qs st.num_win_behind;
      "early_pawn_pushes=" ^ ql st.early_pawn_pushes; "mid_pawn_pushes=" ^ ql st.mid_pawn_pushes; "late_pawn_pushes=" ^ ql st.late_pawn_pushes;
      "total_pawn_pushes=" ^ qs st.total_pawn_pushes; "total_pawn_pushes_towards_king=" ^ qs st.total_pawn_pushes_towards_king;
      "num_rook_threats=" ^ qs st.num_rook_threats; "num_bishop_threats=" ^ qs st.num_bishop_threats;
      "valid=" ^ b01 (Model.is_valid st); "agg=" ^ sr (aggression_score st); "pos=" ^ sr (positional_score st); "pp=" ^ sr (pawn_pusher_score st) ]
  | "valid" ->
    (match set_fen false false (str_of_string f.(1)) with Some _ -> "1" | None -> "0")
  | c -> failwith ("unknown command " ^ c)

let () =
  try
    while true do
      let line = input_line stdin in
      let out = try handle line with Failure m -> "ERROR " ^ m | Invalid_argument m -> "ERROR " ^ m | Not_found -> "ERROR notfound" in
      print_string out; print_char '\n'
    done
  with End_of_file -> ()
