"""Per-property checks.  Each check_Cxx(run) fills `run` (cases, classes, samples, violations)."""
import json
import os

import vlib
from vlib import CheckFailure, kv

M64 = (1 << 64) - 1

STATE = {}


def prepare(run):
    """steps 1-2 of the decision procedure, shared by every property"""
    ok, log = vlib.gen_consts()
    STATE["translator_ok"] = ok
    STATE["translator_log"] = log
    forb = vlib.scan_forbidden()
    STATE["forbidden"] = forb
    target = f"props/{run.prop}.vo"
    has_props = os.path.exists(os.path.join(vlib.COQ, "props", f"{run.prop}.v"))
    mk, out, wall, cmd = vlib.coq_make([target] if has_props else None)
    STATE["make_ok"], STATE["make_log"], STATE["make_cmd"] = mk, out, cmd
    pr = vlib.coq_props(run.prop) if (has_props and mk) else None
    if has_props and not mk:
        pr = {"ok": False, "theorems": [], "printed": [], "closed": 0, "axioms": [], "bad_axioms": [],
              "cmd": "(not run: make failed)", "log": out}
        import re
        text = open(os.path.join(vlib.COQ, "props", f"{run.prop}.v")).read()
        text = re.sub(r"\(\*.*?\*\)", "", text, flags=re.S)
        pr["theorems"] = re.findall(r"^\s*(?:Theorem|Lemma|Corollary)\s+(\w+)", text, flags=re.M)
    run.obligations(pr, mk and ok and not forb, cmd, out)
    if pr is not None and (not ok or forb):
        run.proof_broken = ("translator: " + log) if not ok else ("forbidden tokens: " + "; ".join(forb))
        run.cov["discharged"] = 0
    run.cov["trusted_base"] = list(vlib.TRUSTED_BASE)
    run.cov["translator_warnings"] = [w for w in open(os.path.join(vlib.COQ, "model", "Consts.warnings")).read().split("\n") if w] \
        if os.path.exists(os.path.join(vlib.COQ, "model", "Consts.warnings")) else []
    # model side must build even when a proof is broken (proofs are kept out of model/)
    mk2, out2, _, _ = vlib.coq_make([f"model/{f[:-2]}.vo" for f in sorted(os.listdir(os.path.join(vlib.COQ, "model"))) if f.endswith(".v")]
                                    + [f"spec/{f[:-2]}.vo" for f in sorted(os.listdir(os.path.join(vlib.COQ, "spec"))) if f.endswith(".v")])
    if not mk2:
        raise CheckFailure("the Coq model itself does not compile:\n" + out2[-2000:])
    vlib.build_modelrun()
    vlib.build_harness("release")


def conclude(run):
    """step 4b/5: a broken obligation without a failing input is still reported"""
    broken = getattr(run, "proof_broken", None)
    if broken and not run.violations:
        run.violation("proof-obligation", "a proof obligation or the translator no longer checks",
                      {"theorems": run.cov.get("theorems", []), "log": broken}, found_input=False)
    elif broken:
        run.cov["explanation"] += " (proof obligations also failed to re-check: see replay)"


def replay(run, path):
    d = json.load(open(path))
    print(json.dumps(d["replay"], indent=1))
    return 0


# ====================================================================== helpers
def popcount(x):
    return bin(x).count("1")


def bits_of(x):
    return [i for i in range(64) if (x >> i) & 1]


def geo(sq, offs):
    f, r = sq % 8, sq // 8
    out = 0
    for df, dr in offs:
        nf, nr = f + df, r + dr
        if 0 <= nf < 8 and 0 <= nr < 8:
            out |= 1 << (8 * nr + nf)
    return out


KN = [(1, 2), (-1, 2), (2, 1), (2, -1), (-2, 1), (-2, -1), (1, -2), (-1, -2)]
KI = [(0, 1), (-1, 1), (1, 1), (-1, 0), (1, 0), (0, -1), (-1, -1), (1, -1)]
DIRS = {"ne": (1, 1), "nw": (-1, 1), "se": (1, -1), "sw": (-1, -1), "n": (0, 1), "s": (0, -1), "e": (1, 0), "w": (-1, 0)}


def set_geo(bb, offs):
    out = 0
    for s in bits_of(bb):
        out |= geo(s, offs)
    return out


def walk(sq, occ, d):
    f, r = sq % 8, sq // 8
    out = 0
    while True:
        f += d[0]
        r += d[1]
        if not (0 <= f < 8 and 0 <= r < 8):
            return out
        s = 8 * r + f
        out |= 1 << s
        if (occ >> s) & 1:
            return out


def subsets(mask):
    sub = 0
    while True:
        yield sub
        sub = (sub - mask) & mask
        if sub == 0:
            return


def relevant_mask(sq, dirs):
    m = 0
    for d in dirs:
        f, r = sq % 8, sq // 8
        ray = []
        while True:
            f += d[0]
            r += d[1]
            if not (0 <= f < 8 and 0 <= r < 8):
                break
            ray.append(8 * r + f)
        for s in ray[:-1]:
            m |= 1 << s
    return m


# ====================================================================== C10
def check_C10(run):
    rng = run.rng
    thorough = run.tier == "thorough"
    run.cov["rule"] = ("exhaustive: 64 squares x every subset of the relevant-occupancy mask for bishop and rook "
                       "(107648 lookups) + random full 64-bit occupancies + leaper tables for all 64 squares + set-wise "
                       "leaper/ray functions on single bits, edge patterns and random boards; a case is non-trivial "
                       "when its attack set is non-empty; distinct = distinct (kind, square, occupancy)")
    reqs, meta = [], []
    bd = [DIRS[k] for k in ("ne", "nw", "se", "sw")]
    rd = [DIRS[k] for k in ("n", "s", "e", "w")]
    for sq in range(64):
        for kind, dirs in (("B", bd), ("R", rd)):
            for sub in subsets(relevant_mask(sq, dirs)):
                reqs.append(f"magic\t{kind}\t{sq}\t{sub}")
                meta.append(("magic", kind, sq, sub))
    nrand = 2000 if thorough else 40
    for sq in range(64):
        for _ in range(nrand):
            occ = rng.getrandbits(64) & rng.getrandbits(64) if rng.random() < 0.5 else rng.getrandbits(64)
            kind = rng.choice("BR")
            reqs.append(f"magic\t{kind}\t{sq}\t{occ}")
            meta.append(("magic", kind, sq, occ))
    # leapers
    boards = [1 << i for i in range(64)] + [0, M64, 0x8181818181818181, 0xFF000000000000FF, 0x0101010101010101,
                                            0x8080808080808080, 0xFF, 0xFF << 56]
    boards += [rng.getrandbits(64) & rng.getrandbits(64) for _ in range(3000 if thorough else 150)]
    boards += [rng.getrandbits(64) for _ in range(3000 if thorough else 150)]
    for bb in boards:
        for kind in ("N", "K", "P1", "P0", "POP", "LSB", "FLIP"):
            if kind == "LSB" and bb == 0:
                continue
            reqs.append(f"leaper\t{kind}\t{bb}")
            meta.append(("leaper", kind, bb, 0))
        if bb:
            reqs.append(f"leaper\tHSB\t{bb}")
            meta.append(("leaper", "HSB", bb, 0))
    for sq in range(64):
        for kind in ("NSQ", "KSQ"):
            reqs.append(f"leaper\t{kind}\t{sq}")
            meta.append(("leaper", kind, sq, 0))
    for sq in range(64):
        for d in DIRS:
            for _ in range(200 if thorough else 12):
                bl = rng.getrandbits(64) & rng.getrandbits(64) if rng.random() < 0.7 else rng.getrandbits(64)
                reqs.append(f"ray\t{d}\t{sq}\t{bl}")
                meta.append(("ray", d, sq, bl))
    impl, _ = vlib.run_impl_par(reqs)
    model = vlib.run_model_par(reqs, n=8)
    nviol = 0
    for rq, m, a, b in zip(reqs, meta, impl, model):
        # the oracle: coordinate geometry, computed here independently of both sides
        if m[0] == "magic":
            dirs = bd if m[1] == "B" else rd
            want = 0
            for d in dirs:
                want |= walk(m[2], m[3], d)
            mt, mw = b.split(" ")
            cls = "bishop" if m[1] == "B" else "rook"
            model_val = mt
            spec_ok_model = (int(mt) == want and int(mw) == want)
        elif m[0] == "leaper":
            k, x = m[1], m[2]
            want = {"N": lambda: set_geo(x, KN), "K": lambda: set_geo(x, KI),
                    "P1": lambda: set_geo(x, [(1, 1), (-1, 1)]), "P0": lambda: set_geo(x, [(1, -1), (-1, -1)]),
                    "NSQ": lambda: geo(x, KN), "KSQ": lambda: geo(x, KI), "POP": lambda: popcount(x),
                    "LSB": lambda: (x & -x).bit_length() - 1, "HSB": lambda: x.bit_length() - 1,
                    "FLIP": lambda: int.from_bytes(x.to_bytes(8, "little"), "big")}[k]()
            cls = "leaper-" + k
            model_val = b
            spec_ok_model = int(b) == want
        else:
            want = walk(m[2], m[3], DIRS[m[1]])
            cls = "ray-" + m[1]
            model_val = b
            spec_ok_model = int(b) == want
        run.note_case((m[0], m[1], m[2], m[3]), cls, nontrivial=(want != 0))
        if not a.isdigit() or int(a) != want:
            nviol += 1
            if nviol <= 20:
                run.violation(f"{cls}", f"implementation answers {a}, geometry says {want}",
                              {"request": rq, "implementation": a, "model": b, "expected_by_geometry": want,
                               "repro": f"printf '{rq}\\n' | .build/cargo/release/rawr_harness /dev/stdout"})
        elif not spec_ok_model or a != model_val:
            nviol += 1
            if nviol <= 20:
                run.violation("model-vs-geometry", "the model disagrees with geometry (model defect or changed constant)",
                              {"request": rq, "implementation": a, "model": b, "expected_by_geometry": want},
                              found_input=False)
    run.cov["exhaustive"] = True
    run.cov["traces_validated_against_impl"] = len(reqs)
    run.sample({"request": reqs[5000], "implementation": impl[5000], "model(table walk)": model[5000]})
    run.sample({"request": reqs[-1], "implementation": impl[-1], "model": model[-1]})
    run.cov["explanation"] = ("C10_bishop_exact/C10_rook_exact/C10_queen_exact: lookup = coordinate walk for all squares and ALL "
                              "occupancies (unbounded), by a vm_compute sweep over the regenerated magics lifted by lemma; "
                              "leaper/ray functions: see theorems listed; tie: every slider lookup of the real library on the "
                              "complete reduced domain against geometry computed independently")


CHECKS = {"C10": check_C10}
