"""Per-property checks.  Each check_Cxx(run) fills `run` (cases, classes, samples, violations)."""
import json
import os

import vlib
from vlib import CheckFailure, kv

M64 = (1 << 64) - 1

STATE = {}


def prepare(run):
    """steps 1-2 of the decision procedure, shared by every property"""
    ok, log = vlib.gen_consts()
    STATE["translator_ok"] = ok
    STATE["translator_log"] = log
    forb = vlib.scan_forbidden()
    STATE["forbidden"] = forb
    target = f"props/{run.prop}.vo"
    has_props = os.path.exists(os.path.join(vlib.COQ, "props", f"{run.prop}.v"))
    mk, out, wall, cmd = vlib.coq_make([target] if has_props else None)
    STATE["make_ok"], STATE["make_log"], STATE["make_cmd"] = mk, out, cmd
    pr = vlib.coq_props(run.prop) if (has_props and mk) else None
    if has_props and not mk:
        pr = {"ok": False, "theorems": [], "printed": [], "closed": 0, "axioms": [], "bad_axioms": [],
              "cmd": "(not run: make failed)", "log": out}
        import re
        text = open(os.path.join(vlib.COQ, "props", f"{run.prop}.v")).read()
        text = re.sub(r"\(\*.*?\*\)", "", text, flags=re.S)
        pr["theorems"] = re.findall(r"^\s*(?:Theorem|Lemma|Corollary)\s+(\w+)", text, flags=re.M)
    run.obligations(pr, mk and ok and not forb, cmd, out)
    if pr is not None and (not ok or forb):
        run.proof_broken = ("translator: " + log) if not ok else ("forbidden tokens: " + "; ".join(forb))
        run.cov["discharged"] = 0
    run.cov["trusted_base"] = list(vlib.TRUSTED_BASE)
    run.cov["translator_warnings"] = [w for w in open(os.path.join(vlib.COQ, "model", "Consts.warnings")).read().split("\n") if w] \
        if os.path.exists(os.path.join(vlib.COQ, "model", "Consts.warnings")) else []
    # model side must build even when a proof is broken (proofs are kept out of model/)
    mk2, out2, _, _ = vlib.coq_make([f"model/{f[:-2]}.vo" for f in sorted(os.listdir(os.path.join(vlib.COQ, "model"))) if f.endswith(".v")]
                                    + [f"spec/{f[:-2]}.vo" for f in sorted(os.listdir(os.path.join(vlib.COQ, "spec"))) if f.endswith(".v")])
    if not mk2:
        raise CheckFailure("the Coq model itself does not compile:\n" + out2[-2000:])
    vlib.build_modelrun()
    vlib.build_harness("release")


def conclude(run):
    """step 4b/5: a broken obligation without a failing input is still reported"""
    broken = getattr(run, "proof_broken", None)
    if broken and not run.violations:
        run.violation("proof-obligation", "a proof obligation or the translator no longer checks",
                      {"theorems": run.cov.get("theorems", []), "log": broken}, found_input=False)
    elif broken:
        run.cov["explanation"] += " (proof obligations also failed to re-check: see replay)"


def replay(run, path):
    d = json.load(open(path))
    print(json.dumps(d["replay"], indent=1))
    return 0


# ====================================================================== helpers
def popcount(x):
    return bin(x).count("1")


def bits_of(x):
    return [i for i in range(64) if (x >> i) & 1]


def geo(sq, offs):
    f, r = sq % 8, sq // 8
    out = 0
    for df, dr in offs:
        nf, nr = f + df, r + dr
        if 0 <= nf < 8 and 0 <= nr < 8:
            out |= 1 << (8 * nr + nf)
    return out


KN = [(1, 2), (-1, 2), (2, 1), (2, -1), (-2, 1), (-2, -1), (1, -2), (-1, -2)]
KI = [(0, 1), (-1, 1), (1, 1), (-1, 0), (1, 0), (0, -1), (-1, -1), (1, -1)]
DIRS = {"ne": (1, 1), "nw": (-1, 1), "se": (1, -1), "sw": (-1, -1), "n": (0, 1), "s": (0, -1), "e": (1, 0), "w": (-1, 0)}


def set_geo(bb, offs):
    out = 0
    for s in bits_of(bb):
        out |= geo(s, offs)
    return out


def walk(sq, occ, d):
    f, r = sq % 8, sq // 8
    out = 0
    while True:
        f += d[0]
        r += d[1]
        if not (0 <= f < 8 and 0 <= r < 8):
            return out
        s = 8 * r + f
        out |= 1 << s
        if (occ >> s) & 1:
            return out


def subsets(mask):
    sub = 0
    while True:
        yield sub
        sub = (sub - mask) & mask
        if sub == 0:
            return


def relevant_mask(sq, dirs):
    m = 0
    for d in dirs:
        f, r = sq % 8, sq // 8
        ray = []
        while True:
            f += d[0]
            r += d[1]
            if not (0 <= f < 8 and 0 <= r < 8):
                break
            ray.append(8 * r + f)
        for s in ray[:-1]:
            m |= 1 << s
    return m


# ====================================================================== C10
def check_C10(run):
    rng = run.rng
    thorough = run.tier == "thorough"
    run.cov["rule"] = ("exhaustive: 64 squares x every subset of the relevant-occupancy mask for bishop and rook "
                       "(107648 lookups) + random full 64-bit occupancies + leaper tables for all 64 squares + set-wise "
                       "leaper/ray functions on single bits, edge patterns and random boards; a case is non-trivial "
                       "when its attack set is non-empty; distinct = distinct (kind, square, occupancy)")
    reqs, meta = [], []
    bd = [DIRS[k] for k in ("ne", "nw", "se", "sw")]
    rd = [DIRS[k] for k in ("n", "s", "e", "w")]
    for sq in range(64):
        for kind, dirs in (("B", bd), ("R", rd)):
            for sub in subsets(relevant_mask(sq, dirs)):
                reqs.append(f"magic\t{kind}\t{sq}\t{sub}")
                meta.append(("magic", kind, sq, sub))
    nrand = 2000 if thorough else 40
    for sq in range(64):
        for _ in range(nrand):
            occ = rng.getrandbits(64) & rng.getrandbits(64) if rng.random() < 0.5 else rng.getrandbits(64)
            kind = rng.choice("BR")
            reqs.append(f"magic\t{kind}\t{sq}\t{occ}")
            meta.append(("magic", kind, sq, occ))
    # leapers
    boards = [1 << i for i in range(64)] + [0, M64, 0x8181818181818181, 0xFF000000000000FF, 0x0101010101010101,
                                            0x8080808080808080, 0xFF, 0xFF << 56]
    boards += [rng.getrandbits(64) & rng.getrandbits(64) for _ in range(3000 if thorough else 150)]
    boards += [rng.getrandbits(64) for _ in range(3000 if thorough else 150)]
    for bb in boards:
        for kind in ("N", "K", "P1", "P0", "POP", "LSB", "FLIP"):
            if kind == "LSB" and bb == 0:
                continue
            reqs.append(f"leaper\t{kind}\t{bb}")
            meta.append(("leaper", kind, bb, 0))
        if bb:
            reqs.append(f"leaper\tHSB\t{bb}")
            meta.append(("leaper", "HSB", bb, 0))
    for sq in range(64):
        for kind in ("NSQ", "KSQ"):
            reqs.append(f"leaper\t{kind}\t{sq}")
            meta.append(("leaper", kind, sq, 0))
    for sq in range(64):
        for d in DIRS:
            for _ in range(200 if thorough else 12):
                bl = rng.getrandbits(64) & rng.getrandbits(64) if rng.random() < 0.7 else rng.getrandbits(64)
                reqs.append(f"ray\t{d}\t{sq}\t{bl}")
                meta.append(("ray", d, sq, bl))
    impl, _ = vlib.run_impl_par(reqs)
    model = vlib.run_model_par(reqs, n=8)
    nviol = 0
    for rq, m, a, b in zip(reqs, meta, impl, model):
        # the oracle: coordinate geometry, computed here independently of both sides
        if m[0] == "magic":
            dirs = bd if m[1] == "B" else rd
            want = 0
            for d in dirs:
                want |= walk(m[2], m[3], d)
            mt, mw = b.split(" ")
            cls = "bishop" if m[1] == "B" else "rook"
            model_val = mt
            spec_ok_model = (int(mt) == want and int(mw) == want)
        elif m[0] == "leaper":
            k, x = m[1], m[2]
            want = {"N": lambda: set_geo(x, KN), "K": lambda: set_geo(x, KI),
                    "P1": lambda: set_geo(x, [(1, 1), (-1, 1)]), "P0": lambda: set_geo(x, [(1, -1), (-1, -1)]),
                    "NSQ": lambda: geo(x, KN), "KSQ": lambda: geo(x, KI), "POP": lambda: popcount(x),
                    "LSB": lambda: (x & -x).bit_length() - 1, "HSB": lambda: x.bit_length() - 1,
                    "FLIP": lambda: int.from_bytes(x.to_bytes(8, "little"), "big")}[k]()
            cls = "leaper-" + k
            model_val = b
            spec_ok_model = int(b) == want
        else:
            want = walk(m[2], m[3], DIRS[m[1]])
            cls = "ray-" + m[1]
            model_val = b
            spec_ok_model = int(b) == want
        run.note_case((m[0], m[1], m[2], m[3]), cls, nontrivial=(want != 0))
        if not a.isdigit() or int(a) != want:
            nviol += 1
            if nviol <= 20:
                run.violation(f"{cls}", f"implementation answers {a}, geometry says {want}",
                              {"request": rq, "implementation": a, "model": b, "expected_by_geometry": want,
                               "repro": f"printf '{rq}\\n' | .build/cargo/release/rawr_harness /dev/stdout"})
        elif not spec_ok_model or a != model_val:
            nviol += 1
            if nviol <= 20:
                run.violation("model-vs-geometry", "the model disagrees with geometry (model defect or changed constant)",
                              {"request": rq, "implementation": a, "model": b, "expected_by_geometry": want},
                              found_input=False)
    run.cov["exhaustive"] = True
    run.cov["traces_validated_against_impl"] = len(reqs)
    run.sample({"request": reqs[5000], "implementation": impl[5000], "model(table walk)": model[5000]})
    run.sample({"request": reqs[-1], "implementation": impl[-1], "model": model[-1]})
    run.cov["explanation"] = ("C10_bishop_exact/C10_rook_exact/C10_queen_exact: lookup = coordinate walk for all squares and ALL "
                              "occupancies (unbounded), by a vm_compute sweep over the regenerated magics lifted by lemma; "
                              "leaper/ray functions: see theorems listed; tie: every slider lookup of the real library on the "
                              "complete reduced domain against geometry computed independently")


CHECKS = {"C10": check_C10}


# ====================================================================== chess core: C01 C02 C04 C08
import gen as G  # noqa: E402


def pool_for(run):
    if run.tier == "thorough":
        return G.build_pool(run, 1500, 120, 1500, "core")
    return G.build_pool(run, 70, 70, 60, "core")


def mv_sorted(s):
    if not s:
        return []
    return sorted(tuple(int(x) for x in m.split("-")) for m in s.split(","))


def mv_list(s):
    if not s:
        return []
    return [tuple(int(x) for x in m.split("-")) for m in s.split(",")]


def classify_position(fen, d):
    cls = []
    if d.get("chk") == "1":
        cls.append("check")
    parts = fen.split(" ")
    if parts[3] != "-":
        cls.append("ep-state")
    if parts[2] != "-":
        cls.append("castling-rights")
    return cls


def check_C01(run):
    P = pool_for(run)
    pool = P["pool"]
    run.cov["rule"] = ("positions of D: legal play-outs (biased to captures, castling, promotions, en passant, with null moves) from "
                       "the start position, every FEN of the test-suite and benchmark, Chess960/double-Chess960 starts (KQkq and "
                       "file-letter castling), pattern templates (pins per ray, checks, double checks, en passant incl. rank "
                       "pins, Chess960 castling incl. pinned rook, promotions), all filtered by the executable in_D; compared as "
                       "move SETS with the 8x8 rules specification; non-trivial = at least one of check/pin-template/ep/castling/"
                       "promotion applies; distinct = distinct FEN")
    reqs = [f"gen\t{e['fen']}" for e in pool]
    impl, _ = vlib.run_impl_par(reqs)
    model = vlib.run_model_par(reqs)
    nv = 0
    ngood = 0
    for e, a, b in zip(pool, impl, model):
        fen = e["fen"]
        db = kv(b)
        if b.startswith("ERROR"):
            continue
        spec = mv_sorted(db.get("spec", ""))
        kinds = set(db.get("pieces", ""))
        cl = classify_position(fen, db)
        promos = any(m[2] != 6 for m in spec)
        if promos:
            cl.append("promotion")
        castles = False
        run.note_case(fen, e["cls"], nontrivial=bool(cl) or e["cls"] in ("pin", "check", "ep", "castle960", "promo"))
        ngood += 1
        if db.get("good") != "1":
            nv += 1
            if nv <= 25:
                run.violation("theorem-premise", "invr_b (good_pos_b, the enemy-side conditions, at most 16 men a side and the en-passant consistency ep_ok_b: the position-level hypothesis of C02_every_generated_move_refines / "
                              "C04_every_generated_move_keeps_the_key / C02_invariant_is_kept) is false on a position of D", {"fen": fen, "model": b[-200:]}, found_input=False)
        for c in cl:
            run.cov["classes"]["feature:" + c] = run.cov["classes"].get("feature:" + c, 0) + 1
        if a.startswith("PANIC") or a.startswith("DIED"):
            nv += 1
            run.violation("panic", "move generation panics on a position of D", {"fen": fen, "implementation": a})
            continue
        da = kv(a)
        im = mv_list(da.get("moves", ""))
        if sorted(im) != spec or len(set(im)) != len(im) or "CALLBACK-MISMATCH" in a:
            nv += 1
            missing = sorted(set(spec) - set(im))
            extra = sorted(set(im) - set(spec))
            if nv <= 25:
                run.violation("movegen-vs-rules",
                              f"generated moves differ from the rules: missing {missing[:6]} extra {extra[:6]} dup {len(im) - len(set(im))}",
                              {"fen": fen, "class": e["cls"], "implementation_moves": da.get("moves", ""), "rules_moves": db.get("spec", ""),
                               "missing(from,to,promo relative)": missing, "extra": extra,
                               "repro": f"printf 'gen\\t{fen}\\n' | .build/cargo/release/rawr_harness /dev/stdout"})
        elif sorted(im) != mv_sorted(db.get("moves", "")):
            nv += 1
            run.violation("model-mismatch", "model and implementation generate different sets although the implementation matches the rules",
                          {"fen": fen, "implementation": a, "model": b}, found_input=False)
    run.cov["traces_validated_against_impl"] = len(reqs)
    for i in (0, len(pool) // 2, len(pool) - 1):
        run.sample({"fen": pool[i]["fen"], "class": pool[i]["cls"], "implementation": impl[i][:300]})
    run.cov["good_pos_b_true_on_positions"] = ngood
    run.cov["explanation"] = ("proof on the model: C01_movegen_exact -- on every position satisfying the invariant inv_b and the en-passant consistency ep_ok_b (both "
                              "evaluated true on every position of D here) a move is generated iff it encodes a legal move of the rules, and none twice; closed lemmas are "
                              "listed under 'theorems'. The tie of that model to the Rust generator is this differential against the executable specification "
                              "spec/Rules.v (extracted), which is a test, not a proof")


def check_C08(run):
    P = pool_for(run)
    pool = P["pool"]
    rng = run.rng
    run.cov["rule"] = ("same positions as C01; per position: count_moves vs number generated, capture list vs filter of the generated "
                       "list in order, is_capture vs the rules per move; on a sample: five attack queries on all 64 squares x both "
                       "sides and random square sets vs the rules' attack relation; perft(1..3) vs leaves of the rules' tree")
    reqs = [f"gen\t{e['fen']}" for e in pool]
    sub = [e for e in pool if rng.random() < (0.5 if run.tier == "thorough" else 0.25)]
    masks = [rng.getrandbits(64) & rng.getrandbits(64) if rng.random() < 0.7 else (1 << rng.randrange(64)) for _ in sub]
    att = [f"att\t{e['fen']}\t{m}" for e, m in zip(sub, masks)]
    satt = [f"specatt\t{e['fen']}" for e in sub]
    psub = [e for e in pool if rng.random() < (0.08 if run.tier == "thorough" else 0.05)]
    pd = [(e, d) for e in psub for d in ((1, 2, 3) if run.tier == "quick" else (1, 2, 3))]
    perft = [f"perft\t{e['fen']}\t{d}" for e, d in pd]
    leaves = [f"leaves\t{e['fen']}\t{d}" for e, d in pd]
    impl, _ = vlib.run_impl_par(reqs + att + perft)
    model = vlib.run_model_par(reqs + satt + leaves)
    n = len(reqs)
    nv = 0
    for e, a, b in zip(pool, impl[:n], model[:n]):
        fen = e["fen"]
        if b.startswith("ERROR"):
            continue
        if a.startswith("PANIC") or a.startswith("DIED"):
            run.violation("panic", "panic in counting / capture generation", {"fen": fen, "implementation": a})
            continue
        da, db = kv(a), kv(b)
        im = mv_list(da.get("moves", ""))
        caps = mv_list(da.get("caps", ""))
        flags = da.get("iscap", "")
        speccaps = set(mv_sorted(db.get("speccaps", "")))
        run.note_case(fen, e["cls"], nontrivial=len(speccaps) > 0)
        bad = None
        if int(da["count"]) != len(im):
            bad = f"count_moves = {da['count']} but {len(im)} moves are generated"
        elif caps != [m for m, fl in zip(im, flags) if fl == "1"]:
            bad = "legal_captures is not the generated list filtered by is_capture, in order"
        elif set(m for m, fl in zip(im, flags) if fl == "1") != speccaps and sorted(im) == mv_sorted(db.get("spec", "")):
            bad = f"is_capture disagrees with the rules: {sorted(set(m for m, fl in zip(im, flags) if fl == '1') ^ speccaps)[:6]}"
        if bad:
            nv += 1
            if nv <= 25:
                run.violation("count-captures", bad, {"fen": fen, "implementation": a, "rules_captures": db.get("speccaps", ""),
                                                      "repro": f"printf 'gen\\t{fen}\\n' | .build/cargo/release/rawr_harness /dev/stdout"})
    napre = 0
    for e, m, a, b in zip(sub, masks, impl[n:n + len(att)], model[n:n + len(att)]):
        fen = e["fen"]
        run.note_case(("att", fen, m), "attack-queries")
        if a.startswith("PANIC") or a.startswith("DIED"):
            run.violation("panic", "panic in an attack query", {"fen": fen, "mask": m, "implementation": a})
            continue
        da, db = kv(a), kv(b)
        napre += 1
        if db.get("apre") != "1":
            nv += 1
            if nv <= 25:
                run.violation("theorem-premise", "attack_pre_b (the hypothesis of C08_attack_query_premises) is false on a position of D: "
                              "the theorem does not cover it", {"fen": fen, "model": b}, found_input=False)
        su, st = int(db["sq_us"]), int(db["sq_them"])
        board = G.parse_board(fen)
        black = fen.split(" ")[1] == "b"
        ksq = {c: (s ^ 56 if black else s) for s, c in board.items() if c in "Kk"}
        us_k, them_k = (ksq["k"], ksq["K"]) if black else (ksq["K"], ksq["k"])
        want = {"sq_us": su, "sq_them": st, "bb_us": int((su & m) != 0), "bb_them": int((st & m) != 0),
                "ga_us": su & m, "ga_them": st & m, "chk": (st >> us_k) & 1, "chkthem": (su >> them_k) & 1}
        got = {k: int(da[k]) for k in want}
        if got != want:
            nv += 1
            diff = {k: (got[k], want[k]) for k in want if got[k] != want[k]}
            if nv <= 25:
                run.violation("attack-query", f"attack query differs from the rules (got, rules): {diff}",
                              {"fen": fen, "mask": m, "implementation": a, "rules": b,
                               "repro": f"printf 'att\\t{fen}\\t{m}\\n' | .build/cargo/release/rawr_harness /dev/stdout"})
    off = n + len(att)
    for (e, d), a, b in zip(pd, impl[off:], model[off:]):
        run.note_case(("perft", e["fen"], d), f"perft-{d}")
        if a != b:
            nv += 1
            run.violation("perft", f"perft({d}) = {a}, the rules' tree has {b} leaves",
                          {"fen": e["fen"], "depth": d, "implementation": a, "rules_leaves": b,
                           "repro": f"printf 'perft\\t{e['fen']}\\t{d}\\n' | .build/cargo/release/rawr_harness /dev/stdout"})
    run.cov["traces_validated_against_impl"] = len(reqs) + len(att) + len(perft)
    run.sample({"request": att[0] if att else "", "implementation": impl[n] if att else ""})
    run.sample({"request": perft[0] if perft else "", "implementation": impl[off] if perft else "", "rules_leaves": model[off] if perft else ""})
    run.cov["attack_pre_b_true_on_positions"] = napre
    run.cov["explanation"] = ("proof on the model (closed lemmas under 'theorems'): the square attack query and the set-valued queries = Rules.attacked for both frames "
                              f"under attack_pre_b, evaluated (true) on all {napre} positions of this run; count_moves = length, captures = the rules' captures, perft d = the rules' "
                              "leaf count for every depth (PerftRules, on C01's equivalence); the tie to the code: count/captures/is_capture/set-valued "
                              "attack queries/perft of the real library are compared with the rules specification on generated positions of D")


def make_requests(run, pool, frac):
    rng = run.rng
    # stratified by provenance class: a fraction of every class, and never fewer than a handful of the rare ones
    by = {}
    for e in pool:
        by.setdefault(e["cls"], []).append(e)
    chosen = []
    for cls in sorted(by):
        es = by[cls]
        k = max(int(round(frac * len(es))), min(len(es), 6))
        chosen += rng.sample(es, k)
    # clocks around and beyond the fifty-move threshold, large full-move numbers
    bumped = []
    for e in chosen:
        if rng.random() < 0.2:
            parts = e["fen"].split(" ")
            parts[4] = str(rng.choice([97, 98, 99, 100, 101, 150, 200, 1000]))
            parts[5] = str(rng.choice([1, 60, 500, 30000]))
            if parts[3] == "-":
                bumped.append({"cls": e["cls"] + "+clock", "fen": " ".join(parts)})
                continue
        bumped.append(e)
    chosen = bumped
    gens = vlib.run_model_par([f"gen\t{e['fen']}" for e in chosen])
    reqs, meta = [], []
    for e, g in zip(chosen, gens):
        d = kv(g)
        ms = d.get("moves", "")
        for m in (ms.split(",") if ms else []):
            reqs.append(f"make\t{e['fen']}\t{m}")
            meta.append((e, m))
        if d.get("chk") == "0":
            reqs.append(f"make\t{e['fen']}\tnull")
            meta.append((e, "null"))
    return reqs, meta


def move_class(fen, m, dump_after):
    if m == "null":
        return "null"
    f, t, p = (int(x) for x in m.split("-"))
    board = G.parse_board(fen)
    black = fen.split(" ")[1] == "b"
    rel = lambda s: s ^ 56 if black else s
    pc = board.get(rel(f), "?")
    tg = board.get(rel(t))
    cls = []
    if pc in "Kk" and tg is not None and tg.isupper() == pc.isupper():
        return "castle-k" if t > f else "castle-q"
    if p != 6:
        cls.append("promo")
    if tg is not None:
        cls.append("capture-" + tg.lower())
    if pc in "Pp" and tg is None and (f % 8) != (t % 8):
        cls.append("ep")
    if pc in "Pp" and abs(t - f) == 16:
        cls.append("double")
    if not cls:
        cls.append("quiet-" + pc.lower())
    return "+".join(cls)


def check_C02(run):
    P = pool_for(run)
    pool, games = P["pool"], P["games"]
    run.cov["rule"] = ("every legal move (and the null move when not in check) of a sample of the C01 position pool: all public fields "
                       "after make-move, with and without incremental key, against the model; the model's result abstracted to the "
                       "8x8 board against Rules.apply; result must be structurally valid and in D; plus whole play-outs incl. null "
                       "moves replayed move by move; class = move kind; non-trivial = not a quiet non-pawn move")
    reqs, meta = make_requests(run, pool, 0.5 if run.tier == "thorough" else 0.12)
    plays = [f"play\t{g['start']}\t{g['moves']}" for g in games]
    impl, _ = vlib.run_impl_par(reqs + plays)
    model = vlib.run_model_par(reqs + plays)
    nv = 0
    nprem = 0
    todo = []
    for i, ((e, m), a, b) in enumerate(zip(meta, impl, model)):
        cls = move_class(e["fen"], m, b)
        run.note_case((e["fen"], m), cls, nontrivial=not cls.startswith("quiet-") or cls == "quiet-p")
        db = kv(b)
        spec = b.split(" spec=")[1].split(" ")[0] if " spec=" in b else ""
        mabs = b.split(" abs=")[1].split(" ")[0] if " abs=" in b else ""
        if a.startswith("PANIC") or a.startswith("DIED"):
            nv += 1
            run.violation("panic", "make-move panics on a legal move", {"fen": e["fen"], "move": m, "implementation": a})
            continue
        a_core = a.split(" spec=")[0]
        b_core = b.split(" spec=")[0]
        if m != "null":
            nprem += 1
            if db.get("good") != "1":
                nv += 1
                if nv <= 25:
                    run.violation("theorem-premise", "invr_b (the hypothesis of C02_every_generated_move_refines and C02_invariant_is_kept_by_every_generated_move) is false on a position of D",
                                  {"fen": e["fen"], "model": b[-200:]}, found_input=False)
            if db.get("prem") != "1":
                nv += 1
                if nv <= 25:
                    run.violation("theorem-premise", "refines_b (the hypothesis of C02_makemove_refines) is false on a legal move: "
                                  "the theorem does not cover it", {"fen": e["fen"], "move": m, "class": cls, "model": b}, found_input=False)
        if a_core != b_core:
            todo.append((i, e, m, a, b, spec))
        elif spec != mabs or db.get("valid") != "1" or db.get("inD") != "1":
            nv += 1
            if nv <= 25:
                run.violation("makemove-vs-rules", "successor differs from the one the rules prescribe (or is not a valid position of D)",
                              {"fen": e["fen"], "move(from-to-promo, mover-relative)": m, "implementation": a, "rules_successor": spec,
                               "implementation_successor": mabs,
                               "repro": f"printf 'make\\t{e['fen']}\\t{m}\\n' | .build/cargo/release/rawr_harness /dev/stdout"})
    if todo:
        # implementation and model differ: abstract the implementation's own result and ask the rules
        outs = vlib.run_model_par(["absdump\t" + a.split(" pred=")[0].split(" calc=")[0] for _, _, _, a, _, _ in todo])
        for (i, e, m, a, b, spec), o in zip(todo, outs):
            iabs = o.split("abs=")[1].split(" ")[0] if "abs=" in o else o
            ok = (iabs == spec) and " valid=1" in o and " valid=1" in a
            nv += 1
            if nv <= 25:
                if not ok:
                    run.violation("makemove-vs-rules", "successor differs from the one the rules prescribe",
                                  {"fen": e["fen"], "move(from-to-promo, mover-relative)": m, "implementation": a,
                                   "rules_successor": spec, "implementation_successor": iabs,
                                   "repro": f"printf 'make\\t{e['fen']}\\t{m}\\n' | .build/cargo/release/rawr_harness /dev/stdout"})
                else:
                    run.violation("model-mismatch", "model and implementation differ in a field the rules do not constrain",
                                  {"fen": e["fen"], "move": m, "implementation": a, "model": b}, found_input=False)
    off = len(reqs)
    for g, a, b in zip(games, impl[off:], model[off:]):
        run.note_case(("play", g["start"], g["moves"]), "sequence-" + g["cls"])
        if a != b:
            nv += 1
            # shrink: shortest prefix on which the two sides differ
            toks = g["moves"].split(" ")
            lo = None
            for k in range(1, len(toks) + 1):
                rq = [f"play\t{g['start']}\t{' '.join(toks[:k])}"]
                ia, _ = vlib.run_impl(rq)
                mb = vlib.run_model(rq)
                if ia != mb:
                    lo = (k, ia[0], mb[0])
                    break
            run.violation("sequence", "a sequence of legal and null moves ends in different positions (implementation vs model)",
                          {"start": g["start"], "moves": " ".join(toks[:lo[0]]) if lo else g["moves"],
                           "implementation": lo[1] if lo else a, "model": lo[2] if lo else b})
    run.cov["traces_validated_against_impl"] = len(reqs) + len(plays)
    run.sample({"request": reqs[0], "implementation": impl[0][:400]})
    run.sample({"request": plays[0][:300], "implementation": impl[off][:300]})
    run.cov["refines_b_true_on_legal_moves"] = nprem
    run.cov["explanation"] = ("PARTIAL proof: makemove = Rules.apply proved for EVERY generated move of a position passing good_pos_b (no per-move premise; also per move under refines_b), "
                              f"which was evaluated (true) on all {nprem} legal moves of this run; the invariant InvR (executable invr_b, evaluated true on every position of D here) is kept by "
                              "every generated move with no legality premise (GenLegal.v), so the refinement holds along every sequence of generated moves; the tie of the model to the "
                              "code rests on running model, implementation and specification on every legal move of sampled positions and along play-outs")


KEYS_TURN = None


def check_C04(run):
    P = pool_for(run)
    pool, games = P["pool"], P["games"]
    run.cov["rule"] = ("every legal move and null move of sampled positions: predicted key = key after the move = key recomputed from "
                       "scratch; whole play-outs: incremental key = recomputed key at every step; all positions met: equal "
                       "(placement, turn, rights, ep file) <=> equal key; class = move kind")
    reqs, meta = make_requests(run, pool, 0.5 if run.tier == "thorough" else 0.12)
    plays = [f"play\t{g['start']}\t{g['moves']}" for g in games]
    impl, _ = vlib.run_impl_par(reqs + plays)
    model = vlib.run_model_par(reqs + plays)
    nv = 0
    feats = {}      # key -> feature tuple
    byfeat = {}

    def note_key(spec_abs, key, where):
        nonlocal nv
        parts = spec_abs.split("/")
        if len(parts) < 6:
            return
        rights = parts[2]
        ep = parts[3].split(",")[0] if parts[3] != "-" else "-"
        ft = (parts[0], parts[1], rights, ep)
        if key in feats and feats[key] != ft:
            # the four castle files are part of `rights` here; positions differing only in WHICH rook a right refers to
            # share a key by design (rights are keyed per colour and wing)
            def flags(r):
                return tuple(c != "-" for c in r)
            a, b = feats[key], ft
            if (a[0], a[1], a[3]) != (b[0], b[1], b[3]) or flags(a[2]) != flags(b[2]):
                nv += 1
                run.violation("key-collision", "two different positions met in this run share a key",
                              {"key": key, "position_1": feats[key], "position_2": ft, "where": where})
        feats.setdefault(key, ft)
        if ft in byfeat and byfeat[ft] != key:
            nv += 1
            run.violation("key-not-function", "the same (placement, turn, rights, ep file) was given two different keys",
                          {"position": ft, "key_1": byfeat[ft], "key_2": key, "where": where})
        byfeat.setdefault(ft, key)

    nkprem = 0
    for (e, m), a, b in zip(meta, impl, model):
        cls = move_class(e["fen"], m, b)
        run.note_case((e["fen"], m), cls, nontrivial=not cls.startswith("quiet-"))
        if a.startswith("PANIC") or a.startswith("DIED"):
            nv += 1
            run.violation("panic", "make-move panics", {"fen": e["fen"], "move": m, "implementation": a})
            continue
        da = kv(a)
        db = kv(b)
        if m != "null":
            nkprem += 1
            if db.get("good") != "1":
                nv += 1
                if nv <= 25:
                    run.violation("theorem-premise", "invr_b (the hypothesis of C04_every_generated_move_keeps_the_key and C04_key_invariant_along_every_sequence) is false on a position of D",
                                  {"fen": e["fen"], "model": b[-200:]}, found_input=False)
            if db.get("kprem") != "1":
                nv += 1
                if nv <= 25:
                    run.violation("theorem-premise", "key_move_b (the hypothesis of C04_predicted_key_is_recomputed_key) is false on a legal move: "
                                  "the theorem does not cover it", {"fen": e["fen"], "move": m, "class": cls, "model": b}, found_input=False)
        h, calc = da["hash"], da["calc"]
        pred = da.get("pred", h)
        if not (h == calc == pred):
            nv += 1
            if nv <= 25:
                run.violation("incremental-key", f"after the move: incremental {h}, predicted {pred}, recomputed {calc}",
                              {"fen": e["fen"], "move": m, "implementation": a,
                               "repro": f"printf 'make\\t{e['fen']}\\t{m}\\n' | .build/cargo/release/rawr_harness /dev/stdout"})
            continue
        if db.get("hash") != h:
            nv += 1
            if nv <= 25:
                run.violation("model-mismatch", "key differs from the model's although it is self-consistent",
                              {"fen": e["fen"], "move": m, "implementation": a, "model": b}, found_input=False)
        if " abs=" in b and da.get("us") == db.get("us"):
            note_key(b.split(" abs=")[1].split(" ")[0], h, f"{e['fen']} after {m}")
    off = len(reqs)
    for g, a, b in zip(games, impl[off:], model[off:]):
        run.note_case(("play", g["start"], g["moves"]), "sequence-" + g["cls"])
        da = kv(a)
        if a.startswith("PANIC") or a.startswith("DIED") or da.get("hash") != da.get("calc"):
            nv += 1
            toks = g["moves"].split(" ")
            lo = None
            for k in range(1, len(toks) + 1):
                ia, _ = vlib.run_impl([f"play\t{g['start']}\t{' '.join(toks[:k])}"])
                dk = kv(ia[0])
                if ia[0].startswith("PANIC") or dk.get("hash") != dk.get("calc"):
                    lo = (k, ia[0])
                    break
            run.violation("incremental-key", "after a sequence of moves the maintained key differs from the recomputed one",
                          {"start": g["start"], "moves": " ".join(toks[:lo[0]]) if lo else g["moves"], "implementation": lo[1] if lo else a})
        elif a != b:
            nv += 1
            run.violation("model-mismatch", "play-out ends differently in model and implementation", {"start": g["start"], "moves": g["moves"],
                                                                                                     "implementation": a, "model": b}, found_input=False)
    # twins: the same position with two different men exchanged (or one man moved to an empty square, or one right /
    # the turn / the ep file changed) must have a different key -- probes the per-feature keys directly
    import random as _r
    rr = _r.Random(run.seed * 31 + 5)
    base = [e["fen"] for e in pool if rr.random() < (0.5 if run.tier == "thorough" else 0.12)]
    twins = []
    for f in base:
        parts = f.split(" ")
        b = G.parse_board(f)
        occ = sorted(b)
        for _ in range(3):
            nb = dict(b)
            kind = rr.random()
            if kind < 0.6 and len(occ) >= 2:
                x, y = rr.sample(occ, 2)
                if nb[x] == nb[y]:
                    continue
                nb[x], nb[y] = nb[y], nb[x]
            else:
                x = rr.choice(occ)
                free = [q for q in range(64) if q not in nb]
                y = rr.choice(free)
                nb[y] = nb.pop(x)
            if any(c in "Pp" and q // 8 in (0, 7) for q, c in nb.items()):
                continue
            twins.append((f, G.fen_of(nb, parts[1], "-", "-", parts[4], parts[5]), G.fen_of(b, parts[1], "-", "-", parts[4], parts[5])))
    okt = vlib.run_model_par([f"inD\t{t[1]}" for t in twins])
    twins = [t for t, o in zip(twins, okt) if o == "1"]
    enc = lambda x: " ".join(str(ord(ch)) for ch in x)
    h1, _ = vlib.run_impl_par([f"fenraw\twrapping\t{enc(t[1])}" for t in twins])
    h2, _ = vlib.run_impl_par([f"fenraw\twrapping\t{enc(t[2])}" for t in twins])
    ntw = 0
    for t, a, b2 in zip(twins, h1, h2):
        run.note_case(("twin", t[1]), "twin")
        if a.startswith("ok ") and b2.startswith("ok ") and kv(a[3:])["hash"] == kv(b2[3:])["hash"]:
            ntw += 1
            if ntw <= 10:
                run.violation("key-collision", "two positions that differ in piece placement only have the same key",
                              {"position_1": t[2], "position_2": t[1], "key": kv(a[3:])["hash"],
                               "repro": "position fen <each>; print  (compare the Hash lines)"})
    run.cov["twins_compared"] = len(twins)
    run.cov["distinct_keys_seen"] = len(feats)
    run.cov["traces_validated_against_impl"] = len(reqs) + len(plays)
    run.sample({"request": reqs[0], "implementation": impl[0][:400]})
    run.cov["key_move_b_true_on_legal_moves"] = nkprem
    run.cov["explanation"] = ("key_min_distance (two feature sets differing in 1..4 features have different keys) is proved by a vm_compute "
                              "sweep over the regenerated key tables; the recomputed key is proved to be a function of the abstract "
                              "state alone (key_of_abs); predicted key = recomputed key after the move, and makemove stores the prediction, "
                              f"are proved for EVERY generated move of a position passing good_pos_b (and per move under key_move_b); both tests evaluated (true) on all {nkprem} legal "
                              "moves of this run; that every legal move of D passes it rests on these runs; the 'differing positions had "
                              "different keys' clause is empirical by its own wording and is measured here over all positions met")


CHECKS.update({"C01": check_C01, "C02": check_C02, "C04": check_C04, "C08": check_C08})

import props_search  # noqa: E402
CHECKS.update(props_search.CHECKS)
import props_io  # noqa: E402
CHECKS.update(props_io.CHECKS)
import props_proc  # noqa: E402
CHECKS.update(props_proc.CHECKS)
import props_style  # noqa: E402
CHECKS.update(props_style.CHECKS)
