"""C20: tools/style/style.py run for real (against tools/chess_stub) vs the Coq model of its arithmetic layer."""
import json
import math
import os
import subprocess
import sys
from fractions import Fraction

import vlib
from props import pool_for

RUNNER = r'''
import sys, json, copy
sys.path.insert(0, sys.argv[1]); sys.path.insert(0, sys.argv[2])
import chess, chess.pgn, style
jobs = json.load(open(sys.argv[3]))
out = []

def snapshot(stats):
    # every public data attribute, whether the dataclass made it a per-instance field or not
    res = {}
    for k in dir(stats):
        if k.startswith("_"):
            continue
        v = getattr(stats, k)
        if callable(v):
            continue
        res[k] = copy.deepcopy(v)
    return res

def report(stats, res):
    res["stats"] = snapshot(stats)
    res["valid"] = style.is_valid(stats)
    for name, fn in (("agg", style.get_aggression_score), ("pos", style.get_positional_score), ("pp", style.get_pawn_pusher_score)):
        try:
            v = fn(stats)
            res[name] = None if v is None else repr(float(v))
        except BaseException as ex:
            res[name] = "EXC:" + type(ex).__name__

def mk(g):
    return chess.pgn.Game({"Result": g["result"]}, [chess.Move(a, b, p) for a, b, p in g["moves"]])

for job in jobs:
    if "filters" in job:
        # the way main() works: all Stats objects exist side by side and every game is offered to every filter in turn
        res = {"multi": []}
        try:
            filt = [(side, style.Stats()) for side in job["filters"]]
            for g in job["games"]:
                for side, stats in filt:
                    style.analyse_game(mk(g), chess.WHITE if side == "w" else chess.BLACK, stats)
            for side, stats in filt:
                r = {}
                report(stats, r)
                res["multi"].append(r)
        except BaseException as ex:
            res["crash"] = type(ex).__name__ + ": " + str(ex)[:100]
        out.append(res)
        continue
    res = {}
    try:
        stats = style.Stats()
        for g in job["games"]:
            style.analyse_game(mk(g), chess.WHITE if job["side"] == "w" else chess.BLACK, stats)
            if not style.is_valid(stats):
                res["invalid_after_game"] = True
        report(stats, res)
    except BaseException as ex:
        res["crash"] = type(ex).__name__ + ": " + str(ex)[:100]
    out.append(res)
json.dump(out, open(sys.argv[4], "w"))
'''

PROMO = {1: 2, 2: 3, 3: 4, 4: 5}    # rawr piece index -> chess stub piece type


def abs_moves(start_black, toks):
    """relative triples of the model -> absolute (from, to, promotion) ; the mover alternates"""
    res, black = [], start_black
    for t in toks:
        if t == "null":
            return None
        f, to, p = (int(x) for x in t.split("-"))
        if black:
            f, to = f ^ 56, to ^ 56
        res.append((f, to, PROMO.get(p)))
        black = not black
    return res


RPROMO = {None: 6, 2: 1, 3: 2, 4: 3, 5: 4}    # chess stub piece type -> rawr piece index (6 = no promotion)
HEADER = {"1-0": "W", "0-1": "B", "1/2-1/2": "D"}


def rel_toks(moves):
    """absolute (from, to, promotion) triples from the standard start position -> the model's side-relative move tokens"""
    res, black = [], False
    for f, to, p in moves:
        if black:
            f, to = f ^ 56, to ^ 56
        res.append(f"{f}-{to}-{RPROMO[p]}")
        black = not black
    return res


MODELLED = ("num_wins num_draws num_losses num_games castle_same castle_opposite total_captures total_noncaptures total_moves checks nonchecks "
            "early_captures mid_captures late_captures extreme_captures capture_distance noncapture_distance game_length short_games medium_games "
            "long_games extreme_games num_win_ahead num_win_equal num_win_behind early_pawn_pushes mid_pawn_pushes late_pawn_pushes total_pawn_pushes "
            "total_pawn_pushes_towards_king num_rook_threats num_bishop_threats").split()


def stats_diff(tool, model_line):
    """the counters of model/StyleGame.analyse_games against the tool's Stats object, field by field (exact integers)"""
    d = dict(x.split("=", 1) for x in model_line.split(";") if "=" in x)
    bad = []
    for k in MODELLED:
        tv = tool.get(k)
        mv = d.get(k)
        if mv is None:
            bad.append(f"{k}: missing in the model's answer")
            continue
        if k == "game_length":
            t = {i: v for i, v in enumerate(tv) if v}
            m = {int(a): int(b) for a, b in (it.split(":") for it in mv.split(",") if it)}
            m = {a: b for a, b in m.items() if b}
            if t != m:
                bad.append(f"game_length: tool {t} model {m}")
        elif isinstance(tv, list):
            ml = [int(x) for x in mv.split(",")] if mv else []
            if [int(x) for x in tv] != ml:
                bad.append(f"{k}: tool {tv} model {ml}")
        else:
            if str(int(tv)) != mv:
                bad.append(f"{k}: tool {int(tv)} model {mv}")
    return bad, d


def encode_stats(st):
    gl = ",".join(f"{i}:{v}" for i, v in enumerate(st["game_length"]) if v)
    parts = []
    for k, v in st.items():
        if k == "game_length":
            parts.append(f"game_length={gl}")
        elif isinstance(v, list):
            if k in ("no_queens", "final_material"):
                continue
            parts.append(f"{k}=" + ",".join(str(int(x)) for x in v))
        else:
            parts.append(f"{k}={int(v)}")
    return ";".join(parts)


def sinv_premises(st):
    """the hypotheses of the Coq theorems, evaluated exactly on the statistics the real tool produced"""
    w = [0, 0, 1, 1, 2, 4, 8, 16]
    early = sum(min(i, 40) * v for i, v in enumerate(st["game_length"]))
    bad = []
    if sum(st["capture_distance"]) != st["total_captures"]:
        bad.append("capture histogram does not sum to total_captures")
    if sum(st["noncapture_distance"]) != st["total_noncaptures"]:
        bad.append("non-capture histogram does not sum to total_noncaptures")
    if st["num_rook_threats"] > st["total_moves"] or st["num_bishop_threats"] > st["total_moves"]:
        bad.append("threats exceed moves")
    if 5 * sum(a * b for a, b in zip(w, st["early_pawn_pushes"])) > 31 * early:
        bad.append("early pawn-push potential bound violated")
    if st["total_pawn_pushes"] > 0 and early == 0:
        bad.append("pawn pushes without early moves")
    if any(x < 0 for k, v in st.items() for x in (v if isinstance(v, list) else [v])):
        bad.append("negative counter")
    return bad


def check_C20(run):
    rng = run.rng
    th = run.tier == "thorough"
    run.cov["rule"] = ("sets of 0..12 games generated by the model's legal play-outs from the standard start position (lengths 0..400 plies, "
                       "biased to captures, castling, promotions; also sets with no captures, no pawn moves, no wins, games without moves, games whose only captures come after 60..140 plies), "
                       "analysed for White or Black by the REAL style.py (python-chess replaced by tools/chess_stub): no exception, "
                       "is_valid true after every game, every score a finite float in [0,1]; the statistics are then fed to the Coq model "
                       "(exact rationals): scores agree to 1e-9, and the premises of the theorems (SInv) are evaluated exactly on them; "
                       "the same game sets are analysed by the Coq model of analyse_game / Stats.add_* / finish_game (model/StyleGame.v, extracted) and all 32 modelled counters must be equal; "
                       "several filters side by side in one interpreter (as main() runs them) must each report exactly what they report alone; "
                       "non-trivial = the set contains at least one capture and one pawn move")
    start = "rnbqkbnr/pppppppp/8/8/8/8/PPPPPPPP/RNBQKBNR w KQkq - 0 1"
    ngames = 900 if th else 160
    reqs = []
    for i in range(ngames):
        plies = rng.choice([0, 0, 1, 2, 5, 12, 30, 60, 90, 130, 200, 400])
        reqs.append(f"playout\t{rng.randrange(1 << 30)}\t{plies}\t0\t{start}")
    outs = vlib.run_model_par(reqs)
    games = []
    for o in outs:
        toks = o.split(" ") if o else []
        mv = abs_moves(False, toks)
        if mv is not None:
            assert rel_toks(mv) == toks, (toks, rel_toks(mv))
            games.append({"moves": mv, "result": rng.choice(["1-0", "0-1", "1/2-1/2"])})
    # special games: only knight shuffles (no captures, no pawn moves)
    shuffle = [(6, 21, None), (62, 45, None), (21, 6, None), (45, 62, None)]
    games.append({"moves": shuffle * 10, "result": "1/2-1/2"})
    # games whose every capture comes late (after 60..140 plies of shuffling): 1.e4 d5 2.exd5 Qxd5 at the end
    late = [(12, 28, None), (51, 35, None), (28, 35, None), (59, 35, None)]
    late_games = [{"moves": shuffle * r + late, "result": res} for r, res in ((15, "1-0"), (16, "0-1"), (17, "1-0"), (17, "1/2-1/2"), (18, "0-1"), (34, "1-0"))]
    games.append({"moves": [], "result": "1-0"})
    games.append({"moves": [], "result": "0-1"})
    jobs = []
    for _ in range(400 if th else 80):
        k = rng.choice([0, 1, 1, 2, 3, 5, 8, 12])
        jobs.append({"side": rng.choice("wb"), "games": [rng.choice(games) for _ in range(k)]})
    jobs.append({"side": "w", "games": [games[-3]]})
    jobs.append({"side": "b", "games": [games[-2], games[-1]]})
    jobs.append({"side": "w", "games": [games[-1]]})
    jobs.append({"side": "w", "games": [g for g in games if len(g["moves"]) <= 2][:6]})
    for lg in late_games:
        for side in "wb":
            jobs.append({"side": side, "games": [lg]})
            jobs.append({"side": side, "games": [lg, rng.choice(late_games), games[-3]]})
    # many copies of one game, all in one length bucket (seventh seed round: a reordered float division gave 1.0000000000000002 for
    # exactly 7, 14, 28, ... games of 100..139 plies): every count 1..64 and a few larger ones, one game length per bucket
    for reps, res in ((25, "1/2-1/2"), (5, "1/2-1/2"), (15, "1/2-1/2"), (40, "1/2-1/2"), (25, "1-0")):
        g1 = {"moves": shuffle * reps, "result": res}
        for n in (list(range(1, 65)) if th else [1, 2, 3, 5, 6, 7, 9, 12, 14, 15, 21, 28, 33, 49, 56, 61]) + [107, 112, 127]:
            jobs.append({"side": "w" if (n + reps) % 2 else "b", "games": [g1] * n})
    nsingle = len(jobs)
    # several filters at once (--white --black, twice the same): each must report what it reports when run alone
    multi = []
    for _ in range(60 if th else 16):
        k = rng.choice([1, 2, 3, 5, 8])
        gs = [rng.choice(games) for _ in range(k)]
        fl = rng.choice([["w", "b"], ["b", "w"], ["w", "w"], ["w", "b", "w"]])
        multi.append({"filters": fl, "games": gs})
        for side in sorted(set(fl)):
            jobs.append({"side": side, "games": gs})
    tmp_in = os.path.join(vlib.BUILD, f"style_in_{os.getpid()}.json")
    tmp_out = os.path.join(vlib.BUILD, f"style_out_{os.getpid()}.json")
    json.dump(jobs, open(tmp_in, "w"))
    r = subprocess.run([sys.executable, "-c", RUNNER, os.path.join(vlib.VERIF, "tools", "chess_stub"),
                        os.path.join(vlib.REPO, "tools", "style"), tmp_in, tmp_out],
                       stdout=subprocess.PIPE, stderr=subprocess.PIPE, text=True, timeout=1800)
    if r.returncode != 0 or not os.path.exists(tmp_out):
        run.violation("tool-crash", "style.py could not be imported or crashed outside a job", {"stderr": r.stderr[-1500:]})
        return
    res = json.load(open(tmp_out))
    os.remove(tmp_in)
    os.remove(tmp_out)
    # the multi-filter jobs, one fresh interpreter for each (as one invocation of the tool)
    def run_multi(ix):
        ti = os.path.join(vlib.BUILD, f"style_min_{os.getpid()}_{ix}.json")
        to = os.path.join(vlib.BUILD, f"style_mout_{os.getpid()}_{ix}.json")
        json.dump([multi[ix]], open(ti, "w"))
        rr = subprocess.run([sys.executable, "-c", RUNNER, os.path.join(vlib.VERIF, "tools", "chess_stub"),
                             os.path.join(vlib.REPO, "tools", "style"), ti, to], stdout=subprocess.PIPE, stderr=subprocess.PIPE, text=True, timeout=600)
        o = json.load(open(to))[0] if rr.returncode == 0 and os.path.exists(to) else {"crash": "runner failed: " + rr.stderr[-300:]}
        for f in (ti, to):
            if os.path.exists(f):
                os.remove(f)
        return o
    mres = vlib.par_map(run_multi, list(range(len(multi))))
    single = {}
    for job, o in zip(jobs[nsingle:], res[nsingle:]):
        single[(job["side"], json.dumps(job["games"]))] = o
    for mj, mo in zip(multi, mres):
        run.note_case(("multi", json.dumps(mj)[:200]), "multi-filter", nontrivial=True)
        desc = {"filters": mj["filters"], "games": [{"result": g["result"], "plies": len(g["moves"]), "moves(from,to,promo)": g["moves"][:60]} for g in mj["games"]]}
        if "crash" in mo:
            run.violation("analyse-crash", "several filters in one run: " + mo["crash"], desc)
            continue
        for side, r in zip(mj["filters"], mo["multi"]):
            alone = single[(side, json.dumps(mj["games"]))]
            keys = ("valid", "agg", "pos", "pp")
            if any(r.get(k) != alone.get(k) for k in keys) or r.get("stats") != alone.get("stats"):
                diff = [k for k in keys if r.get(k) != alone.get(k)] + [k for k in r.get("stats", {}) if r["stats"].get(k) != alone.get("stats", {}).get(k)]
                run.violation("filter-isolation", f"filter {side} run next to other filters reports differently from the same filter run alone: {diff[:6]}",
                              dict(desc, together={k: r.get(k) for k in keys}, alone={k: alone.get(k) for k in keys},
                                   differing_statistics={k: [r["stats"].get(k), alone.get("stats", {}).get(k)] for k in diff if k in r.get("stats", {})}))
                break
    mreq, midx = [], []
    nv = 0
    for i, (job, o) in enumerate(zip(jobs, res)):
        ncap = o.get("stats", {}).get("total_captures", 0)
        npush = o.get("stats", {}).get("total_pawn_pushes", 0)
        run.note_case(i, f"games={len(job['games'])}", nontrivial=(ncap > 0 and npush > 0))
        desc = {"side": job["side"], "games": [{"result": g["result"], "plies": len(g["moves"]), "moves(from,to,promo)": g["moves"][:60]} for g in job["games"]]}
        if "crash" in o:
            nv += 1
            run.violation("analyse-crash", "analyse_game raised: " + o["crash"], desc)
            continue
        bad = None
        if o.get("invalid_after_game") or not o["valid"]:
            bad = "is_valid is false on the accumulated statistics"
        for name in ("agg", "pos", "pp"):
            v = o[name]
            if v is None:
                if job["games"]:
                    bad = f"{name} score is None although games were analysed"
            elif v.startswith("EXC:"):
                bad = f"{name} score raised {v[4:]}"
            else:
                x = float(v)
                if not (math.isfinite(x) and 0.0 <= x <= 1.0):
                    bad = f"{name} score {v} is not a finite number in [0,1]"
        if bad:
            nv += 1
            if nv <= 25:
                run.violation("style-score", bad, dict(desc, statistics={k: v for k, v in o["stats"].items() if k not in ("game_length", "no_queens", "final_material")},
                                                        scores={k: o[k] for k in ("agg", "pos", "pp")}))
            continue
        prem = sinv_premises(o["stats"]) if job["games"] else []
        if prem:
            nv += 1
            run.violation("model-mismatch", "a premise of the score theorems does not hold on statistics produced by the tool: " + "; ".join(prem),
                          dict(desc), found_input=False)
        mreq.append("style\t" + encode_stats(o["stats"]))
        midx.append(i)
    mout = vlib.run_model_par(mreq)
    for i, m in zip(midx, mout):
        o = res[i]
        d = vlib.kv(m)
        for name in ("agg", "pos", "pp"):
            mv, pv = d.get(name), o[name]
            if mv == "None" and pv is None:
                continue
            ok = False
            if mv not in ("None", "Raised") and pv is not None and not pv.startswith("EXC"):
                a, b = mv.split("/")
                ok = abs(float(Fraction(int(a), int(b))) - float(pv)) < 1e-9
            if not ok:
                nv += 1
                if nv <= 25:
                    run.violation("model-mismatch", f"{name}: tool says {pv}, model says {mv}", {"statistics": mreq[midx.index(i)][:600]}, found_input=False)
        if d.get("valid") != ("1" if o["valid"] else "0"):
            nv += 1
            run.violation("model-mismatch", "is_valid differs from the model's", {"statistics": mreq[midx.index(i)][:600]}, found_input=False)
    # the game layer: model/StyleGame.analyse_games on the same games, every modelled counter compared exactly
    greq, gidx = [], []
    for i, (job, o) in enumerate(zip(jobs, res)):
        if "filters" in job or "crash" in o or "stats" not in o:
            continue
        greq.append("stylegame\t" + job["side"] + "\t" + "|".join(HEADER[g["result"]] + ":" + " ".join(rel_toks(g["moves"])) for g in job["games"]))
        gidx.append(i)
    gout = vlib.run_model_par(greq)
    ngame_plies = 0
    for i, line in zip(gidx, gout):
        job, o = jobs[i], res[i]
        ngame_plies += sum(len(g["moves"]) for g in job["games"])
        desc = {"side": job["side"], "games": [{"result": g["result"], "plies": len(g["moves"]), "moves(from,to,promo)": g["moves"][:60]} for g in job["games"]]}
        if line.startswith("ERROR"):
            nv += 1
            run.violation("model-mismatch", "the model of analyse_game could not run the game set: " + line[:200], desc, found_input=False)
            continue
        bad, d = stats_diff(o["stats"], line)
        if d.get("valid") != ("1" if o["valid"] else "0"):
            bad.append(f"is_valid: tool {o['valid']} model {d.get('valid')}")
        if bad:
            nv += 1
            if nv <= 25:
                run.violation("model-mismatch", "analyse_game: the tool's statistics differ from the model's (model/StyleGame.v) on this game set: " + "; ".join(bad[:6]),
                              desc, found_input=False)
    run.cov["game_layer"] = {"game_sets_compared_counter_by_counter": len(greq), "plies": ngame_plies, "counters": len(MODELLED)}
    run.cov["traces_validated_against_impl"] = len(mreq) + len(greq)
    run.sample({"job": {"side": jobs[0]["side"], "games": [len(g["moves"]) for g in jobs[0]["games"]]}, "tool": {k: res[0].get(k) for k in ("valid", "agg", "pos", "pp")}})
    run.cov["explanation"] = ("C20_games_give_consistent_statistics_and_scores_in_unit: for every non-empty list of games of generated moves from the start position, "
                              "the model of analyse_game (model/StyleGame.v) yields statistics with is_valid and SInv, hence every feature is defined and in [0,1] and so are the three scores; "
                              "the model of analyse_game is compared counter by counter (32 counters, exact integers) with the real tool on every generated game set; "
                              "SInv is additionally evaluated on the tool's own statistics; floats vs rationals to 1e-9; "
                              "python-chess is replaced by a stub (trusted)")


CHECKS = {"C20": check_C20}
