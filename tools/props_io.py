"""Checks for the I/O properties: C05 C06 C07 C09 C15 C16 C17 C18."""
import os
import re
import subprocess

import vlib
from vlib import kv
import gen as G
from props import pool_for, mv_sorted, mv_list
from props_search import consts, with_clock

FILES = "abcdefgh"


# ---------------------------------------------------------------------- helpers
def abs_of(dump_lines):
    outs = vlib.run_model_par(["absdump\t" + d for d in dump_lines])
    return outs


def std_geometry(fen):
    """castling rights only with the king on the e-file and rooks on a/h (standard chess geometry)"""
    parts = fen.split(" ")
    if parts[2] == "-":
        return True
    b = G.parse_board(fen)
    for ch in parts[2]:
        white = ch.isupper()
        r = 0 if white else 7
        if b.get(8 * r + 4) != ("K" if white else "k"):
            return False
        c = ch.lower()
        if c == "k" and b.get(8 * r + 7) != ("R" if white else "r"):
            return False
        if c == "q" and b.get(8 * r + 0) != ("R" if white else "r"):
            return False
        if c not in "kq":
            if c not in "ah":
                return False
    return True


def canonical_xfen(abs_s):
    """independent printer: X-FEN of an abstract state string produced by the driver"""
    board, turn, rights, ep, hm, fm = abs_s.split("/")
    rows = []
    for r in range(7, -1, -1):
        row, run = "", 0
        for f in range(8):
            c = board[8 * r + f]
            if c == ".":
                run += 1
            else:
                if run:
                    row += str(run)
                    run = 0
                row += c
        if run:
            row += str(run)
        rows.append(row)
    cas = ""
    for i, (white, ks) in enumerate(((True, True), (True, False), (False, True), (False, False))):
        c = rights[i]
        if c == "-":
            continue
        rf = int(c)
        r = 0 if white else 7
        rook = "R" if white else "r"
        king = "K" if white else "k"
        kf = [f for f in range(8) if board[8 * r + f] == king][0]
        wing = [f for f in range(8) if board[8 * r + f] == rook and (f > kf if ks else f < kf)]
        outer = max(wing) if ks else min(wing)
        if outer == rf:
            ch = "k" if ks else "q"
        else:
            ch = FILES[rf]
        cas += ch.upper() if white else ch
    if not cas:
        cas = "-"
    eps = "-"
    if ep != "-":
        f, r = ep.split(",")
        eps = FILES[int(f)] + str(int(r) + 1)
    return f"{'/'.join(rows)} {turn} {cas} {eps} {hm} {fm}"


def expected_rights(fen):
    """X-FEN reading of the castling field: K/Q/k/q = outermost rook on that side of the king, a letter = that file;
    returns the four rook files as the driver prints them (wk wq bk bq, '-' when absent) or None if not applicable"""
    parts = fen.split(" ")
    b = G.parse_board(fen)
    res = {"wk": "-", "wq": "-", "bk": "-", "bq": "-"}
    if parts[2] == "-":
        return "----"
    for ch in parts[2]:
        white = ch.isupper()
        r = 0 if white else 7
        kf = [f for f in range(8) if b.get(8 * r + f) == ("K" if white else "k")]
        if not kf:
            return None
        kf = kf[0]
        rooks = [f for f in range(8) if b.get(8 * r + f) == ("R" if white else "r")]
        c = ch.lower()
        if c == "k":
            side = [f for f in rooks if f > kf]
            if not side:
                return None
            res[("w" if white else "b") + "k"] = str(max(side))
        elif c == "q":
            side = [f for f in rooks if f < kf]
            if not side:
                return None
            res[("w" if white else "b") + "q"] = str(min(side))
        else:
            f = FILES.index(c)
            res[("w" if white else "b") + ("k" if f > kf else "q")] = str(f)
    return res["wk"] + res["wq"] + res["bk"] + res["bq"]


# ====================================================================== C06
def check_C06(run):
    rng = run.rng
    th = run.tier == "thorough"
    P = pool_for(run)
    run.cov["rule"] = ("positions reached by play-outs (incl. null moves) from standard, Chess960 and double-Chess960 starts and from "
                       "templates with an inner castling rook, and with half-move clocks / full-move numbers at and beyond 100, 2^7, 2^8, 2^15, 2^16 (given and "
                       "reached by play): FEN printed by the engine is parsed back and every field compared "
                       "(placement, turn, rights and their rook files, ep, clocks, key); canonical X-FEN strings written by an "
                       "independent printer from the abstract position must be reproduced verbatim by parse+print; non-trivial = "
                       "castling rights present or ep state or clocks > 0")
    games = P["games"]
    inner = ["1k6/8/8/8/8/8/8/1K1R3R w D - 0 1", "1k6/8/8/8/8/8/8/R2RK3 w D - 4 9", "r2rk3/8/8/8/8/8/8/4K3 b d - 0 1",
             "1k1r3r/8/8/8/8/8/8/1K1R3R b Dd - 0 1", "r1r1k1r1/8/8/8/8/8/8/R1R1K1RR w GCgc - 2 5",
             # a rook of the OTHER colour on the home rank outside the castling rook
             "R2rk3/8/8/8/8/8/8/4K3 b d - 0 1", "4k1rR/8/8/8/8/8/8/4K3 b g - 0 1", "R1r1k1rR/8/8/8/8/8/8/4K3 b gc - 3 9",
             "Rr2k2r/8/8/8/8/8/8/4K3 b kb - 0 1", "r3k2r/8/8/8/8/8/8/qR2K1Rq w GB - 0 1", "Q2rk3/8/8/8/8/8/8/3RK2q w Dd - 0 1"]
    reqs = []
    for g in games:
        toks = g["moves"].split(" ")
        k = rng.randrange(0, len(toks) + 1)
        reqs.append(f"rt\t{rng.choice('01')}\t{g['start']}\t{' '.join(toks[:k])}")
    for e in P["pool"]:
        if rng.random() < (0.6 if th else 0.15):
            reqs.append(f"rt\t{rng.choice('01')}\t{e['fen']}\t")
    for f in inner + [G.mirror_fen(x) for x in inner]:
        reqs.append(f"rt\t1\t{f}\t")
        reqs.append(f"rt\t0\t{f}\t")
    # counters at and beyond every narrow integer width: given in the FEN, and reached by play from just below
    def with_counters(fen, hm, fm):
        p = fen.split(" ")
        if p[3] != "-":
            hm = 0          # an en-passant square implies a pawn has just moved
        p[4], p[5] = str(hm), str(fm)
        return " ".join(p)
    big = [99, 100, 101, 127, 128, 254, 255, 256, 257, 300, 1000, 32767, 32768, 65535, 65536, 1000000, 2147483646]
    cpool = [e["fen"] for e in P["pool"]]
    for _ in range(300 if th else 60):
        f = with_counters(rng.choice(cpool), rng.choice(big), rng.choice(big + [1, 2, 50]))
        reqs.append(f"rt\t{rng.choice('01')}\t{f}\t")
    for g in games[: (200 if th else 40)]:
        toks = g["moves"].split(" ")
        k = rng.randrange(1, min(len(toks), 6) + 1)
        f = with_counters(g["start"], rng.choice([98, 126, 253, 254, 255, 65534]), rng.choice([127, 254, 255, 32767, 65535]))
        reqs.append(f"rt\t{rng.choice('01')}\t{f}\t{' '.join(toks[:k])}")
    impl, _ = vlib.run_impl_par(reqs)
    model = vlib.run_model_par(reqs)
    nv = 0
    canon_in = []
    for rq, a, b in zip(reqs, impl, model):
        if b.startswith("ERROR"):
            continue
        parts = a.split(" | ")
        fen = parts[0][4:] if parts[0].startswith("fen=") else ""
        nt = fen and (fen.split(" ")[2] != "-" or fen.split(" ")[3] != "-" or fen.split(" ")[4] != "0")
        run.note_case(rq, "inner-rook" if any(c in "ABCDEFGHabcdefgh" for c in (fen.split(" ")[2] if fen else "")) and fen.split(" ")[2] not in ("-",) and
                      any(c not in "KQkq" for c in fen.split(" ")[2]) else "xfen", nontrivial=bool(nt))
        if a.startswith(("PANIC", "DIED")) or len(parts) < 4:
            nv += 1
            if nv <= 25:
                run.violation("fen-roundtrip", "the engine's own FEN output is rejected by its parser (or printing panics)",
                              {"request": rq, "implementation": a, "repro": "printf '" + rq.replace("\t", "\\t") + "\\n' | .build/cargo/release/rawr_harness /dev/stdout"})
            continue
        p, q, again = kv(parts[1]), kv(parts[2]), parts[3][6:]
        # castle files only matter for rights that are held
        same = all(p[k] == q[k] for k in ("us", "them", "P", "N", "B", "R", "Q", "K", "hm", "fm", "turn", "ep", "cr", "hash"))
        for i, flag in enumerate(p["cr"]):
            if flag == "1" and p["cf"].split(",")[i] != q["cf"].split(",")[i]:
                same = False
        if not same or again != fen:
            nv += 1
            if nv <= 25:
                run.violation("fen-roundtrip", "FEN output parses back to a different position", {"request": rq, "fen_printed": fen, "position": parts[1],
                                                                                                 "parsed_back": parts[2], "printed_again": again})
        elif a != b:
            nv += 1
            if nv <= 25:
                run.violation("model-mismatch", "FEN text or fields differ from the model's", {"request": rq, "implementation": a, "model": b}, found_input=False)
        canon_in.append(parts[1])
    # canonical strings: independent printer -> parse -> print must be the identity
    absl = abs_of(canon_in)
    canon = []
    for o in absl:
        if "abs=" in o:
            canon.append(canonical_xfen(o.split("abs=")[1].split(" ")[0]))
    rq2 = [f"rt\t0\t{c}\t" for c in canon]
    impl2, _ = vlib.run_impl_par(rq2)
    for c, a in zip(canon, impl2):
        run.note_case(("canon", c), "canonical-string")
        parts = a.split(" | ")
        if a.startswith(("PANIC", "DIED")) or parts[0] != "fen=" + c:
            nv += 1
            if nv <= 25:
                run.violation("canonical-fen", "a canonical FEN of a valid position is not reproduced by parse + print",
                              {"canonical": c, "implementation": a, "repro": f"printf 'rt\\t0\\t{c}\\t\\n' | .build/cargo/release/rawr_harness /dev/stdout"})
    run.cov["traces_validated_against_impl"] = len(reqs) + len(rq2)
    run.sample({"request": reqs[0][:200], "implementation": impl[0][:300]})
    run.sample({"canonical": canon[0] if canon else "", "implementation": impl2[0][:200] if canon else ""})
    run.cov["explanation"] = ("proof on the model of the first sentence: the printed FEN parses back to the same record for every valid position incl. castling rights (C06_fen_roundtrip; dead files of lost rights "
                              "are reset: C06_fen_roundtrip_modulo_dead_files); the converse direction and the tie to the code rest on the runs above")


# ====================================================================== C07
def check_C07(run):
    rng = run.rng
    th = run.tier == "thorough"
    P = pool_for(run)
    run.cov["rule"] = ("strings: canonical FENs of pool positions (KQkq and file-letter castling), and a malformed stream (truncation, "
                       "substitution, insertion, deletion, field swaps, over-long boards incl. 64+256k squares, ep squares around the u8 "
                       "wrap and every printable byte in either position of a valid ep field, signed/overflowing counters, duplicated or unknown castling letters, multi-byte characters); optimised "
                       "build vs the Wrapping model and checked build vs the Checked model: accept/reject and every field; every "
                       "accepted position is re-examined by the executable Valid; non-trivial = malformed or wrap-relevant string")
    fens = [e["fen"] for e in P["pool"]]
    good = rng.sample(fens, min(len(fens), 1500 if th else 250))
    # every FEN kept from a seeded change that carries castling rights is offered as well (thirteenth seed round: a parser change
    # seen by C06 only, because this sample did not contain the position)
    good += [e["fen"] for e in P["pool"] if e.get("cls") == "corpus" and e["fen"].split(" ")[2] != "-" and e["fen"] not in good]
    shred = []
    for f in good[: len(good) // 2]:
        p = f.split(" ")
        if p[2] != "-":
            b = G.parse_board(f)
            out = ""
            for ch in p[2]:
                if ch in "KQkq":
                    white = ch.isupper()
                    r = 0 if white else 7
                    kf = [x for x in range(8) if b.get(8 * r + x) == ("K" if white else "k")]
                    rk = [x for x in range(8) if b.get(8 * r + x) == ("R" if white else "r")]
                    if not kf:
                        out = None
                        break
                    side = [x for x in rk if (x > kf[0] if ch.lower() == "k" else x < kf[0])]
                    if not side:
                        out = None
                        break
                    fl = FILES[max(side) if ch.lower() == "k" else min(side)]
                    out += fl.upper() if white else fl
                else:
                    out += ch
            if out:
                p[2] = out
                shred.append(" ".join(p))
    special = ["rnbqkbnr/pppppppp/8/8/8/8/PPPPPPPP/RNBQKBNR" + "8" * 32 + " w KQkq - 0 1",
               "rnbqkbnr/pppppppp/8/8/8/8/PPPPPPPP/RNBQKBNR/ w KQkq - 0 1",
               "rnbqkbnr/pppp1ppp/8/4p3/4P3/8/PPPP1PPP/RNBQKBNR w KQkq eV 0 2",
               "rnbqkbnr/pppp1ppp/8/4p3/4P3/8/PPPP1PPP/RNBQKBNR w KQkq e6 +0 2",
               "rnbqkbnr/pppp1ppp/8/4p3/4P3/8/PPPP1PPP/RNBQKBNR w KQkq é 0 2", "", " ", "startpos", "startpos ",
               "8/8/8/8/8/8/8/8 w - - 0 1", "4k3/8/8/8/8/8/8/4K3 w - - 0 1 ", "4k3/8/8/8/8/8/8/4K3  w - - 0 1",
               "4k3/8/8/8/8/8/8/4K3 w - - 0", "4k3/8/8/8/8/8/8/4K3 w - - 2147483647 1", "4k3/8/8/8/8/8/8/4K3 w - - 0 2147483648",
               "4k3/8/8/8/8/8/8/R3K2R w KQ - 0 1", "4k3/8/8/8/8/8/8/R3K2R w HA - 0 1", "4k3/8/8/8/8/8/8/R3K2R w AH - 0 1",
               "4k3/8/8/8/8/8/8/R3K2R w E - 0 1", "4k3/8/8/8/8/8/8/RR2K2R w B - 0 1", "4k3/8/8/8/8/8/4K3/R6R w KQ - 0 1",
               "pppppppp" * 8 + " w - - 0 1", "4k3/8/8/8/8/8/8/4K3" + "/" * 300 + " w - - 0 1",
               "4k3/8/8/8/8/8/8/4K3" + "8" * 31 + "7p" + "8" * 0 + " w - - 0 1"]
    # two passes over the board (sixth seed round: one arm of validate's 15-pair overlap chain tested the wrong pair): a board
    # field 256 squares too long wraps the u8 square counter in the optimised build, so the last 64 squares are XOR-ed
    # onto the first 64; every pair of kinds (same and opposite colour, incl. the same man twice = it vanishes) on one square
    kinds_w = "PNBRQK"
    for a_ in kinds_w:
        for b_ in kinds_w + kinds_w.lower():
            for sq_ in ("a1", "d4"):
                if a_ == "P" and sq_ == "a1" or b_ in "Pp" and sq_ == "a1":
                    continue
                first = {"a1": "4k3/8/8/8/8/8/8/%s3K3" % a_, "d4": "4k3/8/8/8/3%s4/8/8/4K3" % a_}[sq_]
                second = {"a1": "8/8/8/8/8/8/8/%s7" % b_, "d4": "8/8/8/8/3%s4/8/8/8" % b_}[sq_]
                special.append(first + "/" + "8/" * 24 + second + " w - - 0 1")
                special.append(G.mirror_fen(first + " w - - 0 1").split(" ")[0] + "/" + "8/" * 24 + G.mirror_fen(second + " w - - 0 1").split(" ")[0] + " b - - 0 1")
    # castling fields that are syntactically fine but not backed by king and rook on their home rank
    sem = []
    for _ in range(3000 if th else 500):
        b = {}
        wk = G.sq(rng.randrange(8), rng.choice([0, 0, 0, 1, 2]))
        bk = G.sq(rng.randrange(8), rng.choice([7, 7, 7, 6, 5]))
        b[wk], b[bk] = "K", "k"
        for r, ch in ((0, "R"), (7, "r")):
            for f in rng.sample(range(8), rng.randrange(0, 4)):
                if G.sq(f, r) not in b:
                    b[G.sq(f, r)] = ch
        letters = []
        for _k in range(rng.randrange(1, 4)):
            letters.append(rng.choice("KQkq" + "ABCDEFGH" + "abcdefgh"))
        cas = "".join(dict.fromkeys(letters))
        sem.append(G.fen_of(b, rng.choice("wb"), cas, "-", rng.randrange(0, 30), rng.randrange(1, 60)))
    # en-passant field aliases: on FENs whose en-passant state is valid, every printable byte in the rank position (and in the file
    # position) of the ep field -- squares that differ from the right one by a multiple of 8 ranks / files after u8 arithmetic
    epf = [f for f in fens if f.split(" ")[3] != "-"]
    rng.shuffle(epf)
    epf = epf[: (24 if th else 6)] + ["4k3/8/8/p7/8/8/8/4K3 w - a6 0 1", "4k3/8/8/8/P7/8/8/4K3 b - a3 0 1", "4k3/8/8/pP6/8/8/8/4K3 w - a6 0 1",
                                      "4k3/8/8/7p/8/8/8/4K3 w - h6 0 2", "rnbqkbnr/pppp1ppp/8/4p3/4P3/8/PPPP1PPP/RNBQKBNR w KQkq e6 0 2"]
    alias = []
    for f in epf:
        pp = f.split(" ")
        for code in range(33, 127):
            for pos_ in (0, 1):
                e = list(pp[3])
                if chr(code) == e[pos_]:
                    continue
                e[pos_] = chr(code)
                alias.append(" ".join(pp[:3] + ["".join(e)] + pp[4:]))
    # a man on the en-passant square, or on the square the pushed pawn came from / passed over
    epocc = []
    for f in epf:
        pp = f.split(" ")
        b = G.parse_board(f)
        ef, er = ord(pp[3][0]) - 97, int(pp[3][1]) - 1
        if not (0 <= ef < 8 and er in (2, 5)):
            continue
        behind = G.sq(ef, er + (1 if er == 5 else -1))      # where the pawn started
        for target in (G.sq(ef, er), behind):
            for ch in "NBRQPnbrqp":
                b2 = dict(b)
                if target in b2:
                    continue
                b2[target] = ch
                epocc.append(G.fen_of(b2, pp[1], pp[2], pp[3], pp[4], pp[5]))
    bad = G.fen_mutants(rng, good + shred, 6000 if th else 900)
    strings = [(s, "ep-occupied") for s in epocc] + [(s, "ep-alias") for s in alias] + [(s, "canonical") for s in good] + [(s, "shredder") for s in shred] + [(s, "special") for s in special] + [(s, "mutant") for s in bad] + [(s, "castle-semantic") for s in sem]
    strings = [(s, c) for s, c in strings if "\t" not in s and "\n" not in s and all(not (0xD800 <= ord(ch) <= 0xDFFF) for ch in s)]
    enc = lambda s: " ".join(str(ord(ch)) for ch in s)
    nv = 0
    total = 0
    for mode, profile in (("wrapping", "release"), ("checked", "dev")):
        if profile == "dev":
            vlib.build_harness("dev")
        reqs = [f"fenraw\t{mode}\t{enc(s)}" for s, _ in strings]
        impl, _ = vlib.run_impl_par(reqs, profile=profile)
        model = vlib.run_model_par(reqs)
        accepted = [(i, a) for i, a in enumerate(impl) if a.startswith("ok ")]
        val = vlib.run_model_par(["absdump\t" + a[3:] for _, a in accepted])
        vmap = {i: v for (i, _), v in zip(accepted, val)}
        for i, ((s, c), a, b) in enumerate(zip(strings, impl, model)):
            total += 1
            acc = a.startswith("ok ")
            run.note_case((mode, s), f"{mode}:{c}:{'accept' if acc else 'reject'}", nontrivial=(c in ("mutant", "special", "castle-semantic")))
            if a.startswith("DIED"):
                nv += 1
                run.violation("parser-abort", "the parser aborted the process", {"mode": mode, "string": s, "implementation": a})
                continue
            if acc:
                v = vmap[i]
                if " valid=1" not in v or " valid=1" not in a:
                    nv += 1
                    if nv <= 25:
                        run.violation("accepted-invalid", "the parser accepted a string but the position violates a structural invariant",
                                      {"mode": mode, "string": s, "implementation": a, "Valid(model)": v})
                    continue
                if c in ("canonical", "shredder"):
                    pass
            else:
                if c in ("canonical", "shredder"):
                    nv += 1
                    if nv <= 25:
                        run.violation("valid-rejected", "a FEN of a position of D is rejected", {"mode": mode, "string": s, "implementation": a})
                    continue
            am = "ok" if acc else "reject"
            bm = "ok" if b.startswith("ok ") else "reject"
            if am != bm or (acc and a != b):
                nv += 1
                if nv <= 25:
                    run.violation("model-mismatch", f"{mode}: implementation {am}, model {bm} (or fields differ)",
                                  {"mode": mode, "string": s, "implementation": a, "model": b}, found_input=False)
    # well-formed strings spell out the position: compare with the independent reading of the string
    two_rooks = ["rr2k3/8/8/8/8/8/8/4K3 b q - 0 1", "4k1rr/8/8/8/8/8/8/4K3 w k - 0 1", "4k3/8/8/8/8/8/8/RR2K3 w Q - 0 1",
                 "4k3/8/8/8/8/8/8/4K1RR b K - 0 1", "rr2k1rr/8/8/8/8/8/8/RR2K1RR w KQkq - 3 9", "r1r1k3/8/8/8/8/8/8/R1R1K3 b Qq - 0 1",
                 "1rr1k3/8/8/8/8/8/8/4K3 w q - 0 1", "4k3/8/8/8/8/8/8/3K1R1R w K - 0 1"]
    wf = two_rooks + [s for s, c in strings if c in ("canonical", "shredder")][: (800 if th else 150)]
    outs, _ = vlib.run_impl_par([f"fenraw\twrapping\t{enc(s)}" for s in wf])
    ab = abs_of([o[3:] for o in outs if o.startswith("ok ")])
    for s, o in zip([s for s, oo in zip(wf, outs) if oo.startswith("ok ")], ab):
        got = canonical_xfen(o.split("abs=")[1].split(" ")[0])
        want = s
        run.note_case(("denote", s), "denotation")
        # placement, turn, ep, clocks verbatim; castling: the rook files an independent X-FEN reading assigns to the letters
        rights_got = o.split("abs=")[1].split(" ")[0].split("/")[2]
        rights_want = expected_rights(s)
        if got.split(" ")[0] != want.split(" ")[0] or got.split(" ")[1] != want.split(" ")[1] or got.split(" ")[3:] != want.split(" ")[3:] \
                or (rights_want is not None and rights_got != rights_want):
            nv += 1
            run.violation("wrong-denotation", "a well-formed FEN is parsed into a different position",
                          {"string": s, "position_read_back": got, "castling_rook_files_read(wk,wq,bk,bq)": rights_got,
                           "castling_rook_files_spelled": rights_want})
    run.cov["traces_validated_against_impl"] = total
    run.sample({"string": strings[0][0], "class": strings[0][1]})
    run.sample({"string": bad[0], "class": "mutant"})
    run.cov["explanation"] = ("PARTIAL proof: parse_validated (whatever the parser returns passed validate, every string, both modes) and the "
                              "consequences of validate proved on the model; the parity argument for colour/piece consistency is stated, "
                              "its proof is listed when closed; accept/reject and fields compared with the real parser in both builds")


# ====================================================================== C09 / C05
def check_C09(run):
    rng = run.rng
    th = run.tier == "thorough"
    P = pool_for(run)
    run.cov["rule"] = ("all legal moves of pool positions: printed strings vs the rules' notation (absolute coordinates, promotion letter, "
                       "castling e1g1-style in standard mode on standard geometry, king-takes-rook in Chess960 mode on all positions); "
                       "distinct moves print differently; each printed string fed back through `position ... moves` selects the same "
                       "move; non-trivial = position has castling, promotion or Black to move")
    pool = [e for e in P["pool"] if rng.random() < (0.8 if th else 0.3)]
    reqs, meta = [], []
    for e in pool:
        for frc in ("0", "1"):
            if frc == "0" and not std_geometry(e["fen"]):
                continue
            reqs.append(f"uci\t{frc}\t{e['fen']}")
            meta.append((frc, e["fen"]))
    impl, _ = vlib.run_impl_par(reqs)
    spec = vlib.run_model_par([r.replace("uci\t", "ucispec\t", 1) for r in reqs])
    nv = 0
    back = []
    for rq, m, a, s in zip(reqs, meta, impl, spec):
        if a.startswith(("PANIC", "DIED")):
            nv += 1
            run.violation("panic", "printing a legal move panics", {"request": rq, "implementation": a})
            continue
        d = kv(a)
        ms = mv_list(d.get("moves", ""))
        strs = d.get("strs", "").split(",") if d.get("strs") else []
        want = dict((tuple(int(x) for x in it.split(":")[0].split("-")), it.split(":")[1]) for it in s.split(",")) if s else {}
        nt = m[1].split(" ")[1] == "b" or any(x[2] != 6 for x in ms) or m[1].split(" ")[2] != "-"
        run.note_case(rq, "frc" if m[0] == "1" else "std", nontrivial=nt)
        got = dict(zip(ms, strs))
        if got != want or len(set(strs)) != len(strs):
            nv += 1
            diff = [(k, got.get(k), want.get(k)) for k in set(got) | set(want) if got.get(k) != want.get(k)][:6]
            if nv <= 25:
                run.violation("move-notation", f"printed move strings differ from the notation rules or are ambiguous: {diff}",
                              {"frc": m[0], "fen": m[1], "implementation": a, "rules": s,
                               "repro": "printf '" + rq.replace("\t", "\\t") + "\\n' | .build/cargo/release/rawr_harness /dev/stdout"})
            continue
        if ms and rng.random() < 0.5:
            k = rng.randrange(len(ms))
            back.append((m[0], m[1], ms[k], strs[k]))
    r2 = [f"pos\t{frc}\tfen {fen} moves {st}" for frc, fen, mv, st in back]
    r3 = [f"make\t{fen}\t{mv[0]}-{mv[1]}-{mv[2]}" for frc, fen, mv, st in back]
    i2, _ = vlib.run_impl_par(r2)
    i3, _ = vlib.run_impl_par(r3)
    for (frc, fen, mv, st), a, b in zip(back, i2, i3):
        run.note_case(("back", frc, fen, st), "parse-back")
        da, db = kv(a), kv(b)
        if a.startswith(("PANIC", "DIED")) or any(da.get(k) != db.get(k) for k in ("us", "them", "P", "N", "B", "R", "Q", "K", "turn", "ep", "cr", "hash")):
            nv += 1
            if nv <= 25:
                run.violation("parse-back", f"feeding the printed string {st} back does not select the move {mv}",
                              {"frc": frc, "fen": fen, "string": st, "after_parsing": a, "after_the_move": b})
    # through the command loop of the binary: every move `go split 1` prints after `position (startpos|fen F) moves ...`
    # is accepted when appended to the same command (no unknown-move diagnostic, one more key in the history)
    import re as _re
    import props_proc
    rel = vlib.build_engine("release")
    START = "rnbqkbnr/pppppppp/8/8/8/8/PPPPPPPP/RNBQKBNR w KQkq - 0 1"
    pre960 = ["e2e4 e7e5 g1f3 b8c6 f1c4 g8f6", "e2e4 e7e5 g1f3 b8c6 f1c4 g8f6 e1h1 f8c5 d2d3",
              "d2d4 d7d5 b1c3 b8c6 c1f4 c8f5 d1d2 d8d7", "d2d4 d7d5 b1c3 b8c6 c1f4 c8f5 d1d2 d8d7 e1a1", ""]
    prestd = [x.replace("e1h1", "e1g1").replace("e1a1", "e1c1") for x in pre960]
    pl = []
    for frc in ("0", "1"):
        for pre in (pre960 if frc == "1" else prestd):
            pl.append((frc, "startpos", pre))
            pl.append((frc, "fen " + START, pre))
        for m in rng.sample([x for x in meta if x[0] == frc], 6 if th else 3):
            pl.append((frc, "fen " + m[1], ""))
    def head(frc, where, pre, extra=""):
        mv = (pre + " " + extra).strip()
        return (["setoption name UCI_Chess960 value true"] if frc == "1" else []) + ["isready", "position " + where + (" moves " + mv if mv else "")]
    first = vlib.par_map(lambda c: props_proc.run_engine(rel, head(*c) + ["go split 1", "quit"], timeout=60), pl)
    second_jobs = []
    for c, (out, err, rc, to) in zip(pl, first):
        printed = [l.split(" ")[0] for l in out.split("\n") if _re.match(r"^[a-h][1-8][a-h][1-8][nbrq]? \d+$", l)]
        run.note_case(("split",) + c, "process-level", nontrivial=any(t in ("e1h1", "e1a1", "e8h8", "e8a8", "e1g1", "e1c1") for t in printed))
        if not to and rc == 0 and not printed and "\nnodes 0" in out:
            continue            # no legal moves
        if to or rc != 0 or not printed:
            nv += 1
            run.violation("panic", "the engine printed no moves for go split 1", {"script": ["uci"] + head(*c) + ["go split 1"], "rc": rc, "stderr": err[-300:]})
            continue
        npre = len(c[2].split()) if c[2] else 0
        second_jobs.append((c, printed, npre))
    def second(job):
        c, printed, npre = job
        bad = []
        sc = []
        for t in printed:
            sc += head(c[0], c[1], c[2], t)[-1:] + ["history"]
        out, err, rc, to = props_proc.run_engine(rel, head(c[0], c[1], c[2])[:-1] + sc + ["quit"], timeout=120)
        if to or rc != 0:
            return ["engine died"]
        for t in printed:
            if ("info string unknown move " + t) in out:
                bad.append(t)
        nk = sum(1 for l in out.split("\n") if l.startswith("0x"))
        if nk != len(printed) * (npre + 2) and not bad:
            bad.append(f"history keys {nk} != {len(printed)} x {npre + 2}")
        return bad
    sres = vlib.par_map(second, second_jobs)
    for (c, printed, npre), bad in zip(second_jobs, sres):
        run.note_case(("split-back",) + c, "process-level")
        if bad:
            nv += 1
            if nv <= 25:
                run.violation("parse-back", f"through the command loop: printed move(s) {bad[:6]} are not accepted when fed back",
                              {"script": ["uci"] + head(c[0], c[1], c[2], str(bad[0])) + ["print"],
                               "repro": "printf 'uci\\n" + "\\n".join(head(c[0], c[1], c[2], str(bad[0])) + ["print"]) + "\\n' | " + rel})
    # the notation follows the option at the moment of printing: UCI_Chess960 switched after `position`, then `go split 1`;
    # the printed strings must be exactly the rules' strings for the mode in force
    tfens = ["r3k2r/8/8/8/8/8/8/R3K2R w KQkq - 0 1", "r3k2r/8/8/8/8/8/8/R3K2R b KQkq - 0 1", "r3k2r/pppq1ppp/2n2n2/2bpp3/2BPP3/2N2N2/PPPQ1PPP/R3K2R w KQkq - 6 8"]
    tfens += [m[1] for m in rng.sample([x for x in meta if std_geometry(x[1]) and x[1].split(" ")[2] != "-"] or meta, 4 if th else 2)]
    tj = []
    for f in tfens:
        for first, then in (("0", "1"), ("1", "0")):
            sc = (["setoption name UCI_Chess960 value true"] if first == "1" else []) + ["isready", "position fen " + f,
                  f"setoption name UCI_Chess960 value {'true' if then == '1' else 'false'}", "go split 1", "quit"]
            tj.append((f, then, sc))
    tres = vlib.par_map(lambda j: props_proc.run_engine(rel, j[2], timeout=60), tj)
    tspec = vlib.run_model_par([f"ucispec\t{then}\t{f}" for f, then, _ in tj])
    for (f, then, sc), (out, err, rc, to), sp_ in zip(tj, tres, tspec):
        run.note_case(("toggle",) + tuple(sc), "process-level", nontrivial=True)
        want = sorted(it.split(":")[1] for it in sp_.split(",")) if sp_ and not sp_.startswith("ERROR") else []
        printed = sorted(l.split(" ")[0] for l in out.split("\n") if _re.match(r"^[a-h][1-8][a-h][1-8][nbrq]? \d+$", l))
        if to or rc != 0 or printed != want:
            nv += 1
            if nv <= 25:
                diff = sorted(set(printed) ^ set(want))
                run.violation("move-notation", f"after switching UCI_Chess960 {'on' if then == '1' else 'off'} the printed moves differ from the notation in force: {diff[:8]}",
                              {"script": ["uci"] + sc, "printed": printed, "rules": want, "repro": "printf 'uci\\n" + "\\n".join(sc) + "\\n' | " + rel})
    run.cov["traces_validated_against_impl"] = len(reqs) + len(r2) + len(pl) + len(tj)
    run.sample({"request": reqs[0], "implementation": impl[0][:300]})
    run.cov["explanation"] = ("square-name injectivity and promotion-letter lemmas proved; shape/injectivity/round-trip on all legal moves checked above, "
                              "also through the binary's command loop with `position startpos` and `position fen` in both modes")


def check_C05(run):
    rng = run.rng
    th = run.tier == "thorough"
    P = pool_for(run)
    run.cov["rule"] = ("`position (startpos | fen F) moves t1..tn` on F from the pool, UCI_Chess960 on and off (off also on Chess960 / double-Chess960 "
                       "geometry, incl. castling rooks on different files for the two sides, as long as no two legal moves are written alike): tokens are legal moves in the active notation, in the other notation, conventional castling strings (legal and "
                       "not, right and wrong side to move), illegal and garbage tokens; final position vs the specification's reading of "
                       "the token list, one key per position reached, unknown-move diagnostics exactly for the tokens that denote nothing; "
                       "non-trivial = at least one token is not a plain legal move")
    games = P["games"]
    reqs, meta = [], []
    junk = ["e1g1", "e1c1", "e8g8", "e8c8", "0000", "e2e5", "a1a1", "zz", "e7e8", "e7e8k", "h7h8q", "e1h1", "e1a1", "e8h8", "e8a8", "O-O", "moves", "fen", "d2d4"]
    pool = [e for e in P["pool"]]
    for _ in range(1500 if th else 250):
        e = rng.choice(pool)
        frc = rng.choice("01")
        if frc == "0" and not std_geometry(e["fen"]) and rng.random() < 0.5:
            frc = "1"       # the other half: standard notation on Chess960 / double-Chess960 geometry (dropped below when a string is ambiguous)
        n = rng.randrange(0, 10)
        reqs.append((frc, e["fen"], n, rng.randrange(1 << 30)))
    # build token lists by walking with the specification side (ucispec gives every legal move's string in both modes)
    built = []
    ambiguous = set()
    cur = [(frc, fen, fen, [], n, sd) for frc, fen, n, sd in reqs]
    import random as _r
    for step in range(10):
        live = [c for c in cur if len(c[3]) < c[4]]
        if not live:
            break
        o1 = vlib.run_model_par([f"ucispec\t{c[0]}\t{c[2]}" for c in live])
        o0 = vlib.run_model_par([f"ucispec\t{'1' if c[0] == '0' else '0'}\t{c[2]}" for c in live])
        nxt = []
        upd = {}
        for c, a, b in zip(live, o1, o0):
            rr = _r.Random(c[5] + step)
            items = [it.split(":") for it in a.split(",")] if a and not a.startswith("ERROR") else []
            other = [it.split(":")[1] for it in b.split(",")] if b and not b.startswith("ERROR") else []
            if c[0] == "0" and len(set(st for _, st in items)) != len(items):
                ambiguous.add((c[1], c[5]))      # two legal moves are written alike in standard notation here: outside what the notation can express
            roll = rr.random()
            if items and roll < 0.6:
                trip, st = rr.choice(items)
                upd[id(c)] = (st, trip)
            elif roll < 0.75 and other:
                upd[id(c)] = (rr.choice(other), None)
            elif roll < 0.88 and items:
                # a legal move's string spelled almost right (sixth seed round: a case-insensitive matcher played E2E4 / a7a8Q):
                # upper-case letters, a stray suffix or prefix, a doubled promotion letter -- all must denote nothing
                st0 = rr.choice(items)[1]
                kind = rr.randrange(6)
                if kind == 0:
                    st1 = st0.upper()
                elif kind == 1:
                    st1 = st0[:-1] + st0[-1].upper() if st0[-1].isalpha() else st0[0].upper() + st0[1:]
                elif kind == 2:
                    st1 = st0[:2] + st0[2].upper() + st0[3:]
                elif kind == 3:
                    st1 = st0 + rr.choice("qnx+#")
                elif kind == 4:
                    st1 = rr.choice("KQNRBP") + st0
                else:
                    st1 = st0[:4] + (st0[4:].upper() if len(st0) > 4 else "Q")
                upd[id(c)] = (st1, None)
            else:
                upd[id(c)] = (rr.choice(junk), None)
        # advance positions: ask the specification what the token denotes via posspec on the single token
        adv = vlib.run_model_par([f"posspecfen\t{c[0]}\t{c[2]}\t{upd[id(c)][0]}" for c in live])
        newcur = []
        for c in cur:
            if id(c) in upd:
                k = live.index(c)
                newcur.append((c[0], c[1], adv[k] if not adv[k].startswith("ERROR") else c[2], c[3] + [upd[id(c)][0]], c[4], c[5]))
            else:
                newcur.append(c)
        cur = newcur
    # stale castle files: the castling rook stood next to the e-file king and has moved away (or was traded); the
    # conventional castling string must then denote nothing
    def flip_tok(t):
        return "".join(ch if not ch.isdigit() else str(9 - int(ch)) for ch in t)
    extra = []
    for _ in range(60 if th else 16):
        rf = rng.choice([5, 3])
        b = {G.sq(4, 0): "K", G.sq(rf, 0): "R"}
        bk = rng.choice([s for s in range(40, 64) if s % 8 != rf])
        b[bk] = "k"
        for _k in range(rng.randrange(0, 4)):
            s0 = rng.randrange(8, 56)
            if s0 not in b and s0 % 8 != rf and abs(s0 % 8 - bk % 8) > 1:
                b[s0] = rng.choice("PNBpnb")
        cas = G.FILES[rf].upper() if rng.random() < 0.7 else ("K" if rf == 5 else "Q")
        fen = G.fen_of(b, "w", cas)
        up = rng.randrange(1, 6)
        bkf, bkr = bk % 8, bk // 8
        nbk = (bkf + rng.choice([-1, 1])) % 8
        toks = [f"{G.FILES[rf]}1{G.FILES[rf]}{1 + up}", f"{G.FILES[bkf]}{bkr + 1}{G.FILES[nbk]}{bkr + 1}", "e1g1" if rf == 5 else "e1c1", "e1g1", "e1c1"]
        if rng.random() < 0.5:
            fen = G.mirror_fen(fen)
            toks = [f"{G.FILES[bkf]}{8 - bkr}{G.FILES[nbk]}{8 - bkr}"] + [flip_tok(t) for t in toks]
        extra.append((rng.choice("01"), fen, fen, toks, 0, 0))
    # castling rooks on different files for the two sides (double Chess960, X-FEN mid-game), standard notation: every legal move's
    # own string, one token per case, both colours
    asym = ["3k2r1/8/8/8/8/8/8/4K2R b Kk - 0 1", "r1k3r1/pppppppp/8/8/8/8/PPPPPPPP/2KR2R1 b kq - 4 5", "2rk3r/2p5/8/8/8/8/8/RKR5 b KQkq - 0 1",
            "1r1k2r1/8/8/8/8/8/8/R3K2R b KQgb - 0 1", "r2k3r/8/8/8/8/8/8/1R2K1R1 w GBha - 0 1", "rk5r/8/8/8/8/8/8/R5KR w HAha - 2 3"]
    asym = asym + [G.mirror_fen(f) for f in asym]
    okA = vlib.run_model_par([f"inD\t{f}" for f in asym])
    asym = [f for f, o in zip(asym, okA) if o == "1"]
    strsA = vlib.run_model_par([f"ucispec\t0\t{f}" for f in asym])
    for f, o in zip(asym, strsA):
        strs = [it.split(":")[1] for it in o.split(",")] if o and not o.startswith("ERROR") else []
        if len(set(strs)) != len(strs):
            continue
        kingrow = "1" if f.split(" ")[1] == "w" else "8"
        for st in strs:
            if st[1] == kingrow and st[3] == kingrow:
                extra.append(("0", f, f, [st, rng.choice(strs)], 0, 0))
    # the OTHER colour's conventional castling string while the mover's own castling on that wing is legal (must denote nothing),
    # next to the mover's own string (must castle); both modes, both colours
    for f in ("r3k2r/8/8/8/8/8/8/R3K2R w KQkq - 0 1", "r3k2r/8/8/8/8/8/8/R3K2R b KQkq - 0 1",
              "r3k2r/pppq1ppp/2n2n2/2bpp3/2BPP3/2N2N2/PPPQ1PPP/R3K2R w KQkq - 6 8", "r3k2r/pppq1ppp/2n2n2/2bpp3/2BPP3/2N2N2/PPPQ1PPP/R3K2R b KQkq - 6 8",
              "4k2r/8/8/8/8/8/8/R3K3 w Qk - 0 1", "4k2r/8/8/8/8/8/8/R3K3 b Qk - 0 1"):
        for frcflag in ("0", "1"):
            for tok in ("e1g1", "e1c1", "e8g8", "e8c8"):
                extra.append((frcflag, f, f, [tok, rng.choice(["e1g1", "e8g8", "e1c1", "e8c8", "a2a3", "a7a6"])], 0, 0))
    okf = vlib.run_model_par([f"inD\t{e[1]}" for e in extra])
    cur = [c for c in cur if (c[1], c[5]) not in ambiguous]
    cur = cur + [e for e, o in zip(extra, okf) if o == "1"]
    rq, rs = [], []
    for c in cur:
        toks = " ".join(c[3])
        start = "startpos" if c[1].startswith("rnbqkbnr/pppppppp/8/8/8/8/PPPPPPPP/RNBQKBNR w KQkq - 0 1") and rng.random() < 0.5 else "fen " + c[1]
        rq.append(f"pos\t{c[0]}\t{start}" + (f" moves {toks}" if toks or rng.random() < 0.5 else ""))
        rs.append(f"posspec\t{c[0]}\t{c[1]}\t{toks}")
    impl, prints = vlib.run_impl_par(rq)
    model = vlib.run_model_par(rq)
    spec = vlib.run_model_par(rs)
    ab = abs_of([a if not a.startswith(("PANIC", "DIED")) else "us=0" for a in impl])
    nv = 0
    for i, (r, a, b, s, o) in enumerate(zip(rq, impl, model, spec, ab)):
        unknown = [u for u in s.split(" unknown=")[1].split(";") if u] if " unknown=" in s else []
        run.note_case(r, "frc" if r.split("\t")[1] == "1" else "std", nontrivial=len(unknown) > 0)
        if a.startswith(("PANIC", "DIED")):
            nv += 1
            if nv <= 25:
                run.violation("panic", "`position` panics on a valid FEN with move tokens", {"request": r, "implementation": a})
            continue
        want_abs = s.split("abs=")[1].split(" ")[0]
        reached = int(s.split(" reached=")[1].split(" ")[0])
        got_abs = o.split("abs=")[1].split(" ")[0] if "abs=" in o else o
        keys = kv(a).get("keys", "").split(",")
        diag = [ln[len("info string unknown move "):] for ln in prints.get(i, []) if ln.startswith("info string unknown move ")]
        bad = None
        if got_abs != want_abs:
            bad = "final position differs from applying the tokens that denote legal moves"
        elif len(keys) != reached + 1:
            bad = f"history holds {len(keys)} keys for {reached + 1} positions"
        elif diag != unknown:
            bad = f"unknown-move diagnostics {diag} but the tokens denoting nothing are {unknown}"
        elif " valid=1" not in o or kv(a).get("hash") != o.split(" calc=")[1].split(" ")[0]:
            bad = "resulting position is not valid or its key is stale"
        if bad:
            nv += 1
            if nv <= 25:
                run.violation("position-moves", bad, {"request": r, "implementation": a, "diagnostics": diag, "specification": s,
                                                      "repro": "printf '" + r.replace("\t", "\\t") + "\\n' | .build/cargo/release/rawr_harness /dev/stdout"})
        elif kv(a).get("keys") != kv(b.split(" diag=")[0]).get("keys") and kv(a).get("hash") == kv(b.split(" diag=")[0]).get("hash"):
            # the final position (and its key) agree with the model, the recorded history does not: entry k must be the key of
            # the k-th position reached (theorem C05_one_key_per_position + key = recomputed key on the model side)
            nv += 1
            ka, kb = kv(a).get("keys", "").split(","), kv(b.split(" diag=")[0]).get("keys", "").split(",")
            k = next((i for i, (x, y) in enumerate(zip(ka, kb)) if x != y), min(len(ka), len(kb)))
            if nv <= 25:
                run.violation("position-moves", f"history entry {k} is not the key of position {k} of the game (implementation {ka[k] if k < len(ka) else '-'}, "
                              f"key of that position {kb[k] if k < len(kb) else '-'})",
                              {"request": r, "implementation": a, "model": b,
                               "repro": "printf '" + r.replace("\t", "\\t") + "\\n' | .build/cargo/release/rawr_harness /dev/stdout"})
        elif a != b.split(" diag=")[0]:
            nv += 1
            if nv <= 25:
                run.violation("model-mismatch", "fields or keys differ from the model's", {"request": r, "implementation": a, "model": b}, found_input=False)
    # the same through the real command loop of the binary (uci/listen.rs): options, optional ucinewgame, position, print, history
    import props_proc
    rel = vlib.build_engine("release")
    pcases = []
    for c in cur:
        if rng.random() < (0.5 if th else 0.25) and len(pcases) < (400 if th else 70):
            pcases.append(c)
    # Chess960 castling in king-takes-rook notation right after ucinewgame
    for fen, toks in (("r3k2r/8/8/8/8/8/8/R3K2R w KQkq - 0 1", ["e1h1", "e8a8"]), ("rk4r1/pppppppp/8/8/8/8/PPPPPPPP/RK4R1 b KQkq - 3 7", ["b8a8", "b1a1", "zzzz", "h7h5"]),
                      ("nrk2rbb/pppppppp/8/8/8/8/PPPPPPPP/NRK2RBB w KQkq - 0 1", ["g2g3", "g7g6", "h1g2", "h8g7", "c1f1", "c8f8"])):
        pcases.append(("1", fen, fen, toks, 0, 0))
    # `position startpos moves ...` (the keyword, not a FEN) in both modes and both castling notations
    START = "rnbqkbnr/pppppppp/8/8/8/8/PPPPPPPP/RNBQKBNR w KQkq - 0 1"
    lines960 = ["e2e4 e7e5 g1f3 b8c6 f1c4 g8f6 e1h1 f8c5 d2d3 e8h8 c1g5 h7h6",
                "d2d4 d7d5 b1c3 b8c6 c1f4 c8f5 d1d2 d8d7 e1a1 e8a8 f2f3 f7f6",
                "g1f3 g8f6 g2g3 g7g6 f1g2 f8g7 e1h1 e8h8 d2d4 d7d5"]
    std_of = {"e1h1": "e1g1", "e8h8": "e8g8", "e1a1": "e1c1", "e8a8": "e8c8"}
    startpos_cases = set()
    for ln in lines960:
        toks = ln.split(" ")
        for frcflag in ("0", "1"):
            for notation in (0, 1):
                tk = [std_of.get(t, t) if notation else t for t in toks]
                for cut in (len(tk), rng.randrange(6, len(tk))):
                    pcases.append((frcflag, START, START, tk[:cut], 0, 0))
                    startpos_cases.add(len(pcases) - 1)
    pj, pspec = [], []
    for ci, c in enumerate(pcases):
        frc = c[0] == "1"
        where = "startpos" if ci in startpos_cases else "fen " + c[1]
        script = (["setoption name UCI_Chess960 value true"] if frc else []) + ["isready"] + \
                 (["ucinewgame"] if rng.random() < 0.6 or c[4] == 0 else []) + \
                 ["position " + where + ((" moves " + " ".join(c[3])) if c[3] else ""), "print", "history", "quit"]
        pj.append(script)
        pspec.append(f"posspec\t{c[0]}\t{c[1]}\t{' '.join(c[3])}")
    pres = vlib.par_map(lambda sc: props_proc.run_engine(rel, sc, timeout=60), pj)
    pso = vlib.run_model_par(pspec)
    for sc, (out, err, rc, to), so in zip(pj, pres, pso):
        run.note_case(tuple(sc), "process-level")
        lines = [l for l in out.split("\n")]
        try:
            k = next(i for i, l in enumerate(lines) if l.startswith("Turn: "))
        except StopIteration:
            k = None
        if to or rc != 0 or k is None or k < 8:
            nv += 1
            run.violation("panic", "the engine did not answer print after position", {"script": ["uci"] + sc, "rc": rc, "stderr": err[-300:]})
            continue
        rows = lines[k - 8:k]
        board = "".join(r.replace("-", ".") for r in reversed(rows))
        want_abs = so.split("abs=")[1].split(" ")[0]
        reached = int(so.split(" reached=")[1].split(" ")[0])
        unknown = [u for u in so.split(" unknown=")[1].split(";") if u]
        nkeys = sum(1 for l in lines if l.startswith("0x"))
        diag = [l[len("info string unknown move "):] for l in lines if l.startswith("info string unknown move ")]
        turn = "w" if lines[k] == "Turn: White" else "b"
        bad = None
        if board != want_abs.split("/")[0] or turn != want_abs.split("/")[1]:
            bad = "board or side to move after `position` differs from applying the tokens that denote legal moves"
        elif nkeys != reached + 1:
            bad = f"history holds {nkeys} keys for {reached + 1} positions"
        elif diag != unknown:
            bad = f"unknown-move diagnostics {diag} but the tokens denoting nothing are {unknown}"
        if bad:
            nv += 1
            if nv <= 25:
                run.violation("position-moves", "through the command loop: " + bad,
                              {"script": ["uci"] + sc, "board_printed(rank 1 first)": board, "specification": so,
                               "repro": "printf 'uci\\n" + "\\n".join(sc) + "\\n' | " + rel})
    run.cov["traces_validated_against_impl"] = len(rq) + len(pj)
    run.sample({"request": rq[0], "implementation": impl[0][:300], "specification": spec[0][:200]})
    run.sample({"script": pj[0], "specification": pso[0][:200]})
    run.cov["explanation"] = ("proof on the model: the token matcher is the specification's denotation and moves_cmd follows UciSpec.play_tokens for every token list "
                              "(C05_moves_follow_the_specification, on C01's equivalence and C09's injectivity, under the geometry invariant TokGeo); one key pushed per move made, "
                              "unknown tokens leave position and history unchanged; the tie of the model to uci/moves.rs and uci/position.rs is the comparison above")


# ====================================================================== C17
def check_C17(run):
    rng = run.rng
    th = run.tier == "thorough"
    c = consts()
    P = pool_for(run)
    run.cov["rule"] = ("pool positions (plus parser-accepted positions outside D): evaluation vs the model; turn passed (same board, other "
                       "side to move) => exact negative; colours swapped and board mirrored => equal; counters, castling rights, ep state "
                       "perturbed => equal; |eval| < MATE_SCORE - MAX_DEPTH; non-trivial = evaluation non-zero")
    pool = [e["fen"] for e in P["pool"] if rng.random() < (1.0 if th else 0.4)]
    pool += ["6b1/8/8/3pP3/8/8/K7/7k w - d6 0 1", "4k3/1QQR1RQQ/1QQQKQQ1/1BBNN3/8/8/8/8 w - - 0 1",
             "rnbqkbnr/pppppppp/qqqqqqqq/qqqqqqqq/QQQQQQQQ/QQQQQQQQ/PPPPPPPP/RNBQKBNR w KQkq - 0 1", "QQQQQQQQ/QQQQQQQQ/QQQQQQQQ/QQQQQQQQ/8/8/8/K6k w - - 0 1"]
    reqs, meta = [], []
    for f in pool:
        p = f.split(" ")
        passed = " ".join([p[0], "b" if p[1] == "w" else "w", p[2], "-", p[4], p[5]])
        noep = " ".join([p[0], p[1], p[2], "-", p[4], p[5]])
        pert = " ".join([p[0], p[1], "-", "-", str(rng.choice([rng.randrange(0, 90), 99, 100, 101, 150, 1000])), str(rng.randrange(1, 300))])
        reqs += [f"eval\t{f}", f"eval\t{noep}", f"eval\t{passed}", f"eval\t{G.mirror_fen(f)}", f"eval\t{pert}"]
        meta.append(f)
    impl, _ = vlib.run_impl_par(reqs)
    model = vlib.run_model_par(reqs)
    nv = 0
    bound = c["MATE"] - c["MAX_DEPTH"]
    for k, f in enumerate(meta):
        a = impl[5 * k: 5 * k + 5]
        b = model[5 * k: 5 * k + 5]
        if a[0].startswith(("PANIC", "DIED")):
            if not b[0].startswith("ERROR"):
                nv += 1
                run.violation("panic", "evaluation panics", {"fen": f, "implementation": a[0]})
            continue
        vals = []
        for x in a:
            vals.append(int(kv(x)["eval"]) if x.startswith("eval=") else None)
        run.note_case(f, "eval", nontrivial=vals[0] != 0)
        bad = None
        # the passed-turn twin may be rejected by the parser (side not to move in check): then no claim
        if vals[2] is not None and vals[1] is not None and vals[2] != -vals[1]:
            bad = f"eval {vals[1]} but {vals[2]} with the turn passed (expected the exact negative)"
        elif vals[3] is not None and vals[3] != vals[0]:
            bad = f"eval {vals[0]} but {vals[3]} after swapping colours and mirroring the board"
        elif vals[4] is not None and vals[1] is not None and vals[4] != vals[1]:
            bad = f"eval {vals[1]} but {vals[4]} with other counters / rights / ep state"
        elif vals[1] is not None and vals[1] != vals[0]:
            bad = f"eval {vals[0]} but {vals[1]} without the ep square"
        elif not (-bound < vals[0] < bound):
            bad = f"eval {vals[0]} outside the range reserved below mate scores"
        if bad:
            nv += 1
            if nv <= 25:
                run.violation("eval-symmetry", bad, {"fen": f, "implementation": a, "repro": f"printf 'eval\\t{f}\\n' | .build/cargo/release/rawr_harness /dev/stdout"})
        elif a[0] != b[0]:
            nv += 1
            if nv <= 25:
                run.violation("model-mismatch", "evaluation differs from the model's", {"fen": f, "implementation": a[0], "model": b[0]}, found_input=False)
    run.cov["traces_validated_against_impl"] = len(reqs)
    run.sample({"fen": meta[0], "implementation": impl[0:5]})
    run.cov["explanation"] = "eval_antisym, eval_reads_boards_only, eval_bounded_on_D proved on the model (theorems listed); tie checked above, bound also observed on every case"


# ====================================================================== C18
def check_C18(run):
    rng = run.rng
    th = run.tier == "thorough"
    run.cov["rule"] = ("random operation sequences (store / lookup / clear / resize / fill indicator / length) on Hashtable<u64>, sizes 0..3 MB, "
                       "keys clustered to collide in slots, incl. lookups on an empty table (guarded panic): every output vs the model and "
                       "vs a dictionary specification (last value stored per slot since the last clear, truncated by resize); the "
                       "TTEntry instantiation is exercised by every search check; boundary sequences on both Hashtable<u64> and "
                       "Hashtable<TTEntry> (sizes 1..16 MB): slots 0..1001 filled then the fill indicator, stores in the last slots "
                       "then clear / shrink / grow; the maximal size 4096 MB (slot count, last slot, shrink); non-trivial = sequence contains a resize or clear after a store")
    seqs = []
    for _ in range(400 if th else 60):
        ops = []
        n = rng.randrange(5, 120)
        size = 0
        keys = [rng.getrandbits(64) for _ in range(6)] + [rng.randrange(0, 2000) for _ in range(6)]
        for _ in range(n):
            r = rng.random()
            if r < 0.08:
                size = rng.choice([0, 1, 1, 2, 3])
                ops.append(f"r:{size}")
            elif r < 0.5:
                k = rng.choice(keys) if rng.random() < 0.7 else rng.getrandbits(64)
                if rng.random() < 0.3 and size:
                    k = (k % 1000) + rng.choice([0, 131072, 262144, 393216])
                ops.append(f"a:{k}:{rng.choice([0, 0, 1, 7, rng.getrandbits(64)])}")
            elif r < 0.85:
                k = rng.choice(keys) if rng.random() < 0.8 else rng.getrandbits(64)
                if rng.random() < 0.3:
                    k = (k % 1000) + rng.choice([0, 131072, 262144, 393216])
                ops.append(f"p:{k}")
            elif r < 0.9:
                ops.append("c")
            elif r < 0.97:
                ops.append("h")
            else:
                ops.append("l")
        seqs.append(" ".join(ops))
    reqs = [f"tt\t8\t{s}" for s in seqs]
    # boundary families, on both instantiations (u64 and the 24-byte TTEntry): the sampled prefix filled to and past
    # its end (slots 0..999, 1000, 1001), and stores in the last slots of the table followed by clear / resize
    bseqs = []
    for es in (8, 24):
        for mb in ((1, 2, 3, 16) if th else (1, 3, 16)):
            ln = mb * 1024 * 1024 // es
            k0 = rng.choice([0, ln, 5 * ln])
            bseqs.append((es, f"r:{mb} A:{k0}:1001:7 h P:{k0}:1001 p:{k0 + 1000} c h P:{k0}:1001 l"))
            bseqs.append((es, f"r:{mb} A:{k0}:999:3 h a:{k0 + 1000}:5 h a:{k0 + 999}:5 h a:{k0 + 1001}:5 h c h"))
            tail = rng.choice([300, 1000, 5000])
            bseqs.append((es, f"r:{mb} A:{ln - tail}:{tail}:9 P:{ln - tail}:{tail} h c P:{ln - tail}:{tail} P:0:2000 A:{ln - 3}:6:4 P:{ln - 3}:6 p:{ln - 1} p:{ln}"))
            bseqs.append((es, f"r:{mb} A:{ln - tail}:{tail}:9 r:{max(mb - 1, 0)} l P:{ln - tail}:{tail} r:{mb} P:{ln - tail}:{tail} h"))
    nv = 0
    breq = [f"tt\t{es}\t{s}" for es, s in bseqs]
    bi, _ = vlib.run_impl_par(breq)
    bm = vlib.run_model_par(breq)
    for (es, s), a, b in zip(bseqs, bi, bm):
        run.note_case((es, s), "boundary", nontrivial=True)
        # expected outputs from the specification: slot -> value dictionary
        length, slots, want = 0, {}, []
        for o in s.split(" "):
            f = o.split(":")
            if f[0] == "r":
                length = int(f[1]) * 1024 * 1024 // es
                slots = {k: v for k, v in slots.items() if k < length}
                want.append("r")
            elif length == 0 and f[0] in "aApP":
                want.append("PANIC")
            elif length == 0 and f[0] == "h":
                want.append("-")
            elif f[0] == "a":
                slots[int(f[1]) % length] = int(f[2]); want.append("a")
            elif f[0] == "A":
                for j in range(int(f[2])):
                    slots[(int(f[1]) + j) % length] = int(f[3])
                want.append("A")
            elif f[0] == "p":
                want.append(str(slots.get(int(f[1]) % length, 0)))
            elif f[0] == "P":
                want.append(str(sum(1 for j in range(int(f[2])) if slots.get((int(f[1]) + j) % length, 0) != 0)))
            elif f[0] == "c":
                slots = {}; want.append("c")
            elif f[0] == "h":
                want.append(str(sum(1 for k, v in slots.items() if k < 1000 and v != 0)))
            else:
                want.append(str(length))
        got = a.split(" | ")[0].split(" ")
        if got != want:
            nv += 1
            k = next((i for i, (x, y) in enumerate(zip(got, want)) if x != y), 0)
            run.violation("table-semantics", f"element size {es}: operation #{k + 1} ({s.split(' ')[k]}) answered {got[k] if k < len(got) else '?'}, "
                          f"the last-stored-per-slot specification says {want[k]} (fill indicator must count slots 0..999 only; clear must empty every slot)",
                          {"element_size": es, "operations": s, "implementation": got, "specification": want,
                           "repro": "printf 'tt\\t" + str(es) + "\\t" + s + "\\n' | .build/cargo/release/rawr_harness /dev/stdout"})
        elif a != b:
            nv += 1
            run.violation("model-mismatch", "outputs differ from the model's", {"element_size": es, "operations": s, "implementation": a[:300], "model": b[:300]}, found_input=False)
    # the largest sizes the engine advertises (Hash max 4096): slot count = bytes / element size, no 32-bit wrap; one process at a
    # time (4 GB), implementation against the arithmetic of the specification only (the model does not allocate such tables)
    large = [(24, 4096), (8, 4096)] + ([(24, 4095), (24, 2048), (8, 2049)] if th else [])
    for es, mb in large:
        ln = mb * 1024 * 1024 // es
        sq_ = f"r:{mb} l a:{ln - 1}:7 p:{ln - 1} p:{2 * ln - 1} a:{ln}:9 p:0 h r:1 l p:0"
        out, _ = vlib.run_impl([f"tt\t{es}\t{sq_}"])
        run.note_case((es, sq_), "large", nontrivial=True)
        got = out[0].split(" | ")[0].split(" ")
        want = ["r", str(ln), "a", "7", "7", "a", "9", "1", "r", str(1024 * 1024 // es), "9"]
        if out[0].startswith("DIED"):
            run.cov["classes"]["large-inconclusive(process killed)"] = run.cov["classes"].get("large-inconclusive(process killed)", 0) + 1
        elif got != want:
            nv += 1
            k = next((i for i, (x, y) in enumerate(zip(got, want)) if x != y), 0)
            run.violation("table-semantics", f"element size {es}, {mb} MB: operation #{k + 1} ({sq_.split(' ')[k]}) answered {got[k] if k < len(got) else '?'}, expected {want[k]} "
                          f"(a table of {mb} MB must have {ln} slots)",
                          {"element_size": es, "operations": sq_, "implementation": got, "specification": want,
                           "repro": "printf 'tt\\t" + str(es) + "\\t" + sq_ + "\\n' | .build/cargo/release/rawr_harness /dev/stdout"})
    impl, _ = vlib.run_impl_par(reqs)
    model = vlib.run_model_par(reqs)
    for s, a, b in zip(seqs, impl, model):
        ops = s.split(" ")
        nt = any(o[0] in "rc" for i, o in enumerate(ops) if any(x[0] == "a" for x in ops[:i]))
        run.note_case(s, "sequence", nontrivial=nt)
        # dictionary specification
        length, slots, want = 0, {}, []
        for o in ops:
            f = o.split(":")
            if f[0] == "r":
                length = int(f[1]) * 1024 * 1024 // 8
                slots = {k: v for k, v in slots.items() if k < length}
                want.append("r")
            elif f[0] == "a":
                if length == 0:
                    want.append("PANIC")
                else:
                    slots[int(f[1]) % length] = int(f[2])
                    want.append("a")
            elif f[0] == "p":
                want.append("PANIC" if length == 0 else str(slots.get(int(f[1]) % length, 0)))
            elif f[0] == "c":
                slots = {}
                want.append("c")
            elif f[0] == "h":
                want.append("-" if length == 0 else str(sum(1 for k, v in slots.items() if k < 1000 and v != 0)))
            else:
                want.append(str(length))
        got = a.split(" | ")[0].split(" ")
        if got != want:
            nv += 1
            k = next((i for i, (x, y) in enumerate(zip(got, want)) if x != y), 0)
            if nv <= 25:
                run.violation("cache-semantics", f"operation {k} ({ops[k]}) answered {got[k] if k < len(got) else None}, the cache specification says {want[k]}",
                              {"ops": " ".join(ops[: k + 1]), "implementation": got[: k + 1], "specification": want[: k + 1],
                               "repro": f"printf 'tt\\t8\\t{' '.join(ops[: k + 1])}\\n' | .build/cargo/release/rawr_harness /dev/stdout"})
            continue
        for x in got:
            if x not in ("r", "a", "c", "-", "PANIC") and not x.isdigit():
                nv += 1
        if a != b:
            nv += 1
            if nv <= 25:
                run.violation("model-mismatch", "outputs differ from the model's", {"ops": s, "implementation": a, "model": b}, found_input=False)
    sz, _ = vlib.run_impl(["ttsize"])
    run.cov["ttentry_size_and_slots_per_mb"] = sz[0]
    if sz[0].split(" ")[0] != "24":
        run.violation("model-mismatch", f"size_of::<TTEntry>() = {sz[0]} but the model assumes 24", {"ttsize": sz[0]}, found_input=False)
    run.cov["traces_validated_against_impl"] = len(reqs)
    run.sample({"ops": seqs[0][:300], "implementation": impl[0][:300]})
    run.cov["explanation"] = ("tt_refines: every operation sequence on the model table is simulated by the last-stored-per-slot specification; "
                              "poll_after_add, clear_empties, resize_len, hashfull_range proved (theorems listed)")


CHECKS = {"C05": check_C05, "C06": check_C06, "C07": check_C07, "C09": check_C09, "C17": check_C17, "C18": check_C18}
