"""Checks for the search properties: C03 C11 C12 C13 C14 C19."""
import re

import vlib
from vlib import kv
import gen as G
from props import pool_for, mv_sorted


def props_io_std(fen):
    import props_io
    return props_io.std_geometry(fen)

MATE = 1000000
DRAW = -50


def consts():
    txt = open(vlib.COQ + "/model/Consts.v").read()
    g = lambda n: int(re.search(r"Definition " + n + r" : Z := \(?(-?\d+)\)?\.", txt).group(1))
    return {"MATE": g("MATE_SCORE"), "DRAW": g("DRAW_SCORE"), "MAX_DEPTH": g("MAX_DEPTH"), "INF": g("INF")}


def strip_ms(s):
    return re.sub(r" ms=\d+", "", s)


def parse_search(o):
    """'best=.. infos=[..] hist_same=1 ms=..' -> dict"""
    d = {"raw": o}
    m = re.match(r"best=(\S+) infos=\[(.*?)\] hist_same=(\d)(.*)$", o)
    if not m:
        d["bad"] = True
        return d
    d["best"] = m.group(1)
    d["infos"] = [kv(x) for x in m.group(2).split(";")] if m.group(2) else []
    d["hist_same"] = m.group(3) == "1"
    d["pos_changed"] = "POS-CHANGED" in m.group(4)
    mm = re.search(r"ms=(\d+)", m.group(4))
    d["ms"] = int(mm.group(1)) if mm else None
    return d


def small_roots(run, n, maxmen=12):
    """roots with few men (so that depth-limited model searches stay cheap) + some full-board ones"""
    P = pool_for(run)
    rng = run.rng
    small = [e for e in P["pool"] if sum(c.isalpha() for c in e["fen"].split(" ")[0]) <= maxmen]
    rng.shuffle(small)
    big = [e for e in P["pool"] if e["cls"] in ("extreme", "many")] + [e for e in P["pool"] if e["cls"] in ("startpos", "suite", "template")]
    head, tail = big[:8], big[8:]
    rng.shuffle(tail)
    big = head + tail
    return small[: n - n // 5] + big[: n // 5]


def legal_sets(fens):
    outs = vlib.run_model_par([f"gen\t{f}" for f in fens])
    return [set(mv_sorted(kv(o).get("spec", ""))) for o in outs]


def with_clock(fen, hm):
    p = fen.split(" ")
    p[4] = str(hm)
    return " ".join(p)


# ====================================================================== C03
def check_C03(run):
    rng = run.rng
    th = run.tier == "thorough"
    c = consts()
    run.cov["rule"] = ("roots of D (few-men positions from the pool, start position, suite and template FENs; clocks 0 and 95..105; "
                       "histories in which the root is the 2nd/3rd/4th occurrence) x limits depth 0..3, nodes 0/1/50/2000, movetime "
                       "0/1/15 ms, clocks 0/1/30 ms with and without movestogo (0, 1, 40) x fresh table and table left by earlier "
                       "searches; the answer must be a legal move of the rules (0000 only without legal moves); depth/node-limited "
                       "answers are also compared with the model; non-trivial = root has legal moves")
    roots = small_roots(run, 400 if th else 60)
    reqs, meta = [], []
    limsets = [["depth:0"], ["depth:1"], ["nodes:0"], ["nodes:1"], ["movetime:0"], ["time:0:0"], ["time:0:0:0"], ["time:1:1:1"],
               ["depth:2", "depth:0", "nodes:50"], ["nodes:2000", "depth:1"], ["movetime:1"], ["movetime:15", "depth:2"],
               ["time:30:30:40"], ["time:30:30"], ["depth:3", "depth:3"]]
    for e in roots:
        fen = e["fen"]
        for ls in rng.sample(limsets, 5 if th else 3):
            hm = rng.choice([None, None, 95, 98, 99, 100, 101, 105])
            f2 = with_clock(fen, hm) if hm is not None else fen
            reqs.append("root\t0\t" + f2 + "\t\t1\t" + "\t".join(ls))
            meta.append((f2, "", ls, "clock" + (str(hm) if hm is not None else "-fen")))
    # repetition roots: shuffle a knight/king/rook back and forth from pool games
    P = pool_for(run)
    for g in P["games"][: (200 if th else 40)]:
        toks = g["moves"].split(" ")
        if "null" in toks or len(toks) < 2:
            continue
        # find reversible two-ply cycles by asking the model for a shuffle: use rook/king/knight moves a-b, then b-a
        reqs.append("root\t0\t" + g["start"] + "\t" + g["moves"] + "\t1\tdepth:1\tnodes:30")
        meta.append((g["start"], g["moves"], ["depth:1", "nodes:30"], "after-game"))
    for base, cyc in (("k7/8/8/8/7q/8/6PK/6n1 w - - 0 1", "h2g1 h4e1 g1h2 e1h4"),
                      ("7k/8/8/8/8/8/8/K5R1 w - - 0 1", "g1f1 h8g8 f1g1 g8h8"),
                      ("rnbqkbnr/pppppppp/8/8/8/8/PPPPPPPP/RNBQKBNR w KQkq - 0 1", "g1f3 g8f6 f3g1 f6g8")):
        for reps in (1, 2, 3):
            mv = " ".join([cyc] * reps)
            for ls in (["depth:1"], ["depth:3"], ["nodes:0"], ["movetime:0"]):
                reqs.append(("root_uci\t0\t" + base + "\t" + mv + "\t1\t" + "\t".join(ls)))
                meta.append((base, mv, ls, f"repetition-x{reps}"))
    reqs, meta = expand_uci_roots(reqs, meta)
    fens_after = vlib.run_model_par([f"fens\t{m[0]}\t{m[1]}" for m in meta])
    root_fens = [x.split("|")[-1] for x in fens_after]
    legal = legal_sets(root_fens)
    impl, _ = vlib.run_impl_par(reqs)
    needs_model = [i for i, m in enumerate(meta) if all(l.startswith(("depth", "nodes")) for l in m[2])]
    model = dict(zip(needs_model, vlib.run_model_par([reqs[i] for i in needs_model])))
    nv = 0
    for i, (m, a, lg) in enumerate(zip(meta, impl, legal)):
        run.note_case((m[0], m[1], tuple(m[2])), m[3] + ":" + m[2][0].split(":")[0], nontrivial=len(lg) > 0)
        if a.startswith(("PANIC", "DIED")):
            nv += 1
            run.violation("panic", "search panics", {"fen": m[0], "moves_before": m[1], "limits": m[2], "implementation": a})
            continue
        for k, part in enumerate(a.split(" || ")):
            d = parse_search(part)
            best = d.get("best")
            ok = (best == "0000" and not lg) or (best != "0000" and tuple(int(x) for x in best.split("-")) in lg)
            if not ok:
                nv += 1
                if nv <= 25:
                    run.violation("illegal-or-null-answer", f"search answered {best} with {len(lg)} legal moves at the root",
                                  {"start": m[0], "moves_before(relative triples)": m[1], "root_fen": root_fens[i], "limits": m[2],
                                   "which_search": k, "implementation": part, "repro": "printf '" + reqs[i].replace("\t", "\\t") + "\\n' | .build/cargo/release/rawr_harness /dev/stdout"})
        if i in model and strip_ms(a) != model[i] and model[i] != "fuel" and "fuel" not in model[i]:
            nv += 1
            if nv <= 25:
                run.violation("model-mismatch", "search output differs from the model's", {"request": reqs[i], "implementation": a, "model": model[i]},
                              found_input=False)
    # through the binary: the answer as it is PRINTED must be a legal move in the notation in force, also when UCI_Chess960 is
    # switched between `position` and `go` (castling is the only or the best move in the first positions)
    import props_proc
    rel = vlib.build_engine("release")
    pfens = ["4rkr1/4p1p1/8/8/8/8/6PP/6KR w H - 0 1", "rk6/pp6/8/8/8/8/2P1P3/2RKR3 b a - 0 1", "2rkr3/2p1p3/8/8/8/8/PP6/R3K3 w Q - 0 1",
             "r3k2r/8/8/8/8/8/8/R3K2R w KQkq - 0 1", "r3k2r/8/8/8/8/8/8/R3K2R b KQkq - 0 1", "4k3/8/8/8/8/8/8/4K2R w K - 0 1"]
    pfens += [e["fen"] for e in rng.sample([x for x in pool_for(run)["pool"] if x["fen"].split(" ")[2] != "-"], 10 if th else 4)]
    pj = []
    for f in pfens:
        std = props_io_std(f)
        for first, then in (("0", "1"), ("1", "0"), ("1", "1"), ("0", "0")):
            if (first == "0" or then == "0") and not std:
                continue
            for go in ("go depth 2", "go nodes 0", "go movetime 0"):
                sc = (["setoption name UCI_Chess960 value true"] if first == "1" else []) + ["isready", "position fen " + f] + \
                     ([f"setoption name UCI_Chess960 value {'true' if then == '1' else 'false'}"] if then != first else []) + [go, "quit"]
                pj.append((f, then, sc))
    pres = vlib.par_map(lambda j: props_proc.run_engine(rel, j[2], timeout=60), pj)
    plegal = vlib.run_model_par([f"ucispec\t{then}\t{f}" for f, then, _ in pj])
    for (f, then, sc), (out, err, rc, to), lg in zip(pj, pres, plegal):
        run.note_case(tuple(sc), "printed-answer", nontrivial=True)
        strs = set(it.split(":")[1] for it in lg.split(",")) if lg and not lg.startswith("ERROR") else set()
        bm = [l.split(" ")[1] for l in out.split("\n") if l.startswith("bestmove ")]
        if to or rc != 0 or len(bm) != 1 or (strs and bm[0] not in strs) or (not strs and bm[0] != "0000"):
            nv += 1
            if nv <= 25:
                run.violation("printed-answer", f"the engine answers {bm} which is not a legal move of the root in the notation in force "
                              f"(UCI_Chess960 {'on' if then == '1' else 'off'}); legal: {sorted(strs)[:40]}",
                              {"script": ["uci"] + sc, "repro": "printf 'uci\\n" + "\\n".join(sc) + "\\n' | " + rel})
    run.cov["traces_validated_against_impl"] = len(needs_model) + len(pj)
    run.sample({"request": reqs[0], "implementation": impl[0][:300]})
    run.sample({"request": reqs[-1], "implementation": impl[-1][:300]})
    run.cov["explanation"] = ("proof on the model: the root loop returns the move of the last reported iteration and reports iterations in order, and for every limit, "
                              "history and admissible table the answer is a legal root move whenever one exists (C03_search_answers_with_a_legal_move, no hypothesis left; "
                              "roots must satisfy the executable invariant invr_b); the tie to the binary rests on the runs above")


def expand_uci_roots(reqs, meta):
    """requests written with uci move strings: translate the moves to relative triples through the model"""
    idx = [i for i, r in enumerate(reqs) if r.startswith("root_uci\t")]
    if not idx:
        return reqs, meta
    conv = vlib.run_model(["uci2rel\t" + meta[i][0] + "\t" + meta[i][1] for i in idx])
    for i, c in zip(idx, conv):
        f = reqs[i].split("\t")
        f[0] = "root"
        f[3] = c
        reqs[i] = "\t".join(f)
        meta[i] = (meta[i][0], c, meta[i][2], meta[i][3])
    return reqs, meta


# ====================================================================== C13 / C14
def search_matrix(run, n):
    rng = run.rng
    roots = small_roots(run, n, maxmen=10)
    reqs, meta = [], []
    for e in roots:
        lim = rng.choice([["depth:1"], ["depth:2"], ["depth:3"], ["nodes:1"], ["nodes:100"], ["nodes:1500"], ["depth:2", "depth:3"],
                          ["nodes:300", "depth:2"], ["depth:4"] if run.tier == "thorough" else ["depth:3"]])
        reqs.append("root\t0\t" + e["fen"] + "\t\t1\t" + "\t".join(lim))
        meta.append((e["fen"], lim))
    return reqs, meta


def check_C13(run):
    run.cov["rule"] = ("depth- and node-limited searches on few-men roots of D (plus terminal roots), fresh 1 MB table, some with a second "
                       "search on the table left by the first; also histories that are empty, lack the root's key or hold unrelated keys: position and history compared before/after; every request executed "
                       "twice in separate processes and compared with itself and with the model; through the binary, a search repeated after ucinewgame vs a fresh engine (depth, seldepth, score, nodes, "
                       "hashfull, pv); non-trivial = at least two iterations reported")
    reqs, meta = search_matrix(run, 300 if run.tier == "thorough" else 60)
    # terminal roots
    for fen in ("7k/5Q2/6K1/8/8/8/8/8 b - - 0 1", "6k1/8/6K1/8/8/8/8/R7 w - - 0 1", "k7/8/1K6/8/8/8/8/7R w - - 99 60", "R6k/6pp/8/8/8/8/8/K7 b - - 0 1"):
        reqs.append("root\t0\t" + fen + "\t\t1\tdepth:2\tnodes:10")
        meta.append((fen, ["depth:2", "nodes:10"]))
    # histories that do not end with the root's own key (empty, the root dropped, unrelated keys): terminal and ordinary roots
    for fen in ("7k/5Q2/6K1/8/8/8/8/8 b - - 0 1", "R5k1/5ppp/8/8/8/8/8/6K1 b - - 0 1", "k7/8/1K6/8/8/8/8/7R w - - 3 60", "7k/5K2/6Q1/8/8/8/8/8 b - - 0 1",
                "8/8/8/8/8/5k2/5p2/5K2 w - - 0 1", "6k1/8/6K1/8/8/8/8/R7 w - - 0 1", "4k3/8/8/3p4/4P3/8/8/4K3 w - - 0 1"):
        for shape in ("H:empty", "H:drop", "H:junk"):
            for ls in (["depth:3"], ["nodes:50", "depth:2"]):
                reqs.append("root\t0\t" + fen + "\t" + shape + "\t1\t" + "\t".join(ls))
                meta.append((fen, ls))
    a1, _ = vlib.run_impl_par(reqs)
    a2, _ = vlib.run_impl_par(list(reversed(reqs)))
    a2 = list(reversed(a2))
    model = vlib.run_model_par(reqs)
    nv = 0
    for rq, m, x, y, b in zip(reqs, meta, a1, a2, model):
        d = parse_search(x.split(" || ")[-1])
        run.note_case(rq, m[1][0].split(":")[0], nontrivial=len(d.get("infos", [])) >= 2)
        if x.startswith(("PANIC", "DIED")):
            nv += 1
            run.violation("panic", "search panics", {"request": rq, "implementation": x})
            continue
        if "hist_same=0" in x or "POS-CHANGED" in x:
            nv += 1
            run.violation("state-changed", "the search changed the position or the game history it was given",
                          {"request": rq, "implementation": x, "repro": "printf '" + rq.replace("\t", "\\t") + "\\n' | .build/cargo/release/rawr_harness /dev/stdout"})
        if strip_ms(x) != strip_ms(y):
            nv += 1
            run.violation("not-reproducible", "the same search from an identically initialised table gave two different reports",
                          {"request": rq, "first": x, "second": y})
        elif strip_ms(x) != b and "fuel" not in b:
            nv += 1
            if nv <= 25:
                run.violation("model-mismatch", "search report differs from the model's", {"request": rq, "implementation": x, "model": b}, found_input=False)
    # node budgets that expire anywhere in the tree (inside null-move and reduced subtrees too): many budgets on
    # middlegame roots, implementation only (state untouched, same report when repeated)
    rng = run.rng
    rich = ["rnbqkbnr/pppppppp/8/8/8/8/PPPPPPPP/RNBQKBNR w KQkq - 0 1", "r3k2r/p1ppqpb1/bn2pnp1/3PN3/1p2P3/2N2Q1p/PPPBBPPP/R3K2R w KQkq - 0 1",
            "r1bqkbnr/pppp1ppp/2n5/4p3/2B1P3/5N2/PPPP1PPP/RNBQK2R b KQkq - 3 3", "r4rk1/1pp1qppp/p1np1n2/2b1p1B1/2B1P1b1/P1NP1N2/1PP1QPPP/R4RK1 w - - 0 10",
            "2rq1rk1/pp1bppbp/3p1np1/8/3NP3/1BN1BP2/PPPQ2PP/2KR3R b - - 0 1"]
    sweep = []
    for _ in range(1500 if run.tier == "thorough" else 260):
        f = rng.choice(rich)
        sweep.append("root\t0\t" + f + "\t" + ("" if rng.random() < 0.7 else "") + "\t1\tnodes:" + str(rng.randrange(1500, 45000)))
    s1, _ = vlib.run_impl_par(sweep)
    s2, _ = vlib.run_impl_par(list(reversed(sweep)))
    s2 = list(reversed(s2))
    for rq, x, y in zip(sweep, s1, s2):
        run.note_case(rq, "node-budget-sweep")
        if x.startswith(("PANIC", "DIED")):
            nv += 1
            run.violation("panic", "search panics", {"request": rq, "implementation": x})
        elif "hist_same=0" in x or "POS-CHANGED" in x:
            nv += 1
            if nv <= 25:
                run.violation("state-changed", "the search changed the position or the game history it was given",
                              {"request": rq, "implementation": x[-300:], "repro": "printf '" + rq.replace("\t", "\\t") + "\\n' | .build/cargo/release/rawr_harness /dev/stdout"})
        elif strip_ms(x) != strip_ms(y):
            nv += 1
            if nv <= 25:
                run.violation("not-reproducible", "the same search from an identically initialised table gave two different reports",
                              {"request": rq, "first": x[-300:], "second": y[-300:]})
    # through the binary: the same depth-limited search repeated in one process after `ucinewgame` (the table is re-initialised
    # by clear(), not re-allocated) must print the same reports; small searches on large tables, larger ones on small tables
    import props_proc
    rel = vlib.build_engine("release")
    rj = []
    for posl in ("position startpos moves e2e4 e7e5", "position startpos moves e2e4 e7e5 g1f3", "position startpos",
                 "position fen r3k2r/p1ppqpb1/bn2pnp1/3PN3/1p2P3/2N2Q1p/PPPBBPPP/R3K2R w KQkq - 0 1"):
        for hashv, d1, d2 in ((None, 2, 2), (None, 1, 1), (64, 4, 1), (64, 3, 3), (1, 5, 5), (None, 3, 2)):
            if run.tier != "thorough" and (hashv, d1, d2) in ((64, 3, 3), (None, 1, 1)):
                continue
            sc = ([f"setoption name Hash value {hashv}"] if hashv else []) + ["isready", posl, f"go depth {d1}", "ucinewgame", posl, f"go depth {d2}", "quit"]
            fresh = ([f"setoption name Hash value {hashv}"] if hashv else []) + ["isready", posl, f"go depth {d2}", "quit"]
            rj.append((sc, fresh))
    r1 = vlib.par_map(lambda j: props_proc.run_engine(rel, j[0], timeout=120), rj)
    r2 = vlib.par_map(lambda j: props_proc.run_engine(rel, j[1], timeout=120), rj)
    for (sc, fresh), a, b in zip(rj, r1, r2):
        run.note_case(tuple(sc), "repeat-after-ucinewgame", nontrivial=True)
        la = [l for l in props_proc.norm(a[0]) if l.startswith(("info depth", "bestmove"))]
        lb = [l for l in props_proc.norm(b[0]) if l.startswith(("info depth", "bestmove"))]
        k = max([i for i, l in enumerate(la[:-1]) if l.startswith("bestmove")] + [-1])
        second = la[k + 1:]
        if a[3] or b[3] or a[2] != 0 or b[2] != 0 or second != lb:
            nv += 1
            if nv <= 25:
                run.violation("not-reproducible", "the search repeated after ucinewgame reports differently from the same search on a fresh engine",
                              {"script": ["uci"] + sc, "second_search": second, "fresh_engine": lb,
                               "repro": "printf 'uci\\n" + "\\n".join(sc) + "\\n' | " + rel})
    # through the command loop: what `print` shows (board, rights, castling files, clocks, key, FRC flag) must be the same before
    # and after a search, however it ends (seventh seed round: `go` itself switched the position's FRC flag on inner-rook castling rights)
    pj = []
    for fenp in ("4k3/8/8/8/8/8/8/1R2K2R w Q - 0 1", "1r2k2r/8/8/8/8/8/8/4K3 b kq - 0 1", "4k3/8/8/8/8/8/8/R3K1R1 w GA - 0 1",
                 "bbqnnrkr/pppppppp/8/8/8/8/PPPPPPPP/BBQNNRKR w HFhf - 0 1", "r3k2r/p1ppqpb1/bn2pnp1/3PN3/1p2P3/2N2Q1p/PPPBBPPP/R3K2R w KQkq - 0 1",
                 "rnbqkbnr/pppp1ppp/8/4p3/4P3/8/PPPP1PPP/RNBQKBNR w KQkq e6 0 2", "7k/8/8/8/8/8/8/K7 w - - 99 80", "k7/8/8/8/8/8/5q2/7K w - - 0 1"):
        for opt in (None, "true"):
            for lim in ("depth 2", "nodes 200", "movetime 5"):
                if run.tier != "thorough" and (opt, lim) in (("true", "nodes 200"), (None, "movetime 5")):
                    continue
                pj.append(([f"setoption name UCI_Chess960 value {opt}"] if opt else []) + ["isready", f"position fen {fenp}", "print", f"go {lim}", "print", "quit"])
    pr = vlib.par_map(lambda sc: props_proc.run_engine(rel, sc, timeout=60), pj)
    for sc, (out, err, rc, to) in zip(pj, pr):
        run.note_case(tuple(sc), "print-before-after", nontrivial=True)
        chunks = out.split("bestmove")
        before = [l for l in chunks[0].split("\n") if l.strip() and not l.startswith(("info ", "id ", "option ", "uciok", "readyok"))]
        after = [l for l in (chunks[1].split("\n")[1:] if len(chunks) > 1 else []) if l.strip()]
        if to or rc != 0 or len(chunks) != 2 or not before or before != after:
            nv += 1
            if nv <= 25:
                run.violation("position-changed", "what `print` shows differs before and after the search (or the engine died)",
                              {"script": ["uci"] + sc, "before": before[-14:], "after": after[-14:], "repro": "printf 'uci\\n" + "\\n".join(sc) + "\\n' | " + rel})
    run.cov["traces_validated_against_impl"] = len(reqs) + len(rj) + len(pj)
    run.sample({"request": reqs[0], "implementation": a1[0][:400]})
    run.cov["explanation"] = ("search_preserves_history (model: negamax and root return the history they were given) proved by induction on "
                              "fuel; determinism of the model is functionality; absence of hidden inputs in the Rust is measured by the "
                              "repeated runs above")


def check_C14(run):
    c = consts()
    th = run.tier == "thorough"
    run.cov["rule"] = ("few-men roots with legal moves x depth limits 1..4 / node limits; reported depths must be 1..D in order, no iteration "
                       "after the first once N nodes are spent, bestmove = first move of the last pv, scores strictly inside the mate "
                       "bounds; movetime / clock searches (also zero and near-zero budgets on roots in check, clocks with increments far above the time left): iteration 1 reported, bestmove legal and head of the last pv, measured wall time <= budget + 250 ms (a measurement, not a proof); "
                       "depth 130 on K v K exercises the MAX_DEPTH cap")
    reqs, meta = search_matrix(run, 300 if th else 60)
    timed = []
    roots = small_roots(run, 40 if th else 10)
    # roots whose side to move is in check (the check extension makes the first iteration deeper)
    inchk = [e for e in pool_for(run)["pool"] if e["cls"] in ("check", "playout-check")]
    run.rng.shuffle(inchk)
    inchk = inchk[: (30 if th else 8)] + [{"fen": "rnbqkbnr/ppp1pppp/8/1B1p4/4P3/8/PPPP1PPP/RNBQK1NR b KQkq - 1 2"}, {"fen": "4k3/8/8/8/8/8/4r3/4K3 w - - 0 1"}]
    for e in roots:
        for ls in (["movetime:30"], ["movetime:0"], ["time:600:600"], ["time:200:200:4"], ["time:50:50:1"]):
            timed.append(("root\t0\t" + e["fen"] + "\t\t1\t" + ls[0], e["fen"], ls[0]))
    for e in inchk:
        for ls in (["movetime:0"], ["nodes:0"], ["time:20:20"], ["time:5:5:10"], ["nodes:1"], ["movetime:15"]):
            timed.append(("root\t0\t" + e["fen"] + "\t\t1\t" + ls[0], e["fen"], ls[0]))
    # clocks with increments (the mover's, the opponent's, both; far larger than the time left) and with many moves to go
    for e in roots[: (12 if th else 4)] + [{"fen": "rnbqkbnr/pppppppp/8/8/8/8/PPPPPPPP/RNBQKBNR w KQkq - 0 1"}, {"fen": "rnbqkbnr/pppppppp/8/8/4P3/8/PPPP1PPP/RNBQKBNR b KQkq - 0 1"}]:
        wtm = e["fen"].split(" ")[1] == "w"
        mine = "timei:250:600000:2500:0" if wtm else "timei:600000:250:0:2500"          # the mover is short of time and has the increment
        theirs = "timei:250:600000:0:6000" if wtm else "timei:600000:250:6000:0"      # only the opponent has an increment
        for ls in ("timei:300:300:3000:3000", mine, theirs, "timei:400:400:2000:2000:5", "timei:100:100:6000:6000:1", "timei:150:150:0:0:4294967295"):
            timed.append(("root\t0\t" + e["fen"] + "\t\t1\t" + ls, e["fen"], ls))
    tlegal = legal_sets([t[1] for t in timed])
    cap = "root\t0\t8/8/8/4k3/8/8/4K3/8 w - - 0 1\t\t1\tdepth:130"
    impl, _ = vlib.run_impl_par(reqs + [cap])
    timpl, _ = vlib.run_impl([t[0] for t in timed])     # sequential: timing
    model = vlib.run_model_par(reqs)
    legal = legal_sets([m[0] for m in meta])
    nv = 0
    for rq, m, a, b, lg in zip(reqs, meta, impl, model, legal):
        if a.startswith(("PANIC", "DIED")):
            nv += 1
            run.violation("panic", "search panics", {"request": rq, "implementation": a})
            continue
        parts = a.split(" || ")
        for ls, part in zip(m[1], parts):
            d = parse_search(part)
            kind, val = ls.split(":")
            val = int(val)
            depths = [int(i["d"]) for i in d["infos"]]
            run.note_case((rq, ls), kind, nontrivial=len(depths) >= 2)
            bad = None
            if not lg:
                continue
            if kind == "depth" and val >= 1 and depths != list(range(1, min(val, c["MAX_DEPTH"] - 1) + 1)):
                bad = f"depth limit {val}: reported iterations {depths}"
            if kind == "nodes":
                for i in d["infos"]:
                    if int(i["d"]) >= 2 and int(i["n"]) >= val:
                        bad = f"node limit {val}: iteration {i['d']} reported after {i['n']} nodes"
            if depths != list(range(1, len(depths) + 1)):
                bad = f"iterations out of order: {depths}"
            if d["infos"] and d["best"] != d["infos"][-1]["pv"].split("/")[0]:
                bad = f"bestmove {d['best']} is not the first move of the last pv {d['infos'][-1]['pv']}"
            for i in d["infos"]:
                if not (-c["MATE"] < int(i["s"]) < c["MATE"]):
                    bad = f"score {i['s']} outside the mate bounds"
            if bad:
                nv += 1
                if nv <= 25:
                    run.violation("limit-or-coherence", bad, {"request": rq, "which": ls, "implementation": part,
                                                              "repro": "printf '" + rq.replace("\t", "\\t") + "\\n' | .build/cargo/release/rawr_harness /dev/stdout"})
        if strip_ms(a) != b and "fuel" not in b:
            nv += 1
            if nv <= 25:
                run.violation("model-mismatch", "search report differs from the model's", {"request": rq, "implementation": a, "model": b}, found_input=False)
    for (rq, fen, ls), a, lg in zip(timed, timpl, tlegal):
        d = parse_search(a)
        run.note_case((rq,), "timed")
        f = ls.split(":")
        if a.startswith(("PANIC", "DIED")):
            nv += 1
            run.violation("panic", "search panics", {"request": rq, "implementation": a})
            continue
        if lg:
            # whatever the budget: iteration 1 is reported, depths are consecutive, the move played heads the last pv and is legal
            depths = [int(i["d"]) for i in d.get("infos", [])]
            bad = None
            if not depths or depths != list(range(1, len(depths) + 1)):
                bad = f"reported iterations {depths} (the first iteration must always be reported, depths consecutive from 1)"
            elif d["best"] != d["infos"][-1]["pv"].split("/")[0]:
                bad = f"bestmove {d['best']} is not the first move of the last pv {d['infos'][-1]['pv']}"
            elif d["best"] == "0000" or tuple(int(x) for x in d["best"].split("-")) not in lg:
                bad = f"bestmove {d['best']} is not a legal move"
            if bad:
                nv += 1
                if nv <= 25:
                    run.violation("limit-or-coherence", bad, {"request": rq, "which": ls, "implementation": a,
                                                              "repro": "printf '" + rq.replace("\t", "\\t") + "\n' | .build/cargo/release/rawr_harness /dev/stdout"})
                continue
        if f[0] == "nodes":
            continue
        if f[0] == "movetime":
            budget = int(f[1])
        else:
            budget = int(f[1]) if fen.split(" ")[1] == "w" else int(f[2])      # the mover's remaining time (increments do not extend it)
        if d.get("ms") is None or d["ms"] > budget + 250:
            # a scheduling hiccup is not a violation: only a budget overrun that repeats three times in a row counts
            again = []
            for _ in range(0 if (d.get("ms") or 0) > budget + 1500 else 2):     # a gross overrun is not a scheduling hiccup
                o2, _ = vlib.run_impl([rq])
                again.append(parse_search(o2[0]).get("ms"))
            if any(x is not None and x <= budget + 250 for x in again):
                continue
            nv += 1
            run.violation("time-budget", f"answered after {d.get('ms')} ms with a budget of {budget} ms", {"request": rq, "implementation": a})
    # node limits that coincide with the node count at the end of an iteration k >= 2: that iteration must not be reported
    probe_roots = [m[0] for m in meta][: (80 if th else 25)] + ["rnbqkbnr/pppppppp/8/8/8/8/PPPPPPPP/RNBQKBNR w KQkq - 0 1"]
    pr, _ = vlib.run_impl_par(["root\t0\t" + f + "\t\t1\tdepth:3" for f in probe_roots])
    exact = []
    for f, o in zip(probe_roots, pr):
        d = parse_search(o)
        for i in d.get("infos", []):
            if int(i["d"]) >= 2:
                exact.append((f, int(i["n"]), int(i["d"])))
    er, _ = vlib.run_impl_par(["root\t0\t" + f + "\t\t1\tnodes:" + str(n) for f, n, _ in exact])
    for (f, n, k), o in zip(exact, er):
        run.note_case(("exact-nodes", f, n), "nodes-exact")
        d = parse_search(o)
        late = [(i["d"], i["n"]) for i in d.get("infos", []) if int(i["d"]) >= 2 and int(i["n"]) >= n]
        if late:
            nv += 1
            if nv <= 25:
                run.violation("limit-or-coherence", f"node limit {n}: iteration(s) {late} reported although {n} nodes were already spent",
                              {"fen": f, "limit": f"nodes:{n}", "implementation": o,
                               "repro": "printf 'root\\t0\\t" + f + "\\t\\t1\\tnodes:" + str(n) + "\\n' | .build/cargo/release/rawr_harness /dev/stdout"})
    dcap = parse_search(impl[-1])
    depths = [int(i["d"]) for i in dcap.get("infos", [])]
    run.note_case(("cap",), "depth-cap")
    if depths != list(range(1, 131)):
        run.violation("depth-limit>=MAX_DEPTH", f"'go depth 130' on K v K reports iterations 1..{depths[-1] if depths else 0} only "
                      f"(the iteration loop stops below MAX_DEPTH = {c['MAX_DEPTH']})",
                      {"request": cap, "iterations_reported": len(depths)})
    run.cov["traces_validated_against_impl"] = len(reqs)
    run.sample({"request": reqs[0], "implementation": impl[0][:400]})
    run.sample({"request": timed[0][0], "implementation": timpl[0][:200]})
    run.cov["explanation"] = ("iterations_in_order / bestmove_is_last_pv / node-limit clause proved on the model's root loop (theorems listed); "
                              "time clause is a wall-clock measurement; depth >= MAX_DEPTH is the recorded known finding")


# ====================================================================== C11
def check_C11(run):
    c = consts()
    rng = run.rng
    th = run.tier == "thorough"
    want = -c["DRAW"]
    run.cov["rule"] = ("roots whose every legal move leads to a rule draw: (a) positions of the pool without legal captures or pawn moves, "
                       "half-move clock set to 99; (b) forced-repetition roots (every successor occurred before in the game, earlier "
                       "occurrence at clock 0 and later), all colour mirrors; (c) the same through the binary's command loop, where the forced reply "
                       "recreates the position named in the `position` command (first key of the history), after an unrelated earlier game; "
                       "depth limits 2..4, empty table; every iteration >= 2 "
                       "must report the draw constant and the answer must be legal")
    P = pool_for(run)
    cands = [e["fen"] for e in P["pool"] if sum(ch.isalpha() for ch in e["fen"].split(" ")[0]) <= (14 if th else 10)]
    rng.shuffle(cands)
    cands = cands[: (3000 if th else 500)]
    gens = vlib.run_model_par([f"gen\t{with_clock(f, 99)}" for f in cands])
    reqs, meta = [], []
    for f, g in zip(cands, gens):
        d = kv(g)
        if not d.get("moves") or "0" in d.get("pieces", "") or "1" in d.get("iscap", "") or d.get("inD") != "1":
            continue
        f99 = with_clock(f, 99)
        depth = rng.choice([2, 2, 3, 3, 4] if th else [2, 2, 3])
        reqs.append(f"root\t0\t{f99}\t\t1\tdepth:{depth}")
        meta.append((f99, "", "clock-99"))
        if len(reqs) >= (300 if th else 50):
            break
    reps = [("k7/8/8/8/7q/8/6PK/6n1 w - - 0 1", "h2g1 h4e1 g1h2 e1h4"),
            ("k7/8/8/8/7q/8/6PK/6n1 w - - 0 1", "h2g1 h4e1 g1h2 e1h4 h2g1 h4e1 g1h2 e1h4"),
            ("K7/8/8/8/7Q/8/6pk/6N1 b - - 0 1", "h2g1 h4e1 g1h2 e1h4"),
            ("6N1/6pk/8/7Q/8/8/8/K7 b - - 3 10", "h7g8 h5e8 g8h7 e8h5"),
            ("7k/8/8/8/q7/8/KP6/1n6 w - - 0 1", "a2b1 a4d1 b1a2 d1a4"),
            ("k7/8/8/8/7q/8/6PK/6n1 w - - 0 1", "h2g1 h4e1 g1h2 e1e2 h2h1 e2e1 h1h2 e1h4")]
    for base, mv in reps:
        for depth in (2, 3, 4):
            reqs.append(f"root_uci\t0\t{base}\t{mv}\t1\tdepth:{depth}")
            meta.append((base, mv, "forced-repetition"))
    reqs, meta2 = expand_uci_roots(reqs, [(m[0], m[1], [], m[2]) for m in meta])
    meta = [(m[0], m[1], m[3]) for m in meta2]
    # keep only the roots whose every successor really is rule-drawn (decided by the model/spec side)
    chk = vlib.run_model_par([f"alldrawn\t{m[0]}\t{m[1]}" for m in meta])
    impl, _ = vlib.run_impl_par(reqs)
    model = vlib.run_model_par(reqs)
    nv = 0
    for rq, m, a, b, ck in zip(reqs, meta, impl, model, chk):
        if not ck.startswith("1"):
            run.cov["classes"]["skipped-not-all-drawn"] = run.cov["classes"].get("skipped-not-all-drawn", 0) + 1
            continue
        run.note_case(rq, m[2])
        if a.startswith(("PANIC", "DIED")):
            nv += 1
            run.violation("panic", "search panics", {"request": rq, "implementation": a})
            continue
        d = parse_search(a)
        bads = [(i["d"], i["s"]) for i in d["infos"] if int(i["d"]) >= 2 and int(i["s"]) != want]
        if bads or d["best"] == "0000" or len(d["infos"]) < 2:
            nv += 1
            if nv <= 25:
                run.violation("draw-score", f"iterations (depth, score) {bads} do not report the draw constant {want}; best={d['best']}",
                              {"start": m[0], "moves_before": m[1], "implementation": a,
                               "repro": "printf '" + rq.replace("\t", "\\t") + "\\n' | .build/cargo/release/rawr_harness /dev/stdout"})
        elif strip_ms(a) != b and "fuel" not in b:
            nv += 1
            run.violation("model-mismatch", "search report differs from the model's", {"request": rq, "implementation": a, "model": b}, found_input=False)
    # through the command loop of the binary: the game history is the one `position ... moves ...` builds; the forced reply
    # recreates the FIRST position of the game (the one named in the command), after an unrelated earlier game
    import props_proc
    import gen as G
    rel = vlib.build_engine("release")
    first_reps = [("6k1/R7/5K2/8/8/8/8/8 w - - 0 1", "a7b7 g8h8 b7a7"), ("6k1/R7/5K2/8/8/8/8/8 w - - 37 60", "a7b7 g8h8 b7a7"),
                  ("6k1/Q7/5K2/8/8/8/8/8 w - - 0 1", "a7b7 g8h8 b7a7"), ("1k6/7R/2K5/8/8/8/8/8 w - - 2 9", "h7g7 b8a8 g7h7"),
                  ("k7/8/8/8/7q/8/6PK/6n1 w - - 0 1", "h2g1 h4e1 g1h2 e1h4"), ("k7/8/8/8/7q/8/6PK/6n1 w - - 0 1", "h2g1 h4e1 g1h2 e1h4 h2g1 h4e1 g1h2"),
                  # the repeated position is the one right after castling (written e1g1: in Chess960 mode that is the alias path of the parser)
                  ("7r/3k4/8/8/8/8/PPPP2P1/4K2R w K - 0 1", "e1g1 h8a8 g1h1 a8h8"), ("r7/4k3/8/8/8/8/1P2PPPP/R3K3 w Q - 0 1", "e1c1 a8h8 c1b1 h8a8")]

    def mirror_uci(mv):
        return " ".join(t[0] + str(9 - int(t[1])) + t[2] + str(9 - int(t[3])) + t[4:] for t in mv.split(" "))
    first_reps += [(G.mirror_fen(f), mirror_uci(mv)) for f, mv in first_reps]
    conv = vlib.run_model([f"uci2rel\t{f}\t{mv}" for f, mv in first_reps])
    okd = vlib.run_model([f"alldrawn\t{f}\t{cv}" for (f, mv), cv in zip(first_reps, conv)])
    pjobs = []
    for (f, mv), cv, ok in zip(first_reps, conv, okd):
        if not ok.startswith("1") or len(cv.split(" ")) != len(mv.split(" ")):
            run.cov["classes"]["skipped-not-all-drawn"] = run.cov["classes"].get("skipped-not-all-drawn", 0) + 1
            continue
        for pre in ([], ["position startpos moves e2e4 e7e5", "go depth 2"], ["ucinewgame"]):
            for depth in (2, 3, 4):
                pjobs.append((f, mv, ["isready"] + pre + [f"position fen {f} moves {mv}", f"go depth {depth}", "quit"]))
        if props_io_std(f):
            # the same game with UCI_Chess960 on: conventional castling strings are then aliases, everything else reads the same
            for depth in (2, 4):
                pjobs.append((f, mv, ["setoption name UCI_Chess960 value true", "isready", "ucinewgame", f"position fen {f} moves {mv}", f"go depth {depth}", "quit"]))
    pres = vlib.par_map(lambda j: props_proc.run_engine(rel, j[2], timeout=60), pjobs)
    for (f, mv, sc), (out, err, rc, to) in zip(pjobs, pres):
        run.note_case(tuple(sc), "command-loop-repetition")
        lines = out.split("\n")
        k = max(i for i, l in enumerate(lines) if l == "readyok") if "readyok" in lines else 0
        last = [l for l in lines[k:] if l.startswith(("info depth", "bestmove"))]
        # only the reports of the last `go`
        cut = max([i for i, l in enumerate(last[:-1]) if l.startswith("bestmove")] + [-1])
        last = last[cut + 1:]
        scores = [(int(re.search(r"depth (\d+)", l).group(1)), re.search(r"score (\S+ -?\d+)", l).group(1)) for l in last if l.startswith("info depth")]
        bads = [x for x in scores if x[0] >= 2 and x[1] != f"cp {want}"]
        best = [l for l in last if l.startswith("bestmove")]
        if to or rc != 0 or not best or best[0] == "bestmove 0000" or bads or len(scores) < 2:
            nv += 1
            if nv <= 25:
                run.violation("draw-score", f"through the command loop: iterations (depth, score) {bads or scores} do not report the draw constant cp {want}",
                              {"script": ["uci"] + sc, "reports": last, "repro": "printf 'uci\\n" + "\\n".join(sc) + "\\n' | " + rel})
    run.cov["traces_validated_against_impl"] = len(reqs) + len(pjobs)
    if reqs:
        run.sample({"request": reqs[0], "implementation": impl[0][:300]})
        run.sample({"request": reqs[-1], "implementation": impl[-1][:300]})
    run.cov["explanation"] = ("proof on the model: rule-draw detection lemmas (a successor with clock 100 or an earlier occurrence in the look-back window returns "
                              "DRAW_SCORE at every positive depth) and the root-level theorems C11_root_all_drawn_any_table (EVERY bounded table, every history and depth limit, every successor "
                              "rule-drawn: every reported iteration >= 2 scores -DRAW_SCORE and the answer is legal) and C11_root_all_drawn (empty table, no key clash with the root, every stop predicate); that the histories the UCI "
                              "layer builds make the successors rule-drawn, and the tie to the binary, rest on the runs above against the model and the constant")


# ====================================================================== C12
def mate_roots(run, n):
    rng = run.rng
    fixed = ["6k1/R7/6K1/8/8/8/8/8 w - - 0 1", "8/8/8/8/8/6k1/r7/6K1 b - - 0 1", "6k1/4R3/6K1/q7/8/8/8/8 w - - 0 1",
             "8/8/8/8/Q7/6k1/4r3/6K1 b - - 0 1", "6k1/8/6K1/q3R3/8/8/8/8 w - - 0 1", "8/8/8/8/Q3r3/6k1/8/6K1 b - - 0 1",
             "k7/6R1/5R1P/8/8/8/8/K7 w - - 0 1", "k7/8/8/8/8/5r1p/6r1/K7 b - - 0 1",
             # mates with minor pieces only (the defender's own man blocks the flight square), and other bare-material mates
             "kn6/8/1K6/3N4/8/8/8/8 w - - 0 1", "kb6/8/1K6/8/8/8/8/5B2 w - - 0 1", "5b2/8/8/8/8/1k6/8/KB6 b - - 0 1",
             "k1K5/b7/8/3N4/8/8/8/8 w - - 0 1", "6nk/8/6K1/4N3/8/8/8/8 w - - 12 40", "7k/5K2/8/6N1/8/8/8/5B2 w - - 0 1",
             "k7/2K5/8/1N6/8/8/8/7B w - - 3 9", "7k/5K1P/8/8/8/8/8/8 w - - 0 1", "6bk/5K1p/7N/8/8/8/8/8 w - - 0 1",
             "8/8/8/8/8/7n/5k1P/6BK b - - 0 1"]
    fixed = fixed + [G.mirror_fen(f) for f in fixed[8:]]
    cands = list(fixed)
    for _ in range(n * 150):
        men = rng.choice(["KQk", "KRk", "KRRk", "KQkr", "KRkp", "KQPkp", "KRBkn", "KQkq", "KNBkp", "KRRkrb"])
        sqs = rng.sample(range(64), len(men))
        b = {}
        ok = True
        for s, ch in zip(sqs, men):
            if ch in "Pp" and s // 8 in (0, 7):
                ok = False
            b[s] = ch
        if not ok:
            continue
        fen = G.fen_of(b, "w", "-", "-", rng.choice([0, 0, 3, 50, 97, 98]), 40)
        cands.append(fen if rng.random() < 0.5 else G.mirror_fen(fen))
    outs = vlib.run_model_par([f"matein1\t{f}" for f in cands])
    res = []
    for f, o in zip(cands, outs):
        d = kv(o)
        if d.get("mates") and d.get("inD") == "1":
            res.append((f, mv_sorted(d["mates"])))
        if len(res) >= n:
            break
    return res


def check_C12(run):
    c = consts()
    rng = run.rng
    th = run.tier == "thorough"
    run.cov["rule"] = ("mate-in-one roots (the eight of the test-suite, random K+Q/R/RR/.. vs k(+..) placements filtered by the rules: in D, "
                       "clock < 99, at least one mating move), both colours x depth 1..4 x fresh table / table pre-filled by searches of "
                       "the same root and of its successors; through the binary with the history earlier commands left behind (the mated position was set up "
                       "before); the answer must be one of the mating moves and the last score MATE-1")
    roots = mate_roots(run, 250 if th else 40)
    reqs, meta = [], []
    for fen, mates in roots:
        lims = rng.choice([["depth:1"], ["depth:2"], ["depth:3"], ["depth:2", "depth:1"], ["nodes:200", "depth:3"], ["depth:3", "depth:1", "depth:2"],
                           ["depth:4"] if th else ["depth:2"]])
        reqs.append("root\t0\t" + fen + "\t\t1\t" + "\t".join(lims))
        meta.append((fen, mates, lims))
    impl, _ = vlib.run_impl_par(reqs)
    model = vlib.run_model_par(reqs)
    nv = 0
    for rq, m, a, b in zip(reqs, meta, impl, model):
        run.note_case(rq, "prefilled" if len(m[2]) > 1 else "fresh")
        if a.startswith(("PANIC", "DIED")):
            nv += 1
            run.violation("panic", "search panics", {"request": rq, "implementation": a})
            continue
        for ls, part in zip(m[2], a.split(" || ")):
            if not ls.startswith("depth"):
                continue
            d = parse_search(part)
            best = tuple(int(x) for x in d["best"].split("-")) if d["best"] != "0000" else None
            last = int(d["infos"][-1]["s"]) if d["infos"] else None
            if best not in m[1] or last != c["MATE"] - 1:
                nv += 1
                if nv <= 25:
                    run.violation("mate-in-one-missed", f"answered {d['best']} with last score {last}; mating moves are {m[1]}",
                                  {"fen": m[0], "limits": m[2], "which": ls, "implementation": part,
                                   "repro": "printf '" + rq.replace("\t", "\\t") + "\\n' | .build/cargo/release/rawr_harness /dev/stdout"})
        if strip_ms(a) != b and "fuel" not in b:
            nv += 1
            if nv <= 25:
                run.violation("model-mismatch", "search report differs from the model's", {"request": rq, "implementation": a, "model": b}, found_input=False)
    # through the binary, with a game history that earlier commands of the session have left behind: the mated position itself was
    # on the board before (`position ... moves <mate>`), then the root is set up again with a half-move clock >= 1
    import props_proc
    rel = vlib.build_engine("release")
    proots = [(f, ms) for f, ms in roots if f.split(" ")[3] == "-" and props_io_std(f)][: (40 if th else 10)]
    pstr = vlib.run_model_par([f"ucispec\t0\t{f}" for f, _ in proots])
    pj = []
    for (f, ms), o in zip(proots, pstr):
        strs = dict((tuple(int(x) for x in it.split(":")[0].split("-")), it.split(":")[1]) for it in o.split(",")) if o and not o.startswith("ERROR") else {}
        mates = [strs[m] for m in ms if m in strs]
        if not mates:
            continue
        pp = f.split(" ")
        pp[4] = str(rng.choice([1, 4, 30]))
        f4 = " ".join(pp)
        for d in (1, 2, 3):
            for pre in ([f"position fen {f4} moves {mates[0]}"], [f"position fen {f4} moves {mates[0]}", "go depth 1"], ["position startpos moves e2e4", "go depth 2"]):
                pj.append((f4, mates, ["isready"] + pre + [f"position fen {f4}", f"go depth {d}", "quit"]))
    # the table primed by a search of a position two plies down the root's own tree (sixth seed round: table cutoffs allowed in PV
    # nodes made a stored mate-in-one root, met again below the new root, tie with the real mate): `position F moves X Y`,
    # `go depth d`, then the root F itself; X prefers captures (they are ordered before a quiet mate)
    G2 = __import__("gen")
    pr2 = proots[: (24 if th else 8)]
    o1 = vlib.run_model_par([f"ucispec\t0\t{f}" for f, _ in pr2])
    lines2 = []
    for (f, ms), o in zip(pr2, o1):
        if not o or o.startswith("ERROR"):
            continue
        strs = [it.split(":") for it in o.split(",")]
        mate_strs = [st for trip, st in strs if tuple(int(x) for x in trip.split("-")) in ms]
        if not mate_strs:
            continue
        board = G2.parse_board(f)
        def is_cap(st):
            return (ord(st[2]) - 97) + 8 * (int(st[3]) - 1) in board
        others = [st for _, st in strs if st not in mate_strs]
        others.sort(key=lambda st: (not is_cap(st), st))
        for x in others[:3]:
            lines2.append((f, mate_strs, x))
    fx = vlib.run_model_par([f"posspecfen\t0\t{f}\t{x}" for f, _, x in lines2])
    oy = vlib.run_model_par([f"ucispec\t0\t{g}" if g and not g.startswith("ERROR") else "ucispec\t0\t8/8/8/8/8/8/8/8 w - - 0 1" for g in fx])
    for (f, mate_strs, x), g, o in zip(lines2, fx, oy):
        if not o or o.startswith("ERROR") or not g or g.startswith("ERROR"):
            continue
        ys = [it.split(":")[1] for it in o.split(",")]
        rng.shuffle(ys)
        for y in ys[:2]:
            for d in (3, 1):
                pj.append((f, mate_strs, ["isready", f"position fen {f} moves {x} {y}", f"go depth {d}", f"position fen {f}", f"go depth {d}", "quit"]))
    # corpus of minimised failures (sixth seed round, C12e): a capture ordered before the quiet mate, whose only reply leads to a
    # position that was itself searched as a mate-in-one root
    for f, mate, x, y in (("7k/5Kp1/8/8/8/8/1B6/2R5 w - - 0 1", "c1h1", "b2g7", "h8h7"), ("2r5/1b6/8/8/8/8/5kP1/7K b - - 0 1", "c8h8", "b7g2", "h1h2")):
        for d in (1, 2, 3):
            pj.append((f, [mate], ["isready", f"position fen {f} moves {x} {y}", f"go depth {d}", f"position fen {f}", f"go depth {d}", "quit"]))
    pres = vlib.par_map(lambda j: props_proc.run_engine(rel, j[2], timeout=60), pj)
    for (f4, mates, sc), (out, err, rc, to) in zip(pj, pres):
        run.note_case(tuple(sc), "command-loop-history", nontrivial=True)
        lines = [l for l in out.split("\n") if l.startswith(("info depth", "bestmove"))]
        k = max([i for i, l in enumerate(lines[:-1]) if l.startswith("bestmove")] + [-1])
        last = lines[k + 1:]
        bm = [l.split(" ")[1] for l in last if l.startswith("bestmove")]
        sc_ = [re.search(r"score (\S+ -?\d+)", l).group(1) for l in last if l.startswith("info depth") and " score " in l]
        if to or rc != 0 or len(bm) != 1 or bm[0] not in mates or not sc_ or sc_[-1] != f"cp {c['MATE'] - 1}":
            nv += 1
            if nv <= 25:
                run.violation("mate-in-one-missed", f"through the command loop: answered {bm} with last score {sc_[-1:] or None}; mating moves are {mates}",
                              {"script": ["uci"] + sc, "reports": last, "repro": "printf 'uci\\n" + "\\n".join(sc) + "\\n' | " + rel})
    run.cov["traces_validated_against_impl"] = len(reqs) + len(pj)
    run.sample({"request": reqs[0], "implementation": impl[0][:300]})
    run.cov["explanation"] = ("proof on the model (C12_mate_in_one_is_played): for every table with bounded scores, history and depth limit >= 1, a root with a mating "
                              "move, clock below 99, the mated position no repetition and no table entry under the mated position's key (none is ever written: "
                              "mated nodes are not stored; only a collision with that one key within the fuel's reach could; C12_closed_instance has no premise left) answers with a mating move and reports MATE_SCORE - 1 at every iteration; "
                              "a value strictly inside the window is honest (C12_value_inside_window_is_honest); the premise on the key is needed "
                              "(C12_misleading_entry_under_the_mated_key); tie: the runs above compare the real searches (fresh and pre-filled tables) with the model's")


# ====================================================================== C19
def check_C19(run):
    rng = run.rng
    th = run.tier == "thorough"
    c = consts()
    run.cov["rule"] = ("positions of D from the pool x windows (full; zero-width and narrow windows around, below and above the exact "
                       "value; random): value and node count vs the model; exact minimax value of the capture tree (unpruned, node budget "
                       "20000) decides soundness: inside the window => equal, fail-low => upper bound, fail-high => lower bound; "
                       "non-trivial = at least one capture is searched")
    P = pool_for(run)
    cands = [e["fen"] for e in P["pool"]]
    rng.shuffle(cands)
    cands = cands[: (2500 if th else 350)]
    cands = [e["fen"] for e in P["pool"] if e["cls"] in ("pawnwedge", "ep", "promo")][: (400 if th else 120)] + cands
    exact = vlib.run_model_par([f"qvalue\t{f}\t20000" for f in cands])
    reqs, meta = [], []
    for f, ex in zip(cands, exact):
        if ex == "budget" or ex.startswith("ERROR"):
            continue
        v = int(ex)
        wins = [(-c["INF"], c["INF"]), (v - 1, v), (v, v + 1), (v - 1, v + 1), (v + 10, v + 300), (v - 300, v - 10), (v - 20, v - 19), (v - 60, v + 5),
                (v - rng.randrange(1, 400), v + rng.randrange(1, 400)), (-c["INF"], v), (v, c["INF"])]
        for a, b in wins:
            reqs.append(f"qs\t{f}\t{a}\t{b}")
            meta.append((f, a, b, v))
        # the ply argument is bookkeeping only (seventh seed round: a `ply >= MAX_DEPTH` stand-pat guard): entry plies around and
        # far beyond the deepest ply a search can reach
        for ply in rng.sample([1, 2, 31, 64, 97, 126, 127, 128, 129, 200, 255, 1000], 3):
            a, b = rng.choice(wins[:4])
            reqs.append(f"qs\t{f}\t{a}\t{b}\t{ply}")
            meta.append((f, a, b, v))
    impl, _ = vlib.run_impl_par(reqs)
    model = vlib.run_model_par(reqs)
    nv = 0
    for rq, m, x, y in zip(reqs, meta, impl, model):
        f, a, b, v = m
        if x.startswith(("PANIC", "DIED")):
            nv += 1
            run.violation("panic", "quiescence search panics", {"request": rq, "implementation": x})
            continue
        d = kv(x)
        got = int(d["v"])
        cls = "full" if (a, b) == (-c["INF"], c["INF"]) else "excludes-high" if b <= v else "excludes-low" if a >= v else "contains"
        run.note_case(rq, cls, nontrivial=int(d["nodes"]) > 0)
        ok = (got == v) if a < got < b else (v <= got) if got <= a else (got <= v)
        if (a, b) == (-c["INF"], c["INF"]) and got != v:
            ok = False
        if not ok:
            nv += 1
            if nv <= 25:
                run.violation("qsearch-unsound", f"window ({a},{b}): returned {got}, exact capture-tree value {v}",
                              {"fen": f, "alpha": a, "beta": b, "implementation": x, "exact_value": v,
                               "repro": "printf '" + rq.replace("\t", "\\t") + "\\n' | .build/cargo/release/rawr_harness /dev/stdout"})
        elif x != y:
            nv += 1
            if nv <= 25:
                run.violation("model-mismatch", "value/node count differs from the model's", {"request": rq, "implementation": x, "model": y}, found_input=False)
    run.cov["traces_validated_against_impl"] = len(reqs)
    run.sample({"request": reqs[0], "implementation": impl[0], "exact": meta[0][3]})
    run.cov["explanation"] = ("qsearch_sound: fail-soft alpha-beta bounds and exactness vs the unpruned value, proved for the model by the "
                              "generic theorem of proofs/AlphaBeta.v instantiated with the engine's evaluation, ordered capture list and "
                              "make-move (any ordering); tie: value and node count of the real qsearch vs the model, and vs the exact value")


CHECKS = {"C03": check_C03, "C11": check_C11, "C12": check_C12, "C13": check_C13, "C14": check_C14, "C19": check_C19}
