#!/usr/bin/env python3
"""Writes MANIFEST.json from the table below (kept in one place so that it is always valid)."""
import json
import os
import sys

VERIF = os.path.dirname(os.path.dirname(os.path.abspath(__file__)))
sys.path.insert(0, os.path.join(VERIF, "tools"))

BASE_NOTE = ("Trusted: Coq 8.16.1 kernel + vm_compute (no native_compute, no axioms: Print Assumptions says 'Closed under the "
             "global context' for every property theorem and the check enforces it); the translator tools/gen_consts.py; "
             "the hand-written Gallina model of the Rust code, tied to /repo on every run by the correspondence check "
             "(extraction with ExtrOcamlBasic only, no Extract Constant; modelrun/driver.ml; harness/src/main.rs; tools/*.py); "
             "slider attacks inside the position-level model are the coordinate walk, which C10 proves equal to the magic lookup.")

# id -> (category, technique, level text, design ref, extra note)
CLAIMS = {
    "C01": ("proof", "Coq: generated moves = legal moves of the rules as sets, no duplicates, for every position satisfying the executable invariant (pin sets sound and complete, check mask, converse pin theory, king steps, castling, en passant, ray geometry by finite sweeps, mirror symmetry of the rules for the Black frame); differential of the real generator against the executable 8x8 rules specification ties the model to the code",
            "Proof on the model (closed under the global context): for every position satisfying the invariant Inv0 (executable inv_b: well-formed boards, one king a side, "
            "castling rights backed by rook and king, side not to move not in check) and the en-passant consistency ep_ok_b, standard or Chess960, either side to move: "
            "a move is generated iff it encodes a legal move of spec/Rules.v (pseudo-legal by the rules' own lists and king not attacked in the rules' successor), and no move "
            "is generated twice; promotions once per piece (C01_movegen_exact, C01_movegen_sound, C01_movegen_complete). Without ep_ok_b soundness is false (witness theorem: a "
            "parser-accepted, retro-inconsistent FEN). Both premises are kept by every generated move and null move and are evaluated (true) on every position of D the run uses. "
            "Also as a Permutation of lists (the rules list no move twice), and on all of D: in_D implies inv_b and ep_ok_b (DomainInv), so the statement written down at the start (movegen_exact_statement over in_D) is proved. The tie of the model to the Rust generator: the real generator (all entry points) against the extracted specification on generated positions of D (play-outs, suite FENs, "
            "Chess960/DFRC starts, pin/check/ep/castling/promotion templates): a test, not a proof.", "DESIGN.md section 6 C01 and section 9", ""),
    "C02": ("proof", "Coq refinement proof makemove = Rules.apply for every move kind incl. castling in both geometries (stage decomposition, bit-by-bit board semantics, all nine state components) and for the null move; closure of the invariant and of the executable domain D under every generated move and null move; differential model/implementation/Rules.apply on every legal move of sampled positions ties the model to the code",
            "Proof on the model: (a) a null move passes the turn, clears the ep target, keeps absolute placement and rights; (b) abs_state (makemove p m) = Rules.apply (abs_state p) (dec p m) "
            "-- placement, turn, four castling rights, ep target, half-move clock, full-move number -- for every move passing the executable test refines_b and, with NO per-move premise, for "
            "EVERY move the generator emits on a position passing good_pos_b; (c) makemove is the composition of the stages the proof works on; (d) closure: the invariant InvR (executable invR_b) "
            "is kept by every generated move (no legality premise: a generated move never leaves the mover's king attacked, C01) and by the null move out of check; and the domain D itself "
            "(executable in_D: validate's tests, consistent boards, rights geometry, key, en-passant retro-consistency, legal material) is closed under every generated move and null move "
            "(C02_every_reachable_position_is_in_D), with in_D => invr_b; so the refinement, 'structurally valid, side that moved not in check' and the key invariant hold on every position "
            "reached by play from a position of D. The tie of the model to the code is the correspondence run (all fields, both key variants, Rules.apply, play-outs with null moves).",
            "DESIGN.md section 6 C02 and section 9", ""),
    "C03": ("proof", "Coq lemmas on the root (answer = last pv, best move of the root loop is legal, ordering a permutation) + searches over limits/histories/tables checked against the rules",
            "Proved on the model with no hypothesis left: for every stop predicate (every limit, zero budgets included), every history and every table "
            "satisfying TBnd (stored scores within the mate bounds: true of new/cleared/resized tables, kept by every search), root answers with a move "
            "legal in the root whenever one exists, for every root satisfying the executable invariant invr_b (value bounds by induction over fuel with "
            "the position invariant kept by every generated move and null move; that generated moves keep the king safe is C01's gen_legal). "
            "No 'modulo fuel' either: the search of the model terminates (explicit recursion bound 61442 for the root: a potential of men and pawn advances, the depth and the half-move clock decrease "
            "lexicographically) and its result does not depend on the fuel beyond that bound, so for every limit, history and admissible table with at least one slot the search DOES return, and "
            "its answer is legal (C03_search_always_answers_with_a_legal_move). Session level: in every state the command loop reaches along any script (position lines within D), with whatever "
            "history and table earlier commands left, the search returns and answers with a legal move, and an evaluated go depth/nodes prints bestmove with a legal move as its last line "
            "(C03_search_from_every_session_state_answers, C03_every_go_of_a_session_answers_with_a_legal_move). The tie to the binary: the real search with zero/near-zero budgets, clocks 95..105, repetition roots and pre-filled tables.",
            "DESIGN.md section 6 C03 and section 9", ""),
    "C06": ("proof", "Coq: the printed FEN parses back to the very same position record for every valid position incl. every subset of castling rights in standard and Chess960 geometry (board loop invariant, castling-letter lemmas, field splitting, flip for Black to move); differential round trips and an independent canonical X-FEN printer",
            "Proof on the model for the first sentence of the property: for every valid position (record RTC: well-formed boards, validate = None, correct key, clocks within i32, held "
            "rights with the rook file on the proper wing, files of rights not held at their defaults), either side to move, both arithmetic modes, get_fen p = Some s and set_fen s = Some p -- "
            "the very same record, key included (C06_fen_roundtrip). Positions reached by play in Chess960 may keep the file of a LOST right in castle_files: for those the string parses back "
            "to the record with such dead files reset (C06_fen_roundtrip_modulo_dead_files, witness theorem) -- the same chess position; the comparison of the run treats castle files of rights "
            "not held the same way. Second sentence (C06_canonical_string_reprints): the canonical string of a valid position (the string the printer writes for it) parses, in either arithmetic mode, to a position that prints as the very same string, for every position of D with clocks within i32; that the model's printer writes what an independent X-FEN printer writes is checked by the correspondence run.",
            "DESIGN.md section 6 C06 and section 9", ""),
    "C08": ("proof", "Coq proofs: square attack query = Rules.attacked on the abstract board for both sides and both frames (exhaustive one-square leaper tables lifted by linearity, first-blocker lemma for the slider walks, mirror symmetry of the rules); count_moves = length(legal_moves) for every position (block-by-block, promotion targets split by rank), popcount = enumeration length, perft recursion, capture list = filter; + differential vs the rules (counts, captures, attack queries, perft)",
            "Proof on the model: is_sq_attacked p sq side = the rules' attack relation on abs_state's board, for either side as attacker and either "
            "colour to move, under the executable test attack_pre_b (boards below 2^64, one man at most per square, one king a side), which is "
            "evaluated (true) on every position the run uses; the arithmetic link between counts and lists, perft's recursion with the bulk counter, "
            "captures = filtered generation in order; count_moves p = length (legal_moves p) for every position with no hypothesis (hence perft 1 = "
            "number of generated moves); the set-valued attack queries and is_capture = the rules' (AttackSets, CaptureFacts); and against the rules' own tree: "
            "perft d p = Rules.leaves d (abs_state p) for every depth and count_moves p = number of legal moves of the rules, on every position satisfying the "
            "invariant and ep_ok_b (PerftRules: C01's equivalence + C02's refinement + closure; the rules list no move twice). Tie to the code: correspondence run.", "DESIGN.md section 6 C08", ""),
    "C09": ("proof", "Coq proof: for every generated (= legal, C01) move the printed string is the specification's notation, distinct moves print differently and the parser resolves the printed string to the same move; shape, square-name injectivity, Chess960 strings determine the move + differential on all legal moves incl. parser round trip",
            "Proof on the model over the property's domain (standard mode on positions where a side that may castle has its king on the e-file, Chess960 mode on all positions): for every "
            "move the generator emits -- with C01's equivalence, every legal move of the rules -- the printed string is the specification's notation (absolute origin and destination, promotion "
            "letter, castling e1g1/e1c1/e8g8/e8c8 in standard mode and king-takes-rook in Chess960 mode), distinct legal moves print differently, and the move parser resolves the printed string to "
            "the same move (C09_every_legal_move_has_its_notation). The geometry premise is needed: in 5k2/8/8/8/8/8/8/5K1R w K, which the parser accepts in standard mode, the king step f1g1 and "
            "castling print the same string (C09_standard_geometry_is_needed; outside the property's domain). The correspondence run compares Mv::to_uci and the parser of the binary with the model.",
            "DESIGN.md section 6 C09 and section 9", ""),
    "C11": ("proof", "Coq: root-level theorems -- for every bounded table, history and depth limit (and the unlimited search), every successor rule-drawn => every reported iteration >= 2 scores the draw constant and the answer is legal (a zero-window score that a table entry distorted either fails low or is searched again with the open window); also for every stop predicate from an empty table -- on top of the node-level draw lemmas + real searches on generated all-drawn roots",
            "Proof on the model: a non-root node with clock >= 100 or a repeated key in the look-back window (halfmoves + 1 entries) returns the draw score; at the root (C11_root_all_drawn_any_table): "
            "for EVERY table with bounded scores (the empty table of the property text with no key condition, or a table of misleading entries), every history and depth limit >= 1 and the unlimited search, if every "
            "generated move of the root leads to a position that is rule-drawn as the child node sees the history, every reported iteration of depth >= 2 carries -DRAW_SCORE (one constant) and the answer is a "
            "legal move; C11_root_all_drawn covers interrupted searches (any stop predicate) from an empty table. That the histories built by the UCI layer make the successors rule-drawn, and the tie to the "
            "binary, rest on running real searches on generated all-drawn roots.",
            "DESIGN.md section 6 C11 and section 9 (tenth proof round)", ""),
    "C12": ("proof", "Coq proof: a search value strictly inside its window is honest for any bounded table (zero-window cut-offs are re-searched), hence a root with a mating move reports MATE-1 at every iteration and answers with a mating move + real searches on mate-in-one roots with fresh and pre-filled tables",
            "Proof on the model: for every table whose scores are within the mate bounds, every history and depth limit >= 1 (and the unlimited search): if a generated "
            "move of the root mates, the clock is below 99, the mated position is no repetition and the table never answers for the mated position's key (no entry "
            "under that key, and no position with a legal move within `fuel` plies of the root has that ONE key: mated nodes are never stored, so only a 64-bit collision with it could "
            "create one; the fuel may be the smallest for which the search returns, and for the example position the premise is discharged by enumeration: C12_closed_instance), the search answers with a mating move and every reported score is MATE_SCORE - 1 (C12_mate_in_one_is_played). Core lemma: a value strictly "
            "inside the window lies between -MATE+ply and MATE-ply-1 and equals -MATE+ply only at a mated node, whatever the table holds. The key premise is needed: "
            "witness run with one bounded entry under the mated key (C12_misleading_entry_under_the_mated_key) -- 'whatever the table contains' holds of the tables "
            "the engine can produce, not of a foreign table. Real searches (depth 1..4, fresh and pre-filled tables) on generated mate-in-one roots tie model and code.",
            "DESIGN.md section 6 C12 and section 9 (eighth proof round)", "key premise SafeN (no position with a legal move within fuel plies of the root has the mated position's key) is a hypothesis"),
    "C04": ("proof", "Coq proofs: recomputed key = function of the abstract 8x8 state (XOR-sum over squares, linear in the boards); predicted key = recomputed key after the move for every move kind incl. castling, makemove stores the prediction, null move; minimum distance of the key code (vm_compute sweep over regenerated tables) + differential on incremental/recomputed keys",
            "Proved on the model: (a) calculate_hash p = spec_key (abs_state p): the key is a function of placement, side to move, castling "
            "rights held and en-passant file only -- not of counters, stored perspective or path; (b) predict_hash p m = calculate_hash "
            "(makemove p m) and hash (makemove true p m) = predict_hash p m for every move (quiet, capture, double push, en passant, promotion, "
            "castling in both geometries) that passes the executable test key_move_b, and the null-move step: the invariant 'stored key = "
            "recomputed key' is preserved step by step; (c) any 1..4 distinct entries of the regenerated key tables XOR to a non-zero value. "
            "Also with NO per-move premise: on every position passing good_pos_b every generated move keeps the invariant. good_pos_b / key_move_b are "
            "evaluated (true) on every position / legal move the run generates. Along EVERY sequence of generated moves (and null moves out of check) from a "
            "position satisfying InvR the stored key = recomputed key = spec_key of the abstract state reached (no legality premise: C01's gen_legal). "
            "The 'different positions had different keys' clause rests on the correspondence run.",
            "DESIGN.md section 6 C04", ""),
    "C05": ("proof", "Coq: the token matcher is the specification's denotation and the moves command follows the specification's play for every token list (on C01's equivalence generated = legal and C09's injective notation), history lemmas + differential against the token-denotation specification",
            "Proof on the model: for every position satisfying the invariant, the en-passant consistency and the geometry invariant TokGeo (standard mode: a side with a castling right "
            "has its king on the e-file; queen-side castle file west of the king-side one; true of the start position and of what the parser builds, kept by every move), and EVERY token list: "
            "denotes (abs_state p) t = find_move p t, the command plays exactly the denoting tokens in order, reports all others as unknown without changing the position, and the history "
            "holds one key per position reached (C05_moves_follow_the_specification). The geometry condition is needed (witness theorem: with both recorded castle files equal the alias e1g1 "
            "resolves to the other wing's castling move). The tie of the model of uci/moves.rs and uci/position.rs to the code rests on the correspondence run (both notations, conventional "
            "castling strings, almost-right spellings, stale castle files).", "DESIGN.md section 6 C05 and section 9", ""),
    "C07": ("proof", "Coq proof parse => validate for every string in both arithmetic modes + differential in both builds",
            "Proof on the model (spellings outside the two proved ones by the run). Proved for every string and both modes: an accepted string yields a position that passed validate with the key "
            "recomputed from scratch, what validate guarantees (spelled out), and consistent bitboards (us|them = union of the piece boards, by the "
            "XOR-parity invariant of the board loop). Completeness in the form the model can carry: the FEN the engine prints for a valid position (any rights, Chess960 files) is accepted and yields that "
            "position (C07_printed_fen_is_accepted, from C06), in particular of every position of D and of every position reached from D by generated moves while the clocks fit an i32 (C07_fen_of_every_reached_position_is_accepted). The other spelling of the castling field is proved too: every held right written as the file letter of its rook (Shredder-FEN), or any mix of file letters and the printer's letters, parses to the very same position in either mode (C07_file_letter_spelling_denotes_the_same_position, C07_any_mix_of_spellings_denotes_the_same_position). Other letter orders, omitted counters and the agreement of the model's printer with an independent X-FEN printer rest on the "
            "correspondence run (both builds).", "DESIGN.md section 6 C07", ""),
    "C10": ("proof", "Coq proof: vm_compute sweep over regenerated magics lifted to all occupancies; exhaustive differential vs geometry",
            "Full proof about the model: magic lookup (table generated as in build.rs, indexed as in magic.rs, constants regenerated "
            "from the source on every run) equals the coordinate ray walk for every square and every occupancy (no bound), and "
            "every index stays inside the table; the set-wise knight / king / pawn attack functions equal the union of per-square "
            "geometry for every bitboard below 2^64 (linearity + 64 finite facts each) and the per-square tables equal geometry. "
            "The eight ray-fill helpers of rays.rs equal the coordinate walk for every square and blocker board (locality + finite sweep).", "DESIGN.md section 6 C10", ""),
    "C13": ("proof", "Coq proof by induction on fuel (history preserved through negamax and the root loop) + repeated real searches",
            "Proof on the model: every search that returns gives back the history it was given (any limit, window, table), the position is "
            "passed by value, and the model is a function of its inputs. That the Rust has no hidden input is measured: state snapshots and "
            "each search executed twice in separate processes, incl. a node-budget sweep on middlegame roots. A result, once defined, is the same for every larger fuel (C13_result_does_not_depend_on_fuel), and the search does return (SearchTotal, C03/C15). At the level of the command loop a go command of any kind leaves position, history, Hash option and Chess960 flag as they were (C13_go_leaves_the_game_state_alone).", "DESIGN.md section 6 C13",
            ""),
    "C14": ("proof", "Coq proof on the root loop (iterations in order, node/depth limit clauses, bestmove = last pv) + differential; time = measurement",
            "Proof on the model for: iterations reported consecutively from 1, nothing deeper than a depth limit, no iteration >= 2 reported at or "
            "beyond a node limit, answer = first move of the last pv; every reported score within [-MATE, MATE] (strictly inside +-INF) and the table left "
            "behind satisfies TBnd again, for every limit, history and admissible table, with no hypothesis left (GenLegal.v). Time clause: wall-clock measurement "
            "(budget + 250 ms). Depth limits >= MAX_DEPTH: recorded known finding. The search returns for every sufficient fuel with the same result (C14_search_always_reports_bounded_scores).", "DESIGN.md section 6 C14", ""),
    "C15": ("proof", "Coq proof for the command layer (only `position` with a rejected FEN can panic), a session invariant kept along every script, termination of the search + both binaries on generated scripts",
            "PARTIAL by nature. Proved: in the model of the command loop no line other than `position` with a FEN the parser rejects reaches a "
            "panic; and the search of the model never gets stuck: root, negamax and qsearch return for every limit, window and history on positions satisfying the invariant with any table that has "
            "at least one slot, with explicit recursion-depth bounds (the only way to a stuck search left in the model is a zero-length table). Session level (SessionInv.v): along EVERY script the "
            "state of the command loop stays in an invariant (position in D, bounded table scores, table length = slots of the Hash option hence never zero, Hash in 1..4096, Chess960 flag consistent), from the "
            "state phase 1 hands over; so at every point of every script the only panic is `position` with a rejected FEN, and scripts whose position lines say startpos never panic. Arithmetic traps inside the Rust search/movegen, the real stack, memory, pipes and EOF cannot be carried by the model: covered by running the "
            "optimised and the checked binary on generated scripts (exit status, stderr, readyok/bestmove counts, transcript vs model).",
            "DESIGN.md section 6 C15", ""),
    "C16": ("proof", "Coq proof: states are identical after ucinewgame given equal options; position depends on the flag only; process-level differential",
            "Proof on the model: after ucinewgame two sessions with equal option values and table size are in the same state, so all later "
            "output coincides; without ucinewgame `position` fixes position and history. Hidden process state is measured against fresh processes.",
            "DESIGN.md section 6 C16", ""),
    "C17": ("proof", "Coq proof of antisymmetry, board-only dependence and the numeric bound (bswap involution, popcount invariance, odd truncating "
            "division; table entries bounded by a finite sweep, men counted by kind with disjoint boards, phase and taper bounds) + differential",
            "Proved: evaluation reads the eight bitboards only (hence colour-blind: the mirrored twin is the same boards with the turn flag "
            "negated), is the exact negative with the turn passed for all boards below 2^64, and satisfies |eval| <= 400000 < MATE_SCORE - "
            "MAX_DEPTH on every position of D (more generally: at most 16 men a side, one kind per square), and after every generated move from a position "
            "satisfying the invariant (men counts never grow; no legality premise). The bound uses the tables "
            "the translator reads from the source, so a changed table re-opens it.", "DESIGN.md section 6 C17", ""),
    "C18": ("proof", "Coq refinement proof over arbitrary operation sequences + differential on random sequences",
            "Full proof on the model (generic entry type): every finite op sequence gives the outputs of the last-stored-per-slot specification; "
            "poll-after-add, clear, resize length and provenance, never-invented, fill indicator range.", "DESIGN.md section 6 C18",
            "size_of::<TTEntry>() = 24 is measured by the harness and compared"),
    "C19": ("proof", "Coq proof: generic fail-soft alpha-beta theorem instantiated with the engine's evaluation/captures/ordering + differential vs exact values",
            "Full proof on the model: for every position, window and fuel on which both finish, qsearch returns the exact capture-tree value inside "
            "the window, an upper bound at or below alpha, a lower bound at or above beta; full window exact; ordering is a permutation. The fuel is no hypothesis: every capture removes "
            "a man, so on a position satisfying the invariant qsearch terminates with any fuel above 32 and its result does not depend on the fuel (C19_qsearch_sound_total).",
            "DESIGN.md section 6 C19 and section 9", "eval/legal_captures/makemove of the model are tied to the code by C17/C08/C02 runs"),
    "C20": ("proof", "Coq proof: the tool's game analysis modelled over the engine model's positions keeps the consistency invariant for every set of games (counting, pawn potential), hence features and scores in [0,1] over exact rationals + the real style.py run on generated games and compared counter by counter with the model",
            "Proof on the model, floats excepted. Proved: for every non-empty list of games, each any sequence of generated (legal, C01) moves from the "
            "start position, any result headers, either side, the statistics accumulated by the model of analyse_game / Stats.add_* / finish_game "
            "(model/StyleGame.v) satisfy is_valid and SInv (histogram sums, threats <= moves, the early-pawn-push potential bound), is_valid holds after "
            "every game, no feature divides by zero and the three scores lie in [0,1]; without games every score is None. Tied to the tool by comparing "
            "all 32 modelled counters exactly on every generated game set. Not modelled: float rounding (rationals vs floats agree to 1e-9), the PGN "
            "reader, python-chess (replaced by tools/chess_stub), the counters no score reads.",
            "DESIGN.md section 6 C20 and section 9 (seventh proof round)", "tools/chess_stub is trusted"),
}

NOT_YET = {}


def main():
    props = [json.loads(l) for l in open(os.path.join(VERIF, "properties.jsonl"))]
    checks, na = [], []
    for p in props:
        pid = p["id"]
        if pid in CLAIMS:
            cat, tech, text, ref, note = CLAIMS[pid]
            checks.append({
                "property_id": pid,
                "quick_cmd": f"./check {pid} --tier quick",
                "thorough_cmd": f"./check {pid} --tier thorough",
                "evidence_file": f"/verif/evidence/{pid}.json",
                "replay_cmd_template": f"./check {pid} --replay {{path}}",
                "engine": "coq+corr",
                "level_claimed": {"category": cat, "text": text, "design_ref": ref},
                "level_note": BASE_NOTE + (" " + note if note else ""),
                "technique": tech,
            })
        else:
            na.append({"property_id": pid, "reason": NOT_YET.get(pid, "check not built yet in this round (planned: DESIGN.md section 6); no claim is made")})
    man = {
        "version": 1,
        "setup_cmd": "./check setup",
        "hooks": {
            "guard": "rawr_verif",
            "enable": "none needed: every observed function is public; RUSTFLAGS=\"--cfg rawr_verif\" is reserved",
            "baseline_off_cmd": "cd /repo && cargo nextest run --workspace --no-fail-fast --tool-config-file pb:/w/lib/nextest.toml --profile pb --test-threads 8 --offline",
            "source_commits": [],
            "add_only": True,
        },
        "engines": [{"name": "coq+corr", "path": "/verif/check",
                     "serves_properties": sorted(CLAIMS),
                     "kind_free_text": "Coq 8.16.1 development (coq/) + correspondence check (extracted OCaml model vs Rust harness vs binary)"}],
        "checks": checks,
        "not_applicable": na,
        "notes": "See DESIGN.md. Genuine defects repaired by fix: commits are listed in known_findings.txt.",
    }
    with open(os.path.join(VERIF, "MANIFEST.json"), "w") as f:
        json.dump(man, f, indent=1)
    print("MANIFEST.json:", len(checks), "checks,", len(na), "not claimed")


if __name__ == "__main__":
    main()
