#!/usr/bin/env python3
"""Writes MANIFEST.json from the table below (kept in one place so that it is always valid)."""
import json
import os
import sys

VERIF = os.path.dirname(os.path.dirname(os.path.abspath(__file__)))
sys.path.insert(0, os.path.join(VERIF, "tools"))

BASE_NOTE = ("Trusted: Coq 8.16.1 kernel + vm_compute (no native_compute, no axioms: Print Assumptions says 'Closed under the "
             "global context' for every property theorem and the check enforces it); the translator tools/gen_consts.py; "
             "the hand-written Gallina model of the Rust code, tied to /repo on every run by the correspondence check "
             "(extraction with ExtrOcamlBasic only, no Extract Constant; modelrun/driver.ml; harness/src/main.rs; tools/*.py); "
             "slider attacks inside the position-level model are the coordinate walk, which C10 proves equal to the magic lookup.")

# id -> (category, technique, level text, design ref, extra note)
CLAIMS = {
    "C10": ("proof", "Coq proof: vm_compute sweep over regenerated magics lifted to all occupancies; exhaustive differential vs geometry",
            "Full proof about the model: magic lookup (table generated as in build.rs, indexed as in magic.rs, constants regenerated "
            "from the source on every run) equals the coordinate ray walk for every square and every occupancy (no bound), and "
            "every index stays inside the table. Tie: all 107,648 reduced lookups plus random full occupancies, leapers, rays and "
            "bit primitives of the real library compared with geometry computed independently.", "DESIGN.md section 6 C10", ""),
}

NOT_YET = {}


def main():
    props = [json.loads(l) for l in open(os.path.join(VERIF, "properties.jsonl"))]
    checks, na = [], []
    for p in props:
        pid = p["id"]
        if pid in CLAIMS:
            cat, tech, text, ref, note = CLAIMS[pid]
            checks.append({
                "property_id": pid,
                "quick_cmd": f"./check {pid} --tier quick",
                "thorough_cmd": f"./check {pid} --tier thorough",
                "evidence_file": f"/verif/evidence/{pid}.json",
                "replay_cmd_template": f"./check {pid} --replay {{path}}",
                "engine": "coq+corr",
                "level_claimed": {"category": cat, "text": text, "design_ref": ref},
                "level_note": BASE_NOTE + (" " + note if note else ""),
                "technique": tech,
            })
        else:
            na.append({"property_id": pid, "reason": NOT_YET.get(pid, "check not built yet in this round (planned: DESIGN.md section 6); no claim is made")})
    man = {
        "version": 1,
        "setup_cmd": "./check setup",
        "hooks": {
            "guard": "rawr_verif",
            "enable": "none needed: every observed function is public; RUSTFLAGS=\"--cfg rawr_verif\" is reserved",
            "baseline_off_cmd": "cd /repo && cargo nextest run --workspace --no-fail-fast --tool-config-file pb:/w/lib/nextest.toml --profile pb --test-threads 8 --offline",
            "source_commits": [],
            "add_only": True,
        },
        "engines": [{"name": "coq+corr", "path": "/verif/check",
                     "serves_properties": sorted(CLAIMS),
                     "kind_free_text": "Coq 8.16.1 development (coq/) + correspondence check (extracted OCaml model vs Rust harness vs binary)"}],
        "checks": checks,
        "not_applicable": na,
        "notes": "See DESIGN.md. Genuine defects repaired by fix: commits are listed in known_findings.txt.",
    }
    with open(os.path.join(VERIF, "MANIFEST.json"), "w") as f:
        json.dump(man, f, indent=1)
    print("MANIFEST.json:", len(checks), "checks,", len(na), "not claimed")


if __name__ == "__main__":
    main()
