"""Shared machinery of ./check: build steps, proof-obligation bookkeeping, running model and
implementation side by side, evidence / replay / known-findings handling."""
import hashlib
import json
import os
import random
import re
import subprocess
import sys
import time

VERIF = os.path.dirname(os.path.dirname(os.path.abspath(__file__)))
REPO = os.environ.get("RAWR_REPO", "/repo")
BUILD = os.path.join(VERIF, ".build")
COQ = os.path.join(VERIF, "coq")
ENV = dict(os.environ, CARGO_NET_OFFLINE="true", CARGO_TARGET_DIR=os.path.join(BUILD, "cargo"))
JOBS = "16"

FORBIDDEN = re.compile(r"\b(Admitted|admit|Axiom|Axioms|Parameter|Parameters|Conjecture|Conjectures|"
                       r"Unset\s+Guard|bypass_check|Admit\s+Obligations|type-in-type|impredicative-set)\b")
# axioms that may appear under Print Assumptions (standard-library axioms named in the trusted base)
ALLOWED_AXIOMS = set()


class CheckFailure(Exception):
    """infrastructure failure (build broken etc.) -- reported, exit code 2"""


def sh(cmd, timeout=1800, cwd=VERIF, env=None, check=True, stdin=None):
    r = subprocess.run(cmd, cwd=cwd, env=env or ENV, timeout=timeout, stdout=subprocess.PIPE,
                       stderr=subprocess.STDOUT, input=stdin, text=True, shell=isinstance(cmd, str))
    if check and r.returncode != 0:
        raise CheckFailure(f"command failed ({r.returncode}): {cmd}\n{r.stdout[-4000:]}")
    return r


# ------------------------------------------------------------------ build steps
def gen_consts():
    r = sh([sys.executable, os.path.join(VERIF, "tools", "gen_consts.py")], check=False)
    if r.returncode != 0:
        return False, r.stdout
    return True, r.stdout


def coq_files():
    out = []
    for sub in ("model", "spec", "proofs", "props"):
        d = os.path.join(COQ, sub)
        if os.path.isdir(d):
            for f in sorted(os.listdir(d)):
                if f.endswith(".v"):
                    out.append(os.path.join(sub, f))
    return out


def scan_forbidden():
    hits = []
    for rel in coq_files() + ["extract/Extract.v"]:
        p = os.path.join(COQ, rel)
        if not os.path.exists(p):
            continue
        text = open(p).read()
        text = re.sub(r"\(\*.*?\*\)", "", text, flags=re.S)     # comments do not count
        for m in FORBIDDEN.finditer(text):
            hits.append(f"{rel}: {m.group(0)}")
    return hits


def coq_make(targets=None, timeout=3000):
    """full .vo build of the given targets (default: everything listed in _CoqProject)"""
    if not os.path.exists(os.path.join(COQ, "Makefile")) or \
            os.path.getmtime(os.path.join(COQ, "Makefile")) < os.path.getmtime(os.path.join(COQ, "_CoqProject")):
        sh("coq_makefile -f _CoqProject -o Makefile", cwd=COQ)
    cmd = ["make", "-j", JOBS] + (targets or [])
    t0 = time.time()
    r = sh(cmd, cwd=COQ, timeout=timeout, check=False)
    return r.returncode == 0, r.stdout, time.time() - t0, " ".join(["cd coq &&"] + cmd)


def coq_props(prop):
    """recompile props/<prop>.v on its own (its dependencies are up to date after coq_make) and read
    the statements and assumptions it prints"""
    rel = f"props/{prop}.v"
    src = os.path.join(COQ, rel)
    if not os.path.exists(src):
        return None
    cmd = ["coqc", "-Q", "model", "Rawr", "-Q", "spec", "Rawr", "-Q", "proofs", "Rawr", "-Q", "props", "Rawr", rel]
    r = sh(cmd, cwd=COQ, timeout=900, check=False)
    text = open(src).read()
    text_nc = re.sub(r"\(\*.*?\*\)", "", text, flags=re.S)
    theorems = re.findall(r"^\s*(?:Theorem|Lemma|Corollary)\s+(\w+)", text_nc, flags=re.M)
    printed = re.findall(r"^\s*Print Assumptions\s+(\w+)\s*\.", text_nc, flags=re.M)
    closed = r.stdout.count("Closed under the global context")
    axioms = []
    if "Axioms:" in r.stdout:
        for blk in r.stdout.split("Axioms:")[1:]:
            for line in blk.splitlines()[1:]:
                m = re.match(r"^(\S+)\s*:", line)
                if m:
                    axioms.append(m.group(1))
                elif line.strip() == "" or not line.startswith(" "):
                    if not re.match(r"^\s", line):
                        break
    bad_axioms = sorted(set(a for a in axioms if a not in ALLOWED_AXIOMS))
    ok = (r.returncode == 0 and not bad_axioms and set(theorems) <= set(printed) and len(printed) > 0
          and (closed == len(printed) or (axioms and not bad_axioms)))
    return {
        "ok": bool(ok), "returncode": r.returncode, "theorems": theorems, "printed": printed,
        "closed": closed, "axioms": sorted(set(axioms)), "bad_axioms": bad_axioms,
        "cmd": "cd coq && " + " ".join(cmd), "log": r.stdout[-6000:],
    }


def file_hash(paths):
    h = hashlib.sha256()
    for p in paths:
        with open(p, "rb") as f:
            h.update(f.read())
    return h.hexdigest()


def build_modelrun():
    """extract the model to OCaml and link it with modelrun/driver.ml (rebuilt when any input changed)"""
    ex = os.path.join(BUILD, "extract")
    os.makedirs(ex, exist_ok=True)
    inputs = [os.path.join(COQ, "model", f) for f in sorted(os.listdir(os.path.join(COQ, "model"))) if f.endswith(".v")]
    specd = os.path.join(COQ, "spec")
    if os.path.isdir(specd):
        inputs += [os.path.join(specd, f) for f in sorted(os.listdir(specd)) if f.endswith(".v")]
    inputs += [os.path.join(COQ, "extract", "Extract.v"), os.path.join(VERIF, "modelrun", "driver.ml")]
    stamp = os.path.join(BUILD, "modelrun.stamp")
    hv = file_hash(inputs)
    binp = os.path.join(BUILD, "modelrun")
    if os.path.exists(binp) and os.path.exists(stamp) and open(stamp).read() == hv:
        return
    sh(["coqc", "-Q", "../../coq/model", "Rawr", "-Q", "../../coq/spec", "Rawr", "../../coq/extract/Extract.v"], cwd=ex, timeout=600)
    sh(f"cp {VERIF}/modelrun/driver.ml {ex}/driver.ml && ocamlfind ocamlopt -O3 -w -a -package str model.mli model.ml driver.ml -o ../modelrun",
       cwd=ex, timeout=600)
    open(stamp, "w").write(hv)


def build_harness(profile="release"):
    args = ["cargo", "build", "--offline"] + (["--release"] if profile == "release" else [])
    r = sh(args, cwd=os.path.join(VERIF, "harness"), timeout=1800, check=False)
    if r.returncode != 0:
        raise CheckFailure("cargo build of the harness against /repo failed:\n" + r.stdout[-3000:])
    return os.path.join(BUILD, "cargo", "release" if profile == "release" else "debug", "rawr_harness")


def build_engine(profile="release"):
    """the rawr binary itself, from /repo's working tree, into .build/engine-<profile>"""
    env = dict(ENV, CARGO_TARGET_DIR=os.path.join(BUILD, "engine"))
    args = ["cargo", "build", "--offline"] + (["--release"] if profile == "release" else [])
    r = sh(args, cwd=REPO, env=env, timeout=1800, check=False)
    if r.returncode != 0:
        raise CheckFailure("cargo build of rawr failed:\n" + r.stdout[-3000:])
    return os.path.join(BUILD, "engine", "release" if profile == "release" else "debug", "rawr")


# ------------------------------------------------------------------ running both sides
def run_model(lines, timeout=3000):
    inp = "\n".join(lines) + "\n"
    r = subprocess.run([os.path.join(BUILD, "modelrun")], input=inp, stdout=subprocess.PIPE,
                       stderr=subprocess.PIPE, text=True, timeout=timeout)
    out = r.stdout.split("\n")
    if out and out[-1] == "":
        out.pop()
    if len(out) != len(lines):
        raise CheckFailure(f"modelrun answered {len(out)} lines for {len(lines)} requests: {r.stderr[-500:]}")
    return out


def run_impl(lines, profile="release", timeout=3000, tag="x"):
    binp = os.path.join(BUILD, "cargo", "release" if profile == "release" else "debug", "rawr_harness")
    outp = os.path.join(BUILD, f"impl_out_{tag}_{os.getpid()}.txt")
    inp = "\n".join(lines) + "\n"
    r = subprocess.run([binp, outp], input=inp, stdout=subprocess.PIPE, stderr=subprocess.PIPE, text=True,
                       timeout=timeout)
    out = open(outp).read().split("\n") if os.path.exists(outp) else []
    if os.path.exists(outp):
        os.remove(outp)
    if out and out[-1] == "":
        out.pop()
    if len(out) != len(lines):
        # the harness process died (abort, stack overflow): report the first unanswered request
        out = out + ["DIED " + (r.stderr[-200:].replace("\n", " "))] * (len(lines) - len(out))
    # library prints, per request
    prints = {}
    cur = None
    for ln in r.stdout.split("\n"):
        if ln.startswith("@@ "):
            cur = int(ln[3:])
        elif cur is not None and ln != "":
            prints.setdefault(cur, []).append(ln)
    return out, prints


def chunks(lst, n):
    k = max(1, (len(lst) + n - 1) // n)
    return [lst[i:i + k] for i in range(0, len(lst), k)]


def par_map(fn, parts):
    from concurrent.futures import ThreadPoolExecutor
    with ThreadPoolExecutor(max_workers=16) as ex:
        return list(ex.map(fn, parts))


def run_model_par(lines, n=16):
    if len(lines) < 64:
        return run_model(lines)
    res = par_map(run_model, chunks(lines, n))
    return [x for part in res for x in part]


def run_impl_par(lines, profile="release", n=16):
    if len(lines) < 64:
        return run_impl(lines, profile)
    parts = chunks(lines, n)
    res = par_map(lambda ip: run_impl(ip[1], profile, tag=str(ip[0])), list(enumerate(parts)))
    outs, prints, base = [], {}, 0
    for part, (o, pr) in zip(parts, res):
        outs += o
        for k, v in pr.items():
            prints[base + k] = v
        base += len(part)
    return outs, prints


def kv(line):
    """'a=1 b=x,y' -> dict (values stay strings)"""
    d = {}
    for tok in line.split(" "):
        if "=" in tok:
            k, v = tok.split("=", 1)
            d[k] = v
    return d


# ------------------------------------------------------------------ known findings, replays, evidence
def known_findings(prop):
    path = os.path.join(VERIF, "known_findings.txt")
    out = []
    if os.path.exists(path):
        for ln in open(path):
            ln = ln.strip()
            m = re.match(r"^finding:\s+property=(\w+)\s+key=(\S+)\s+(.*)$", ln)
            if m and m.group(1) == prop:
                out.append((m.group(2), m.group(3)))
    return out


class Run:
    """one check run: collects obligations, cases, violations; writes evidence; decides the exit code"""

    def __init__(self, prop, tier, seed, level="proof"):
        self.prop, self.tier, self.seed, self.level = prop, tier, seed, level
        self.t0 = time.time()
        self.cov = {"evaluations": 0, "distinct_nontrivial": 0, "rule": "", "samples": [],
                    "obligations": 0, "discharged": 0, "checker_cmd": "", "trusted_base": [],
                    "traces_validated_against_impl": 0, "classes": {}, "explanation": ""}
        self.violations = []      # (key, description, replay dict)
        self.known_hit = []
        self.assumptions = []
        self.rng = random.Random(seed * 1000003 + int(hashlib.sha256(prop.encode()).hexdigest()[:8], 16))
        self.distinct = set()

    def note_case(self, ident, cls=None, nontrivial=True):
        self.cov["evaluations"] += 1
        if cls:
            self.cov["classes"][cls] = self.cov["classes"].get(cls, 0) + 1
        if nontrivial:
            self.distinct.add(ident)

    def sample(self, s, cap=6):
        if len(self.cov["samples"]) < cap:
            self.cov["samples"].append(s)

    def violation(self, key, what, replay, found_input=True):
        self.violations.append((key, what, replay, found_input))

    def obligations(self, pr, make_ok, make_cmd, make_log):
        """proof side: pr = result of coq_props; make_ok = whole development compiled"""
        if pr is None:
            return
        n = len(pr["theorems"])
        self.cov["obligations"] = n
        self.cov["discharged"] = n if (pr["ok"] and make_ok) else 0
        self.cov["checker_cmd"] = make_cmd + " && " + pr["cmd"]
        self.cov["theorems"] = pr["theorems"]
        self.cov["axioms_reported"] = pr["axioms"]
        if not (pr["ok"] and make_ok):
            self.proof_broken = (make_log if not make_ok else pr["log"])[-3000:]
        else:
            self.proof_broken = None

    def finish(self):
        self.cov["distinct_nontrivial"] = len(self.distinct)
        wall = time.time() - self.t0
        known = known_findings(self.prop)
        new = []
        for key, what, replay, found in self.violations:
            hit = [k for k, _ in known if k == key]
            if hit:
                self.known_hit.append((key, what))
            else:
                new.append((key, what, replay, found))
        os.makedirs(os.path.join(VERIF, "evidence"), exist_ok=True)
        ev = {
            "property_id": self.prop, "tier": self.tier, "seed": self.seed, "level": self.level,
            "coverage": self.cov, "assumptions": self.assumptions, "wall_s": round(wall, 2),
            "violations": len(new),
        }
        with open(os.path.join(VERIF, "evidence", f"{self.prop}.json"), "w") as f:
            json.dump(ev, f, indent=1)
        for key, what in sorted(set(self.known_hit)):
            print(f"KNOWN-FINDING: property={self.prop} {key} {what}")
        if new:
            rdir = os.path.join(VERIF, "replays")
            os.makedirs(rdir, exist_ok=True)
            # the replay is a violation with a concrete failing input when there is one
            key, what, replay, found = ([v for v in new if v[3]] or new)[0]
            path = os.path.join(rdir, f"{self.prop}_{self.tier}_{self.seed}.json")
            with open(path, "w") as f:
                json.dump({"property": self.prop, "key": key, "what": what, "replay": replay,
                           "all": [{"key": k, "what": w} for k, w, _, _ in new[:50]]}, f, indent=1)
            tail = "" if any(fnd for _, _, _, fnd in new) else " no-failing-input-found"
            print(f"VIOLATION property={self.prop} replay={path}{tail}")
            return 1
        print(f"OK property={self.prop} tier={self.tier} seed={self.seed} obligations={self.cov['discharged']}/"
              f"{self.cov['obligations']} cases={self.cov['evaluations']} distinct={self.cov['distinct_nontrivial']} "
              f"wall={wall:.1f}s")
        return 0


TRUSTED_BASE = [
    "Coq 8.16.1 kernel including its vm_compute virtual machine (finite sweeps); no native_compute",
    "no axioms: every property theorem prints 'Closed under the global context'",
    "tools/gen_consts.py (translator of the Rust constant tables into coq/model/Consts.v)",
    "hand-written Gallina model of the Rust code (coq/model), tied to /repo by the correspondence run",
    "extraction with ExtrOcamlBasic only (bool, option, unit, prod, list, sumbool, comparison to OCaml's own; no Extract Constant), modelrun/driver.ml, harness/src/main.rs, tools/*.py",
    "rustc/cargo, the Rust standard library, OCaml 4.13.1",
]
