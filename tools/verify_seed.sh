#!/bin/bash
# verify.sh <id>: demo fails with the change, passes without; baseline suite passes with the change
id=$1; wt=/tmp/mut/$id; cd $wt || exit 2
export CARGO_NET_OFFLINE=true CARGO_TARGET_DIR=$wt/target
log=$wt/_out/verify.log; : > $log
git diff -- src tools build.rs > $wt/_out/patch.check.diff
cp _out/demo.rs tests/zz_demo.rs
cargo test --offline --test zz_demo >> $log 2>&1; with=$?
git apply -R _out/patch.check.diff
cargo test --offline --test zz_demo >> $log 2>&1; without=$?
git apply _out/patch.check.diff
rm -f tests/zz_demo.rs
cargo test --offline -- --skip perft_4 --skip perft_5 --skip perft_6 --skip perft_960_3 --skip perft_960_4 --skip perft_960_5 --skip perft_960_6 >> $log 2>&1; suite=$?
echo "$id demo_with_change_exit=$with demo_without_exit=$without suite_with_change_exit=$suite" | tee $wt/_out/verify.result
