#!/bin/bash
# tools/save_seed.sh <id> <prop> "<needs_to_manifest>" "<detected_by comma list>" "<tier note>"  -- copy a confirmed sub-agent change into seeded/<id>
id=$1; prop=$2; needs=$3; det=$4; tier=$5
src=/tmp/mut/$id/_out; dst=/verif/seeded/$id
mkdir -p $dst
for f in patch.diff NOTES.md demo.rs demo.sh demo.py demo_uci.sh games.pgn; do [ -f $src/$f ] && cp $src/$f $dst/; done
[ -d $src/fakechess ] && cp -r $src/fakechess $dst/
conf=$(cat /tmp/mut/$id/_out/verify.result 2>/dev/null)
python3 - "$dst/meta.json" "$prop" "$needs" "$det" "$tier" "$conf" "$id" <<'PY'
import json,sys
out,prop,needs,det,tier,conf,id=sys.argv[1:8]
json.dump({"property":prop,"needs_to_manifest":needs,"origin":"sub-agent (thirteenth round: property text only, nothing from /verif)",
 "confirmed":conf,"detected_by":det.split(","),"detected_in_tier":tier,"how_run":f"tools/seedtest.sh seeded/{id}/patch.diff {det.split(',')[0]}"},open(out,"w"),indent=1)
PY
git -C /repo worktree remove --force /tmp/mut/$id 2>/dev/null; rm -rf /tmp/mut/$id
echo saved $id
