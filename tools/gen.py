"""Seeded generators: start positions, pattern templates, play-outs (through the model), FEN mutants."""
import json
import os
import re

import vlib

FILES = "abcdefgh"


def sq(f, r):
    return 8 * r + f


def fen_of(board, turn="w", castling="-", ep="-", hm=0, fm=1):
    rows = []
    for r in range(7, -1, -1):
        row, run = "", 0
        for f in range(8):
            c = board.get(sq(f, r))
            if c is None:
                run += 1
            else:
                if run:
                    row += str(run)
                    run = 0
                row += c
        if run:
            row += str(run)
        rows.append(row)
    return f"{'/'.join(rows)} {turn} {castling} {ep} {hm} {fm}"


def parse_board(fen):
    b = {}
    rows = fen.split(" ")[0].split("/")
    for i, row in enumerate(rows):
        r, f = 7 - i, 0
        for ch in row:
            if ch.isdigit():
                f += int(ch)
            else:
                b[sq(f, r)] = ch
                f += 1
    return b


def mirror_fen(fen):
    """swap colours and mirror the board top to bottom; the side to move changes with it"""
    parts = fen.split(" ")
    b = parse_board(fen)
    nb = {}
    for s, c in b.items():
        nb[s ^ 56] = c.swapcase()
    turn = "b" if parts[1] == "w" else "w"
    cas = parts[2]
    if cas != "-":
        up = [c for c in cas if c.isupper()]
        lo = [c for c in cas if c.islower()]
        cas = "".join(c.upper() for c in lo) + "".join(c.lower() for c in up)
    ep = parts[3]
    if ep != "-":
        ep = ep[0] + str(9 - int(ep[1]))
    return fen_of(nb, turn, cas, ep, parts[4], parts[5])


def harvest_fens():
    """every FEN-looking literal in the repository's tests and benchmark"""
    out = []
    pat = re.compile(r'"((?:[pnbrqkPNBRQK1-8]+/){7}[pnbrqkPNBRQK1-8]+ [wb] [A-Ha-hKQkq-]+ (?:-|[a-h][36]) \d+ \d+)"')
    for root in ("tests", "src"):
        d = os.path.join(vlib.REPO, root)
        for dp, _, fs in os.walk(d):
            for f in fs:
                if f.endswith(".rs"):
                    out += pat.findall(open(os.path.join(dp, f), errors="replace").read())
    seen, res = set(), []
    for x in out:
        if x not in seen:
            seen.add(x)
            res.append(x)
    return res


def corpus_fens():
    """minimised failing inputs kept from the seeded-change rounds: every FEN quoted in seeded/*/NOTES.md and in the demos.
    They run in every pool-based check (class `corpus`), so a mechanism that was once caught by chance stays caught."""
    import glob
    pat = re.compile(r'((?:[pnbrqkPNBRQK1-8]{1,8}/){7}[pnbrqkPNBRQK1-8]{1,8} [wb] (?:-|[A-Ha-hKQkq]{1,4}) (?:-|[a-h][36]) \d+ \d+)')
    out, seen = [], set()
    for f in sorted(glob.glob(os.path.join(vlib.VERIF, "seeded", "*", "*"))):
        if not os.path.isfile(f) or os.path.getsize(f) > 400000:
            continue
        try:
            txt = open(f, errors="replace").read()
        except OSError:
            continue
        for x in pat.findall(txt):
            if x not in seen:
                seen.add(x)
                out.append(x)
    return out


def scharnagl(n):
    row = [None] * 8
    n, b1 = divmod(n, 4)
    row[[1, 3, 5, 7][b1]] = "b"
    n, b2 = divmod(n, 4)
    row[[0, 2, 4, 6][b2]] = "b"
    n, q = divmod(n, 6)
    free = [i for i in range(8) if row[i] is None]
    row[free[q]] = "q"
    pairs = [(0, 1), (0, 2), (0, 3), (0, 4), (1, 2), (1, 3), (1, 4), (2, 3), (2, 4), (3, 4)][n]
    free = [i for i in range(8) if row[i] is None]
    row[free[pairs[0]]] = "n"
    row[free[pairs[1]]] = "n"
    free = [i for i in range(8) if row[i] is None]
    row[free[0]], row[free[1]], row[free[2]] = "r", "k", "r"
    return "".join(row)


def start960(nw, nb, shredder=False):
    w, b = scharnagl(nw).upper(), scharnagl(nb)
    if shredder:
        wr = [i for i, c in enumerate(w) if c == "R"]
        br = [i for i, c in enumerate(b) if c == "r"]
        cas = FILES[wr[1]].upper() + FILES[wr[0]].upper() + FILES[br[1]] + FILES[br[0]]
    else:
        cas = "KQkq"
    return f"{b}/pppppppp/8/8/8/8/PPPPPPPP/{w} w {cas} - 0 1"


TEMPLATE_FENS = [
    "4k3/8/8/8/8/8/8/rR1K4 w B - 0 1",
    "1r2k3/8/8/8/8/8/8/R3K2R w KQ - 0 1",
    "8/8/8/8/k2Pp2R/8/8/4K3 b - d3 0 1",
    "8/8/8/2k5/3Pp3/8/8/4K3 b - d3 0 1",
    "4k3/8/8/8/8/5n2/8/r3K2R w K - 0 1",
    "1k6/8/8/8/8/8/8/1K1R3R w D - 0 1",
    "k7/8/8/8/7q/8/6PK/6n1 w - - 0 1",
    "r3k2r/p1ppqpb1/bn2pnp1/3PN3/1p2P3/2N2Q1p/PPPBBPPP/R3K2R w KQkq - 0 1",
    "8/2p5/3p4/KP5r/1R3p1k/8/4P1P1/8 w - - 0 1",
    "r3k2r/Pppp1ppp/1b3nbN/nP6/BBP1P3/q4N2/Pp1P2PP/R2Q1RK1 w kq - 0 1",
    "rnbq1k1r/pp1Pbppp/2p5/8/2B5/8/PPP1NnPP/RNBQK2R w KQ - 1 8",
    "r4rk1/1pp1qppp/p1np1n2/2b1p1B1/2B1P1b1/P1NP1N2/1PP1QPPP/R4RK1 w - - 0 10",
    "8/8/1k6/2b5/2pP4/8/5K2/8 b - d3 0 1",
    "8/5k2/8/2Pp4/2B5/1K6/8/8 w - d6 0 1",
    "5k2/8/8/8/8/8/8/4K2R w K - 0 1",
    "r3k2r/8/8/8/8/8/8/2R1K2R b kq - 0 1",
    "2r1k2r/8/8/8/8/8/8/R3K2R w KQk - 0 1",
    "4k3/8/8/8/8/8/8/R3K1r1 w Q - 0 1",
    "4k3/8/8/8/8/8/6r1/R3K2R w KQ - 0 1",
    "4k3/8/8/8/8/8/3r4/R3K2R w KQ - 0 1",
    "n1n5/PPPk4/8/8/8/8/4Kppp/5N1N b - - 0 1",
    "8/8/8/8/8/4k3/4p3/4K3 w - - 0 1",
    "K7/8/8/3Pp3/8/8/8/6bk w - e6 0 1",
    "3k4/8/8/K2pP2r/8/8/8/8 w - d6 0 1",
    "3k4/8/8/8/r2pP2K/8/8/8 b - e3 0 1",
    "4k3/8/8/8/1b6/8/3P4/4K3 w - - 0 1",
    "4k3/8/8/8/8/8/3Pp3/4K3 w - - 0 1",
    "rk2r3/8/8/8/8/8/8/RK2R3 w EAea - 0 1",
    "1rk4r/8/8/8/8/8/8/1RK4R w HBhb - 3 5",
    "r1k1r3/8/8/8/8/8/8/R1K1R3 b EAea - 0 1",
    "6kr/8/8/8/8/8/8/R5KR w HAh - 0 1",
    "4k3/8/8/8/8/8/8/RK5b w A - 0 1",
    "4k3/8/8/8/8/8/8/R4K1R w HA - 0 1",
    "4k3/8/8/8/8/8/8/bRK5 w B - 0 1",
    "4k3/8/8/8/8/8/8/qRK5 w B - 0 1",
    "4k3/8/8/8/8/8/8/1RK4q w B - 0 1",
]


# positions at the limits: most legal moves known (218, 216), many promoted men, crowded boards
EXTREME_FENS = [
    "R6R/3Q4/1Q4Q1/4Q3/2Q4Q/Q4Q2/pp1Q4/kBNN1KB1 w - - 0 1",
    "3Q4/1Q4Q1/4Q3/2Q4R/Q4Q2/3Q4/NR4Q1/kN1BB1K1 w - - 0 1",
    "Kbnn1kb1/PP1q4/q4q2/2q4q/4q3/1q4q1/3q4/r6r b - - 0 1",
    "rnbqkbnr/pppppppp/8/8/8/8/PPPPPPPP/RNBQKBNR w KQkq - 0 1",
    "r3k2r/p1ppqpb1/bn2pnp1/3PN3/1p2P3/2N2Q1p/PPPBBPPP/R3K2R w KQkq - 0 1",
    "4k3/8/8/8/8/8/8/4K3 w - - 0 1",
]


def template_many_queens(rng):
    """up to nine queens (or rooks / knights) for one side: long move lists"""
    b = {}
    heavy = rng.choice("QQQRN")
    n = rng.randrange(5, 10)
    sqs = rng.sample(range(64), n + 2)
    for s0 in sqs[:n]:
        b[s0] = heavy
    b[sqs[n]] = "K"
    free = [q for q in range(64) if q not in b and max(abs(q % 8 - sqs[n] % 8), abs(q // 8 - sqs[n] // 8)) > 1]
    b[rng.choice(free)] = "k"
    b = rand_extra(rng, b, rng.randrange(0, 5), allow_pawns=False)
    return fen_of(b, "w")


def rand_extra(rng, board, n, allow_pawns=True):
    """add up to n random men (never kings) on free squares"""
    b = dict(board)
    kinds = "PNBRQpnbrq" if allow_pawns else "NBRQnbrq"
    for _ in range(n):
        s = rng.randrange(64)
        if s in b:
            continue
        c = rng.choice(kinds)
        if c in "Pp" and (s // 8 in (0, 7)):
            continue
        b[s] = c
    return b


def on(f, r):
    return 0 <= f < 8 and 0 <= r < 8


def template_pin(rng):
    kf, kr = rng.randrange(8), rng.randrange(8)
    d = rng.choice([(1, 1), (-1, 1), (1, -1), (-1, -1), (0, 1), (0, -1), (1, 0), (-1, 0)])
    line = []
    f, r = kf + d[0], kr + d[1]
    while on(f, r):
        line.append((f, r))
        f, r = f + d[0], r + d[1]
    if len(line) < 2:
        return None
    a = rng.randrange(len(line) - 1)
    bpos = rng.randrange(a + 1, len(line))
    diag = d[0] != 0 and d[1] != 0
    b = {sq(kf, kr): "K"}
    pk = rng.choice("PNBRQ")
    pf, pr = line[a]
    if pk == "P" and pr in (0, 7):
        pk = "N"
    b[sq(pf, pr)] = pk
    b[sq(*line[bpos])] = rng.choice("bq") if diag else rng.choice("rq")
    free = [s for s in range(64) if s not in b and max(abs(s % 8 - kf), abs(s // 8 - kr)) > 1]
    b[rng.choice(free)] = "k"
    b = rand_extra(rng, b, rng.randrange(0, 7))
    return fen_of(b, "w")


def template_multipin(rng):
    """two to four of our men pinned at once on different rays of an advanced king (any mix of diagonals, files and ranks)"""
    kf, kr = rng.randrange(1, 7), rng.randrange(1, 7)
    dirs = [(1, 1), (-1, 1), (1, -1), (-1, -1), (0, 1), (0, -1), (1, 0), (-1, 0)]
    rng.shuffle(dirs)
    b = {sq(kf, kr): "K"}
    pins = 0
    for d in dirs[: rng.choice([2, 2, 3, 4])]:
        line = []
        f, r = kf + d[0], kr + d[1]
        while on(f, r):
            line.append((f, r))
            f, r = f + d[0], r + d[1]
        if len(line) < 2 or any(sq(*x) in b for x in line):
            continue
        a = rng.randrange(len(line) - 1)
        bpos = rng.randrange(a + 1, len(line))
        diag = d[0] != 0 and d[1] != 0
        pk = rng.choice("PNBRQ")
        if pk == "P" and line[a][1] in (0, 7):
            pk = "N"
        b[sq(*line[a])] = pk
        b[sq(*line[bpos])] = rng.choice("bq") if diag else rng.choice("rq")
        pins += 1
    if pins < 2:
        return None
    free = [s for s in range(64) if s not in b and max(abs(s % 8 - kf), abs(s // 8 - kr)) > 1]
    b[rng.choice(free)] = "k"
    b = rand_extra(rng, b, rng.randrange(0, 4))
    return fen_of(b, "w")


def template_pawnwedge(rng):
    """advanced pawn chains facing blockers: one capture changes several pawns from blocked to passed (large positional swings)"""
    b = {}
    base = rng.randrange(0, 6)
    rank = rng.choice([4, 5, 5])
    n = rng.choice([2, 3, 3])
    for i in range(n):
        if base + i < 8:
            b[sq(base + i, rank)] = "P"
    for i in range(rng.choice([1, 1, 2])):
        f = base + rng.randrange(0, n)
        if f < 8 and sq(f, rank + 1) not in b:
            b[sq(f, rank + 1)] = "p"
    if not any(v == "p" for v in b.values()):
        return None
    free = [s for s in range(0, 16) if s not in b]
    b[rng.choice(free)] = "K"
    free = [s for s in range(48, 64) if s not in b and all(abs(s % 8 - k % 8) > 1 or abs(s // 8 - k // 8) > 1 for k, v in b.items() if v == "P")]
    if not free:
        return None
    b[rng.choice(free)] = "k"
    if rng.random() < 0.4:
        b = rand_extra(rng, b, rng.randrange(1, 3), allow_pawns=False)
    return fen_of(b, rng.choice("wb"))


def template_check(rng):
    kf, kr = rng.randrange(8), rng.randrange(8)
    b = {sq(kf, kr): "K"}
    for _ in range(rng.choice([1, 1, 2])):
        kind = rng.choice("pnbrq")
        if kind == "n":
            df, dr = rng.choice([(1, 2), (-1, 2), (2, 1), (2, -1), (-2, 1), (-2, -1), (1, -2), (-1, -2)])
            t = (kf + df, kr + dr)
        elif kind == "p":
            t = (kf + rng.choice([-1, 1]), kr + 1)
        else:
            dirs = [(1, 1), (-1, 1), (1, -1), (-1, -1)] if kind == "b" else [(0, 1), (0, -1), (1, 0), (-1, 0)] if kind == "r" else \
                [(1, 1), (-1, 1), (1, -1), (-1, -1), (0, 1), (0, -1), (1, 0), (-1, 0)]
            d = rng.choice(dirs)
            k = rng.randrange(1, 8)
            t = (kf + d[0] * k, kr + d[1] * k)
        if on(*t) and sq(*t) not in b and not (kind == "p" and t[1] in (0, 7)):
            b[sq(*t)] = kind
    free = [s for s in range(64) if s not in b and max(abs(s % 8 - kf), abs(s // 8 - kr)) > 1]
    b[rng.choice(free)] = "k"
    b = rand_extra(rng, b, rng.randrange(0, 8))
    return fen_of(b, "w")


def template_ep(rng):
    f = rng.randrange(8)
    df = rng.choice([-1, 1])
    if not on(f + df, 4):
        df = -df
    b = {sq(f, 4): "P", sq(f + df, 4): "p"}
    # king placement favours the 5th rank and the diagonals through the pawns
    choice = rng.random()
    if choice < 0.4:
        ks = sq(rng.randrange(8), 4)
    elif choice < 0.7:
        k = rng.randrange(1, 5)
        ks = sq(f - k * rng.choice([-1, 1]), 4 - k) if on(f - k, 4 - k) or on(f + k, 4 - k) else rng.randrange(64)
    else:
        ks = rng.randrange(64)
    if not (0 <= ks < 64) or ks in b:
        return None
    b[ks] = "K"
    for _ in range(rng.randrange(0, 4)):
        s = sq(rng.randrange(8), 4) if rng.random() < 0.6 else rng.randrange(64)
        if s not in b and s not in (sq(f + df, 5), sq(f + df, 6)):
            b[s] = rng.choice("rqbrq")
    free = [s for s in range(64) if s not in b and s not in (sq(f + df, 5), sq(f + df, 6))
            and max(abs(s % 8 - ks % 8), abs(s // 8 - ks // 8)) > 1]
    b[rng.choice(free)] = "k"
    b2 = rand_extra(rng, b, rng.randrange(0, 5))
    for s in (sq(f + df, 5), sq(f + df, 6)):
        b2.pop(s, None)
    return fen_of(b2, "w", "-", FILES[f + df] + "6")


def template_ep_pin(rng):
    """en passant with the CAPTURING pawn pinned: on its file (king and an enemy rook/queen on the capturer's file: the capture is
    illegal), on the capture diagonal (legal) or on the other diagonal (illegal); the victim's file kept clear of accidental checks"""
    f = rng.randrange(8)
    df = rng.choice([-1, 1])
    if not on(f + df, 4):
        df = -df
    b = {sq(f, 4): "P", sq(f + df, 4): "p"}
    kind = rng.choice(["file", "file", "diag_cap", "diag_other"])
    if kind == "file":
        dirs = [(0, 1), (0, -1)]
    elif kind == "diag_cap":
        dirs = [(df, 1), (-df, -1)]
    else:
        dirs = [(-df, 1), (df, -1)]
    kd = rng.choice(dirs)
    # king on one side of the pawn along the line, enemy slider on the other, nothing between
    kk = rng.randrange(1, 5)
    kf, kr = f + kd[0] * kk, 4 + kd[1] * kk
    if not on(kf, kr):
        return None
    ss = rng.randrange(1, 5)
    sf, sr = f - kd[0] * ss, 4 - kd[1] * ss
    if not on(sf, sr):
        return None
    line = [sq(f + kd[0] * i, 4 + kd[1] * i) for i in range(1, kk)] + [sq(f - kd[0] * i, 4 - kd[1] * i) for i in range(1, ss)]
    ep_sq, origin = sq(f + df, 5), sq(f + df, 6)
    if sq(kf, kr) in b or sq(sf, sr) in b or sq(kf, kr) in (ep_sq, origin) or sq(sf, sr) in (ep_sq, origin):
        return None
    if ep_sq in line or origin in line:
        return None
    b[sq(kf, kr)] = "K"
    b[sq(sf, sr)] = rng.choice("rq") if kind == "file" else rng.choice("bq")
    free = [s for s in range(64) if s not in b and s not in (ep_sq, origin) and s not in line
            and max(abs(s % 8 - kf), abs(s // 8 - kr)) > 1]
    if not free:
        return None
    b[rng.choice(free)] = "k"
    b2 = rand_extra(rng, b, rng.randrange(0, 3))
    for s in [ep_sq, origin] + line:
        b2.pop(s, None)
    return fen_of(b2, "w", "-", FILES[f + df] + "6")


def template_castle(rng):
    kf = rng.randrange(1, 7)
    b = {sq(kf, 0): "K"}
    cas = ""
    if rng.random() < 0.8:
        rf = rng.randrange(kf + 1, 8)
        b[sq(rf, 0)] = "R"
        cas += FILES[rf].upper()
        if rng.random() < 0.3 and rf < 7:
            b[sq(rng.randrange(rf + 1, 8), 0)] = "R"       # an outer rook without the right
    if rng.random() < 0.8:
        rf = rng.randrange(0, kf)
        b[sq(rf, 0)] = "R"
        cas += FILES[rf].upper()
        if rng.random() < 0.3 and rf > 0:
            b[sq(rng.randrange(0, rf), 0)] = "R"
    if not cas:
        return None
    if rng.random() < 0.35:
        # an enemy rook or queen on the home rank outside a castling rook
        s = sq(rng.choice([0, 7]), 0)
        if s not in b:
            b[s] = rng.choice("rrq")
    for _ in range(rng.randrange(0, 3)):
        s = sq(rng.randrange(8), 0)
        if s not in b:
            b[s] = rng.choice("NBnbrq")
    for _ in range(rng.randrange(0, 5)):
        s = rng.randrange(8, 64)
        if s not in b:
            b[s] = rng.choice("rqbnp" if s // 8 not in (0, 7) else "rqbn")
    free = [s for s in range(32, 64) if s not in b]
    b[rng.choice(free)] = "k"
    b = rand_extra(rng, b, rng.randrange(0, 4))
    return fen_of(b, "w", cas)


def template_promo(rng):
    f = rng.randrange(8)
    b = {sq(f, 6): "P"}
    for df in (-1, 0, 1):
        if on(f + df, 7) and rng.random() < 0.6:
            b[sq(f + df, 7)] = rng.choice("nbrq")
    free = [s for s in range(64) if s not in b]
    ks = rng.choice(free)
    b[ks] = "K"
    free = [s for s in range(64) if s not in b and max(abs(s % 8 - ks % 8), abs(s // 8 - ks // 8)) > 1]
    b[rng.choice(free)] = "k"
    b = rand_extra(rng, b, rng.randrange(0, 7))
    return fen_of(b, "w")


def template_promo_castle(rng):
    """a pawn on the seventh that can take the opponent's castling rook (promotion-capture on a rook home square)"""
    kf = rng.randrange(1, 7)
    b = {sq(kf, 7): "k"}
    cas = ""
    rooks = []
    if rng.random() < 0.8:
        rf = rng.randrange(kf + 1, 8)
        b[sq(rf, 7)] = "r"
        rooks.append(rf)
        cas += FILES[rf] if rng.random() < 0.5 or rf != 7 else "k"
    if rng.random() < 0.7:
        rf = rng.randrange(0, kf)
        b[sq(rf, 7)] = "r"
        rooks.append(rf)
        cas += FILES[rf] if rng.random() < 0.5 or rf != 0 else "q"
    if not rooks:
        return None
    for rf in rooks:
        for df in (-1, 1):
            if on(rf + df, 6) and rng.random() < 0.7 and sq(rf + df, 6) not in b:
                b[sq(rf + df, 6)] = "P"
    if not any(v == "P" for v in b.values()):
        return None
    free = [s for s in range(0, 40) if s not in b]
    b[rng.choice(free)] = "K"
    b = rand_extra(rng, b, rng.randrange(0, 4))
    return fen_of(b, "w", cas)


def template_kxr(rng):
    """king that still holds castling rights next to an enemy man it may capture (or not)"""
    kf = rng.randrange(1, 7)
    b = {sq(kf, 0): "K"}
    cas = ""
    if rng.random() < 0.8:
        rf = rng.randrange(kf + 1, 8)
        b[sq(rf, 0)] = "R"
        cas += FILES[rf].upper() if rng.random() < 0.5 or rf != 7 else "K"
    if rng.random() < 0.6:
        rf = rng.randrange(0, kf)
        if sq(rf, 0) not in b:
            b[sq(rf, 0)] = "R"
            cas += FILES[rf].upper() if rng.random() < 0.5 or rf != 0 else "Q"
    if not cas:
        return None
    for _ in range(rng.randrange(1, 3)):
        df, dr = rng.choice([(1, 0), (-1, 0), (1, 1), (0, 1), (-1, 1)])
        t = sq(kf + df, dr)
        if on(kf + df, dr) and t not in b:
            b[t] = rng.choice("rrrqbnp" if dr == 1 else "rrrqbn")
    free = [s for s in range(24, 64) if s not in b]
    b[rng.choice(free)] = "k"
    b = rand_extra(rng, b, rng.randrange(0, 4))
    return fen_of(b, "w", cas)


def template_kxhome(rng):
    """king WITHOUT the corresponding castling right next to an enemy man standing on a home-rank square -- the corner squares and,
    with a leftover right on the other wing, Chess960 rook files -- which it may capture (eighth seed round: the castling
    rook's home square is remembered in castle_files after the right is gone, so 'king moves onto that square' must not be read as castling)"""
    kf = rng.randrange(0, 8)
    kr = rng.choice([0, 0, 1])
    b = {sq(kf, kr): "K"}
    cas = ""
    cands = [(kf + df, 0) for df in (-1, 0, 1) if on(kf + df, 0) and (kf + df, 0) != (kf, kr)]
    corner = [c for c in cands if c[0] in (0, 7)]
    tf, tr = rng.choice(corner) if corner and rng.random() < 0.7 else rng.choice(cands)
    b[sq(tf, tr)] = rng.choice("nbrq")
    if kr == 0 and rng.random() < 0.4:        # a right on the other wing survives
        if tf > kf and kf > 0:
            rf = rng.randrange(0, kf)
            if sq(rf, 0) not in b:
                b[sq(rf, 0)] = "R"
                cas = FILES[rf].upper() if rng.random() < 0.5 or rf != 0 else "Q"
        elif tf < kf and kf < 7:
            rf = rng.randrange(kf + 1, 8)
            if sq(rf, 0) not in b:
                b[sq(rf, 0)] = "R"
                cas = FILES[rf].upper() if rng.random() < 0.5 or rf != 7 else "K"
    free = [s for s in range(24, 64) if s not in b]
    b[rng.choice(free)] = "k"
    b = rand_extra(rng, b, rng.randrange(0, 3))
    return fen_of(b, "w", cas or "-", hm=rng.randrange(0, 40), fm=rng.randrange(1, 60))


ENDGAME_SIDES = ["", "B", "N", "R", "Q", "BB", "BN", "NN", "RB", "RN", "RR", "QR", "QB", "QN", "QQ", "BBN", "RBN"]


def template_endgame(rng):
    """sparse material: every pairing of small material signatures (bishop pairs of equal / opposite colours, lone minors, ...) with 0..4 pawns a side"""
    w, bl = rng.choice(ENDGAME_SIDES), rng.choice(ENDGAME_SIDES)
    if rng.random() < 0.35:
        w, bl = "B", "B"            # one bishop each: same- and opposite-coloured
    b = {}
    free = list(range(64))
    rng.shuffle(free)
    b[free.pop()] = "K"
    b[free.pop()] = "k"
    for ch in w:
        b[free.pop()] = ch
    for ch in bl:
        b[free.pop()] = ch.lower()
    pf = [x for x in free if 8 <= x < 56]
    for ch, n in (("P", rng.randrange(0, 5)), ("p", rng.randrange(0, 5))):
        for _ in range(n):
            b[pf.pop()] = ch
    return fen_of(b, rng.choice("wb"), "-", "-", rng.choice([0, 0, 3, 40]), rng.randrange(1, 80))


def template_longray(rng):
    """a slider at the far end of a whole file, rank or long diagonal from our king (distance 6 or 7): as a check (line empty),
    as a pin at maximal range (one man of ours between) or screened by one enemy man -- sixth seed round: ray_s lost its last step"""
    kind = rng.choice(["file", "file", "rank", "rank", "diag", "anti"])
    far = rng.choice([7, 7, 7, 6])
    if kind == "file":
        f = rng.randrange(8)
        up = rng.random() < 0.5
        k = (f, 0 if up else 7)
        d = (0, 1 if up else -1)
    elif kind == "rank":
        r = rng.randrange(8)
        right = rng.random() < 0.5
        k = (0 if right else 7, r)
        d = (1 if right else -1, 0)
    elif kind == "diag":
        up = rng.random() < 0.5
        k = (0, 0) if up else (7, 7)
        d = (1, 1) if up else (-1, -1)
    else:
        up = rng.random() < 0.5
        k = (7, 0) if up else (0, 7)
        d = (-1, 1) if up else (1, -1)
    t = (k[0] + d[0] * far, k[1] + d[1] * far)
    if not on(*t):
        return None
    diag = d[0] != 0 and d[1] != 0
    b = {sq(*k): "K", sq(*t): rng.choice("bq") if diag else rng.choice("rq")}
    mode = rng.choice(["check", "check", "pin", "pin", "screen"])
    if mode != "check":
        j = rng.randrange(1, far)
        m = (k[0] + d[0] * j, k[1] + d[1] * j)
        pk = rng.choice("NBRQP") if mode == "pin" else rng.choice("nbrp")
        if pk in "Pp" and m[1] in (0, 7):
            pk = "N" if pk == "P" else "n"
        b[sq(*m)] = pk
    line = {sq(k[0] + d[0] * j, k[1] + d[1] * j) for j in range(1, far + 1)}
    free = [s for s in range(64) if s not in b and s not in line and max(abs(s % 8 - k[0]), abs(s // 8 - k[1])) > 1]
    b[rng.choice(free)] = "k"
    # a few more men, none of them on the line
    for _ in range(rng.randrange(0, 6)):
        s_ = rng.choice(free)
        if s_ in b:
            continue
        pc = rng.choice("NBRQPnbrqp")
        if pc in "Pp" and s_ // 8 in (0, 7):
            continue
        b[s_] = pc
    return fen_of(b, "w")


def template_edgewrap(rng):
    """an enemy pawn, knight or king on (or next to) one edge file and our king on (or next to) the opposite edge file, a rank or two
    apart: a leaper attack that wraps round the board edge shows as a missing or an extra king move (seventh seed round: one bad
    file mask made a pawn on h7 attack a7)"""
    side = rng.choice([0, 7])
    kind = rng.choice("ppppnnk")
    tf = side if kind != "n" or rng.random() < 0.5 else (1 if side == 0 else 6)
    tr = rng.randrange(1, 7) if kind == "p" else rng.randrange(8)
    other = 7 - side
    kf = rng.choice([other, other, 1 if other == 0 else 6])
    kr = tr + rng.choice([-2, -1, -1, 0, 0, 1, 1, 2])
    if not on(kf, kr):
        return None
    b = {sq(kf, kr): "K", sq(tf, tr): kind}
    if kind != "k":
        free = [s_ for s_ in range(64) if s_ not in b and max(abs(s_ % 8 - kf), abs(s_ // 8 - kr)) > 1]
        b[rng.choice(free)] = "k"
    elif max(abs(tf - kf), abs(tr - kr)) <= 1:
        return None
    for _ in range(rng.randrange(0, 4)):
        s_ = rng.randrange(64)
        if s_ in b:
            continue
        pc = rng.choice("NBRPnbrp")
        if pc in "Pp" and s_ // 8 in (0, 7):
            continue
        b[s_] = pc
    return fen_of(b, "w")


TEMPLATES = [("endgame", template_endgame), ("promo-castle", template_promo_castle), ("many", template_many_queens), ("kxr", template_kxr), ("kxhome", template_kxhome), ("pin", template_pin), ("multipin", template_multipin), ("pawnwedge", template_pawnwedge), ("check", template_check), ("ep", template_ep), ("ep-pin", template_ep_pin),
             ("castle960", template_castle), ("promo", template_promo), ("longray", template_longray), ("edgewrap", template_edgewrap)]


def template_positions(rng, n):
    """n candidate FENs per family (both colours), to be filtered by the model's in_D"""
    out = []
    for name, fn in TEMPLATES:
        k = 0
        tries = 0
        while k < n and tries < 20 * n:
            tries += 1
            fen = fn(rng)
            if fen is None:
                continue
            if rng.random() < 0.5:
                fen = mirror_fen(fen)
            out.append((name, fen))
            k += 1
    return out


def build_pool(run, n_playouts, plies, n_templates, tag):
    """positions of D with their provenance class; cached per (seed, sizes, model stamp)"""
    import hashlib
    stamp = open(os.path.join(vlib.BUILD, "modelrun.stamp")).read()[:16]
    stamp = hashlib.sha256((stamp + open(os.path.abspath(__file__)).read()).encode()).hexdigest()[:16]     # generator changes rebuild the pool
    cache = os.path.join(vlib.BUILD, f"pool_{tag}_{run.seed}_{n_playouts}_{plies}_{n_templates}_{stamp}.json")
    if os.path.exists(cache):
        return json.load(open(cache))
    import random
    rng = random.Random(run.seed * 7919 + 17)
    seeds = [("startpos", "rnbqkbnr/pppppppp/8/8/8/8/PPPPPPPP/RNBQKBNR w KQkq - 0 1")]
    seeds += [("suite", f) for f in harvest_fens()]
    seeds += [("template", f) for f in TEMPLATE_FENS] + [("template", mirror_fen(f)) for f in TEMPLATE_FENS]
    seeds += [("extreme", f) for f in EXTREME_FENS]
    cf = corpus_fens()
    seeds += [("corpus", f) for f in cf] + [("corpus", mirror_fen(f)) for f in cf]
    for _ in range(max(8, n_playouts // 6)):
        n = rng.randrange(960)
        seeds.append(("c960", start960(n, n, shredder=rng.random() < 0.5)))
    for _ in range(max(4, n_playouts // 12)):
        seeds.append(("dfrc", start960(rng.randrange(960), rng.randrange(960), shredder=rng.random() < 0.5)))
    cands = template_positions(rng, n_templates)
    # filter everything through the model's in_D
    allc = seeds + cands
    flags = vlib.run_model_par([f"inD\t{f}" for _, f in allc])
    good = [(c, f) for (c, f), fl in zip(allc, flags) if fl == "1"]
    starts = [x for x in good]
    # play-outs from random good starts
    reqs = []
    chosen = []
    for i in range(n_playouts):
        c, f = rng.choice(starts)
        chosen.append((c, f))
        reqs.append(f"playout\t{rng.randrange(1 << 30)}\t{rng.randrange(4, plies)}\t{rng.choice([0, 0, 5, 15])}\t{f}")
    lines = vlib.run_model_par(reqs)
    fens_req = [f"fens\t{f}\t{mv}" for (c, f), mv in zip(chosen, lines)]
    fl = vlib.run_model_par(fens_req)
    pool, seen = [], set()
    for c, f in good:
        if f not in seen:
            seen.add(f)
            pool.append({"cls": c, "fen": f})
    games = []
    for (c, f), mv, fs in zip(chosen, lines, fl):
        games.append({"cls": c, "start": f, "moves": mv})
        for x in fs.split("|")[1:]:
            if x not in seen and x != "PANIC":
                seen.add(x)
                pool.append({"cls": "playout-" + c, "fen": x})
    res = {"pool": pool, "games": games}
    import glob
    for old in glob.glob(os.path.join(vlib.BUILD, f"pool_{tag}_{run.seed}_{n_playouts}_{plies}_{n_templates}_*.json")):
        os.remove(old)
    json.dump(res, open(cache, "w"))
    return res


# ------------------------------------------------------------------ FEN strings (C07)
def fen_mutants(rng, fens, n):
    out = []
    alphabet = "pnbrqkPNBRQK12345678/ wb-KQkqABCDEFGHabcdefgh0123456789+-"
    for _ in range(n):
        f = rng.choice(fens)
        kind = rng.randrange(12)
        s = list(f)
        if kind == 0 and s:
            del s[rng.randrange(len(s)):]
        elif kind == 1 and s:
            s[rng.randrange(len(s))] = rng.choice(alphabet)
        elif kind == 2 and s:
            s.insert(rng.randrange(len(s)), rng.choice(alphabet))
        elif kind == 3 and s:
            del s[rng.randrange(len(s))]
        elif kind == 4:
            parts = f.split(" ")
            i, j = rng.randrange(len(parts)), rng.randrange(len(parts))
            parts[i], parts[j] = parts[j], parts[i]
            s = list(" ".join(parts))
        elif kind == 5:
            parts = f.split(" ")
            parts[0] = parts[0] + rng.choice(["/", "8", "8" * 32, "/8", "1", "P", "8" * 24])
            s = list(" ".join(parts))
        elif kind == 6:
            parts = f.split(" ")
            parts[3] = rng.choice(["a6", "h3", "e9", "i6", "aV", "eV", "e6", "d3", "é", "eé", "`6", "a0", "a~", "dN"])
            s = list(" ".join(parts))
        elif kind == 7:
            parts = f.split(" ")
            parts[rng.choice([4, 5])] = rng.choice(["+0", "-0", "-1", "2147483647", "2147483648", "99999999999", "", "1e3", "0x10", "+", "-", " 5", "007"])
            s = list(" ".join(parts))
        elif kind == 8:
            parts = f.split(" ")
            parts[2] = rng.choice(["KQkqK", "AHah", "HAha", "KA", "-K", "K-", "--", "Kk", "kK", "Z", "HhAa", "BGbg", "", "KQkq-", "EFef", "DdCc"])
            s = list(" ".join(parts))
        elif kind == 9:
            s = list(f.replace(" ", "  ", 1))
        elif kind == 10:
            parts = f.split(" ")
            parts[1] = rng.choice(["W", "B", "x", "", "ww"])
            s = list(" ".join(parts))
        else:
            s = list(f + rng.choice([" ", " x", "\t", " 1"]))
        out.append("".join(s))
    return out
