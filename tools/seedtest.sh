#!/bin/bash
# tools/seedtest.sh <patch.diff> <prop> [<prop> ...]  -- apply a seeded change to /repo, run the quick checks, undo
patch="$1"; shift
cd /repo || exit 2
if ! git diff --quiet; then echo "/repo is dirty"; exit 2; fi
git apply "$patch" || { echo "patch does not apply"; exit 2; }
for p in "$@"; do
  out=$(cd /verif && timeout 1500 ./check "$p" --tier quick 2>&1 | grep -E "^(OK|VIOLATION|KNOWN-FINDING|CHECK-INFRA)" | tr '\n' ' ')
  echo "$p: $out"
done
git -C /repo checkout -- .
