#!/bin/bash
# tools/seed_regress.sh [ids...] -- replay every kept seeded change against the first check named in its meta.json
cd /verif || exit 2
ids="$@"; [ -z "$ids" ] && ids=$(ls seeded)
for id in $ids; do
  prop=$(python3 -c "import json;print(json.load(open('seeded/$id/meta.json'))['detected_by'][0].split()[0].rstrip(','))")
  echo -n "$id -> "; tools/seedtest.sh /verif/seeded/$id/patch.diff $prop
done
