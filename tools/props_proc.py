"""Process-level checks on the real binary (both builds): C15 C16."""
import re
import subprocess

import vlib
from vlib import kv
import gen as G
from props import pool_for
from props_io import std_geometry


def run_engine(binp, lines, timeout=30):
    inp = "uci\n" + "\n".join(lines) + ("\n" if lines else "")
    try:
        r = subprocess.run([binp], input=inp, stdout=subprocess.PIPE, stderr=subprocess.PIPE, text=True, timeout=timeout)
        return r.stdout, r.stderr, r.returncode, False
    except subprocess.TimeoutExpired as ex:
        return (ex.stdout or b"").decode() if isinstance(ex.stdout, bytes) else (ex.stdout or ""), "", None, True


def norm(out):
    res = []
    for ln in out.split("\n"):
        if ln.startswith("id name") or ln == "":
            continue
        if ln.startswith("nps ") or ln.startswith("time "):
            continue
        ln = re.sub(r" time \d+", "", ln)
        ln = re.sub(r" nps \d+", "", ln)
        res.append(ln)
    return res


def first_moves(fens, frc):
    outs = vlib.run_model_par([f"ucispec\t{frc}\t{f}" for f in fens])
    res = []
    for o in outs:
        res.append([it.split(":")[1] for it in o.split(",")] if o and not o.startswith("ERROR") else [])
    return res


def gen_script(rng, pool, legal_cache, timed, long=True):
    lines = []
    frc = False
    n = rng.randrange(3, 14 if long else 7)
    # optional pre-isready phase
    if rng.random() < 0.5:
        for _ in range(rng.randrange(0, 3)):
            lines.append(rng.choice(["setoption name Hash value 1", "setoption name Hash value 2", "setoption name UCI_Chess960 value true",
                                     "setoption name Hash value 0", "setoption name Hash value 64", "setoption name Foo value bar",
                                     "setoption name Hash", "setoption"]))
            if "Chess960 value true" in lines[-1]:
                frc = True
        if rng.random() < 0.8:
            lines.append("isready")
    searches = 0
    for _ in range(n):
        r = rng.random()
        if r < 0.22:
            e = rng.choice(pool)
            fen = e["fen"]
            if not frc and not std_geometry(fen):
                fen = "rnbqkbnr/pppppppp/8/8/8/8/PPPPPPPP/RNBQKBNR w KQkq - 0 1"
            mv = []
            for _k in range(rng.randrange(0, 3)):
                cands = legal_cache.get((fen, frc), [])
                mv.append(rng.choice(cands) if cands and rng.random() < 0.6 and not mv else rng.choice(["e2e4", "e1g1", "e8g8", "zz", "a7a8q", "0000", "e1c1", "h2h3"]))
            start = "startpos" if fen.startswith("rnbqkbnr/pppppppp/8/8/8/8/PPPPPPPP/RNBQKBNR w KQkq - 0 1") and rng.random() < 0.6 else "fen " + fen
            lines.append("position " + start + (" moves " + " ".join(mv) if mv else ""))
        elif r < 0.30:
            lines.append("moves " + " ".join(rng.choice(["e2e4", "e7e5", "g1f3", "e1g1", "e8g8", "xx", "d2d4", "b8c6", "e1c1", "e8c8"]) for _ in range(rng.randrange(1, 4))))
        elif r < 0.55:
            k = rng.random()
            if timed and k < 0.5:
                lines.append(rng.choice(["go movetime 0", "go movetime 1", "go movetime 30", "go wtime 0 btime 0", "go wtime 100 btime 100",
                                         "go wtime 60 btime 60 winc 5 binc 5", "go wtime 200 btime 200 movestogo 0", "go wtime 200 btime 200 movestogo 1",
                                         "go wtime 300 btime 300 winc 0 binc 0 movestogo 40", "go btime 50 wtime 50",
                                         # values at the edge of the argument types (u32): tiny budgets, never long searches
                                         "go wtime 200 btime 200 movestogo 4294967295", "go wtime 200 btime 200 movestogo 4294967294",
                                         "go wtime 60000 btime 60000 winc 0 binc 0 movestogo 4294967295",
                                         "go wtime 4294967295 btime 4294967295 movestogo 4294967295",
                                         "go wtime 100 btime 100 winc 4294967295 binc 4294967295 movestogo 4294967295",
                                         "go wtime 100 btime 100 movestogo 4294967296", "go wtime 0 btime 0 movestogo 2147483648",
                                         "go wtime 4294967296 btime 100", "go movetime 4294967296", "go wtime 1 btime 1 winc 65536 binc 65536 movestogo 65536"]))
                searches += 1
            elif k < 0.75:
                lines.append(rng.choice(["go depth 0", "go depth 1", "go depth 2", "go depth 3", "go nodes 0", "go nodes 1", "go nodes 200", "go nodes 3000",
                                         "go depth 2", "go depth +2"]))
                searches += 1
            else:
                lines.append(rng.choice(["go perft 0", "go perft 1", "go perft 2", "go split 0", "go split 1", "go split 2", "go perft 3", "go",
                                         "go depth 2 nodes 100", "go wtime 100", "go perft 255x", "go perft 256", "go split 256", "go depth 2147483648",
                                         "go nodes 18446744073709551616", "go depth -1", "go nodes -1"]))
        elif r < 0.62:
            lines.append("isready")
        elif r < 0.68:
            lines.append("ucinewgame")
        elif r < 0.80:
            lines.append(rng.choice(["print", "display", "board", "history", "eval"]))
        elif r < 0.90:
            lines.append(rng.choice(["setoption name Hash value 1", "setoption name Hash value 3", "setoption name hash value 2",
                                     "setoption name UCI_Chess960 value true", "setoption name UCI_Chess960 value false",
                                     "setoption name Hash value abc", "setoption name Hash value 0"]))
            if "Chess960 value true" in lines[-1]:
                frc = True
            if "Chess960 value false" in lines[-1]:
                frc = False
        else:
            lines.append(rng.choice(["", "foo", "stop", "ponderhit", "   ", "uci", "debug on", "  isready  "]))
    if rng.random() < 0.6:
        lines.append("quit")
    return lines


def expected_counts(lines):
    """number of readyok / bestmove lines a correct engine prints (independent of the model)"""
    ready = 0
    best = 0
    phase1 = True
    for ln in lines:
        t = ln.split()
        c = t[0] if t else ""
        if phase1:
            if c == "isready":
                ready += 1
                phase1 = False
                continue
            if c == "setoption":
                continue
            if c == "quit":
                return ready, best
            phase1 = False
        if c == "quit":
            break
        if c == "isready":
            ready += 1
        if c == "go":
            args = t[1:]
            names = args[0::2]
            vals = args[1::2] + [""] * (len(names) - len(args[1::2]))
            ok = all(n in ("wtime", "btime", "winc", "binc", "movestogo", "depth", "nodes", "movetime", "infinite", "perft", "split") for n in names)
            if not ok:
                continue
            d = dict(zip(names, vals))
            limit = {"depth": (-(1 << 31), (1 << 31) - 1), "nodes": (0, (1 << 64) - 1), "perft": (0, 255), "split": (0, 255)}

            def num(v, k="wtime"):
                if re.fullmatch(r"[+-]?\d+", v or "") is None:
                    return False
                lo, hi = limit.get(k, (0, (1 << 32) - 1))
                return lo <= int(v) <= hi and not (v.startswith("-") and lo == 0 and int(v) == 0 and False)
            kinds = [k for k in ("depth", "nodes", "movetime", "infinite", "perft", "split") if k in d and (k == "infinite" or num(d[k], k))]
            tm = "wtime" in d and "btime" in d and num(d["wtime"]) and num(d["btime"])
            if ("wtime" in d and num(d["wtime"])) != ("btime" in d and num(d["btime"])):
                continue
            if tm and not kinds:
                best += 1
            elif not tm and not ("wtime" in d or "btime" in d) and len(kinds) == 1 and kinds[0] in ("depth", "nodes", "movetime"):
                best += 1
    return ready, best


def check_C15(run):
    rng = run.rng
    th = run.tier == "thorough"
    P = pool_for(run)
    pool = [e for e in P["pool"] if sum(ch.isalpha() for ch in e["fen"].split(" ")[0]) <= 14] + P["pool"][:30]
    run.cov["rule"] = ("command scripts from a grammar over {uci, isready, setoption (Hash 0..64 MB, UCI_Chess960, unknown, malformed), "
                       "ucinewgame, position startpos|fen <pool FEN> [moves legal/illegal/garbage], moves, go depth|nodes|movetime|"
                       "wtime btime [winc binc movestogo incl. 0]|perft|split (incl. 0), bare and ill-formed go, print, history, eval, "
                       "unknown words, empty lines, quit or EOF}; each script runs on the optimised and on the checked binary: exit status "
                       "0, empty stderr, no timeout, readyok per isready, exactly one bestmove per well-formed search request; scripts "
                       "without clock-based searches are also compared line by line with the model's transcript; non-trivial = script "
                       "contains a search or perft")
    rel = vlib.build_engine("release")
    dev = vlib.build_engine("dev")
    legal_cache = {}
    fens = list({e["fen"] for e in pool})[:400]
    for frc in (False, True):
        for f, ms in zip(fens, first_moves(fens, "1" if frc else "0")):
            legal_cache[(f, frc)] = ms
    scripts = []
    for i in range(240 if th else 44):
        scripts.append((gen_script(rng, pool, legal_cache, timed=(i % 2 == 1)), i % 2 == 1))
    corpus = [["position startpos moves e1g1", "print", "go depth 1"], ["setoption name UCI_Chess960 value true", "isready",
              "position fen 4k2r/8/8/8/8/8/8/4K2R b Kk - 0 1 moves e8g8", "print", "go depth 1"],
              ["go wtime 1000 btime 1000 movestogo 0"], ["go split 0"], ["go depth 0"], ["go nodes 0"], ["go movetime 0"],
              ["position fen 7k/8/8/8/8/8/8/K5R1 w - - 100 80", "go depth 2"], [], ["quit"], ["isready", "isready"],
              ["position startpos moves g1f3 g8f6 f3g1 f6g8 g1f3 g8f6 f3g1 f6g8", "go depth 2", "history"],
              ["isready", "position startpos moves e2e4 e7e5", "go wtime 60000 btime 60000 winc 0 binc 0 movestogo 4294967295", "isready"],
              ["isready", "position startpos moves e2e4", "go wtime 200 btime 200 movestogo 4294967294", "isready", "go wtime 4294967295 btime 4294967295 movestogo 4294967295"],
              ["go wtime 100 btime 100 winc 4294967295 binc 4294967295 movestogo 4294967295", "isready"],
              ["go wtime 100 btime 100 movestogo 4294967296", "go wtime 4294967296 btime 100", "go movetime 4294967296", "go depth 2147483648", "isready"],
              ["go perft 256", "go split 256", "go nodes 18446744073709551616", "go depth -1", "go nodes -1", "isready"],
              ["setoption name Hash value 18446744073709551616", "setoption name Hash value -1", "isready", "go depth 1"]]
    # conventional castling strings on Chess960 geometry with the king off the e-file, castling on that wing being legal
    # (seventh seed round: the alias filter compared only the target square and played a move from an empty e1), both option values
    for fenx, toks in (("1k5r/pppppppp/8/8/8/8/PPPPPPPP/1K5R w Hh - 0 1", "e1g1"), ("1k5r/pppppppp/8/8/8/8/PPPPPPPP/1K5R b Hh - 0 1", "e8g8"),
                       ("r5k1/pppppppp/8/8/8/8/PPPPPPPP/R5K1 w Aa - 0 1", "e1c1"), ("r5k1/pppppppp/8/8/8/8/PPPPPPPP/R5K1 b Aa - 0 1", "e8c8"),
                       ("2k4r/8/8/8/8/8/8/2K4R w Hh - 0 1", "e1g1 e8g8"), ("r4k2/8/8/8/8/8/8/R4K2 w Aa - 0 1", "e1c1 e8c8")):
        for opt in (None, "true"):
            corpus.append(([f"setoption name UCI_Chess960 value {opt}"] if opt else []) + ["isready", f"position fen {fenx} moves {toks}", "isready", "print", "go depth 2"])
    for f in G.EXTREME_FENS[:3]:
        corpus.append(["position fen " + f, "go depth 1", "isready", "go nodes 0", "go perft 1", "eval", "print"])
        corpus.append(["isready", "position fen " + f, "go movetime 1", "go depth 2"])
    many = [e["fen"] for e in P["pool"] if e["cls"] in ("many", "extreme")]
    for f in rng.sample(many, min(len(many), 12 if th else 4)):
        corpus.append(["position fen " + f, "go depth 1", "go nodes 50", "isready"])
    # a short search on positions of every special provenance class (pins on several rays at once, checks, en passant, promotions next
    # to castling rooks, Chess960 castling, sparse endings): a wrong move generated anywhere below shows as a panic or a lost king
    special = {}
    for e in P["pool"]:
        if e["cls"] in ("multipin", "pin", "check", "ep", "promo-castle", "promo", "kxr", "endgame", "castle960") and std_geometry(e["fen"]):
            special.setdefault(e["cls"], []).append(e["fen"])
    for cls in sorted(special):
        k = (60 if th else 25) if cls == "multipin" else (10 if th else 3)
        for f in rng.sample(special[cls], min(len(special[cls]), k)):
            corpus.append(["position fen " + f, "go depth 3", "isready", "go perft 2"])
    scripts = [(c, any("time" in l for l in c)) for c in corpus] + scripts
    model = vlib.run_model_par(["session\twrapping\t" + "|".join(l.replace("|", " ") for l in s) for s, _ in scripts])
    modelc = vlib.run_model_par(["session\tchecked\t" + "|".join(l.replace("|", " ") for l in s) for s, _ in scripts])

    def one(args):
        (s, timed), binp = args
        return run_engine(binp, s, timeout=60)
    jobs = [((s, t), b) for (s, t) in scripts for b in (rel, dev)]
    res = vlib.par_map(one, jobs)
    # a time-out under load is not yet a hang: run the script again, alone, with a longer limit
    for k, ((s, timed), binp) in enumerate(jobs):
        if res[k][3]:
            res[k] = run_engine(binp, s, timeout=300)
    nv = 0
    for k, ((s, timed), binp) in enumerate(jobs):
        out, err, rc, to = res[k]
        build = "release" if binp == rel else "checked"
        m = (model if build == "release" else modelc)[k // 2]
        has_work = any(l.startswith("go") for l in s)
        run.note_case((build, tuple(s)), build + (":timed" if timed else ":deterministic"), nontrivial=has_work)
        lines = norm(out)
        ready, best = expected_counts(s)
        bad = None
        if m.startswith("PANIC"):
            # the script is not well-formed (e.g. an invalid FEN): outside the property
            run.cov["classes"]["skipped-not-wellformed"] = run.cov["classes"].get("skipped-not-wellformed", 0) + 1
            continue
        if to:
            bad = "no termination within 60 s in parallel and 300 s alone (hang)"
        elif rc != 0:
            bad = f"abnormal exit status {rc}"
        elif err.strip():
            bad = "output on stderr: " + err.strip()[:200]
        elif sum(1 for l in lines if l == "readyok") != ready:
            bad = f"{sum(1 for l in lines if l == 'readyok')} readyok for {ready} isready"
        elif sum(1 for l in lines if l.startswith("bestmove")) != best:
            bad = f"{sum(1 for l in lines if l.startswith('bestmove'))} bestmove lines for {best} well-formed search requests"
        if bad:
            nv += 1
            if nv <= 25:
                run.violation("crash-or-hang", f"{build} build: {bad}", {"build": build, "script": ["uci"] + s, "stdout_tail": lines[-8:], "stderr": err[-400:],
                                                                        "repro": f"printf 'uci\\n{chr(92) + 'n'.join(s)}\\n' | {binp}"})
            continue
        if m.startswith("QUIT "):
            want = [x for x in m[5:].split("|") if x != ""]
            if lines != want:
                nv += 1
                k2 = next((i for i, (x, y) in enumerate(zip(lines, want)) if x != y), min(len(lines), len(want)))
                if nv <= 25:
                    run.violation("model-mismatch", f"{build}: transcript differs from the model's at line {k2}",
                                  {"build": build, "script": ["uci"] + s, "implementation": lines[max(0, k2 - 2): k2 + 3], "model": want[max(0, k2 - 2): k2 + 3]},
                                  found_input=False)
    run.cov["traces_validated_against_impl"] = sum(1 for x in model if x.startswith("QUIT"))
    run.sample({"script": scripts[len(corpus)][0][:8], "stdout_head": norm(res[2 * len(corpus)][0])[:8]})
    run.cov["explanation"] = ("PARTIAL: no_crash is proved for the command layer of the model (step never returns Panic on a well-formed line "
                              "whose FEN parses); the search core, stack/memory and OS behaviour are covered only by running both binaries")


def check_C16(run):
    rng = run.rng
    th = run.tier == "thorough"
    P = pool_for(run)
    pool = [e for e in P["pool"] if sum(ch.isalpha() for ch in e["fen"].split(" ")[0]) <= 12] + P["pool"][:20]
    run.cov["rule"] = ("random command prefix (positions, move lists, searches, option changes, perft runs) then `ucinewgame` + `position X` "
                       "+ reports (print, history, eval, go perft 2, go split 1, go depth 3) compared with a freshly started engine given "
                       "the same option values and the same `position X` + reports; without ucinewgame: print/history/eval only; both "
                       "also compared with the model; plus: previous position with the same placement and key but other counters, then `position X` without ucinewgame; plus deep searches (depth 5-6, Hash default/1/3 MB) that fill the table, then ucinewgame and the same or "
                       "a neighbouring search, against a fresh engine; non-trivial = prefix contains a search")
    rel = vlib.build_engine("release")
    legal_cache = {}
    move_cache = {}
    castle_fens = ["bqnb1rkr/pp3ppp/3ppn2/2p5/5P2/P2P4/NPP1P1PP/BQ1BNRKR w HFhf - 2 9", "r3k2r/8/8/8/8/8/8/R3K2R w KQkq - 0 1",
                   "r3k2r/8/8/8/8/8/8/R3K2R b KQkq - 0 1", "1rk4r/8/8/8/8/8/8/1RK4R w HBhb - 3 5", "rk2r3/8/8/8/8/8/8/RK2R3 w EAea - 0 1",
                   "nrk2rbb/pppppppp/8/8/8/8/PPPPPPPP/NRK2RBB w KQkq - 0 1", "4k3/8/8/8/8/8/8/R4K1R w HA - 0 1"]
    castle_moves = {}
    cm = vlib.run_model_par([f"gen\t{f}" for f in castle_fens])
    us = vlib.run_model_par([f"ucispec\t1\t{f}" for f in castle_fens])
    for f, g, u in zip(castle_fens, cm, us):
        strs = dict((it.split(":")[0], it.split(":")[1]) for it in u.split(",")) if u else {}
        b = G.parse_board(f)
        black = f.split(" ")[1] == "b"
        res = []
        for trip, st in strs.items():
            fr, to, pr = (int(x) for x in trip.split("-"))
            a_fr, a_to = (fr ^ 56, to ^ 56) if black else (fr, to)
            if b.get(a_fr, "?") in "Kk" and b.get(a_to, "?") in "Rr" and b[a_fr].isupper() == b[a_to].isupper():
                res.append(st)
        castle_moves[f] = res
    jobs = []
    for i in range(120 if th else 30):
        prefix = [l for l in gen_script(rng, pool, legal_cache, timed=False) if l not in ("quit",)]
        if not any(l.split()[:1] == ["isready"] for l in prefix[:4]):
            prefix = ["isready"] + prefix
        # option values in force after the prefix
        hashv, frc = None, False
        for l in prefix:
            t = l.split()
            if t[:2] == ["setoption", "name"] and len(t) >= 5 and t[3] == "value":
                if t[2] in ("Hash", "hash") and re.fullmatch(r"\+?\d+", t[4]):
                    hashv = min(4096, max(1, int(t[4])))
                if t[2] == "UCI_Chess960":
                    frc = t[4] == "true"
        e = rng.choice(pool)
        fen = e["fen"]
        if i % 3 == 0:
            # Chess960 in force and a move list that castles in the active notation right after `position`
            if not frc:
                prefix.append("setoption name UCI_Chess960 value true")
                frc = True
            fen = rng.choice(castle_fens)
        if not frc and not std_geometry(fen):
            fen = "r3k2r/p1ppqpb1/bn2pnp1/3PN3/1p2P3/2N2Q1p/PPPBBPPP/R3K2R w KQkq - 0 1"
        posl = "position fen " + fen
        mvs = move_cache.get((fen, frc))
        if mvs is None:
            mvs = first_moves([fen], "1" if frc else "0")[0]
            move_cache[(fen, frc)] = mvs
        if mvs and rng.random() < 0.8:
            castl = [m for m in mvs if m[0] == "e" or abs(ord(m[0]) - ord(m[2])) >= 2 and m[1] == m[3] and m[1] in "18"]
            kmoves = [m for m in castle_moves.get(fen, [])]
            posl += " moves " + (rng.choice(kmoves) if kmoves and rng.random() < 0.8 else rng.choice(mvs))
        newgame = rng.random() < 0.7
        reports = ["print", "history", "eval"] + (["go perft 2", "go split 1", "go depth 3"] if newgame else [])
        tail = (["ucinewgame"] if newgame else []) + [posl] + reports
        full = prefix + ["isready"] + tail + ["quit"]
        fresh = ([f"setoption name Hash value {hashv}"] if hashv else []) + ([f"setoption name UCI_Chess960 value true"] if frc else []) + \
            ["isready"] + ["isready"] + [posl] + reports + ["quit"]
        jobs.append((full, fresh, newgame, any(l.startswith("go depth") or l.startswith("go nodes") for l in prefix)))

    # without ucinewgame: the previous position has the same placement (hence the same key) as the new one but other counters
    START = "rnbqkbnr/pppppppp/8/8/8/8/PPPPPPPP/RNBQKBNR w KQkq - 0 1"
    for k in range(24 if th else 8):
        if k % 2 == 0:
            posl = "position startpos" + rng.choice(["", "", " moves e2e4", " moves g1f3 g8f6"])
            prev = rng.choice(["position fen rnbqkbnr/pppppppp/8/8/8/8/PPPPPPPP/RNBQKBNR w KQkq - 99 60",
                               "position fen rnbqkbnr/pppppppp/8/8/8/8/PPPPPPPP/RNBQKBNR w KQkq - 7 33",
                               "position startpos moves " + " ".join(["g1f3 g8f6 f3g1 f6g8"] * rng.choice([1, 2, 25]))])
        else:
            cands = [e["fen"] for e in pool if e["fen"].split(" ")[3] == "-" and std_geometry(e["fen"])]
            f = rng.choice(cands)
            pp = f.split(" ")
            pp[4], pp[5] = str(rng.choice([0, 3, 50, 99, 100, 150])), str(rng.choice([1, 2, 40, 300]))
            posl, prev = "position fen " + f, "position fen " + " ".join(pp)
        reports = ["print", "history", "eval"]
        full = ["isready", prev] + (["go depth 1"] if rng.random() < 0.5 else []) + ["isready", posl] + reports + ["quit"]
        fresh = ["isready", "isready", posl] + reports + ["quit"]
        jobs.append((full, fresh, False, False))
    # deep searches that fill the whole table (every slot region, the last ones too), then ucinewgame and the same or a nearby search
    deep = [("position startpos", 6), ("position fen r3k2r/p1ppqpb1/bn2pnp1/3PN3/1p2P3/2N2Q1p/PPPBBPPP/R3K2R w KQkq - 0 1", 5),
            ("position startpos moves e2e4 e7e5 g1f3", 6), ("position fen r1bqkbnr/pppp1ppp/2n5/4p3/2B1P3/5N2/PPPP1PPP/RNBQK2R b KQkq - 3 3", 6)]
    # small first search (only a few table slots used, none of them among the first thousand), then ucinewgame and a larger one
    small = [("position startpos", 3, 5), ("position startpos moves e2e4 e7e5", 2, 4), ("position fen 8/8/4k3/8/8/3K4/R7/8 w - - 0 1", 2, 5)]
    for posl, d1, d2 in small:
        reports = [f"go depth {d2}", "print", "history"]
        full = ["isready", posl, f"go depth {d1}", "isready", "ucinewgame", posl] + reports + ["quit"]
        fresh = ["isready", "isready", posl] + reports + ["quit"]
        jobs.append((full, fresh, True, True))
    for k, (posl, d) in enumerate(deep if th else deep[:3]):
        hashv = (None, 1, 3, 2)[k]
        opts = [f"setoption name Hash value {hashv}"] if hashv else []
        second = posl if k != 2 else "position startpos moves e2e4 e7e5"
        reports = [f"go depth {d}", "print", "history"]
        full = opts + ["isready", posl, f"go depth {d}", "isready", "ucinewgame", second] + reports + ["quit"]
        fresh = opts + ["isready", "isready", second] + reports + ["quit"]
        jobs.append((full, fresh, True, True))

    def one(s):
        return run_engine(rel, s, timeout=120)
    r1 = vlib.par_map(one, [j[0] for j in jobs])
    r2 = vlib.par_map(one, [j[1] for j in jobs])
    ndeep = len(deep if th else deep[:3]) + len(small)
    m1 = vlib.run_model_par(["session\twrapping\t" + "|".join(j[0]) for j in jobs[:-ndeep]]) + ["SKIP (deep search: implementation vs fresh process only)"] * ndeep
    nv = 0
    for (full, fresh, newgame, searched), a, b, m in zip(jobs, r1, r2, m1):
        if m.startswith("PANIC"):
            continue
        run.note_case(tuple(full), "with-ucinewgame" if newgame else "position-only", nontrivial=searched)

        def tail_of(out, nready):
            lines = norm(out)
            idx = [i for i, l in enumerate(lines) if l == "readyok"]
            return lines[idx[nready - 1] + 1:] if len(idx) >= nready else None
        nready = sum(1 for l in full if l.split()[:1] == ["isready"])
        ta, tb = tail_of(a[0], nready), tail_of(b[0], 2)
        if a[3] or b[3] or a[2] != 0 or b[2] != 0 or ta is None or tb is None:
            nv += 1
            run.violation("crash-or-hang", "engine did not finish the script", {"script": full, "rc": [a[2], b[2]]})
            continue
        if ta != tb:
            nv += 1
            k = next((i for i, (x, y) in enumerate(zip(ta, tb)) if x != y), min(len(ta), len(tb)))
            if nv <= 25:
                run.violation("state-leak", "reports after " + ("ucinewgame + position" if newgame else "position") + " differ from a fresh engine's",
                              {"script": ["uci"] + full, "fresh_script": ["uci"] + fresh, "after_prefix": ta[max(0, k - 1): k + 3], "fresh": tb[max(0, k - 1): k + 3]})
        elif m.startswith("QUIT ") and norm(a[0]) != [x for x in m[5:].split("|") if x]:
            nv += 1
            if nv <= 25:
                run.violation("model-mismatch", "transcript differs from the model's", {"script": full}, found_input=False)
    run.cov["traces_validated_against_impl"] = len(jobs)
    run.sample({"script": jobs[0][0], "fresh": jobs[0][1]})
    run.cov["explanation"] = ("newgame_resets proved on the model: after ucinewgame + position the state equals the fresh state with the same options "
                              "(position, history, table contents), and every report is a function of that state; hidden process state is what "
                              "the runs above measure")


CHECKS = {"C15": check_C15, "C16": check_C16}
