"""stand-in for chess.pgn: a game is headers + a list of moves"""


class Game:
    def __init__(self, headers, moves):
        self.headers = headers
        self._moves = moves

    def mainline_moves(self):
        return list(self._moves)


def read_game(handle):
    return None
