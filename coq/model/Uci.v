(* src/uci/listen.rs, position.rs, moves.rs, go.rs, perft.rs, split.rs, setoption.rs and the Display
   impl of Position: the engine as a state machine over command lines.  A line is a list of tokens
   (split_ascii_whitespace); output is a list of lines with the wall-clock fields (time, nps) left out.
   Time-based searches (movetime / clocks / infinite) are not run by the model (outcome NeedsClock). *)
From Coq Require Import NArith ZArith List Bool String Ascii.
From Rawr Require Import Consts Bits Magic Position MoveGen MakeMove Fen Eval TT Search.
Import ListNotations.
Local Open Scope N_scope.

Definition lit (s : string) : str := map N_of_ascii (list_ascii_of_string s).
Definition tok_is (t : str) (s : string) : bool := str_eqb t (lit s).

Record UState := mkU { u_pos : Position; u_hist : list N; u_tt : TTable; u_hash : N; u_frc : bool }.

Inductive Outcome :=
| Cont (s : UState) (out : list str)
| Quit (out : list str)
| Panic (site : str)
| NeedsClock (s : UState)          (* a time-limited search: not evaluated by the model *)
| OutOfFuel.

(* ---- unsigned / signed decimal parsing of Rust's FromStr for integers *)
Definition parse_uint (max : Z) (s : str) : option Z :=
  match s with
  | [] => None
  | c :: t =>
    let ds := if c =? 43 then t else s in
    match ds with
    | [] => None
    | _ => match digits_val ds 0%Z with
           | Some v => if (v <=? max)%Z then Some v else None
           | None => None
           end
    end
  end.
Definition U32_MAX : Z := 4294967295.
Definition U64_MAX : Z := 18446744073709551615.
Definition U8_MAX : Z := 255.

(* ---- uci/moves.rs (with the castling aliases resolved from the mover's side, legality required) *)
Definition find_move (p : Position) (t : str) : option Mv :=
  let legal := legal_moves p in
  match find (fun m => str_eqb (to_uci p m) t) legal with
  | Some m => Some m
  | None =>
    let white := negb (turn p) in
    let wing :=
      if (tok_is t "e1g1" && white) || (tok_is t "e8g8" && negb white) then Some false
      else if (tok_is t "e1c1" && white) || (tok_is t "e8c8" && negb white) then Some true
      else None in
    match wing with
    | None => None
    | Some qside =>
      let m := mkMv E1 (sq_of (if qside then cf1 p else cf0 p) 0) NOPIECE in
      if is_set (c_us p) (m_to m) && existsb (mv_eqb m) legal then Some m else None
    end
  end.

Fixpoint moves_cmd (toks : list str) (p : Position) (h : list N) (out : list str) : Position * list N * list str :=
  match toks with
  | [] => (p, h, rev out)
  | t :: rest =>
    match find_move p t with
    | Some m => let q := makemove true p m in moves_cmd rest q (hash q :: h) out
    | None => moves_cmd rest p h ((lit "info string unknown move " ++ t) :: out)
    end
  end.

(* ---- uci/position.rs; None = panic (invalid FEN) *)
Fixpoint take_fen (toks : list str) (acc : str) : str * list str :=
  match toks with
  | [] => (acc, [])
  | t :: rest => if tok_is t "moves" then (acc, rest) else take_fen rest (acc ++ t ++ [32])
  end.
Fixpoint trim_end (s : str) : str :=
  match s with
  | [] => []
  | c :: t => match trim_end t with
              | [] => if c =? 32 then [] else [c]
              | t' => c :: t'
              end
  end.

Definition position_cmd (mode : bool) (toks : list str) (p : Position) : option (Position * list N * list str) :=
  let '(fen, rest) :=
    match toks with
    | t :: rest =>
      if tok_is t "startpos" then (lit "startpos", tl rest)
      else if tok_is t "fen" then let '(f, r) := take_fen rest [] in (trim_end f, r)
      else ([], rest)
    | [] => ([], [])
    end in
  match set_fen mode (is_frc p) fen with
  | None => None
  | Some q => Some (moves_cmd rest q [hash q] [])
  end.

(* ---- Display for Position *)
Definition show_bool (b : bool) : str := if b then lit "true" else lit "false".
Fixpoint hex_digits (fuel : nat) (n : N) (acc : str) : str :=
  match fuel with
  | O => acc
  | S f => let d := n mod 16 in
           let c := if d <? 10 then 48 + d else 87 + d in
           if n / 16 =? 0 then c :: acc else hex_digits f (n / 16) (c :: acc)
  end.
Definition show_hex (n : N) : str := lit "0x" ++ hex_digits 20 n [].

Definition display_pos (p : Position) : list str :=
  let np := if turn p then flip p else p in
  let row (y : N) : str :=
    map (fun x =>
      let s := sq_of x y in
      match piece_on np s with
      | Some pc => piece_char pc (negb (is_set (get_white np) s))
      | None => 45
      end) [0; 1; 2; 3; 4; 5; 6; 7] in
  map row [7; 6; 5; 4; 3; 2; 1; 0]
  ++ [lit "Turn: " ++ (if turn p then lit "Black" else lit "White");
      lit "Check: " ++ show_bool (in_check p);
      lit "Halfmoves: " ++ show_Z (halfmoves np);
      lit "Fullmoves: " ++ show_Z (fullmoves np);
      lit "EP: " ++ (match ep np with Some s => show_sq s | None => [45] end);
      (if negb (us_ksc np) && negb (us_qsc np) && negb (them_ksc np) && negb (them_qsc np)
       then lit "Castling: -"
       else lit "Castling: "
            ++ (if us_ksc np then [65 + cf0 p] else []) ++ (if us_qsc np then [65 + cf1 p] else [])
            ++ (if them_ksc np then [97 + cf2 p] else []) ++ (if them_qsc np then [97 + cf3 p] else []));
      lit "Hash: " ++ show_hex (hash p);
      lit "FRC: " ++ show_bool (is_frc p)].

(* ---- go *)
Inductive GoKind :=
| GTime (wt bt : Z) (mtg : option Z) | GMovetime (t : Z) | GDepth (d : Z) | GNodes (n : Z)
| GInfinite | GPerft (d : Z) | GSplit (d : Z).

Record GoArgs := mkGA { ga_wtime : option Z; ga_btime : option Z; ga_winc : option Z; ga_binc : option Z;
                        ga_mtg : option Z; ga_depth : option Z; ga_nodes : option Z; ga_movetime : option Z;
                        ga_inf : bool; ga_perft : option Z; ga_split : option Z }.

Definition ga0 := mkGA None None None None None None None None false None None.

(* the loop consumes tokens in pairs; an unknown first token is an error; "" ends *)
Fixpoint parse_go_loop (fuel : nat) (toks : list str) (a : GoArgs) : option GoArgs :=
  match fuel with
  | O => Some a
  | S f =>
    match toks with
    | [] => Some a
    | k :: rest =>
      let v := hd [] rest in
      let rest' := tl rest in
      if tok_is k "wtime" then parse_go_loop f rest' (mkGA (parse_uint U32_MAX v) (ga_btime a) (ga_winc a) (ga_binc a) (ga_mtg a) (ga_depth a) (ga_nodes a) (ga_movetime a) (ga_inf a) (ga_perft a) (ga_split a))
      else if tok_is k "btime" then parse_go_loop f rest' (mkGA (ga_wtime a) (parse_uint U32_MAX v) (ga_winc a) (ga_binc a) (ga_mtg a) (ga_depth a) (ga_nodes a) (ga_movetime a) (ga_inf a) (ga_perft a) (ga_split a))
      else if tok_is k "winc" then parse_go_loop f rest' (mkGA (ga_wtime a) (ga_btime a) (parse_uint U32_MAX v) (ga_binc a) (ga_mtg a) (ga_depth a) (ga_nodes a) (ga_movetime a) (ga_inf a) (ga_perft a) (ga_split a))
      else if tok_is k "binc" then parse_go_loop f rest' (mkGA (ga_wtime a) (ga_btime a) (ga_winc a) (parse_uint U32_MAX v) (ga_mtg a) (ga_depth a) (ga_nodes a) (ga_movetime a) (ga_inf a) (ga_perft a) (ga_split a))
      else if tok_is k "movestogo" then parse_go_loop f rest' (mkGA (ga_wtime a) (ga_btime a) (ga_winc a) (ga_binc a) (parse_uint U32_MAX v) (ga_depth a) (ga_nodes a) (ga_movetime a) (ga_inf a) (ga_perft a) (ga_split a))
      else if tok_is k "depth" then parse_go_loop f rest' (mkGA (ga_wtime a) (ga_btime a) (ga_winc a) (ga_binc a) (ga_mtg a) (parse_i32 v) (ga_nodes a) (ga_movetime a) (ga_inf a) (ga_perft a) (ga_split a))
      else if tok_is k "nodes" then parse_go_loop f rest' (mkGA (ga_wtime a) (ga_btime a) (ga_winc a) (ga_binc a) (ga_mtg a) (ga_depth a) (parse_uint U64_MAX v) (ga_movetime a) (ga_inf a) (ga_perft a) (ga_split a))
      else if tok_is k "movetime" then parse_go_loop f rest' (mkGA (ga_wtime a) (ga_btime a) (ga_winc a) (ga_binc a) (ga_mtg a) (ga_depth a) (ga_nodes a) (parse_uint U32_MAX v) (ga_inf a) (ga_perft a) (ga_split a))
      else if tok_is k "infinite" then parse_go_loop f rest' (mkGA (ga_wtime a) (ga_btime a) (ga_winc a) (ga_binc a) (ga_mtg a) (ga_depth a) (ga_nodes a) (ga_movetime a) true (ga_perft a) (ga_split a))
      else if tok_is k "perft" then parse_go_loop f rest' (mkGA (ga_wtime a) (ga_btime a) (ga_winc a) (ga_binc a) (ga_mtg a) (ga_depth a) (ga_nodes a) (ga_movetime a) (ga_inf a) (parse_uint U8_MAX v) (ga_split a))
      else if tok_is k "split" then parse_go_loop f rest' (mkGA (ga_wtime a) (ga_btime a) (ga_winc a) (ga_binc a) (ga_mtg a) (ga_depth a) (ga_nodes a) (ga_movetime a) (ga_inf a) (ga_perft a) (parse_uint U8_MAX v))
      else None
    end
  end.

Definition isnone {A} (o : option A) : bool := match o with None => true | Some _ => false end.

Definition parse_go (toks : list str) : option GoKind :=
  match parse_go_loop (S (List.length toks)) toks ga0 with
  | None => None
  | Some a =>
    match ga_wtime a, ga_btime a, ga_depth a, ga_nodes a, ga_movetime a, ga_inf a, ga_perft a, ga_split a with
    | Some w, Some b, None, None, None, false, None, None => Some (GTime w b (ga_mtg a))
    | None, None, Some d, None, None, false, None, None => Some (GDepth d)
    | None, None, None, Some n, None, false, None, None => Some (GNodes n)
    | None, None, None, None, Some m, false, None, None => Some (GMovetime m)
    | None, None, None, None, None, true, None, None => Some GInfinite
    | None, None, None, None, None, false, Some d, None => Some (GPerft d)
    | None, None, None, None, None, false, None, Some d => Some (GSplit d)
    | _, _, _, _, _, _, _, _ => None
    end
  end.

Definition info_line (p : Position) (i : Info) : str :=
  lit "info depth " ++ show_Z (i_depth i) ++ lit " seldepth " ++ show_Z (i_seldepth i)
  ++ lit " score cp " ++ show_Z (i_score i) ++ lit " nodes " ++ show_N (i_nodes i)
  ++ (match i_hashfull i with Some h => lit " hashfull " ++ show_Z h | None => [] end)
  ++ lit " pv " ++ to_uci p (i_pv i).

Definition SEARCH_FUEL : nat := 400.

Definition go_search (s : UState) (l : Limit) : Outcome :=
  match root (stop_of l) SEARCH_FUEL (u_pos s) (u_hist s) (u_tt s) with
  | None => OutOfFuel
  | Some r =>
    let p := u_pos s in
    Cont (mkU p (ss_hist (rr_state r)) (ss_tt (rr_state r)) (u_hash s) (u_frc s))
         (map (info_line p) (rr_infos r)
          ++ [match rr_best r with Some m => lit "bestmove " ++ to_uci p m | None => lit "bestmove 0000" end])
  end.

Fixpoint perft_lines (n : nat) (p : Position) (i : nat) (depth : nat) : list str :=
  match n with
  | O => []
  | S n' =>
    if Nat.leb i depth then
      let nodes := perft i p in
      (lit "info depth " ++ show_N (N.of_nat i) ++ lit " nodes " ++ show_N nodes)
      :: (if Nat.eqb i depth then [lit "nodes " ++ show_N nodes] else [])
      ++ perft_lines n' p (S i) depth
    else []
  end.

Definition split_lines (p : Position) (depth : nat) : list str :=
  match depth with
  | O => [lit "nodes 1"]
  | S d =>
    let ms := legal_moves p in
    let counts := map (fun m => perft d (makemove false p m)) ms in
    map (fun mc => to_uci p (fst mc) ++ [32] ++ show_N (snd mc)) (combine ms counts)
    ++ [lit "nodes " ++ show_N (fold_left N.add counts 0)]
  end.

Definition go_cmd (s : UState) (toks : list str) : Outcome :=
  match parse_go toks with
  | None => Cont s []
  | Some (GDepth d) => go_search s (LDepth d)
  | Some (GNodes n) => go_search s (LNodes (Z.to_N n))
  | Some (GPerft d) => Cont s (perft_lines (S (Z.to_nat d)) (u_pos s) 1 (Z.to_nat d))
  | Some (GSplit d) => Cont s (split_lines (u_pos s) (Z.to_nat d))
  | Some _ => NeedsClock s
  end.

(* ---- setoption *)
Definition setoption_parse (toks : list str) : option (str * str) :=
  match toks with
  | n :: name :: v :: value :: _ => if tok_is n "name" && tok_is v "value" then Some (name, value) else None
  | _ => None
  end.

Definition USIZE_MAX : Z := 18446744073709551615.
Definition clamp_hash (v : Z) : N := Z.to_N (Z.max 1 (Z.min 4096 v)).

Definition set_pos (s : UState) (p : Position) := mkU p (u_hist s) (u_tt s) (u_hash s) (u_frc s).

Definition setoption_cmd (resize_now : bool) (s : UState) (toks : list str) : UState :=
  match setoption_parse toks with
  | None => s
  | Some (name, value) =>
    if tok_is name "Hash" || tok_is name "hash" then
      match parse_uint USIZE_MAX value with
      | Some v => let h := clamp_hash v in
                  mkU (u_pos s) (u_hist s) (if resize_now then tt_resize (u_tt s) h else u_tt s) h (u_frc s)
      | None => s
      end
    else if tok_is name "UCI_Chess960" then
      let b := tok_is value "true" in
      mkU (set_frc (u_pos s) b) (u_hist s) (u_tt s) (u_hash s) b
    else s
  end.

(* ---- listen: the state before the first line, the two phases *)
Definition init_state : UState :=
  mkU (match set_fen false false (lit "startpos") with Some p => p | None => startpos end)
      [hash startpos] (tt_new 0) 16 false.

Definition banner : list str :=
  [lit "id author kz04px";
   lit "option name UCI_Chess960 type check default false";
   lit "option name Hash type spin default 16 min 1 max 4096";
   lit "uciok"].

(* phase 2: one command *)
Definition step (mode : bool) (s : UState) (toks : list str) : Outcome :=
  match toks with
  | [] => Cont s []
  | c :: args =>
    if tok_is c "ucinewgame" then
      let p := set_frc startpos (u_frc s) in
      Cont (mkU p [hash p] (tt_clear (u_tt s)) (u_hash s) (u_frc s)) []
    else if tok_is c "isready" then Cont s [lit "readyok"]
    else if tok_is c "print" || tok_is c "display" || tok_is c "board" then Cont s (display_pos (u_pos s))
    else if tok_is c "go" then go_cmd s args
    else if tok_is c "position" then
      match position_cmd mode args (u_pos s) with
      | None => Panic (lit "set_fen")
      | Some (p, h, out) => Cont (mkU (set_frc p (u_frc s)) h (u_tt s) (u_hash s) (u_frc s)) out
      end
    else if tok_is c "moves" then
      let '(p, h, out) := moves_cmd args (u_pos s) (u_hist s) [] in
      Cont (mkU p h (u_tt s) (u_hash s) (u_frc s)) out
    else if tok_is c "setoption" then Cont (setoption_cmd true s args) []
    else if tok_is c "history" then Cont s (map show_hex (rev (u_hist s)))
    else if tok_is c "eval" then Cont s [show_Z (eval (u_pos s))]
    else if tok_is c "quit" then Quit []
    else Cont s []
  end.

(* phase 1: before isready; returns the state, whether readyok is due, and the lines not yet consumed *)
Fixpoint phase1 (s : UState) (lines : list (list str)) : option (UState * bool * list (list str)) :=
  match lines with
  | [] => Some (s, false, [[]])                  (* EOF: the empty input is processed once by phase 2 *)
  | l :: rest =>
    match l with
    | c :: args =>
      if tok_is c "isready" then Some (s, true, rest)
      else if tok_is c "setoption" then phase1 (setoption_cmd false s args) rest
      else if tok_is c "quit" then None
      else Some (s, false, l :: rest)
    | [] => Some (s, false, l :: rest)
    end
  end.

Fixpoint phase2 (mode : bool) (s : UState) (lines : list (list str)) (out : list str) : Outcome :=
  match lines with
  | [] => Quit (out)                                (* EOF *)
  | l :: rest =>
    match step mode s l with
    | Cont s' o => phase2 mode s' rest (out ++ o)
    | Quit o => Quit (out ++ o)
    | Panic site => Panic site
    | NeedsClock s' => NeedsClock s'
    | OutOfFuel => OutOfFuel
    end
  end.

(* the whole session after the first line "uci" *)
Definition run_session (mode : bool) (lines : list (list str)) : Outcome :=
  match phase1 init_state lines with
  | None => Quit banner
  | Some (s, ready, rest) =>
    let s := mkU (u_pos s) (u_hist s) (tt_resize (u_tt s) (u_hash s)) (u_hash s) (u_frc s) in
    phase2 mode s rest (banner ++ (if ready then [lit "readyok"] else []))
  end.
