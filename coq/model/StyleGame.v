(* tools/style/style.py: Stats.add_capture / add_noncapture / add_pawn_push / finish_game and analyse_game, the layer that
   turns games into statistics.  The board library the tool calls (python-chess) is replaced by the model of the engine's own
   position code: a game is a list of moves played by `makemove` from a position, everything the tool asks the board (piece
   on a square, enemy king square, capture?, castling?, check after the move, material at the end) is read off `Position`
   in the frame of the side to move, which is also the frame the tool works in ("rank if side == WHITE else 7 - rank").
   Only the counters the three scores and is_valid read are kept (Style.SStats); castle_first/second/never, castle_king/queen,
   the queen-trade and material-imbalance counters are written by the tool but read by no score. *)
From Coq Require Import NArith ZArith QArith List Bool.
From Rawr Require Import Consts Bits Magic Position MoveGen MakeMove Style.
Import ListNotations.
Local Open Scope N_scope.

(* what analyse_game extracts from one move of the analysed side *)
Record MoveEv := mkEv {
  e_ply : N;            (* index of the move in the game, 0-based *)
  e_cap : bool;         (* board.is_capture(move) *)
  e_dist : nat;         (* chess.square_distance(move.to_square, enemy king) *)
  e_pawn : bool;        (* the moved man is a pawn *)
  e_rank : nat;         (* rank of the target square, from the mover's side *)
  e_towards : bool;     (* |file(to) - file(enemy king)| <= 1 *)
  e_rook : bool;        (* rook or queen moved and |dx| <= 1 or |dy| <= 1 *)
  e_bishop : bool;      (* bishop or queen moved and ||dx| - |dy|| <= 1 *)
  e_check : bool        (* board.is_check() after the move *)
}.

Definition q1 (b : bool) : Q := if b then 1%Q else 0%Q.
(* l[i] += 1 *)
Fixpoint bump (l : list Q) (i : nat) : list Q :=
  match l, i with
  | [], _ => []
  | x :: r, O => (x + 1)%Q :: r
  | x :: r, S j => x :: bump r j
  end.
Definition bump_if (c : bool) (l : list Q) (i : nat) : list Q := if c then bump l i else l.

(* the body of the `if board.turn == side:` branch plus the check count after board.push, as far as the statistics go *)
Definition add_move (e : MoveEv) (s : SStats) : SStats :=
  let cap := e_cap e in
  let ply := e_ply e in
  let pw := e_pawn e in
  mkSStats
    (num_wins s) (num_draws s) (num_losses s) (num_games s)
    (castle_same s) (castle_opposite s)
    (total_captures s + q1 cap)%Q (total_noncaptures s + q1 (negb cap))%Q (total_moves s + 1)%Q
    (checks s + q1 (e_check e))%Q (nonchecks s + q1 (negb (e_check e)))%Q
    (early_captures s + q1 (cap && (ply <? 30)))%Q
    (mid_captures s + q1 (cap && negb (ply <? 30) && (ply <? 50)))%Q
    (late_captures s + q1 (cap && negb (ply <? 50) && (ply <? 70)))%Q
    (extreme_captures s + q1 (cap && negb (ply <? 70)))%Q
    (bump_if cap (capture_distance s) (e_dist e)) (bump_if (negb cap) (noncapture_distance s) (e_dist e))
    (game_length s)
    (short_games s) (medium_games s) (long_games s) (extreme_games s)
    (num_win_ahead s) (num_win_equal s) (num_win_behind s)
    (bump_if (pw && (ply <? 40)) (early_pawn_pushes s) (e_rank e))
    (bump_if (pw && negb (ply <? 40) && (ply <? 60)) (mid_pawn_pushes s) (e_rank e))
    (bump_if (pw && negb (ply <? 60)) (late_pawn_pushes s) (e_rank e))
    (total_pawn_pushes s + q1 pw)%Q (total_pawn_pushes_towards_king s + q1 (pw && e_towards e))%Q
    (num_rook_threats s + q1 (e_rook e))%Q (num_bishop_threats s + q1 (e_bishop e))%Q.

(* game_length[ply] += 1 on the sparse list of (plies, games) *)
Definition qN (n : N) : Q := inject_Z (Z.of_N n).
Fixpoint gl_add (k : Q) (l : list (Q * Q)) : list (Q * Q) :=
  match l with
  | [] => [(k, 1%Q)]
  | (a, c) :: r => if Qeq_bool a k then (a, (c + 1)%Q) :: r else (a, c) :: gl_add k r
  end.

Inductive Outcome := Won | Drawn | Lost.

(* the code after the move loop: castling pattern, finish_game, num_games, result and material *)
Definition end_game (plies us_castled them_castled : N) (o : Outcome) (mat : comparison) (s : SStats) : SStats :=
  let both := negb (us_castled =? 0) && negb (them_castled =? 0) in
  let same := both && (us_castled =? them_castled) in
  let won := match o with Won => true | _ => false end in
  mkSStats
    (num_wins s + q1 won)%Q
    (num_draws s + q1 (match o with Drawn => true | _ => false end))%Q
    (num_losses s + q1 (match o with Lost => true | _ => false end))%Q
    (num_games s + 1)%Q
    (castle_same s + q1 same)%Q (castle_opposite s + q1 (both && negb same))%Q
    (total_captures s) (total_noncaptures s) (total_moves s) (checks s) (nonchecks s)
    (early_captures s) (mid_captures s) (late_captures s) (extreme_captures s)
    (capture_distance s) (noncapture_distance s)
    (gl_add (qN plies) (game_length s))
    (short_games s + q1 (plies <? 80))%Q
    (medium_games s + q1 (negb (plies <? 80) && (plies <? 100)))%Q
    (long_games s + q1 (negb (plies <? 100) && (plies <? 140)))%Q
    (extreme_games s + q1 (negb (plies <? 140)))%Q
    (num_win_ahead s + q1 (won && match mat with Gt => true | _ => false end))%Q
    (num_win_equal s + q1 (won && match mat with Eq => true | _ => false end))%Q
    (num_win_behind s + q1 (won && match mat with Lt => true | _ => false end))%Q
    (early_pawn_pushes s) (mid_pawn_pushes s) (late_pawn_pushes s)
    (total_pawn_pushes s) (total_pawn_pushes_towards_king s)
    (num_rook_threats s) (num_bishop_threats s).

(* ------------------------------------------------------------------ what the tool asks the board *)
Definition absdiff (a b : N) : N := if a <? b then b - a else a - b.
Definition their_king (p : Position) : N := lsb (N.land (kings p) (c_them p)).

(* board.is_capture(move): an enemy man on the target, or a pawn changing file onto the en-passant square *)
Definition tool_capture (p : Position) (m : Mv) : bool :=
  is_set (c_them p) (m_to m)
  || (is_set (pawns p) (m_from m) && negb (file_of (m_from m) =? file_of (m_to m))
      && match ep p with Some e => e =? m_to m | None => false end).

(* 0 = no castling, 1 = king side, 2 = queen side: the king takes its own rook (the engine's encoding) or moves two files *)
Definition castle_kind (p : Position) (m : Mv) : N :=
  if is_set (kings p) (m_from m)
     && ((is_set (c_us p) (m_to m) && is_set (rooks p) (m_to m)) || (absdiff (file_of (m_to m)) (file_of (m_from m)) =? 2))
  then (if file_of (m_from m) <? file_of (m_to m) then 1 else 2)
  else 0.

Definition move_event (p : Position) (m : Mv) (ply : N) : MoveEv :=
  let ek := their_king p in
  let dx := absdiff (file_of ek) (file_of (m_to m)) in
  let dy := absdiff (rank_of ek) (rank_of (m_to m)) in
  let piece := piece_on p (m_from m) in
  let is k := match piece with Some x => x =? k | None => false end in
  mkEv ply (tool_capture p m) (N.to_nat (N.max dx dy)) (is PAWN) (N.to_nat (rank_of (m_to m))) (dx <=? 1)
       ((is ROOK || is QUEEN) && ((dx <=? 1) || (dy <=? 1)))
       ((is BISHOP || is QUEEN) && (absdiff dx dy <=? 1))
       (in_check (makemove true p m)).

(* get_material_score for the side whose men are in `bb` *)
Definition material (p : Position) (bb : N) : N :=
  popcount (N.land (pawns p) bb) + 3 * popcount (N.land (knights p) bb) + 3 * popcount (N.land (bishops p) bb)
  + 5 * popcount (N.land (rooks p) bb) + 9 * popcount (N.land (queens p) bb).

(* ------------------------------------------------------------------ analyse_game *)
Record GState := mkGS { gs_pos : Position; gs_ply : N; gs_us : N; gs_them : N; gs_stats : SStats }.

(* side: false = the tool analyses White, true = Black (as Position.turn) *)
Definition game_step (side : bool) (g : GState) (m : Mv) : GState :=
  let p := gs_pos g in
  let c := castle_kind p m in
  if Bool.eqb (turn p) side then
    mkGS (makemove true p m) (gs_ply g + 1) (if c =? 0 then gs_us g else c) (gs_them g)
         (add_move (move_event p m (gs_ply g)) (gs_stats g))
  else
    mkGS (makemove true p m) (gs_ply g + 1) (gs_us g) (if c =? 0 then gs_them g else c) (gs_stats g).

Inductive Header := WhiteWins | BlackWins | DrawnGame.         (* "1-0", "0-1", "1/2-1/2" *)
Definition outcome (side : bool) (h : Header) : Outcome :=
  match h with
  | DrawnGame => Drawn
  | WhiteWins => if side then Lost else Won
  | BlackWins => if side then Won else Lost
  end.

Definition game_run (side : bool) (start : Position) (ms : list Mv) (s : SStats) : GState :=
  fold_left (game_step side) ms (mkGS start 0 0 0 s).

Definition analyse_game (side : bool) (start : Position) (h : Header) (ms : list Mv) (s : SStats) : SStats :=
  let g := game_run side start ms s in
  let q := gs_pos g in
  let ours := if Bool.eqb (turn q) side then c_us q else c_them q in
  let theirs := if Bool.eqb (turn q) side then c_them q else c_us q in
  end_game (gs_ply g) (gs_us g) (gs_them g) (outcome side h) (material q ours ?= material q theirs) (gs_stats g).

Definition zeros8 : list Q := [0; 0; 0; 0; 0; 0; 0; 0]%Q.
Definition empty_stats : SStats :=
  mkSStats 0 0 0 0 0 0 0 0 0 0 0 0 0 0 0 zeros8 zeros8 [] 0 0 0 0 0 0 0 zeros8 zeros8 zeros8 0 0 0 0.

(* all games of a file analysed for one side, from the standard starting position *)
Definition analyse_games (side : bool) (games : list (Header * list Mv)) : SStats :=
  fold_left (fun s g => analyse_game side startpos (fst g) (snd g) s) games empty_stats.
