(* src/chess/set_fen.rs, from_fen.rs, get_fen.rs, square.rs (Display), uci/mv.rs (to_uci).
   Strings are lists of Unicode code points (N).  mode: true = Checked (overflow-checked build: a
   trapped overflow is a rejection), false = Wrapping (optimised build: u8 arithmetic wraps, shift
   amounts are masked). *)
From Coq Require Import NArith ZArith List Bool.
From Rawr Require Import Consts Bits Magic Position MoveGen MakeMove.
Import ListNotations.
Local Open Scope N_scope.

Definition str := list N.

Definition utf8_len (c : N) : N := if c <? 128 then 1 else if c <? 2048 then 2 else if c <? 65536 then 3 else 4.
Definition byte_len (s : str) : N := fold_left (fun a c => a + utf8_len c) s 0.

Fixpoint str_eqb (a b : str) : bool :=
  match a, b with
  | [], [] => true
  | x :: a', y :: b' => (x =? y) && str_eqb a' b'
  | _, _ => false
  end.

(* str::split(' ') *)
Fixpoint split_sp (s : str) (cur : str) : list str :=
  match s with
  | [] => [rev cur]
  | c :: t => if c =? 32 then rev cur :: split_sp t [] else split_sp t (c :: cur)
  end.

(* u8 arithmetic in the two modes: None = trap *)
Definition u8_sub (mode : bool) (a b : N) : option N :=
  if b <=? a then Some (a - b) else if mode then None else Some ((a + 256 - b) mod 256).
Definition u8_add (mode : bool) (a b : N) : option N :=
  if a + b <? 256 then Some (a + b) else if mode then None else Some ((a + b) mod 256).
Definition u8_mul (mode : bool) (a b : N) : option N :=
  if a * b <? 256 then Some (a * b) else if mode then None else Some ((a * b) mod 256).
(* 1u64 << s *)
Definition bit_m (mode : bool) (s : N) : option N :=
  if s <? 64 then Some (bit s) else if mode then None else Some (bit (s mod 64)).

Definition obind {A B} (o : option A) (f : A -> option B) : option B :=
  match o with Some x => f x | None => None end.

(* ---- board field: XOR-toggling loop over the characters *)
Record BoardAcc := mkBA { ba_w : N; ba_b : N; ba_pc : list N; ba_idx : N }.   (* ba_pc: six piece boards *)

Definition upd6 (l : list N) (i v : N) : list N :=
  map (fun k => if k =? i then v else nthN l k 0) [0; 1; 2; 3; 4; 5].

Definition piece_of_char (c : N) : option (bool * N) :=   (* (is_black, piece) *)
  match c with
  | 80 => Some (false, 0) | 78 => Some (false, 1) | 66 => Some (false, 2)
  | 82 => Some (false, 3) | 81 => Some (false, 4) | 75 => Some (false, 5)
  | 112 => Some (true, 0) | 110 => Some (true, 1) | 98 => Some (true, 2)
  | 114 => Some (true, 3) | 113 => Some (true, 4) | 107 => Some (true, 5)
  | _ => None
  end.

Definition board_char (mode : bool) (a : BoardAcc) (c : N) : option BoardAcc :=
  let idx := ba_idx a in
  let rank := idx / 8 in
  let file := idx mod 8 in
  obind (u8_sub mode 7 rank) (fun r7 =>
  obind (u8_mul mode 8 r7) (fun r8 =>
  obind (u8_add mode r8 file) (fun sq =>
  obind (bit_m mode sq) (fun bb =>
    match piece_of_char c with
    | Some (black, pc) =>
      obind (u8_add mode idx 1) (fun idx' =>
        Some (mkBA (if black then ba_w a else N.lxor (ba_w a) bb)
                   (if black then N.lxor (ba_b a) bb else ba_b a)
                   (upd6 (ba_pc a) pc (N.lxor (nthN (ba_pc a) pc 0) bb)) idx'))
    | None =>
      if (49 <=? c) && (c <=? 56) then
        obind (u8_add mode idx (c - 48)) (fun idx' => Some (mkBA (ba_w a) (ba_b a) (ba_pc a) idx'))
      else if c =? 47 then Some a
      else None
    end)))).

Fixpoint board_loop (mode : bool) (a : BoardAcc) (s : str) : option BoardAcc :=
  match s with
  | [] => Some a
  | c :: t => obind (board_char mode a c) (fun a' => board_loop mode a' t)
  end.

(* ---- castling field *)
Record CastleAcc := mkCA { ca_uk : bool; ca_uq : bool; ca_tk : bool; ca_tq : bool;
                           ca_f0 : N; ca_f1 : N; ca_f2 : N; ca_f3 : N }.

Definition castle_set (a : CastleAcc) (black ksc : bool) (file : N) : CastleAcc :=
  match black, ksc with
  | false, true => mkCA true (ca_uq a) (ca_tk a) (ca_tq a) file (ca_f1 a) (ca_f2 a) (ca_f3 a)
  | false, false => mkCA (ca_uk a) true (ca_tk a) (ca_tq a) (ca_f0 a) file (ca_f2 a) (ca_f3 a)
  | true, true => mkCA (ca_uk a) (ca_uq a) true (ca_tq a) (ca_f0 a) (ca_f1 a) file (ca_f3 a)
  | true, false => mkCA (ca_uk a) (ca_uq a) (ca_tk a) true (ca_f0 a) (ca_f1 a) (ca_f2 a) file
  end.

(* result: None = panic; Some (acc, stop) *)
Definition castle_char (white black rooks kings : N) (a : CastleAcc) (c : N) : option (CastleAcc * bool) :=
  let wksq := lsb (N.land white kings) in
  let bksq := lsb (N.land black kings) in
  let white_ks := N.land RANK1 (ray_east_bb wksq) in
  let white_qs := N.land RANK1 (ray_west_bb wksq) in
  let black_ks := N.land RANK8 (ray_east_bb bksq) in
  let black_qs := N.land RANK8 (ray_west_bb bksq) in
  if c =? 75 then
    let r := N.land (N.land white rooks) white_ks in
    if is_occ r then Some (castle_set a false true (file_of (hsb r)), false) else None
  else if c =? 81 then
    let r := N.land (N.land white rooks) white_qs in
    if is_occ r then Some (castle_set a false false (file_of (lsb r)), false) else None
  else if c =? 107 then
    let r := N.land (N.land black rooks) black_ks in
    if is_occ r then Some (castle_set a true true (file_of (hsb r)), false) else None
  else if c =? 113 then
    let r := N.land (N.land black rooks) black_qs in
    if is_occ r then Some (castle_set a true false (file_of (lsb r)), false) else None
  else if (65 <=? c) && (c <=? 72) then
    let file := c - 65 in
    Some (castle_set a false (file_of wksq <? file) file, false)
  else if (97 <=? c) && (c <=? 104) then
    let file := c - 97 in
    Some (castle_set a true (file_of bksq <? file) file, false)
  else if c =? 45 then Some (a, true)
  else None.

Fixpoint castle_loop (white black rooks kings : N) (a : CastleAcc) (seen : str) (s : str) : option CastleAcc :=
  match s with
  | [] => Some a
  | c :: t =>
    if existsb (N.eqb c) seen then None
    else match castle_char white black rooks kings a c with
         | None => None
         | Some (a', true) => Some a'
         | Some (a', false) => castle_loop white black rooks kings a' (c :: seen) t
         end
  end.

(* ---- str::parse::<i32>() *)
Fixpoint digits_val (s : str) (acc : Z) : option Z :=
  match s with
  | [] => Some acc
  | c :: t => if (48 <=? c) && (c <=? 57) then digits_val t (10 * acc + Z.of_N (c - 48))%Z else None
  end.
Definition I32_MAX : Z := 2147483647.
Definition I32_MIN : Z := (-2147483648)%Z.
Definition parse_i32 (s : str) : option Z :=
  match s with
  | [] => None
  | c :: t =>
    let '(neg, ds) := if c =? 45 then (true, t) else if c =? 43 then (false, t) else (false, s) in
    match ds with
    | [] => None
    | _ => match digits_val ds 0%Z with
           | None => None
           | Some v => let v := if neg then (- v)%Z else v in
                       if ((I32_MIN <=? v) && (v <=? I32_MAX))%Z then Some v else None
           end
    end
  end.

Definition STARTPOS_STR : str :=   (* "startpos" *)
  [115; 116; 97; 114; 116; 112; 111; 115].
Definition STARTPOS_FEN : str :=   (* "rnbqkbnr/pppppppp/8/8/8/8/PPPPPPPP/RNBQKBNR w KQkq - 0 1" *)
  [114;110;98;113;107;98;110;114;47;112;112;112;112;112;112;112;112;47;56;47;56;47;56;47;56;47;
   80;80;80;80;80;80;80;80;47;82;78;66;81;75;66;78;82;32;119;32;75;81;107;113;32;45;32;48;32;49].

(* the last steps of set_fen: key from scratch, then validate (which computes 1 << ep before looking at its rank) *)
Definition finish_fen (mode : bool) (p : Position) : option Position :=
  let p := set_hash p (calculate_hash p) in
  match (match ep p with Some e => bit_m mode e | None => Some 0 end) with
  | None => None
  | Some _ => match validate p with None => Some p | Some _ => None end
  end.

(* Position::set_fen on a position whose is_frc flag is `frc`; None = panic *)
Definition set_fen_raw (mode frc : bool) (fen : str) : option Position :=
  match split_sp fen [] with
  | board :: rest =>
    obind (board_loop mode (mkBA 0 0 [0; 0; 0; 0; 0; 0] 0) board) (fun ba =>
    if negb (ba_idx ba =? 64) then None else
    match rest with
    | [] => None
    | side :: rest =>
      match (match side with
             | [c] => if (c =? 119) || (c =? 87) then Some false
                      else if (c =? 98) || (c =? 66) then Some true else None
             | _ => None end) with
      | None => None
      | Some should_flip =>
        let white := ba_w ba in let black := ba_b ba in
        let pc := ba_pc ba in
        let kings := nthN pc 5 0 in let rooks := nthN pc 3 0 in
        if is_emp (N.land white kings) then None
        else if is_emp (N.land black kings) then None
        else
        match rest with
        | [] => None          (* castling missing: falls through to "EP value missing" *)
        | cas :: rest =>
          obind (castle_loop white black rooks kings (mkCA false false false false 7 0 7 0) [] cas) (fun ca =>
          match rest with
          | [] => None
          | epf :: rest =>
            obind (if str_eqb epf [45] then Some None
                   else if byte_len epf =? 2 then
                     match epf with
                     | [c1; c2] =>
                       obind (u8_sub mode (c1 mod 256) 97) (fun file =>
                       obind (u8_sub mode (c2 mod 256) 49) (fun rank =>
                       obind (u8_mul mode 8 rank) (fun r8 =>
                       obind (u8_add mode r8 file) (fun idx => Some (Some idx)))))
                     | _ => None
                     end
                   else None) (fun epv =>
            match rest with
            | [] => None
            | hmf :: rest =>
              match parse_i32 hmf with
              | None => None
              | Some hm => if (hm <? 0)%Z then None else
                match rest with
                | [] => None
                | fmf :: rest =>
                  match parse_i32 fmf with
                  | None => None
                  | Some fm => if (fm <? 0)%Z then None else
                    match rest with
                    | _ :: _ => None
                    | [] =>
                      let p := mkPos white black (nthN pc 0 0) (nthN pc 1 0) (nthN pc 2 0) rooks (nthN pc 4 0) kings
                                 hm fm false epv (ca_uk ca) (ca_uq ca) (ca_tk ca) (ca_tq ca)
                                 (ca_f0 ca) (ca_f1 ca) (ca_f2 ca) (ca_f3 ca) 0 frc in
                      finish_fen mode (if should_flip then flip p else p)
                    end
                  end
                end
              end
            end)
          end)
        end
      end
    end)
  | [] => None
  end.

Definition set_fen (mode frc : bool) (fen : str) : option Position :=
  if str_eqb fen STARTPOS_STR then set_fen_raw mode frc STARTPOS_FEN else set_fen_raw mode frc fen.
Definition from_fen (mode : bool) (fen : str) : option Position := set_fen mode false fen.

(* ------------------------------------------------------------------ printing *)
Fixpoint dec_digits (fuel : nat) (n : N) (acc : str) : str :=
  match fuel with
  | O => acc
  | S f => let acc := (48 + n mod 10) :: acc in if n / 10 =? 0 then acc else dec_digits f (n / 10) acc
  end.
Definition show_N (n : N) : str := dec_digits 25 n [].
Definition show_Z (z : Z) : str :=
  match z with Zneg _ => 45 :: show_N (Z.to_N (- z)) | _ => show_N (Z.to_N z) end.

(* impl Display for Square (the source calls the file index "rank" and vice versa) *)
Definition show_sq (s : N) : str := [97 + s mod 8; 49 + s / 8].

Definition piece_char (pc : N) (black : bool) : N :=
  let base := match pc with 0 => 80 | 1 => 78 | 2 => 66 | 3 => 82 | 4 => 81 | _ => 75 end in
  if black then base + 32 else base.

(* one rank of the board field; npos is stored from White's point of view; None = panic "Uh oh" *)
Fixpoint fen_rank (np : Position) (y : N) (xs : list N) (spaces : N) : option str :=
  match xs with
  | [] => Some (if 0 <? spaces then show_N spaces else [])
  | x :: t =>
    let sq := sq_of x y in
    let pre := if is_set (occupied np) sq && (0 <? spaces) then show_N spaces else [] in
    let spaces' := if is_set (occupied np) sq && (0 <? spaces) then 0 else spaces in
    match piece_on np sq, colour_on np sq with
    | Some pc, Some col => option_map (fun r => pre ++ piece_char pc col :: r) (fen_rank np y t spaces')
    | None, None => option_map (fun r => pre ++ r) (fen_rank np y t (spaces' + 1))
    | _, _ => None
    end
  end.

Fixpoint fen_board (np : Position) (ys : list N) : option str :=
  match ys with
  | [] => Some []
  | y :: t =>
    obind (fen_rank np y [0; 1; 2; 3; 4; 5; 6; 7] 0) (fun r =>
    option_map (fun rest => r ++ (if 0 <? y then [47] else []) ++ rest) (fen_board np t))
  end.

(* Shredder-style file letter when the castling rook is not the outermost rook on its wing
   (fix: the unfixed printer always wrote KQkq) *)
Definition castle_letter (np : Position) (white ksc : bool) (file : N) : N :=
  let side := if white then c_us np else c_them np in
  let home := if white then RANK1 else RANK8 in
  let ksq := lsb (N.land side (kings np)) in
  let wing := N.land home (if ksc then ray_east_bb ksq else ray_west_bb ksq) in
  let r := N.land (N.land side (rooks np)) wing in
  let outer := if ksc then file_of (hsb r) else file_of (lsb r) in
  if is_occ r && (outer =? file) then
    (if white then (if ksc then 75 else 81) else (if ksc then 107 else 113))
  else (if white then 65 + file else 97 + file).

Definition get_fen (p : Position) : option str :=
  let np := if turn p then flip p else p in
  obind (fen_board np [7; 6; 5; 4; 3; 2; 1; 0]) (fun b =>
  let side := if turn p then [32; 98] else [32; 119] in
  let cas :=
    if negb (us_ksc np) && negb (us_qsc np) && negb (them_ksc np) && negb (them_qsc np) then [32; 45]
    else 32 :: (if us_ksc np then [castle_letter np true true (cf0 np)] else [])
            ++ (if us_qsc np then [castle_letter np true false (cf1 np)] else [])
            ++ (if them_ksc np then [castle_letter np false true (cf2 np)] else [])
            ++ (if them_qsc np then [castle_letter np false false (cf3 np)] else []) in
  let eps := match ep np with Some s => 32 :: show_sq s | None => [32; 45] end in
  Some (b ++ side ++ cas ++ eps ++ 32 :: show_Z (halfmoves np) ++ 32 :: show_Z (fullmoves np))).

(* ------------------------------------------------------------------ uci/mv.rs: Mv::to_uci *)
Definition to_uci (p : Position) (m : Mv) : str :=
  let from := if turn p then flip_sq (m_from m) else m_from m in
  let sq := if negb (is_frc p) && is_set (c_us p) (m_to m)
            then (if file_of (m_from m) <? file_of (m_to m) then G1 else C1)
            else m_to m in
  let to := if turn p then flip_sq sq else sq in
  show_sq from ++ show_sq to ++
  (match m_promo m with 1 => [110] | 2 => [98] | 3 => [114] | 4 => [113] | _ => [] end).
