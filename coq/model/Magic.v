(* Slider and leaper tables: build.rs (table generation) and src/chess/magic.rs (lookup),
   plus the coordinate ray walk that is their specification (property C10). *)
From Coq Require Import NArith ZArith List Bool FMapPositive.
From Rawr Require Import Consts Bits.
Import ListNotations.
Local Open Scope N_scope.

(* ------------------------------------------------------------------ the code, parametric in the
   constants of one source file (build.rs and magic.rs each carry their own copy) *)
Section Copy.
Variables (stuffB stuffR : list (N * N)) (shiftB shiftR NA NH : N).

Definition m_north (b : N) : N := shl b 8.
Definition m_south (b : N) : N := shr b 8.
Definition m_east (b : N) : N := N.land (shl b 1) NA.
Definition m_west (b : N) : N := N.land (shr b 1) NH.
Definition m_ne b := m_north (m_east b).
Definition m_nw b := m_north (m_west b).
Definition m_se b := m_south (m_east b).
Definition m_sw b := m_south (m_west b).

(* while step(nbb) != 0 { result |= nbb; nbb = step(nbb); } *)
Fixpoint mask_loop (fuel : nat) (step : N -> N) (nbb acc : N) : N :=
  match fuel with
  | O => acc
  | S f => if step nbb =? 0 then acc else mask_loop f step (step nbb) (N.lor acc nbb)
  end.

Definition bishop_mask (sq : N) : N :=
  let bb := bit sq in
  let r := mask_loop 8 m_ne (m_ne bb) 0 in
  let r := mask_loop 8 m_nw (m_nw bb) r in
  let r := mask_loop 8 m_se (m_se bb) r in
  mask_loop 8 m_sw (m_sw bb) r.

Definition rook_mask (sq : N) : N :=
  let bb := bit sq in
  let r := mask_loop 8 m_east (m_east bb) 0 in
  let r := mask_loop 8 m_west (m_west bb) r in
  let r := mask_loop 8 m_north (m_north bb) r in
  mask_loop 8 m_south (m_south bb) r.

(* while (!blockers & bb) != 0 { bb = step(bb); result |= bb; } *)
Fixpoint moves_loop (fuel : nat) (step : N -> N) (blockers bb acc : N) : N :=
  match fuel with
  | O => acc
  | S f => if N.land (bnot blockers) bb =? 0 then acc
           else let bb' := step bb in moves_loop f step blockers bb' (N.lor acc bb')
  end.

Definition calc_bishop_moves (sq blockers : N) : N :=
  let bb := bit sq in
  let r := moves_loop 9 m_ne blockers bb 0 in
  let r := moves_loop 9 m_nw blockers bb r in
  let r := moves_loop 9 m_se blockers bb r in
  moves_loop 9 m_sw blockers bb r.

Definition calc_rook_moves (sq blockers : N) : N :=
  let bb := bit sq in
  let r := moves_loop 9 m_north blockers bb 0 in
  let r := moves_loop 9 m_south blockers bb r in
  let r := moves_loop 9 m_east blockers bb r in
  moves_loop 9 m_west blockers bb r.

Definition bishop_index (sq blockers : N) : N :=
  let '(magic, offset) := nthN stuffB sq (0, 0) in
  offset + shr (wmul (N.land blockers (bishop_mask sq)) magic) shiftB.

Definition rook_index (sq blockers : N) : N :=
  let '(magic, offset) := nthN stuffR sq (0, 0) in
  offset + shr (wmul (N.land blockers (rook_mask sq)) magic) shiftR.

(* generate_magic_moves: carry-rippler enumeration, later writes overwrite earlier ones *)
Definition permute (set subset : N) : N := N.land (wsub subset set) set.

Definition tbl := PositiveMap.t N.
Definition tset (t : tbl) (i v : N) : tbl := PositiveMap.add (N.succ_pos i) v t.
Definition tget (t : tbl) (i : N) : N :=
  match PositiveMap.find (N.succ_pos i) t with Some v => v | None => 0 end.

Fixpoint fill_loop (fuel : nat) (index calc : N -> N) (mask perm : N) (t : tbl) : tbl :=
  match fuel with
  | O => t
  | S f =>
    let t' := tset t (index perm) (calc perm) in
    let perm' := permute mask perm in
    if perm' =? 0 then t' else fill_loop f index calc mask perm' t'
  end.

Definition fill_square (t : tbl) (sq : N) : tbl :=
  let t := fill_loop 4096 (bishop_index sq) (calc_bishop_moves sq) (bishop_mask sq) 0 t in
  fill_loop 4096 (rook_index sq) (calc_rook_moves sq) (rook_mask sq) 0 t.

Definition squares64 : list N := map N.of_nat (seq 0 64).

Definition gen_table : tbl := fold_left fill_square squares64 (PositiveMap.empty N).

(* per-square leaper masks of magic.rs *)
Definition knight_mask (sq : N) : N :=
  let bb := bit sq in
  N.lor (N.lor (N.lor (m_north (m_north (m_east bb))) (m_north (m_north (m_west bb))))
               (N.lor (m_east (m_east (m_north bb))) (m_east (m_east (m_south bb)))))
        (N.lor (N.lor (m_west (m_west (m_north bb))) (m_west (m_west (m_south bb))))
               (N.lor (m_south (m_south (m_east bb))) (m_south (m_south (m_west bb))))).

Definition king_mask (sq : N) : N :=
  let bb := bit sq in
  N.lor (N.lor (N.lor (m_north bb) (m_north (m_west bb))) (N.lor (m_north (m_east bb)) (m_west bb)))
        (N.lor (N.lor (m_east bb) (m_south bb)) (N.lor (m_south (m_west bb)) (m_south (m_east bb)))).

End Copy.

(* the two copies *)
Definition build_table : tbl :=
  gen_table BISHOP_STUFF_BUILD ROOK_STUFF_BUILD BISHOP_SHIFT_BUILD ROOK_SHIFT_BUILD NOT_A_BUILD NOT_H_BUILD.
Definition lib_bishop_index := bishop_index BISHOP_STUFF_LIB BISHOP_SHIFT_LIB NOT_A_LIB NOT_H_LIB.
Definition lib_rook_index := rook_index ROOK_STUFF_LIB ROOK_SHIFT_LIB NOT_A_LIB NOT_H_LIB.
Definition lib_bishop_mask := bishop_mask NOT_A_LIB NOT_H_LIB.
Definition lib_rook_mask := rook_mask NOT_A_LIB NOT_H_LIB.

(* magic::bishop_moves / rook_moves / queen_moves: MAGIC_MOVES[index]; the Rust indexes a fixed
   array of MAGIC_LEN entries (out of range = panic), squares are 0..63 *)
Definition bishop_moves (sq occ : N) : N :=
  if sq <? 64 then tget build_table (lib_bishop_index sq occ) else 0.
Definition rook_moves (sq occ : N) : N :=
  if sq <? 64 then tget build_table (lib_rook_index sq occ) else 0.
Definition queen_moves (sq occ : N) : N := N.lor (bishop_moves sq occ) (rook_moves sq occ).
Definition knight_moves (sq : N) : N := knight_mask NOT_A_LIB NOT_H_LIB sq.
Definition king_moves (sq : N) : N := king_mask NOT_A_LIB NOT_H_LIB sq.

(* ------------------------------------------------------------------ specification: walk each ray on
   file/rank coordinates, up to and including the first occupied square; no bit tricks *)
Local Open Scope Z_scope.
Definition on_board (f r : Z) : bool := (0 <=? f) && (f <? 8) && (0 <=? r) && (r <? 8).
Definition zsq (f r : Z) : N := Z.to_N (8 * r + f).
Definition zfile (s : N) : Z := Z.of_N s mod 8.
Definition zrank (s : N) : Z := Z.of_N s / 8.

Fixpoint ray_squares (n : nat) (f r df dr : Z) : list N :=
  match n with
  | O => []
  | S n' =>
    let f' := f + df in
    let r' := r + dr in
    if on_board f' r' then zsq f' r' :: ray_squares n' f' r' df dr else []
  end.

Fixpoint walk_list (occ : N) (l : list N) : N :=
  match l with
  | [] => 0%N
  | s :: t => if N.testbit occ s then bit s else N.lor (bit s) (walk_list occ t)
  end.

Definition ray_of (sq : N) (d : Z * Z) : list N :=
  ray_squares 7 (zfile sq) (zrank sq) (fst d) (snd d).
Definition walk_dirs (dirs : list (Z * Z)) (sq occ : N) : N :=
  fold_right (fun d acc => N.lor (walk_list occ (ray_of sq d)) acc) 0%N dirs.

Definition bishop_dirs : list (Z * Z) := [(1, 1); (-1, 1); (1, -1); (-1, -1)].
Definition rook_dirs : list (Z * Z) := [(0, 1); (0, -1); (1, 0); (-1, 0)].

Definition bishop_walk (sq occ : N) : N := if (sq <? 64)%N then walk_dirs bishop_dirs sq occ else 0%N.
Definition rook_walk (sq occ : N) : N := if (sq <? 64)%N then walk_dirs rook_dirs sq occ else 0%N.
Definition queen_walk (sq occ : N) : N := N.lor (bishop_walk sq occ) (rook_walk sq occ).

(* leapers by geometry: the squares at the given coordinate offsets that are on the board *)
Definition leaper_geo (offs : list (Z * Z)) (sq : N) : N :=
  fold_right (fun d acc =>
    let f := zfile sq + fst d in let r := zrank sq + snd d in
    if on_board f r then N.lor (bit (zsq f r)) acc else acc) 0%N offs.
Definition knight_offs : list (Z * Z) :=
  [(1, 2); (-1, 2); (2, 1); (2, -1); (-2, 1); (-2, -1); (1, -2); (-1, -2)].
Definition king_offs : list (Z * Z) :=
  [(0, 1); (-1, 1); (1, 1); (-1, 0); (1, 0); (0, -1); (-1, -1); (1, -1)].
Definition pawn_offs (us : bool) : list (Z * Z) :=
  if us then [(1, 1); (-1, 1)] else [(1, -1); (-1, -1)].
