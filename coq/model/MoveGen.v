(* src/chess/move_generator.rs, count_moves.rs, legal_moves.rs, legal_captures.rs, perft.rs, mv.rs *)
From Coq Require Import NArith ZArith List Bool.
From Rawr Require Import Consts Bits Magic Position.
Import ListNotations.
Local Open Scope N_scope.

Record Mv := mkMv { m_from : N; m_to : N; m_promo : N }.
Definition mv_eqb (a b : Mv) : bool :=
  (m_from a =? m_from b) && (m_to a =? m_to b) && (m_promo a =? m_promo b).

Definition G1 : N := 6. Definition F1 : N := 5. Definition C1 : N := 2. Definition D1 : N := 3.
Definition E1 : N := 4. Definition E8 : N := 60.

Definition line_between (s1 s2 : N) : N :=
  N.lor (N.land (N.land (N.lxor (below s1) (below s2)) (bnot (bit s1))) (bnot (bit s2))) (bit s2).

(* everything both move_generator and count_moves compute before emitting/counting *)
Record GenInfo := mkGI {
  gi_ksq : N; gi_in_check : bool; gi_allowed : N;
  gi_bpinned : N; gi_bxrays : N; gi_hpinned : N; gi_rpinned : N; gi_rxrays : N; gi_pinned : N
}.

Definition pin_dir (ray : N -> N -> N) (p : Position) (kray checkers : N) (acc : N * N) : N * N :=
  let '(pinned, xrays) := acc in
  if is_occ (N.land kray (c_us p)) then
    let sq := lsb (N.land kray (c_us p)) in
    let xray := ray sq (occupied p) in
    if is_occ (N.land xray checkers) then (N.lor pinned (bit sq), N.lor xrays (N.lor xray kray))
    else acc
  else acc.

Definition gen_info (p : Position) : GenInfo :=
  let us := c_us p in
  let them := c_them p in
  let occ := occupied p in
  let ksq := lsb (N.land (kings p) us) in
  let bq := N.land them (N.lor (bishops p) (queens p)) in
  let rq := N.land them (N.lor (rooks p) (queens p)) in
  let hasb := is_occ bq in
  let hasr := is_occ rq in
  let r_ne := if hasb then ray_ne ksq occ else 0 in
  let r_sw := if hasb then ray_sw ksq occ else 0 in
  let r_nw := if hasb then ray_nw ksq occ else 0 in
  let r_se := if hasb then ray_se ksq occ else 0 in
  let r_n := if hasr then ray_n ksq occ else 0 in
  let r_s := if hasr then ray_s ksq occ else 0 in
  let r_e := if hasr then ray_e ksq occ else 0 in
  let r_w := if hasr then ray_w ksq occ else 0 in
  let bishop_rays := N.lor (N.lor (N.lor r_ne r_sw) r_nw) r_se in
  let rook_rays := N.lor (N.lor (N.lor r_n r_s) r_e) r_w in
  let kbb := N.land us (kings p) in
  let pawn_att := N.land (N.land (N.lor (north_east kbb) (north_west kbb)) them) (pawns p) in
  let knight_att := N.land (N.land (knights_bb (bit ksq)) (knights p)) them in
  let bishop_att := N.land (N.land bishop_rays them) (N.lor (bishops p) (queens p)) in
  let rook_att := N.land (N.land rook_rays them) (N.lor (rooks p) (queens p)) in
  let all_att := N.lor (N.lor (N.lor pawn_att knight_att) bishop_att) rook_att in
  let in_chk := is_occ all_att in
  let allowed :=
    if 1 <? popcount all_att then 0
    else if is_occ (N.land r_ne bishop_att) then r_ne
    else if is_occ (N.land r_nw bishop_att) then r_nw
    else if is_occ (N.land r_se bishop_att) then r_se
    else if is_occ (N.land r_sw bishop_att) then r_sw
    else if is_occ (N.land r_n rook_att) then r_n
    else if is_occ (N.land r_e rook_att) then r_e
    else if is_occ (N.land r_s rook_att) then r_s
    else if is_occ (N.land r_w rook_att) then r_w
    else if is_occ all_att then all_att
    else bnot us in
  let '(bpinned, bx) :=
    pin_dir ray_sw p r_sw bq (pin_dir ray_se p r_se bq (pin_dir ray_nw p r_nw bq (pin_dir ray_ne p r_ne bq (0, 0)))) in
  let bxrays := N.lor bx kbb in
  let '(vpinned, vxrays) := pin_dir ray_s p r_s rq (pin_dir ray_n p r_n rq (0, 0)) in
  let '(hpinned, hxrays) := pin_dir ray_w p r_w rq (pin_dir ray_e p r_e rq (0, 0)) in
  let rxrays := N.lor hxrays vxrays in
  let rpinned := N.lor vpinned hpinned in
  mkGI ksq in_chk allowed bpinned bxrays hpinned rpinned rxrays (N.lor bpinned rpinned).

(* a generated move as passed to the callback: (piece, from, to, promo) *)
Definition Gen := (N * N * N * N)%type.

Definition promo_or_plain (delta to : N) : list Gen :=
  let from := to - delta in
  if rank_of to =? 7 then
    [(PAWN, from, to, QUEEN); (PAWN, from, to, ROOK); (PAWN, from, to, BISHOP); (PAWN, from, to, KNIGHT)]
  else [(PAWN, from, to, NOPIECE)].

Definition ep_candidate (p : Position) (g : GenInfo) (ne : bool) (e : N) : list Gen :=
  let us := c_us p in
  let rq := N.land (c_them p) (N.lor (rooks p) (queens p)) in
  let other_diag := if ne then south_east (gi_bxrays g) else south_west (gi_bxrays g) in
  let cand := N.land (N.land (N.land us (pawns p)) (bnot (gi_rpinned g)))
                     (N.lor (bnot (gi_bpinned g)) (bnot other_diag)) in
  let shifted := if ne then north_east cand else north_west cand in
  if is_set shifted e then
    let ebb := bit e in
    let blockers := N.lxor (N.lxor (N.lxor (occupied p) ebb) (south ebb))
                           (if ne then south_west ebb else south_east ebb) in
    if (is_set (gi_allowed g) e || is_set (north (gi_allowed g)) e)
       && is_emp (N.land (ray_e (gi_ksq g) blockers) rq)
       && is_emp (N.land (ray_w (gi_ksq g) blockers) rq)
    then [(PAWN, e - (if ne then 9 else 7), e, NOPIECE)] else []
  else [].

Definition castle_ok (p : Position) (g : GenInfo) (right : bool) (rook_sq king_to rook_to : N) : bool :=
  let ksq := gi_ksq g in
  let king_path := line_between ksq king_to in
  let rook_path := line_between rook_sq rook_to in
  let both := N.lor king_path rook_path in
  right
  && negb (gi_in_check g)
  && negb (is_set (gi_hpinned g) rook_sq)
  && is_emp (N.land (N.land (N.land (occupied p) both) (bnot (bit ksq))) (bnot (bit rook_sq)))
  && negb (is_bb_attacked p king_path false).

Definition king_steps (p : Position) : list Gen :=
  flat_map (fun from =>
    let kbb := bit from in
    flat_map (fun to =>
      if is_safe to (N.lxor (occupied p) kbb)
           (N.land (c_them p) (pawns p)) (N.land (c_them p) (knights p)) (N.land (c_them p) (bishops p))
           (N.land (c_them p) (rooks p)) (N.land (c_them p) (queens p)) (N.land (c_them p) (kings p))
      then [(KING, from, to, NOPIECE)] else [])
    (bits (N.land (adjacent kbb) (bnot (c_us p)))))
  (bits (N.land (kings p) (c_us p))).

Definition slider_moves (piece : N) (att : N -> N -> N) (p : Position) (froms targets : N) : list Gen :=
  flat_map (fun from =>
    map (fun to => (piece, from, to, NOPIECE)) (bits (N.land (att from (occupied p)) targets)))
  (bits froms).

(* Position::move_generator: the callback arguments in call order *)
Definition move_generator (p : Position) : list Gen :=
  let g := gen_info p in
  let us := c_us p in
  let them := c_them p in
  let allowed := gi_allowed g in
  let bpinned := gi_bpinned g in
  let bxrays := gi_bxrays g in
  let hpinned := gi_hpinned g in
  let rpinned := gi_rpinned g in
  let rxrays := gi_rxrays g in
  let pinned := gi_pinned g in
  let upawns := N.land (pawns p) us in
  let emp := empty_bb p in
  let pushers := N.land upawns (bnot (N.lor hpinned bpinned)) in
  let singles := N.land (N.land (north pushers) emp) allowed in
  let doubles := N.land (N.land (N.land (N.land (north_north pushers) emp) (north emp)) RANK4) allowed in
  let cap_ne := N.land (N.land (east (north
        (N.land (N.land upawns (bnot rpinned)) (N.lor (bnot bpinned) (south_west bxrays))))) them) allowed in
  let cap_nw := N.land (N.land (north_west
        (N.land (N.land upawns (bnot rpinned)) (N.lor (bnot bpinned) (south_east bxrays)))) them) allowed in
  flat_map (promo_or_plain 8) (bits singles)
  ++ map (fun to => (PAWN, to - 16, to, NOPIECE)) (bits doubles)
  ++ flat_map (promo_or_plain 9) (bits cap_ne)
  ++ flat_map (promo_or_plain 7) (bits cap_nw)
  ++ (match ep p with
      | Some e => ep_candidate p g true e ++ ep_candidate p g false e
      | None => []
      end)
  ++ flat_map (fun from =>
       map (fun to => (KNIGHT, from, to, NOPIECE)) (bits (N.land (knights_bb (bit from)) allowed)))
     (bits (N.land (N.land (knights p) us) (bnot pinned)))
  ++ slider_moves BISHOP batt p (N.land (N.land (bishops p) us) bpinned) (N.land allowed bxrays)
  ++ slider_moves BISHOP batt p (N.land (N.land (bishops p) us) (bnot pinned)) allowed
  ++ slider_moves ROOK ratt p (N.land (N.land (rooks p) us) rpinned) (N.land allowed rxrays)
  ++ slider_moves ROOK ratt p (N.land (N.land (rooks p) us) (bnot pinned)) allowed
  ++ slider_moves QUEEN batt p (N.land (N.land (queens p) us) bpinned) (N.land allowed bxrays)
  ++ slider_moves QUEEN ratt p (N.land (N.land (queens p) us) rpinned) (N.land allowed rxrays)
  ++ slider_moves QUEEN qatt p (N.land (N.land (queens p) us) (bnot pinned)) allowed
  ++ king_steps p
  ++ (if castle_ok p g (us_ksc p) (sq_of (cf0 p) 0) G1 F1
      then [(KING, gi_ksq g, sq_of (cf0 p) 0, NOPIECE)] else [])
  ++ (if castle_ok p g (us_qsc p) (sq_of (cf1 p) 0) C1 D1
      then [(KING, gi_ksq g, sq_of (cf1 p) 0, NOPIECE)] else []).

Definition gen_mv (x : Gen) : Mv := let '(_, f, t, pr) := x in mkMv f t pr.

Definition legal_moves (p : Position) : list Mv := map gen_mv (move_generator p).

Definition legal_captures (p : Position) : list Mv :=
  map gen_mv (filter (fun x : Gen =>
    let '(piece, _, to, _) := x in
    is_set (c_them p) to
    || ((piece =? PAWN) && match ep p with Some e => to =? e | None => false end))
  (move_generator p)).

(* Position::count_moves *)
Definition count_sliders (att : N -> N -> N) (p : Position) (froms targets : N) : N :=
  fold_left (fun acc from => acc + popcount (N.land (att from (occupied p)) targets)) (bits froms) 0.

Definition count_moves (p : Position) : N :=
  let g := gen_info p in
  let us := c_us p in
  let them := c_them p in
  let allowed := gi_allowed g in
  let bpinned := gi_bpinned g in
  let bxrays := gi_bxrays g in
  let hpinned := gi_hpinned g in
  let rpinned := gi_rpinned g in
  let rxrays := gi_rxrays g in
  let pinned := gi_pinned g in
  let upawns := N.land (pawns p) us in
  let emp := empty_bb p in
  let pawns_promo := N.land upawns RANK7 in
  let pawns_nonpromo := N.land upawns BELOW_RANK7 in
  let np := bnot (N.lor hpinned bpinned) in
  let single x := popcount (N.land (N.land (north (N.land x np)) emp) allowed) in
  let capne x := popcount (N.land (N.land (north_east
        (N.land (N.land x (bnot rpinned)) (N.lor (bnot bpinned) (south_west bxrays)))) them) allowed) in
  let capnw x := popcount (N.land (N.land (north_west
        (N.land (N.land x (bnot rpinned)) (N.lor (bnot bpinned) (south_east bxrays)))) them) allowed) in
  4 * single pawns_promo + single pawns_nonpromo
  + popcount (N.land (N.land (N.land (N.land (north_north (N.land upawns np)) emp) (north emp)) RANK4) allowed)
  + 4 * capne pawns_promo + capne pawns_nonpromo
  + 4 * capnw pawns_promo + capnw pawns_nonpromo
  + (match ep p with
     | Some e => N.of_nat (length (ep_candidate p g true e)) + N.of_nat (length (ep_candidate p g false e))
     | None => 0
     end)
  + fold_left (fun acc from => acc + popcount (N.land (knights_bb (bit from)) allowed))
      (bits (N.land (N.land (knights p) us) (bnot pinned))) 0
  + count_sliders batt p (N.land (N.land (bishops p) us) bpinned) (N.land allowed bxrays)
  + count_sliders batt p (N.land (N.land (bishops p) us) (bnot pinned)) allowed
  + count_sliders ratt p (N.land (N.land (rooks p) us) rpinned) (N.land allowed rxrays)
  + count_sliders ratt p (N.land (N.land (rooks p) us) (bnot pinned)) allowed
  + count_sliders batt p (N.land (N.land (queens p) us) bpinned) (N.land allowed bxrays)
  + count_sliders ratt p (N.land (N.land (queens p) us) rpinned) (N.land allowed rxrays)
  + count_sliders qatt p (N.land (N.land (queens p) us) (bnot pinned)) allowed
  + N.of_nat (length (king_steps p))
  + (if castle_ok p g (us_ksc p) (sq_of (cf0 p) 0) G1 F1 then 1 else 0)
  + (if castle_ok p g (us_qsc p) (sq_of (cf1 p) 0) C1 D1 then 1 else 0).
