(* 64-bit words and bitboards on N, mirroring src/chess/bitboard.rs, bitboarditer.rs, square.rs.
   Every operation keeps its result below 2^64 when its arguments are (see proofs/BitsFacts.v). *)
From Coq Require Import NArith ZArith List Bool.
From Rawr Require Import Consts.
Import ListNotations.
Local Open Scope N_scope.

Definition M64 : N := 18446744073709551615.          (* 2^64 - 1 *)
Definition TWO64 : N := 18446744073709551616.

Definition w64 (x : N) : N := N.land x M64.
Definition shl (b n : N) : N := N.land (N.shiftl b n) M64.   (* u64 << n, n < 64 *)
Definition shr (b n : N) : N := N.shiftr b n.                 (* u64 >> n *)
Definition bnot (b : N) : N := N.ldiff M64 b.                 (* !b on u64 *)
Definition wmul (a b : N) : N := N.land (a * b) M64.          (* wrapping_mul *)
Definition wsub (a b : N) : N := N.land (a + TWO64 - N.land b M64) M64.   (* wrapping_sub, a < 2^64 *)

Definition bit (s : N) : N := shl 1 s.                        (* 1u64 << s *)
Definition is_set (b s : N) : bool := N.testbit b s.
Definition is_occ (b : N) : bool := negb (b =? 0).
Definition is_emp (b : N) : bool := b =? 0.

(* bitboard.rs shifts; the edge masks and amounts are read from the source by the translator *)
Definition shift_by (left : bool) (amt mask b : N) : N :=
  N.land (if left then shl b amt else shr b amt) mask.
Definition north (b : N) : N := shl b 8.
Definition south (b : N) : N := shr b 8.
Definition east (b : N) : N := shift_by BB_EAST_LEFT BB_EAST_AMT BB_EAST_MASK b.
Definition west (b : N) : N := shift_by BB_WEST_LEFT BB_WEST_AMT BB_WEST_MASK b.
Definition north_east (b : N) : N := shift_by BB_NORTH_EAST_LEFT BB_NORTH_EAST_AMT BB_NORTH_EAST_MASK b.
Definition north_west (b : N) : N := shift_by BB_NORTH_WEST_LEFT BB_NORTH_WEST_AMT BB_NORTH_WEST_MASK b.
Definition south_east (b : N) : N := shift_by BB_SOUTH_EAST_LEFT BB_SOUTH_EAST_AMT BB_SOUTH_EAST_MASK b.
Definition south_west (b : N) : N := shift_by BB_SOUTH_WEST_LEFT BB_SOUTH_WEST_AMT BB_SOUTH_WEST_MASK b.
Definition north_north (b : N) : N := shl b 16.

Definition NOT_A : N := 18374403900871474942.   (* 0xfefefefefefefefe *)
Definition NOT_H : N := 9187201950435737471.    (* 0x7f7f7f7f7f7f7f7f *)

(* Bitboard::adjacent *)
Definition adjacent (b : N) : N :=
  N.lor (N.lor (N.lor (shl b 8) (shr b 8))
               (N.land (N.lor (N.lor (shl b 7) (shr b 9)) (shr b 1)) NOT_H))
        (N.land (N.lor (N.lor (shr b 7) (shl b 9)) (shl b 1)) NOT_A).

(* count_ones / trailing_zeros / 63 - leading_zeros / swap_bytes *)
Fixpoint pop_pos (p : positive) : N :=
  match p with xH => 1 | xO q => pop_pos q | xI q => N.succ (pop_pos q) end.
Definition popcount (b : N) : N := match b with 0 => 0 | Npos p => pop_pos p end.

Fixpoint tz_pos (p : positive) : N :=
  match p with xO q => N.succ (tz_pos q) | _ => 0 end.
Definition lsb (b : N) : N := match b with 0 => 64 | Npos p => tz_pos p end.
Definition hsb (b : N) : N := N.log2 b.          (* only used on non-empty boards *)

Definition byte_of (b i : N) : N := N.land (N.shiftr b (8 * i)) 255.
Definition bswap (b : N) : N :=
  N.lor (N.lor (N.lor (N.shiftl (byte_of b 0) 56) (N.shiftl (byte_of b 1) 48))
               (N.lor (N.shiftl (byte_of b 2) 40) (N.shiftl (byte_of b 3) 32)))
        (N.lor (N.lor (N.shiftl (byte_of b 4) 24) (N.shiftl (byte_of b 5) 16))
               (N.lor (N.shiftl (byte_of b 6) 8) (byte_of b 7))).

(* BitboardIter: squares of the set bits in ascending order *)
Fixpoint bits_pos (p : positive) (i : N) : list N :=
  match p with
  | xH => [i]
  | xO q => bits_pos q (N.succ i)
  | xI q => i :: bits_pos q (N.succ i)
  end.
Definition bits (b : N) : list N := match b with 0 => [] | Npos p => bits_pos p 0 end.

(* squares *)
Definition file_of (s : N) : N := s mod 8.
Definition rank_of (s : N) : N := s / 8.
Definition sq_of (f r : N) : N := 8 * r + f.                  (* Square::from_coords *)
Definition flip_sq (s : N) : N := N.lxor s 56.
Definition maybe_flip (s : N) (fl : bool) : N := if fl then flip_sq s else s.

Definition from_file (s : N) : N := shl 72340172838076673 (file_of s).   (* 0x0101010101010101 << file *)
Definition from_rank (s : N) : N := shl 255 (8 * rank_of s).
Definition below (s : N) : N := wsub (bit s) 1.                           (* (1 << s) - 1 *)
(* `a & !b ^ c` parses as `(a & !b) ^ c` in Rust *)
Definition ray_north_bb (s : N) : N := N.lxor (N.land (from_file s) (bnot (below s))) (bit s).
Definition ray_south_bb (s : N) : N := N.land (from_file s) (below s).
Definition ray_east_bb (s : N) : N := N.lxor (N.land (from_rank s) (bnot (below s))) (bit s).
Definition ray_west_bb (s : N) : N := N.land (from_rank s) (below s).

Definition RANK1 : N := 255.
Definition RANK8 : N := 18374686479671623680.    (* 0xFF00000000000000 *)
Definition RANK4 : N := 4278190080.              (* 0xFF000000 *)
Definition RANK7 : N := 71776119061217280.       (* 0x00FF000000000000 *)
Definition RANK18 : N := 18374686479671623935.   (* 0xFF000000000000FF *)
Definition BELOW_RANK7 : N := 281474976710655.   (* 0xFFFFFFFFFFFF *)

Definition nthN {A} (l : list A) (i : N) (d : A) : A := nth (N.to_nat i) l d.
