(* src/chess/rays.rs, position.rs, flip.rs, attacks.rs, validate.rs *)
From Coq Require Import NArith ZArith List Bool.
From Rawr Require Import Consts Bits Magic.
Import ListNotations.
Local Open Scope N_scope.

(* ------------------------------------------------------------------ rays.rs *)
Definition fill7 (step : N -> N) (sq blockers : N) : N :=
  let nb := bnot blockers in
  let m := step (bit sq) in
  let m := N.lor m (step (N.land m nb)) in
  let m := N.lor m (step (N.land m nb)) in
  let m := N.lor m (step (N.land m nb)) in
  let m := N.lor m (step (N.land m nb)) in
  let m := N.lor m (step (N.land m nb)) in
  let m := N.lor m (step (N.land m nb)) in
  m.
Definition ray_ne := fill7 north_east.
Definition ray_nw := fill7 north_west.
Definition ray_se := fill7 south_east.
Definition ray_sw := fill7 south_west.
Definition ray_n := fill7 north.
Definition ray_s := fill7 south.
Definition ray_e := fill7 east.
Definition ray_w := fill7 west.

Definition knights_bb (bb : N) : N :=
  N.lor (N.lor (N.lor (north_east (north bb)) (north_west (north bb)))
               (N.lor (south_east (south bb)) (south_west (south bb))))
        (N.lor (N.lor (north_east (east bb)) (south_east (east bb)))
               (N.lor (north_west (west bb)) (south_west (west bb)))).
Definition pawns_bb (us : bool) (bb : N) : N :=
  if us then N.lor (north_east bb) (north_west bb) else N.lor (south_east bb) (south_west bb).

(* slider attacks used by the position-level model: the coordinate walk.  The Rust calls
   magic::bishop_moves / rook_moves; MagicFacts.bishop_moves_exact / rook_moves_exact prove these
   equal to the walk for every argument, so the substitution is sound (see DESIGN section 3). *)
Definition batt (sq occ : N) : N := bishop_walk sq occ.
Definition ratt (sq occ : N) : N := rook_walk sq occ.
Definition qatt (sq occ : N) : N := N.lor (batt sq occ) (ratt sq occ).

(* ------------------------------------------------------------------ position.rs *)
(* pieces: Pawn=0 Knight=1 Bishop=2 Rook=3 Queen=4 King=5 None=6;  turn: false=White true=Black *)
Record Position := mkPos {
  c_us : N; c_them : N;
  pawns : N; knights : N; bishops : N; rooks : N; queens : N; kings : N;
  halfmoves : Z; fullmoves : Z;
  turn : bool;
  ep : option N;
  us_ksc : bool; us_qsc : bool; them_ksc : bool; them_qsc : bool;
  cf0 : N; cf1 : N; cf2 : N; cf3 : N;
  hash : N;
  is_frc : bool
}.

Definition PAWN := 0. Definition KNIGHT := 1. Definition BISHOP := 2.
Definition ROOK := 3. Definition QUEEN := 4. Definition KING := 5. Definition NOPIECE := 6.

Definition occupied (p : Position) : N := N.lor (c_us p) (c_them p).
Definition empty_bb (p : Position) : N := bnot (occupied p).
Definition get_white (p : Position) : N := if turn p then c_them p else c_us p.
Definition get_black (p : Position) : N := if turn p then c_us p else c_them p.
Definition get_piece (p : Position) (i : N) : N :=
  match i with
  | 0 => pawns p | 1 => knights p | 2 => bishops p | 3 => rooks p | 4 => queens p | _ => kings p
  end.
Definition piece_on (p : Position) (s : N) : option N :=
  if is_set (pawns p) s then Some PAWN
  else if is_set (knights p) s then Some KNIGHT
  else if is_set (bishops p) s then Some BISHOP
  else if is_set (rooks p) s then Some ROOK
  else if is_set (queens p) s then Some QUEEN
  else if is_set (kings p) s then Some KING
  else None.
(* Some false = White, Some true = Black *)
Definition colour_on (p : Position) (s : N) : option bool :=
  if is_set (c_us p) s then Some (turn p)
  else if is_set (c_them p) s then Some (negb (turn p))
  else None.

Definition set_piece (p : Position) (i v : N) : Position :=
  match i with
  | 0 => mkPos (c_us p) (c_them p) v (knights p) (bishops p) (rooks p) (queens p) (kings p)
           (halfmoves p) (fullmoves p) (turn p) (ep p) (us_ksc p) (us_qsc p) (them_ksc p) (them_qsc p)
           (cf0 p) (cf1 p) (cf2 p) (cf3 p) (hash p) (is_frc p)
  | 1 => mkPos (c_us p) (c_them p) (pawns p) v (bishops p) (rooks p) (queens p) (kings p)
           (halfmoves p) (fullmoves p) (turn p) (ep p) (us_ksc p) (us_qsc p) (them_ksc p) (them_qsc p)
           (cf0 p) (cf1 p) (cf2 p) (cf3 p) (hash p) (is_frc p)
  | 2 => mkPos (c_us p) (c_them p) (pawns p) (knights p) v (rooks p) (queens p) (kings p)
           (halfmoves p) (fullmoves p) (turn p) (ep p) (us_ksc p) (us_qsc p) (them_ksc p) (them_qsc p)
           (cf0 p) (cf1 p) (cf2 p) (cf3 p) (hash p) (is_frc p)
  | 3 => mkPos (c_us p) (c_them p) (pawns p) (knights p) (bishops p) v (queens p) (kings p)
           (halfmoves p) (fullmoves p) (turn p) (ep p) (us_ksc p) (us_qsc p) (them_ksc p) (them_qsc p)
           (cf0 p) (cf1 p) (cf2 p) (cf3 p) (hash p) (is_frc p)
  | 4 => mkPos (c_us p) (c_them p) (pawns p) (knights p) (bishops p) (rooks p) v (kings p)
           (halfmoves p) (fullmoves p) (turn p) (ep p) (us_ksc p) (us_qsc p) (them_ksc p) (them_qsc p)
           (cf0 p) (cf1 p) (cf2 p) (cf3 p) (hash p) (is_frc p)
  | _ => mkPos (c_us p) (c_them p) (pawns p) (knights p) (bishops p) (rooks p) (queens p) v
           (halfmoves p) (fullmoves p) (turn p) (ep p) (us_ksc p) (us_qsc p) (them_ksc p) (them_qsc p)
           (cf0 p) (cf1 p) (cf2 p) (cf3 p) (hash p) (is_frc p)
  end.
Definition xor_piece (p : Position) (i bb : N) : Position := set_piece p i (N.lxor (get_piece p i) bb).
Definition set_us (p : Position) (v : N) : Position :=
  mkPos v (c_them p) (pawns p) (knights p) (bishops p) (rooks p) (queens p) (kings p)
        (halfmoves p) (fullmoves p) (turn p) (ep p) (us_ksc p) (us_qsc p) (them_ksc p) (them_qsc p)
        (cf0 p) (cf1 p) (cf2 p) (cf3 p) (hash p) (is_frc p).
Definition set_them (p : Position) (v : N) : Position :=
  mkPos (c_us p) v (pawns p) (knights p) (bishops p) (rooks p) (queens p) (kings p)
        (halfmoves p) (fullmoves p) (turn p) (ep p) (us_ksc p) (us_qsc p) (them_ksc p) (them_qsc p)
        (cf0 p) (cf1 p) (cf2 p) (cf3 p) (hash p) (is_frc p).
Definition xor_us (p : Position) (bb : N) : Position := set_us p (N.lxor (c_us p) bb).
Definition xor_them (p : Position) (bb : N) : Position := set_them p (N.lxor (c_them p) bb).
Definition set_hash (p : Position) (h : N) : Position :=
  mkPos (c_us p) (c_them p) (pawns p) (knights p) (bishops p) (rooks p) (queens p) (kings p)
        (halfmoves p) (fullmoves p) (turn p) (ep p) (us_ksc p) (us_qsc p) (them_ksc p) (them_qsc p)
        (cf0 p) (cf1 p) (cf2 p) (cf3 p) h (is_frc p).
Definition set_frc (p : Position) (b : bool) : Position :=
  mkPos (c_us p) (c_them p) (pawns p) (knights p) (bishops p) (rooks p) (queens p) (kings p)
        (halfmoves p) (fullmoves p) (turn p) (ep p) (us_ksc p) (us_qsc p) (them_ksc p) (them_qsc p)
        (cf0 p) (cf1 p) (cf2 p) (cf3 p) (hash p) b.

(* flip.rs *)
Definition flip (p : Position) : Position :=
  mkPos (bswap (c_them p)) (bswap (c_us p))
        (bswap (pawns p)) (bswap (knights p)) (bswap (bishops p)) (bswap (rooks p)) (bswap (queens p))
        (bswap (kings p))
        (halfmoves p) (fullmoves p) (negb (turn p))
        (match ep p with Some s => Some (flip_sq s) | None => None end)
        (them_ksc p) (them_qsc p) (us_ksc p) (us_qsc p)
        (cf2 p) (cf3 p) (cf0 p) (cf1 p) (hash p) (is_frc p).

(* Position::startpos(), from the literal in position.rs (translator) *)
Definition startpos : Position :=
  mkPos (nthN STARTPOS_BBS 0 0) (nthN STARTPOS_BBS 1 0)
        (nthN STARTPOS_BBS 2 0) (nthN STARTPOS_BBS 3 0) (nthN STARTPOS_BBS 4 0)
        (nthN STARTPOS_BBS 5 0) (nthN STARTPOS_BBS 6 0) (nthN STARTPOS_BBS 7 0)
        0%Z 1%Z false None true true true true 7 0 7 0 STARTPOS_HASH false.

(* Position::is_capture *)
Definition is_capture (p : Position) (from to : N) : bool :=
  is_set (c_them p) to
  || (is_set (pawns p) from && match ep p with Some e => e =? to | None => false end).

(* ------------------------------------------------------------------ attacks.rs *)
Definition is_safe (sq blockers pw kn bi ro qu ki : N) : bool :=
  let bb := bit sq in
  if is_set (pawns_bb false pw) sq then false
  else if is_occ (N.land (knights_bb bb) kn) then false
  else if is_occ (N.land (batt sq blockers) (N.lor bi qu)) then false
  else if is_occ (N.land (ratt sq blockers) (N.lor ro qu)) then false
  else if is_occ (N.land (adjacent bb) ki) then false
  else true.

(* side: true = Us, false = Them *)
Definition get_side (p : Position) (us : bool) : N := if us then c_us p else c_them p.

Definition is_sq_attacked (p : Position) (sq : N) (us : bool) : bool :=
  let bb := bit sq in
  let sd := get_side p us in
  let ksq := lsb (N.land (kings p) sd) in
  let bq := N.land sd (N.lor (bishops p) (queens p)) in
  let rq := N.land sd (N.lor (rooks p) (queens p)) in
  if is_set (pawns_bb us (N.land (pawns p) sd)) sq then true
  else if is_occ (N.land (N.land (knights_bb bb) (knights p)) sd) then true
  else if is_occ (N.land (batt sq (occupied p)) bq) then true
  else if is_occ (N.land (ratt sq (occupied p)) rq) then true
  else if is_set (adjacent (bit ksq)) sq then true
  else false.

Definition is_bb_attacked (p : Position) (bb : N) (us : bool) : bool :=
  let sd := get_side p us in
  if is_occ (N.land (pawns_bb us (N.land (pawns p) sd)) bb) then true
  else if is_occ (N.land (N.land (knights_bb bb) (knights p)) sd) then true
  else if is_occ (N.land (N.land (adjacent bb) (kings p)) sd) then true
  else
    let bq := N.land sd (N.lor (bishops p) (queens p)) in
    let rq := N.land sd (N.lor (rooks p) (queens p)) in
    existsb (fun sq => is_occ (N.land (batt sq (occupied p)) bq)
                       || is_occ (N.land (ratt sq (occupied p)) rq)) (bits bb).

Definition get_attacked (p : Position) (mask : N) (us : bool) : N :=
  let sd := get_side p us in
  let a := N.land mask (pawns_bb us (N.land (pawns p) sd)) in
  let a := N.lor a (N.land mask (knights_bb (N.land (knights p) sd))) in
  let a := N.lor a (N.land mask (adjacent (N.land (kings p) sd))) in
  let bq := N.land sd (N.lor (bishops p) (queens p)) in
  let rq := N.land sd (N.lor (rooks p) (queens p)) in
  fold_left (fun acc sq =>
    if is_occ (N.land (batt sq (occupied p)) bq) || is_occ (N.land (ratt sq (occupied p)) rq)
    then N.lor acc (bit sq) else acc) (bits (N.land mask (bnot a))) a.

Definition in_check (p : Position) : bool :=
  is_sq_attacked p (lsb (N.land (kings p) (c_us p))) false.
Definition in_check_them (p : Position) : bool :=
  is_sq_attacked p (lsb (N.land (kings p) (c_them p))) true.

(* ------------------------------------------------------------------ validate.rs
   None = Ok(()), Some n = the n-th Err in source order (only accept/reject is compared) *)
Definition validate (p : Position) : option N :=
  if is_occ (N.land (pawns p) RANK18) then Some 1
  else if is_occ (N.land (get_white p) (get_black p)) then Some 2
  else if is_occ (N.land (pawns p) (knights p)) then Some 3
  else if is_occ (N.land (pawns p) (bishops p)) then Some 4
  else if is_occ (N.land (pawns p) (rooks p)) then Some 5
  else if is_occ (N.land (pawns p) (queens p)) then Some 6
  else if is_occ (N.land (pawns p) (kings p)) then Some 7
  else if is_occ (N.land (knights p) (bishops p)) then Some 8
  else if is_occ (N.land (knights p) (rooks p)) then Some 9
  else if is_occ (N.land (knights p) (queens p)) then Some 10
  else if is_occ (N.land (knights p) (kings p)) then Some 11
  else if is_occ (N.land (bishops p) (rooks p)) then Some 12
  else if is_occ (N.land (bishops p) (queens p)) then Some 13
  else if is_occ (N.land (bishops p) (kings p)) then Some 14
  else if is_occ (N.land (rooks p) (queens p)) then Some 15
  else if is_occ (N.land (rooks p) (kings p)) then Some 16
  else if is_occ (N.land (queens p) (kings p)) then Some 17
  else
  match (match ep p with
         | Some e =>
           let bb := bit e in
           if negb (rank_of e =? 5) then Some 18
           else if is_emp (N.land (N.land (south bb) (c_them p)) (pawns p)) then Some 19
           else if is_occ (N.land bb (occupied p)) then Some 20
           else None
         | None => None
         end) with
  | Some e => Some e
  | None =>
  if negb (popcount (N.land (get_white p) (kings p)) =? 1) then Some 21
  else if negb (popcount (N.land (get_black p) (kings p)) =? 1) then Some 22
  else if (halfmoves p <? 0)%Z then Some 23
  else if (fullmoves p <? 1)%Z then Some 24
  else
    let us_ksq := lsb (N.land (c_us p) (kings p)) in
    let them_ksq := lsb (N.land (c_them p) (kings p)) in
    let us_rooks := N.land (c_us p) (rooks p) in
    let them_rooks := N.land (c_them p) (rooks p) in
    let us_ksc_sq := sq_of (cf0 p) 0 in
    let us_qsc_sq := sq_of (cf1 p) 0 in
    let them_ksc_sq := sq_of (cf2 p) 7 in
    let them_qsc_sq := sq_of (cf3 p) 7 in
    if us_ksc p && negb (rank_of us_ksq =? 0) then Some 25
    else if us_qsc p && negb (rank_of us_ksq =? 0) then Some 26
    else if them_ksc p && negb (rank_of them_ksq =? 7) then Some 27
    else if them_qsc p && negb (rank_of them_ksq =? 7) then Some 28
    else if us_ksc p && negb (is_set us_rooks us_ksc_sq) then Some 29
    else if us_qsc p && negb (is_set us_rooks us_qsc_sq) then Some 30
    else if them_ksc p && negb (is_set them_rooks them_ksc_sq) then Some 31
    else if them_qsc p && negb (is_set them_rooks them_qsc_sq) then Some 32
    else if is_sq_attacked p them_ksq true then Some 33
    else None
  end.
