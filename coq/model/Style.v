(* tools/style/style.py: the arithmetic layer (is_valid, the feature functions, the three scores) over exact
   rationals.  Python floats are modelled as Q (rounding is not modelled: see DESIGN); a ZeroDivisionError is None. *)
From Coq Require Import ZArith QArith List Bool.
Import ListNotations.
Local Open Scope Q_scope.

Record SStats := mkSStats {
  num_wins : Q; num_draws : Q; num_losses : Q; num_games : Q;
  castle_same : Q; castle_opposite : Q;
  total_captures : Q; total_noncaptures : Q; total_moves : Q;
  checks : Q; nonchecks : Q;
  early_captures : Q; mid_captures : Q; late_captures : Q; extreme_captures : Q;
  capture_distance : list Q; noncapture_distance : list Q;        (* 8 entries each *)
  game_length : list (Q * Q);                                      (* (plies, number of games), non-zero entries *)
  short_games : Q; medium_games : Q; long_games : Q; extreme_games : Q;
  num_win_ahead : Q; num_win_equal : Q; num_win_behind : Q;
  early_pawn_pushes : list Q; mid_pawn_pushes : list Q; late_pawn_pushes : list Q;   (* 8 entries each, by rank *)
  total_pawn_pushes : Q; total_pawn_pushes_towards_king : Q;
  num_rook_threats : Q; num_bishop_threats : Q
}.

Definition nthq (l : list Q) (i : nat) : Q := nth i l 0.
Definition qeqb (a b : Q) : bool := Qeq_bool a b.
Definition qltb (a b : Q) : bool := negb (Qle_bool b a).

Definition is_valid (s : SStats) : bool :=
  qeqb (num_games s) (num_wins s + num_draws s + num_losses s)
  && qeqb (total_moves s) (total_captures s + total_noncaptures s)
  && qeqb (total_moves s) (checks s + nonchecks s)
  && qeqb (num_wins s) (num_win_ahead s + num_win_equal s + num_win_behind s)
  && qeqb (num_games s) (short_games s + medium_games s + long_games s + extreme_games s)
  && qeqb (total_captures s) (early_captures s + mid_captures s + late_captures s + extreme_captures s)
  && negb (qltb 0 (nthq (early_pawn_pushes s) 0) || qltb 0 (nthq (early_pawn_pushes s) 1))
  && negb (qltb 0 (nthq (mid_pawn_pushes s) 0) || qltb 0 (nthq (mid_pawn_pushes s) 1))
  && negb (qltb 0 (nthq (late_pawn_pushes s) 0) || qltb 0 (nthq (late_pawn_pushes s) 1))
  && negb (qltb (total_pawn_pushes s) (total_pawn_pushes_towards_king s)).

(* a / b as Python evaluates it: division by zero raises *)
Definition odiv (a b : Q) : option Q := if qeqb b 0 then None else Some (a / b).
Definition omap {A B} (f : A -> B) (o : option A) : option B := match o with Some x => Some (f x) | None => None end.

Definition w_game : Q * Q * Q := (6 # 10, 25 # 100, 15 # 100).
Definition dist_weights : list Q := [0; 8; 4; 2; 1; 0; 0; 0].
Definition push_weights : list Q := [0; 0; 1; 1; 2; 4; 8; 16].

Fixpoint dot (a b : list Q) : Q :=
  match a, b with x :: a', y :: b' => x * y + dot a' b' | _, _ => 0 end.

Definition total_early_moves (s : SStats) : Q :=
  fold_right (fun e acc => (if Qle_bool (fst e) 40 then fst e else 40) * snd e + acc) 0 (game_length s).

(* ---- aggression features *)
Definition f_game_length (s : SStats) : option Q :=
  match odiv ((6 # 10) * short_games s + (25 # 100) * medium_games s + (15 # 100) * long_games s) (num_games s) with
  | Some x => odiv x (6 # 10) | None => None end.
Definition f_capture_early (s : SStats) : option Q :=
  if qeqb (total_captures s) 0 then Some 0 else
  match odiv ((6 # 10) * early_captures s + (25 # 100) * mid_captures s + (15 # 100) * late_captures s) (total_captures s) with
  | Some x => odiv x (6 # 10) | None => None end.
Definition f_near_king (hist : list Q) (total : Q) : option Q :=
  let max_score := 8 * total in
  if qeqb max_score 0 then Some 0 else odiv (dot dist_weights hist) max_score.
Definition f_capture_near_king (s : SStats) := f_near_king (capture_distance s) (total_captures s).
Definition f_move_near_king (s : SStats) := f_near_king (noncapture_distance s) (total_noncaptures s).
Definition f_castle_opposite (s : SStats) : option Q :=
  if qeqb (castle_opposite s + castle_same s) 0 then Some 0
  else odiv (castle_opposite s) (castle_opposite s + castle_same s).
Definition f_push_pawns (s : SStats) : option Q :=
  if qeqb (total_pawn_pushes s) 0 then Some 0 else
  (* sum(weights[3:]) / len(weights[3:]) = 31 / 5 *)
  odiv (dot push_weights (early_pawn_pushes s)) ((31 # 5) * total_early_moves s).
Definition f_ratio (a b : Q) : option Q := if qeqb b 0 then Some 0 else odiv a b.
Definition f_checks (s : SStats) := f_ratio (checks s) (total_moves s).
Definition f_wins_behind (s : SStats) := f_ratio (num_win_behind s) (num_wins s).
Definition f_capture_frequency (s : SStats) := f_ratio (total_captures s) (total_moves s).
Definition f_push_towards_king (s : SStats) := f_ratio (total_pawn_pushes_towards_king s) (total_pawn_pushes s).
Definition f_rook_threats (s : SStats) := f_ratio (num_rook_threats s) (total_moves s).
Definition f_bishop_threats (s : SStats) := f_ratio (num_bishop_threats s) (total_moves s).

Definition aggression_features (s : SStats) : list (Q * option Q) :=
  [(4, f_game_length s); (2, f_capture_early s); (4, f_capture_near_king s); (2, f_move_near_king s);
   (2 # 10, f_castle_opposite s); (1, f_push_pawns s); (5, f_checks s); (5, f_wins_behind s);
   (5, f_capture_frequency s); (4, f_push_towards_king s); (4, f_rook_threats s); (4, f_bishop_threats s)].

(* the loop: value = func(stats); assert 0 <= value <= 1; score += weight * value.
   None = an exception (division by zero or a failed range assertion) *)
Definition in_unit (x : Q) : bool := Qle_bool 0 x && Qle_bool x 1.
Fixpoint weighted (fs : list (Q * option Q)) (acc : Q) : option Q :=
  match fs with
  | [] => Some acc
  | (w, Some v) :: t => if in_unit v then weighted t (acc + w * v) else None
  | (_, None) :: _ => None
  end.
Definition weight_sum (fs : list (Q * option Q)) : Q := fold_right (fun e a => fst e + a) 0 fs.

Inductive ScoreResult := NoGames | Raised | Score (q : Q).

Definition aggression_score (s : SStats) : ScoreResult :=
  if qeqb (num_games s) 0 then NoGames else
  match weighted (aggression_features s) 0 with
  | None => Raised
  | Some sc =>
    let scaled := sc / weight_sum (aggression_features s) in
    let scaled := if Qle_bool 1 (2 * scaled) then 1 else 2 * scaled in
    if in_unit scaled then Score scaled else Raised
  end.

Definition p_game_length (s : SStats) : option Q :=
  match odiv ((6 # 10) * long_games s + (25 # 100) * medium_games s + (15 # 100) * short_games s) (num_games s) with
  | Some x => odiv x (6 # 10) | None => None end.
Definition p_capture_early (s : SStats) : option Q :=
  if qeqb (total_captures s) 0 then Some 0 else
  match odiv ((6 # 10) * late_captures s + (25 # 100) * mid_captures s + (15 # 100) * early_captures s) (total_captures s) with
  | Some x => odiv x (6 # 10) | None => None end.
Definition positional_features (s : SStats) : list (Q * option Q) := [(2, p_game_length s); (1, p_capture_early s)].

Definition positional_score (s : SStats) : ScoreResult :=
  if qeqb (num_games s) 0 then NoGames else
  match weighted (positional_features s) 0 with
  | None => Raised
  | Some sc => let scaled := sc / weight_sum (positional_features s) in
               if in_unit scaled then Score scaled else Raised
  end.

Definition pawn_pusher_score (s : SStats) : ScoreResult :=
  if qeqb (num_games s) 0 then NoGames else
  match weighted [(1, Some 0)] 0 with
  | None => Raised
  | Some sc => let scaled := sc / 1 in if in_unit scaled then Score scaled else Raised
  end.
