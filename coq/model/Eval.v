(* src/search/eval.rs, score.rs.  i32 arithmetic modelled in Z (no overflow: see C17 bound);
   Rust's `/` on i32 truncates toward zero = Z.quot. *)
From Coq Require Import NArith ZArith List Bool.
From Rawr Require Import Consts Bits Magic Position.
Import ListNotations.
Local Open Scope Z_scope.

Definition Score := (Z * Z)%type.
Definition sadd (a b : Score) : Score := (fst a + fst b, snd a + snd b).
Definition ssub (a b : Score) : Score := (fst a - fst b, snd a - snd b).
Definition smul (a : Score) (k : Z) : Score := (fst a * k, snd a * k).

Definition zpop (b : N) : Z := Z.of_N (popcount b).

Definition get_passed_pawns (us them : N) : N :=
  let m := N.lor (N.lor (south them) (south_east them)) (south_west them) in
  let m := N.lor m (south m) in
  let m := N.lor m (south m) in
  let m := N.lor m (south m) in
  let m := N.lor m (south m) in
  N.land us (bnot m).

Definition get_open_files (pw : N) : N :=
  bnot (fold_left N.lor
    [shl pw 56; shl pw 48; shl pw 40; shl pw 32; shl pw 24; shl pw 16; shl pw 8; pw;
     shr pw 8; shr pw 16; shr pw 24; shr pw 32; shr pw 40; shr pw 48; shr pw 56] 0%N).

Definition get_king_shield (ksq : N) : N :=
  let bb := bit ksq in
  fold_left N.lor
    [north bb; north_east bb; north_west bb; north (north bb); north_east (north bb); north_west (north bb)] 0%N.

Definition get_phase (p : Position) : Z :=
  let phase := PHASE_TOTAL - zpop (knights p) - zpop (bishops p)
               - zpop (rooks p) * PHASE_ROOK - zpop (queens p) * PHASE_QUEEN in
  Z.quot (phase * PHASE_SCALE + PHASE_ROUND) PHASE_DIV.

Definition taper (s : Score) (phase : Z) : Z :=
  Z.quot (fst s * (TAPER_SCALE - phase) + snd s * phase) TAPER_DIV.

Definition eval_us (p : Position) : Score :=
  let us := c_us p in
  let ksq := lsb (N.land (kings p) us) in
  let pawns_us := N.land (pawns p) us in
  let pawns_them := N.land (pawns p) (c_them p) in
  let open_files := get_open_files (pawns p) in
  let s := fold_left (fun acc sq => sadd acc (nthN PASSED_PAWNS (rank_of sq) (0, 0)))
                     (bits (get_passed_pawns pawns_us pawns_them)) (0, 0) in
  let s := sadd s (smul KING_PAWN_SHIELD (zpop (N.land (get_king_shield ksq) pawns_us))) in
  let s := sadd s (smul ROOK_OPEN_FILE (zpop (N.land (N.land open_files us) (rooks p)))) in
  fold_left (fun acc i =>
    let bb := N.land (get_piece p i) us in
    let acc := sadd acc (smul (nthN PIECE_VALUES i (0, 0)) (zpop bb)) in
    fold_left (fun a sq => sadd a (nthN (nthN PST i []) sq (0, 0))) (bits bb) acc)
  [0%N; 1%N; 2%N; 3%N; 4%N; 5%N] s.

Definition eval (p : Position) : Z :=
  taper (ssub (eval_us p) (eval_us (flip p))) (get_phase p).
