(* src/search/hashtable.rs, ttentry.rs.  Generic in the entry type (the tests use Hashtable<u64>, the
   engine Hashtable<TTEntry>); `esize` is size_of::<T>() (measured by the harness for the real types). *)
From Coq Require Import NArith ZArith List Bool FMapPositive.
From Rawr Require Import Consts Bits.
Import ListNotations.
Local Open Scope N_scope.

Section Table.
Variable T : Type.
Variable dflt : T.
Variable teqb : T -> T -> bool.
Variable esize : N.

Record Table := mkTable { t_len : N; t_map : PositiveMap.t T }.

Definition t_new_empty : Table := mkTable 0 (PositiveMap.empty T).

Definition slot (t : Table) (i : N) : T :=
  match PositiveMap.find (N.succ_pos i) (t_map t) with Some v => v | None => dflt end.

(* key as usize % len; None = division by zero panic *)
Definition get_idx (t : Table) (key : N) : option N :=
  if t_len t =? 0 then None else Some (key mod t_len t).

Definition t_poll (t : Table) (key : N) : option T :=
  match get_idx t key with Some i => Some (slot t i) | None => None end.

Definition t_add (t : Table) (key : N) (e : T) : option Table :=
  match get_idx t key with
  | Some i => Some (mkTable (t_len t) (PositiveMap.add (N.succ_pos i) e (t_map t)))
  | None => None
  end.

Fixpoint count_filled (t : Table) (n : nat) (i : N) : Z :=
  match n with
  | O => 0%Z
  | S n' => ((if teqb (slot t i) dflt then 0 else 1) + count_filled t n' (N.succ i))%Z
  end.

Definition t_hashfull (t : Table) : option Z :=
  let size := N.min (t_len t) 1000 in
  if size =? 0 then None else Some (count_filled t (N.to_nat size) 0).

Definition num_entries (megabytes : N) : N := (megabytes * 1024 * 1024) / esize.

(* Vec::resize(n, default): keeps the first n entries, pads with default (entries beyond n are reset, so
   that they do not reappear when the table grows again) *)
Definition t_resize (t : Table) (megabytes : N) : Table :=
  let n := num_entries megabytes in
  mkTable n (PositiveMap.mapi (fun k v => if Pos.pred_N k <? n then v else dflt) (t_map t)).

Definition t_clear (t : Table) : Table := mkTable (t_len t) (PositiveMap.empty T).

Definition t_new (megabytes : N) : Table := t_resize t_new_empty megabytes.

End Table.

Arguments mkTable {T}. Arguments t_len {T}. Arguments t_map {T}.

(* ttentry.rs; flag: 0 Exact, 1 Lower, 2 Upper; mv as (from, to, promo) *)
Record TTEntry := mkTT { e_hash : N; e_from : N; e_to : N; e_promo : N; e_score : Z; e_depth : Z; e_flag : N }.
Definition tt_default : TTEntry := mkTT 0 0 0 0 0%Z 0%Z 0.
Definition tt_eqb (a b : TTEntry) : bool :=
  (e_hash a =? e_hash b) && (e_from a =? e_from b) && (e_to a =? e_to b) && (e_promo a =? e_promo b)
  && (e_score a =? e_score b)%Z && (e_depth a =? e_depth b)%Z && (e_flag a =? e_flag b).

Definition TTable := Table TTEntry.
Definition tt_poll (t : TTable) (k : N) := t_poll TTEntry tt_default t k.
Definition tt_add (t : TTable) (k : N) (e : TTEntry) := t_add TTEntry t k e.
Definition tt_hashfull (t : TTable) := t_hashfull TTEntry tt_default tt_eqb t.
Definition tt_resize (t : TTable) (mb : N) := t_resize TTEntry tt_default TTENTRY_BYTES_DEFAULT t mb.
Definition tt_clear (t : TTable) := t_clear TTEntry t.
Definition tt_new (mb : N) : TTable := t_new TTEntry tt_default TTENTRY_BYTES_DEFAULT mb.
