(* src/search/qsearch.rs, negamax.rs, root.rs, stats.rs, info.rs.
   Recursion on explicit fuel (bounds the recursion depth, i.e. the ply); None = out of fuel or a
   lookup in a zero-length table.  i32 scores in Z. *)
From Coq Require Import NArith ZArith List Bool.
From Rawr Require Import Consts Bits Magic Position MoveGen MakeMove Eval TT.
Import ListNotations.
Local Open Scope Z_scope.

Record Stats := mkStats { st_depth : Z; st_seldepth : Z; st_nodes : N; st_best : option Mv }.
Definition stats0 : Stats := mkStats 0 0 0%N None.

(* ---- move ordering: selection sort with swaps, exactly as coded (not stable) *)
Fixpoint find_best (l : list (Z * Mv)) (i : nat) (best : Z) (acc : option nat) : option nat :=
  match l with
  | [] => acc
  | x :: t => if best <? fst x then find_best t (S i) (fst x) (Some i) else find_best t (S i) best acc
  end.
Fixpoint replace_nth {A} (k : nat) (v : A) (l : list A) : list A :=
  match l, k with
  | [], _ => []
  | _ :: t, O => v :: t
  | x :: t, S k' => x :: replace_nth k' v t
  end.
Fixpoint sel_sort (n : nat) (l : list (Z * Mv)) : list (Z * Mv) :=
  match n, l with
  | S n', x :: rest =>
    match find_best rest 0 (fst x) None with
    | None => x :: sel_sort n' rest
    | Some k => nth k rest x :: sel_sort n' (replace_nth k x rest)
    end
  | _, _ => l
  end.

Definition order_score (vals : list Z) (p : Position) (m : Mv) : Z :=
  match piece_on p (m_to m) with
  | Some c => 10 * nthN vals c 0 - nthN vals (match piece_on p (m_from m) with Some x => x | None => 0%N end) 0
  | None => 0
  end.

Definition sort_q (p : Position) (ms : list Mv) : list Mv :=
  map snd (sel_sort (length ms) (map (fun m => (order_score ORDER_VALUES_QSEARCH p m, m)) ms)).

Definition sort_n (p : Position) (ms : list Mv) (ttmove : option Mv) : list Mv :=
  map snd (sel_sort (length ms) (map (fun m =>
    ((match ttmove with
      | Some t => if mv_eqb t m then TTMOVE_BONUS else order_score ORDER_VALUES_NEGAMAX p m
      | None => order_score ORDER_VALUES_NEGAMAX p m
      end), m)) ms)).

(* ---- qsearch.rs *)
Definition bump_nodes (st : Stats) : Stats :=
  mkStats (st_depth st) (st_seldepth st) (N.succ (st_nodes st)) (st_best st).

(* the move loop, with the recursive call abstracted *)
Definition q_loop (rec : Position -> Stats -> Z -> Z -> Z -> option (Z * Stats)) (p : Position) (beta ply : Z)
  : list Mv -> Stats -> Z -> Z -> option (Z * Stats) :=
  fix loop (ms : list Mv) (st : Stats) (alpha best : Z) : option (Z * Stats) :=
    match ms with
    | [] => Some (best, st)
    | m :: ms' =>
      match rec (makemove false p m) (bump_nodes st) (- beta) (- alpha) (ply + 1) with
      | None => None
      | Some (v, st) =>
        let score := - v in
        let best := if best <? score then score else best in
        let alpha := if alpha <? score then score else alpha in
        if beta <=? alpha then Some (best, st) else loop ms' st alpha best
      end
    end.

Fixpoint qsearch (fuel : nat) (p : Position) (st : Stats) (alpha beta ply : Z) : option (Z * Stats) :=
  match fuel with
  | O => None
  | S f =>
    let stand_pat := eval p in
    let st := mkStats (st_depth st) (Z.max (st_seldepth st) ply) (st_nodes st) (st_best st) in
    if beta <=? stand_pat then Some (stand_pat, st) else
    let alpha := if alpha <? stand_pat then stand_pat else alpha in
    q_loop (qsearch f) p beta ply (sort_q p (legal_captures p)) st alpha stand_pat
  end.

(* ---- negamax.rs *)
Record SS := mkSS { ss_hist : list N; ss_tt : TTable; ss_stats : Stats }.   (* history: most recent first *)

Definition is_endgame (p : Position) : bool :=
  (popcount (N.land (N.lor (N.lor (N.lor (knights p) (bishops p)) (rooks p)) (queens p)) (c_us p)) <=? 2)%N.

(* history.iter().rev().take(n).step_by(2).filter(== h).count() *)
Fixpoint count_rep (n : nat) (l : list N) (h : N) (even : bool) : Z :=
  match n, l with
  | S n', x :: t => (if even && (x =? h)%N then 1 else 0) + count_rep n' t h (negb even)
  | _, _ => 0
  end.

Definition set_nodes (st : Stats) (n : N) := mkStats (st_depth st) (st_seldepth st) n (st_best st).
Definition set_seld (st : Stats) (s : Z) := mkStats (st_depth st) s (st_nodes st) (st_best st).
Definition set_best (st : Stats) (b : option Mv) := mkStats (st_depth st) (st_seldepth st) (st_nodes st) b.
Definition with_stats (s : SS) (st : Stats) := mkSS (ss_hist s) (ss_tt s) st.
Definition push_hist (s : SS) (h : N) := mkSS (h :: ss_hist s) (ss_tt s) (ss_stats s).
Definition pop_hist (s : SS) := mkSS (tl (ss_hist s)) (ss_tt s) (ss_stats s).

Section Search.
Variable stopf : Stats -> bool.

Definition bump_nodes_ss (s : SS) : SS :=
  with_stats s (set_nodes (ss_stats s) (N.succ (st_nodes (ss_stats s)))).

(* score of one move: first move full window, later moves zero window (reduced) then re-search *)
Definition search_move (rec : Position -> SS -> Z -> Z -> Z -> Z -> bool -> option (Z * SS))
           (p : Position) (in_chk : bool) (beta ply depth : Z) (idx : Z) (m : Mv) (np : Position) (s : SS) (alpha : Z)
  : option (Z * SS) :=
  if idx =? 0 then
    match rec np s (- beta) (- alpha) (ply + 1) (depth - 1) true with
    | None => None
    | Some (v, s') => Some (- v, s')
    end
  else
    let is_capturing := is_capture p (m_from m) (m_to m) in
    let is_qp := (m_promo m =? QUEEN)%N in
    let reduction := if (idx <? 4) || (depth <? 3) || in_chk || is_capturing || is_qp then 0 else 1 in
    match rec np s (- alpha - 1) (- alpha) (ply + 1) (depth - 1 - reduction) true with
    | None => None
    | Some (v, s') =>
      let score := - v in
      if (alpha <? score) && (score <? beta) then
        match rec np s' (- beta) (- alpha) (ply + 1) (depth - 1) true with
        | None => None
        | Some (v2, s'') => Some (- v2, s'')
        end
      else Some (score, s')
    end.

Definition n_loop (rec : Position -> SS -> Z -> Z -> Z -> Z -> bool -> option (Z * SS))
           (p : Position) (in_chk : bool) (beta ply depth : Z)
  : list Mv -> Z -> SS -> Z -> Z -> option Mv -> option (Z * Z * option Mv * SS) :=
  fix loop (ms : list Mv) (idx : Z) (s : SS) (alpha best : Z) (bm : option Mv) : option (Z * Z * option Mv * SS) :=
    match ms with
    | [] => Some (alpha, best, bm, s)
    | m :: ms' =>
      let np := makemove true p m in
      let s := push_hist (bump_nodes_ss s) (hash np) in
      match search_move rec p in_chk beta ply depth idx m np s alpha with
      | None => None
      | Some (score, s) =>
        let s := pop_hist s in
        let '(best, bm) := if best <? score then (score, Some m) else (best, bm) in
        let alpha := if alpha <? score then score else alpha in
        if beta <=? alpha then Some (alpha, best, bm, s)
        else loop ms' (idx + 1) s alpha best bm
      end
    end.

(* null-move pruning: Some (Some cut) = return cut; Some None = go on *)
Definition null_move (rec : Position -> SS -> Z -> Z -> Z -> Z -> bool -> option (Z * SS))
           (p : Position) (s : SS) (is_root can_null in_chk : bool) (beta ply depth : Z) : option (option Z * SS) :=
  if negb is_root && can_null && (2 <? depth) && negb in_chk && negb (is_endgame p) then
    let np := makenull p in
    match rec np (push_hist s (hash np)) (- beta) (- beta + 1) (ply + 1) (depth - 1 - 2) false with
    | None => None
    | Some (v, s') =>
      let s' := pop_hist s' in
      if beta <=? - v then Some (Some (- v), s') else Some (None, s')
    end
  else Some (None, s).

(* negamax.rs in three stages, the recursive calls abstracted (rec = negamax on less fuel, qrec = qsearch) *)
Section Body.
Variable rec : Position -> SS -> Z -> Z -> Z -> Z -> bool -> option (Z * SS).
Variable qrec : Position -> Stats -> Z -> Z -> Z -> option (Z * Stats).

(* after the move loop: mate / stalemate score, or table store and best move *)
Definition nm_finish (p : Position) (alpha_orig beta ply depth : Z) (in_chk : bool)
           (best : Z) (bm : option Mv) (s : SS) : option (Z * SS) :=
  match bm with
  | None => Some ((if in_chk then - MATE_SCORE + ply else DRAW_SCORE), s)
  | Some bmv =>
    let flag := if best <=? alpha_orig then 2%N else if beta <=? best then 1%N else 0%N in
    match tt_add (ss_tt s) (hash p)
                 (mkTT (hash p) (m_from bmv) (m_to bmv) (m_promo bmv) best depth flag) with
    | None => None
    | Some tt' => Some (best, mkSS (ss_hist s) tt' (set_best (ss_stats s) (Some bmv)))
    end
  end.

(* after the pruning tests: null move, move loop, then nm_finish *)
Definition nm_moves (p : Position) (s : SS) (alpha_orig alpha beta ply depth : Z)
           (in_chk is_root can_null : bool) (ttmove : option Mv) : option (Z * SS) :=
  match null_move rec p s is_root can_null in_chk beta ply depth with
  | None => None
  | Some (Some cut, s) => Some (cut, s)
  | Some (None, s) =>
    match n_loop rec p in_chk beta ply depth (sort_n p (legal_moves p) ttmove) 0 s alpha (- INF) None with
    | None => None
    | Some r => nm_finish p alpha_orig beta ply depth in_chk (snd (fst (fst r))) (snd (fst r)) (snd r)
    end
  end.

(* horizon, stop test, rule draws, reverse futility pruning *)
Definition nm_prune (p : Position) (s : SS) (alpha_orig alpha beta ply depth : Z)
           (in_chk is_root is_pv can_null : bool) (ttmove : option Mv) : option (Z * SS) :=
  if depth <=? 0 then
    match qrec p (ss_stats s) alpha beta ply with
    | None => None
    | Some (v, st) => Some (v, with_stats s st)
    end
  else if stopf (ss_stats s) && negb (is_root && (st_depth (ss_stats s) <=? 1)) then Some (0, s)
  else
    let is_50 := 100 <=? halfmoves p in
    let is_3 := (if is_root then 3 else 2) <=?
                count_rep (Z.to_nat (halfmoves p + 1)) (ss_hist s) (hash p) true in
    if (is_50 || is_3) && negb is_root then Some (DRAW_SCORE, s)
    else
      let static_eval := eval p in
      if negb is_pv && negb in_chk && (depth <? RFP_DEPTH) && (beta <=? static_eval - RFP_MARGIN * depth)
      then Some (static_eval - RFP_MARGIN * depth, s)
      else nm_moves p s alpha_orig alpha beta ply depth in_chk is_root can_null ttmove.

(* table probe *)
Definition nm_probe (p : Position) (s : SS) (tte : TTEntry) (alpha beta ply depth : Z)
           (in_chk is_root is_pv can_null : bool) : option (Z * SS) :=
  let hit := (e_hash tte =? hash p)%N in
  let ttmove := if hit then Some (mkMv (e_from tte) (e_to tte) (e_promo tte)) else None in
  let usable := hit && (depth <=? e_depth tte) && negb is_root && negb is_pv in
  let alpha' := if usable && (e_flag tte =? 1)%N then Z.max alpha (e_score tte) else alpha in
  let beta' := if usable && (e_flag tte =? 2)%N then Z.min beta (e_score tte) else beta in
  if usable && (e_flag tte =? 0)%N then Some (e_score tte, s)
  else if usable && (beta' <=? alpha') then Some (e_score tte, s)
  else nm_prune p s alpha alpha' beta' ply depth in_chk is_root is_pv can_null ttmove.

Definition nm_body (p : Position) (s : SS) (alpha beta ply depth : Z) (can_null : bool) : option (Z * SS) :=
  let in_chk := in_check p in
  let s := with_stats s (set_seld (ss_stats s) (Z.max (st_seldepth (ss_stats s)) ply)) in
  match tt_poll (ss_tt s) (hash p) with
  | None => None
  | Some tte =>
    nm_probe p s tte alpha beta ply (if in_chk then depth + 1 else depth)
             in_chk (ply =? 0) (negb (beta =? alpha + 1)) can_null
  end.
End Body.

Fixpoint negamax (fuel : nat) (p : Position) (s : SS) (alpha beta ply depth : Z) (can_null : bool)
  : option (Z * SS) :=
  match fuel with
  | O => None
  | S f => nm_body (negamax f) (qsearch f) p s alpha beta ply depth can_null
  end.

(* ---- root.rs *)
Record Info := mkInfo { i_depth : Z; i_seldepth : Z; i_nodes : N; i_score : Z; i_hashfull : option Z; i_pv : Mv }.

Record RootResult := mkRR { rr_best : option Mv;       (* None = Err("No bestmove") -> "bestmove 0000" *)
                            rr_infos : list Info;      (* in the order printed *)
                            rr_state : SS }.

(* iterations depth, depth+1, ... while depth < MAX_DEPTH; `n` bounds the number of iterations *)
Fixpoint root_loop (n : nat) (fuel : nat) (p : Position) (depth : Z) (s : SS) (best : option Mv)
                   (infos : list Info) : option RootResult :=
  match n with
  | O => Some (mkRR best (rev infos) s)
  | S n' =>
    if MAX_DEPTH <=? depth then Some (mkRR best (rev infos) s) else
    let st := ss_stats s in
    let s := with_stats s (mkStats depth (st_seldepth st) (st_nodes st) (st_best st)) in
    match negamax fuel p s (- INF) INF 0 depth false with
    | None => None
    | Some (score, s) =>
      match st_best (ss_stats s) with
      | None => Some (mkRR None (rev infos) s)
      | Some bm =>
        if (1 <? depth) && stopf (ss_stats s) then Some (mkRR best (rev infos) s)
        else
          let info := mkInfo (st_depth (ss_stats s)) (st_seldepth (ss_stats s)) (st_nodes (ss_stats s))
                             score (tt_hashfull (ss_tt s)) bm in
          root_loop n' fuel p (depth + 1) s (Some bm) (info :: infos)
      end
    end
  end.

Definition root (fuel : nat) (p : Position) (hist : list N) (tt : TTable) : option RootResult :=
  root_loop 128 fuel p 1 (mkSS hist tt stats0) None [].

End Search.

(* should_stop for the limits that do not read the clock *)
Inductive Limit := LDepth (d : Z) | LNodes (n : N) | LNever.
Definition stop_of (l : Limit) (st : Stats) : bool :=
  match l with
  | LDepth d => d <? st_depth st
  | LNodes n => (n <=? st_nodes st)%N
  | LNever => false
  end.
