(* src/chess/zobrist.rs, makemove.rs, makenull.rs, after_move.rs, after_null.rs, perft.rs *)
From Coq Require Import NArith ZArith List Bool.
From Rawr Require Import Consts Bits Magic Position MoveGen.
Import ListNotations.
Local Open Scope N_scope.

(* ------------------------------------------------------------------ zobrist.rs *)
Definition key_index (colour : bool) (piece sq : N) : N :=
  (if colour then 1 else 0) * 6 * 64 + piece * 64 + sq.
Definition key (colour : bool) (piece sq : N) : N := nthN KEYS (key_index colour piece sq) 0.
Definition ep_key (sq : N) : N := nthN KEYS_EP (file_of sq) 0.
Definition castle_key (colour : bool) (queen_side : bool) : N :=
  nthN KEYS_CASTLING (2 * (if colour then 1 else 0) + (if queen_side then 1 else 0)) 0.

Definition xor_if (c : bool) (k h : N) : N := if c then N.lxor h k else h.

Definition predict_hash (p : Position) (m : Mv) : N :=
  let t := turn p in
  let piece := match piece_on p (m_from m) with Some x => x | None => 0 end in
  let captured := piece_on p (m_to m) in
  let from := maybe_flip (m_from m) t in
  let to := maybe_flip (m_to m) t in
  let h := hash p in
  let h := N.lxor h (key t piece from) in
  let h := N.lxor h (key t piece to) in
  let h := xor_if (is_set (c_them p) (m_to m))
                  (key (negb t) (match captured with Some c => c | None => 0 end) to) h in
  let h := match ep p with Some e => N.lxor h (ep_key e) | None => h end in
  let is_ep := (piece =? PAWN) && negb (file_of (m_from m) =? file_of (m_to m))
               && match captured with None => true | Some _ => false end in
  let h := xor_if is_ep (key (negb t) PAWN (maybe_flip (m_to m - 8) t)) h in
  let h := xor_if ((piece =? PAWN) && (m_to m - m_from m =? 16)) (ep_key (m_to m)) h in
  let ksc_sq := sq_of (cf0 p) 0 in
  let qsc_sq := sq_of (cf1 p) 0 in
  let h :=
    if (piece =? KING) && us_ksc p && (m_to m =? ksc_sq) then
      let h := N.lxor h (key t KING from) in
      let h := N.lxor h (key t KING to) in
      let h := N.lxor h (key t KING from) in
      let h := N.lxor h (key t KING (maybe_flip G1 t)) in
      let h := N.lxor h (key t ROOK (maybe_flip ksc_sq t)) in
      N.lxor h (key t ROOK (maybe_flip F1 t))
    else if (piece =? KING) && us_qsc p && (m_to m =? qsc_sq) then
      let h := N.lxor h (key t KING from) in
      let h := N.lxor h (key t KING to) in
      let h := N.lxor h (key t KING from) in
      let h := N.lxor h (key t KING (maybe_flip C1 t)) in
      let h := N.lxor h (key t ROOK (maybe_flip qsc_sq t)) in
      N.lxor h (key t ROOK (maybe_flip D1 t))
    else h in
  let h := if negb (m_promo m =? NOPIECE)
           then N.lxor (N.lxor h (key t PAWN to)) (key t (m_promo m) to) else h in
  let h := xor_if (us_ksc p && (m_from m =? ksc_sq)) (castle_key t false) h in
  let h := xor_if (us_qsc p && (m_from m =? qsc_sq)) (castle_key t true) h in
  let h := xor_if (us_ksc p && (piece =? KING)) (castle_key t false) h in
  let h := xor_if (us_qsc p && (piece =? KING)) (castle_key t true) h in
  let h := xor_if (them_ksc p && (m_to m =? sq_of (cf2 p) 7)) (castle_key (negb t) false) h in
  let h := xor_if (them_qsc p && (m_to m =? sq_of (cf3 p) 7)) (castle_key (negb t) true) h in
  N.lxor h KEYS_TURN.

Definition white_pov (bb : N) (t : bool) : N := if t then bswap bb else bb.

Definition hash_pieces (colour : bool) (piece bb h : N) : N :=
  fold_left (fun acc sq => N.lxor acc (key colour piece sq)) (bits bb) h.

Definition calculate_hash (p : Position) : N :=
  let t := turn p in
  let side (colour : bool) (h : N) : N :=
    let cb := if colour then get_black p else get_white p in
    let h := hash_pieces colour PAWN (white_pov (N.land cb (pawns p)) t) h in
    let h := hash_pieces colour KNIGHT (white_pov (N.land cb (knights p)) t) h in
    let h := hash_pieces colour BISHOP (white_pov (N.land cb (bishops p)) t) h in
    let h := hash_pieces colour ROOK (white_pov (N.land cb (rooks p)) t) h in
    let h := hash_pieces colour QUEEN (white_pov (N.land cb (queens p)) t) h in
    hash_pieces colour KING (white_pov (N.land cb (kings p)) t) h in
  let h := side true (side false 0) in
  let h := match ep p with Some e => N.lxor h (ep_key e) | None => h end in
  let h := xor_if (us_ksc p) (castle_key t false) h in
  let h := xor_if (us_qsc p) (castle_key t true) h in
  let h := xor_if (them_ksc p) (castle_key (negb t) false) h in
  let h := xor_if (them_qsc p) (castle_key (negb t) true) h in
  xor_if t KEYS_TURN h.

(* ------------------------------------------------------------------ makemove.rs *)
Definition set_clocks_ep_rights (p : Position) (hm fm : Z) (e : option N) (a b c d : bool) : Position :=
  mkPos (c_us p) (c_them p) (pawns p) (knights p) (bishops p) (rooks p) (queens p) (kings p)
        hm fm (turn p) e a b c d (cf0 p) (cf1 p) (cf2 p) (cf3 p) (hash p) (is_frc p).

Definition castle_fix (p : Position) (from to rook_sq king_to rook_to : N) : Position :=
  let ft := N.lor (bit from) (bit to) in
  let p := xor_us p ft in
  let p := xor_piece p KING ft in
  let p := xor_us (xor_us p (bit from)) (bit king_to) in
  let p := xor_piece (xor_piece p KING (bit from)) KING (bit king_to) in
  let p := xor_us (xor_us p (bit rook_sq)) (bit rook_to) in
  xor_piece (xor_piece p ROOK (bit rook_sq)) ROOK (bit rook_to).

Definition makemove (update_hash : bool) (p0 : Position) (m : Mv) : Position :=
  let from := m_from m in
  let to := m_to m in
  let bb_from := bit from in
  let bb_to := bit to in
  let ft := N.lor bb_from bb_to in
  let piece := match piece_on p0 from with Some x => x | None => 0 end in
  let captured := piece_on p0 to in
  let ksq_us := lsb (N.land (c_us p0) (kings p0)) in
  let ksq_them := lsb (N.land (c_them p0) (kings p0)) in
  let ksc_us := sq_of (cf0 p0) 0 in
  let qsc_us := sq_of (cf1 p0) 0 in
  let ksc_them := sq_of (cf2 p0) 7 in
  let qsc_them := sq_of (cf3 p0) 7 in
  let p := if update_hash then set_hash p0 (predict_hash p0 m) else p0 in
  let p := xor_us p ft in
  let p := xor_piece p piece ft in
  let hm := (halfmoves p0 + 1)%Z in
  let is_cap := is_set (c_them p) to in
  let p := if is_cap
           then xor_piece (xor_them p bb_to) (match captured with Some c => c | None => 0 end) bb_to
           else p in
  let hm := if is_cap then 0%Z else hm in
  let hm := if piece =? PAWN then 0%Z else hm in
  let is_ep := (piece =? PAWN) && negb (file_of from =? file_of to)
               && match captured with None => true | Some _ => false end in
  let p := if is_ep
           then let vic := south (bit (match ep p0 with Some e => e | None => 0 end)) in
                xor_piece (xor_them p vic) PAWN vic
           else p in
  let new_ep := if (piece =? PAWN) && (to - from =? 16) then Some (to - 8) else None in
  let p :=
    if is_occ (N.land (kings p) (rooks p)) && (from <? to)
    then castle_fix p from to (sq_of (cf0 p0) 0) G1 F1
    else if is_occ (N.land (kings p) (rooks p)) && (to <? from)
    then castle_fix p from to (sq_of (cf1 p0) 0) C1 D1
    else p in
  let p := if negb (m_promo m =? NOPIECE)
           then xor_piece (xor_piece p PAWN bb_to) (m_promo m) bb_to else p in
  let uk := us_ksc p0 && negb (from =? ksq_us) && negb (from =? ksc_us) && negb (to =? ksc_us) in
  let uq := us_qsc p0 && negb (from =? ksq_us) && negb (from =? qsc_us) && negb (to =? qsc_us) in
  let tk := them_ksc p0 && negb (from =? ksq_them) && negb (from =? ksc_them) && negb (to =? ksc_them) in
  let tq := them_qsc p0 && negb (from =? ksq_them) && negb (from =? qsc_them) && negb (to =? qsc_them) in
  (* fix: full-move number advances after Black's move *)
  let fm := if turn p0 then (fullmoves p0 + 1)%Z else fullmoves p0 in
  flip (set_clocks_ep_rights p hm fm new_ep uk uq tk tq).

Definition makenull (p : Position) : Position :=
  let h := N.lxor (hash p) KEYS_TURN in
  let h := match ep p with Some e => N.lxor h (ep_key e) | None => h end in
  let q := flip (set_hash p h) in
  set_clocks_ep_rights q 0%Z (fullmoves q) None (us_ksc q) (us_qsc q) (them_ksc q) (them_qsc q).

(* perft.rs: depth 1 is the bulk counter *)
Fixpoint perft (d : nat) (p : Position) : N :=
  match d with
  | O => 1
  | S O => count_moves p
  | S d' => fold_left (fun acc m => acc + perft d' (makemove false p m)) (legal_moves p) 0
  end.
