(* C02/C04: the null move keeps the invariant of Closure.v when the mover is not in check, so the sequence theorems
   extend to sequences of generated legal moves AND null moves. *)
From Coq Require Import NArith ZArith List Bool Lia ZifyN ZifyBool.
From Rawr Require Import Consts Bits Magic Position MoveGen MakeMove MakeStages Rules Abs KeySpec
                         BitsFacts ShiftFacts FlipFacts AbsFacts LsbFacts HashFacts MakeFacts MakeAbs CastleFacts CastleAbs KeyAbs KeyMove
                         AttackFacts AttackAbs CountFacts GenSane GenNoDup NotationFacts Closure.
Import ListNotations.
Local Open Scope N_scope.
Ltac Zify.zify_post_hook ::= Z.div_mod_to_equations.

Lemma null_holds p a t j : a < 64 -> holds p a t j -> holds (makenull p) (flip_sq a) (negb t) j.
Proof.
  intros Ha H. unfold makenull. cbv zeta.
  match goal with |- holds (set_clocks_ep_rights (flip ?q) _ _ _ _ _ _ _) _ _ _ => change (holds (flip q) (flip_sq a) (negb t) j) end.
  apply holds_flip; [apply flip_sq_lt; exact Ha|]. rewrite flip_sq_invol. exact H.
Qed.
Lemma null_empty p a : a < 64 -> empty_at p a -> empty_at (makenull p) (flip_sq a).
Proof.
  intros Ha H. unfold makenull. cbv zeta.
  match goal with |- empty_at (set_clocks_ep_rights (flip ?q) _ _ _ _ _ _ _) _ => change (empty_at (flip q) (flip_sq a)) end.
  apply empty_flip; [apply flip_sq_lt; exact Ha|]. rewrite flip_sq_invol. exact H.
Qed.

Lemma null_fields p : let q := makenull p in
  ep q = None /\ us_ksc q = them_ksc p /\ us_qsc q = them_qsc p /\ them_ksc q = us_ksc p /\ them_qsc q = us_qsc p
  /\ cf0 q = cf2 p /\ cf1 q = cf3 p /\ cf2 q = cf0 p /\ cf3 q = cf1 p.
Proof. cbv zeta. unfold makenull. cbv zeta. cbn. repeat split; reflexivity. Qed.

Lemma null_WF p : WF p -> WF (makenull p).
Proof.
  intros H s Hs. assert (Hf : flip_sq s < 64) by (apply flip_sq_lt; exact Hs).
  destruct (H _ Hf) as [He|(t & k & Hh)].
  - left. rewrite <- (flip_sq_invol s). apply null_empty; assumption.
  - right. exists (negb t), k. rewrite <- (flip_sq_invol s). apply null_holds; assumption.
Qed.
Lemma null_BB8 p : HashFacts.BB8 (makenull p).
Proof.
  unfold makenull. cbv zeta.
  match goal with |- HashFacts.BB8 (set_clocks_ep_rights (flip ?q) _ _ _ _ _ _ _) => change (HashFacts.BB8 (flip q)) end. apply BB8_flip.
Qed.

Section Null.
Variable p : Position.
Hypothesis I : Inv p.
Hypothesis Hsafe : in_check_them (makenull p) = false.       (* the side passing is not in check *)
Let q := makenull p.
Let G := iv_good p I.

Lemma null_king (side : bool) K : K < 64 ->
  (forall a, a < 64 -> pb p 5 a && (if side then tb p a else ub p a) = (a =? K)) ->
  popcount (N.land (kings q) (if side then c_us q else c_them q)) = 1
  /\ lsb (N.land (kings q) (if side then c_us q else c_them q)) = flip_sq K.
Proof.
  intros HK Hv. apply (king_by_view q (flip_sq K) side (null_BB8 p) (flip_sq_lt _ HK)).
  intros i Hi. set (a := flip_sq i). assert (Ha : a < 64) by (apply flip_sq_lt; exact Hi).
  assert (Ei : i = flip_sq a) by (unfold a; rewrite flip_sq_invol; reflexivity).
  assert (Eq : (i =? flip_sq K) = (a =? K)).
  { destruct (N.eqb_spec i (flip_sq K)) as [E|E]; destruct (N.eqb_spec a K) as [E'|E']; try reflexivity; exfalso.
    - apply E'. unfold a. rewrite E, flip_sq_invol. reflexivity.
    - apply E. rewrite Ei, E'. reflexivity. }
  rewrite Eq, <- (Hv a Ha), Ei.
  destruct (g_wf p G a Ha) as [He|(t & j & Hh)].
  - pose proof (null_empty p a Ha He) as (_ & _ & Hp). fold q in Hp. rewrite (Hp 5 ltac:(lia)).
    destruct He as (_ & _ & Hp'). rewrite (Hp' 5 ltac:(lia)). reflexivity.
  - pose proof (null_holds p a t j Ha Hh) as (_ & Hu & Ht & Hp). fold q in Hu, Ht, Hp. rewrite (Hp 5 ltac:(lia)).
    destruct Hh as (_ & Hu' & Ht' & Hp'). rewrite (Hp' 5 ltac:(lia)), Hu', Ht'.
    destruct side; [rewrite Hu|rewrite Ht]; destruct t; reflexivity.
Qed.

Lemma null_their_king : popcount (N.land (kings q) (c_us q)) = 1 /\ uksq q = flip_sq (tksq p).
Proof.
  destruct (their_king_holds p (g_wf p G) (g_bb p G) (iv_tking p I)) as (_ & HK64).
  apply (null_king true (tksq p) HK64). intros a Ha.
  exact (view_of_king p false (g_bb p G) (iv_tking p I) a).
Qed.
Lemma null_our_king : popcount (N.land (kings q) (c_them q)) = 1 /\ tksq q = flip_sq (uksq p).
Proof.
  destruct (king_holds p G) as (_ & HK64).
  apply (null_king false (uksq p) HK64). intros a Ha.
  exact (view_of_king p true (g_bb p G) (g_king p G) a).
Qed.

Theorem null_inv : Inv q.
Proof.
  destruct (null_fields p) as (Eep & Euk & Euq & Etk & Etq & C0 & C1 & C2 & C3). fold q in Eep, Euk, Euq, Etk, Etq, C0, C1, C2, C3.
  destruct (g_cf p G) as (D0 & D1 & D2 & D3).
  destruct null_their_king as (K1 & EK1). destruct null_our_king as (K2 & EK2).
  destruct (their_king_holds p (g_wf p G) (g_bb p G) (iv_tking p I)) as (_ & HT64).
  destruct (king_holds p G) as (_ & HU64). fold (uksq p) in HU64.
  assert (HW : WF q) by (apply null_WF; exact (g_wf p G)).
  constructor.
  - constructor.
    + exact HW.
    + exact (null_BB8 p).
    + apply WF_disjoint; [exact HW|exact (null_BB8 p)].
    + exact K1.
    + rewrite C0, C1, C2, C3. auto.
    + intros e He. rewrite Eep in He. discriminate.
  - unfold uksq in EK1. constructor.
    + intros H. rewrite Euk in H. destruct (iv_tk p I H) as (Hrook & Hlo & Hhi). rewrite C0, EK1. destruct (flip_home (cf2 p) D2) as (F7 & F0).
      split; [rewrite <- F7; apply (null_holds p _ true ROOK); [unfold sq_of; lia|exact Hrook]|].
      rewrite flip_high by (unfold sq_of in *; lia). unfold sq_of in *. lia.
    + intros H. rewrite Euq in H. destruct (iv_tq p I H) as (Hrook & Hlo). rewrite C1, EK1. destruct (flip_home (cf3 p) D3) as (F7 & F0).
      split; [rewrite <- F7; apply (null_holds p _ true ROOK); [unfold sq_of; lia|exact Hrook]|].
      rewrite flip_high by (unfold sq_of in *; lia). unfold sq_of in *. lia.
  - constructor.
    + intros H. rewrite Etk in H. destruct (cg_k p (iv_cg p I) H) as (Hrook & _). rewrite C2. destruct (flip_home (cf0 p) D0) as (F7 & F0).
      rewrite <- F0. destruct (null_holds p (sq_of (cf0 p) 0) false ROOK ltac:(unfold sq_of; lia) Hrook) as (_ & _ & Ht & _). exact Ht.
    + intros H. rewrite Etq in H. destruct (cg_q p (iv_cg p I) H) as (Hrook & _). rewrite C3. destruct (flip_home (cf1 p) D1) as (F7 & F0).
      rewrite <- F0. destruct (null_holds p (sq_of (cf1 p) 0) false ROOK ltac:(unfold sq_of; lia) Hrook) as (_ & _ & Ht & _). exact Ht.
    + apply makenull_hash; [exact (g_bb p G)|exact (kg_hash p (iv_kg p I))].
  - exact K2.
  - intros H. rewrite Etk in H. destruct (cg_k p (iv_cg p I) H) as (Hrook & Hlt). fold (uksq p) in Hlt. rewrite C2, EK2. destruct (flip_home (cf0 p) D0) as (F7 & F0).
    split; [rewrite <- F0; apply (null_holds p _ false ROOK); [unfold sq_of; lia|exact Hrook]|].
    rewrite flip_low by (unfold sq_of in *; lia). unfold sq_of in *. lia.
  - intros H. rewrite Etq in H. destruct (cg_q p (iv_cg p I) H) as (Hrook & Hlt & H8). fold (uksq p) in Hlt, H8. rewrite C3, EK2. destruct (flip_home (cf1 p) D1) as (F7 & F0).
    split; [rewrite <- F0; apply (null_holds p _ false ROOK); [unfold sq_of; lia|exact Hrook]|].
    rewrite flip_low by lia. unfold sq_of in *. lia.
  - exact Hsafe.
Qed.
End Null.

(* ------------------------------------------------------------------ sequences of generated legal moves and null moves *)
Definition play_op (p : Position) (o : option Mv) : Position :=
  match o with Some m => makemove true p m | None => makenull p end.
Definition spec_op (p : Position) (o : option Mv) (s : sstate) : sstate :=
  match o with Some m => apply s (dec p m) | None => pass_turn s end.

Fixpoint legal_ops (p : Position) (os : list (option Mv)) : Prop :=
  match os with
  | [] => True
  | o :: r => (match o with Some m => In m (legal_moves p) | None => True end)
              /\ in_check_them (play_op p o) = false /\ legal_ops (play_op p o) r
  end.
Fixpoint spec_ops (p : Position) (os : list (option Mv)) (s : sstate) : sstate :=
  match os with
  | [] => s
  | o :: r => spec_ops (play_op p o) r (spec_op p o s)
  end.

Theorem inv_ops os : forall p, Inv p -> legal_ops p os -> Inv (fold_left play_op os p).
Proof.
  induction os as [|o r IH]; intros p I H; cbn [fold_left]; [exact I|].
  destruct H as (Hm & Hl & Hr). apply IH; [|exact Hr].
  destruct o as [m|]; [exact (inv_step p m I Hm Hl)|exact (null_inv p I Hl)].
Qed.

Theorem ops_refine os : forall p, Inv p -> legal_ops p os ->
  abs_state (fold_left play_op os p) = spec_ops p os (abs_state p).
Proof.
  induction os as [|o r IH]; intros p I H; cbn [fold_left spec_ops]; [reflexivity|].
  destruct H as (Hm & Hl & Hr).
  assert (Hstep : spec_op p o (abs_state p) = abs_state (play_op p o)).
  { destruct o as [m|]; cbn [spec_op play_op].
    - symmetry. exact (legal_moves_refine true p m (iv_good p I) (iv_cg p I) Hm).
    - symmetry. apply makenull_spec. exact (g_dis p (iv_good p I)). }
  rewrite Hstep. apply IH; [|exact Hr].
  destruct o as [m|]; [exact (inv_step p m I Hm Hl)|exact (null_inv p I Hl)].
Qed.

Theorem ops_keys os p : Inv p -> legal_ops p os ->
  let q := fold_left play_op os p in
  hash q = calculate_hash q /\ calculate_hash q = spec_key (abs_state q).
Proof.
  intros I H. cbv zeta. pose proof (inv_ops os p I H) as Iq. set (q := fold_left play_op os p) in *.
  split; [exact (kg_hash q (iv_kg q Iq))|].
  pose proof (iv_good q Iq) as G. apply key_of_abs; [exact (g_bb q G)|exact (g_wf q G)|].
  intros e He. destruct (g_ep q G e He) as ((_ & Hlt) & _). exact Hlt.
Qed.


(* ------------------------------------------------------------------ passing when not in check leaves the passer not in check *)
Theorem null_safe p : Inv p -> in_check p = false -> in_check_them (makenull p) = false.
Proof.
  intros I Hc. pose proof (iv_good p I) as G. set (q := makenull p).
  destruct (null_our_king p I) as (K2 & EK2). destruct (null_their_king p I) as (K1 & _). fold q in K1, K2, EK2.
  destruct (king_holds p G) as (_ & HU64). fold (uksq p) in HU64.
  unfold in_check_them. fold (tksq q). rewrite EK2.
  rewrite (attack_query_is_the_rules q (flip_sq (uksq p)) true (null_WF p (g_wf p G)) (null_BB8 p) (flip_sq_lt _ HU64) K1).
  unfold in_check in Hc. fold (uksq p) in Hc.
  rewrite (attack_query_is_the_rules p (uksq p) false (g_wf p G) (g_bb p G) HU64 (iv_tking p I)) in Hc.
  rewrite <- Hc. unfold Abs.spec_attacked.
  assert (Eb : Abs.board_of q = Abs.board_of p).
  { unfold q. rewrite makenull_board. rewrite board_of_flip; [reflexivity|exact (g_dis p G)]. }
  assert (Et : turn q = negb (turn p)) by reflexivity.
  rewrite Eb, Et. unfold Abs.rel_sq. rewrite Et. destruct (turn p); cbn [negb]; rewrite ?flip_sq_invol; reflexivity.
Qed.
