(* C01 (completeness half), castling, at the engine level: the generator's test "the castling rook is not pinned along the
   home rank" never refuses a castling move that is otherwise admissible and does not leave the king attacked.
   If the rook's bit is in gi_hpinned, LegalConv.pins_struct gives their rook/queen x beyond the rook on the home rank with
   nothing in between.
   King side (king k < rook r < x <= 7): x must be h1 (every other square east of the king up to g1 lies on the king's path,
   which is vacant), and h1 attacks g1, a square of the king's path: refused by the path test already.
   Queen side (x < r < k): x is a1 or b1 (c1.. lie on the king's path).  If the rook stands on c1 or further east, x attacks c1
   before the move.  If the rook stands on b1 (x = a1), c1 is shielded before the move, but after castling b1 is vacated and a1
   attacks the king on c1: this is where the premise "the move does not leave the king attacked" is used. *)
From Coq Require Import NArith ZArith List Bool Lia ZifyN ZifyBool.
From Rawr Require Import Consts Bits Magic Position MoveGen MakeMove MakeStages Rules Abs
                         BitsFacts ShiftFacts FlipFacts AbsFacts LsbFacts HashFacts MakeFacts MakeAbs CastleFacts CastleAbs KeyAbs KeyMove
                         AttackFacts AttackAbs AttackSets RayFacts GenSane GenNoDup Closure EpRetro LegalBase PinFacts LegalCastle PseudoCastle.
From Rawr Require LegalConv.
Import ListNotations.
Local Open Scope N_scope.

(* ------------------------------------------------------------------ 1. castle_ok without the pin test *)
Definition castle_rest (p : Position) (right : bool) (rook_sq king_to rook_to : N) : bool :=
  let g := gen_info p in
  let ksq := gi_ksq g in
  right
  && negb (gi_in_check g)
  && is_emp (N.land (N.land (N.land (occupied p) (N.lor (line_between ksq king_to) (line_between rook_sq rook_to)))
                            (bnot (bit ksq))) (bnot (bit rook_sq)))
  && negb (is_bb_attacked p (line_between ksq king_to) false).

Lemma castle_ok_rest p right rs kto rto :
  castle_ok p (gen_info p) right rs kto rto = castle_rest p right rs kto rto && negb (is_set (gi_hpinned (gen_info p)) rs).
Proof.
  unfold castle_ok, castle_rest. cbv zeta.
  generalize (negb (is_set (gi_hpinned (gen_info p)) rs)). intros b1.
  generalize (negb (gi_in_check (gen_info p))). intros b2.
  match goal with |- context [is_emp ?a] => generalize (is_emp a) end. intros b3.
  match goal with |- context [negb ?a] => generalize (negb a) end. intros b4.
  destruct right, b1, b2, b3, b4; reflexivity.
Qed.

Lemma castle_rest_iff p right rs kto rto : castle_rest p right rs kto rto = true <->
  right = true /\ gi_in_check (gen_info p) = false
  /\ is_emp (N.land (N.land (N.land (occupied p)
         (N.lor (line_between (lsb (N.land (kings p) (c_us p))) kto) (line_between rs rto)))
         (bnot (bit (lsb (N.land (kings p) (c_us p)))))) (bnot (bit rs))) = true
  /\ is_bb_attacked p (line_between (lsb (N.land (kings p) (c_us p))) kto) false = false.
Proof.
  unfold castle_rest. cbv zeta. rewrite gi_ksq_eq. rewrite !andb_true_iff, !negb_true_iff. tauto.
Qed.

(* ------------------------------------------------------------------ 2. every way of picking two squares of a list, in order *)
Fixpoint after_r (P : list N -> N -> bool) (acc l : list N) : bool :=
  match l with [] => true | x :: t => P acc x && after_r P (acc ++ [x]) t end.
Fixpoint all_splits (P : N -> list N -> N -> bool) (l : list N) : bool :=
  match l with [] => true | r :: t => after_r (P r) [] t && all_splits P t end.

Lemma after_r_use P l2a : forall acc x l2b, after_r P acc (l2a ++ x :: l2b) = true -> P (acc ++ l2a) x = true.
Proof.
  induction l2a as [|s t IH]; intros acc x l2b H; cbn [app after_r] in H; apply andb_true_iff in H; destruct H as [H1 H2].
  - rewrite app_nil_r. exact H1.
  - specialize (IH _ _ _ H2). rewrite <- app_assoc in IH. exact IH.
Qed.

Lemma all_splits_use P l1 : forall r l2a x l2b, all_splits P (l1 ++ r :: l2a ++ x :: l2b) = true -> P r l2a x = true.
Proof.
  induction l1 as [|s t IH]; intros r l2a x l2b H; cbn [app all_splits] in H; apply andb_true_iff in H; destruct H as [H1 H2].
  - exact (after_r_use (P r) l2a [] x l2b H1).
  - exact (IH _ _ _ _ H2).
Qed.

Definition memb (s : N) (l : list N) : bool := existsb (N.eqb s) l.
Lemma memb_in s l : memb s l = true -> In s l.
Proof. unfold memb. intros H. apply existsb_exists in H. destruct H as (y & Hy & E). apply N.eqb_eq in E. subst y. exact Hy. Qed.

Definition geoE (k r : N) (l2a : list N) (x : N) : bool :=
  (k <? r) && (r <? x) && (x <? 8) && forallb (fun s => implb ((r <? s) && (s <? x)) (memb s l2a)) low8.
Definition geoW (k r : N) (l2a : list N) (x : N) : bool :=
  (x <? r) && (r <? k) && forallb (fun s => implb ((x <? s) && (s <? r)) (memb s l2a)) low8.

Lemma sweepE : forallb (fun k => all_splits (geoE k) (ray_of k (1, 0)%Z)) low8 = true.
Proof. vm_compute. reflexivity. Qed.
Lemma sweepW : forallb (fun k => all_splits (geoW k) (ray_of k (-1, 0)%Z)) low8 = true.
Proof. vm_compute. reflexivity. Qed.

Lemma ray_e_split k l1 r l2a x l2b : k < 8 -> ray_of k (1, 0)%Z = l1 ++ r :: l2a ++ x :: l2b ->
  k < r /\ r < x /\ x < 8 /\ forall s, r < s < x -> In s l2a.
Proof.
  intros Hk El. pose proof sweepE as A. rewrite forallb_forall in A. specialize (A k (in_low8 k Hk)).
  rewrite El in A. apply all_splits_use in A. unfold geoE in A.
  apply andb_true_iff in A. destruct A as [A A4]. apply andb_true_iff in A. destruct A as [A A3].
  apply andb_true_iff in A. destruct A as [A1 A2]. apply N.ltb_lt in A1, A2, A3.
  split; [exact A1|split; [exact A2|split; [exact A3|]]].
  intros s Hs. rewrite forallb_forall in A4. specialize (A4 s (in_low8 s ltac:(lia))).
  replace ((r <? s) && (s <? x)) with true in A4 by (symmetry; apply andb_true_iff; split; apply N.ltb_lt; lia).
  apply memb_in. exact A4.
Qed.

Lemma ray_w_split k l1 r l2a x l2b : k < 8 -> ray_of k (-1, 0)%Z = l1 ++ r :: l2a ++ x :: l2b ->
  x < r /\ r < k /\ forall s, x < s < r -> In s l2a.
Proof.
  intros Hk El. pose proof sweepW as A. rewrite forallb_forall in A. specialize (A k (in_low8 k Hk)).
  rewrite El in A. apply all_splits_use in A. unfold geoW in A.
  apply andb_true_iff in A. destruct A as [A A3]. apply andb_true_iff in A. destruct A as [A1 A2]. apply N.ltb_lt in A1, A2.
  split; [exact A1|split; [exact A2|]].
  intros s Hs. rewrite forallb_forall in A3. specialize (A3 s (in_low8 s ltac:(lia))).
  replace ((x <? s) && (s <? r)) with true in A3 by (symmetry; apply andb_true_iff; split; apply N.ltb_lt; lia).
  apply memb_in. exact A3.
Qed.

(* the squares of the king's paths *)
Lemma kpath_sweep_k : forallb (fun k => forallb (fun x =>
    implb ((k <? x) && (x <=? 6)) (N.testbit (line_between k G1) x)) low8) low8 = true.
Proof. vm_compute. reflexivity. Qed.
Lemma kpath_sweep_q : forallb (fun k => forallb (fun x =>
    implb ((2 <=? x) && (x <? k)) (N.testbit (line_between k C1) x)) low8) low8 = true.
Proof. vm_compute. reflexivity. Qed.

Lemma kpath_k k x : k < x -> x <= 6 -> N.testbit (line_between k G1) x = true.
Proof.
  intros H1 H2. pose proof kpath_sweep_k as A. rewrite forallb_forall in A. specialize (A k (in_low8 k ltac:(lia))).
  rewrite forallb_forall in A. specialize (A x (in_low8 x ltac:(lia))).
  replace ((k <? x) && (x <=? 6)) with true in A; [exact A|].
  symmetry. apply andb_true_iff. split; [apply N.ltb_lt|apply N.leb_le]; lia.
Qed.
Lemma kpath_q k x : k < 8 -> 2 <= x -> x < k -> N.testbit (line_between k C1) x = true.
Proof.
  intros H0 H1 H2. pose proof kpath_sweep_q as A. rewrite forallb_forall in A. specialize (A k (in_low8 k H0)).
  rewrite forallb_forall in A. specialize (A x (in_low8 x ltac:(lia))).
  replace ((2 <=? x) && (x <? k)) with true in A; [exact A|].
  symmetry. apply andb_true_iff. split; [apply N.leb_le|apply N.ltb_lt]; lia.
Qed.

(* ------------------------------------------------------------------ 3. what a bit of gi_hpinned on the home rank means *)
Section HPin.
Variable p : Position.
Hypothesis G : Good p.
Local Notation k := (lsb (N.land (kings p) (c_us p))).
Local Notation occ := (occupied p).
Local Notation X := (N.land (c_them p) (N.lor (rooks p) (queens p))).

Lemma hpin_struct r : k < 8 -> N.testbit (gi_hpinned (gen_info p)) r = true ->
  (exists x, k < r /\ r < x /\ x < 8 /\ N.testbit X x = true /\ N.testbit occ x = true
             /\ forall s, r < s < x -> N.testbit occ s = false)
  \/ (exists x, x < r /\ r < k /\ N.testbit X x = true /\ N.testbit occ x = true
             /\ forall s, x < s < r -> N.testbit occ s = false).
Proof.
  intros Hk8 H. destruct (gi_pins p) as (_ & _ & E3 & _). rewrite E3 in H.
  change (pinsH p) with (pins p LegalConv.dsH (g_rq p)) in H.
  destruct (LegalConv.pins_struct p G LegalConv.dsH (g_rq p) r (LegalConv.entH p) H)
    as (e & l1 & l2a & x & l2b & Hin & El & _ & H2 & _ & HX & Hox).
  change (g_k p) with k in El. change (g_rq p) with X in HX.
  unfold LegalConv.dsH in Hin. cbn [In] in Hin. destruct Hin as [<-|[<-|[]]].
  - right. change (fst e_w) with (-1, 0)%Z in El.
    destruct (ray_w_split k l1 r l2a x l2b Hk8 El) as (A1 & A2 & A3).
    exists x. split; [exact A1|split; [exact A2|split; [exact HX|split; [exact Hox|]]]].
    intros s Hs. apply H2. exact (A3 s Hs).
  - left. change (fst e_e) with (1, 0)%Z in El.
    destruct (ray_e_split k l1 r l2a x l2b Hk8 El) as (A1 & A2 & A3 & A4).
    exists x. split; [exact A1|split; [exact A2|split; [exact A3|split; [exact HX|split; [exact Hox|]]]]].
    intros s Hs. apply H2. exact (A4 s Hs).
Qed.
End HPin.

(* the rook disjunct of the attack test *)
Lemma batk_rook occ p sq d : In d rook_dirs -> batk occ p sq = false ->
  first_hit occ (N.land (c_them p) (N.lor (rooks p) (queens p))) (ray_of sq d) = false.
Proof.
  intros Hd H. unfold batk in H.
  apply orb_false_iff in H. destruct H as [H _]. apply orb_false_iff in H. destruct H as [_ H4].
  rewrite existsb_false in H4. exact (H4 d Hd).
Qed.

Lemma empty_vacant p s : empty_at p s -> N.testbit (occupied p) s = false.
Proof. intros (Eu & Et & _). rewrite occ_bits, Eu, Et. reflexivity. Qed.

(* ------------------------------------------------------------------ 4. king side *)
Theorem castle_k_hpin0 p : Inv0 p ->
  castle_rest p (us_ksc p) (sq_of (cf0 p) 0) G1 F1 = true ->
  is_set (gi_hpinned (gen_info p)) (sq_of (cf0 p) 0) = false.
Proof.
  intros I Hc. pose proof (i0_good p I) as G. pose proof (i0_cg p I) as CG.
  apply castle_rest_iff in Hc. destruct Hc as (Hf & _ & Hemp & Hatt).
  destruct (cg_k p CG Hf) as (_ & Hlt). destruct (g_cf p G) as (C0 & _).
  assert (Hr8 : sq_of (cf0 p) 0 < 8) by (rewrite sq_of_0; lia).
  unfold is_set. destruct (N.testbit (gi_hpinned (gen_info p)) (sq_of (cf0 p) 0)) eqn:Hpin; [exfalso|reflexivity].
  destruct (hpin_struct p G (sq_of (cf0 p) 0) ltac:(lia) Hpin)
    as [(x & A1 & A2 & A3 & HX & Hox & Hv)|(x & A1 & A2 & _)]; [|lia].
  (* x is h1 *)
  assert (Ex : x = 7).
  { destruct (N.eq_dec x 7) as [E|N7]; [exact E|exfalso].
    assert (Hb : N.testbit (N.lor (line_between (lsb (N.land (kings p) (c_us p))) G1) (line_between (sq_of (cf0 p) 0) F1)) x = true).
    { rewrite N.lor_spec, kpath_k by lia. reflexivity. }
    destruct (path_square p G (sq_of (cf0 p) 0) G1 F1 x Hemp ltac:(lia) ltac:(lia) Hb) as [E|[E|E]]; [lia|lia|].
    rewrite (empty_vacant p x E) in Hox. discriminate. }
  subst x.
  pose proof (path_end_safe p _ G1 I ltac:(unfold G1; lia) Hatt) as Hsafe. rewrite batk_p in Hsafe. unfold G1 in Hsafe.
  pose proof (batk_rook _ p 6 (1, 0)%Z ltac:(unfold rook_dirs; cbn [In]; tauto) Hsafe) as Hh.
  rewrite ray_6_e in Hh. cbn [first_hit] in Hh. rewrite Hox, HX in Hh. discriminate.
Qed.

Theorem castle_k_hpin (u : bool) p : Inv0 p ->
  castle_rest p (us_ksc p) (sq_of (cf0 p) 0) G1 F1 = true ->
  in_check_them (makemove u p (mkMv (lsb (N.land (kings p) (c_us p))) (sq_of (cf0 p) 0) NOPIECE)) = false ->
  is_set (gi_hpinned (gen_info p)) (sq_of (cf0 p) 0) = false.
Proof. intros I Hc _. exact (castle_k_hpin0 p I Hc). Qed.

(* ------------------------------------------------------------------ 5. queen side *)
Lemma csane_q p : Good p -> CastleGood p -> us_qsc p = true ->
  is_emp (N.land (N.land (N.land (occupied p)
         (N.lor (line_between (lsb (N.land (kings p) (c_us p))) C1) (line_between (sq_of (cf1 p) 0) D1)))
         (bnot (bit (lsb (N.land (kings p) (c_us p)))))) (bnot (bit (sq_of (cf1 p) 0)))) = true ->
  csane p (mkMv (lsb (N.land (kings p) (c_us p))) (sq_of (cf1 p) 0) NOPIECE) false.
Proof.
  intros G CG Hf Hemp. destruct (cg_q p CG Hf) as (Hrook & Hlt & Hk8). destruct (king_holds p G) as (Hking & Hk64).
  constructor; cbn [m_from m_to m_promo].
  - exact Hk8.
  - lia.
  - lia.
  - exact Hking.
  - exact Hrook.
  - symmetry. apply N.ltb_ge. lia.
  - reflexivity.
  - apply (path_square p G _ C1 D1 C1 Hemp); [unfold C1; lia|lia|].
    rewrite N.lor_spec, line_between_end by (unfold C1; lia). reflexivity.
  - apply (path_square p G _ C1 D1 D1 Hemp); [unfold D1; lia|lia|].
    rewrite N.lor_spec, (line_between_end (sq_of (cf1 p) 0) D1) by (unfold D1; lia). apply orb_true_r.
  - reflexivity.
Qed.

Theorem castle_q_hpin (u : bool) p : Inv0 p ->
  castle_rest p (us_qsc p) (sq_of (cf1 p) 0) C1 D1 = true ->
  in_check_them (makemove u p (mkMv (lsb (N.land (kings p) (c_us p))) (sq_of (cf1 p) 0) NOPIECE)) = false ->
  is_set (gi_hpinned (gen_info p)) (sq_of (cf1 p) 0) = false.
Proof.
  intros I Hc Hsafe'. pose proof (i0_good p I) as G. pose proof (i0_cg p I) as CG.
  apply castle_rest_iff in Hc. destruct Hc as (Hf & _ & Hemp & Hatt).
  destruct (cg_q p CG Hf) as (_ & Hlt & Hk8).
  unfold is_set. destruct (N.testbit (gi_hpinned (gen_info p)) (sq_of (cf1 p) 0)) eqn:Hpin; [exfalso|reflexivity].
  destruct (hpin_struct p G (sq_of (cf1 p) 0) Hk8 Hpin)
    as [(x & A1 & A2 & _)|(x & A1 & A2 & HX & Hox & Hv)]; [lia|].
  (* x is a1 or b1 *)
  assert (Hx2 : x < 2).
  { destruct (N.lt_ge_cases x 2) as [E|N2]; [exact E|exfalso].
    assert (Hb : N.testbit (N.lor (line_between (lsb (N.land (kings p) (c_us p))) C1) (line_between (sq_of (cf1 p) 0) D1)) x = true).
    { rewrite N.lor_spec, kpath_q by lia. reflexivity. }
    destruct (path_square p G (sq_of (cf1 p) 0) C1 D1 x Hemp ltac:(lia) ltac:(lia) Hb) as [E|[E|E]]; [lia|lia|].
    rewrite (empty_vacant p x E) in Hox. discriminate. }
  destruct (N.lt_ge_cases (sq_of (cf1 p) 0) 2) as [Hr1|Hr2].
  - (* the rook on b1, x on a1: the attack on c1 opens when the rook leaves *)
    assert (Er : sq_of (cf1 p) 0 = 1) by lia. assert (Ex : x = 0) by lia. subst x.
    pose proof (csane_q p G CG Hf Hemp) as S.
    set (m := mkMv (lsb (N.land (kings p) (c_us p))) (sq_of (cf1 p) 0) NOPIECE) in *.
    rewrite (c_transfer u p m false S I) in Hsafe'. change (c_kt false) with 2 in Hsafe'.
    rewrite (batk_Q u p m false S 2) in Hsafe'.
    pose proof (batk_rook _ p 2 (-1, 0)%Z ltac:(unfold rook_dirs; cbn [In]; tauto) Hsafe') as Hh.
    rewrite ray_2_w in Hh. cbn [first_hit] in Hh.
    assert (O1 : N.testbit (occupied (mv_boards u p m)) 1 = false).
    { apply empty_vacant. apply (castle_vacated u p m false S 1).
      - right. unfold m. cbn [m_to]. symmetry. exact Er.
      - unfold c_kt, C1. lia.
      - unfold c_rt, D1. lia. }
    assert (O0 : N.testbit (occupied (mv_boards u p m)) 0 = true).
    { rewrite (occ_same u p m false S 0); [exact Hox|].
      unfold involved, m, c_kt, c_rt, C1, D1. cbn [m_from m_to]. lia. }
    rewrite O1, O0, HX in Hh. discriminate.
  - (* the rook on c1 or further east: x attacks c1 already *)
    pose proof (path_end_safe p _ C1 I ltac:(unfold C1; lia) Hatt) as Hsafe. rewrite batk_p in Hsafe. unfold C1 in Hsafe.
    pose proof (batk_rook _ p 2 (-1, 0)%Z ltac:(unfold rook_dirs; cbn [In]; tauto) Hsafe) as Hh.
    rewrite ray_2_w in Hh. cbn [first_hit] in Hh.
    assert (Cx : x = 1 \/ x = 0) by lia. destruct Cx as [-> | ->].
    + rewrite Hox, HX in Hh. discriminate.
    + rewrite (Hv 1 ltac:(lia)), Hox, HX in Hh. discriminate.
Qed.

(* ------------------------------------------------------------------ 6. the moves are generated *)
Theorem castle_k_ok p : Inv0 p -> castle_rest p (us_ksc p) (sq_of (cf0 p) 0) G1 F1 = true ->
  castle_ok p (gen_info p) (us_ksc p) (sq_of (cf0 p) 0) G1 F1 = true.
Proof. intros I Hc. rewrite castle_ok_rest, Hc, (castle_k_hpin0 p I Hc). reflexivity. Qed.

Theorem castle_q_ok (u : bool) p : Inv0 p -> castle_rest p (us_qsc p) (sq_of (cf1 p) 0) C1 D1 = true ->
  in_check_them (makemove u p (mkMv (lsb (N.land (kings p) (c_us p))) (sq_of (cf1 p) 0) NOPIECE)) = false ->
  castle_ok p (gen_info p) (us_qsc p) (sq_of (cf1 p) 0) C1 D1 = true.
Proof. intros I Hc Hs. rewrite castle_ok_rest, Hc, (castle_q_hpin u p I Hc Hs). reflexivity. Qed.

Theorem castle_k_generated (u : bool) p : Inv0 p ->
  castle_rest p (us_ksc p) (sq_of (cf0 p) 0) G1 F1 = true ->
  in_check_them (makemove u p (mkMv (lsb (N.land (kings p) (c_us p))) (sq_of (cf0 p) 0) NOPIECE)) = false ->
  In (mkMv (lsb (N.land (kings p) (c_us p))) (sq_of (cf0 p) 0) NOPIECE) (legal_moves p).
Proof.
  intros I Hc _. pose proof (castle_k_ok p I Hc) as Hok.
  unfold legal_moves. apply in_map_iff. exists (KING, gi_ksq (gen_info p), sq_of (cf0 p) 0, NOPIECE). split.
  - cbn [gen_mv]. rewrite gi_ksq_eq. reflexivity.
  - rewrite generator_blocks. do 14 (apply in_or_app; right). apply in_or_app. left.
    unfold blk_castle_k. rewrite Hok. left. reflexivity.
Qed.

Theorem castle_q_generated (u : bool) p : Inv0 p ->
  castle_rest p (us_qsc p) (sq_of (cf1 p) 0) C1 D1 = true ->
  in_check_them (makemove u p (mkMv (lsb (N.land (kings p) (c_us p))) (sq_of (cf1 p) 0) NOPIECE)) = false ->
  In (mkMv (lsb (N.land (kings p) (c_us p))) (sq_of (cf1 p) 0) NOPIECE) (legal_moves p).
Proof.
  intros I Hc Hs. pose proof (castle_q_ok u p I Hc Hs) as Hok.
  unfold legal_moves. apply in_map_iff. exists (KING, gi_ksq (gen_info p), sq_of (cf1 p) 0, NOPIECE). split.
  - cbn [gen_mv]. rewrite gi_ksq_eq. reflexivity.
  - rewrite generator_blocks. do 15 (apply in_or_app; right).
    unfold blk_castle_q. rewrite Hok. left. reflexivity.
Qed.

Print Assumptions castle_k_hpin.
Print Assumptions castle_q_hpin.
Print Assumptions castle_k_generated.
Print Assumptions castle_q_generated.
