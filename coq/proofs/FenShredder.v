(* C07, the other well-formed spelling of the castling field: every right written as the FILE LETTER of its rook
   (Shredder-FEN, e.g. "HAha" for the standard start position), and more generally every mixture of the two spellings
   (each held right written either as its file letter, or the way the engine's printer writes it: K/Q/k/q when the rook is
   the outermost rook of its wing, else the file letter).  The parser castle_char accepts the file letters A-H / a-h
   whatever the is_frc flag is, so the theorems hold for both values of the flag and for both arithmetic modes. *)
From Coq Require Import NArith ZArith List Bool Lia ZifyN ZifyBool.
From Rawr Require Import Consts Bits Magic Position MoveGen MakeMove MakeStages Fen
                         BitsFacts ShiftFacts FlipFacts AbsFacts HashFacts MakeFacts KeyAbs NotationFacts FenFacts GenSane Closure
                         FenBoard FenRound LsbFacts FenCastle.
Import ListNotations.
Local Open Scope N_scope.
Ltac Zify.zify_post_hook ::= Z.div_mod_to_equations.

(* ------------------------------------------------------------------ the file letter *)
(* the last branch of Fen.castle_letter: upper case for the side `us` of the White-to-move frame, lower case for `them` *)
Definition file_letter (white : bool) (file : N) : N := if white then 65 + file else 97 + file.

(* castle_letter writes the wing letter or exactly this letter *)
Lemma castle_letter_cases np white ksc f :
  castle_letter np white ksc f = (if white then (if ksc then 75 else 81) else (if ksc then 107 else 113))
  \/ castle_letter np white ksc f = file_letter white f.
Proof. exact (letter_cases np white ksc f). Qed.

(* and it writes the file letter whenever the rook of the right is not the outermost rook of the wing *)
Lemma castle_letter_inner (np : Position) (white ksc : bool) (f : N) :
  let side := if white then c_us np else c_them np in
  let home := if white then RANK1 else RANK8 in
  let wing := N.land home (if ksc then ray_east_bb (lsb (N.land side (kings np))) else ray_west_bb (lsb (N.land side (kings np)))) in
  let r := N.land (N.land side (rooks np)) wing in
  is_occ r && ((if ksc then file_of (hsb r) else file_of (lsb r)) =? f) = false ->
  castle_letter np white ksc f = file_letter white f.
Proof. cbv zeta. intros E. unfold castle_letter. cbv zeta. rewrite E. reflexivity. Qed.

(* one right, spelled as the file letter (force = true) or the way get_fen spells it (force = false) *)
Definition spell (np : Position) (force white ksc : bool) (file : N) : N :=
  if force then file_letter white file else castle_letter np white ksc file.

Definition mix_letters (np : Position) (s0 s1 s2 s3 : bool) : str :=
  (if us_ksc np then [spell np s0 true true (cf0 np)] else [])
  ++ (if us_qsc np then [spell np s1 true false (cf1 np)] else [])
  ++ (if them_ksc np then [spell np s2 false true (cf2 np)] else [])
  ++ (if them_qsc np then [spell np s3 false false (cf3 np)] else []).
Definition mix_field (np : Position) (s0 s1 s2 s3 : bool) : str :=
  if negb (us_ksc np) && negb (us_qsc np) && negb (them_ksc np) && negb (them_qsc np) then [45] else mix_letters np s0 s1 s2 s3.

(* 1. the Shredder spelling: every held right as the file letter of its rook *)
Definition shredder_letters (np : Position) : str :=
  (if us_ksc np then [file_letter true (cf0 np)] else [])
  ++ (if us_qsc np then [file_letter true (cf1 np)] else [])
  ++ (if them_ksc np then [file_letter false (cf2 np)] else [])
  ++ (if them_qsc np then [file_letter false (cf3 np)] else []).
Definition shredder_field (np : Position) : str :=
  if negb (us_ksc np) && negb (us_qsc np) && negb (them_ksc np) && negb (them_qsc np) then [45] else shredder_letters np.

Lemma shredder_field_mix np : shredder_field np = mix_field np true true true true.
Proof. reflexivity. Qed.
Lemma cas_field_mix np : cas_field np = mix_field np false false false false.
Proof. reflexivity. Qed.

(* ------------------------------------------------------------------ each spelled letter parses back to its right *)
Section Letters.
Variable np : Position.
Variable a : CastleAcc.

Lemma parse_spell_wk s : kfile (c_us np) (kings np) < cf0 np <= 7 ->
  castle_char (c_us np) (c_them np) (rooks np) (kings np) a (spell np s true true (cf0 np))
  = Some (castle_set a false true (cf0 np), false).
Proof.
  intros Hf. destruct s; [|exact (parse_letter_wk np a Hf)]. unfold spell, file_letter.
  rewrite castle_char_upper by lia. replace (kfile (c_us np) (kings np) <? cf0 np) with true; [reflexivity|].
  symmetry. apply N.ltb_lt. lia.
Qed.
Lemma parse_spell_wq s : cf1 np < kfile (c_us np) (kings np) ->
  castle_char (c_us np) (c_them np) (rooks np) (kings np) a (spell np s true false (cf1 np))
  = Some (castle_set a false false (cf1 np), false).
Proof.
  intros Hf. destruct s; [|exact (parse_letter_wq np a Hf)]. unfold spell, file_letter.
  pose proof (kfile_le (c_us np) (kings np)) as Hk.
  rewrite castle_char_upper by lia. replace (kfile (c_us np) (kings np) <? cf1 np) with false; [reflexivity|].
  symmetry. apply N.ltb_ge. lia.
Qed.
Lemma parse_spell_bk s : kfile (c_them np) (kings np) < cf2 np <= 7 ->
  castle_char (c_us np) (c_them np) (rooks np) (kings np) a (spell np s false true (cf2 np))
  = Some (castle_set a true true (cf2 np), false).
Proof.
  intros Hf. destruct s; [|exact (parse_letter_bk np a Hf)]. unfold spell, file_letter.
  rewrite castle_char_lower by lia. replace (kfile (c_them np) (kings np) <? cf2 np) with true; [reflexivity|].
  symmetry. apply N.ltb_lt. lia.
Qed.
Lemma parse_spell_bq s : cf3 np < kfile (c_them np) (kings np) ->
  castle_char (c_us np) (c_them np) (rooks np) (kings np) a (spell np s false false (cf3 np))
  = Some (castle_set a true false (cf3 np), false).
Proof.
  intros Hf. destruct s; [|exact (parse_letter_bq np a Hf)]. unfold spell, file_letter.
  pose proof (kfile_le (c_them np) (kings np)) as Hk.
  rewrite castle_char_lower by lia. replace (kfile (c_them np) (kings np) <? cf3 np) with false; [reflexivity|].
  symmetry. apply N.ltb_ge. lia.
Qed.
End Letters.

Lemma spell_cases np s white ksc f :
  spell np s white ksc f = (if white then (if ksc then 75 else 81) else (if ksc then 107 else 113))
  \/ spell np s white ksc f = (if white then 65 + f else 97 + f).
Proof. destruct s; [right; reflexivity|exact (letter_cases np white ksc f)]. Qed.

(* ------------------------------------------------------------------ 2. the whole field *)
(* the four letters are pairwise distinct (upper and lower case differ; within a side the king-side file is east of the
   king and the queen-side file west of it), so the parser's "seen before" test never fires *)
Theorem mix_field_parses np s0 s1 s2 s3 : CasOK np ->
  castle_loop (c_us np) (c_them np) (rooks np) (kings np) (mkCA false false false false 7 0 7 0) [] (mix_field np s0 s1 s2 s3)
  = Some (mkCA (us_ksc np) (us_qsc np) (them_ksc np) (them_qsc np) (cf0 np) (cf1 np) (cf2 np) (cf3 np)).
Proof.
  intros (HK & HQ & Hk & Hq).
  pose proof (kfile_le (c_us np) (kings np)) as Lw. pose proof (kfile_le (c_them np) (kings np)) as Lb.
  pose proof (fun a => parse_spell_wk np a s0) as CK. pose proof (fun a => parse_spell_wq np a s1) as CQ.
  pose proof (fun a => parse_spell_bk np a s2) as Ck. pose proof (fun a => parse_spell_bq np a s3) as Cq.
  pose proof (spell_cases np s0 true true (cf0 np)) as RK. pose proof (spell_cases np s1 true false (cf1 np)) as RQ.
  pose proof (spell_cases np s2 false true (cf2 np)) as Rk. pose proof (spell_cases np s3 false false (cf3 np)) as Rq.
  cbv iota in RK, RQ, Rk, Rq.
  unfold mix_field, mix_letters.
  set (LK := spell np s0 true true (cf0 np)) in *. set (LQ := spell np s1 true false (cf1 np)) in *.
  set (Lk := spell np s2 false true (cf2 np)) in *. set (Lq := spell np s3 false false (cf3 np)) in *.
  assert (DQK : us_ksc np = true -> us_qsc np = true -> (LQ =? LK) = false).
  { intros E1 E2. rewrite E1 in HK. rewrite E2 in HQ. apply N.eqb_neq. lia. }
  assert (DkK : us_ksc np = true -> them_ksc np = true -> (Lk =? LK) = false).
  { intros E1 E2. rewrite E1 in HK. rewrite E2 in Hk. apply N.eqb_neq. lia. }
  assert (DkQ : us_qsc np = true -> them_ksc np = true -> (Lk =? LQ) = false).
  { intros E1 E2. rewrite E1 in HQ. rewrite E2 in Hk. apply N.eqb_neq. lia. }
  assert (DqK : us_ksc np = true -> them_qsc np = true -> (Lq =? LK) = false).
  { intros E1 E2. rewrite E1 in HK. rewrite E2 in Hq. apply N.eqb_neq. lia. }
  assert (DqQ : us_qsc np = true -> them_qsc np = true -> (Lq =? LQ) = false).
  { intros E1 E2. rewrite E1 in HQ. rewrite E2 in Hq. apply N.eqb_neq. lia. }
  assert (Dqk : them_ksc np = true -> them_qsc np = true -> (Lq =? Lk) = false).
  { intros E1 E2. rewrite E1 in Hk. rewrite E2 in Hq. apply N.eqb_neq. lia. }
  clear RK RQ Rk Rq Lw Lb. clearbody LK LQ Lk Lq.
  revert HK HQ Hk Hq CK CQ Ck Cq DQK DkK DkQ DqK DqQ Dqk.
  generalize (cf0 np) (cf1 np) (cf2 np) (cf3 np). intros f0 f1 f2 f3.
  destruct (us_ksc np), (us_qsc np), (them_ksc np), (them_qsc np);
    intros HK HQ Hk Hq CK CQ Ck Cq DQK DkK DkQ DqK DqQ Dqk; cbn [negb andb app]; cbv iota;
    try specialize (DQK eq_refl eq_refl); try specialize (DkK eq_refl eq_refl); try specialize (DkQ eq_refl eq_refl);
    try specialize (DqK eq_refl eq_refl); try specialize (DqQ eq_refl eq_refl); try specialize (Dqk eq_refl eq_refl);
    try (subst f0); try (subst f1); try (subst f2); try (subst f3);
    try apply castle_dash;
    repeat (erewrite castle_loop_step;
            [ | cbn [existsb]; rewrite ?DQK, ?DkK, ?DkQ, ?DqK, ?DqQ, ?Dqk; reflexivity
              | first [ apply CK; exact HK | apply CQ; exact HQ | apply Ck; exact Hk | apply Cq; exact Hq ] ]);
    reflexivity.
Qed.

Theorem shredder_field_parses np : CasOK np ->
  castle_loop (c_us np) (c_them np) (rooks np) (kings np) (mkCA false false false false 7 0 7 0) [] (shredder_field np)
  = Some (mkCA (us_ksc np) (us_qsc np) (them_ksc np) (them_qsc np) (cf0 np) (cf1 np) (cf2 np) (cf3 np)).
Proof. intros H. rewrite shredder_field_mix. exact (mix_field_parses np true true true true H). Qed.

(* the field has no space and is not empty *)
Lemma mix_field_no32 np s0 s1 s2 s3 : CasOK np -> no32 (mix_field np s0 s1 s2 s3).
Proof.
  intros (HK & HQ & Hk & Hq). pose proof (kfile_le (c_us np) (kings np)) as Lw. pose proof (kfile_le (c_them np) (kings np)) as Lb.
  pose proof (spell_cases np s0 true true (cf0 np)) as RK. pose proof (spell_cases np s1 true false (cf1 np)) as RQ.
  pose proof (spell_cases np s2 false true (cf2 np)) as Rk. pose proof (spell_cases np s3 false false (cf3 np)) as Rq.
  cbv iota in RK, RQ, Rk, Rq. unfold mix_field, mix_letters, no32.
  destruct (us_ksc np), (us_qsc np), (them_ksc np), (them_qsc np); cbn [negb andb app In]; cbv iota; cbn [In]; lia.
Qed.
Lemma mix_field_nonempty np s0 s1 s2 s3 : mix_field np s0 s1 s2 s3 <> [].
Proof.
  unfold mix_field, mix_letters.
  destruct (us_ksc np), (us_qsc np), (them_ksc np), (them_qsc np); cbn [negb andb app]; cbv iota; discriminate.
Qed.
Lemma shredder_field_no32 np : CasOK np -> no32 (shredder_field np).
Proof. intros H. rewrite shredder_field_mix. apply mix_field_no32. exact H. Qed.
Lemma shredder_field_nonempty np : shredder_field np <> [].
Proof. rewrite shredder_field_mix. apply mix_field_nonempty. Qed.

(* ------------------------------------------------------------------ 3. the whole string *)
(* get_fen with the castling field replaced: the same assembly of the six fields *)
Definition get_fen_with (cas : Position -> str) (p : Position) : option str :=
  let np := if turn p then flip p else p in
  obind (fen_board np [7; 6; 5; 4; 3; 2; 1; 0]) (fun b =>
  let side := if turn p then [32; 98] else [32; 119] in
  let eps := match ep np with Some s => 32 :: show_sq s | None => [32; 45] end in
  Some (b ++ side ++ (32 :: cas np) ++ eps ++ 32 :: show_Z (halfmoves np) ++ 32 :: show_Z (fullmoves np))).

Definition get_fen_mix (s0 s1 s2 s3 : bool) : Position -> option str := get_fen_with (fun np => mix_field np s0 s1 s2 s3).
Definition get_fen_shredder : Position -> option str := get_fen_with shredder_field.

(* the printer of the model is the instance with its own field *)
Lemma get_fen_is_with p : get_fen p = get_fen_with cas_field p.
Proof.
  unfold get_fen, get_fen_with. cbv zeta. destruct (fen_board _ _) as [b|]; [|reflexivity]. cbn [obind].
  unfold cas_field, cas_letters.
  destruct (negb _ && negb _ && negb _ && negb _); reflexivity.
Qed.
Lemma get_fen_shredder_is_mix p : get_fen_shredder p = get_fen_mix true true true true p.
Proof. reflexivity. Qed.

(* the two strings differ in the castling field only *)
Lemma get_fen_shredder_shape p s : get_fen p = Some s ->
  let np := if turn p then flip p else p in
  exists pre post, s = pre ++ cas_field np ++ post /\ get_fen_shredder p = Some (pre ++ shredder_field np ++ post).
Proof.
  cbv zeta. rewrite get_fen_is_with. unfold get_fen_shredder, get_fen_with. cbv zeta.
  destruct (fen_board _ _) as [b|]; [|discriminate]. cbn [obind]. intros E.
  exists (b ++ (if turn p then [32; 98] else [32; 119]) ++ [32]). eexists. split.
  - assert (E' : forall x y : str, Some x = Some y -> y = x) by (intros x y X; congruence).
    rewrite (E' _ _ E). rewrite <- !app_assoc. cbn [app]. reflexivity.
  - rewrite <- !app_assoc. cbn [app]. reflexivity.
Qed.

Theorem fen_mix_roundtrip_raw mode s0 s1 s2 s3 p : RTC p ->
  exists s, get_fen_mix s0 s1 s2 s3 p = Some s /\ set_fen_raw mode (is_frc p) s = Some p.
Proof.
  intros H. set (np := if turn p then flip p else p).
  pose proof (np_turn p) as Ht. pose proof (npc_wf p H) as Hw. pose proof (npc_bb p H) as Hb. pose proof (npc_castle p H) as Hc.
  fold np in Ht, Hw, Hb, Hc.
  destruct (npc_fields p) as (Ehm & Efm & Efrc). fold np in Ehm, Efm, Efrc.
  destruct (npc_kings p H) as (K1 & K2). fold np in K1, K2.
  destruct (board_field_roundtrip np mode Hw Hb Ht) as (b & Hfb & Hl).
  set (c := if turn p then 98 else 119).
  set (casf := mix_field np s0 s1 s2 s3).
  set (epf := match ep np with Some e => show_sq e | None => [45] end).
  set (hmf := show_Z (halfmoves np)). set (fmf := show_Z (fullmoves np)).
  assert (Hget : get_fen_mix s0 s1 s2 s3 p = Some (b ++ 32 :: [c] ++ 32 :: casf ++ 32 :: epf ++ 32 :: hmf ++ 32 :: fmf)).
  { unfold get_fen_mix, get_fen_with. fold np. rewrite Hfb. cbn [obind]. f_equal. f_equal. unfold c, casf, epf, hmf, fmf.
    destruct (turn p); destruct (ep np); cbn [app]; rewrite <- ?app_assoc; reflexivity. }
  eexists. split; [exact Hget|].
  assert (Hsplit : split_sp (b ++ 32 :: [c] ++ 32 :: casf ++ 32 :: epf ++ 32 :: hmf ++ 32 :: fmf) [] = [b; [c]; casf; epf; hmf; fmf]).
  { rewrite (split_sp_field b (board_loop_no32 mode _ _ _ Hl)).
    rewrite (split_sp_field [c]) by (unfold c; destruct (turn p); intros [E|[]]; discriminate).
    rewrite (split_sp_field casf) by (apply mix_field_no32; exact Hc).
    rewrite (split_sp_field epf) by (unfold epf; destruct (ep np); [apply show_sq_no32|intros [E|[]]; discriminate]).
    rewrite (split_sp_field hmf) by apply show_Z_no32.
    rewrite (split_sp_last fmf) by apply show_Z_no32. reflexivity. }
  assert (Hep : forall e, ep np = Some e -> e < 64).
  { intros e He. unfold np in He. destruct (turn p); [|exact (rc_ep p H e He)].
    cbn [flip ep] in He. destruct (ep p) as [e0|] eqn:E0; [|discriminate]. injection He as <-. apply flip_sq_lt. exact (rc_ep p H e0 E0). }
  rewrite (set_fen_stages mode (is_frc p) _ b c casf epf hmf fmf _ (turn p)
             (mkCA (us_ksc np) (us_qsc np) (them_ksc np) (them_qsc np) (cf0 np) (cf1 np) (cf2 np) (cf3 np))
             (ep np) (halfmoves np) (fullmoves np) Hsplit Hl).
  - cbn [ba_w ba_b ba_pc ca_uk ca_uq ca_tk ca_tq ca_f0 ca_f1 ca_f2 ca_f3]. cbv zeta.
    change (nthN [pawns np; knights np; bishops np; rooks np; queens np; kings np] 0 0) with (pawns np).
    change (nthN [pawns np; knights np; bishops np; rooks np; queens np; kings np] 1 0) with (knights np).
    change (nthN [pawns np; knights np; bishops np; rooks np; queens np; kings np] 2 0) with (bishops np).
    change (nthN [pawns np; knights np; bishops np; rooks np; queens np; kings np] 3 0) with (rooks np).
    change (nthN [pawns np; knights np; bishops np; rooks np; queens np; kings np] 4 0) with (queens np).
    change (nthN [pawns np; knights np; bishops np; rooks np; queens np; kings np] 5 0) with (kings np).
    set (Q := mkPos (c_us np) (c_them np) (pawns np) (knights np) (bishops np) (rooks np) (queens np) (kings np)
                      (halfmoves np) (fullmoves np) false (ep np) (us_ksc np) (us_qsc np) (them_ksc np) (them_qsc np)
                      (cf0 np) (cf1 np) (cf2 np) (cf3 np) 0 (is_frc p)).
    assert (Eq : (if turn p then flip Q else Q) = set_hash p 0).
    { assert (Enp : Q = set_hash np 0) by (apply mk_np_rights; [exact Ht|symmetry; exact Efrc]).
      rewrite Enp. unfold np. destruct (turn p) eqn:Et.
      - transitivity (set_hash (flip (flip p)) 0); [destruct (flip p); reflexivity|]. rewrite (flip_flip p (rc_bb p H) (rc_ep p H)). reflexivity.
      - reflexivity. }
    rewrite Eq. unfold finish_fen. rewrite calculate_hash_set_hash, <- (rc_hash p H).
    assert (Es : set_hash (set_hash p 0) (hash p) = p) by (destruct p; reflexivity). rewrite Es.
    assert (Ebit : match ep p with Some e => bit_m mode e | None => Some 0 end <> None).
    { destruct (ep p) as [e|] eqn:E; [|discriminate]. unfold bit_m. pose proof (rc_ep p H e E) as L. apply N.ltb_lt in L. rewrite L. discriminate. }
    destruct (match ep p with Some e => bit_m mode e | None => Some 0 end); [|contradiction]. rewrite (rc_valid p H). reflexivity.
  - reflexivity.
  - unfold c. destruct (turn p); reflexivity.
  - cbn [ba_w ba_pc]. change (nthN [pawns np; knights np; bishops np; rooks np; queens np; kings np] 5 0) with (kings np). exact K1.
  - cbn [ba_b ba_pc]. change (nthN [pawns np; knights np; bishops np; rooks np; queens np; kings np] 5 0) with (kings np). exact K2.
  - cbn [ba_w ba_b ba_pc].
    change (nthN [pawns np; knights np; bishops np; rooks np; queens np; kings np] 3 0) with (rooks np).
    change (nthN [pawns np; knights np; bishops np; rooks np; queens np; kings np] 5 0) with (kings np).
    exact (mix_field_parses np s0 s1 s2 s3 Hc).
  - unfold epf. destruct (ep np) as [e|] eqn:E; [exact (ep_parse_sq mode e (Hep e eq_refl))|exact (ep_parse_dash mode)].
  - unfold hmf. rewrite Ehm. apply parse_show_Z. exact (rc_hm p H).
  - rewrite Ehm. apply Z.ltb_ge. exact (proj1 (rc_hm p H)).
  - unfold fmf. rewrite Efm. apply parse_show_Z. exact (rc_fm p H).
  - rewrite Efm. apply Z.ltb_ge. exact (proj1 (rc_fm p H)).
Qed.

(* through set_fen / from_fen: the string is never the word "startpos" (it contains a space) *)
Theorem fen_mix_roundtrip mode s0 s1 s2 s3 p : RTC p ->
  exists s, get_fen_mix s0 s1 s2 s3 p = Some s /\ set_fen mode (is_frc p) s = Some p.
Proof.
  intros H. destruct (fen_mix_roundtrip_raw mode s0 s1 s2 s3 p H) as (s & Hg & Hs). exists s. split; [exact Hg|].
  unfold set_fen. destruct (str_eqb s STARTPOS_STR) eqn:E; [|exact Hs]. exfalso.
  apply str_eqb_eq' in E. subst s.
  unfold get_fen_mix, get_fen_with in Hg. destruct (fen_board _ _) as [b|]; [|discriminate]. cbn [obind] in Hg.
  assert (E' : forall x y : str, Some x = Some y -> x = y) by (intros x y X; congruence). apply E' in Hg.
  assert (Hin : In 32 STARTPOS_STR).
  { rewrite <- Hg. apply in_or_app. right. destruct (turn p); left; reflexivity. }
  vm_compute in Hin. repeat destruct Hin as [Hin|Hin]; try discriminate Hin. exact Hin.
Qed.

(* the Shredder-FEN of a valid position is accepted and denotes that position: any arithmetic mode, and the is_frc flag of
   the receiving engine may be on or off (the result carries that flag, so it is p when the flag equals is_frc p) *)
Theorem fen_shredder_roundtrip mode p : RTC p ->
  exists s, get_fen_shredder p = Some s /\ set_fen mode (is_frc p) s = Some p.
Proof. intros H. rewrite get_fen_shredder_is_mix. exact (fen_mix_roundtrip mode true true true true p H). Qed.

(* modulo dead files, as FenCastle.fen_roundtrip_modulo_dead_files *)
Lemma get_fen_with_norm cas p :
  (forall q q', c_us q = c_us q' -> c_them q = c_them q' -> rooks q = rooks q' -> kings q = kings q' ->
                us_ksc q = us_ksc q' -> us_qsc q = us_qsc q' -> them_ksc q = them_ksc q' -> them_qsc q = them_qsc q' ->
                (us_ksc q = true -> cf0 q = cf0 q') -> (us_qsc q = true -> cf1 q = cf1 q') ->
                (them_ksc q = true -> cf2 q = cf2 q') -> (them_qsc q = true -> cf3 q = cf3 q') -> cas q = cas q') ->
  get_fen_with cas (norm_files p) = get_fen_with cas p.
Proof.
  intros Hcas.
  destruct p as [us th pw kn bi ro qu ki hm fm t e uk uq tk tq f0 f1 f2 f3 h frc]. unfold norm_files, get_fen_with.
  cbn [c_us c_them pawns knights bishops rooks queens kings halfmoves fullmoves turn ep us_ksc us_qsc them_ksc them_qsc cf0 cf1 cf2 cf3 hash is_frc].
  destruct t; unfold flip;
    cbn [c_us c_them pawns knights bishops rooks queens kings halfmoves fullmoves turn ep us_ksc us_qsc them_ksc them_qsc cf0 cf1 cf2 cf3 hash is_frc].
  - match goal with |- obind (fen_board ?A ?l) _ = obind (fen_board ?B _) _ =>
      rewrite (fen_board_ext A B eq_refl eq_refl eq_refl eq_refl eq_refl eq_refl eq_refl eq_refl eq_refl l);
      rewrite (Hcas A B) end;
      [reflexivity| try reflexivity ..];
      cbn [us_ksc us_qsc them_ksc them_qsc cf0 cf1 cf2 cf3]; intros ->; reflexivity.
  - match goal with |- obind (fen_board ?A ?l) _ = obind (fen_board ?B _) _ =>
      rewrite (fen_board_ext A B eq_refl eq_refl eq_refl eq_refl eq_refl eq_refl eq_refl eq_refl eq_refl l);
      rewrite (Hcas A B) end;
      [reflexivity| try reflexivity ..];
      cbn [us_ksc us_qsc them_ksc them_qsc cf0 cf1 cf2 cf3]; intros ->; reflexivity.
Qed.

Lemma shredder_field_ext q q' :
  c_us q = c_us q' -> c_them q = c_them q' -> rooks q = rooks q' -> kings q = kings q' ->
  us_ksc q = us_ksc q' -> us_qsc q = us_qsc q' -> them_ksc q = them_ksc q' -> them_qsc q = them_qsc q' ->
  (us_ksc q = true -> cf0 q = cf0 q') -> (us_qsc q = true -> cf1 q = cf1 q') ->
  (them_ksc q = true -> cf2 q = cf2 q') -> (them_qsc q = true -> cf3 q = cf3 q') -> shredder_field q = shredder_field q'.
Proof.
  intros _ _ _ _ E1 E2 E3 E4 F0 F1 F2 F3. unfold shredder_field, shredder_letters. rewrite <- E1, <- E2, <- E3, <- E4.
  destruct (us_ksc q); [rewrite <- (F0 eq_refl)|]; (destruct (us_qsc q); [rewrite <- (F1 eq_refl)|]);
    (destruct (them_ksc q); [rewrite <- (F2 eq_refl)|]); (destruct (them_qsc q); [rewrite <- (F3 eq_refl)|]); reflexivity.
Qed.

Theorem fen_shredder_roundtrip_modulo_dead_files mode p : RTW p ->
  exists s, get_fen_shredder p = Some s /\ set_fen mode (is_frc p) s = Some (norm_files p).
Proof.
  intros H. destruct (fen_shredder_roundtrip mode (norm_files p) (RTW_RTC p H)) as (s & Hg & Hs).
  exists s. unfold get_fen_shredder in Hg. rewrite (get_fen_with_norm shredder_field p shredder_field_ext) in Hg.
  split; [exact Hg|exact Hs].
Qed.

(* ------------------------------------------------------------------ non-vacuity *)
(* "rnbqkbnr/pppppppp/8/8/8/8/PPPPPPPP/RNBQKBNR w HAha - 0 1" *)
Definition STARTPOS_SHREDDER : str :=
  [114;110;98;113;107;98;110;114;47;112;112;112;112;112;112;112;112;47;56;47;56;47;56;47;56;47;
   80;80;80;80;80;80;80;80;47;82;78;66;81;75;66;78;82;32;119;32;72;65;104;97;32;45;32;48;32;49].
Example startpos_shredder :
  get_fen_shredder startpos = Some STARTPOS_SHREDDER
  /\ set_fen true false STARTPOS_SHREDDER = Some startpos /\ set_fen false true STARTPOS_SHREDDER = set_fen false true STARTPOS_FEN.
Proof. vm_compute. repeat split; reflexivity. Qed.

(* the Chess960 witness of FenCastle.v with Black to move, rooks b8 d8 f1 h1, rights on d8 and f1: "Fd" both ways *)
Example frc_shredder : get_fen_shredder frc_b = get_fen frc_b.
Proof. vm_compute. reflexivity. Qed.

Print Assumptions shredder_field_parses.
Print Assumptions mix_field_parses.
Print Assumptions fen_shredder_roundtrip.
Print Assumptions fen_mix_roundtrip.
Print Assumptions fen_shredder_roundtrip_modulo_dead_files.
