(* C01 (soundness half), assembled: on a position satisfying the invariant of Closure.v and the en-passant consistency of
   EpRetro.v, NO move the generator emits leaves the mover's own king attacked.  Consequences: the invariant is kept by every
   generated move with no legality premise, so the refinement of the rules (C02) and the key invariant (C04) hold along every
   sequence of generated moves, and the search theorems of SearchBound.v (C03, C14) lose their named hypothesis. *)
From Coq Require Import NArith ZArith List Bool Lia.
From Rawr Require Import Consts Bits Magic Position MoveGen MakeMove MakeStages Eval TT Search Rules Abs
                         HashFacts MakeFacts KeyAbs GenSane Closure ClosureNull MenCount EpRetro
                         LegalBase LegalKing LegalCastle LegalPin LegalBlocks LegalEp SearchFacts SearchBound.
Import ListNotations.
Local Open Scope N_scope.

Theorem gen_legal u p m : Inv0 p -> ep_ok_b p = true -> In m (legal_moves p) -> in_check_them (makemove u p m) = false.
Proof.
  intros I He Hm. unfold legal_moves in Hm. apply in_map_iff in Hm. destruct Hm as (g & <- & Hg).
  destruct (generated_legal_but_ep u p g I Hg) as [Hep|H]; [exact (ep_legal u p g I He Hep)|exact H].
Qed.

(* the invariant with the en-passant consistency, kept by every generated move and by the null move out of check *)
Record InvR (p : Position) : Prop := { ir_inv : Inv p; ir_ep : ep_ok_b p = true }.

Theorem invR_step p m : InvR p -> In m (legal_moves p) -> InvR (makemove true p m).
Proof.
  intros [I He] Hm. pose proof (gen_legal true p m (Inv_Inv0 p I) He Hm) as Hl.
  constructor; [exact (inv_step p m I Hm Hl)|exact (ep_ok_step true p m (Inv_Inv0 p I) Hm)].
Qed.
Theorem invR_null p : InvR p -> in_check p = false -> InvR (makenull p).
Proof. intros [I He] Hc. constructor; [exact (null_inv p I (null_safe p I Hc))|exact (ep_ok_null p)]. Qed.

Definition invR_b (p : Position) : bool := inv_b p && ep_ok_b p.
Theorem invR_b_sound p : invR_b p = true -> InvR p.
Proof. unfold invR_b. intros H. apply andb_true_iff in H. destruct H as [H1 H2]. constructor; [exact (inv_b_sound p H1)|exact H2]. Qed.

(* sequences of generated moves: each move is one the generator emits in the position reached *)
Fixpoint gen_seq (p : Position) (ms : list Mv) : Prop :=
  match ms with
  | [] => True
  | m :: r => In m (legal_moves p) /\ gen_seq (makemove true p m) r
  end.

Lemma gen_seq_legal ms : forall p, InvR p -> gen_seq p ms -> legal_seq p ms /\ InvR (fold_left (makemove true) ms p).
Proof.
  induction ms as [|m r IH]; intros p I H; cbn [gen_seq legal_seq fold_left] in *; [split; [exact Logic.I|exact I]|].
  destruct H as (Hm & Hr). destruct (IH _ (invR_step p m I Hm) Hr) as (H1 & H2).
  split; [|exact H2]. split; [exact Hm|split; [|exact H1]].
  exact (gen_legal true p m (Inv_Inv0 p (ir_inv p I)) (ir_ep p I) Hm).
Qed.

Theorem gen_run_inv ms p : InvR p -> gen_seq p ms -> InvR (fold_left (makemove true) ms p).
Proof. intros I H. exact (proj2 (gen_seq_legal ms p I H)). Qed.
Theorem gen_run_refines ms p : InvR p -> gen_seq p ms ->
  abs_state (fold_left (makemove true) ms p) = spec_run p ms (abs_state p).
Proof. intros I H. exact (run_refines ms p (ir_inv p I) (proj1 (gen_seq_legal ms p I H))). Qed.
Theorem gen_run_keys ms p : InvR p -> gen_seq p ms ->
  let q := fold_left (makemove true) ms p in
  hash q = calculate_hash q /\ calculate_hash q = KeySpec.spec_key (abs_state q).
Proof. intros I H. exact (run_keys ms p (ir_inv p I) (proj1 (gen_seq_legal ms p I H))). Qed.
(* no generated move, at any point of any such sequence, leaves the mover's king attacked *)
Theorem gen_run_legal ms p m : InvR p -> gen_seq p ms -> In m (legal_moves (fold_left (makemove true) ms p)) ->
  in_check_them (makemove true (fold_left (makemove true) ms p) m) = false.
Proof.
  intros I H Hm. pose proof (gen_run_inv ms p I H) as [Iq Eq]. exact (gen_legal true _ m (Inv_Inv0 _ Iq) Eq Hm).
Qed.

(* ------------------------------------------------------------------ the search theorems without the named hypothesis *)
Local Open Scope Z_scope.
Theorem search_answers_with_a_legal_move (stopf : Stats -> bool) fuel p hist tt r :
  InvSR p -> TBnd tt -> Z.of_nat fuel <= 2 * MATE_SCORE -> legal_moves p <> [] ->
  root stopf fuel p hist tt = Some r -> exists m, rr_best r = Some m /\ In m (legal_moves p).
Proof. exact (root_answers_legal stopf gen_legal fuel p hist tt r). Qed.
Theorem search_scores_within_the_mate_bounds (stopf : Stats -> bool) fuel p hist tt r :
  InvSR p -> TBnd tt -> Z.of_nat fuel <= 2 * MATE_SCORE ->
  root stopf fuel p hist tt = Some r ->
  (forall i, In i (rr_infos r) -> - MATE_SCORE <= i_score i <= MATE_SCORE /\ - INF < i_score i < INF) /\ TBnd (ss_tt (rr_state r)).
Proof. exact (root_scores_bounded stopf gen_legal fuel p hist tt r). Qed.

Print Assumptions gen_legal.
Print Assumptions search_answers_with_a_legal_move.
