(* C01/C10 groundwork: testbit characterisations of the eight bitboard shifts (masks and amounts are the ones the
   translator read from bitboard.rs), i.e. one step in each compass direction without wrap-around at the edges. *)
From Coq Require Import NArith ZArith List Bool Lia.
From Rawr Require Import Consts Bits Magic Position BitsFacts.
Import ListNotations.
Local Open Scope N_scope.

Lemma testbit_small_mask m (Hm : m < TWO64) (f : N -> bool) :
  forallb (fun i => Bool.eqb (N.testbit m i) (f i)) (map N.of_nat (seq 0 64)) = true ->
  forall i, N.testbit m i = (i <? 64) && f i.
Proof.
  intros H i. destruct (N.ltb_spec i 64) as [Hi|Hi].
  - rewrite forallb_forall in H. specialize (H i). cbn [andb].
    apply Bool.eqb_prop. apply H. rewrite <- (N2Nat.id i). apply in_map. apply in_seq. lia.
  - cbn [andb]. apply lt64_testbit_high; assumption.
Qed.

Lemma testbit_NOT_A i : N.testbit NOT_A i = (i <? 64) && negb (i mod 8 =? 0).
Proof. apply (testbit_small_mask NOT_A eq_refl (fun i => negb (i mod 8 =? 0))). vm_compute. reflexivity. Qed.
Lemma testbit_NOT_H i : N.testbit NOT_H i = (i <? 64) && negb (i mod 8 =? 7).
Proof. apply (testbit_small_mask NOT_H eq_refl (fun i => negb (i mod 8 =? 7))). vm_compute. reflexivity. Qed.

(* the masks read from the source are the two edge masks (re-checked on every regeneration of Consts.v) *)
Lemma masks_are_edges :
  BB_EAST_MASK = NOT_A /\ BB_NORTH_EAST_MASK = NOT_A /\ BB_SOUTH_EAST_MASK = NOT_A
  /\ BB_WEST_MASK = NOT_H /\ BB_NORTH_WEST_MASK = NOT_H /\ BB_SOUTH_WEST_MASK = NOT_H.
Proof. repeat split; reflexivity. Qed.

Theorem testbit_north b i : N.testbit (north b) i = (i <? 64) && (8 <=? i) && N.testbit b (i - 8).
Proof. unfold north. apply testbit_shl. Qed.
Theorem testbit_south b i : N.testbit (south b) i = N.testbit b (i + 8).
Proof. unfold south. apply testbit_shr. Qed.

Theorem testbit_east b i : N.testbit (east b) i = (i <? 64) && negb (i mod 8 =? 0) && (1 <=? i) && N.testbit b (i - 1).
Proof.
  unfold east, shift_by. change BB_EAST_LEFT with true. change BB_EAST_AMT with 1. change BB_EAST_MASK with NOT_A.
  rewrite N.land_spec, testbit_shl, testbit_NOT_A.
  destruct (i <? 64), (i mod 8 =? 0), (1 <=? i), (N.testbit b (i - 1)); reflexivity.
Qed.
Theorem testbit_west b i : N.testbit (west b) i = (i <? 64) && negb (i mod 8 =? 7) && N.testbit b (i + 1).
Proof.
  unfold west, shift_by. change BB_WEST_LEFT with false. change BB_WEST_AMT with 1. change BB_WEST_MASK with NOT_H.
  rewrite N.land_spec, testbit_shr, testbit_NOT_H.
  destruct (i <? 64), (i mod 8 =? 7), (N.testbit b (i + 1)); reflexivity.
Qed.
Theorem testbit_north_east b i :
  N.testbit (north_east b) i = (i <? 64) && negb (i mod 8 =? 0) && (9 <=? i) && N.testbit b (i - 9).
Proof.
  unfold north_east, shift_by. change BB_NORTH_EAST_LEFT with true. change BB_NORTH_EAST_AMT with 9. change BB_NORTH_EAST_MASK with NOT_A.
  rewrite N.land_spec, testbit_shl, testbit_NOT_A.
  destruct (i <? 64), (i mod 8 =? 0), (9 <=? i), (N.testbit b (i - 9)); reflexivity.
Qed.
Theorem testbit_north_west b i :
  N.testbit (north_west b) i = (i <? 64) && negb (i mod 8 =? 7) && (7 <=? i) && N.testbit b (i - 7).
Proof.
  unfold north_west, shift_by. change BB_NORTH_WEST_LEFT with true. change BB_NORTH_WEST_AMT with 7. change BB_NORTH_WEST_MASK with NOT_H.
  rewrite N.land_spec, testbit_shl, testbit_NOT_H.
  destruct (i <? 64), (i mod 8 =? 7), (7 <=? i), (N.testbit b (i - 7)); reflexivity.
Qed.
Theorem testbit_south_east b i :
  N.testbit (south_east b) i = (i <? 64) && negb (i mod 8 =? 0) && N.testbit b (i + 7).
Proof.
  unfold south_east, shift_by. change BB_SOUTH_EAST_LEFT with false. change BB_SOUTH_EAST_AMT with 7. change BB_SOUTH_EAST_MASK with NOT_A.
  rewrite N.land_spec, testbit_shr, testbit_NOT_A.
  destruct (i <? 64), (i mod 8 =? 0), (N.testbit b (i + 7)); reflexivity.
Qed.
Theorem testbit_south_west b i :
  N.testbit (south_west b) i = (i <? 64) && negb (i mod 8 =? 7) && N.testbit b (i + 9).
Proof.
  unfold south_west, shift_by. change BB_SOUTH_WEST_LEFT with false. change BB_SOUTH_WEST_AMT with 9. change BB_SOUTH_WEST_MASK with NOT_H.
  rewrite N.land_spec, testbit_shr, testbit_NOT_H.
  destruct (i <? 64), (i mod 8 =? 7), (N.testbit b (i + 9)); reflexivity.
Qed.

(* pawn attack sets, set-wise: j is attacked by one of our pawns iff a pawn stands south-west or south-east of j *)
Theorem testbit_pawns_us bb j :
  N.testbit (pawns_bb true bb) j
  = (j <? 64) && ((negb (j mod 8 =? 0) && (9 <=? j) && N.testbit bb (j - 9))
                  || (negb (j mod 8 =? 7) && (7 <=? j) && N.testbit bb (j - 7))).
Proof.
  unfold pawns_bb. rewrite N.lor_spec, testbit_north_east, testbit_north_west.
  destruct (j <? 64); reflexivity.
Qed.
Theorem testbit_pawns_them bb j :
  N.testbit (pawns_bb false bb) j
  = (j <? 64) && ((negb (j mod 8 =? 0) && N.testbit bb (j + 7)) || (negb (j mod 8 =? 7) && N.testbit bb (j + 9))).
Proof.
  unfold pawns_bb. rewrite N.lor_spec, testbit_south_east, testbit_south_west.
  destruct (j <? 64); reflexivity.
Qed.
