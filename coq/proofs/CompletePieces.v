(* C01 (completeness half, engine level, frame independent): a knight, bishop, rook or queen move to a square the man
   attacks, not occupied by one of our own men, that does not leave our king attacked, is generated. *)
From Coq Require Import NArith ZArith List Bool Lia ZifyN ZifyBool.
From Rawr Require Import Consts Bits Magic Position MoveGen MakeMove MakeStages
                         BitsFacts ShiftFacts LsbFacts HashFacts MakeFacts KeyAbs AttackFacts RayFacts CountFacts
                         GenSane GenNoDup RaySym NoKingCapture Closure EpRetro LegalBase.
From Rawr Require LegalEp.
From Rawr Require Import LegalConv.
Import ListNotations.
Local Open Scope N_scope.

(* ---- membership in a slider block, bit level *)
Lemma slider_moves_in K att p froms targets a b :
  In (K, a, b, NOPIECE) (slider_moves K att p froms targets) <->
  N.testbit froms a = true /\ N.testbit (N.land (att a (occupied p)) targets) b = true.
Proof.
  unfold slider_moves. rewrite in_flat_map. split.
  - intros (from & Hf & Hg). apply in_map_iff in Hg. destruct Hg as (to & E & Hto).
    assert (Ea : from = a) by congruence. assert (Eb : to = b) by congruence. subst from to.
    apply bits_spec in Hf, Hto. split; assumption.
  - intros (Hf & Hto). exists a. split; [apply bits_spec; exact Hf|].
    apply in_map_iff. exists b. split; [reflexivity|apply bits_spec; exact Hto].
Qed.

Lemma knights_in p a b :
  N.testbit (N.land (N.land (knights p) (c_us p)) (bnot (gi_pinned (gen_info p)))) a = true ->
  N.testbit (N.land (knights_bb (bit a)) (gi_allowed (gen_info p))) b = true ->
  In (KNIGHT, a, b, NOPIECE) (blk_knights p).
Proof.
  intros Hf Hto. unfold blk_knights. apply in_flat_map. exists a. split; [apply bits_spec; exact Hf|].
  apply in_map_iff. exists b. split; [reflexivity|apply bits_spec; exact Hto].
Qed.

(* ---- from a block to the list of legal moves *)
Lemma gen_in_legal p g : In g (move_generator p) -> In (gen_mv g) (legal_moves p).
Proof. intros H. unfold legal_moves. apply in_map. exact H. Qed.

Tactic Notation "block" integer(n) hyp(H) :=
  rewrite generator_blocks; do n (apply in_or_app; right); apply in_or_app; left; exact H.

Lemma in_blk5 p g : In g (blk_knights p) -> In g (move_generator p).
Proof. intros H. block 5 H. Qed.
Lemma in_blk6 p g : In g (slider_moves BISHOP batt p (N.land (N.land (bishops p) (c_us p)) (gi_bpinned (gen_info p)))
                           (N.land (gi_allowed (gen_info p)) (gi_bxrays (gen_info p)))) -> In g (move_generator p).
Proof. intros H. block 6 H. Qed.
Lemma in_blk7 p g : In g (slider_moves BISHOP batt p (N.land (N.land (bishops p) (c_us p)) (bnot (gi_pinned (gen_info p))))
                           (gi_allowed (gen_info p))) -> In g (move_generator p).
Proof. intros H. block 7 H. Qed.
Lemma in_blk8 p g : In g (slider_moves ROOK ratt p (N.land (N.land (rooks p) (c_us p)) (gi_rpinned (gen_info p)))
                           (N.land (gi_allowed (gen_info p)) (gi_rxrays (gen_info p)))) -> In g (move_generator p).
Proof. intros H. block 8 H. Qed.
Lemma in_blk9 p g : In g (slider_moves ROOK ratt p (N.land (N.land (rooks p) (c_us p)) (bnot (gi_pinned (gen_info p))))
                           (gi_allowed (gen_info p))) -> In g (move_generator p).
Proof. intros H. block 9 H. Qed.
Lemma in_blk10 p g : In g (slider_moves QUEEN batt p (N.land (N.land (queens p) (c_us p)) (gi_bpinned (gen_info p)))
                           (N.land (gi_allowed (gen_info p)) (gi_bxrays (gen_info p)))) -> In g (move_generator p).
Proof. intros H. block 10 H. Qed.
Lemma in_blk11 p g : In g (slider_moves QUEEN ratt p (N.land (N.land (queens p) (c_us p)) (gi_rpinned (gen_info p)))
                           (N.land (gi_allowed (gen_info p)) (gi_rxrays (gen_info p)))) -> In g (move_generator p).
Proof. intros H. block 11 H. Qed.
Lemma in_blk12 p g : In g (slider_moves QUEEN qatt p (N.land (N.land (queens p) (c_us p)) (bnot (gi_pinned (gen_info p))))
                           (gi_allowed (gen_info p))) -> In g (move_generator p).
Proof. intros H. block 12 H. Qed.

(* ---- what `holds` says at bit level *)
Lemma holds_ours p a k : holds p a false k -> N.testbit (c_us p) a = true /\ N.testbit (get_piece p k) a = true.
Proof.
  intros (Hk & Hu & _ & Hp). split; [exact Hu|]. specialize (Hp k Hk). rewrite N.eqb_refl in Hp. exact Hp.
Qed.

Lemma src_bits X U Y a : N.testbit X a = true -> N.testbit U a = true -> N.testbit Y a = true ->
  N.testbit (N.land (N.land X U) Y) a = true.
Proof. intros H1 H2 H3. rewrite !N.land_spec, H1, H2, H3. reflexivity. Qed.

Lemma not_pinned_bit p a : a < 64 -> N.testbit (gi_pinned (gen_info p)) a = false ->
  N.testbit (bnot (gi_pinned (gen_info p))) a = true.
Proof. intros Ha H. rewrite testbit_bnot, H. apply N.ltb_lt in Ha. rewrite Ha. reflexivity. Qed.

Lemma land_bits X Y b : N.testbit X b = true -> N.testbit Y b = true -> N.testbit (N.land X Y) b = true.
Proof. intros H1 H2. rewrite N.land_spec, H1, H2. reflexivity. Qed.

(* ---- the common preparation: sane, not en passant, target allowed *)
Section Prep.
Variables (u : bool) (p : Position) (k a b : N).
Hypothesis I : Inv0 p.
Hypothesis Hk5 : k <= 5.
Hypothesis Hnp : k <> PAWN.
Hypothesis Hnk : k <> KING.
Hypothesis Ha : a < 64.
Hypothesis Hb : b < 64.
Hypothesis Hh : holds p a false k.
Hypothesis Hub : ub p b = false.
Hypothesis NVK : b <> tksq p.
Hypothesis Hsafe : in_check_them (makemove u p (mkMv a b NOPIECE)) = false.
Local Notation m := (mkMv a b NOPIECE).
Local Notation gi := (gen_info p).

Lemma prep_sane : sane p m k.
Proof.
  destruct (holds_ours p a k Hh) as (Hu & Hp).
  destruct (piece_move_sane p (i0_good p I) k a b Hk5 Hnp Ha Hb Hu Hp Hub) as (S & _). exact S.
Qed.
Lemma prep_nep : mv_is_ep p m = false.
Proof. exact (not_ep_piece p a b NOPIECE k Hnp Hh). Qed.
Lemma prep_allowed : N.testbit (gi_allowed gi) b = true.
Proof. exact (conv_allowed u p m k I prep_sane NVK Hnk prep_nep Hsafe). Qed.
Lemma prep_knight : N.testbit (knights_bb (bit a)) b = true -> N.testbit (gi_pinned gi) a = false.
Proof. exact (conv_knight u p m k I prep_sane NVK Hnk prep_nep Hsafe). Qed.
Lemma prep_diag : N.testbit (batt a (occupied p)) b = true -> N.testbit (gi_pinned gi) a = true ->
  N.testbit (gi_bpinned gi) a = true /\ N.testbit (gi_bxrays gi) b = true.
Proof.
  intros H1 H2. pose proof (conv_diag u p m k I prep_sane NVK Hnk prep_nep Hsafe H1 H2) as H3.
  split; [exact H3|]. exact (conv_bpinned u p m k I prep_sane NVK Hnk prep_nep Hsafe H3).
Qed.
Lemma prep_orth : N.testbit (ratt a (occupied p)) b = true -> N.testbit (gi_pinned gi) a = true ->
  N.testbit (gi_rpinned gi) a = true /\ N.testbit (gi_rxrays gi) b = true.
Proof.
  intros H1 H2. pose proof (conv_orth u p m k I prep_sane NVK Hnk prep_nep Hsafe H1 H2) as H3.
  split; [exact H3|]. exact (conv_rpinned u p m k I prep_sane NVK Hnk prep_nep Hsafe H3).
Qed.
End Prep.

(* ---- the target is not their king's square *)
Lemma safe_not_attacked p : Inv0 p -> is_sq_attacked p (tksq p) true = false.
Proof. intros I. exact (i0_safe p I). Qed.

Lemma knight_nvk p a b : Inv0 p -> a < 64 -> b < 64 -> holds p a false KNIGHT ->
  N.testbit (knights_bb (bit a)) b = true -> b <> tksq p.
Proof.
  intros I Ha Hb Hh Hatt E. destruct (holds_ours p a KNIGHT Hh) as (Hu & Hp).
  assert (X : is_sq_attacked p b true = true).
  { apply (attacked_by_knight p a b Ha Hb Hatt). change (get_piece p KNIGHT) with (knights p) in Hp. rewrite N.land_spec, Hp, Hu. reflexivity. }
  rewrite E, (safe_not_attacked p I) in X. discriminate.
Qed.

Lemma diag_nvk p k a b : Inv0 p -> a < 64 -> b < 64 -> holds p a false k ->
  N.testbit (N.lor (bishops p) (queens p)) a = true ->
  N.testbit (batt a (occupied p)) b = true -> b <> tksq p.
Proof.
  intros I Ha Hb Hh Hq Hatt E. destruct (holds_ours p a k Hh) as (Hu & _).
  pose proof (attacked_by_diag p a b Ha Hb Hatt Hu Hq) as X.
  rewrite E, (safe_not_attacked p I) in X. discriminate.
Qed.

Lemma orth_nvk p k a b : Inv0 p -> a < 64 -> b < 64 -> holds p a false k ->
  N.testbit (N.lor (rooks p) (queens p)) a = true ->
  N.testbit (ratt a (occupied p)) b = true -> b <> tksq p.
Proof.
  intros I Ha Hb Hh Hq Hatt E. destruct (holds_ours p a k Hh) as (Hu & _).
  pose proof (attacked_by_orth p a b Ha Hb Hatt Hu Hq) as X.
  rewrite E, (safe_not_attacked p I) in X. discriminate.
Qed.

Lemma pinned_cases p a : N.testbit (gi_pinned (gen_info p)) a = true \/ N.testbit (gi_pinned (gen_info p)) a = false.
Proof. destruct (N.testbit (gi_pinned (gen_info p)) a); [left|right]; reflexivity. Qed.

(* ------------------------------------------------------------------ knights *)
Theorem knight_complete u p a b : Inv0 p -> a < 64 -> b < 64 -> holds p a false KNIGHT ->
  N.testbit (knights_bb (bit a)) b = true -> ub p b = false ->
  in_check_them (makemove u p (mkMv a b NOPIECE)) = false -> In (mkMv a b NOPIECE) (legal_moves p).
Proof.
  intros I Ha Hb Hh Hatt Hub Hsafe.
  assert (Hk5 : KNIGHT <= 5) by (unfold KNIGHT; lia).
  assert (Hnp : KNIGHT <> PAWN) by (unfold KNIGHT, PAWN; lia).
  assert (Hnk : KNIGHT <> KING) by (unfold KNIGHT, KING; lia).
  pose proof (knight_nvk p a b I Ha Hb Hh Hatt) as NVK.
  pose proof (prep_allowed u p KNIGHT a b I Hk5 Hnp Hnk Ha Hb Hh Hub NVK Hsafe) as Hal.
  pose proof (prep_knight u p KNIGHT a b I Hk5 Hnp Hnk Ha Hb Hh Hub NVK Hsafe Hatt) as Hpin.
  destruct (holds_ours p a KNIGHT Hh) as (Hu & Hp). change (get_piece p KNIGHT) with (knights p) in Hp.
  change (mkMv a b NOPIECE) with (gen_mv (KNIGHT, a, b, NOPIECE)). apply gen_in_legal, in_blk5, knights_in.
  - exact (src_bits _ _ _ a Hp Hu (not_pinned_bit p a Ha Hpin)).
  - exact (land_bits _ _ b Hatt Hal).
Qed.

(* ------------------------------------------------------------------ bishops *)
Theorem bishop_complete u p a b : Inv0 p -> a < 64 -> b < 64 -> holds p a false BISHOP ->
  N.testbit (batt a (occupied p)) b = true -> ub p b = false ->
  in_check_them (makemove u p (mkMv a b NOPIECE)) = false -> In (mkMv a b NOPIECE) (legal_moves p).
Proof.
  intros I Ha Hb Hh Hatt Hub Hsafe.
  assert (Hk5 : BISHOP <= 5) by (unfold BISHOP; lia).
  assert (Hnp : BISHOP <> PAWN) by (unfold BISHOP, PAWN; lia).
  assert (Hnk : BISHOP <> KING) by (unfold BISHOP, KING; lia).
  destruct (holds_ours p a BISHOP Hh) as (Hu & Hp). change (get_piece p BISHOP) with (bishops p) in Hp.
  assert (Hq : N.testbit (N.lor (bishops p) (queens p)) a = true) by (rewrite N.lor_spec, Hp; reflexivity).
  pose proof (diag_nvk p BISHOP a b I Ha Hb Hh Hq Hatt) as NVK.
  pose proof (prep_allowed u p BISHOP a b I Hk5 Hnp Hnk Ha Hb Hh Hub NVK Hsafe) as Hal.
  change (mkMv a b NOPIECE) with (gen_mv (BISHOP, a, b, NOPIECE)). apply gen_in_legal.
  destruct (pinned_cases p a) as [Hpin|Hpin].
  - destruct (prep_diag u p BISHOP a b I Hk5 Hnp Hnk Ha Hb Hh Hub NVK Hsafe Hatt Hpin) as (Hbp & Hbx).
    apply in_blk6, slider_moves_in. split.
    + exact (src_bits _ _ _ a Hp Hu Hbp).
    + exact (land_bits _ _ b Hatt (land_bits _ _ b Hal Hbx)).
  - apply in_blk7, slider_moves_in. split.
    + exact (src_bits _ _ _ a Hp Hu (not_pinned_bit p a Ha Hpin)).
    + exact (land_bits _ _ b Hatt Hal).
Qed.

(* ------------------------------------------------------------------ rooks *)
Theorem rook_complete u p a b : Inv0 p -> a < 64 -> b < 64 -> holds p a false ROOK ->
  N.testbit (ratt a (occupied p)) b = true -> ub p b = false ->
  in_check_them (makemove u p (mkMv a b NOPIECE)) = false -> In (mkMv a b NOPIECE) (legal_moves p).
Proof.
  intros I Ha Hb Hh Hatt Hub Hsafe.
  assert (Hk5 : ROOK <= 5) by (unfold ROOK; lia).
  assert (Hnp : ROOK <> PAWN) by (unfold ROOK, PAWN; lia).
  assert (Hnk : ROOK <> KING) by (unfold ROOK, KING; lia).
  destruct (holds_ours p a ROOK Hh) as (Hu & Hp). change (get_piece p ROOK) with (rooks p) in Hp.
  assert (Hq : N.testbit (N.lor (rooks p) (queens p)) a = true) by (rewrite N.lor_spec, Hp; reflexivity).
  pose proof (orth_nvk p ROOK a b I Ha Hb Hh Hq Hatt) as NVK.
  pose proof (prep_allowed u p ROOK a b I Hk5 Hnp Hnk Ha Hb Hh Hub NVK Hsafe) as Hal.
  change (mkMv a b NOPIECE) with (gen_mv (ROOK, a, b, NOPIECE)). apply gen_in_legal.
  destruct (pinned_cases p a) as [Hpin|Hpin].
  - destruct (prep_orth u p ROOK a b I Hk5 Hnp Hnk Ha Hb Hh Hub NVK Hsafe Hatt Hpin) as (Hrp & Hrx).
    apply in_blk8, slider_moves_in. split.
    + exact (src_bits _ _ _ a Hp Hu Hrp).
    + exact (land_bits _ _ b Hatt (land_bits _ _ b Hal Hrx)).
  - apply in_blk9, slider_moves_in. split.
    + exact (src_bits _ _ _ a Hp Hu (not_pinned_bit p a Ha Hpin)).
    + exact (land_bits _ _ b Hatt Hal).
Qed.

(* ------------------------------------------------------------------ queens *)
Theorem queen_complete u p a b : Inv0 p -> a < 64 -> b < 64 -> holds p a false QUEEN ->
  N.testbit (qatt a (occupied p)) b = true -> ub p b = false ->
  in_check_them (makemove u p (mkMv a b NOPIECE)) = false -> In (mkMv a b NOPIECE) (legal_moves p).
Proof.
  intros I Ha Hb Hh Hatt Hub Hsafe.
  assert (Hk5 : QUEEN <= 5) by (unfold QUEEN; lia).
  assert (Hnp : QUEEN <> PAWN) by (unfold QUEEN, PAWN; lia).
  assert (Hnk : QUEEN <> KING) by (unfold QUEEN, KING; lia).
  destruct (holds_ours p a QUEEN Hh) as (Hu & Hp). change (get_piece p QUEEN) with (queens p) in Hp.
  assert (Hqb : N.testbit (N.lor (bishops p) (queens p)) a = true) by (rewrite N.lor_spec, Hp; apply orb_true_r).
  assert (Hqr : N.testbit (N.lor (rooks p) (queens p)) a = true) by (rewrite N.lor_spec, Hp; apply orb_true_r).
  assert (NVK : b <> tksq p).
  { pose proof Hatt as H. unfold qatt in H. rewrite N.lor_spec in H. apply orb_true_iff in H. destruct H as [H|H].
    - exact (diag_nvk p QUEEN a b I Ha Hb Hh Hqb H).
    - exact (orth_nvk p QUEEN a b I Ha Hb Hh Hqr H). }
  pose proof (prep_allowed u p QUEEN a b I Hk5 Hnp Hnk Ha Hb Hh Hub NVK Hsafe) as Hal.
  change (mkMv a b NOPIECE) with (gen_mv (QUEEN, a, b, NOPIECE)). apply gen_in_legal.
  destruct (pinned_cases p a) as [Hpin|Hpin].
  - pose proof Hatt as H. unfold qatt in H. rewrite N.lor_spec in H. apply orb_true_iff in H. destruct H as [H|H].
    + destruct (prep_diag u p QUEEN a b I Hk5 Hnp Hnk Ha Hb Hh Hub NVK Hsafe H Hpin) as (Hbp & Hbx).
      apply in_blk10, slider_moves_in. split.
      * exact (src_bits _ _ _ a Hp Hu Hbp).
      * exact (land_bits _ _ b H (land_bits _ _ b Hal Hbx)).
    + destruct (prep_orth u p QUEEN a b I Hk5 Hnp Hnk Ha Hb Hh Hub NVK Hsafe H Hpin) as (Hrp & Hrx).
      apply in_blk11, slider_moves_in. split.
      * exact (src_bits _ _ _ a Hp Hu Hrp).
      * exact (land_bits _ _ b H (land_bits _ _ b Hal Hrx)).
  - apply in_blk12, slider_moves_in. split.
    + exact (src_bits _ _ _ a Hp Hu (not_pinned_bit p a Ha Hpin)).
    + exact (land_bits _ _ b Hatt Hal).
Qed.

Print Assumptions knight_complete.
Print Assumptions bishop_complete.
Print Assumptions rook_complete.
Print Assumptions queen_complete.
