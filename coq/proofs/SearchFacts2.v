(* Node-level facts of the search model used by C03, C11, C12. *)
From Coq Require Import NArith ZArith List Bool Lia Permutation.
From Rawr Require Import Consts Bits Magic Position MoveGen MakeMove Eval TT Search SearchFacts.
Import ListNotations.
Local Open Scope Z_scope.

Section Node.
Variable stopf : Stats -> bool.
Variable rec : Position -> SS -> Z -> Z -> Z -> Z -> bool -> option (Z * SS).
Variable qrec : Position -> Stats -> Z -> Z -> Z -> option (Z * Stats).

(* C11: a non-root node of positive depth that is not interrupted returns the draw score when the fifty-move
   counter has reached 100 ... *)
Theorem draw_by_clock p s ao alpha beta ply depth in_chk is_pv cn ttm :
  0 < depth -> stopf (ss_stats s) = false -> 100 <= halfmoves p ->
  nm_prune stopf rec qrec p s ao alpha beta ply depth in_chk false is_pv cn ttm = Some (DRAW_SCORE, s).
Proof.
  intros Hd Hs Hc. unfold nm_prune.
  destruct (Z.leb_spec depth 0); [lia|]. rewrite Hs. cbn [andb]. cbv zeta.
  destruct (Z.leb_spec 100 (halfmoves p)); [|lia]. reflexivity.
Qed.

(* ... or when the position (by key) occurred before among the positions of the same side to move inside the
   look-back window of halfmoves + 1 entries (itself included: two occurrences) *)
Theorem draw_by_repetition p s ao alpha beta ply depth in_chk is_pv cn ttm :
  0 < depth -> stopf (ss_stats s) = false ->
  2 <= count_rep (Z.to_nat (halfmoves p + 1)) (ss_hist s) (hash p) true ->
  nm_prune stopf rec qrec p s ao alpha beta ply depth in_chk false is_pv cn ttm = Some (DRAW_SCORE, s).
Proof.
  intros Hd Hs Hc. unfold nm_prune.
  destruct (Z.leb_spec depth 0); [lia|]. rewrite Hs. cbn [andb]. cbv zeta.
  destruct (Z.leb_spec 2 (count_rep (Z.to_nat (halfmoves p + 1)) (ss_hist s) (hash p) true)); [|lia].
  rewrite orb_true_r. reflexivity.
Qed.

(* C12: a node without legal moves returns "mated in ply" when in check, the draw score otherwise *)
Lemma sort_n_nil p tm : sort_n p [] tm = [].
Proof. reflexivity. Qed.

Theorem no_legal_moves_value p s ao alpha beta ply depth in_chk is_root cn ttm :
  legal_moves p = [] ->
  null_move rec p s is_root cn in_chk beta ply depth = Some (None, s) ->
  nm_moves rec p s ao alpha beta ply depth in_chk is_root cn ttm
  = Some ((if in_chk then - MATE_SCORE + ply else DRAW_SCORE), s).
Proof. intros Hl Hn. unfold nm_moves. rewrite Hn, Hl, sort_n_nil. cbn [n_loop]. cbn [fst snd]. unfold nm_finish. reflexivity. Qed.

(* the root is never pruned by a null move *)
Lemma null_move_root p s cn in_chk beta ply depth : null_move rec p s true cn in_chk beta ply depth = Some (None, s).
Proof. reflexivity. Qed.

(* a node in check never tries the null move *)
Lemma no_null_move_in_check p s is_root cn beta ply depth :
  null_move rec p s is_root cn true beta ply depth = Some (None, s).
Proof. unfold null_move. rewrite !andb_false_r. reflexivity. Qed.

(* C03: the best move of the move loop is one of the moves it was given *)
Lemma n_loop_best_in p in_chk beta ply depth : forall ms idx s alpha best bm r,
  n_loop rec p in_chk beta ply depth ms idx s alpha best bm = Some r ->
  snd (fst r) = bm \/ exists m, snd (fst r) = Some m /\ In m ms.
Proof.
  induction ms as [|m ms IH]; intros idx s alpha best bm r H; cbn [n_loop] in H.
  - injection H as <-. left. reflexivity.
  - match type of H with match ?x with _ => _ end = _ => destruct x as [[score s1]|]; [|discriminate] end.
    cbn zeta in H. destruct (best <? score).
    + destruct (beta <=? _) in H.
      * injection H as <-. right. exists m. split; [reflexivity|left; reflexivity].
      * apply IH in H. destruct H as [H|(m' & H1 & H2)]; right; [exists m; split; [exact H|left; reflexivity]|exists m'; split; [exact H1|right; exact H2]].
    + destruct (beta <=? _) in H.
      * injection H as <-. left. reflexivity.
      * apply IH in H. destruct H as [H|(m' & H1 & H2)]; [left; exact H|right; exists m'; split; [exact H1|right; exact H2]].
Qed.

(* when the root's move loop ends with a best move, that move is recorded and it is legal in the root position *)
Theorem root_node_best_legal p s ao alpha beta ply depth in_chk cn ttm v s' :
  nm_moves rec p s ao alpha beta ply depth in_chk true cn ttm = Some (v, s') ->
  (exists m, st_best (ss_stats s') = Some m /\ In m (legal_moves p))
  \/ (exists r, n_loop rec p in_chk beta ply depth (sort_n p (legal_moves p) ttm) 0 s alpha (- INF) None = Some r
                /\ snd (fst r) = None).
Proof.
  unfold nm_moves. rewrite null_move_root.
  destruct (n_loop rec p in_chk beta ply depth (sort_n p (legal_moves p) ttm) 0 s alpha (- INF) None) as [r|] eqn:El; [|discriminate].
  intros H. pose proof (n_loop_best_in p in_chk beta ply depth _ _ _ _ _ _ _ El) as Hb.
  destruct (snd (fst r)) as [bm|] eqn:Eb.
  - left. destruct Hb as [Hb|(m & Hm & Hin)]; [discriminate|]. injection Hm as <-.
    unfold nm_finish in H. destruct (tt_add (ss_tt (snd r)) (hash p) _) as [tt'|]; [|discriminate].
    apply some_pair_snd in H. rewrite <- H. cbn. exists bm. split; [reflexivity|].
    eapply Permutation_in; [apply sort_n_perm|exact Hin].
  - right. exists r. split; [reflexivity|exact Eb].
Qed.
End Node.

(* ------------------------------------------------------------------ C11 at the level of the move loop: when every
   successor answers with the draw score, whatever window, depth and table it is searched with, the loop's best
   score is -DRAW_SCORE (no re-search is triggered: after the first move alpha = -DRAW_SCORE, and a zero-window
   result equal to alpha is not above it), its best move is the first move, and the history is restored. *)
Section AllDraw.
Variable rec : Position -> SS -> Z -> Z -> Z -> Z -> bool -> option (Z * SS).
Variable p : Position.
Hypothesis Hdraw : forall m s a b pl d cn,
  exists s', rec (makemove true p m) s a b pl d cn = Some (DRAW_SCORE, s') /\ ss_hist s' = ss_hist s.

Lemma search_move_draw in_chk beta ply depth idx m s alpha :
  (idx = 0 \/ - DRAW_SCORE <= alpha) ->
  exists s', search_move rec p in_chk beta ply depth idx m (makemove true p m) s alpha = Some (- DRAW_SCORE, s')
             /\ ss_hist s' = ss_hist s.
Proof.
  intros Hc. unfold search_move. destruct (Z.eqb_spec idx 0) as [E|E].
  - destruct (Hdraw m s (- beta) (- alpha) (ply + 1) (depth - 1) true) as (s' & -> & Hh). exists s'. split; [reflexivity|exact Hh].
  - destruct Hc as [Hc|Hc]; [contradiction|].
    match goal with |- context [rec ?a ?b ?c ?d ?e ?f ?g] => destruct (Hdraw m b c d e f g) as (s' & -> & Hh) end.
    cbv zeta. destruct (Z.ltb_spec alpha (- DRAW_SCORE)); [lia|]. exists s'. split; [reflexivity|exact Hh].
Qed.

(* once best = alpha-or-better = -DRAW_SCORE, the remaining moves change neither best score nor best move *)
Lemma n_loop_rest in_chk beta ply depth : - DRAW_SCORE < beta ->
  forall ms idx s alpha bm, - DRAW_SCORE <= alpha ->
  exists a' s', n_loop rec p in_chk beta ply depth ms idx s alpha (- DRAW_SCORE) bm = Some (a', - DRAW_SCORE, bm, s')
                /\ ss_hist s' = ss_hist s.
Proof.
  intros Hb. induction ms as [|m ms IH]; intros idx s alpha bm Ha; cbn [n_loop].
  - exists alpha, s. split; reflexivity.
  - destruct (search_move_draw in_chk beta ply depth idx m (push_hist (bump_nodes_ss s) (hash (makemove true p m))) alpha (or_intror Ha))
      as (sx & -> & Hx). cbv zeta.
    destruct (Z.ltb_spec (- DRAW_SCORE) (- DRAW_SCORE)); [lia|].
    destruct (Z.ltb_spec alpha (- DRAW_SCORE)); [lia|].
    assert (Hp : ss_hist (pop_hist sx) = ss_hist s) by (unfold pop_hist; cbn; rewrite Hx; reflexivity).
    destruct (Z.leb_spec beta alpha).
    + exists alpha, (pop_hist sx). split; [reflexivity|exact Hp].
    + destruct (IH (idx + 1) (pop_hist sx) alpha bm Ha) as (a' & s' & E1 & E2).
      exists a', s'. split; [exact E1|rewrite E2; exact Hp].
Qed.

(* the form used for the root: full window, no best move yet *)
Theorem root_loop_all_draw in_chk beta ply depth m ms s :
  - DRAW_SCORE < beta -> - INF < - DRAW_SCORE ->
  exists a' s', n_loop rec p in_chk beta ply depth (m :: ms) 0 s (- INF) (- INF) None
                = Some (a', - DRAW_SCORE, Some m, s')
                /\ ss_hist s' = ss_hist s.
Proof.
  intros Hb Hi. cbn [n_loop].
  destruct (search_move_draw in_chk beta ply depth 0 m (push_hist (bump_nodes_ss s) (hash (makemove true p m))) (- INF) (or_introl eq_refl))
    as (sx & -> & Hx). cbv zeta.
  destruct (Z.ltb_spec (- INF) (- DRAW_SCORE)); [|lia].
  assert (Hp : ss_hist (pop_hist sx) = ss_hist s) by (unfold pop_hist; cbn; rewrite Hx; reflexivity).
  destruct (Z.leb_spec beta (- DRAW_SCORE)); [lia|].
  destruct (n_loop_rest in_chk beta ply depth Hb ms (0 + 1) (pop_hist sx) (- DRAW_SCORE) (Some m) ltac:(lia)) as (a' & s' & E1 & E2).
  exists a', s'. split; [exact E1|rewrite E2; exact Hp].
Qed.
End AllDraw.

(* ------------------------------------------------------------------ C03: if no successor is valued +INF or more
   (from the mover's side: no score of -INF or less), the move loop over a non-empty list ends with a best move *)
Section HasBest.
Variable rec : Position -> SS -> Z -> Z -> Z -> Z -> bool -> option (Z * SS).
Hypothesis Hfin : forall q s a b pl d cn v s', rec q s a b pl d cn = Some (v, s') -> v < INF.

Lemma search_move_gt p in_chk beta ply depth idx m np s alpha score s' :
  search_move rec p in_chk beta ply depth idx m np s alpha = Some (score, s') -> - INF < score.
Proof.
  unfold search_move. destruct (idx =? 0).
  - destruct (rec np s (- beta) (- alpha) (ply + 1) (depth - 1) true) as [[v s1]|] eqn:E; [|discriminate].
    intros H. injection H as <- _. apply Hfin in E. lia.
  - match goal with |- match ?x with _ => _ end = _ -> _ => destruct x as [[v s1]|] eqn:E; [|discriminate] end.
    cbv zeta. destruct ((alpha <? - v) && (- v <? beta)).
    + destruct (rec np s1 (- beta) (- alpha) (ply + 1) (depth - 1) true) as [[v2 s2]|] eqn:E2; [|discriminate].
      intros H. injection H as <- _. apply Hfin in E2. lia.
    + intros H. injection H as <- _. apply Hfin in E. lia.
Qed.

Lemma n_loop_keeps_some p in_chk beta ply depth : forall ms idx s alpha best bm r,
  bm <> None -> n_loop rec p in_chk beta ply depth ms idx s alpha best bm = Some r -> snd (fst r) <> None.
Proof.
  induction ms as [|m ms IH]; intros idx s alpha best bm r Hb H; cbn [n_loop] in H.
  - injection H as <-. exact Hb.
  - match type of H with match ?x with _ => _ end = _ => destruct x as [[score s1]|]; [|discriminate] end.
    cbv zeta in H. destruct (best <? score); destruct (beta <=? _) in H.
    + injection H as <-. discriminate.
    + apply IH in H; [exact H|discriminate].
    + injection H as <-. exact Hb.
    + apply IH in H; [exact H|exact Hb].
Qed.

Theorem n_loop_has_best p in_chk beta ply depth m ms s alpha r :
  n_loop rec p in_chk beta ply depth (m :: ms) 0 s alpha (- INF) None = Some r -> snd (fst r) <> None.
Proof.
  cbn [n_loop]. intros H.
  match type of H with match ?x with _ => _ end = _ => destruct x as [[score s1]|] eqn:E; [|discriminate] end.
  apply search_move_gt in E. cbv zeta in H.
  destruct (Z.ltb_spec (- INF) score); [|lia].
  destruct (beta <=? _) in H.
  - injection H as <-. discriminate.
  - apply n_loop_keeps_some in H; [exact H|discriminate].
Qed.
End HasBest.

(* C03 assembled at the root node: with legal moves and finite successor values, the root records a legal move *)
Theorem root_node_answers_legal rec p s ao alpha beta ply depth in_chk cn ttm v s' :
  (forall q s a b pl d cn v s', rec q s a b pl d cn = Some (v, s') -> v < INF) ->
  legal_moves p <> [] ->
  nm_moves rec p s ao alpha beta ply depth in_chk true cn ttm = Some (v, s') ->
  exists m, st_best (ss_stats s') = Some m /\ In m (legal_moves p).
Proof.
  intros Hfin Hne H.
  destruct (root_node_best_legal rec p s ao alpha beta ply depth in_chk cn ttm v s' H) as [Hok|(r & Hr & Hnone)]; [exact Hok|].
  exfalso.
  assert (Hs : sort_n p (legal_moves p) ttm <> []).
  { intros E. apply Hne. pose proof (sort_n_perm p (legal_moves p) ttm) as Hp. rewrite E in Hp.
    apply Permutation_nil in Hp. exact Hp. }
  destruct (sort_n p (legal_moves p) ttm) as [|m ms]; [contradiction|].
  apply (n_loop_has_best rec Hfin p in_chk beta ply depth m ms s alpha r Hr). exact Hnone.
Qed.
