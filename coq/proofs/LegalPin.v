(* C01 (soundness half): a generated move of a man other than the king, not en passant, never leaves the mover's king
   attacked.  One theorem for all such moves, under the discipline the generator follows: the target lies in `allowed`,
   and the mover is not pinned, or is pinned and stays on the line of its pin (the x-ray sets), or is a pawn that is not
   pinned across its direction of travel. *)
From Coq Require Import NArith ZArith List Bool Lia.
From Rawr Require Import Consts Bits Magic Position MoveGen MakeMove MakeStages
                         BitsFacts ShiftFacts LsbFacts HashFacts MakeFacts KeyAbs AttackFacts AttackSets RayFacts
                         GenSane GenNoDup RaySym Closure EpRetro LegalBase RayGeo PinFacts.
Import ListNotations.
Local Open Scope N_scope.

Lemma if_chain_last (a b c d e : bool) :
  (if a then true else if b then true else if c then true else if d then true else if e then true else false) = false ->
  a = false /\ b = false /\ c = false /\ d = false /\ e = false.
Proof. destruct a, b, c, d, e; intros H; try discriminate; repeat split; reflexivity. Qed.
Lemma if_chain_false (a b c d e : bool) :
  a = false -> b = false -> c = false -> d = false -> e = false ->
  (if a then true else if b then true else if c then true else if d then true else if e then true else false) = false.
Proof. intros -> -> -> -> ->. reflexivity. Qed.

Lemma in_list_split_either (l2a : list N) x l2b m1 b m2 :
  l2a ++ x :: l2b = m1 ++ b :: m2 -> ~ In x m1 -> In b l2a \/ b = x.
Proof.
  revert m1. induction l2a as [|s t IH]; intros m1 E Hx; cbn [app] in E.
  - destruct m1 as [|y m1]; cbn [app] in E; injection E as E1 E2; [right; symmetry; exact E1|].
    exfalso. apply Hx. left. symmetry. exact E1.
  - destruct m1 as [|y m1]; cbn [app] in E; injection E as E1 E2.
    + left. left. exact E1.
    + destruct (IH m1 E2) as [H|H]; [intros Hin; apply Hx; right; exact Hin|left; right; exact H|right; exact H].
Qed.

Definition reach (occ a b : N) (ds : list (Z * Z)) : Prop :=
  exists d2, In d2 ds /\ N.testbit (walk_list occ (ray_of a d2)) b = true.

Section Main.
Variables (u : bool) (p : Position) (m : Mv) (kq : N).
Hypothesis I : Inv0 p.
Hypothesis S : sane p m kq.
Hypothesis NVK : m_to m <> tksq p.
Hypothesis Hnk : kq <> KING.
Hypothesis Hnep : mv_is_ep p m = false.
Local Notation a := (m_from m).
Local Notation b := (m_to m).
Local Notation k := (g_k p).
Local Notation occ := (occupied p).
Local Notation Q := (mv_boards u p m).
Local Notation gi := (gen_info p).
Hypothesis Hall : N.testbit (gi_allowed gi) b = true.
Hypothesis Hpin :
  N.testbit (gi_pinned gi) a = false
  \/ (N.testbit (gi_bpinned gi) a = true /\ N.testbit (gi_bxrays gi) b = true /\ reach occ a b bishop_dirs)
  \/ (N.testbit (gi_rpinned gi) a = true /\ N.testbit (gi_rxrays gi) b = true /\ reach occ a b rook_dirs)
  \/ (N.testbit (gi_hpinned gi) a = false /\ N.testbit (gi_bpinned gi) a = false /\ reach occ a b [(0, 1)%Z])
  \/ (N.testbit (gi_rpinned gi) a = false /\ (N.testbit (gi_bpinned gi) a = false \/ N.testbit (gi_bxrays gi) b = true)
      /\ reach occ a b [(1, 1)%Z; (-1, 1)%Z]).

Let G : Good p := i0_good p I.

Lemma k_lt : k < 64. Proof. exact (gk_lt p G). Qed.
Lemma a_lt : a < 64. Proof. exact (sn_from _ _ _ S). Qed.
Lemma b_lt : b < 64. Proof. exact (sn_to _ _ _ S). Qed.
Lemma ka_is_k : our_king_after p m kq = k.
Proof. unfold our_king_after. destruct (N.eqb_spec kq KING) as [E|_]; [contradiction|reflexivity]. Qed.

Lemma a_ours : ub p a = true /\ tb p a = false.
Proof. destruct (sn_mover _ _ _ S) as (_ & Hu & Ht & _). split; assumption. Qed.
Lemma b_not_ours : ub p b = false.
Proof.
  destruct (sn_target _ _ _ S) as [(Hu & _)|(c & _ & Hu & _)]; [exact Hu|exact Hu].
Qed.
Lemma k_ours : ub p k = true /\ pb p 5 k = true.
Proof. destruct (king_holds p G) as ((_ & Hu & _ & Hp) & _). unfold g_k. split; [exact Hu|rewrite (Hp 5 ltac:(lia)); reflexivity]. Qed.
Lemma b_ne_k : b <> k.
Proof. intros E. pose proof b_not_ours as H. rewrite E, (proj1 k_ours) in H. discriminate. Qed.
Lemma a_ne_k : a <> k.
Proof.
  intros E. destruct (sn_mover _ _ _ S) as (Hk & _ & _ & Hp). rewrite E in Hp. pose proof (proj2 k_ours) as H5.
  rewrite (Hp 5 ltac:(lia)) in H5. apply N.eqb_eq in H5. apply Hnk. symmetry. exact H5.
Qed.
Lemma ours_occ s : ub p s = true -> N.testbit occ s = true.
Proof. intros H. unfold occupied. rewrite N.lor_spec. unfold ub, is_set in H. rewrite H. reflexivity. Qed.

(* the bits of Q *)
Lemma F_occ s : N.testbit (occupied Q) s = ((s =? b) || (N.testbit occ s && negb (s =? a))).
Proof. rewrite (Q_occ u p m kq S). rewrite Hnep. cbn [andb negb]. rewrite andb_true_r. reflexivity. Qed.
Lemma F_them j s : j <= 5 ->
  N.testbit (N.land (get_piece Q j) (c_them Q)) s = N.testbit (N.land (get_piece p j) (c_them p)) s && negb (s =? b).
Proof. intros Hj. rewrite (Q_them u p m kq S j s Hj). rewrite Hnep. cbn [andb negb]. rewrite andb_true_r. reflexivity. Qed.

Definition chkQ (d : Z * Z) : N :=
  N.land (c_them Q) (if is_diag d then N.lor (bishops Q) (queens Q) else N.lor (rooks Q) (queens Q)).
Lemma F_chk d s : N.testbit (chkQ d) s = N.testbit (g_chk p d) s && negb (s =? b).
Proof.
  unfold chkQ, g_chk, g_bq, g_rq.
  pose proof (F_them 2 s ltac:(lia)) as H2. pose proof (F_them 3 s ltac:(lia)) as H3. pose proof (F_them 4 s ltac:(lia)) as H4.
  cbn [get_piece] in H2, H3, H4. rewrite !N.land_spec in H2, H3, H4.
  destruct (is_diag d); rewrite !N.land_spec, !N.lor_spec.
  - destruct (N.testbit (c_them Q) s), (N.testbit (bishops Q) s), (N.testbit (queens Q) s), (N.testbit (c_them p) s), (N.testbit (bishops p) s), (N.testbit (queens p) s), (negb (s =? b)); cbn in *; congruence.
  - destruct (N.testbit (c_them Q) s), (N.testbit (rooks Q) s), (N.testbit (queens Q) s), (N.testbit (c_them p) s), (N.testbit (rooks p) s), (N.testbit (queens p) s), (negb (s =? b)); cbn in *; congruence.
Qed.

(* ------------------------------------------------------------------ the slider core *)
Lemma pinned_of_struct e l1 l2a x l2b : In e dir_tab ->
  ray_of k (fst e) = l1 ++ a :: l2a ++ x :: l2b ->
  (forall s, In s l1 -> N.testbit occ s = false) -> (forall s, In s l2a -> N.testbit occ s = false) ->
  N.testbit (g_chk p (fst e)) x = true ->
  (is_diag (fst e) = true -> N.testbit (gi_bpinned gi) a = true)
  /\ (is_diag (fst e) = false -> N.testbit (gi_rpinned gi) a = true)
  /\ (fst e = (1, 0)%Z \/ fst e = (-1, 0)%Z -> N.testbit (gi_hpinned gi) a = true).
Proof.
  intros He El H1 H2 HX. destruct (gi_pins p) as (E1 & _ & E3 & E4 & _ & _).
  destruct (chk_sub p (fst e) x HX) as (_ & Hox).
  assert (Hgen : forall ds X, (forall e0, In e0 ds -> In e0 dir_tab /\ X = g_chk p (fst e0)) -> In e ds -> X = g_chk p (fst e) ->
            N.testbit (fst (pins p ds X)) a = true).
  { intros ds X Hds Hin EX. apply (pins_complete p k_lt X ds e l1 a l2a x l2b Hds Hin El H1 H2 (proj1 a_ours)); [rewrite EX; exact HX|exact Hox|exact ours_occ]. }
  assert (HdsB : forall e0, In e0 [e_sw; e_se; e_nw; e_ne] -> In e0 dir_tab /\ g_bq p = g_chk p (fst e0)).
  { intros e0 H. cbn [In] in H. unfold dir_tab. repeat (destruct H as [<-|H]; [split; [cbn [In]; tauto|reflexivity]|]). contradiction. }
  assert (HdsV : forall e0, In e0 [e_s; e_n] -> In e0 dir_tab /\ g_rq p = g_chk p (fst e0)).
  { intros e0 H. cbn [In] in H. unfold dir_tab. repeat (destruct H as [<-|H]; [split; [cbn [In]; tauto|reflexivity]|]). contradiction. }
  assert (HdsH : forall e0, In e0 [e_w; e_e] -> In e0 dir_tab /\ g_rq p = g_chk p (fst e0)).
  { intros e0 H. cbn [In] in H. unfold dir_tab. repeat (destruct H as [<-|H]; [split; [cbn [In]; tauto|reflexivity]|]). contradiction. }
  unfold dir_tab in He. cbn [In] in He.
  destruct He as [<-|[<-|[<-|[<-|[<-|[<-|[<-|[<-|[]]]]]]]]]; cbn [fst e_ne e_nw e_se e_sw e_n e_s e_e e_w] in *;
    (split; [intros Hd; try (vm_compute in Hd; discriminate)|split; [intros Hd; try (vm_compute in Hd; discriminate)|intros [Hd|Hd]; try discriminate]]).
  all: try (rewrite E1; apply (Hgen _ _ HdsB); [cbn [In]; tauto|reflexivity]).
  all: try (rewrite E4, N.lor_spec; apply orb_true_iff; first [left; apply (Hgen _ _ HdsV); [cbn [In]; tauto|reflexivity]|right; apply (Hgen _ _ HdsH); [cbn [In]; tauto|reflexivity]]).
  all: try (rewrite E3; apply (Hgen _ _ HdsH); [cbn [In]; tauto|reflexivity]).
Qed.

(* where the pin sets and x-ray sets lie *)
Lemma bpinned_on_diag s : N.testbit (gi_bpinned gi) s = true -> exists d, In d bishop_dirs /\ In s (ray_of k d).
Proof.
  destruct (gi_pins p) as (E1 & _). rewrite E1. intros H.
  destruct (pins_sound p k_lt (g_bq p) [e_sw; e_se; e_nw; e_ne] s) as (S1 & _).
  { intros e0 H0. cbn [In] in H0. unfold dir_tab. repeat (destruct H0 as [<-|H0]; [split; [cbn [In]; tauto|reflexivity]|]). contradiction. }
  destruct (S1 H) as (e0 & H0 & Hin). exists (fst e0). split; [|exact Hin].
  cbn [In] in H0. unfold bishop_dirs. repeat (destruct H0 as [<-|H0]; [cbn; tauto|]). contradiction.
Qed.
Lemma bxrays_on_diag s : N.testbit (gi_bxrays gi) s = true -> s = k \/ exists d, In d bishop_dirs /\ In s (ray_of k d).
Proof.
  destruct (gi_pins p) as (_ & E2 & _). rewrite E2, N.lor_spec. intros H. apply orb_true_iff in H. destruct H as [H|H].
  - right. destruct (pins_sound p k_lt (g_bq p) [e_sw; e_se; e_nw; e_ne] s) as (_ & S2).
    { intros e0 H0. cbn [In] in H0. unfold dir_tab. repeat (destruct H0 as [<-|H0]; [split; [cbn [In]; tauto|reflexivity]|]). contradiction. }
    destruct (S2 H) as (e0 & H0 & Hin). exists (fst e0). split; [|exact Hin].
    cbn [In] in H0. unfold bishop_dirs. repeat (destruct H0 as [<-|H0]; [cbn; tauto|]). contradiction.
  - left. unfold g_kbb in H. rewrite N.land_comm in H.
    destruct (g_bb p G) as (B1 & _). rewrite (single_bit_test _ s (land_lt_r _ _ B1) (g_king p G)) in H. apply N.eqb_eq in H. exact H.
Qed.
Lemma rpinned_on_orth s : N.testbit (gi_rpinned gi) s = true -> exists d, In d rook_dirs /\ In s (ray_of k d).
Proof.
  destruct (gi_pins p) as (_ & _ & _ & E4 & _). rewrite E4, N.lor_spec. intros H. apply orb_true_iff in H. destruct H as [H|H].
  - destruct (pins_sound p k_lt (g_rq p) [e_s; e_n] s) as (S1 & _).
    { intros e0 H0. cbn [In] in H0. unfold dir_tab. repeat (destruct H0 as [<-|H0]; [split; [cbn [In]; tauto|reflexivity]|]). contradiction. }
    destruct (S1 H) as (e0 & H0 & Hin). exists (fst e0). split; [|exact Hin].
    cbn [In] in H0. unfold rook_dirs. repeat (destruct H0 as [<-|H0]; [cbn; tauto|]). contradiction.
  - destruct (pins_sound p k_lt (g_rq p) [e_w; e_e] s) as (S1 & _).
    { intros e0 H0. cbn [In] in H0. unfold dir_tab. repeat (destruct H0 as [<-|H0]; [split; [cbn [In]; tauto|reflexivity]|]). contradiction. }
    destruct (S1 H) as (e0 & H0 & Hin). exists (fst e0). split; [|exact Hin].
    cbn [In] in H0. unfold rook_dirs. repeat (destruct H0 as [<-|H0]; [cbn; tauto|]). contradiction.
Qed.
Lemma rxrays_on_orth s : N.testbit (gi_rxrays gi) s = true -> exists d, In d rook_dirs /\ In s (ray_of k d).
Proof.
  destruct (gi_pins p) as (_ & _ & _ & _ & E5 & _). rewrite E5, N.lor_spec. intros H. apply orb_true_iff in H. destruct H as [H|H].
  - destruct (pins_sound p k_lt (g_rq p) [e_w; e_e] s) as (_ & S2).
    { intros e0 H0. cbn [In] in H0. unfold dir_tab. repeat (destruct H0 as [<-|H0]; [split; [cbn [In]; tauto|reflexivity]|]). contradiction. }
    destruct (S2 H) as (e0 & H0 & Hin). exists (fst e0). split; [|exact Hin].
    cbn [In] in H0. unfold rook_dirs. repeat (destruct H0 as [<-|H0]; [cbn; tauto|]). contradiction.
  - destruct (pins_sound p k_lt (g_rq p) [e_s; e_n] s) as (_ & S2).
    { intros e0 H0. cbn [In] in H0. unfold dir_tab. repeat (destruct H0 as [<-|H0]; [split; [cbn [In]; tauto|reflexivity]|]). contradiction. }
    destruct (S2 H) as (e0 & H0 & Hin). exists (fst e0). split; [|exact Hin].
    cbn [In] in H0. unfold rook_dirs. repeat (destruct H0 as [<-|H0]; [cbn; tauto|]). contradiction.
Qed.

Lemma bishop_in_all d : In d bishop_dirs -> In d all_dirs. Proof. intros H. unfold all_dirs. apply in_or_app. left. exact H. Qed.
Lemma rook_in_all d : In d rook_dirs -> In d all_dirs. Proof. intros H. unfold all_dirs. apply in_or_app. right. exact H. Qed.
Lemma diag_class d : In d bishop_dirs -> is_diag d = true /\ class_dirs d = bishop_dirs.
Proof. unfold bishop_dirs. cbn [In]. intros H. repeat (destruct H as [<-|H]; [split; reflexivity|]). contradiction. Qed.
Lemma orth_class d : In d rook_dirs -> is_diag d = false /\ class_dirs d = rook_dirs.
Proof. unfold rook_dirs. cbn [In]. intros H. repeat (destruct H as [<-|H]; [split; reflexivity|]). contradiction. Qed.
Lemma dir_class d : In d all_dirs -> (is_diag d = true /\ In d bishop_dirs) \/ (is_diag d = false /\ In d rook_dirs).
Proof.
  intros H. unfold all_dirs in H. apply in_app_or in H. destruct H as [H|H]; [left; split; [exact (proj1 (diag_class d H))|exact H]|right; split; [exact (proj1 (orth_class d H))|exact H]].
Qed.

(* a move along the pin line: the target is between king and pinner, on the pinner, or the king's square *)
Lemma on_line d l1 l2a x l2b d2 : In d all_dirs -> ray_of k d = l1 ++ a :: l2a ++ x :: l2b ->
  (forall s, In s l1 -> N.testbit occ s = false) -> (forall s, In s l2a -> N.testbit occ s = false) -> N.testbit occ x = true ->
  d2 = d \/ d2 = negd d -> N.testbit (walk_list occ (ray_of a d2)) b = true -> In b l1 \/ In b l2a \/ b = x.
Proof.
  intros Hd El H1 H2 Hox Hd2 Hw. destruct Hd2 as [->| ->].
  - rewrite (fwd_ray k d l1 a _ k_lt Hd El) in Hw.
    destruct (walk_prefix occ l2a x l2b b) as [H|H]; try assumption.
    + intros y Hy. apply (RaySym.ray_lt k d). rewrite El. apply in_or_app. right. right. exact Hy.
    + right. left. exact H.
    + right. right. exact H.
  - destruct (back_ray k d l1 a _ k_lt Hd El) as (rest & Eb). rewrite Eb in Hw.
    assert (Hok : N.testbit occ k = true) by (apply ours_occ; exact (proj1 k_ours)).
    destruct (walk_prefix occ (rev l1) k rest b) as [H|H]; try assumption.
    + rewrite <- Eb. exact (RaySym.ray_lt a (negd d)).
    + intros s Hs. apply H1. apply in_rev. exact Hs.
    + left. apply in_rev. exact H.
    + exfalso. exact (b_ne_k H).
Qed.

Lemma negd_in_all d : In d all_dirs -> In (negd d) all_dirs.
Proof. intros H. destruct (in_all_dirs_cases d H) as [->|[->|[->|[->|[->|[->|[->| ->]]]]]]]; unfold negd, all_dirs, bishop_dirs, rook_dirs; cbn; tauto. Qed.

Theorem slider_safe d : In d all_dirs -> first_hit (occupied Q) (chkQ d) (ray_of k d) = false.
Proof.
  intros Hd. destruct (first_hit (occupied Q) (chkQ d) (ray_of k d)) eqn:Hf; [|reflexivity]. exfalso.
  destruct (dir_tab_has d Hd) as (f & He). set (e := (d, f)) in He.
  destruct (first_hit_split _ _ _ Hf) as (l1' & x & l2' & El & Hvac & Hox & HX).
  rewrite F_chk in HX. apply andb_true_iff in HX. destruct HX as [HX Hxb]. apply negb_true_iff, N.eqb_neq in Hxb.
  destruct (chk_sub p d x HX) as (Hxt & Hxo).
  assert (Hxa : x <> a) by (intros E; rewrite E, (proj2 a_ours) in Hxt; discriminate).
  assert (Hvac' : forall s, In s l1' -> s <> b /\ (s <> a -> N.testbit occ s = false)).
  { intros s Hs. pose proof (Hvac s Hs) as H. rewrite F_occ in H. apply orb_false_iff in H. destruct H as [Hsb H].
    apply N.eqb_neq in Hsb. split; [exact Hsb|]. intros Hsa. apply andb_false_iff in H. destruct H as [H|H]; [exact H|].
    apply negb_false_iff, N.eqb_eq in H. contradiction. }
  assert (Hnd : NoDup (ray_of k d)) by exact (ray_nodup k d k_lt Hd).
  destruct (in_dec N.eq_dec a l1') as [Hin|Hnin].
  - (* the mover was the only man between king and slider: it is pinned along d *)
    destruct (in_split a l1' Hin) as (l1 & l2a & El1). rewrite El1, <- app_assoc in El. cbn [app] in El.
    assert (Hnd' : NoDup (l1 ++ a :: l2a ++ x :: l2')) by (rewrite <- El; exact Hnd).
    assert (H1 : forall s, In s l1 -> N.testbit occ s = false).
    { intros s Hs. apply (proj2 (Hvac' s ltac:(rewrite El1; apply in_or_app; left; exact Hs))). intros E. subst s.
      apply NoDup_remove_2 in Hnd'. apply Hnd'. apply in_or_app. left. exact Hs. }
    assert (H2 : forall s, In s l2a -> N.testbit occ s = false).
    { intros s Hs. apply (proj2 (Hvac' s ltac:(rewrite El1; apply in_or_app; right; right; exact Hs))). intros E. subst s.
      apply NoDup_remove_2 in Hnd'. apply Hnd'. apply in_or_app. right. apply in_or_app. left. exact Hs. }
    assert (Hb1 : ~ In b l1) by (intros Hs; apply (proj1 (Hvac' b ltac:(rewrite El1; apply in_or_app; left; exact Hs))); reflexivity).
    assert (Hb2 : ~ In b l2a) by (intros Hs; apply (proj1 (Hvac' b ltac:(rewrite El1; apply in_or_app; right; right; exact Hs))); reflexivity).
    assert (Hline : forall d2, d2 = d \/ d2 = negd d -> N.testbit (walk_list occ (ray_of a d2)) b = true -> False).
    { intros d2 Hd2 Hw. destruct (on_line d l1 l2a x l2' d2 Hd El H1 H2 Hxo Hd2 Hw) as [H|[H|H]]; [exact (Hb1 H)|exact (Hb2 H)|]. apply Hxb. symmetry. exact H. }
    destruct (pinned_of_struct e l1 l2a x l2' He El H1 H2 HX) as (PB & PR & PH). cbn [fst e] in PB, PR, PH.
    assert (Ha_on : In a (ray_of k d)) by (rewrite El; apply in_or_app; right; left; reflexivity).
    (* a sideways step within the class of d is excluded by the x-ray condition *)
    assert (Hcross : forall d2, In d2 (class_dirs d) -> N.testbit (walk_list occ (ray_of a d2)) b = true ->
              (b = k \/ exists d', In d' (class_dirs d) /\ In b (ray_of k d')) -> False).
    { intros d2 Hd2 Hw Hbx. destruct (dir_eqb d2 d) eqn:E1; [apply dir_eqb_eq in E1; exact (Hline d2 (or_introl E1) Hw)|].
      destruct (dir_eqb d2 (negd d)) eqn:E2; [apply dir_eqb_eq in E2; exact (Hline d2 (or_intror E2) Hw)|].
      apply dir_eqb_neq in E1, E2.
      assert (Hbin : In b (ray_of a d2)) by exact (walk_list_in _ _ (RaySym.ray_lt a d2) b Hw).
      destruct Hbx as [Hbk|(d' & Hd' & Hbd')].
      - exact (b_ne_k Hbk).
      - exact (proj2 (cross_rays k d a d2 b d' k_lt Hd Ha_on Hd2 E1 E2 Hbin Hd') Hbd'). }
    destruct (gi_pins p) as (E1 & _ & _ & E4 & _ & E6).
    destruct Hpin as [Hp|[(Hp & Hbx & (d2 & Hd2 & Hw))|[(Hp & Hbx & (d2 & Hd2 & Hw))|[(Hp1 & Hp2 & (d2 & Hd2 & Hw))|(Hp1 & Hp2 & (d2 & Hd2 & Hw))]]]].
    + (* not pinned *)
      rewrite E6, N.lor_spec in Hp. apply orb_false_iff in Hp. destruct Hp as [Hp1 Hp2]. rewrite <- E1 in Hp1. rewrite <- E4 in Hp2.
      destruct (is_diag d) eqn:Ed; [rewrite (PB eq_refl) in Hp1; discriminate|].
      rewrite (PR eq_refl) in Hp2. discriminate.
    + (* pinned on a diagonal, moves like a bishop inside bxrays *)
      destruct (bpinned_on_diag a Hp) as (d0 & Hd0 & Ha0).
      assert (E0 : d0 = d) by exact (rays_disjoint k d0 d a k_lt (bishop_in_all d0 Hd0) Hd Ha0 Ha_on). subst d0.
      destruct (diag_class d Hd0) as (_ & Ecl).
      apply (Hcross d2); [rewrite Ecl; exact Hd2|exact Hw|]. rewrite Ecl. exact (bxrays_on_diag b Hbx).
    + destruct (rpinned_on_orth a Hp) as (d0 & Hd0 & Ha0).
      assert (E0 : d0 = d) by exact (rays_disjoint k d0 d a k_lt (rook_in_all d0 Hd0) Hd Ha0 Ha_on). subst d0.
      destruct (orth_class d Hd0) as (_ & Ecl).
      apply (Hcross d2); [rewrite Ecl; exact Hd2|exact Hw|]. rewrite Ecl. right. exact (rxrays_on_orth b Hbx).
    + (* pawn push: the pin can only be vertical, and the push stays on the file *)
      destruct Hd2 as [<-|[]].
      destruct (is_diag d) eqn:Ed; [rewrite (PB eq_refl) in Hp2; discriminate|].
      destruct (in_all_dirs_cases d Hd) as [->|[->|[->|[->|[->|[->|[->| ->]]]]]]]; try (vm_compute in Ed; discriminate).
      * exact (Hline (0, 1)%Z (or_introl eq_refl) Hw).
      * exact (Hline (0, 1)%Z (or_intror eq_refl) Hw).
      * rewrite (PH (or_introl eq_refl)) in Hp1. discriminate.
      * rewrite (PH (or_intror eq_refl)) in Hp1. discriminate.
    + (* pawn capture *)
      destruct (is_diag d) eqn:Ed; [|rewrite (PR eq_refl) in Hp1; discriminate].
      destruct Hp2 as [Hp2|Hbx]; [rewrite (PB eq_refl) in Hp2; discriminate|].
      destruct (dir_class d Hd) as [(_ & Hdb)|(Ed' & _)]; [|congruence].
      destruct (diag_class d Hdb) as (_ & Ecl).
      apply (Hcross d2); [rewrite Ecl; unfold bishop_dirs; cbn [In] in Hd2 |- *; tauto|exact Hw|]. rewrite Ecl. exact (bxrays_on_diag b Hbx).
  - (* the ray was open already: a slider check along d; the target must block it or take the checker *)
    assert (H1 : forall s, In s l1' -> N.testbit occ s = false).
    { intros s Hs. apply (proj2 (Hvac' s Hs)). intros E. subst s. contradiction. }
    assert (Hf0 : first_hit occ (g_chk p d) (ray_of k d) = true) by (rewrite El, (first_hit_intro occ _ l1' x l2' H1 Hxo); exact HX).
    pose proof (allowed_slider p G e b He Hf0 Hall) as Hw. cbn [fst e] in Hw. rewrite El in Hw.
    destruct (walk_prefix occ l1' x l2' b) as [H|H]; try assumption.
    + rewrite <- El. exact (RaySym.ray_lt k d).
    + exact (proj1 (Hvac' b H) eq_refl).
    + apply Hxb. symmetry. exact H.
Qed.

(* ------------------------------------------------------------------ the five tests of the attack query *)
Lemma kbb_k : N.testbit (g_kbb p) k = true.
Proof. unfold g_kbb. rewrite N.land_comm. apply lsb_set. apply popcount1_nonzero. exact (g_king p G). Qed.

Lemma leaper_absurd y : y <> b -> N.testbit (N.lor (g_patt p) (g_natt p)) y = true -> False.
Proof. intros Hy H. apply Hy. symmetry. exact (allowed_leaper p G y b H Hall). Qed.

Theorem nonking_legal : in_check_them (makemove u p m) = false.
Proof.
  rewrite (nc_transfer_sq u p m kq S I NVK), ka_is_k.
  destruct (Q_their_king u p m kq S I NVK) as (_ & Etk).
  pose proof (Q_BB8 u p m kq S I NVK) as HBQ. destruct HBQ as (Q1 & Q2 & Q3 & Q4 & Q5 & Q6 & Q7 & Q8).
  unfold is_sq_attacked. cbn [get_side]. apply if_chain_false.
  - (* pawns *)
    destruct (is_set (pawns_bb false (N.land (pawns Q) (c_them Q))) k) eqn:E; [|reflexivity]. exfalso.
    unfold is_set in E. rewrite testbit_pawns_them in E. apply andb_true_iff in E. destruct E as [_ E].
    pose proof (F_them 0 (k + 7) ltac:(lia)) as H7. pose proof (F_them 0 (k + 9) ltac:(lia)) as H9. cbn [get_piece] in H7, H9.
    pose proof kbb_k as Hkk. pose proof k_lt as Hk64.
    assert (Hlt : forall y, N.testbit (N.land (pawns Q) (c_them Q)) y = true -> y < 64) by (intros y; apply testbit_lt; apply land_lt_l; exact Q3).
    apply orb_true_iff in E. destruct E as [E|E]; apply andb_true_iff in E; destruct E as [Em Ey].
    + pose proof (Hlt _ Ey) as Hy64. rewrite H7 in Ey. apply andb_true_iff in Ey. destruct Ey as [Ey Hyb]. apply negb_true_iff, N.eqb_neq in Hyb.
      apply (leaper_absurd (k + 7) Hyb). rewrite N.lor_spec. apply orb_true_iff. left. unfold g_patt.
      rewrite N.land_spec in Ey. apply andb_true_iff in Ey. destruct Ey as [Ey1 Ey2].
      rewrite !N.land_spec, N.lor_spec, Ey1, Ey2, !andb_true_r. apply orb_true_iff. right.
      rewrite testbit_north_west. replace (k + 7 - 7) with k by lia. rewrite Hkk, andb_true_r.
      apply negb_true_iff, N.eqb_neq in Em.
      apply andb_true_iff. split; [apply andb_true_iff; split; [apply N.ltb_lt; exact Hy64|]|apply N.leb_le; lia].
      apply negb_true_iff, N.eqb_neq. intros X. apply Em. pose proof (N.div_mod k 8 ltac:(lia)). pose proof (N.div_mod (k + 7) 8 ltac:(lia)).
      pose proof (N.mod_lt k 8 ltac:(lia)). pose proof (N.mod_lt (k + 7) 8 ltac:(lia)). nia.
    + pose proof (Hlt _ Ey) as Hy64. rewrite H9 in Ey. apply andb_true_iff in Ey. destruct Ey as [Ey Hyb]. apply negb_true_iff, N.eqb_neq in Hyb.
      apply (leaper_absurd (k + 9) Hyb). rewrite N.lor_spec. apply orb_true_iff. left. unfold g_patt.
      rewrite N.land_spec in Ey. apply andb_true_iff in Ey. destruct Ey as [Ey1 Ey2].
      rewrite !N.land_spec, N.lor_spec, Ey1, Ey2, !andb_true_r. apply orb_true_iff. left.
      rewrite testbit_north_east. replace (k + 9 - 9) with k by lia. rewrite Hkk, andb_true_r.
      apply negb_true_iff, N.eqb_neq in Em.
      apply andb_true_iff. split; [apply andb_true_iff; split; [apply N.ltb_lt; exact Hy64|]|apply N.leb_le; lia].
      apply negb_true_iff, N.eqb_neq. intros X. apply Em. pose proof (N.div_mod k 8 ltac:(lia)). pose proof (N.div_mod (k + 9) 8 ltac:(lia)).
      pose proof (N.mod_lt k 8 ltac:(lia)). pose proof (N.mod_lt (k + 9) 8 ltac:(lia)). nia.
  - (* knights *)
    destruct (is_occ (N.land (N.land (knights_bb (bit k)) (knights Q)) (c_them Q))) eqn:E; [|reflexivity]. exfalso.
    destruct (is_occ_exists _ E) as (y & Hy). rewrite <- N.land_assoc, N.land_spec in Hy. apply andb_true_iff in Hy. destruct Hy as [Hy1 Hy2].
    pose proof (F_them 1 y ltac:(lia)) as H1. cbn [get_piece] in H1. rewrite H1 in Hy2. apply andb_true_iff in Hy2. destruct Hy2 as [Hy2 Hyb].
    apply negb_true_iff, N.eqb_neq in Hyb. apply (leaper_absurd y Hyb). rewrite N.lor_spec. apply orb_true_iff. right.
    unfold g_natt. rewrite <- N.land_assoc, N.land_spec, Hy1, Hy2. reflexivity.
  - (* bishops and queens *)
    destruct (is_occ (N.land (batt k (occupied Q)) (N.land (c_them Q) (N.lor (bishops Q) (queens Q))))) eqn:E; [|reflexivity]. exfalso.
    unfold batt, bishop_walk in E. pose proof k_lt as Hk64. apply N.ltb_lt in Hk64. rewrite Hk64 in E.
    rewrite walk_dirs_query in E.
    + apply existsb_exists in E. destruct E as (d & Hd & Hf).
      assert (Ec : N.land (c_them Q) (N.lor (bishops Q) (queens Q)) = chkQ d) by (unfold chkQ; rewrite (proj1 (diag_class d Hd)); reflexivity).
      rewrite Ec, (slider_safe d (bishop_in_all d Hd)) in Hf. discriminate.
    + intros i Hi. rewrite N.land_spec in Hi. apply andb_true_iff in Hi. unfold occupied. rewrite N.lor_spec, (proj1 Hi). apply orb_true_r.
  - destruct (is_occ (N.land (ratt k (occupied Q)) (N.land (c_them Q) (N.lor (rooks Q) (queens Q))))) eqn:E; [|reflexivity]. exfalso.
    unfold ratt, rook_walk in E. pose proof k_lt as Hk64. apply N.ltb_lt in Hk64. rewrite Hk64 in E.
    rewrite walk_dirs_query in E.
    + apply existsb_exists in E. destruct E as (d & Hd & Hf).
      assert (Ec : N.land (c_them Q) (N.lor (rooks Q) (queens Q)) = chkQ d) by (unfold chkQ; rewrite (proj1 (orth_class d Hd)); reflexivity).
      rewrite Ec, (slider_safe d (rook_in_all d Hd)) in Hf. discriminate.
    + intros i Hi. rewrite N.land_spec in Hi. apply andb_true_iff in Hi. unfold occupied. rewrite N.lor_spec, (proj1 Hi). apply orb_true_r.
  - (* their king: it did not move, and it was not attacked by ours *)
    rewrite Etk. pose proof (i0_safe p I) as Hs. unfold in_check_them, is_sq_attacked in Hs. cbn [get_side] in Hs.
    apply if_chain_last in Hs. destruct Hs as (_ & _ & _ & _ & Hs). fold (tksq p) in Hs. fold k in Hs.
    destruct (their_king_holds p (g_wf p G) (g_bb p G) (i0_tking p I)) as (_ & Ht64).
    unfold is_set in *. rewrite (sym_use adjacent (tksq p) k adjacent_sym Ht64 k_lt). exact Hs.
Qed.
End Main.
