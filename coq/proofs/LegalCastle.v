(* C01 (soundness half), castling: a castling move emitted by the generator never leaves the mover's king attacked.
   1. transfer: `in_check_them (makemove u p m)` is the square-by-square test `bit_attacked` on the board stage
      Q = mv_boards u p m at the king's target square (g1 / c1 of the mover's frame);
   2. `castle_ok` says the target square is not attacked before the move;
   3. their men are the same before and after, the occupancy changes on the home rank only: the only ray along which a
      new attack could appear is the home rank itself, and there the castled rook shields the king on one side, while on
      the other side the generator's tests (path not attacked, rook not pinned along the rank) exclude it. *)
From Coq Require Import NArith ZArith List Bool Lia ZifyN ZifyBool.
From Rawr Require Import Consts Bits Magic Position MoveGen MakeMove MakeStages Rules Abs
                         BitsFacts ShiftFacts FlipFacts AbsFacts LsbFacts HashFacts MakeFacts MakeAbs CastleFacts CastleAbs KeyAbs KeyMove
                         AttackFacts AttackAbs AttackSets RayFacts GenSane Closure EpRetro LegalBase.
Import ListNotations.
Local Open Scope N_scope.

Lemma cb_kt8 kside : c_kt kside < 8. Proof. unfold c_kt, G1, C1. destruct kside; lia. Qed.
Lemma cb_rt8 kside : c_rt kside < 8. Proof. unfold c_rt, F1, D1. destruct kside; lia. Qed.
Lemma cb_kt64 kside : c_kt kside < 64. Proof. pose proof (cb_kt8 kside). lia. Qed.

(* ------------------------------------------------------------------ 1. the transfer *)
Section CBase.
Variables (u : bool) (p : Position) (m : Mv) (kside : bool).
Hypothesis S : csane p m kside.
Hypothesis I : Inv0 p.
Local Notation Q := (mv_boards u p m).
Local Notation R := (makemove u p m).
Local Notation from := (m_from m).
Local Notation to := (m_to m).
Local Notation kt := (c_kt kside).
Local Notation rt := (c_rt kside).


(* a square off the home rank is untouched *)
Lemma cb_high s : 8 <= s -> same_at p Q s.
Proof.
  intros H8. pose proof (cs_from _ _ _ S). pose proof (cs_to _ _ _ S). pose proof (cb_kt8 kside). pose proof (cb_rt8 kside).
  apply (castle_other u p m kside S); lia.
Qed.

Lemma cQ_BB8 : HashFacts.BB8 Q.
Proof.
  pose proof (g_bb p (i0_good p I)) as HB.
  assert (Hhi : forall i, 64 <= i -> ub Q i = false /\ tb Q i = false /\ forall j, j <= 5 -> pb Q j i = false).
  { intros i Hi. destruct (cb_high i ltac:(lia)) as (Eu & Et & Ep).
    destruct HB as (B1 & B2 & B3 & B4 & B5 & B6 & B7 & B8).
    rewrite Eu, Et. unfold ub, tb, is_set. rewrite (lt64_testbit_high _ i B1 Hi), (lt64_testbit_high _ i B2 Hi).
    split; [reflexivity|split; [reflexivity|]]. intros j Hj. rewrite (Ep j Hj). unfold pb, is_set.
    apply lt64_testbit_high; [apply get_piece_lt; repeat split; assumption|exact Hi]. }
  repeat split; apply testbit_lt64; intros i Hi; destruct (Hhi i Hi) as (Hu & Ht & Hp).
  - exact Hu.
  - exact Ht.
  - exact (Hp 0 ltac:(lia)).
  - exact (Hp 1 ltac:(lia)).
  - exact (Hp 2 ltac:(lia)).
  - exact (Hp 3 ltac:(lia)).
  - exact (Hp 4 ltac:(lia)).
  - exact (Hp 5 ltac:(lia)).
Qed.

Lemma cQ_WF : WF Q.
Proof. exact (cWF_boards u p m kside S (g_wf p (i0_good p I))). Qed.

(* one king each in Q: read off the result through the flip *)
Lemma cQ_kings : popcount (N.land (kings Q) (c_us Q)) = 1 /\ popcount (N.land (kings Q) (c_them Q)) = 1.
Proof.
  destruct (ca_our_king u p m kside S I) as (K1 & _). destruct (ca_their_king u p m kside S I) as (K2 & _).
  destruct cQ_BB8 as (_ & _ & _ & _ & _ & _ & _ & B8).
  rewrite makemove_stages in K1, K2. cbn [flip kings c_us c_them set_clocks_ep_rights] in K1, K2.
  rewrite BoundFacts.bswap_land, popcount_bswap in K1, K2 by (apply land_lt_l; exact B8).
  split; assumption.
Qed.

Theorem c_transfer : in_check_them R = bit_attacked Q kt false.
Proof.
  destruct cQ_kings as (K1 & K2).
  destruct (ca_our_king u p m kside S I) as (_ & EK). unfold tksq in EK.
  unfold in_check_them. rewrite EK. rewrite makemove_stages.
  match goal with |- is_sq_attacked (flip ?q) _ _ = _ => set (Q' := q) end.
  assert (HW' : WF Q') by (apply WF_clocks; exact cQ_WF).
  assert (HB' : HashFacts.BB8 Q') by exact cQ_BB8.
  rewrite (attack_flip Q' kt true HW' HB' K1 K2 (cb_kt64 kside)). cbn [negb].
  rewrite (is_sq_attacked_boards Q' Q kt false eq_refl eq_refl eq_refl eq_refl eq_refl eq_refl eq_refl eq_refl).
  apply is_sq_attacked_bits; [apply BBp_of_BB8; exact cQ_BB8|exact (cb_kt64 kside)|exact K2].
Qed.
End CBase.

(* ------------------------------------------------------------------ 2. the target square before the move *)
Lemma line_between_lt s1 s2 : line_between s1 s2 < TWO64.
Proof. unfold line_between. apply lor_lt; [apply land_lt_r; apply bnot_lt|apply bit_lt]. Qed.

Lemma path_end_safe p ksq kto : Inv0 p -> kto < 64 ->
  is_bb_attacked p (line_between ksq kto) false = false -> bit_attacked p kto false = false.
Proof.
  intros I Hk H. pose proof (i0_good p I) as G.
  assert (HBp : BBp p) by (apply BBp_of_BB8; exact (g_bb p G)).
  rewrite (is_bb_attacked_squares p _ false HBp (line_between_lt _ _) (i0_tking p I)) in H.
  rewrite <- (is_sq_attacked_bits p kto false HBp Hk (i0_tking p I)).
  destruct (is_sq_attacked p kto false) eqn:E; [|reflexivity]. exfalso.
  assert (X : existsb (fun sq => is_sq_attacked p sq false) (bits (line_between ksq kto)) = true).
  { apply existsb_exists. exists kto. split; [apply bits_spec, line_between_end; exact Hk|exact E]. }
  rewrite X in H. discriminate.
Qed.

Lemma castle_ok_true p right rs kto rto : castle_ok p (gen_info p) right rs kto rto = true ->
  right = true /\ is_set (gi_hpinned (gen_info p)) rs = false
  /\ is_emp (N.land (N.land (N.land (occupied p)
         (N.lor (line_between (lsb (N.land (kings p) (c_us p))) kto) (line_between rs rto)))
         (bnot (bit (lsb (N.land (kings p) (c_us p)))))) (bnot (bit rs))) = true
  /\ is_bb_attacked p (line_between (lsb (N.land (kings p) (c_us p))) kto) false = false.
Proof.
  unfold castle_ok. cbv zeta. rewrite gi_ksq_eq. intros Hc.
  apply andb_true_iff in Hc. destruct Hc as [Hc H5]. apply andb_true_iff in Hc. destruct Hc as [Hc H4].
  apply andb_true_iff in Hc. destruct Hc as [Hc H3]. apply andb_true_iff in Hc. destruct Hc as [H1 H2].
  apply negb_true_iff in H3, H5. repeat split; assumption.
Qed.

(* ------------------------------------------------------------------ 3. the attack test with the occupancy as a parameter *)
Definition batk (occ : N) (p : Position) (sq : N) : bool :=
  existsb (at_off (N.land (pawns p) (c_them p)) sq) (pawn_offs true)
  || existsb (at_off (N.land (knights p) (c_them p)) sq) knight_offs
  || existsb (fun d => first_hit occ (N.land (c_them p) (N.lor (bishops p) (queens p))) (ray_of sq d)) bishop_dirs
  || existsb (fun d => first_hit occ (N.land (c_them p) (N.lor (rooks p) (queens p))) (ray_of sq d)) rook_dirs
  || existsb (at_off (N.land (kings p) (c_them p)) sq) king_offs.

Lemma batk_p p sq : bit_attacked p sq false = batk (occupied p) p sq.
Proof. reflexivity. Qed.

Lemma them_sub p Y i : N.testbit (N.land (c_them p) Y) i = true -> N.testbit (occupied p) i = true.
Proof.
  rewrite N.land_spec. intros H. apply andb_true_iff in H. destruct H as [H _].
  unfold occupied. rewrite N.lor_spec, H. apply orb_true_r.
Qed.

Lemma first_hit_ext occ occ' X l : (forall s, In s l -> N.testbit occ' s = N.testbit occ s) ->
  first_hit occ' X l = first_hit occ X l.
Proof.
  induction l as [|a l IH]; intros H; cbn [first_hit]; [reflexivity|].
  rewrite (H a (or_introl eq_refl)). destruct (N.testbit occ a); [reflexivity|].
  apply IH. intros s Hs. apply H. right. exact Hs.
Qed.

Lemma first_hit_high occ occ' X l : forallb (fun s => 8 <=? s) l = true ->
  (forall s, 8 <= s -> N.testbit occ' s = N.testbit occ s) -> first_hit occ' X l = first_hit occ X l.
Proof.
  intros Hl H. apply first_hit_ext. intros s Hs. apply H. rewrite forallb_forall in Hl. apply N.leb_le. exact (Hl s Hs).
Qed.

Lemma existsb_false {A} (f : A -> bool) l : existsb f l = false <-> forall x, In x l -> f x = false.
Proof.
  split.
  - intros H x Hx. destruct (f x) eqn:E; [|reflexivity].
    assert (X : existsb f l = true) by (apply existsb_exists; exists x; split; assumption). rewrite X in H. discriminate.
  - intros H. destruct (existsb f l) eqn:E; [|reflexivity]. apply existsb_exists in E. destruct E as (x & Hx & Hf).
    rewrite (H x Hx) in Hf. discriminate.
Qed.

(* the six directions that leave the home rank *)
Definition off_dirs : list (Z * Z) := [(1, 1); (-1, 1); (1, -1); (-1, -1); (0, 1); (0, -1)]%Z.
Lemma off_rank_all : forallb (fun sq => forallb (fun d => forallb (fun s => 8 <=? s) (ray_of sq d)) off_dirs) [6; 2] = true.
Proof. vm_compute. reflexivity. Qed.
Lemma off_rank sq d : sq = 6 \/ sq = 2 -> In d off_dirs -> forallb (fun s => 8 <=? s) (ray_of sq d) = true.
Proof.
  intros Hs Hd. pose proof off_rank_all as A. rewrite forallb_forall in A.
  assert (Hin : In sq [6; 2]) by (cbn [In]; destruct Hs as [->| ->]; auto).
  specialize (A sq Hin). rewrite forallb_forall in A. exact (A d Hd).
Qed.

Lemma ray_6_e : ray_of 6 (1, 0)%Z = [7]. Proof. vm_compute. reflexivity. Qed.
Lemma ray_6_w : ray_of 6 (-1, 0)%Z = [5; 4; 3; 2; 1; 0]. Proof. vm_compute. reflexivity. Qed.
Lemma ray_2_e : ray_of 2 (1, 0)%Z = [3; 4; 5; 6; 7]. Proof. vm_compute. reflexivity. Qed.
Lemma ray_2_w : ray_of 2 (-1, 0)%Z = [1; 0]. Proof. vm_compute. reflexivity. Qed.
Lemma ray_1_w : ray_of 1 (-1, 0)%Z = [0]. Proof. vm_compute. reflexivity. Qed.

Section Sliders.
Variables (occ occ' XB XR : N).
Hypothesis Hhigh : forall s, 8 <= s -> N.testbit occ' s = N.testbit occ s.
Hypothesis Hsub : forall i, N.testbit XR i = true -> N.testbit occ i = true.

Lemma diag_keep sq : sq = 6 \/ sq = 2 ->
  existsb (fun d => first_hit occ XB (ray_of sq d)) bishop_dirs = false ->
  existsb (fun d => first_hit occ' XB (ray_of sq d)) bishop_dirs = false.
Proof.
  intros Hs H. rewrite existsb_false in H. apply existsb_false. intros d Hd.
  rewrite (first_hit_high occ occ' XB _ (off_rank sq d Hs ltac:(unfold bishop_dirs, off_dirs in *; cbn [In] in *; tauto)) Hhigh).
  exact (H d Hd).
Qed.

Lemma file_keep sq d : sq = 6 \/ sq = 2 -> d = (0, 1)%Z \/ d = (0, -1)%Z ->
  first_hit occ' XR (ray_of sq d) = first_hit occ XR (ray_of sq d).
Proof.
  intros Hs Hd. apply first_hit_high; [|exact Hhigh]. apply off_rank; [exact Hs|].
  unfold off_dirs. cbn [In]. destruct Hd as [->| ->]; tauto.
Qed.

(* king side: king on g1, rook on f1 *)
Lemma rook_keep_k : N.testbit occ' 5 = true -> N.testbit XR 5 = false ->
  existsb (fun d => first_hit occ XR (ray_of 6 d)) rook_dirs = false ->
  existsb (fun d => first_hit occ' XR (ray_of 6 d)) rook_dirs = false.
Proof.
  intros O5 X5 H. rewrite existsb_false in H. apply existsb_false. intros d Hd.
  unfold rook_dirs in Hd. cbn [In] in Hd. destruct Hd as [<-|[<-|[<-|[<-|[]]]]].
  - rewrite file_keep by auto. apply H. unfold rook_dirs. cbn [In]. auto.
  - rewrite file_keep by auto. apply H. unfold rook_dirs. cbn [In]. auto.
  - assert (H7 : first_hit occ XR (ray_of 6 (1, 0)%Z) = false) by (apply H; unfold rook_dirs; cbn [In]; auto).
    rewrite ray_6_e in *. cbn [first_hit] in *.
    destruct (N.testbit XR 7) eqn:E; [rewrite (Hsub 7 E) in H7; discriminate|]. destruct (N.testbit occ' 7); reflexivity.
  - rewrite ray_6_w. cbn [first_hit]. rewrite O5. exact X5.
Qed.

(* queen side: king on c1, rook on d1 *)
Lemma rook_keep_q : N.testbit occ' 3 = true -> N.testbit XR 3 = false ->
  (N.testbit occ' 1 = false -> N.testbit occ 1 = true -> N.testbit XR 0 = true -> False) ->
  existsb (fun d => first_hit occ XR (ray_of 2 d)) rook_dirs = false ->
  existsb (fun d => first_hit occ' XR (ray_of 2 d)) rook_dirs = false.
Proof.
  intros O3 X3 Hb1 H. rewrite existsb_false in H. apply existsb_false. intros d Hd.
  unfold rook_dirs in Hd. cbn [In] in Hd. destruct Hd as [<-|[<-|[<-|[<-|[]]]]].
  - rewrite file_keep by auto. apply H. unfold rook_dirs. cbn [In]. auto.
  - rewrite file_keep by auto. apply H. unfold rook_dirs. cbn [In]. auto.
  - rewrite ray_2_e. cbn [first_hit]. rewrite O3. exact X3.
  - assert (Hw : first_hit occ XR (ray_of 2 (-1, 0)%Z) = false) by (apply H; unfold rook_dirs; cbn [In]; auto 6).
    rewrite ray_2_w in *. cbn [first_hit] in *.
    destruct (N.testbit XR 1) eqn:E1; [rewrite (Hsub 1 E1) in Hw; discriminate|].
    destruct (N.testbit occ' 1) eqn:O1; [reflexivity|].
    destruct (N.testbit XR 0) eqn:E0; [|destruct (N.testbit occ' 0); reflexivity]. exfalso.
    rewrite (Hsub 0 E0) in Hw. destruct (N.testbit occ 1) eqn:O1p; [|discriminate].
    apply Hb1; reflexivity.
Qed.
End Sliders.

(* ------------------------------------------------------------------ 4. Q against p *)
Section Compare.
Variables (u : bool) (p : Position) (m : Mv) (kside : bool).
Hypothesis S : csane p m kside.
Local Notation Q := (mv_boards u p m).
Local Notation from := (m_from m).
Local Notation to := (m_to m).
Local Notation kt := (c_kt kside).
Local Notation rt := (c_rt kside).

Lemma inv_tb s : involved m kside s -> tb p s = false.
Proof. intros Hs. exact (proj1 (proj2 (orig_bits p m kside S s Hs))). Qed.

Lemma not_inv_same s : ~ involved m kside s -> same_at p Q s.
Proof.
  intros H. apply (castle_other u p m kside S); intros E; apply H; unfold involved; auto.
Qed.

(* their men are where they were *)
Lemma them_bits s j : j <= 5 -> tb Q s && pb Q j s = tb p s && pb p j s.
Proof.
  intros Hj. rewrite (Q_tb u p m kside S s). destruct (tb p s) eqn:Et; [|reflexivity]. cbn [andb].
  assert (Hn : ~ involved m kside s) by (intros Hi; rewrite (inv_tb s Hi) in Et; discriminate).
  destruct (not_inv_same s Hn) as (_ & _ & Ep). exact (Ep j Hj).
Qed.

Lemma E_piece j : j <= 5 -> N.land (get_piece Q j) (c_them Q) = N.land (get_piece p j) (c_them p).
Proof.
  intros Hj. apply N.bits_inj. intros i. rewrite !N.land_spec.
  change (pb Q j i && tb Q i = pb p j i && tb p i). rewrite andb_comm, (them_bits i j Hj), andb_comm. reflexivity.
Qed.

Lemma E_slide a b : a <= 5 -> b <= 5 ->
  N.land (c_them Q) (N.lor (get_piece Q a) (get_piece Q b)) = N.land (c_them p) (N.lor (get_piece p a) (get_piece p b)).
Proof.
  intros Ha Hb. apply N.bits_inj. intros i. rewrite !N.land_spec, !N.lor_spec.
  change (tb Q i && (pb Q a i || pb Q b i) = tb p i && (pb p a i || pb p b i)).
  rewrite !andb_orb_distrib_r, (them_bits i a Ha), (them_bits i b Hb). reflexivity.
Qed.

Lemma batk_Q sq : bit_attacked Q sq false = batk (occupied Q) p sq.
Proof.
  pose proof (E_piece 0 ltac:(lia)) as E0. pose proof (E_piece 1 ltac:(lia)) as E1. pose proof (E_piece 5 ltac:(lia)) as E5.
  pose proof (E_slide 2 4 ltac:(lia) ltac:(lia)) as E24. pose proof (E_slide 3 4 ltac:(lia) ltac:(lia)) as E34.
  cbn [get_piece] in E0, E1, E5, E24, E34.
  unfold bit_attacked, batk. cbv zeta. change (get_side Q false) with (c_them Q).
  rewrite E0, E1, E5, E24, E34. reflexivity.
Qed.

Lemma occ_bits q s : N.testbit (occupied q) s = ub q s || tb q s.
Proof. unfold occupied. rewrite N.lor_spec. reflexivity. Qed.

Lemma occ_same s : ~ involved m kside s -> N.testbit (occupied Q) s = N.testbit (occupied p) s.
Proof. intros H. destruct (not_inv_same s H) as (Eu & Et & _). rewrite !occ_bits, Eu, Et. reflexivity. Qed.

Lemma occ_high s : 8 <= s -> N.testbit (occupied Q) s = N.testbit (occupied p) s.
Proof.
  intros H8. apply occ_same. pose proof (cs_from _ _ _ S). pose proof (cs_to _ _ _ S).
  pose proof (cb_kt8 kside). pose proof (cb_rt8 kside). unfold involved. lia.
Qed.

Lemma occ_rt : N.testbit (occupied Q) rt = true.
Proof. destruct (castle_rook_target u p m kside S) as (_ & Hu & _). rewrite occ_bits, Hu. reflexivity. Qed.

Lemma X_rt Y : N.testbit (N.land (c_them p) Y) rt = false.
Proof.
  rewrite N.land_spec. change (N.testbit (c_them p) rt) with (tb p rt).
  rewrite (inv_tb rt) by (unfold involved; auto). reflexivity.
Qed.
End Compare.

Lemma k_side_safe u p m : csane p m true -> bit_attacked p 6 false = false -> bit_attacked (mv_boards u p m) 6 false = false.
Proof.
  intros S H. rewrite (batk_Q u p m true S 6). rewrite batk_p in H. unfold batk in *.
  apply orb_false_iff in H. destruct H as [H H5]. apply orb_false_iff in H. destruct H as [H H4].
  apply orb_false_iff in H. destruct H as [H H3]. apply orb_false_iff in H. destruct H as [H1 H2].
  rewrite H1, H2, H5.
  rewrite (diag_keep (occupied p) (occupied (mv_boards u p m)) _ (occ_high u p m true S) 6 (or_introl eq_refl) H3).
  rewrite (rook_keep_k (occupied p) (occupied (mv_boards u p m)) _ (occ_high u p m true S) (them_sub p _)
             (occ_rt u p m true S) (X_rt p m true S _) H4).
  reflexivity.
Qed.

Lemma q_side_safe u p m : csane p m false -> bit_attacked p 2 false = false ->
  (m_to m = 1 -> N.testbit (N.land (c_them p) (N.lor (rooks p) (queens p))) 0 = true -> False) ->
  bit_attacked (mv_boards u p m) 2 false = false.
Proof.
  intros S H Hpin. rewrite (batk_Q u p m false S 2). rewrite batk_p in H. unfold batk in *.
  apply orb_false_iff in H. destruct H as [H H5]. apply orb_false_iff in H. destruct H as [H H4].
  apply orb_false_iff in H. destruct H as [H H3]. apply orb_false_iff in H. destruct H as [H1 H2].
  rewrite H1, H2, H5.
  rewrite (diag_keep (occupied p) (occupied (mv_boards u p m)) _ (occ_high u p m false S) 2 (or_intror eq_refl) H3).
  rewrite (rook_keep_q (occupied p) (occupied (mv_boards u p m)) _ (occ_high u p m false S) (them_sub p _)
             (occ_rt u p m false S) (X_rt p m false S _)); [reflexivity| |exact H4].
  intros O1 O1p X0.
  (* b1 was occupied and is vacant now: the king or the rook stood there *)
  assert (Hinv : involved m false 1).
  { destruct (N.eq_dec 1 (m_from m)) as [E|N1]; [left; exact E|]. destruct (N.eq_dec 1 (m_to m)) as [E|N2]; [right; left; exact E|].
    exfalso. rewrite (occ_same u p m false S 1) in O1; [rewrite O1 in O1p; discriminate|].
    unfold involved, c_kt, c_rt, C1, D1. lia. }
  assert (T0 : tb p 0 = true).
  { rewrite N.land_spec in X0. apply andb_true_iff in X0. exact (proj1 X0). }
  destruct Hinv as [E|[E|[E|E]]].
  - (* the king on b1: the rook is on a1, which is theirs *)
    pose proof (cs_side _ _ _ S) as Hs. symmetry in Hs. apply N.ltb_ge in Hs. pose proof (cs_ne _ _ _ S) as Hne.
    assert (E0 : m_to m = 0) by lia.
    destruct (cs_rook _ _ _ S) as (_ & _ & Ht & _). rewrite E0, T0 in Ht. discriminate.
  - apply Hpin; [symmetry; exact E|exact X0].
  - unfold c_kt, C1 in E. discriminate.
  - unfold c_rt, D1 in E. discriminate.
Qed.

(* ------------------------------------------------------------------ 5. the rook on b1 with their rook or queen on a1 is pinned along the rank *)
Definition hpinned_expr (p : Position) : N :=
  let occ := occupied p in
  let ksq := lsb (N.land (kings p) (c_us p)) in
  let rq := N.land (c_them p) (N.lor (rooks p) (queens p)) in
  fst (pin_dir ray_w p (if is_occ rq then ray_w ksq occ else 0) rq
        (pin_dir ray_e p (if is_occ rq then ray_e ksq occ else 0) rq (0, 0))).

Lemma gi_hpinned_eq p : gi_hpinned (gen_info p) = hpinned_expr p.
Proof.
  unfold gen_info, hpinned_expr. cbv zeta.
  repeat match goal with |- context [let '(a, b) := ?x in _] => destruct x end.
  reflexivity.
Qed.

Lemma walk_land_bit occ X pre a post :
  (forall s, In s (pre ++ a :: post) -> s < 64) ->
  (forall s, In s pre -> N.testbit occ s = false) -> (forall s, In s pre -> N.testbit X s = false) ->
  N.testbit occ a = true -> N.testbit X a = true ->
  N.land (walk_list occ (pre ++ a :: post)) X = bit a.
Proof.
  induction pre as [|s pre IH]; intros Hl Ho Hx Hoa Hxa; cbn [app walk_list].
  - rewrite Hoa. assert (Ha : a < 64) by (apply Hl; left; reflexivity).
    apply N.bits_inj. intros i. rewrite N.land_spec, testbit_bit by exact Ha.
    destruct (N.eqb_spec i a) as [->|_]; [rewrite Hxa|]; reflexivity.
  - rewrite (Ho s (or_introl eq_refl)), N.land_lor_distr_l.
    assert (Hs : s < 64) by (apply Hl; left; reflexivity).
    assert (E0 : N.land (bit s) X = 0).
    { apply N.bits_inj. intros i. rewrite N.land_spec, N.bits_0, testbit_bit by exact Hs.
      destruct (N.eqb_spec i s) as [->|_]; [rewrite (Hx s (or_introl eq_refl))|]; reflexivity. }
    rewrite E0, N.lor_0_l. apply IH; try assumption.
    + intros y Hy. apply Hl. right. exact Hy.
    + intros y Hy. apply Ho. right. exact Hy.
    + intros y Hy. apply Hx. right. exact Hy.
Qed.

Lemma ray_w_low k : 1 < k < 8 -> exists pre, ray_of k (-1, 0)%Z = pre ++ [1; 0] /\ forall s, In s pre -> 1 < s < k.
Proof.
  intros Hk. assert (C : k = 2 \/ k = 3 \/ k = 4 \/ k = 5 \/ k = 6 \/ k = 7) by lia.
  destruct C as [->|[->|[->|[->|[->| ->]]]]].
  - exists []. split; [vm_compute; reflexivity|intros s []].
  - exists [2]. split; [vm_compute; reflexivity|cbn [In]; intros s Hs; lia].
  - exists [3; 2]. split; [vm_compute; reflexivity|cbn [In]; intros s Hs; lia].
  - exists [4; 3; 2]. split; [vm_compute; reflexivity|cbn [In]; intros s Hs; lia].
  - exists [5; 4; 3; 2]. split; [vm_compute; reflexivity|cbn [In]; intros s Hs; lia].
  - exists [6; 5; 4; 3; 2]. split; [vm_compute; reflexivity|cbn [In]; intros s Hs; lia].
Qed.

Lemma hpin_b1 p : 1 < lsb (N.land (kings p) (c_us p)) < 8 -> ub p 1 = true ->
  (forall x, 1 < x < lsb (N.land (kings p) (c_us p)) -> N.testbit (occupied p) x = false) ->
  N.testbit (N.land (c_them p) (N.lor (rooks p) (queens p))) 0 = true ->
  N.testbit (gi_hpinned (gen_info p)) 1 = true.
Proof.
  intros Hk Hu Hgap Hrq. rewrite gi_hpinned_eq. unfold hpinned_expr. cbv zeta.
  set (k := lsb (N.land (kings p) (c_us p))) in *. set (rq := N.land (c_them p) (N.lor (rooks p) (queens p))) in *.
  assert (Hocc : is_occ rq = true).
  { unfold is_occ. apply negb_true_iff, N.eqb_neq. intros E. rewrite E, N.bits_0 in Hrq. discriminate. }
  rewrite Hocc.
  set (ACC := pin_dir ray_e p (ray_e k (occupied p)) rq (0, 0)). clearbody ACC. destruct ACC as [pinned xr].
  destruct (ray_w_low k Hk) as (pre & El & Hpre).
  assert (Hl : forall s, In s (pre ++ [1; 0]) -> s < 64).
  { intros s Hs. apply in_app_or in Hs. destruct Hs as [Hs|Hs]; [specialize (Hpre s Hs); lia|].
    cbn [In] in Hs. destruct Hs as [<-|[<-|[]]]; lia. }
  assert (Ho1 : N.testbit (occupied p) 1 = true) by (rewrite occ_bits; unfold ub in Hu; unfold ub; rewrite Hu; reflexivity).
  assert (EL : N.land (ray_w k (occupied p)) (c_us p) = bit 1).
  { rewrite (ray_w_exact k (occupied p)) by lia. rewrite El.
    apply (walk_land_bit (occupied p) (c_us p) pre 1 [0] Hl).
    - intros s Hs. apply Hgap. exact (Hpre s Hs).
    - intros s Hs. pose proof (Hgap s (Hpre s Hs)) as Hg. rewrite occ_bits in Hg. apply orb_false_iff in Hg. exact (proj1 Hg).
    - exact Ho1.
    - exact Hu. }
  assert (Ho0 : N.testbit (occupied p) 0 = true) by (exact (them_sub p _ 0 Hrq)).
  assert (EX : is_occ (N.land (ray_w 1 (occupied p)) rq) = true).
  { rewrite (ray_w_exact 1 (occupied p)) by lia. rewrite ray_1_w.
    rewrite walk_first; [cbn [first_hit]; rewrite Ho0; exact Hrq| |intros i Hi; exact (them_sub p _ i Hi)].
    cbn [In]. intros s [<-|[]]. lia. }
  unfold pin_dir. rewrite EL. destruct (bit_facts 1 ltac:(lia)) as (_ & L1). rewrite L1.
  replace (is_occ (bit 1)) with true by (vm_compute; reflexivity).
  rewrite EX. cbn [fst]. rewrite N.lor_spec, testbit_bit by lia. apply orb_true_r.
Qed.

(* the squares strictly between the rook on b1 and the king belong to one of the two castling paths *)
Definition low8 : list N := [0; 1; 2; 3; 4; 5; 6; 7].
Lemma in_low8 x : x < 8 -> In x low8.
Proof. intros H. unfold low8. cbn [In]. lia. Qed.
Lemma gap_sweep : forallb (fun k => forallb (fun x =>
    implb ((1 <? x) && (x <? k)) (N.testbit (N.lor (line_between k C1) (line_between 1 D1)) x)) low8) low8 = true.
Proof. vm_compute. reflexivity. Qed.
Lemma gap_in_paths k x : k < 8 -> 1 < x < k -> N.testbit (N.lor (line_between k C1) (line_between 1 D1)) x = true.
Proof.
  intros Hk Hx. pose proof gap_sweep as A. rewrite forallb_forall in A. specialize (A k (in_low8 k Hk)).
  rewrite forallb_forall in A. specialize (A x (in_low8 x ltac:(lia))).
  replace ((1 <? x) && (x <? k)) with true in A; [exact A|].
  symmetry. apply andb_true_iff. split; apply N.ltb_lt; lia.
Qed.

(* ------------------------------------------------------------------ 6. the two theorems *)
Theorem castle_k_legal u p g : Inv0 p -> In g (blk_castle_k p) -> in_check_them (makemove u p (gen_mv g)) = false.
Proof.
  intros I Hg. pose proof (i0_good p I) as G. pose proof (i0_cg p I) as CG.
  destruct (castle_block_k p G CG g Hg) as (S & _).
  rewrite (c_transfer u p (gen_mv g) true S I). change (c_kt true) with 6.
  unfold blk_castle_k in Hg. destruct (castle_ok p (gen_info p) (us_ksc p) (sq_of (cf0 p) 0) G1 F1) eqn:Hc; [|contradiction].
  destruct (castle_ok_true _ _ _ _ _ Hc) as (_ & _ & _ & Hatt).
  apply (k_side_safe u p (gen_mv g) S).
  apply (path_end_safe p (lsb (N.land (kings p) (c_us p))) G1 I); [unfold G1; lia|exact Hatt].
Qed.

Theorem castle_q_legal u p g : Inv0 p -> In g (blk_castle_q p) -> in_check_them (makemove u p (gen_mv g)) = false.
Proof.
  intros I Hg. pose proof (i0_good p I) as G. pose proof (i0_cg p I) as CG.
  destruct (castle_block_q p G CG g Hg) as (S & Hright).
  rewrite (c_transfer u p (gen_mv g) false S I). change (c_kt false) with 2.
  unfold blk_castle_q in Hg. destruct (castle_ok p (gen_info p) (us_qsc p) (sq_of (cf1 p) 0) C1 D1) eqn:Hc; [|contradiction].
  destruct Hg as [<-|[]]. cbn [gen_mv] in *.
  destruct (castle_ok_true _ _ _ _ _ Hc) as (_ & Hpinned & Hemp & Hatt).
  apply (q_side_safe u p _ S).
  - apply (path_end_safe p (lsb (N.land (kings p) (c_us p))) C1 I); [unfold C1; lia|exact Hatt].
  - cbn [m_to]. intros E1 X0. rewrite E1 in *.
    destruct (cg_q p CG Hright) as (_ & Hlt & Hk8). rewrite E1 in Hlt.
    assert (Hpin : N.testbit (gi_hpinned (gen_info p)) 1 = true).
    { apply hpin_b1; [lia| | |exact X0].
      - destruct (cs_rook _ _ _ S) as (_ & Hu & _). cbn [m_to] in Hu. exact Hu.
      - intros x Hx.
        destruct (path_square p G 1 C1 D1 x Hemp ltac:(lia) ltac:(lia) (gap_in_paths _ x Hk8 Hx)) as [E|[E|(Eu & Et & _)]]; try lia.
        rewrite occ_bits, Eu, Et. reflexivity. }
    unfold is_set in Hpinned. rewrite Hpinned in Hpin. discriminate.
Qed.

Print Assumptions castle_k_legal.
Print Assumptions castle_q_legal.
