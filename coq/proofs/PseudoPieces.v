(* C01: knights, bishops, rooks, queens and king steps -- the generator's target sets (leaper boards, slider walks) against the
   rules' own move lists (Rules.step_moves, Rules.slide), in the White-to-move frame (stored frame = absolute frame).
   P1 leapers, P2 sliders (both as <-> characterisations), P3 the generator's blocks are pseudo-legal for the rules,
   P4 the converse per kind: every move the rules list for our knight/bishop/rook/queen/king step is dec p (mkMv a b NOPIECE)
   with b in the attack board of a and not ours. *)
From Coq Require Import NArith ZArith List Bool Lia ZifyN ZifyBool.
From Rawr Require Import Consts Bits Magic Position MoveGen MakeMove MakeStages Rules Abs
                         BitsFacts AbsFacts HashFacts MakeFacts MakeAbs KeyAbs AttackFacts LeaperFacts AttackAbs
                         GenSane GenNoDup PseudoBase.
Import ListNotations.
Local Open Scope N_scope.
Ltac Zify.zify_post_hook ::= Z.div_mod_to_equations.

(* ------------------------------------------------------------------ geometry, no position involved *)
Lemma zfile_fz a : zfile a = fz a. Proof. unfold zfile, fz. lia. Qed.
Lemma zrank_rz a : zrank a = rz a. Proof. unfold zrank, rz. lia. Qed.

(* the squares of a leaper board, one by one *)
Lemma leaper_geo_bit offs a b :
  N.testbit (leaper_geo offs a) b = true <->
  exists d, In d offs /\ on_board (fz a + fst d) (rz a + snd d) = true /\ b = zsq (fz a + fst d) (rz a + snd d).
Proof.
  unfold leaper_geo. rewrite zfile_fz, zrank_rz. induction offs as [|d offs IH]; cbn [fold_right].
  - rewrite N.bits_0. split; [discriminate|]. intros (d & [] & _).
  - cbv zeta. destruct (on_board (fz a + fst d) (rz a + snd d)) eqn:Hb.
    + rewrite N.lor_spec, testbit_bit by (apply zsq_lt; exact Hb). split.
      * intros H. apply orb_true_iff in H. destruct H as [H|H].
        -- apply N.eqb_eq in H. exists d. split; [left; reflexivity|split; [exact Hb|exact H]].
        -- apply IH in H. destruct H as (d' & Hin & H). exists d'. split; [right; exact Hin|exact H].
      * intros (d' & [E|Hin] & Hb' & Hz).
        -- subst d'. apply orb_true_iff. left. apply N.eqb_eq. exact Hz.
        -- apply orb_true_iff. right. apply IH. exists d'. split; [exact Hin|split; [exact Hb'|exact Hz]].
    + rewrite IH. split.
      * intros (d' & Hin & H). exists d'. split; [right; exact Hin|exact H].
      * intros (d' & [E|Hin] & Hb' & Hz).
        -- subst d'. rewrite Hb in Hb'. discriminate.
        -- exists d'. split; [exact Hin|split; [exact Hb'|exact Hz]].
Qed.

Lemma per_square_use f offs a : per_square f offs = true -> a < 64 -> f (bit a) = leaper_geo offs a.
Proof.
  intros Hp Ha. unfold per_square in Hp. rewrite forallb_forall in Hp. apply N.eqb_eq. apply Hp. apply in_squares64'. exact Ha.
Qed.

(* the squares of a slider walk, direction by direction *)
Lemma walk_dirs_bit ds a occ b :
  N.testbit (walk_dirs ds a occ) b = true <->
  exists d, In d ds /\ N.testbit (walk_list occ (ray_squares 7 (fz a) (rz a) (fst d) (snd d))) b = true.
Proof.
  unfold walk_dirs. induction ds as [|d ds IH]; cbn [fold_right].
  - rewrite N.bits_0. split; [discriminate|]. intros (d & [] & _).
  - rewrite N.lor_spec. unfold ray_of at 1. rewrite zfile_fz, zrank_rz. split.
    + intros H. apply orb_true_iff in H. destruct H as [H|H].
      * exists d. split; [left; reflexivity|exact H].
      * apply IH in H. destruct H as (d' & Hin & H). exists d'. split; [right; exact Hin|exact H].
    + intros (d' & [E|Hin] & H); apply orb_true_iff.
      * subst d'. left. exact H.
      * right. apply IH. exists d'. split; [exact Hin|exact H].
Qed.

Lemma walk_dirs_app l1 l2 a occ : walk_dirs (l1 ++ l2) a occ = N.lor (walk_dirs l1 a occ) (walk_dirs l2 a occ).
Proof.
  unfold walk_dirs. induction l1 as [|d l1 IH]; cbn [app fold_right]; [rewrite N.lor_0_l; reflexivity|].
  rewrite IH, N.lor_assoc. reflexivity.
Qed.

Lemma batt_walk a occ : a < 64 -> batt a occ = walk_dirs bishop_dirs a occ.
Proof. intros Ha. unfold batt, bishop_walk. replace (a <? 64) with true by (symmetry; apply N.ltb_lt; exact Ha). reflexivity. Qed.
Lemma ratt_walk a occ : a < 64 -> ratt a occ = walk_dirs rook_dirs a occ.
Proof. intros Ha. unfold ratt, rook_walk. replace (a <? 64) with true by (symmetry; apply N.ltb_lt; exact Ha). reflexivity. Qed.
Lemma qatt_walk a occ : a < 64 -> qatt a occ = walk_dirs (bishop_dirs ++ rook_dirs) a occ.
Proof. intros Ha. unfold qatt. rewrite walk_dirs_app, (batt_walk a occ Ha), (ratt_walk a occ Ha). reflexivity. Qed.

Lemma knight_d_offs : knight_d = knight_offs. Proof. reflexivity. Qed.
Lemma king_d_offs : king_d = king_offs. Proof. reflexivity. Qed.
Lemma diag_d_dirs : diag_d = bishop_dirs. Proof. reflexivity. Qed.
Lemma orth_d_dirs : orth_d = rook_dirs. Proof. reflexivity. Qed.

(* ------------------------------------------------------------------ White to move *)
Section Pieces.
Variable p : Position.
Hypothesis Ht : turn p = false.
Hypothesis G : Good p.

(* the colour of the man on a square, read off the bitboards *)
Lemma col_ours s : s < 64 -> is_col White (man_at p s) = ub p s.
Proof.
  intros Hs. destruct (g_wf p G s Hs) as [He | (t & j & Hh)].
  - rewrite (man_empty p Ht s He). destruct He as (Hu & _). rewrite Hu. reflexivity.
  - destruct t.
    + rewrite (man_theirs p Ht s j Hh). destruct Hh as (_ & Hu & _). rewrite Hu. reflexivity.
    + rewrite (man_ours p Ht s j Hh). destruct Hh as (_ & Hu & _). rewrite Hu. reflexivity.
Qed.

Lemma occ_man s : s < 64 -> N.testbit (occupied p) s = match man_at p s with Some _ => true | None => false end.
Proof. exact (occupied_man p Ht (g_wf p G) s). Qed.

Lemma sane_not_ours m k : sane p m k -> ub p (m_to m) = false.
Proof.
  intros S. destruct (sn_target p m k S) as [(Hu & _) | (c & (_ & Hu & _))]; exact Hu.
Qed.

(* ---------------------------------------------------------------- P1: leapers *)
Lemma step_moves_geo f offs a sm : per_square f offs = true -> a < 64 ->
  In sm (step_moves (board_of p) White (fz a) (rz a) offs) <->
  exists b, b < 64 /\ sm = mkM (fz a) (rz a) (fz b) (rz b) None /\ N.testbit (f (bit a)) b = true /\ ub p b = false.
Proof.
  intros Hp Ha. rewrite (per_square_use f offs a Hp Ha). unfold step_moves. rewrite in_flat_map. split.
  - intros (d & Hin & H). cbv zeta in H. change (onb (fz a + fst d) (rz a + snd d)) with (on_board (fz a + fst d) (rz a + snd d)) in H.
    destruct (on_board (fz a + fst d) (rz a + snd d)) eqn:Hb; cbn [andb] in H; [|contradiction].
    pose proof (zsq_lt _ _ Hb) as Hlt.
    rewrite (at_coords p), Hb, (col_ours _ Hlt) in H.
    destruct (ub p (zsq (fz a + fst d) (rz a + snd d))) eqn:Hu; cbn [negb] in H; [contradiction|].
    destruct H as [<-|[]]. exists (zsq (fz a + fst d) (rz a + snd d)).
    split; [exact Hlt|]. rewrite (fz_zsq _ _ Hb), (rz_zsq _ _ Hb). split; [reflexivity|split; [|exact Hu]].
    apply leaper_geo_bit. exists d. split; [exact Hin|split; [exact Hb|reflexivity]].
  - intros (b & Hb64 & -> & Hbit & Hu). apply leaper_geo_bit in Hbit. destruct Hbit as (d & Hin & Hb & ->).
    exists d. split; [exact Hin|]. cbv zeta.
    change (onb (fz a + fst d) (rz a + snd d)) with (on_board (fz a + fst d) (rz a + snd d)).
    rewrite (at_coords p), Hb, (col_ours _ Hb64), Hu. cbn [andb negb].
    rewrite (fz_zsq _ _ Hb), (rz_zsq _ _ Hb). left. reflexivity.
Qed.

Lemma step_moves_char a sm : a < 64 ->
  In sm (step_moves (board_of p) White (fz a) (rz a) knight_d) <->
  exists b, b < 64 /\ sm = mkM (fz a) (rz a) (fz b) (rz b) None /\ N.testbit (knights_bb (bit a)) b = true /\ ub p b = false.
Proof. rewrite knight_d_offs. exact (step_moves_geo knights_bb knight_offs a sm knights_squares). Qed.

Lemma king_step_char a sm : a < 64 ->
  In sm (step_moves (board_of p) White (fz a) (rz a) king_d) <->
  exists b, b < 64 /\ sm = mkM (fz a) (rz a) (fz b) (rz b) None /\ N.testbit (adjacent (bit a)) b = true /\ ub p b = false.
Proof. rewrite king_d_offs. exact (step_moves_geo adjacent king_offs a sm king_squares). Qed.

(* ---------------------------------------------------------------- P2: sliders *)
(* the rules' walk along one ray against the bitboard walk: slide stops at the first man and keeps its square only if the
   man is the enemy's; walk_list always keeps the first occupied square *)
Lemma slide_walk n : forall f0 r0 f r df dr sm,
  In sm (slide n (board_of p) White f0 r0 f r df dr) <->
  exists b, b < 64 /\ sm = mkM f0 r0 (fz b) (rz b) None
            /\ N.testbit (walk_list (occupied p) (ray_squares n f r df dr)) b = true /\ ub p b = false.
Proof.
  induction n as [|n IH]; intros f0 r0 f r df dr sm; cbn [slide ray_squares].
  - cbn [walk_list In]. split; [contradiction|]. intros (b & _ & _ & H & _). rewrite N.bits_0 in H. discriminate.
  - cbv zeta. change (onb (f + df) (r + dr)) with (on_board (f + df) (r + dr)).
    destruct (on_board (f + df) (r + dr)) eqn:Hb.
    2:{ cbn [walk_list In]. split; [contradiction|]. intros (b & _ & _ & H & _). rewrite N.bits_0 in H. discriminate. }
    pose proof (zsq_lt _ _ Hb) as Hlt. set (s := zsq (f + df) (r + dr)) in *.
    rewrite (at_coords p), Hb. fold s. cbn [walk_list].
    pose proof (occ_man s Hlt) as Ho. pose proof (col_ours s Hlt) as Hc.
    assert (Efs : fz s = (f + df)%Z) by (exact (fz_zsq _ _ Hb)).
    assert (Ers : rz s = (r + dr)%Z) by (exact (rz_zsq _ _ Hb)).
    destruct (man_at p s) as [[c' k']|].
    + rewrite Ho. cbn [is_col] in Hc. destruct (colour_eqb White c').
      * split; [contradiction|]. intros (b & Hb64 & _ & H & Hu).
        rewrite testbit_bit in H by exact Hlt. apply N.eqb_eq in H. subst b. rewrite Hu in Hc. discriminate.
      * split.
        -- intros [<-|[]]. exists s. split; [exact Hlt|]. rewrite Efs, Ers. split; [reflexivity|].
           rewrite testbit_bit, N.eqb_refl by exact Hlt. split; [reflexivity|symmetry; exact Hc].
        -- intros (b & Hb64 & -> & H & Hu). rewrite testbit_bit in H by exact Hlt. apply N.eqb_eq in H. subst b.
           rewrite Efs, Ers. left. reflexivity.
    + rewrite Ho. cbn [is_col] in Hc. cbn [In]. rewrite IH. split.
      * intros [<-|(b & Hb64 & E & H & Hu)].
        -- exists s. split; [exact Hlt|]. rewrite Efs, Ers. split; [reflexivity|].
           rewrite N.lor_spec, testbit_bit, N.eqb_refl by exact Hlt. split; [reflexivity|symmetry; exact Hc].
        -- exists b. split; [exact Hb64|split; [exact E|split; [|exact Hu]]]. rewrite N.lor_spec, H. apply orb_true_r.
      * intros (b & Hb64 & E & H & Hu). rewrite N.lor_spec, testbit_bit in H by exact Hlt.
        apply orb_true_iff in H. destruct H as [H|H].
        -- apply N.eqb_eq in H. subst b. left. rewrite E, Efs, Ers. reflexivity.
        -- right. exists b. split; [exact Hb64|split; [exact E|split; [exact H|exact Hu]]].
Qed.

Lemma slide_char a sm ds : a < 64 ->
  In sm (flat_map (fun d => slide 7 (board_of p) White (fz a) (rz a) (fz a) (rz a) (fst d) (snd d)) ds) <->
  exists b, b < 64 /\ sm = mkM (fz a) (rz a) (fz b) (rz b) None /\ N.testbit (walk_dirs ds a (occupied p)) b = true /\ ub p b = false.
Proof.
  intros Ha. rewrite in_flat_map. split.
  - intros (d & Hin & H). apply slide_walk in H. destruct H as (b & Hb64 & E & H & Hu).
    exists b. split; [exact Hb64|split; [exact E|split; [|exact Hu]]]. apply walk_dirs_bit. exists d. split; [exact Hin|exact H].
  - intros (b & Hb64 & E & H & Hu). apply walk_dirs_bit in H. destruct H as (d & Hin & H).
    exists d. split; [exact Hin|]. apply slide_walk. exists b. split; [exact Hb64|split; [exact E|split; [exact H|exact Hu]]].
Qed.

Lemma bishop_char a sm : a < 64 ->
  In sm (flat_map (fun d => slide 7 (board_of p) White (fz a) (rz a) (fz a) (rz a) (fst d) (snd d)) diag_d) <->
  exists b, b < 64 /\ sm = mkM (fz a) (rz a) (fz b) (rz b) None /\ N.testbit (batt a (occupied p)) b = true /\ ub p b = false.
Proof. intros Ha. rewrite (batt_walk a _ Ha), <- diag_d_dirs. exact (slide_char a sm diag_d Ha). Qed.

Lemma rook_char a sm : a < 64 ->
  In sm (flat_map (fun d => slide 7 (board_of p) White (fz a) (rz a) (fz a) (rz a) (fst d) (snd d)) orth_d) <->
  exists b, b < 64 /\ sm = mkM (fz a) (rz a) (fz b) (rz b) None /\ N.testbit (ratt a (occupied p)) b = true /\ ub p b = false.
Proof. intros Ha. rewrite (ratt_walk a _ Ha), <- orth_d_dirs. exact (slide_char a sm orth_d Ha). Qed.

Lemma queen_char a sm : a < 64 ->
  In sm (flat_map (fun d => slide 7 (board_of p) White (fz a) (rz a) (fz a) (rz a) (fst d) (snd d)) (diag_d ++ orth_d)) <->
  exists b, b < 64 /\ sm = mkM (fz a) (rz a) (fz b) (rz b) None /\ N.testbit (qatt a (occupied p)) b = true /\ ub p b = false.
Proof. intros Ha. rewrite (qatt_walk a _ Ha), <- diag_d_dirs, <- orth_d_dirs. exact (slide_char a sm (diag_d ++ orth_d) Ha). Qed.

(* ---------------------------------------------------------------- the rules' list per kind (piece_moves), both directions *)
Lemma piece_knight a sm : a < 64 ->
  In sm (piece_moves (abs_state p) (fz a) (rz a) Knight) <->
  exists b, b < 64 /\ sm = mkM (fz a) (rz a) (fz b) (rz b) None /\ N.testbit (knights_bb (bit a)) b = true /\ ub p b = false.
Proof. unfold piece_moves. cbv zeta. rewrite (s_turn_white p Ht), (s_board_white p). exact (step_moves_char a sm). Qed.
Lemma piece_bishop a sm : a < 64 ->
  In sm (piece_moves (abs_state p) (fz a) (rz a) Bishop) <->
  exists b, b < 64 /\ sm = mkM (fz a) (rz a) (fz b) (rz b) None /\ N.testbit (batt a (occupied p)) b = true /\ ub p b = false.
Proof. unfold piece_moves. cbv zeta. rewrite (s_turn_white p Ht), (s_board_white p). exact (bishop_char a sm). Qed.
Lemma piece_rook a sm : a < 64 ->
  In sm (piece_moves (abs_state p) (fz a) (rz a) Rook) <->
  exists b, b < 64 /\ sm = mkM (fz a) (rz a) (fz b) (rz b) None /\ N.testbit (ratt a (occupied p)) b = true /\ ub p b = false.
Proof. unfold piece_moves. cbv zeta. rewrite (s_turn_white p Ht), (s_board_white p). exact (rook_char a sm). Qed.
Lemma piece_queen a sm : a < 64 ->
  In sm (piece_moves (abs_state p) (fz a) (rz a) Queen) <->
  exists b, b < 64 /\ sm = mkM (fz a) (rz a) (fz b) (rz b) None /\ N.testbit (qatt a (occupied p)) b = true /\ ub p b = false.
Proof. unfold piece_moves. cbv zeta. rewrite (s_turn_white p Ht), (s_board_white p). exact (queen_char a sm). Qed.
(* for the king only the step part of the list; the castling part is left to its own file *)
Lemma piece_king_steps a sm : a < 64 ->
  (exists b, b < 64 /\ sm = mkM (fz a) (rz a) (fz b) (rz b) None /\ N.testbit (adjacent (bit a)) b = true /\ ub p b = false) ->
  In sm (piece_moves (abs_state p) (fz a) (rz a) King).
Proof.
  intros Ha H. unfold piece_moves. cbv zeta. rewrite (s_turn_white p Ht), (s_board_white p).
  apply in_or_app. left. apply (king_step_char a sm Ha). exact H.
Qed.

Lemma dec_plain a b : dec p (mkMv a b NOPIECE) = mkM (fz a) (rz a) (fz b) (rz b) None.
Proof. rewrite (dec_white p Ht). reflexivity. Qed.

(* ---------------------------------------------------------------- P3: the generator's blocks are in the rules' list *)
(* one generated piece move: a sane move of our man of kind k whose target lies in the rules' list for that kind *)
Lemma sane_pseudo k from to :
  sane p (mkMv from to NOPIECE) k ->
  (from < 64 -> to < 64 -> ub p to = false ->
   In (mkM (fz from) (rz from) (fz to) (rz to) None) (piece_moves (abs_state p) (fz from) (rz from) (kind_of_N k))) ->
  In (dec p (mkMv from to NOPIECE)) (pseudo_moves (abs_state p)).
Proof.
  intros S H. pose proof (sn_from _ _ _ S) as Hf. pose proof (sn_to _ _ _ S) as Hto. pose proof (sane_not_ours _ _ S) as Hu.
  pose proof (sn_mover _ _ _ S) as Hm. cbn [m_from m_to] in Hf, Hto, Hu, Hm.
  rewrite dec_plain. apply (pseudo_white p Ht from k _ Hf Hm). exact (H Hf Hto Hu).
Qed.

Theorem knights_pseudo g : In g (blk_knights p) -> In (dec p (gen_mv g)) (pseudo_moves (abs_state p)).
Proof.
  intros Hg. pose proof (knight_block p G g Hg) as (S & _).
  unfold blk_knights in Hg. apply in_flat_map in Hg. destruct Hg as (from & _ & Hg).
  apply in_map_iff in Hg. destruct Hg as (to & <- & Hto). cbn [gen_mv gk fst] in S |- *.
  apply bits_spec in Hto. rewrite N.land_spec in Hto. apply andb_true_iff in Hto. destruct Hto as [Hkn _].
  apply (sane_pseudo KNIGHT from to S). intros Hf Ht64 Hu. change (kind_of_N KNIGHT) with Knight.
  apply (piece_knight from _ Hf). exists to. split; [exact Ht64|split; [reflexivity|split; [exact Hkn|exact Hu]]].
Qed.

(* sliders: any block `slider_moves k att …` whose attack function stays inside the walk of the rules' direction list of kind k *)
Lemma sliders_pseudo k att Y targets g :
  k <= 5 -> k <> PAWN ->
  (forall s, N.testbit targets s = true -> N.testbit (gi_allowed (gen_info p)) s = true) ->
  (forall a b, a < 64 -> b < 64 -> ub p b = false -> N.testbit (att a (occupied p)) b = true ->
     In (mkM (fz a) (rz a) (fz b) (rz b) None) (piece_moves (abs_state p) (fz a) (rz a) (kind_of_N k))) ->
  In g (slider_moves k att p (N.land (N.land (get_piece p k) (c_us p)) Y) targets) ->
  In (dec p (gen_mv g)) (pseudo_moves (abs_state p)).
Proof.
  intros Hk Hn Hsub Hatt Hg. pose proof (slider_block p G k att Y targets g Hk Hn Hsub Hg) as (S & _).
  destruct (slider_shape p _ _ _ _ _ Hg) as (from & to & -> & _ & Hbit). cbn [gen_mv gk fst] in S |- *.
  apply (sane_pseudo k from to S). intros Hf Ht64 Hu. exact (Hatt from to Hf Ht64 Hu Hbit).
Qed.

Lemma land_l_sub a b s : N.testbit (N.land a b) s = true -> N.testbit a s = true.
Proof. rewrite N.land_spec. intros H. apply andb_true_iff in H. exact (proj1 H). Qed.

Lemma batt_in_queen a b : a < 64 -> N.testbit (batt a (occupied p)) b = true -> N.testbit (qatt a (occupied p)) b = true.
Proof. intros _ H. unfold qatt. rewrite N.lor_spec, H. reflexivity. Qed.
Lemma ratt_in_queen a b : a < 64 -> N.testbit (ratt a (occupied p)) b = true -> N.testbit (qatt a (occupied p)) b = true.
Proof. intros _ H. unfold qatt. rewrite N.lor_spec, H. apply orb_true_r. Qed.

Theorem bishops_pinned_pseudo g :
  In g (slider_moves BISHOP batt p (N.land (N.land (bishops p) (c_us p)) (gi_bpinned (gen_info p)))
                     (N.land (gi_allowed (gen_info p)) (gi_bxrays (gen_info p)))) ->
  In (dec p (gen_mv g)) (pseudo_moves (abs_state p)).
Proof.
  change (bishops p) with (get_piece p BISHOP). apply sliders_pseudo; try (unfold BISHOP, PAWN; lia).
  - intros s. apply land_l_sub.
  - intros a b Ha Hb Hu H. change (kind_of_N BISHOP) with Bishop. apply (piece_bishop a _ Ha).
    exists b. split; [exact Hb|split; [reflexivity|split; [exact H|exact Hu]]].
Qed.
Theorem bishops_free_pseudo g :
  In g (slider_moves BISHOP batt p (N.land (N.land (bishops p) (c_us p)) (bnot (gi_pinned (gen_info p)))) (gi_allowed (gen_info p))) ->
  In (dec p (gen_mv g)) (pseudo_moves (abs_state p)).
Proof.
  change (bishops p) with (get_piece p BISHOP). apply sliders_pseudo; try (unfold BISHOP, PAWN; lia).
  - intros s H. exact H.
  - intros a b Ha Hb Hu H. change (kind_of_N BISHOP) with Bishop. apply (piece_bishop a _ Ha).
    exists b. split; [exact Hb|split; [reflexivity|split; [exact H|exact Hu]]].
Qed.
Theorem rooks_pinned_pseudo g :
  In g (slider_moves ROOK ratt p (N.land (N.land (rooks p) (c_us p)) (gi_rpinned (gen_info p)))
                     (N.land (gi_allowed (gen_info p)) (gi_rxrays (gen_info p)))) ->
  In (dec p (gen_mv g)) (pseudo_moves (abs_state p)).
Proof.
  change (rooks p) with (get_piece p ROOK). apply sliders_pseudo; try (unfold ROOK, PAWN; lia).
  - intros s. apply land_l_sub.
  - intros a b Ha Hb Hu H. change (kind_of_N ROOK) with Rook. apply (piece_rook a _ Ha).
    exists b. split; [exact Hb|split; [reflexivity|split; [exact H|exact Hu]]].
Qed.
Theorem rooks_free_pseudo g :
  In g (slider_moves ROOK ratt p (N.land (N.land (rooks p) (c_us p)) (bnot (gi_pinned (gen_info p)))) (gi_allowed (gen_info p))) ->
  In (dec p (gen_mv g)) (pseudo_moves (abs_state p)).
Proof.
  change (rooks p) with (get_piece p ROOK). apply sliders_pseudo; try (unfold ROOK, PAWN; lia).
  - intros s H. exact H.
  - intros a b Ha Hb Hu H. change (kind_of_N ROOK) with Rook. apply (piece_rook a _ Ha).
    exists b. split; [exact Hb|split; [reflexivity|split; [exact H|exact Hu]]].
Qed.
Theorem queens_bpinned_pseudo g :
  In g (slider_moves QUEEN batt p (N.land (N.land (queens p) (c_us p)) (gi_bpinned (gen_info p)))
                     (N.land (gi_allowed (gen_info p)) (gi_bxrays (gen_info p)))) ->
  In (dec p (gen_mv g)) (pseudo_moves (abs_state p)).
Proof.
  change (queens p) with (get_piece p QUEEN). apply sliders_pseudo; try (unfold QUEEN, PAWN; lia).
  - intros s. apply land_l_sub.
  - intros a b Ha Hb Hu H. change (kind_of_N QUEEN) with Queen. apply (piece_queen a _ Ha).
    exists b. split; [exact Hb|split; [reflexivity|split; [exact (batt_in_queen a b Ha H)|exact Hu]]].
Qed.
Theorem queens_rpinned_pseudo g :
  In g (slider_moves QUEEN ratt p (N.land (N.land (queens p) (c_us p)) (gi_rpinned (gen_info p)))
                     (N.land (gi_allowed (gen_info p)) (gi_rxrays (gen_info p)))) ->
  In (dec p (gen_mv g)) (pseudo_moves (abs_state p)).
Proof.
  change (queens p) with (get_piece p QUEEN). apply sliders_pseudo; try (unfold QUEEN, PAWN; lia).
  - intros s. apply land_l_sub.
  - intros a b Ha Hb Hu H. change (kind_of_N QUEEN) with Queen. apply (piece_queen a _ Ha).
    exists b. split; [exact Hb|split; [reflexivity|split; [exact (ratt_in_queen a b Ha H)|exact Hu]]].
Qed.
Theorem queens_free_pseudo g :
  In g (slider_moves QUEEN qatt p (N.land (N.land (queens p) (c_us p)) (bnot (gi_pinned (gen_info p)))) (gi_allowed (gen_info p))) ->
  In (dec p (gen_mv g)) (pseudo_moves (abs_state p)).
Proof.
  change (queens p) with (get_piece p QUEEN). apply sliders_pseudo; try (unfold QUEEN, PAWN; lia).
  - intros s H. exact H.
  - intros a b Ha Hb Hu H. change (kind_of_N QUEEN) with Queen. apply (piece_queen a _ Ha).
    exists b. split; [exact Hb|split; [reflexivity|split; [exact H|exact Hu]]].
Qed.

Theorem king_steps_pseudo g : In g (king_steps p) -> In (dec p (gen_mv g)) (pseudo_moves (abs_state p)).
Proof.
  intros Hg. pose proof (king_block p G g Hg) as (S & _).
  unfold king_steps in Hg. apply in_flat_map in Hg. destruct Hg as (from & _ & Hg).
  apply in_flat_map in Hg. destruct Hg as (to & Hto & Hg).
  match type of Hg with In _ (if ?c then _ else _) => destruct c; [|contradiction] end.
  destruct Hg as [<-|[]]. cbn [gen_mv gk fst] in S |- *.
  apply bits_spec in Hto. apply land_l_sub in Hto.
  apply (sane_pseudo KING from to S). intros Hf Ht64 Hu. change (kind_of_N KING) with King.
  apply (piece_king_steps from _ Hf). exists to. split; [exact Ht64|split; [reflexivity|split; [exact Hto|exact Hu]]].
Qed.

(* ---------------------------------------------------------------- P4: what the rules list for our man is a model move *)
Theorem knight_rules_move a sm : a < 64 -> In sm (piece_moves (abs_state p) (fz a) (rz a) Knight) ->
  exists b, b < 64 /\ sm = dec p (mkMv a b NOPIECE) /\ N.testbit (knights_bb (bit a)) b = true /\ ub p b = false.
Proof.
  intros Ha H. apply (piece_knight a sm Ha) in H. destruct H as (b & Hb & E & Hbit & Hu).
  exists b. rewrite dec_plain. split; [exact Hb|split; [exact E|split; [exact Hbit|exact Hu]]].
Qed.
Theorem bishop_rules_move a sm : a < 64 -> In sm (piece_moves (abs_state p) (fz a) (rz a) Bishop) ->
  exists b, b < 64 /\ sm = dec p (mkMv a b NOPIECE) /\ N.testbit (batt a (occupied p)) b = true /\ ub p b = false.
Proof.
  intros Ha H. apply (piece_bishop a sm Ha) in H. destruct H as (b & Hb & E & Hbit & Hu).
  exists b. rewrite dec_plain. split; [exact Hb|split; [exact E|split; [exact Hbit|exact Hu]]].
Qed.
Theorem rook_rules_move a sm : a < 64 -> In sm (piece_moves (abs_state p) (fz a) (rz a) Rook) ->
  exists b, b < 64 /\ sm = dec p (mkMv a b NOPIECE) /\ N.testbit (ratt a (occupied p)) b = true /\ ub p b = false.
Proof.
  intros Ha H. apply (piece_rook a sm Ha) in H. destruct H as (b & Hb & E & Hbit & Hu).
  exists b. rewrite dec_plain. split; [exact Hb|split; [exact E|split; [exact Hbit|exact Hu]]].
Qed.
Theorem queen_rules_move a sm : a < 64 -> In sm (piece_moves (abs_state p) (fz a) (rz a) Queen) ->
  exists b, b < 64 /\ sm = dec p (mkMv a b NOPIECE) /\ N.testbit (qatt a (occupied p)) b = true /\ ub p b = false.
Proof.
  intros Ha H. apply (piece_queen a sm Ha) in H. destruct H as (b & Hb & E & Hbit & Hu).
  exists b. rewrite dec_plain. split; [exact Hb|split; [exact E|split; [exact Hbit|exact Hu]]].
Qed.
Theorem king_step_rules_move a sm : a < 64 -> In sm (step_moves (board_of p) White (fz a) (rz a) king_d) ->
  exists b, b < 64 /\ sm = dec p (mkMv a b NOPIECE) /\ N.testbit (adjacent (bit a)) b = true /\ ub p b = false.
Proof.
  intros Ha H. apply (king_step_char a sm Ha) in H. destruct H as (b & Hb & E & Hbit & Hu).
  exists b. rewrite dec_plain. split; [exact Hb|split; [exact E|split; [exact Hbit|exact Hu]]].
Qed.
(* the king's list of the rules splits into steps and castling moves *)
Lemma piece_king_split a sm : In sm (piece_moves (abs_state p) (fz a) (rz a) King) ->
  In sm (step_moves (board_of p) White (fz a) (rz a) king_d) \/
  In sm (if (rz a =? home White)%Z
         then castle_moves (abs_state p) (fz a) (kright (abs_state p) White) true ++ castle_moves (abs_state p) (fz a) (qright (abs_state p) White) false
         else []).
Proof.
  unfold piece_moves. cbv zeta. rewrite (s_turn_white p Ht), (s_board_white p). intros H. apply in_app_or in H. exact H.
Qed.
End Pieces.

About step_moves_char. About king_step_char. About slide_char. About slide_walk.
About knights_pseudo. About king_steps_pseudo. About queens_free_pseudo. About sliders_pseudo. About knight_rules_move.
Print Assumptions knights_pseudo.
Print Assumptions bishops_pinned_pseudo.
Print Assumptions bishops_free_pseudo.
Print Assumptions rooks_pinned_pseudo.
Print Assumptions rooks_free_pseudo.
Print Assumptions queens_bpinned_pseudo.
Print Assumptions queens_rpinned_pseudo.
Print Assumptions queens_free_pseudo.
Print Assumptions king_steps_pseudo.
Print Assumptions queen_rules_move.
Print Assumptions king_step_rules_move.
