(* C11 at the root: if every legal move of the root position leads to a position that is drawn by rule (half-move
   clock >= 100, or the successor's key already occurs among the positions of the same side to move inside its
   look-back window of the game history), a search started on a table that holds nothing but (possibly) entries of
   the root position itself reports - DRAW_SCORE at every iteration of depth two or more, for every stop predicate
   and every fuel; and it still answers with a legal move.

   How the model behaves (model/Search.v), as used below:
   * the root pushes the SUCCESSOR's key: a child np = makemove true p m is entered with history  hash np :: hist
     (hist = the history handed to `root`, most recent first, in the engine: hash p :: earlier positions), and tests
     2 <= count_rep (Z.to_nat (halfmoves np + 1)) (hash np :: hist) (hash np) true   (itself + one earlier occurrence);
   * the order of the tests in a child is: table probe (nm_probe), horizon (depth <= 0 -> quiescence, NO draw test),
     stop flag (returns 0, NOT the draw score), rule draws (returns DRAW_SCORE), ...; all of them return before anything
     is stored, so during the whole search the table only ever receives the root's own entries;
   * at the root (never cut off by the table, never null-move pruned, no draw return) the late-move reduction is 1 only
     when depth >= 3, so in iteration d >= 2 every child is searched with depth >= 1: no child drops into quiescence;
   * a child that is interrupted answers 0, which the root sees as score 0 < - DRAW_SCORE = 50.  An iteration is reported
     only if the stop predicate is false on the final statistics; those are the statistics the LAST child was tested
     with, except for the best move.  Hence either the best move is the one of the previous iteration (then the last child
     was not interrupted and scored 50), or it is not -- but the previous best move is the table move and is sorted first,
     so a different best move has a strictly better score than 0, i.e. 50.  This is why no premise on the stop predicate
     is needed. *)
From Coq Require Import NArith ZArith List Bool Lia Permutation FMapPositive.
From Rawr Require Import Consts Bits Magic Position MoveGen MakeMove Eval TT Search
                         EpRetro TTFacts SearchFacts SearchFacts2 SearchBound.
From Rawr Require GenLegal.
Import ListNotations.
Local Open Scope Z_scope.

(* ------------------------------------------------------------------ small helpers *)
(* what nm_body does to the state before anything else: the selective depth is raised to the ply *)
Definition upd (s : SS) (ply : Z) : SS :=
  with_stats s (set_seld (ss_stats s) (Z.max (st_seldepth (ss_stats s)) ply)).

Lemma upd_idem s ply : upd (upd s ply) ply = upd s ply.
Proof.
  unfold upd, with_stats, set_seld. cbn [ss_hist ss_tt ss_stats st_depth st_seldepth st_nodes st_best].
  rewrite <- Z.max_assoc, Z.max_id. reflexivity.
Qed.

Lemma set_best_same st m : st_best st = Some m -> set_best st (Some m) = st.
Proof. destruct st as [d sd n b]. unfold set_best. cbn. intros ->. reflexivity. Qed.

Lemma mv_eta m : mkMv (m_from m) (m_to m) (m_promo m) = m.
Proof. destruct m. reflexivity. Qed.

Lemma mv_eqb_refl m : mv_eqb m m = true.
Proof. unfold mv_eqb. rewrite !N.eqb_refl. reflexivity. Qed.
Lemma mv_eqb_eq a b : mv_eqb a b = true -> a = b.
Proof.
  unfold mv_eqb. intros H. apply andb_true_iff in H. destruct H as [H E3]. apply andb_true_iff in H. destruct H as [E1 E2].
  apply N.eqb_eq in E1, E2, E3. destruct a, b. cbn in *. subst. reflexivity.
Qed.

(* quiescence never touches the recorded best move *)
Lemma q_loop_best rec p beta ply
  (Hrec : forall c st a b pl v st', rec c st a b pl = Some (v, st') -> st_best st' = st_best st) :
  forall ms st alpha best v st', q_loop rec p beta ply ms st alpha best = Some (v, st') -> st_best st' = st_best st.
Proof.
  induction ms as [|m ms IH]; intros st alpha best v st' H; cbn [q_loop] in H.
  - apply some_pair_snd in H. rewrite <- H. reflexivity.
  - destruct (rec (makemove false p m) (bump_nodes st) (- beta) (- alpha) (ply + 1)) as [[vc stc]|] eqn:E; [|discriminate].
    apply Hrec in E. cbn zeta in H.
    destruct (beta <=? _) in H.
    + apply some_pair_snd in H. rewrite <- H. rewrite E. reflexivity.
    + apply IH in H. rewrite H, E. reflexivity.
Qed.

Lemma qsearch_best : forall fuel p st a b ply v st', qsearch fuel p st a b ply = Some (v, st') -> st_best st' = st_best st.
Proof.
  induction fuel as [|f IH]; intros p st a b ply v st' H; [discriminate|].
  cbn [qsearch] in H. destruct (b <=? eval p).
  - apply some_pair_snd in H. rewrite <- H. reflexivity.
  - apply (q_loop_best (qsearch f) p b ply IH) in H. rewrite H. reflexivity.
Qed.

(* ------------------------------------------------------------------ the move ordering puts the table move first *)
Lemma find_best_spec (d : Z * Mv) : forall l i best acc,
  match find_best l i best acc with
  | None => acc = None /\ forall x, In x l -> fst x <= best
  | Some k => (acc = Some k /\ forall x, In x l -> fst x <= best)
              \/ ((i <= k < i + length l)%nat /\ best < fst (nth (k - i) l d)
                  /\ forall x, In x l -> fst x <= fst (nth (k - i) l d))
  end.
Proof.
  induction l as [|x t IH]; intros i best acc; cbn [find_best].
  - destruct acc as [k|]; [left|]; (split; [reflexivity|intros x []]).
  - destruct (Z.ltb_spec best (fst x)) as [Hlt|Hge].
    + specialize (IH (S i) (fst x) (Some i)). destruct (find_best t (S i) (fst x) (Some i)) as [k|].
      * right. destruct IH as [(E & Hall)|(Hk & Hb & Hall)].
        -- injection E as <-. rewrite Nat.sub_diag. cbn [nth length]. split; [lia|]. split; [exact Hlt|].
           intros y [<-|Hy]; [lia|exact (Hall y Hy)].
        -- assert (Ek : (k - i = S (k - S i))%nat) by lia. rewrite Ek. cbn [nth length]. split; [lia|]. split; [lia|].
           intros y [<-|Hy]; [lia|exact (Hall y Hy)].
      * destruct IH as [E _]. discriminate.
    + specialize (IH (S i) best acc). destruct (find_best t (S i) best acc) as [k|].
      * destruct IH as [(E & Hall)|(Hk & Hb & Hall)].
        -- left. split; [exact E|]. intros y [<-|Hy]; [exact Hge|exact (Hall y Hy)].
        -- right. assert (Ek : (k - i = S (k - S i))%nat) by lia. rewrite Ek. cbn [nth length]. split; [lia|]. split; [exact Hb|].
           intros y [<-|Hy]; [lia|exact (Hall y Hy)].
      * destruct IH as [E Hall]. split; [exact E|]. intros y [<-|Hy]; [exact Hge|exact (Hall y Hy)].
Qed.

Lemma sel_sort_head n x rest : exists y tl,
  sel_sort (S n) (x :: rest) = y :: tl /\ In y (x :: rest) /\ forall z, In z (x :: rest) -> fst z <= fst y.
Proof.
  cbn [sel_sort]. pose proof (find_best_spec x rest 0%nat (fst x) None) as H.
  destruct (find_best rest 0 (fst x) None) as [k|].
  - destruct H as [(E & _)|(Hk & Hb & Hall)]; [discriminate|]. rewrite Nat.sub_0_r in Hb, Hall.
    exists (nth k rest x), (sel_sort n (replace_nth k x rest)). split; [reflexivity|]. split.
    + right. apply nth_In. lia.
    + intros z [<-|Hz]; [lia|exact (Hall z Hz)].
  - destruct H as [_ Hall]. exists x, (sel_sort n rest). split; [reflexivity|]. split; [left; reflexivity|].
    intros z [<-|Hz]; [lia|exact (Hall z Hz)].
Qed.

Lemma order_value_range c : 0 <= nthN ORDER_VALUES_NEGAMAX c 0 <= 900.
Proof.
  unfold nthN, ORDER_VALUES_NEGAMAX. destruct (N.to_nat c) as [|[|[|[|[|[|n]]]]]]; cbn [nth]; try lia.
  destruct n; cbn [nth]; lia.
Qed.

Lemma order_score_small p m : order_score ORDER_VALUES_NEGAMAX p m < TTMOVE_BONUS.
Proof.
  unfold order_score, TTMOVE_BONUS. destruct (piece_on p (m_to m)) as [c|]; [|lia].
  pose proof (order_value_range c) as H1.
  pose proof (order_value_range (match piece_on p (m_from m) with Some x => x | None => 0%N end)) as H2. lia.
Qed.

Lemma sort_n_head p ms t : In t ms -> exists rest, sort_n p ms (Some t) = t :: rest.
Proof.
  intros Hin. unfold sort_n.
  set (f := fun m : Mv => (if mv_eqb t m then TTMOVE_BONUS else order_score ORDER_VALUES_NEGAMAX p m, m)).
  destruct ms as [|m0 ms']; [destruct Hin|].
  cbn [length map]. destruct (sel_sort_head (length ms') (f m0) (map f ms')) as (y & tl & E & Hy & Hmax).
  rewrite E. cbn [map]. exists (map snd tl). f_equal.
  change (f m0 :: map f ms') with (map f (m0 :: ms')) in Hy, Hmax.
  apply in_map_iff in Hy. destruct Hy as (m' & <- & Hm').
  specialize (Hmax (f t) (in_map f _ _ Hin)). unfold f in Hmax |- *. cbn [fst snd] in Hmax |- *.
  rewrite mv_eqb_refl in Hmax. destruct (mv_eqb t m') eqn:Eq.
  - symmetry. apply mv_eqb_eq. exact Eq.
  - pose proof (order_score_small p m'). lia.
Qed.

(* ------------------------------------------------------------------ a rule-drawn node that is not the root *)
Definition rule_drawn_at (q : Position) (h : list N) : Prop :=
  100 <= halfmoves q \/ 2 <= count_rep (Z.to_nat (halfmoves q + 1)) h (hash q) true.

Section Node.
Variable stopf : Stats -> bool.

(* after the table probe: quiescence at the horizon, otherwise 0 when interrupted, otherwise the draw score *)
Lemma prune_drawn rec qrec q s ao al be ply d ic pv cn ttm v s' :
  rule_drawn_at q (ss_hist s) ->
  nm_prune stopf rec qrec q s ao al be ply d ic false pv cn ttm = Some (v, s') ->
  (d <= 0 /\ exists st, qrec q (ss_stats s) al be ply = Some (v, st) /\ s' = with_stats s st)
  \/ (0 < d /\ s' = s /\ v = if stopf (ss_stats s) then 0 else DRAW_SCORE).
Proof.
  intros Hdr H. destruct (Z_le_gt_dec d 0) as [Hd|Hd].
  - left. split; [exact Hd|]. unfold nm_prune in H. destruct (Z.leb_spec d 0); [|lia].
    destruct (qrec q (ss_stats s) al be ply) as [[v0 st]|]; [|discriminate].
    destruct (some_pair_inv _ _ _ _ H) as [<- <-]. exists st. split; reflexivity.
  - right. split; [lia|]. destruct (stopf (ss_stats s)) eqn:Es.
    + unfold nm_prune in H. destruct (Z.leb_spec d 0); [lia|]. rewrite Es in H. cbn [andb negb] in H.
      destruct (some_pair_inv _ _ _ _ H) as [<- <-]. split; reflexivity.
    + destruct Hdr as [Hc|Hr].
      * rewrite (draw_by_clock stopf rec qrec q s ao al be ply d ic pv cn ttm ltac:(lia) Es Hc) in H.
        destruct (some_pair_inv _ _ _ _ H) as [<- <-]. split; reflexivity.
      * rewrite (draw_by_repetition stopf rec qrec q s ao al be ply d ic pv cn ttm ltac:(lia) Es Hr) in H.
        destruct (some_pair_inv _ _ _ _ H) as [<- <-]. split; reflexivity.
Qed.

(* a whole non-root node whose position is drawn by rule, on a table holding nothing usable for its key: the table,
   the history and the recorded best move are untouched; with positive depth the answer is 0 / DRAW_SCORE *)
Lemma drawn_child f q s a b ply dc cn v s' :
  ply <> 0 ->
  (forall e, tt_poll (ss_tt s) (hash q) = Some e -> e_depth e <= 0 \/ e_hash e <> hash q) ->
  rule_drawn_at q (ss_hist s) ->
  negamax stopf (S f) q s a b ply dc cn = Some (v, s') ->
  ss_tt s' = ss_tt s /\ ss_hist s' = ss_hist s /\ st_best (ss_stats s') = st_best (ss_stats s) /\
  (1 <= dc -> s' = upd s ply /\ v = if stopf (ss_stats (upd s ply)) then 0 else DRAW_SCORE).
Proof.
  intros Hply Hpoll Hdr H. cbn [negamax] in H. unfold nm_body in H. cbv zeta in H.
  fold (upd s ply) in H.
  match type of H with match ?x with _ => _ end = _ => destruct x as [tte|] eqn:Epoll; [|discriminate] end.
  change (ss_tt (upd s ply)) with (ss_tt s) in Epoll.
  assert (Hcut : forall x y z, 1 <= dc ->
    (e_hash tte =? hash q)%N && ((if in_check q then dc + 1 else dc) <=? e_depth tte) && x && y && z = true -> False).
  { intros x y z Hdc E. apply andb_true_iff in E. destruct E as [E _]. apply andb_true_iff in E. destruct E as [E _].
    apply andb_true_iff in E. destruct E as [E _]. apply andb_true_iff in E. destruct E as [Eh Ed].
    apply N.eqb_eq in Eh. apply Z.leb_le in Ed.
    destruct (Hpoll tte Epoll) as [X|X]; [destruct (in_check q); lia|contradiction]. }
  unfold nm_probe in H. cbv zeta in H.
  match type of H with (if ?c then _ else _) = _ => destruct c eqn:Ec1 end.
  { destruct (some_pair_inv _ _ _ _ H) as [_ <-]. split; [reflexivity|]. split; [reflexivity|]. split; [reflexivity|].
    intros Hdc. exfalso. exact (Hcut _ _ _ Hdc Ec1). }
  match type of H with (if ?c then _ else _) = _ => destruct c eqn:Ec2 end.
  { destruct (some_pair_inv _ _ _ _ H) as [_ <-]. split; [reflexivity|]. split; [reflexivity|]. split; [reflexivity|].
    intros Hdc. exfalso. exact (Hcut _ _ _ Hdc Ec2). }
  rewrite (proj2 (Z.eqb_neq ply 0) Hply) in H.
  apply prune_drawn in H; [|exact Hdr].
  destruct H as [(Hd & st & Hq & ->)|(Hd & -> & ->)].
  - split; [reflexivity|]. split; [reflexivity|]. split.
    + apply qsearch_best in Hq. cbn [ss_stats with_stats]. rewrite Hq. reflexivity.
    + intros Hdc. exfalso. destruct (in_check q); lia.
  - split; [reflexivity|]. split; [reflexivity|]. split; [reflexivity|]. intros _. split; reflexivity.
Qed.
End Node.

(* ------------------------------------------------------------------ the root *)
(* as the child sees it: its own key is pushed on top of the game history *)
Definition rule_drawn (q : Position) (hist : list N) : Prop := rule_drawn_at q (hash q :: hist).

(* no successor of the root has the root's own key *)
Definition no_clash (p : Position) : Prop := forall m, In m (legal_moves p) -> hash (makemove true p m) <> hash p.

(* every slot holds the default entry *)
Definition table_empty (t : TTable) : Prop := forall i, slot TTEntry tt_default t i = tt_default.

(* weaker: every entry of positive depth is keyed by the root position *)
Definition only_root (p : Position) (t : TTable) : Prop :=
  forall i, e_depth (slot TTEntry tt_default t i) <= 0 \/ e_hash (slot TTEntry tt_default t i) = hash p.

(* the table's entry for the root position carries the move bm *)
Definition root_entry (p : Position) (t : TTable) (bm : Mv) : Prop :=
  exists e, tt_poll t (hash p) = Some e /\ e_hash e = hash p /\ mkMv (e_from e) (e_to e) (e_promo e) = bm.

Lemma table_empty_only_root p t : table_empty t -> only_root p t.
Proof. intros H i. left. rewrite (H i). cbn. lia. Qed.
Lemma table_empty_TBnd t : table_empty t -> TBnd t.
Proof. intros H i. rewrite (H i). exact default_score. Qed.
Lemma table_empty_clear t : table_empty (tt_clear t).
Proof. intros i. exact (proj1 (clear_empties TTEntry tt_default t i)). Qed.
Lemma table_empty_empty : table_empty (t_new_empty TTEntry).
Proof. intros i. unfold slot, t_new_empty. cbn [t_map]. rewrite PositiveMap.gempty. reflexivity. Qed.
Lemma table_empty_new mb : table_empty (tt_new mb).
Proof.
  intros i. unfold tt_new, t_new.
  destruct (resize_keeps_provenance TTEntry tt_default TTENTRY_BYTES_DEFAULT (t_new_empty TTEntry) mb i) as [E|(_ & E)]; rewrite E;
    [reflexivity|exact (table_empty_empty i)].
Qed.

Section Root.
Variable stopf : Stats -> bool.
Variable p : Position.
Variable hist : list N.
Hypothesis Hdrawn : forall m, In m (legal_moves p) -> rule_drawn (makemove true p m) hist.
Hypothesis Hnc : no_clash p.

Lemma child_at_root f m s a b dc cn v s' :
  In m (legal_moves p) -> only_root p (ss_tt s) -> ss_hist s = hash (makemove true p m) :: hist ->
  negamax stopf f (makemove true p m) s a b 1 dc cn = Some (v, s') ->
  ss_tt s' = ss_tt s /\ ss_hist s' = ss_hist s /\ st_best (ss_stats s') = st_best (ss_stats s) /\
  (1 <= dc -> s' = upd s 1 /\ v = if stopf (ss_stats (upd s 1)) then 0 else DRAW_SCORE).
Proof.
  intros Hm Hor Hh H. destruct f as [|f]; [discriminate|].
  apply (drawn_child stopf f) in H; [exact H|lia| |].
  - intros e He. unfold tt_poll, t_poll in He. destruct (get_idx TTEntry (ss_tt s) (hash (makemove true p m))) as [i|]; [|discriminate].
    injection He as <-. destruct (Hor i) as [X|X]; [left; exact X|right]. rewrite X. intros E. exact (Hnc m Hm (eq_sym E)).
  - rewrite Hh. exact (Hdrawn m Hm).
Qed.

(* one move of the root, including the zero-window search and the re-search *)
Lemma search_move_root f in_chk beta depth idx m s alpha score s' :
  In m (legal_moves p) -> only_root p (ss_tt s) -> ss_hist s = hash (makemove true p m) :: hist ->
  search_move (negamax stopf f) p in_chk beta 0 depth idx m (makemove true p m) s alpha = Some (score, s') ->
  ss_tt s' = ss_tt s /\ ss_hist s' = ss_hist s /\ st_best (ss_stats s') = st_best (ss_stats s) /\
  (2 <= depth -> s' = upd s 1 /\ score = - (if stopf (ss_stats (upd s 1)) then 0 else DRAW_SCORE)).
Proof.
  intros Hm Hor Hh H. unfold search_move in H. change (0 + 1) with 1 in H. destruct (idx =? 0).
  - match type of H with match ?x with _ => _ end = _ => destruct x as [[v1 s1]|] eqn:E1; [|discriminate] end.
    destruct (some_pair_inv _ _ _ _ H) as [<- <-].
    destruct (child_at_root f m s _ _ _ _ _ _ Hm Hor Hh E1) as (T1 & H1 & B1 & S1).
    split; [exact T1|]. split; [exact H1|]. split; [exact B1|]. intros Hd. destruct (S1 ltac:(lia)) as [-> ->]. split; reflexivity.
  - cbv zeta in H.
    match type of H with context [if ?c then 0 else 1] =>
      assert (Hred : 2 <= depth -> 1 <= depth - 1 - (if c then 0 else 1)) end.
    { intros Hd. match goal with |- context [if ?c then 0 else 1] => destruct c eqn:Er end; [lia|].
      apply orb_false_iff in Er. destruct Er as [Er _]. apply orb_false_iff in Er. destruct Er as [Er _].
      apply orb_false_iff in Er. destruct Er as [Er _]. apply orb_false_iff in Er. destruct Er as [_ Er].
      apply Z.ltb_ge in Er. lia. }
    match type of H with match ?x with _ => _ end = _ => destruct x as [[v1 s1]|] eqn:E1; [|discriminate] end.
    destruct (child_at_root f m s _ _ _ _ _ _ Hm Hor Hh E1) as (T1 & H1 & B1 & S1).
    destruct ((alpha <? - v1) && (- v1 <? beta)).
    + match type of H with match ?x with _ => _ end = _ => destruct x as [[v2 s2]|] eqn:E2; [|discriminate] end.
      destruct (some_pair_inv _ _ _ _ H) as [<- <-].
      assert (Hor1 : only_root p (ss_tt s1)) by (rewrite T1; exact Hor).
      assert (Hh1 : ss_hist s1 = hash (makemove true p m) :: hist) by (rewrite H1; exact Hh).
      destruct (child_at_root f m s1 _ _ _ _ _ _ Hm Hor1 Hh1 E2) as (T2 & H2 & B2 & S2).
      split; [rewrite T2; exact T1|]. split; [rewrite H2; exact H1|]. split; [rewrite B2; exact B1|].
      intros Hd. destruct (S1 (Hred Hd)) as [Es1 _]. destruct (S2 ltac:(lia)) as [-> ->].
      rewrite Es1, upd_idem. split; reflexivity.
    + destruct (some_pair_inv _ _ _ _ H) as [<- <-].
      split; [exact T1|]. split; [exact H1|]. split; [exact B1|].
      intros Hd. destruct (S1 (Hred Hd)) as [-> ->]. split; reflexivity.
Qed.

(* the root's move loop never changes the table, restores the history and keeps the recorded best move *)
Lemma n_loop_root_tt f in_chk beta depth : forall ms idx s alpha best bm r,
  (forall m, In m ms -> In m (legal_moves p)) -> only_root p (ss_tt s) -> ss_hist s = hist ->
  n_loop (negamax stopf f) p in_chk beta 0 depth ms idx s alpha best bm = Some r ->
  ss_tt (snd r) = ss_tt s /\ ss_hist (snd r) = hist /\ st_best (ss_stats (snd r)) = st_best (ss_stats s).
Proof.
  induction ms as [|m ms IH]; intros idx s alpha best bm r Hms Hor Hh H; cbn [n_loop] in H.
  - injection H as <-. cbn [snd]. split; [reflexivity|]. split; [exact Hh|reflexivity].
  - match type of H with match ?x with _ => _ end = _ => destruct x as [[score s1]|] eqn:E; [|discriminate] end.
    apply search_move_root in E; [|apply Hms; left; reflexivity|exact Hor|cbn [ss_hist push_hist bump_nodes_ss with_stats]; rewrite Hh; reflexivity].
    destruct E as (T1 & H1 & B1 & _). cbn [ss_tt ss_hist ss_stats push_hist bump_nodes_ss with_stats set_nodes st_best] in T1, H1, B1.
    cbn zeta in H.
    assert (Tp : ss_tt (pop_hist s1) = ss_tt s) by exact T1.
    assert (Hp : ss_hist (pop_hist s1) = hist) by (unfold pop_hist; cbn [ss_hist]; rewrite H1; cbn [tl]; exact Hh).
    assert (Bp : st_best (ss_stats (pop_hist s1)) = st_best (ss_stats s)) by exact B1.
    assert (Horp : only_root p (ss_tt (pop_hist s1))) by (rewrite Tp; exact Hor).
    destruct (best <? score); destruct (beta <=? _) in H.
    + injection H as <-. cbn [snd]. split; [exact Tp|]. split; [exact Hp|exact Bp].
    + apply IH in H; [|intros x Hx; apply Hms; right; exact Hx|exact Horp|exact Hp].
      destruct H as (A & B & C). split; [rewrite A; exact Tp|]. split; [exact B|rewrite C; exact Bp].
    + injection H as <-. cbn [snd]. split; [exact Tp|]. split; [exact Hp|exact Bp].
    + apply IH in H; [|intros x Hx; apply Hms; right; exact Hx|exact Horp|exact Hp].
      destruct H as (A & B & C). split; [rewrite A; exact Tp|]. split; [exact B|rewrite C; exact Bp].
Qed.

(* the scores: from a state in which alpha = best is 0 or the draw value, and best is the draw value unless the child
   searched last was interrupted, the loop keeps all that; the best move changes only to a move scoring the draw value *)
Lemma n_loop_root_rest f in_chk depth : 2 <= depth -> forall ms idx s alpha best bm r,
  (forall m, In m ms -> In m (legal_moves p)) -> only_root p (ss_tt s) -> ss_hist s = hist ->
  alpha = best -> (best = 0 \/ best = - DRAW_SCORE) -> (stopf (ss_stats s) = false -> best = - DRAW_SCORE) ->
  n_loop (negamax stopf f) p in_chk INF 0 depth ms idx s alpha best bm = Some r ->
  (snd (fst (fst r)) = 0 \/ snd (fst (fst r)) = - DRAW_SCORE) /\ best <= snd (fst (fst r)) /\
  (stopf (ss_stats (snd r)) = false -> snd (fst (fst r)) = - DRAW_SCORE) /\
  (snd (fst r) = bm \/ snd (fst (fst r)) = - DRAW_SCORE).
Proof.
  intros Hd. pose proof (eq_refl : DRAW_SCORE = -50) as HD. pose proof (eq_refl : INF = 10000000) as HI.
  induction ms as [|m ms IH]; intros idx s alpha best bm r Hms Hor Hh Hab Hb Hlast H; cbn [n_loop] in H.
  - injection H as <-. cbn [fst snd]. split; [exact Hb|]. split; [lia|]. split; [exact Hlast|left; reflexivity].
  - match type of H with match ?x with _ => _ end = _ => destruct x as [[score s1]|] eqn:E; [|discriminate] end.
    apply search_move_root in E; [|apply Hms; left; reflexivity|exact Hor|cbn [ss_hist push_hist bump_nodes_ss with_stats]; rewrite Hh; reflexivity].
    destruct E as (T1 & H1 & _ & S1). destruct (S1 Hd) as [E1 E2]. clear S1.
    cbn [ss_tt ss_hist push_hist bump_nodes_ss with_stats] in T1, H1.
    assert (Tp : ss_tt (pop_hist s1) = ss_tt s) by exact T1.
    assert (Hp : ss_hist (pop_hist s1) = hist) by (unfold pop_hist; cbn [ss_hist]; rewrite H1; cbn [tl]; exact Hh).
    assert (Horp : only_root p (ss_tt (pop_hist s1))) by (rewrite Tp; exact Hor).
    assert (Hst : ss_stats (pop_hist s1) = ss_stats s1) by reflexivity.
    rewrite <- E1 in E2. clear E1 T1 H1.
    assert (Hms' : forall x, In x ms -> In x (legal_moves p)) by (intros x Hx; apply Hms; right; exact Hx).
    cbn zeta in H. subst alpha.
    destruct (stopf (ss_stats s1)) eqn:Es.
    + assert (E0 : score = 0) by lia. clear E2. subst score.
      destruct (Z.ltb_spec best 0); [lia|]. destruct (Z.leb_spec INF best); [lia|].
      apply IH in H; [exact H|exact Hms'|exact Horp|exact Hp|reflexivity|exact Hb|].
      rewrite Hst, Es. discriminate.
    + destruct (Z.ltb_spec best score).
      * destruct (Z.leb_spec INF score); [lia|].
        apply IH in H; [|exact Hms'|exact Horp|exact Hp|reflexivity|right; exact E2|intros _; exact E2].
        destruct H as (A & B & C & D). split; [exact A|]. split; [lia|]. split; [exact C|]. right. lia.
      * destruct (Z.leb_spec INF best); [lia|].
        apply IH in H; [exact H|exact Hms'|exact Horp|exact Hp|reflexivity|exact Hb|]. intros _. lia.
Qed.

(* ---- the root node unfolded *)
Definition ttm_of (tte : TTEntry) : option Mv :=
  if (e_hash tte =? hash p)%N then Some (mkMv (e_from tte) (e_to tte) (e_promo tte)) else None.

Lemma root_node f s depth v s1 :
  negamax stopf (S f) p s (- INF) INF 0 depth false = Some (v, s1) -> 1 <= depth ->
  (stopf (ss_stats (upd s 0)) = true /\ s1 = upd s 0)
  \/ exists tte r, tt_poll (ss_tt s) (hash p) = Some tte /\
       n_loop (negamax stopf f) p (in_check p) INF 0 (if in_check p then depth + 1 else depth)
              (sort_n p (legal_moves p) (ttm_of tte)) 0 (upd s 0) (- INF) (- INF) None = Some r /\
       nm_finish p (- INF) INF 0 (if in_check p then depth + 1 else depth) (in_check p)
                 (snd (fst (fst r))) (snd (fst r)) (snd r) = Some (v, s1).
Proof.
  intros H Hd. cbn [negamax] in H. unfold nm_body in H. cbv zeta in H. fold (upd s 0) in H.
  match type of H with match ?x with _ => _ end = _ => destruct x as [tte|] eqn:Epoll; [|discriminate] end.
  change (ss_tt (upd s 0)) with (ss_tt s) in Epoll.
  unfold nm_probe in H. cbv zeta in H. change (0 =? 0) with true in H. rewrite !andb_false_r in H. cbn [andb] in H.
  unfold nm_prune in H.
  set (d' := if in_check p then depth + 1 else depth) in *.
  assert (Hd' : 1 <= d') by (unfold d'; destruct (in_check p); lia).
  destruct (Z.leb_spec d' 0); [lia|].
  match type of H with (if ?c then _ else _) = _ => destruct c eqn:Estop end.
  { left. destruct (some_pair_inv _ _ _ _ H) as [_ <-]. apply andb_true_iff in Estop. destruct Estop as [E1 _].
    split; [exact E1|reflexivity]. }
  cbv zeta in H. rewrite andb_false_r in H.
  change (negb (INF =? - INF + 1)) with true in H. cbn [negb andb] in H.
  right. unfold nm_moves in H. rewrite null_move_root in H.
  match type of H with match ?x with _ => _ end = _ => destruct x as [r|] eqn:El; [|discriminate] end.
  exists tte, r. split; [exact Epoll|]. split; [exact El|exact H].
Qed.

(* the previous iteration's best move is recorded in the statistics and in the root's table entry *)
Definition J (s : SS) : Prop :=
  exists m, st_best (ss_stats s) = Some m /\ In m (legal_moves p) /\ root_entry p (ss_tt s) m.

Lemma finish_some depth' in_chk best bmv s v s1 : only_root p (ss_tt s) -> In bmv (legal_moves p) ->
  nm_finish p (- INF) INF 0 depth' in_chk best (Some bmv) s = Some (v, s1) ->
  v = best /\ only_root p (ss_tt s1) /\ ss_hist s1 = ss_hist s /\ ss_stats s1 = set_best (ss_stats s) (Some bmv) /\ J s1.
Proof.
  intros Hor Hin H. unfold nm_finish in H.
  match type of H with match tt_add ?t ?k ?e with _ => _ end = _ => remember e as ent eqn:Eent; destruct (tt_add t k ent) as [tt'|] eqn:Ea; [|discriminate] end.
  destruct (some_pair_inv _ _ _ _ H) as [<- <-]. cbn [ss_tt ss_hist ss_stats].
  split; [reflexivity|]. split; [|split; [reflexivity|split; [reflexivity|]]].
  - pose proof Ea as Ea'. unfold tt_add, t_add in Ea'. destruct (get_idx TTEntry (ss_tt s) (hash p)) as [i|]; [|discriminate].
    injection Ea' as <-. intros j. rewrite (slot_add TTEntry tt_default (ss_tt s) i ent j).
    destruct (j =? i)%N; [right; rewrite Eent; reflexivity|exact (Hor j)].
  - exists bmv. cbn [ss_tt ss_stats set_best st_best]. split; [reflexivity|]. split; [exact Hin|].
    exists ent. split; [exact (poll_after_add TTEntry tt_default _ _ _ _ Ea)|]. rewrite Eent. cbn [e_hash e_from e_to e_promo].
    split; [reflexivity|apply mv_eta].
Qed.

Lemma sorted_legal ttm : forall m, In m (sort_n p (legal_moves p) ttm) -> In m (legal_moves p).
Proof. intros m Hm. exact (Permutation_in _ (sort_n_perm p (legal_moves p) ttm) Hm). Qed.

(* one iteration, any depth: the table stays "root only", the history is restored, and either the recorded best move is
   the old one (interrupted, or no best move found) or the invariant J holds *)
Lemma root_iter_gen f s depth v s1 : 1 <= depth -> only_root p (ss_tt s) -> ss_hist s = hist ->
  negamax stopf (S f) p s (- INF) INF 0 depth false = Some (v, s1) ->
  only_root p (ss_tt s1) /\ ss_hist s1 = hist /\ (st_best (ss_stats s1) = st_best (ss_stats s) \/ J s1).
Proof.
  intros Hd Hor Hh H. apply root_node in H; [|exact Hd].
  destruct H as [(_ & ->)|(tte & r & Epoll & El & Hf)].
  - split; [exact Hor|]. split; [exact Hh|left; reflexivity].
  - pose proof (n_loop_root_tt f _ _ _ _ _ (upd s 0) _ _ _ r (sorted_legal (ttm_of tte)) Hor Hh El) as (A & B & C).
    pose proof (n_loop_best_in _ _ _ _ _ _ _ _ _ _ _ _ _ El) as Hbm.
    destruct r as [[[a' b'] bm'] sL]. cbn [fst snd] in *.
    assert (HorL : only_root p (ss_tt sL)) by (rewrite A; exact Hor).
    destruct bm' as [bmv|].
    + destruct Hbm as [Hbm|(m & Hm & Hin)]; [discriminate|]. injection Hm as <-.
      apply finish_some in Hf; [|exact HorL|exact (sorted_legal _ _ Hin)].
      destruct Hf as (_ & F1 & F2 & _ & F4). split; [exact F1|]. split; [rewrite F2; exact B|right; exact F4].
    + unfold nm_finish in Hf. destruct (some_pair_inv _ _ _ _ Hf) as [_ <-].
      split; [exact HorL|]. split; [exact B|left; exact C].
Qed.

(* one iteration of depth two or more that ends with the stop predicate false: the score is the draw value *)
Lemma root_iter_score f s depth v s1 : 2 <= depth -> only_root p (ss_tt s) -> ss_hist s = hist -> J s ->
  negamax stopf (S f) p s (- INF) INF 0 depth false = Some (v, s1) ->
  stopf (ss_stats s1) = false -> v = - DRAW_SCORE /\ J s1.
Proof.
  intros Hd Hor Hh (mp & Hbest & Hmp & (e & Ee & Eh & Em)) H Hstop.
  pose proof (eq_refl : DRAW_SCORE = -50) as HD. pose proof (eq_refl : INF = 10000000) as HI.
  apply root_node in H; [|lia].
  destruct H as [(Es & ->)|(tte & r & Epoll & El & Hf)]; [rewrite Es in Hstop; discriminate|].
  rewrite Ee in Epoll. injection Epoll as <-.
  assert (Ettm : ttm_of e = Some mp) by (unfold ttm_of; rewrite Eh, N.eqb_refl, Em; reflexivity).
  pose proof (sorted_legal (ttm_of e)) as Hleg. rewrite Ettm in El, Hleg.
  destruct (sort_n_head p (legal_moves p) mp Hmp) as (rest & Esort). rewrite Esort in El, Hleg.
  set (d' := if in_check p then depth + 1 else depth) in *.
  assert (Hd' : 2 <= d') by (unfold d'; destruct (in_check p); lia).
  pose proof (n_loop_root_tt f _ _ _ _ _ (upd s 0) _ _ _ r Hleg Hor Hh El) as (A & B & C).
  pose proof (n_loop_best_in _ _ _ _ _ _ _ _ _ _ _ _ _ El) as Hbin.
  cbn [n_loop] in El.
  match type of El with match ?x with _ => _ end = _ => destruct x as [[score sx]|] eqn:E; [|discriminate] end.
  apply search_move_root in E; [|exact Hmp|exact Hor|cbn [ss_hist push_hist bump_nodes_ss with_stats upd]; rewrite Hh; reflexivity].
  destruct E as (T1 & H1 & _ & S1). destruct (S1 Hd') as [E1 E2]. clear S1. rewrite <- E1 in E2. clear E1.
  cbn [ss_tt ss_hist push_hist bump_nodes_ss with_stats upd] in T1, H1.
  assert (Tp : ss_tt (pop_hist sx) = ss_tt s) by exact T1.
  assert (Hp : ss_hist (pop_hist sx) = hist) by (unfold pop_hist; cbn [ss_hist]; rewrite H1; cbn [tl]; exact Hh).
  assert (Horp : only_root p (ss_tt (pop_hist sx))) by (rewrite Tp; exact Hor).
  assert (Hst : ss_stats (pop_hist sx) = ss_stats sx) by reflexivity.
  assert (Hsc : score = 0 \/ score = - DRAW_SCORE) by (destruct (stopf (ss_stats sx)); [left|right]; lia).
  assert (Hlast : stopf (ss_stats (pop_hist sx)) = false -> score = - DRAW_SCORE) by (rewrite Hst; intros X; rewrite X in E2; exact E2).
  cbn zeta in El.
  destruct (Z.ltb_spec (- INF) score); [|lia]. destruct (Z.leb_spec INF score); [lia|].
  assert (Hsome : snd (fst r) <> None) by (refine (n_loop_keeps_some (negamax stopf f) p (in_check p) INF 0 d' rest (0 + 1) (pop_hist sx) score score (Some mp) r _ El); discriminate).
  apply (n_loop_root_rest f _ _ Hd') in El; [|intros x Hx; apply Hleg; right; exact Hx|exact Horp|exact Hp|reflexivity|exact Hsc|exact Hlast].
  destruct El as (R1 & R2 & R3 & R4).
  destruct r as [[[a' b'] bm'] sL]. cbn [fst snd] in *.
  destruct bm' as [bmv|]; [|exfalso; apply Hsome; reflexivity].
  assert (Hbmv : In bmv (legal_moves p)).
  { destruct Hbin as [X|(m & Hm & Hin)]; [discriminate|]. injection Hm as <-. exact (Hleg _ Hin). }
  assert (HorL : only_root p (ss_tt sL)) by (rewrite A; exact Hor).
  apply finish_some in Hf; [|exact HorL|exact Hbmv].
  destruct Hf as (-> & _ & _ & F3 & F4). split; [|exact F4].
  rewrite F3 in Hstop.
  destruct R4 as [R4|R4]; [|exact R4]. injection R4 as ->.
  apply R3. rewrite set_best_same in Hstop; [exact Hstop|]. rewrite C. exact Hbest.
Qed.

(* ---- the iterations from depth two on *)
Lemma root_loop_drawn : forall n fuel depth s best infos r,
  2 <= depth -> only_root p (ss_tt s) -> ss_hist s = hist -> J s ->
  (forall i, In i infos -> 2 <= i_depth i -> i_score i = - DRAW_SCORE) ->
  root_loop stopf n fuel p depth s best infos = Some r ->
  forall i, In i (rr_infos r) -> 2 <= i_depth i -> i_score i = - DRAW_SCORE.
Proof.
  induction n as [|n IH]; intros fuel depth s best infos r Hd Hor Hh HJ Hold H; cbn [root_loop] in H.
  - injection H as <-. cbn [rr_infos]. intros i Hi. apply Hold. apply in_rev. exact Hi.
  - destruct (MAX_DEPTH <=? depth).
    { injection H as <-. cbn [rr_infos]. intros i Hi. apply Hold. apply in_rev. exact Hi. }
    cbv zeta in H.
    match type of H with match ?x with _ => _ end = _ => destruct x as [[score s1]|] eqn:E; [|discriminate] end.
    destruct fuel as [|f]; [discriminate|].
    match type of E with negamax _ _ _ ?s0 _ _ _ _ _ = _ =>
      assert (Hor0 : only_root p (ss_tt s0)) by exact Hor;
      assert (Hh0 : ss_hist s0 = hist) by exact Hh;
      assert (HJ0 : J s0) by exact HJ;
      pose proof (root_iter_gen f s0 depth score s1 ltac:(lia) Hor0 Hh0 E) as (G1 & G2 & _);
      pose proof (root_iter_score f s0 depth score s1 Hd Hor0 Hh0 HJ0 E) as HS end.
    destruct (st_best (ss_stats s1)) as [bm|] eqn:Eb.
    + destruct (Z.ltb_spec 1 depth); [|lia]. cbn [andb] in H.
      destruct (stopf (ss_stats s1)) eqn:Es.
      * injection H as <-. cbn [rr_infos]. intros i Hi. apply Hold. apply in_rev. exact Hi.
      * destruct (HS eq_refl) as (-> & HJ1).
        refine (IH _ _ _ _ _ _ _ G1 G2 HJ1 _ H); [lia|].
        intros i [<-|Hi]; [intros _; reflexivity|exact (Hold i Hi)].
    + injection H as <-. cbn [rr_infos]. intros i Hi. apply Hold. apply in_rev. exact Hi.
Qed.

(* the whole search: the first iteration (never interrupted, its children are at the horizon) only has to leave the
   table "root only" and to establish J *)
Theorem root_drawn_scores fuel tt r :
  only_root p tt -> root stopf fuel p hist tt = Some r ->
  forall i, In i (rr_infos r) -> 2 <= i_depth i -> i_score i = - DRAW_SCORE.
Proof.
  intros Hor H. unfold root in H.
  change 128%nat with (S 127) in H. remember 127%nat as n127 eqn:En. clear En. cbn [root_loop] in H.
  change (MAX_DEPTH <=? 1) with false in H. cbv zeta in H. cbv iota in H.
  match type of H with match ?x with _ => _ end = _ => destruct x as [[score s1]|] eqn:E; [|discriminate] end.
  destruct fuel as [|f]; [discriminate|].
  pose proof (negamax_K _ _ _ _ _ _ _ _ _ _ _ E) as [_ Kd]. cbn [ss_stats with_stats st_depth] in Kd.
  apply root_iter_gen in E; [|lia|exact Hor|reflexivity]. destruct E as (G1 & G2 & G3).
  cbn [ss_stats with_stats st_best stats0] in G3.
  destruct (st_best (ss_stats s1)) as [bm|] eqn:Eb.
  - change (1 <? 1) with false in H. cbn [andb] in H.
    destruct G3 as [G3|G3]; [discriminate|].
    refine (root_loop_drawn _ _ _ _ _ _ _ _ G1 G2 G3 _ H); [lia|].
    intros i [<-|[]]. cbn [i_depth]. rewrite Kd. lia.
  - injection H as <-. cbn [rr_infos rev]. intros i [].
Qed.

End Root.

(* ------------------------------------------------------------------ C11, root level *)
Theorem root_all_drawn_scores (stopf : Stats -> bool) fuel p hist tt r :
  only_root p tt ->
  (forall m, In m (legal_moves p) -> rule_drawn (makemove true p m) hist) ->
  no_clash p ->
  root stopf fuel p hist tt = Some r ->
  forall i, In i (rr_infos r) -> 2 <= i_depth i -> i_score i = - DRAW_SCORE.
Proof. intros Hor Hdr Hnc H. exact (root_drawn_scores stopf p hist Hdr Hnc fuel tt r Hor H). Qed.

Theorem root_all_drawn (stopf : Stats -> bool) fuel p hist tt r :
  InvSR p -> Z.of_nat fuel <= 2 * MATE_SCORE -> legal_moves p <> [] ->
  table_empty tt ->
  (forall m, In m (legal_moves p) -> rule_drawn (makemove true p m) hist) ->
  no_clash p ->
  root stopf fuel p hist tt = Some r ->
  (forall i, In i (rr_infos r) -> 2 <= i_depth i -> i_score i = - DRAW_SCORE)
  /\ exists m, rr_best r = Some m /\ In m (legal_moves p).
Proof.
  intros Hp Hf Hne Hte Hdr Hnc H. split.
  - exact (root_all_drawn_scores stopf fuel p hist tt r (table_empty_only_root p tt Hte) Hdr Hnc H).
  - exact (GenLegal.search_answers_with_a_legal_move stopf fuel p hist tt r Hp (table_empty_TBnd tt Hte) Hf Hne H).
Qed.

(* the tables the engine starts from: a new one, a cleared one *)
Corollary root_all_drawn_new (stopf : Stats -> bool) fuel p hist mb r :
  InvSR p -> Z.of_nat fuel <= 2 * MATE_SCORE -> legal_moves p <> [] ->
  (forall m, In m (legal_moves p) -> rule_drawn (makemove true p m) hist) -> no_clash p ->
  root stopf fuel p hist (tt_new mb) = Some r ->
  (forall i, In i (rr_infos r) -> 2 <= i_depth i -> i_score i = - DRAW_SCORE)
  /\ exists m, rr_best r = Some m /\ In m (legal_moves p).
Proof. intros Hp Hf Hne. exact (root_all_drawn stopf fuel p hist (tt_new mb) r Hp Hf Hne (table_empty_new mb)). Qed.

Corollary root_all_drawn_clear (stopf : Stats -> bool) fuel p hist t r :
  InvSR p -> Z.of_nat fuel <= 2 * MATE_SCORE -> legal_moves p <> [] ->
  (forall m, In m (legal_moves p) -> rule_drawn (makemove true p m) hist) -> no_clash p ->
  root stopf fuel p hist (tt_clear t) = Some r ->
  (forall i, In i (rr_infos r) -> 2 <= i_depth i -> i_score i = - DRAW_SCORE)
  /\ exists m, rr_best r = Some m /\ In m (legal_moves p).
Proof. intros Hp Hf Hne. exact (root_all_drawn stopf fuel p hist (tt_clear t) r Hp Hf Hne (table_empty_clear t)). Qed.

Print Assumptions root_all_drawn_scores.
Print Assumptions root_all_drawn.

(* ------------------------------------------------------------------ the premises are satisfiable, and the first
   iteration is rightly excluded: K+R v K with the half-move clock at 99 -- every one of the 15 legal moves brings the
   clock to 100.  Iteration 1 searches the successors at the horizon (quiescence has no draw test) and reports the
   material score; iterations 2, 3, 4 report - DRAW_SCORE = 50. *)
From Coq Require Import String.
From Rawr Require Fen Uci MakeStages.

Definition ex_pos : Position :=
  match Fen.set_fen false false (Uci.lit "8/8/8/4k3/8/8/8/R3K3 w - - 99 80"%string) with Some q => q | None => startpos end.

Lemma ex_premises :
  InvSR ex_pos /\ legal_moves ex_pos <> [] /\ no_clash ex_pos
  /\ forall m, In m (legal_moves ex_pos) -> rule_drawn (makemove true ex_pos m) [hash ex_pos].
Proof.
  assert (Hall : forallb (fun m => (100 <=? halfmoves (makemove true ex_pos m))
                                   && negb (hash (makemove true ex_pos m) =? hash ex_pos)%N) (legal_moves ex_pos) = true)
    by (vm_compute; reflexivity).
  split; [apply invr_b_sound; vm_compute; reflexivity|].
  split; [intros E; apply (f_equal (@List.length Mv)) in E; vm_compute in E; discriminate|].
  split.
  - intros m Hm. apply (proj1 (forallb_forall _ _) Hall) in Hm. apply andb_true_iff in Hm. destruct Hm as [_ Hm].
    apply negb_true_iff in Hm. apply N.eqb_neq in Hm. exact Hm.
  - intros m Hm. apply (proj1 (forallb_forall _ _) Hall) in Hm. apply andb_true_iff in Hm. destruct Hm as [Hm _].
    left. apply Z.leb_le. exact Hm.
Qed.

Example ex_run :
  match root (stop_of (LDepth 4)) 50 ex_pos [hash ex_pos] (tt_new 1) with
  | Some r => map (fun i => (i_depth i, i_score i)) (rr_infos r)
  | None => []
  end = [(1, 512); (2, 50); (3, 50); (4, 50)].
Proof. vm_compute. reflexivity. Qed.

Example ex_theorem (stopf : Stats -> bool) fuel r : Z.of_nat fuel <= 2 * MATE_SCORE ->
  root stopf fuel ex_pos [hash ex_pos] (tt_new 1) = Some r ->
  (forall i, In i (rr_infos r) -> 2 <= i_depth i -> i_score i = - DRAW_SCORE)
  /\ exists m, rr_best r = Some m /\ In m (legal_moves ex_pos).
Proof.
  intros Hf H. destruct ex_premises as (Hp & Hne & Hnc & Hdr).
  exact (root_all_drawn_new stopf fuel ex_pos [hash ex_pos] 1 r Hp Hf Hne Hdr Hnc H).
Qed.
