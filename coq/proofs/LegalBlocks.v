(* C01 (soundness half): every block of the generator other than king steps, castling and en passant follows the discipline
   of LegalPin.nonking_legal, so none of its moves leaves the mover's king attacked. *)
From Coq Require Import NArith ZArith List Bool Lia ZifyN ZifyBool.
From Rawr Require Import Consts Bits Magic Position MoveGen MakeMove MakeStages
                         BitsFacts ShiftFacts LsbFacts HashFacts MakeFacts KeyAbs AttackFacts RayFacts CountFacts
                         GenSane GenNoDup RaySym NoKingCapture Closure EpRetro LegalBase RayGeo PinFacts LegalPin.
Import ListNotations.
Local Open Scope N_scope.
Ltac Zify.zify_post_hook ::= Z.div_mod_to_equations.

Lemma walk_head occ s t : s < 64 -> N.testbit (walk_list occ (s :: t)) s = true.
Proof.
  intros Hs. cbn [walk_list]. destruct (N.testbit occ s); [|rewrite N.lor_spec]; rewrite testbit_bit, N.eqb_refl by exact Hs; reflexivity.
Qed.
Lemma walk_second occ s s2 t : s < 64 -> s2 < 64 -> N.testbit occ s = false -> N.testbit (walk_list occ (s :: s2 :: t)) s2 = true.
Proof.
  intros Hs Hs2 Ho. cbn [walk_list]. rewrite Ho, N.lor_spec. apply orb_true_iff. right. fold (walk_list occ (s2 :: t)). exact (walk_head occ s2 t Hs2).
Qed.

Lemma mod_shift9 t : 9 <= t -> t mod 8 <> 0 -> (t - 9) mod 8 <> 7.
Proof. intros H1 H2. lia. Qed.
Lemma mod_shift7 t : 7 <= t -> t mod 8 <> 7 -> (t - 7) mod 8 <> 0.
Proof. intros H1 H2. lia. Qed.

Section Blocks.
Variables (u : bool) (p : Position).
Hypothesis I : Inv0 p.
Let G : Good p := i0_good p I.
Let CG : CastleGood p := i0_cg p I.
Local Notation gi := (gen_info p).
Local Notation occ := (occupied p).

Lemma nvk g : In g (move_generator p) -> m_to (gen_mv g) <> tksq p.
Proof. intros Hg. exact (no_king_capture p g G CG (i0_tking p I) (i0_safe p I) Hg). Qed.

Lemma holds_not_king_ep g k : sane p (gen_mv g) k -> k <> PAWN -> mv_is_ep p (gen_mv g) = false.
Proof.
  intros S Hk. destruct (gen_mv g) as [f t pr] eqn:E. apply (not_ep_piece p f t pr k Hk).
  pose proof (sn_mover _ _ _ S) as H. cbn [m_from] in H. exact H.
Qed.

(* ---- pawn pushes *)
Theorem singles_legal g : In g (move_generator p) -> In g (blk_singles p) -> in_check_them (makemove u p (gen_mv g)) = false.
Proof.
  intros Hgen Hg. destruct (singles_block p G g Hg) as (S & _). pose proof (nvk g Hgen) as NVK.
  unfold blk_singles in Hg. apply in_flat_map in Hg. destruct Hg as (to & Hto & Hg).
  destruct (promo_or_plain_in _ _ _ Hg) as (pr & -> & Hpr).
  apply bits_spec in Hto. unfold g_singles in Hto. rewrite !N.land_spec in Hto.
  apply andb_true_iff in Hto. destruct Hto as [Hto Ha]. apply andb_true_iff in Hto. destruct Hto as [Hn He].
  rewrite testbit_north in Hn. apply andb_true_iff in Hn. destruct Hn as [Hn Hs]. apply andb_true_iff in Hn. destruct Hn as [Hlt H8].
  apply N.ltb_lt in Hlt. apply N.leb_le in H8. unfold g_pushers in Hs.
  rewrite N.land_spec, testbit_bnot, N.lor_spec in Hs. apply andb_true_iff in Hs. destruct Hs as [_ Hs]. apply andb_true_iff in Hs. destruct Hs as [_ Hs].
  apply negb_true_iff, orb_false_iff in Hs. destruct Hs as [Hh Hb].
  cbn [gen_mv gk fst] in *.
  apply (nonking_legal u p (mkMv (to - 8) to pr) PAWN I S NVK).
  - unfold PAWN, KING. lia.
  - apply same_file_not_ep. apply file_sub8. lia.
  - exact Ha.
  - right. right. right. left. cbn [m_from m_to]. split; [exact Hh|split; [exact Hb|]].
    exists (0, 1)%Z. split; [left; reflexivity|]. destruct (ray_n_head (to - 8)) as (t & Et); [lia|]. rewrite Et.
    replace (to - 8 + 8) with to by lia. apply walk_head. exact Hlt.
Qed.

Theorem doubles_legal g : In g (move_generator p) -> In g (blk_doubles p) -> in_check_them (makemove u p (gen_mv g)) = false.
Proof.
  intros Hgen Hg. destruct (doubles_block p G g Hg) as (S & _). pose proof (nvk g Hgen) as NVK.
  unfold blk_doubles in Hg. apply in_map_iff in Hg. destruct Hg as (to & <- & Hto).
  apply bits_spec in Hto. unfold g_doubles in Hto. rewrite !N.land_spec in Hto.
  apply andb_true_iff in Hto. destruct Hto as [Hto Ha]. apply andb_true_iff in Hto. destruct Hto as [Hto _].
  apply andb_true_iff in Hto. destruct Hto as [Hto Hne]. apply andb_true_iff in Hto. destruct Hto as [Hto He].
  unfold north_north in Hto. rewrite testbit_shl in Hto.
  apply andb_true_iff in Hto. destruct Hto as [Hn Hs]. apply andb_true_iff in Hn. destruct Hn as [Hlt H16].
  apply N.ltb_lt in Hlt. apply N.leb_le in H16. unfold g_pushers in Hs.
  rewrite N.land_spec, testbit_bnot, N.lor_spec in Hs. apply andb_true_iff in Hs. destruct Hs as [_ Hs]. apply andb_true_iff in Hs. destruct Hs as [_ Hs].
  apply negb_true_iff, orb_false_iff in Hs. destruct Hs as [Hh Hb].
  rewrite testbit_north in Hne. apply andb_true_iff in Hne. destruct Hne as [_ Hne].
  unfold empty_bb in Hne. rewrite testbit_bnot in Hne. apply andb_true_iff in Hne. destruct Hne as [_ Hne]. apply negb_true_iff in Hne.
  cbn [gen_mv gk fst] in *.
  apply (nonking_legal u p (mkMv (to - 16) to NOPIECE) PAWN I S NVK).
  - unfold PAWN, KING. lia.
  - apply same_file_not_ep. apply file_sub16. lia.
  - exact Ha.
  - right. right. right. left. cbn [m_from m_to]. split; [exact Hh|split; [exact Hb|]].
    exists (0, 1)%Z. split; [left; reflexivity|]. destruct (ray_n_head (to - 16)) as (t & Et); [lia|].
    assert (Et2 : ray_of (to - 16 + 8) (0, 1)%Z = t).
    { apply (fwd_ray (to - 16) (0, 1)%Z [] (to - 16 + 8) t); [lia|unfold all_dirs, bishop_dirs, rook_dirs; cbn; tauto|exact Et]. }
    destruct (ray_n_head (to - 16 + 8)) as (t2 & Et3); [lia|]. rewrite Et2 in Et3. rewrite Et, Et3.
    replace (to - 16 + 8 + 8) with to by lia. apply walk_second; [lia|exact Hlt|].
    replace (to - 16 + 8) with (to - 8) by lia. exact Hne.
Qed.

(* ---- pawn captures *)
Lemma capture_legal delta (shifted : N) (dcap : Z * Z) g :
  In dcap [(1, 1)%Z; (-1, 1)%Z] ->
  (forall to, N.testbit shifted to = true -> to < 64 /\ delta <= to
     /\ N.testbit (gi_rpinned gi) (to - delta) = false
     /\ (N.testbit (gi_bpinned gi) (to - delta) = false \/ N.testbit (gi_bxrays gi) to = true)
     /\ exists t, ray_of (to - delta) dcap = to :: t) ->
  In g (move_generator p) -> NCsane p g ->
  In g (flat_map (promo_or_plain delta) (bits (N.land (N.land shifted (c_them p)) (gi_allowed gi)))) ->
  in_check_them (makemove u p (gen_mv g)) = false.
Proof.
  intros Hdc Hsh Hgen (S & _) Hg. pose proof (nvk g Hgen) as NVK.
  apply in_flat_map in Hg. destruct Hg as (to & Hto & Hg).
  destruct (promo_or_plain_in _ _ _ Hg) as (pr & -> & Hpr).
  apply bits_spec in Hto. rewrite !N.land_spec in Hto.
  apply andb_true_iff in Hto. destruct Hto as [Hto Ha]. apply andb_true_iff in Hto. destruct Hto as [Hs Ht].
  destruct (Hsh to Hs) as (Hlt & Hd & Hr & Hb & (t & Et)).
  destruct (theirs_holds p (g_wf p G) to Hlt Ht) as (c & Hc).
  cbn [gen_mv gk fst] in *.
  apply (nonking_legal u p (mkMv (to - delta) to pr) PAWN I S NVK).
  - unfold PAWN, KING. lia.
  - exact (occupied_not_ep p _ _ _ c Hc).
  - exact Ha.
  - right. right. right. right. cbn [m_from m_to]. split; [exact Hr|split; [exact Hb|]].
    exists dcap. split; [exact Hdc|]. rewrite Et. apply walk_head. exact Hlt.
Qed.

Theorem cap_ne_legal g : In g (move_generator p) -> In g (blk_cap_ne p) -> in_check_them (makemove u p (gen_mv g)) = false.
Proof.
  intros Hgen Hg. pose proof (cap_ne_block p G g Hg) as Hsane. unfold blk_cap_ne, g_cap_ne in Hg.
  refine (capture_legal 9 _ (1, 1)%Z g (or_introl eq_refl) _ Hgen Hsane Hg).
  intros to H. rewrite east_north, testbit_north_east in H.
  repeat (apply andb_true_iff in H; destruct H as [H ?]).
  apply N.ltb_lt in H. match goal with X : (9 <=? to) = true |- _ => apply N.leb_le in X end.
  match goal with X : negb (to mod 8 =? 0) = true |- _ => apply negb_true_iff, N.eqb_neq in X end.
  match goal with X : N.testbit (g_capsrc p _) _ = true |- _ => unfold g_capsrc in X; rewrite !N.land_spec, N.lor_spec, !testbit_bnot, testbit_south_west in X;
    apply andb_true_iff in X; destruct X as [X Xb]; apply andb_true_iff in X; destruct X as [_ Xr] end.
  apply andb_true_iff in Xr. destruct Xr as [_ Xr]. apply negb_true_iff in Xr.
  split; [exact H|split; [assumption|split; [exact Xr|split]]].
  - apply orb_true_iff in Xb. destruct Xb as [Xb|Xb].
    + left. apply andb_true_iff in Xb. destruct Xb as [_ Xb]. apply negb_true_iff in Xb. exact Xb.
    + right. apply andb_true_iff in Xb. destruct Xb as [_ Xb]. replace (to - 9 + 9) with to in Xb by lia. exact Xb.
  - destruct (ray_ne_head (to - 9)) as (t & Et); [lia|apply mod_shift9; assumption|]. exists t. replace (to - 9 + 9) with to in Et by lia. exact Et.
Qed.

Theorem cap_nw_legal g : In g (move_generator p) -> In g (blk_cap_nw p) -> in_check_them (makemove u p (gen_mv g)) = false.
Proof.
  intros Hgen Hg. pose proof (cap_nw_block p G g Hg) as Hsane. unfold blk_cap_nw, g_cap_nw in Hg.
  refine (capture_legal 7 _ (-1, 1)%Z g (or_intror (or_introl eq_refl)) _ Hgen Hsane Hg).
  intros to H. rewrite testbit_north_west in H.
  repeat (apply andb_true_iff in H; destruct H as [H ?]).
  apply N.ltb_lt in H. match goal with X : (7 <=? to) = true |- _ => apply N.leb_le in X end.
  match goal with X : negb (to mod 8 =? 7) = true |- _ => apply negb_true_iff, N.eqb_neq in X end.
  match goal with X : N.testbit (g_capsrc p _) _ = true |- _ => unfold g_capsrc in X; rewrite !N.land_spec, N.lor_spec, !testbit_bnot, testbit_south_east in X;
    apply andb_true_iff in X; destruct X as [X Xb]; apply andb_true_iff in X; destruct X as [_ Xr] end.
  apply andb_true_iff in Xr. destruct Xr as [_ Xr]. apply negb_true_iff in Xr.
  split; [exact H|split; [assumption|split; [exact Xr|split]]].
  - apply orb_true_iff in Xb. destruct Xb as [Xb|Xb].
    + left. apply andb_true_iff in Xb. destruct Xb as [_ Xb]. apply negb_true_iff in Xb. exact Xb.
    + right. apply andb_true_iff in Xb. destruct Xb as [_ Xb]. replace (to - 7 + 7) with to in Xb by lia. exact Xb.
  - destruct (ray_nw_head (to - 7)) as (t & Et); [lia|apply mod_shift7; assumption|]. exists t. replace (to - 7 + 7) with to in Et by lia. exact Et.
Qed.

(* ---- knights *)
Theorem knights_legal g : In g (move_generator p) -> In g (blk_knights p) -> in_check_them (makemove u p (gen_mv g)) = false.
Proof.
  intros Hgen Hg. destruct (knight_block p G g Hg) as (S & _). pose proof (nvk g Hgen) as NVK.
  pose proof (holds_not_king_ep g _ S) as Hnep.
  unfold blk_knights in Hg. apply in_flat_map in Hg. destruct Hg as (from & Hf & Hg).
  apply in_map_iff in Hg. destruct Hg as (to & <- & Hto). apply bits_spec in Hf, Hto.
  destruct (not_pinned_bits p _ from Hf) as (Hnp & _ & _).
  rewrite N.land_spec in Hto. apply andb_true_iff in Hto. destruct Hto as [_ Ha].
  cbn [gen_mv gk fst] in *.
  apply (nonking_legal u p (mkMv from to NOPIECE) KNIGHT I S NVK).
  - unfold KNIGHT, KING. lia.
  - apply Hnep. unfold KNIGHT, PAWN. lia.
  - exact Ha.
  - left. exact Hnp.
Qed.

(* ---- sliders *)
Lemma batt_reach from to : N.testbit (batt from occ) to = true -> reach occ from to bishop_dirs.
Proof.
  unfold batt, bishop_walk. destruct (from <? 64); [|rewrite N.bits_0; discriminate]. intros H.
  destruct (walk_dirs_which bishop_dirs from occ to H) as (d & Hd & Hw). exists d. split; assumption.
Qed.
Lemma ratt_reach from to : N.testbit (ratt from occ) to = true -> reach occ from to rook_dirs.
Proof.
  unfold ratt, rook_walk. destruct (from <? 64); [|rewrite N.bits_0; discriminate]. intros H.
  destruct (walk_dirs_which rook_dirs from occ to H) as (d & Hd & Hw). exists d. split; assumption.
Qed.

Lemma slider_free_legal k att Y g : k <= 5 -> k <> PAWN -> k <> KING ->
  In g (move_generator p) ->
  In g (slider_moves k att p (N.land (N.land (get_piece p k) (c_us p)) (bnot (gi_pinned gi))) (gi_allowed gi)) -> Y = 0 ->
  in_check_them (makemove u p (gen_mv g)) = false.
Proof.
  intros Hk Hnp Hnk Hgen Hg _. pose proof (nvk g Hgen) as NVK.
  destruct (slider_block p G k att _ _ g Hk Hnp (fun s H => H) Hg) as (S & _).
  pose proof (holds_not_king_ep g _ S) as Hnep.
  unfold slider_moves in Hg. apply in_flat_map in Hg. destruct Hg as (from & Hf & Hg).
  apply in_map_iff in Hg. destruct Hg as (to & <- & Hto). apply bits_spec in Hf, Hto.
  destruct (not_pinned_bits p _ from Hf) as (Hnpin & _ & _).
  rewrite N.land_spec in Hto. apply andb_true_iff in Hto. destruct Hto as [_ Ha].
  cbn [gen_mv gk fst] in *.
  apply (nonking_legal u p (mkMv from to NOPIECE) k I S NVK Hnk (Hnep Hnp) Ha). left. exact Hnpin.
Qed.

Lemma slider_bpinned_legal k g : k <= 5 -> k <> PAWN -> k <> KING ->
  In g (move_generator p) ->
  In g (slider_moves k batt p (N.land (N.land (get_piece p k) (c_us p)) (gi_bpinned gi)) (N.land (gi_allowed gi) (gi_bxrays gi))) ->
  in_check_them (makemove u p (gen_mv g)) = false.
Proof.
  intros Hk Hnp Hnk Hgen Hg. pose proof (nvk g Hgen) as NVK.
  assert (Hsub : forall s, N.testbit (N.land (gi_allowed gi) (gi_bxrays gi)) s = true -> N.testbit (gi_allowed gi) s = true).
  { intros s H. rewrite N.land_spec in H. apply andb_true_iff in H. exact (proj1 H). }
  destruct (slider_block p G k batt _ _ g Hk Hnp Hsub Hg) as (S & _).
  pose proof (holds_not_king_ep g _ S) as Hnep.
  unfold slider_moves in Hg. apply in_flat_map in Hg. destruct Hg as (from & Hf & Hg).
  apply in_map_iff in Hg. destruct Hg as (to & <- & Hto). apply bits_spec in Hf, Hto.
  apply pinned_bits in Hf.
  rewrite !N.land_spec in Hto. apply andb_true_iff in Hto. destruct Hto as [Hatt Ht]. apply andb_true_iff in Ht. destruct Ht as [Ha Hx].
  cbn [gen_mv gk fst] in *.
  apply (nonking_legal u p (mkMv from to NOPIECE) k I S NVK Hnk (Hnep Hnp) Ha). right. left. cbn [m_from m_to].
  split; [exact Hf|split; [exact Hx|exact (batt_reach from to Hatt)]].
Qed.

Lemma slider_rpinned_legal k g : k <= 5 -> k <> PAWN -> k <> KING ->
  In g (move_generator p) ->
  In g (slider_moves k ratt p (N.land (N.land (get_piece p k) (c_us p)) (gi_rpinned gi)) (N.land (gi_allowed gi) (gi_rxrays gi))) ->
  in_check_them (makemove u p (gen_mv g)) = false.
Proof.
  intros Hk Hnp Hnk Hgen Hg. pose proof (nvk g Hgen) as NVK.
  assert (Hsub : forall s, N.testbit (N.land (gi_allowed gi) (gi_rxrays gi)) s = true -> N.testbit (gi_allowed gi) s = true).
  { intros s H. rewrite N.land_spec in H. apply andb_true_iff in H. exact (proj1 H). }
  destruct (slider_block p G k ratt _ _ g Hk Hnp Hsub Hg) as (S & _).
  pose proof (holds_not_king_ep g _ S) as Hnep.
  unfold slider_moves in Hg. apply in_flat_map in Hg. destruct Hg as (from & Hf & Hg).
  apply in_map_iff in Hg. destruct Hg as (to & <- & Hto). apply bits_spec in Hf, Hto.
  apply pinned_bits in Hf.
  rewrite !N.land_spec in Hto. apply andb_true_iff in Hto. destruct Hto as [Hatt Ht]. apply andb_true_iff in Ht. destruct Ht as [Ha Hx].
  cbn [gen_mv gk fst] in *.
  apply (nonking_legal u p (mkMv from to NOPIECE) k I S NVK Hnk (Hnep Hnp) Ha). right. right. left. cbn [m_from m_to].
  split; [exact Hf|split; [exact Hx|exact (ratt_reach from to Hatt)]].
Qed.

End Blocks.

(* ------------------------------------------------------------------ all blocks but en passant *)
From Rawr Require Import LegalKing LegalCastle.

Theorem generated_legal_but_ep u p g : Inv0 p -> In g (move_generator p) ->
  In g (blk_ep p) \/ in_check_them (makemove u p (gen_mv g)) = false.
Proof.
  intros I Hgen. pose proof Hgen as Hg. rewrite generator_blocks in Hg.
  repeat (apply in_app_or in Hg; destruct Hg as [Hg|Hg]).
  - right. exact (singles_legal u p I g Hgen Hg).
  - right. exact (doubles_legal u p I g Hgen Hg).
  - right. exact (cap_ne_legal u p I g Hgen Hg).
  - right. exact (cap_nw_legal u p I g Hgen Hg).
  - left. exact Hg.
  - right. exact (knights_legal u p I g Hgen Hg).
  - right. change (bishops p) with (get_piece p BISHOP) in Hg. apply (slider_bpinned_legal u p I BISHOP g); try (unfold BISHOP, PAWN, KING; lia); assumption.
  - right. change (bishops p) with (get_piece p BISHOP) in Hg. apply (slider_free_legal u p I BISHOP batt 0 g); try (unfold BISHOP, PAWN, KING; lia); try assumption; reflexivity.
  - right. change (rooks p) with (get_piece p ROOK) in Hg. apply (slider_rpinned_legal u p I ROOK g); try (unfold ROOK, PAWN, KING; lia); assumption.
  - right. change (rooks p) with (get_piece p ROOK) in Hg. apply (slider_free_legal u p I ROOK ratt 0 g); try (unfold ROOK, PAWN, KING; lia); try assumption; reflexivity.
  - right. change (queens p) with (get_piece p QUEEN) in Hg. apply (slider_bpinned_legal u p I QUEEN g); try (unfold QUEEN, PAWN, KING; lia); assumption.
  - right. change (queens p) with (get_piece p QUEEN) in Hg. apply (slider_rpinned_legal u p I QUEEN g); try (unfold QUEEN, PAWN, KING; lia); assumption.
  - right. change (queens p) with (get_piece p QUEEN) in Hg. apply (slider_free_legal u p I QUEEN qatt 0 g); try (unfold QUEEN, PAWN, KING; lia); try assumption; reflexivity.
  - right. exact (king_step_legal u p g I Hg).
  - right. exact (castle_k_legal u p g I Hg).
  - right. exact (castle_q_legal u p g I Hg).
Qed.
Print Assumptions generated_legal_but_ep.
