(* C08 (attack queries): is_sq_attacked, bit by bit -- which men of which side make the test succeed.
   Part 1: the engine's test equals a statement about the squares around and the first blockers on the eight rays. *)
From Coq Require Import NArith ZArith List Bool Lia ZifyN ZifyBool.
From Rawr Require Import Consts Bits Magic Position MoveGen BitsFacts ShiftFacts LeaperFacts LsbFacts.
Import ListNotations.
Local Open Scope N_scope.
Ltac Zify.zify_post_hook ::= Z.div_mod_to_equations.

(* is the square at offset d from sq on the board and in the set x ? *)
Definition at_off (x sq : N) (d : Z * Z) : bool :=
  let f := (zfile sq + fst d)%Z in let r := (zrank sq + snd d)%Z in
  on_board f r && N.testbit x (zsq f r).

Lemma zsq_lt f r : on_board f r = true -> zsq f r < 64.
Proof. unfold on_board, zsq. intros H. repeat (apply andb_true_iff in H; destruct H as [H ?]). lia. Qed.

(* ---- leapers from one square, intersected with a set *)
Lemma leaper_geo_land offs sq x :
  is_occ (N.land (leaper_geo offs sq) x) = existsb (at_off x sq) offs.
Proof.
  unfold is_occ. induction offs as [|d offs IH]; cbn [leaper_geo fold_right existsb].
  - reflexivity.
  - fold (leaper_geo offs sq). unfold at_off at 1. cbv zeta.
    destruct (on_board (zfile sq + fst d) (zrank sq + snd d)) eqn:Hb; cbn [andb].
    + rewrite N.land_lor_distr_l. rewrite <- IH.
      destruct (N.testbit x (zsq (zfile sq + fst d) (zrank sq + snd d))) eqn:Ht; cbn [orb].
      * apply negb_true_iff, N.eqb_neq. intros E.
        assert (Hz : N.testbit (N.lor (N.land (bit (zsq (zfile sq + fst d) (zrank sq + snd d))) x) (N.land (leaper_geo offs sq) x))
                       (zsq (zfile sq + fst d) (zrank sq + snd d)) = false) by (rewrite E; apply N.bits_0).
        rewrite N.lor_spec, N.land_spec, testbit_bit, N.eqb_refl, Ht in Hz by (apply zsq_lt; exact Hb). discriminate.
      * assert (E0 : N.land (bit (zsq (zfile sq + fst d) (zrank sq + snd d))) x = 0).
        { apply N.bits_inj. intros i. rewrite N.land_spec, N.bits_0, testbit_bit by (apply zsq_lt; exact Hb).
          destruct (N.eqb_spec i (zsq (zfile sq + fst d) (zrank sq + snd d))) as [->|]; [rewrite Ht|]; reflexivity. }
        rewrite E0, N.lor_0_l. reflexivity.
    + exact IH.
Qed.

(* ---- one-square tables, checked exhaustively: the leaper boards read from the attacked square *)
Definition off_hits (sq x : N) (d : Z * Z) : bool :=
  let f := (zfile sq + fst d)%Z in let r := (zrank sq + snd d)%Z in on_board f r && (zsq f r =? x).

Definition table_ok (f : N -> N) (offs : list (Z * Z)) : bool :=
  forallb (fun x => forallb (fun sq => Bool.eqb (N.testbit (f (bit x)) sq) (existsb (off_hits sq x) offs)) squares64) squares64.

Lemma king_table : table_ok adjacent king_offs = true. Proof. vm_compute. reflexivity. Qed.
Lemma pawn_us_table : table_ok (pawns_bb true) (pawn_offs false) = true. Proof. vm_compute. reflexivity. Qed.
Lemma pawn_them_table : table_ok (pawns_bb false) (pawn_offs true) = true. Proof. vm_compute. reflexivity. Qed.

Lemma table_use f offs x sq : table_ok f offs = true -> x < 64 -> sq < 64 ->
  N.testbit (f (bit x)) sq = existsb (off_hits sq x) offs.
Proof.
  intros H Hx Hs. unfold table_ok in H. rewrite forallb_forall in H.
  specialize (H x (in_squares64' x Hx)). rewrite forallb_forall in H.
  specialize (H sq (in_squares64' sq Hs)). apply Bool.eqb_prop. exact H.
Qed.

Lemma existsb_map' {A B} (f : B -> bool) (g : A -> B) l : existsb f (map g l) = existsb (fun x => f (g x)) l.
Proof. induction l as [|x l IH]; cbn [map existsb]; [reflexivity|rewrite IH; reflexivity]. Qed.
Lemma existsb_ext_in {A} (f g : A -> bool) l : (forall x, In x l -> f x = g x) -> existsb f l = existsb g l.
Proof.
  induction l as [|x l IH]; intros H; cbn [existsb]; [reflexivity|].
  rewrite (H x (or_introl eq_refl)), IH; [reflexivity|]. intros y Hy. apply H. right. exact Hy.
Qed.

(* from one attacker to a set of attackers *)
Lemma existsb_swap {A B} (P : A -> B -> bool) (la : list A) (lb : list B) :
  existsb (fun a => existsb (P a) lb) la = existsb (fun b => existsb (fun a => P a b) la) lb.
Proof.
  induction la as [|a la IH]; cbn [existsb].
  - induction lb as [|b lb IHb]; cbn [existsb]; [reflexivity|exact IHb].
  - rewrite IH. clear IH. induction lb as [|b lb IHb]; cbn [existsb]; [reflexivity|].
    rewrite <- IHb. destruct (P a b), (existsb (P a) lb), (existsb (fun a0 => P a0 b) la); reflexivity.
Qed.

Lemma exists_bit_eq bb y : bb < TWO64 -> existsb (fun x => y =? x) (bits bb) = N.testbit bb y.
Proof.
  intros Hb. destruct (N.testbit bb y) eqn:E.
  - apply existsb_exists. exists y. split; [apply bits_spec; exact E|apply N.eqb_refl].
  - destruct (existsb (fun x => y =? x) (bits bb)) eqn:E2; [|reflexivity].
    apply existsb_exists in E2. destruct E2 as (x & Hx & Hy). apply N.eqb_eq in Hy. subst x.
    apply bits_spec in Hx. congruence.
Qed.

Theorem setwise_query f offs bb sq :
  linear f -> table_ok f offs = true -> bb < TWO64 -> sq < 64 ->
  N.testbit (f bb) sq = existsb (at_off bb sq) offs.
Proof.
  intros Hl Ht Hb Hs.
  rewrite (bb_decompose bb Hb) at 1. rewrite (linear_lorfold f _ Hl), map_map, testbit_lorfold, existsb_map'.
  rewrite (existsb_ext_in _ (fun x => existsb (off_hits sq x) offs))
    by (intros x Hx; apply table_use; [exact Ht|exact (bits_lt64 bb x Hb Hx)|exact Hs]).
  rewrite existsb_swap. apply existsb_ext_in. intros d _.
  unfold off_hits, at_off. cbv zeta.
  destruct (on_board (zfile sq + fst d) (zrank sq + snd d)); cbn [andb].
  - apply exists_bit_eq. exact Hb.
  - induction (bits bb) as [|y l IHl]; [reflexivity|exact IHl].
Qed.

(* ---- sliders: the walk meets the set x (a subset of the occupancy) iff the first blocker of some ray is in x *)
Fixpoint first_hit (occ x : N) (l : list N) : bool :=
  match l with [] => false | s :: t => if N.testbit occ s then N.testbit x s else first_hit occ x t end.

Lemma is_occ_lor a b : is_occ (N.lor a b) = is_occ a || is_occ b.
Proof.
  unfold is_occ. destruct (N.eqb_spec a 0) as [->|Ha]; cbn [negb orb].
  - rewrite N.lor_0_l. reflexivity.
  - apply negb_true_iff, N.eqb_neq. intros E. apply N.lor_eq_0_iff in E. tauto.
Qed.

Lemma is_occ_land_bit s x : s < 64 -> is_occ (N.land (bit s) x) = N.testbit x s.
Proof.
  intros Hs. unfold is_occ. destruct (N.testbit x s) eqn:E.
  - apply negb_true_iff, N.eqb_neq. intros E0.
    assert (H : N.testbit (N.land (bit s) x) s = false) by (rewrite E0; apply N.bits_0).
    rewrite N.land_spec, testbit_bit, N.eqb_refl, E in H by exact Hs. discriminate.
  - apply negb_false_iff, N.eqb_eq. apply N.bits_inj. intros i. rewrite N.land_spec, N.bits_0, testbit_bit by exact Hs.
    destruct (N.eqb_spec i s) as [->|]; [rewrite E|]; reflexivity.
Qed.

Lemma walk_first occ x l : (forall s, In s l -> s < 64) -> (forall i, N.testbit x i = true -> N.testbit occ i = true) ->
  is_occ (N.land (walk_list occ l) x) = first_hit occ x l.
Proof.
  intros Hl Hsub. induction l as [|s t IH]; cbn [walk_list first_hit].
  - reflexivity.
  - assert (Hs : s < 64) by (apply Hl; left; reflexivity).
    destruct (N.testbit occ s) eqn:Eo.
    + apply is_occ_land_bit. exact Hs.
    + rewrite N.land_lor_distr_l, is_occ_lor, is_occ_land_bit by exact Hs.
      destruct (N.testbit x s) eqn:Ex; [rewrite (Hsub s Ex) in Eo; discriminate|]. cbn [orb].
      apply IH. intros y Hy. apply Hl. right. exact Hy.
Qed.

Lemma ray_squares_lt n : forall f r df dr s, In s (ray_squares n f r df dr) -> s < 64.
Proof.
  induction n as [|n IH]; intros f r df dr s H; cbn [ray_squares] in H; [contradiction|].
  cbv zeta in H. destruct (on_board (f + df) (r + dr)) eqn:Hb; [|contradiction].
  destruct H as [<-|H]; [apply zsq_lt; exact Hb|exact (IH _ _ _ _ _ H)].
Qed.

Lemma walk_dirs_query dirs sq occ x : (forall i, N.testbit x i = true -> N.testbit occ i = true) ->
  is_occ (N.land (walk_dirs dirs sq occ) x) = existsb (fun d => first_hit occ x (ray_of sq d)) dirs.
Proof.
  intros Hsub. unfold walk_dirs. induction dirs as [|d dirs IH]; cbn [fold_right existsb]; [reflexivity|].
  rewrite N.land_lor_distr_l, is_occ_lor, IH. f_equal.
  apply walk_first; [|exact Hsub]. intros s Hs. exact (ray_squares_lt _ _ _ _ _ _ Hs).
Qed.

(* ---- the attack test of attacks.rs, square by square *)
Definition BBp (p : Position) : Prop :=
  c_us p < TWO64 /\ c_them p < TWO64 /\ pawns p < TWO64 /\ knights p < TWO64 /\ bishops p < TWO64
  /\ rooks p < TWO64 /\ queens p < TWO64 /\ kings p < TWO64.

Definition bit_attacked (p : Position) (sq : N) (us : bool) : bool :=
  let sd := get_side p us in
  existsb (at_off (N.land (pawns p) sd) sq) (pawn_offs (negb us))
  || existsb (at_off (N.land (knights p) sd) sq) knight_offs
  || existsb (fun d => first_hit (occupied p) (N.land sd (N.lor (bishops p) (queens p))) (ray_of sq d)) bishop_dirs
  || existsb (fun d => first_hit (occupied p) (N.land sd (N.lor (rooks p) (queens p))) (ray_of sq d)) rook_dirs
  || existsb (at_off (N.land (kings p) sd) sq) king_offs.

Lemma single_bit_test x y : x < TWO64 -> popcount x = 1 -> N.testbit x y = (y =? lsb x).
Proof.
  intros Hx Hp. destruct (N.eqb_spec y (lsb x)) as [->|Hn].
  - apply lsb_set. apply popcount1_nonzero. exact Hp.
  - destruct (N.testbit x y) eqn:E; [|reflexivity]. exfalso. apply Hn. apply lsb_unique; assumption.
Qed.

Lemma lsb_lt64 x : x < TWO64 -> x <> 0 -> lsb x < 64.
Proof.
  intros Hx Hn. destruct (N.lt_ge_cases (lsb x) 64) as [H|H]; [exact H|].
  pose proof (lsb_set x Hn) as Hs. rewrite (lt64_testbit_high x (lsb x) Hx H) in Hs. discriminate.
Qed.

Theorem is_sq_attacked_bits p sq us : BBp p -> sq < 64 -> popcount (N.land (kings p) (get_side p us)) = 1 ->
  is_sq_attacked p sq us = bit_attacked p sq us.
Proof.
  intros (B1 & B2 & B3 & B4 & B5 & B6 & B7 & B8) Hs Hk.
  assert (Bsd : get_side p us < TWO64) by (unfold get_side; destruct us; assumption).
  unfold is_sq_attacked, bit_attacked. cbv zeta. set (sd := get_side p us) in *.
  (* pawns *)
  assert (E1 : is_set (pawns_bb us (N.land (pawns p) sd)) sq = existsb (at_off (N.land (pawns p) sd) sq) (pawn_offs (negb us))).
  { unfold is_set. destruct us; cbn [negb].
    - apply setwise_query; [apply linear_pawns|exact pawn_us_table|apply land_lt_r; exact Bsd|exact Hs].
    - apply setwise_query; [apply linear_pawns|exact pawn_them_table|apply land_lt_r; exact Bsd|exact Hs]. }
  (* knights *)
  assert (E2 : is_occ (N.land (N.land (knights_bb (bit sq)) (knights p)) sd) = existsb (at_off (N.land (knights p) sd) sq) knight_offs).
  { pose proof knights_squares as Hp. unfold per_square in Hp. rewrite forallb_forall in Hp.
    specialize (Hp sq (in_squares64' sq Hs)). apply N.eqb_eq in Hp. rewrite Hp, <- N.land_assoc. apply leaper_geo_land. }
  (* sliders *)
  assert (Hsub : forall x i, N.testbit (N.land sd x) i = true -> N.testbit (occupied p) i = true).
  { intros x i H. rewrite N.land_spec in H. apply andb_true_iff in H. destruct H as [H _].
    unfold occupied. rewrite N.lor_spec. unfold sd, get_side in H. destruct us; rewrite H; [reflexivity|apply orb_true_r]. }
  assert (E3 : is_occ (N.land (batt sq (occupied p)) (N.land sd (N.lor (bishops p) (queens p))))
               = existsb (fun d => first_hit (occupied p) (N.land sd (N.lor (bishops p) (queens p))) (ray_of sq d)) bishop_dirs).
  { unfold batt, bishop_walk. replace (sq <? 64) with true by (symmetry; apply N.ltb_lt; exact Hs). apply walk_dirs_query. apply Hsub. }
  assert (E4 : is_occ (N.land (ratt sq (occupied p)) (N.land sd (N.lor (rooks p) (queens p))))
               = existsb (fun d => first_hit (occupied p) (N.land sd (N.lor (rooks p) (queens p))) (ray_of sq d)) rook_dirs).
  { unfold ratt, rook_walk. replace (sq <? 64) with true by (symmetry; apply N.ltb_lt; exact Hs). apply walk_dirs_query. apply Hsub. }
  (* king *)
  assert (BK : N.land (kings p) sd < TWO64) by (apply land_lt_r; exact Bsd).
  assert (E5 : is_set (adjacent (bit (lsb (N.land (kings p) sd)))) sq = existsb (at_off (N.land (kings p) sd) sq) king_offs).
  { unfold is_set. rewrite (table_use adjacent king_offs _ sq king_table) by (exact Hs || (apply lsb_lt64; [exact BK|apply popcount1_nonzero; exact Hk])).
    apply existsb_ext_in. intros d _. unfold off_hits, at_off. cbv zeta. f_equal.
    rewrite (single_bit_test _ _ BK Hk). reflexivity. }
  rewrite E1, E2, E3, E4, E5.
  repeat match goal with |- context [if ?c then true else _] => destruct c; cbn [orb]; try reflexivity end.
  all: rewrite ?orb_true_r; reflexivity.
Qed.
