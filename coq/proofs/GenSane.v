(* C01/C02: every move the generator emits is "sane" in the sense of MakeFacts (our man on the origin, target empty or
   theirs, ...), so the refinement theorems of C02 and the key theorems of C04 apply to every generated move of a
   well-formed position -- no per-move premise left. *)
From Coq Require Import NArith ZArith List Bool Lia ZifyN ZifyBool.
From Rawr Require Import Consts Bits Magic Position MoveGen MakeMove MakeStages Rules Abs
                         BitsFacts ShiftFacts FlipFacts AbsFacts LsbFacts HashFacts MakeFacts MakeAbs CastleFacts CastleAbs KeyAbs.
Import ListNotations.
Local Open Scope N_scope.
Ltac Zify.zify_post_hook ::= Z.div_mod_to_equations.

(* ------------------------------------------------------------------ squares of a well-formed position *)
Section Squares.
Variable p : Position.
Hypothesis HW : WF p.
Hypothesis HB : HashFacts.BB8 p.

Lemma ours_holds k s : k <= 5 -> s < 64 -> ub p s = true -> pb p k s = true -> holds p s false k.
Proof.
  intros Hk Hs Hu Hp. destruct (HW s Hs) as [(Eu & _) | (t & j & (Hj & Ju & Jt & Jp))].
  - rewrite Hu in Eu. discriminate.
  - destruct t; [rewrite Hu in Ju; discriminate|].
    assert (E : j = k) by (rewrite (Jp k Hk) in Hp; apply N.eqb_eq in Hp; symmetry; exact Hp).
    rewrite <- E. split; [exact Hj|split; [exact Ju|split; [exact Jt|exact Jp]]].
Qed.

Lemma theirs_holds s : s < 64 -> tb p s = true -> exists c, holds p s true c.
Proof.
  intros Hs Ht. destruct (HW s Hs) as [(_ & Et & _) | (t & j & (Hj & Ju & Jt & Jp))].
  - rewrite Ht in Et. discriminate.
  - destruct t; [|rewrite Ht in Jt; discriminate].
    exists j. split; [exact Hj|split; [exact Ju|split; [exact Jt|exact Jp]]].
Qed.

Lemma vacant_empty s : s < 64 -> ub p s = false -> tb p s = false -> empty_at p s.
Proof.
  intros Hs Hu Ht. destruct (HW s Hs) as [He | (t & j & (_ & Ju & Jt & _))]; [exact He|].
  destruct t; [rewrite Ht in Jt|rewrite Hu in Ju]; discriminate.
Qed.

Lemma not_ours_target s : s < 64 -> ub p s = false -> empty_at p s \/ exists c, holds p s true c.
Proof.
  intros Hs Hu. destruct (tb p s) eqn:Ht; [right; apply theirs_holds; assumption|left; apply vacant_empty; assumption].
Qed.

Lemma kings_rooks_apart : N.land (kings p) (rooks p) = 0.
Proof.
  apply N.bits_inj. intros s. rewrite N.land_spec, N.bits_0.
  destruct (N.lt_ge_cases s 64) as [Hs|Hs].
  - change (pb p 5 s && pb p 3 s = false).
    destruct (HW s Hs) as [(_ & _ & Ep) | (t & j & (_ & _ & _ & Jp))].
    + rewrite (Ep 5) by lia. reflexivity.
    + rewrite (Jp 5), (Jp 3) by lia. destruct (N.eqb_spec 5 j), (N.eqb_spec 3 j); try reflexivity. lia.
  - destruct HB as (_ & _ & _ & _ & _ & _ & _ & B8). rewrite (lt64_testbit_high _ _ B8 Hs). reflexivity.
Qed.
End Squares.

(* ------------------------------------------------------------------ walks that hit a set stop exactly there *)
From Rawr Require Import AttackFacts RayFacts LeaperFacts.

Lemma walk_hit_clean occ x : (forall i, N.testbit x i = true -> N.testbit occ i = true) ->
  forall l, (forall s, In s l -> s < 64) ->
  is_occ (N.land (walk_list occ l) x) = true ->
  forall s, N.testbit (walk_list occ l) s = true -> N.testbit occ s = true -> N.testbit x s = true.
Proof.
  intros Hsub. induction l as [|a t IH]; intros Hl Hhit s Hs Ho; cbn [walk_list] in *.
  - rewrite N.bits_0 in Hs. discriminate.
  - assert (Ha : a < 64) by (apply Hl; left; reflexivity).
    destruct (N.testbit occ a) eqn:Ea.
    + rewrite is_occ_land_bit in Hhit by exact Ha. rewrite testbit_bit in Hs by exact Ha. apply N.eqb_eq in Hs. rewrite Hs. exact Hhit.
    + rewrite N.land_lor_distr_l, is_occ_lor, is_occ_land_bit in Hhit by exact Ha.
      assert (Exa : N.testbit x a = false) by (destruct (N.testbit x a) eqn:E; [rewrite (Hsub a E) in Ea; discriminate|reflexivity]).
      rewrite Exa in Hhit. cbn [orb] in Hhit.
      rewrite N.lor_spec, testbit_bit in Hs by exact Ha.
      destruct (N.eqb_spec s a) as [E|Hne]; [rewrite E, Ea in Ho; discriminate|]. cbn [orb] in Hs.
      apply IH; try assumption. intros y Hy. apply Hl. right. exact Hy.
Qed.

(* ------------------------------------------------------------------ the generator's "allowed" set never contains one of our men *)
Definition allowed_expr (p : Position) : N :=
  let us := c_us p in
  let them := c_them p in
  let occ := occupied p in
  let ksq := lsb (N.land (kings p) us) in
  let bq := N.land them (N.lor (bishops p) (queens p)) in
  let rq := N.land them (N.lor (rooks p) (queens p)) in
  let hasb := is_occ bq in
  let hasr := is_occ rq in
  let r_ne := if hasb then ray_ne ksq occ else 0 in
  let r_sw := if hasb then ray_sw ksq occ else 0 in
  let r_nw := if hasb then ray_nw ksq occ else 0 in
  let r_se := if hasb then ray_se ksq occ else 0 in
  let r_n := if hasr then ray_n ksq occ else 0 in
  let r_s := if hasr then ray_s ksq occ else 0 in
  let r_e := if hasr then ray_e ksq occ else 0 in
  let r_w := if hasr then ray_w ksq occ else 0 in
  let bishop_rays := N.lor (N.lor (N.lor r_ne r_sw) r_nw) r_se in
  let rook_rays := N.lor (N.lor (N.lor r_n r_s) r_e) r_w in
  let kbb := N.land us (kings p) in
  let pawn_att := N.land (N.land (N.lor (north_east kbb) (north_west kbb)) them) (pawns p) in
  let knight_att := N.land (N.land (knights_bb (bit ksq)) (knights p)) them in
  let bishop_att := N.land (N.land bishop_rays them) (N.lor (bishops p) (queens p)) in
  let rook_att := N.land (N.land rook_rays them) (N.lor (rooks p) (queens p)) in
  let all_att := N.lor (N.lor (N.lor pawn_att knight_att) bishop_att) rook_att in
  if 1 <? popcount all_att then 0
  else if is_occ (N.land r_ne bishop_att) then r_ne
  else if is_occ (N.land r_nw bishop_att) then r_nw
  else if is_occ (N.land r_se bishop_att) then r_se
  else if is_occ (N.land r_sw bishop_att) then r_sw
  else if is_occ (N.land r_n rook_att) then r_n
  else if is_occ (N.land r_e rook_att) then r_e
  else if is_occ (N.land r_s rook_att) then r_s
  else if is_occ (N.land r_w rook_att) then r_w
  else if is_occ all_att then all_att
  else bnot us.

Lemma gi_allowed_eq p : gi_allowed (gen_info p) = allowed_expr p.
Proof.
  unfold gen_info, allowed_expr. cbv zeta.
  repeat match goal with |- context [let '(a, b) := ?x in _] => destruct x end.
  reflexivity.
Qed.

Lemma walk_list_in occ l : (forall y, In y l -> y < 64) -> forall s, N.testbit (walk_list occ l) s = true -> In s l.
Proof.
  induction l as [|a t IH]; intros Hl s Hs; cbn [walk_list] in Hs; [rewrite N.bits_0 in Hs; discriminate|].
  assert (Ha : a < 64) by (apply Hl; left; reflexivity).
  destruct (N.testbit occ a).
  - rewrite testbit_bit in Hs by exact Ha. apply N.eqb_eq in Hs. left. symmetry. exact Hs.
  - rewrite N.lor_spec, testbit_bit in Hs by exact Ha. apply orb_true_iff in Hs. destruct Hs as [Hs|Hs].
    + apply N.eqb_eq in Hs. left. symmetry. exact Hs.
    + right. apply IH; [intros y Hy; apply Hl; right; exact Hy|exact Hs].
Qed.

Section Allowed.
Variable p : Position.
Hypothesis Hdis : colours_disjoint p.
Hypothesis HB : BB8 p.
Hypothesis Hku : popcount (N.land (kings p) (c_us p)) = 1.

Lemma ksq_lt : lsb (N.land (kings p) (c_us p)) < 64.
Proof.
  destruct HB as (B1 & _). apply lsb_lt64; [apply land_lt_r; exact B1|apply popcount1_nonzero; exact Hku].
Qed.

Lemma them_not_us s : tb p s = true -> ub p s = false.
Proof.
  intros Ht. destruct (ub p s) eqn:Hu; [|reflexivity]. exfalso. exact (not_both p s Hdis Hu Ht).
Qed.

Lemma ray_not_ours r l x s :
  (r = walk_list (occupied p) l \/ r = 0) -> (forall y, In y l -> y < 64) ->
  (forall i, N.testbit x i = true -> tb p i = true) ->
  is_occ (N.land r x) = true -> N.testbit r s = true -> ub p s = false.
Proof.
  intros [Hr|Hr] Hl Hx Hhit Hs; subst r; [|rewrite N.bits_0 in Hs; discriminate].
  destruct (ub p s) eqn:Hu; [|reflexivity]. exfalso.
  assert (Hsub : forall i, N.testbit x i = true -> N.testbit (occupied p) i = true).
  { intros i Hi. unfold occupied. rewrite N.lor_spec. specialize (Hx i Hi). unfold tb, is_set in Hx. rewrite Hx. apply orb_true_r. }
  assert (Ho : N.testbit (occupied p) s = true) by (unfold occupied; rewrite N.lor_spec; unfold ub, is_set in Hu; rewrite Hu; reflexivity).
  pose proof (walk_hit_clean _ _ Hsub l Hl Hhit s Hs Ho) as Hxs.
  pose proof (them_not_us s (Hx s Hxs)) as Hc. rewrite Hu in Hc. discriminate.
Qed.

Lemma land_them_sub a b i : N.testbit (N.land (N.land a (c_them p)) b) i = true -> tb p i = true.
Proof. rewrite !N.land_spec. intros H. apply andb_true_iff in H. destruct H as [H _]. apply andb_true_iff in H. destruct H as [_ H]. exact H. Qed.

Lemma ray_case (hasx : bool) (rayf : N -> N -> N) (d : Z * Z) x s :
  (forall sq b, sq < 64 -> rayf sq b = walk_list b (ray_of sq d)) ->
  (forall i, N.testbit x i = true -> tb p i = true) ->
  is_occ (N.land (if hasx then rayf (lsb (N.land (kings p) (c_us p))) (occupied p) else 0) x) = true ->
  N.testbit (if hasx then rayf (lsb (N.land (kings p) (c_us p))) (occupied p) else 0) s = true -> ub p s = false.
Proof.
  intros Hex Hx Hhit Hs.
  apply (ray_not_ours (if hasx then rayf (lsb (N.land (kings p) (c_us p))) (occupied p) else 0) (ray_of (lsb (N.land (kings p) (c_us p))) d) x s); try assumption.
  - destruct hasx; [left; apply Hex; exact ksq_lt|right; reflexivity].
  - intros y Hy. exact (ray_squares_lt _ _ _ _ _ _ Hy).
Qed.

Theorem allowed_not_ours s : N.testbit (allowed_expr p) s = true -> ub p s = false.
Proof.
  unfold allowed_expr. cbv zeta.
  set (hasb := is_occ (N.land (c_them p) (N.lor (bishops p) (queens p)))).
  set (hasr := is_occ (N.land (c_them p) (N.lor (rooks p) (queens p)))).
  set (batt := N.land (N.land _ (c_them p)) (N.lor (bishops p) (queens p))).
  set (ratt := N.land (N.land _ (c_them p)) (N.lor (rooks p) (queens p))).
  assert (Hb : forall i, N.testbit batt i = true -> tb p i = true) by (intros i; apply land_them_sub).
  assert (Hr : forall i, N.testbit ratt i = true -> tb p i = true) by (intros i; apply land_them_sub).
  clearbody hasb hasr batt ratt.
  match goal with |- context [if 1 <? popcount ?a then _ else _] => set (all_att := a) end.
  destruct (1 <? popcount all_att); [rewrite N.bits_0; discriminate|].
  destruct (is_occ (N.land (if hasb then ray_ne _ _ else 0) batt)) eqn:E1; [intros Hs; exact (ray_case hasb ray_ne _ batt s ray_ne_exact Hb E1 Hs)|].
  destruct (is_occ (N.land (if hasb then ray_nw _ _ else 0) batt)) eqn:E2; [intros Hs; exact (ray_case hasb ray_nw _ batt s ray_nw_exact Hb E2 Hs)|].
  destruct (is_occ (N.land (if hasb then ray_se _ _ else 0) batt)) eqn:E3; [intros Hs; exact (ray_case hasb ray_se _ batt s ray_se_exact Hb E3 Hs)|].
  destruct (is_occ (N.land (if hasb then ray_sw _ _ else 0) batt)) eqn:E4; [intros Hs; exact (ray_case hasb ray_sw _ batt s ray_sw_exact Hb E4 Hs)|].
  destruct (is_occ (N.land (if hasr then ray_n _ _ else 0) ratt)) eqn:E5; [intros Hs; exact (ray_case hasr ray_n _ ratt s ray_n_exact Hr E5 Hs)|].
  destruct (is_occ (N.land (if hasr then ray_e _ _ else 0) ratt)) eqn:E6; [intros Hs; exact (ray_case hasr ray_e _ ratt s ray_e_exact Hr E6 Hs)|].
  destruct (is_occ (N.land (if hasr then ray_s _ _ else 0) ratt)) eqn:E7; [intros Hs; exact (ray_case hasr ray_s _ ratt s ray_s_exact Hr E7 Hs)|].
  destruct (is_occ (N.land (if hasr then ray_w _ _ else 0) ratt)) eqn:E8; [intros Hs; exact (ray_case hasr ray_w _ ratt s ray_w_exact Hr E8 Hs)|].
  destruct (is_occ all_att).
  - intros H. unfold all_att in H. rewrite !N.lor_spec in H.
    apply them_not_us.
    repeat (apply orb_true_iff in H; destruct H as [H|H]).
    + rewrite !N.land_spec in H. apply andb_true_iff in H. destruct H as [H _]. apply andb_true_iff in H. destruct H as [_ H]. exact H.
    + rewrite !N.land_spec in H. apply andb_true_iff in H. destruct H as [_ H]. exact H.
    + exact (Hb s H).
    + exact (Hr s H).
  - rewrite testbit_bnot. intros H. apply andb_true_iff in H. destruct H as [_ H]. apply negb_true_iff in H. exact H.
Qed.
Lemma ray_lt (hasx : bool) (rayf : N -> N -> N) (d : Z * Z) s :
  (forall sq b, sq < 64 -> rayf sq b = walk_list b (ray_of sq d)) ->
  N.testbit (if hasx then rayf (lsb (N.land (kings p) (c_us p))) (occupied p) else 0) s = true -> s < 64.
Proof.
  intros Hex Hs. destruct hasx; [|rewrite N.bits_0 in Hs; discriminate].
  rewrite (Hex _ _ ksq_lt) in Hs.
  assert (Hl : forall y, In y (ray_of (lsb (N.land (kings p) (c_us p))) d) -> y < 64) by (intros y Hy; exact (ray_squares_lt _ _ _ _ _ _ Hy)).
  exact (Hl s (walk_list_in _ _ Hl s Hs)).
Qed.

Lemma testbit_lt x s : x < TWO64 -> N.testbit x s = true -> s < 64.
Proof.
  intros Hx Hs. destruct (N.lt_ge_cases s 64) as [H|H]; [exact H|]. rewrite (lt64_testbit_high x s Hx H) in Hs. discriminate.
Qed.

Theorem allowed_lt s : N.testbit (allowed_expr p) s = true -> s < 64.
Proof.
  destruct HB as (B1 & B2 & _).
  unfold allowed_expr. cbv zeta.
  set (hasb := is_occ (N.land (c_them p) (N.lor (bishops p) (queens p)))).
  set (hasr := is_occ (N.land (c_them p) (N.lor (rooks p) (queens p)))).
  set (batt := N.land (N.land _ (c_them p)) (N.lor (bishops p) (queens p))).
  set (ratt := N.land (N.land _ (c_them p)) (N.lor (rooks p) (queens p))).
  assert (Hb : batt < TWO64) by (apply land_lt_l, land_lt_r; exact B2).
  assert (Hr : ratt < TWO64) by (apply land_lt_l, land_lt_r; exact B2).
  clearbody hasb hasr batt ratt.
  match goal with |- context [if 1 <? popcount ?a then _ else _] => set (all_att := a) end.
  destruct (1 <? popcount all_att); [rewrite N.bits_0; discriminate|].
  destruct (is_occ (N.land (if hasb then ray_ne _ _ else 0) batt)); [exact (ray_lt hasb ray_ne _ s ray_ne_exact)|].
  destruct (is_occ (N.land (if hasb then ray_nw _ _ else 0) batt)); [exact (ray_lt hasb ray_nw _ s ray_nw_exact)|].
  destruct (is_occ (N.land (if hasb then ray_se _ _ else 0) batt)); [exact (ray_lt hasb ray_se _ s ray_se_exact)|].
  destruct (is_occ (N.land (if hasb then ray_sw _ _ else 0) batt)); [exact (ray_lt hasb ray_sw _ s ray_sw_exact)|].
  destruct (is_occ (N.land (if hasr then ray_n _ _ else 0) ratt)); [exact (ray_lt hasr ray_n _ s ray_n_exact)|].
  destruct (is_occ (N.land (if hasr then ray_e _ _ else 0) ratt)); [exact (ray_lt hasr ray_e _ s ray_e_exact)|].
  destruct (is_occ (N.land (if hasr then ray_s _ _ else 0) ratt)); [exact (ray_lt hasr ray_s _ s ray_s_exact)|].
  destruct (is_occ (N.land (if hasr then ray_w _ _ else 0) ratt)); [exact (ray_lt hasr ray_w _ s ray_w_exact)|].
  destruct (is_occ all_att).
  - apply testbit_lt. unfold all_att. repeat apply lor_lt; try assumption.
    + apply land_lt_l, land_lt_r. exact B2.
    + apply land_lt_r. exact B2.
  - apply testbit_lt. apply bnot_lt.
Qed.
End Allowed.

(* ------------------------------------------------------------------ a well-formed position *)
Record Good (p : Position) : Prop := {
  g_wf : WF p;
  g_bb : BB8 p;
  g_dis : colours_disjoint p;
  g_king : popcount (N.land (kings p) (c_us p)) = 1;
  g_cf : cf0 p <= 7 /\ cf1 p <= 7 /\ cf2 p <= 7 /\ cf3 p <= 7;
  (* the en-passant square is empty, on the board, and the pawn that passed it stands right below *)
  g_ep : forall e, ep p = Some e -> 8 <= e < 64 /\ empty_at p e /\ holds p (e - 8) true PAWN
}.

Section Blocks.
Variable p : Position.
Hypothesis G : Good p.

Lemma allowed_target s : s < 64 -> N.testbit (gi_allowed (gen_info p)) s = true ->
  ub p s = false /\ (empty_at p s \/ exists c, holds p s true c).
Proof.
  intros Hs H. rewrite gi_allowed_eq in H.
  pose proof (allowed_not_ours p (g_dis p G) (g_bb p G) (g_king p G) s H) as Hu.
  split; [exact Hu|]. apply (not_ours_target p (g_wf p G)); assumption.
Qed.

(* the general shape: our man of kind k on the origin, a target that is not ours *)
Lemma mk_sane from to promo k :
  k <= 5 -> from < 64 -> to < 64 -> ub p from = true -> pb p k from = true -> ub p to = false ->
  (mv_is_ep p (mkMv from to promo) = true -> ep p = Some to) ->
  (promo = NOPIECE \/ (k = PAWN /\ 1 <= promo <= 4)) ->
  sane p (mkMv from to promo) k.
Proof.
  intros Hk Hf Ht Hu Hp Hnt Hep Hpr.
  constructor; cbn [m_from m_to m_promo].
  - exact Hf.
  - exact Ht.
  - intros E. rewrite E, Hnt in Hu. discriminate.
  - apply (ours_holds p (g_wf p G)); assumption.
  - apply (not_ours_target p (g_wf p G)); assumption.
  - apply (kings_rooks_apart p (g_wf p G) (g_bb p G)).
  - intros Hb. pose proof (Hep Hb) as He. destruct (g_ep p G to He) as ((H8 & _) & _ & Hv).
    split; [exact He|split; [exact H8|exact Hv]].
  - exact Hpr.
Qed.

(* a non-pawn mover never makes an en-passant capture *)
Lemma not_ep_piece from to promo k : k <> PAWN -> holds p from false k -> mv_is_ep p (mkMv from to promo) = false.
Proof.
  intros Hk Hh. unfold mv_is_ep, mv_piece. cbn [m_from m_to]. rewrite (holds_piece_on _ _ _ _ Hh).
  destruct (N.eqb_spec k PAWN); [contradiction|reflexivity].
Qed.
End Blocks.

(* ------------------------------------------------------------------ the generator, block by block *)
Definition g_pushers (p : Position) : N :=
  N.land (N.land (pawns p) (c_us p)) (bnot (N.lor (gi_hpinned (gen_info p)) (gi_bpinned (gen_info p)))).
Definition g_singles (p : Position) : N := N.land (N.land (north (g_pushers p)) (empty_bb p)) (gi_allowed (gen_info p)).
Definition g_doubles (p : Position) : N :=
  N.land (N.land (N.land (N.land (north_north (g_pushers p)) (empty_bb p)) (north (empty_bb p))) RANK4) (gi_allowed (gen_info p)).
Definition g_capsrc (p : Position) (x : N) : N :=
  N.land (N.land (N.land (pawns p) (c_us p)) (bnot (gi_rpinned (gen_info p)))) (N.lor (bnot (gi_bpinned (gen_info p))) x).
Definition g_cap_ne (p : Position) : N :=
  N.land (N.land (east (north (g_capsrc p (south_west (gi_bxrays (gen_info p)))))) (c_them p)) (gi_allowed (gen_info p)).
Definition g_cap_nw (p : Position) : N :=
  N.land (N.land (north_west (g_capsrc p (south_east (gi_bxrays (gen_info p))))) (c_them p)) (gi_allowed (gen_info p)).

Definition blk_singles p := flat_map (promo_or_plain 8) (bits (g_singles p)).
Definition blk_doubles p := map (fun to => (PAWN, to - 16, to, NOPIECE)) (bits (g_doubles p)).
Definition blk_cap_ne p := flat_map (promo_or_plain 9) (bits (g_cap_ne p)).
Definition blk_cap_nw p := flat_map (promo_or_plain 7) (bits (g_cap_nw p)).
Definition blk_ep p := match ep p with Some e => ep_candidate p (gen_info p) true e ++ ep_candidate p (gen_info p) false e | None => [] end.
Definition blk_knights p :=
  flat_map (fun from => map (fun to => (KNIGHT, from, to, NOPIECE)) (bits (N.land (knights_bb (bit from)) (gi_allowed (gen_info p)))))
           (bits (N.land (N.land (knights p) (c_us p)) (bnot (gi_pinned (gen_info p))))).
Definition blk_castle_k p :=
  if castle_ok p (gen_info p) (us_ksc p) (sq_of (cf0 p) 0) G1 F1 then [(KING, gi_ksq (gen_info p), sq_of (cf0 p) 0, NOPIECE)] else [].
Definition blk_castle_q p :=
  if castle_ok p (gen_info p) (us_qsc p) (sq_of (cf1 p) 0) C1 D1 then [(KING, gi_ksq (gen_info p), sq_of (cf1 p) 0, NOPIECE)] else [].

Theorem generator_blocks p :
  move_generator p =
  blk_singles p ++ blk_doubles p ++ blk_cap_ne p ++ blk_cap_nw p ++ blk_ep p ++ blk_knights p
  ++ slider_moves BISHOP batt p (N.land (N.land (bishops p) (c_us p)) (gi_bpinned (gen_info p))) (N.land (gi_allowed (gen_info p)) (gi_bxrays (gen_info p)))
  ++ slider_moves BISHOP batt p (N.land (N.land (bishops p) (c_us p)) (bnot (gi_pinned (gen_info p)))) (gi_allowed (gen_info p))
  ++ slider_moves ROOK ratt p (N.land (N.land (rooks p) (c_us p)) (gi_rpinned (gen_info p))) (N.land (gi_allowed (gen_info p)) (gi_rxrays (gen_info p)))
  ++ slider_moves ROOK ratt p (N.land (N.land (rooks p) (c_us p)) (bnot (gi_pinned (gen_info p)))) (gi_allowed (gen_info p))
  ++ slider_moves QUEEN batt p (N.land (N.land (queens p) (c_us p)) (gi_bpinned (gen_info p))) (N.land (gi_allowed (gen_info p)) (gi_bxrays (gen_info p)))
  ++ slider_moves QUEEN ratt p (N.land (N.land (queens p) (c_us p)) (gi_rpinned (gen_info p))) (N.land (gi_allowed (gen_info p)) (gi_rxrays (gen_info p)))
  ++ slider_moves QUEEN qatt p (N.land (N.land (queens p) (c_us p)) (bnot (gi_pinned (gen_info p)))) (gi_allowed (gen_info p))
  ++ king_steps p ++ blk_castle_k p ++ blk_castle_q p.
Proof. reflexivity. Qed.

From Rawr Require Import CountFacts.

Definition gk (g : Gen) : N := fst (fst (fst g)).
Definition NCsane (p : Position) (g : Gen) : Prop :=
  sane p (gen_mv g) (gk g) /\
            (gk g = PAWN -> rank_of (m_to (gen_mv g)) = rank_of (m_from (gen_mv g)) + 1 \/ m_to (gen_mv g) = m_from (gen_mv g) + 16).

Section PieceBlocks.
Variable p : Position.
Hypothesis G : Good p.

Lemma allowed_bit s : N.testbit (gi_allowed (gen_info p)) s = true -> s < 64 /\ ub p s = false.
Proof.
  intros H. rewrite gi_allowed_eq in H. split.
  - exact (allowed_lt p (g_bb p G) (g_king p G) s H).
  - exact (allowed_not_ours p (g_dis p G) (g_bb p G) (g_king p G) s H).
Qed.

(* a non-pawn man of ours going to a square that is not ours *)
Lemma piece_move_sane k from to : k <= 5 -> k <> PAWN -> from < 64 -> to < 64 ->
  ub p from = true -> pb p k from = true -> ub p to = false -> NCsane p (k, from, to, NOPIECE).
Proof.
  intros Hk Hn Hf Ht Hu Hp Hnt. unfold NCsane. cbn [gen_mv gk fst]. split; [|intros E; contradiction].
  apply (mk_sane p G); try assumption; [|left; reflexivity].
  intros Hb. rewrite (not_ep_piece p from to NOPIECE k Hn) in Hb; [discriminate|].
  apply (ours_holds p (g_wf p G)); assumption.
Qed.

Lemma src_bits X Y s (k : N) : X = get_piece p k -> X < TWO64 ->
  In s (bits (N.land (N.land X (c_us p)) Y)) -> s < 64 /\ ub p s = true /\ pb p k s = true.
Proof.
  intros -> HX Hs.
  assert (Hlt : N.land (N.land (get_piece p k) (c_us p)) Y < TWO64) by (apply land_lt_l, land_lt_l; exact HX).
  split; [exact (bits_lt64 _ _ Hlt Hs)|].
  apply bits_spec in Hs. rewrite !N.land_spec in Hs.
  apply andb_true_iff in Hs. destruct Hs as [Hs _]. apply andb_true_iff in Hs. destruct Hs as [H1 H2].
  split; [exact H2|exact H1].
Qed.

Lemma piece_lt k : k <= 5 -> get_piece p k < TWO64.
Proof. intros Hk. destruct (g_bb p G) as (_ & _ & B3 & B4 & B5 & B6 & B7 & B8). kinds k Hk; assumption. Qed.

Lemma slider_block k att Y targets g : k <= 5 -> k <> PAWN ->
  (forall s, N.testbit targets s = true -> N.testbit (gi_allowed (gen_info p)) s = true) ->
  In g (slider_moves k att p (N.land (N.land (get_piece p k) (c_us p)) Y) targets) -> NCsane p g.
Proof.
  intros Hk Hn Ht Hg. unfold slider_moves in Hg. apply in_flat_map in Hg. destruct Hg as (from & Hf & Hg).
  apply in_map_iff in Hg. destruct Hg as (to & <- & Hto).
  destruct (src_bits _ Y from k eq_refl (piece_lt k Hk) Hf) as (Hf64 & Hu & Hp).
  apply bits_spec in Hto. rewrite N.land_spec in Hto. apply andb_true_iff in Hto. destruct Hto as [_ Hto].
  destruct (allowed_bit to (Ht to Hto)) as (Ht64 & Hnt).
  apply piece_move_sane; assumption.
Qed.

Lemma knight_block g : In g (blk_knights p) -> NCsane p g.
Proof.
  unfold blk_knights. intros Hg. apply in_flat_map in Hg. destruct Hg as (from & Hf & Hg).
  apply in_map_iff in Hg. destruct Hg as (to & <- & Hto).
  destruct (src_bits (knights p) _ from 1 eq_refl (piece_lt 1 ltac:(lia)) Hf) as (Hf64 & Hu & Hp).
  apply bits_spec in Hto. rewrite N.land_spec in Hto. apply andb_true_iff in Hto. destruct Hto as [_ Hto].
  destruct (allowed_bit to Hto) as (Ht64 & Hnt).
  apply piece_move_sane; try assumption; unfold KNIGHT, PAWN; lia.
Qed.

Lemma king_block g : In g (king_steps p) -> NCsane p g.
Proof.
  unfold king_steps. intros Hg. apply in_flat_map in Hg. destruct Hg as (from & Hf & Hg).
  apply in_flat_map in Hg. destruct Hg as (to & Hto & Hg).
  match type of Hg with In _ (if ?c then _ else _) => destruct c; [|contradiction] end.
  destruct Hg as [<-|[]].
  assert (HfK : In from (bits (N.land (N.land (kings p) (c_us p)) (N.ones 64)))).
  { apply bits_spec. apply bits_spec in Hf. rewrite N.land_spec, Hf. cbn [andb].
    rewrite <- M64_ones, testbit_M64. apply N.ltb_lt.
    apply (bits_lt64 (N.land (kings p) (c_us p)) from); [apply land_lt_l, (piece_lt 5); lia|apply bits_spec; exact Hf]. }
  destruct (src_bits (kings p) _ from 5 eq_refl (piece_lt 5 ltac:(lia)) HfK) as (Hf64 & Hu & Hp).
  apply bits_spec in Hto. rewrite N.land_spec, testbit_bnot in Hto.
  apply andb_true_iff in Hto. destruct Hto as [_ Hto]. apply andb_true_iff in Hto. destruct Hto as [Hlt Hnt].
  apply N.ltb_lt in Hlt. apply negb_true_iff in Hnt.
  apply piece_move_sane; try assumption; unfold KING, PAWN; lia.
Qed.
End PieceBlocks.

Lemma file_sub8 t : 8 <= t -> file_of (t - 8) = file_of t.
Proof. intros H. unfold file_of. replace t with (t - 8 + 1 * 8) at 2 by lia. rewrite N.mod_add by lia. reflexivity. Qed.
Lemma file_sub16 t : 16 <= t -> file_of (t - 16) = file_of t.
Proof. intros H. unfold file_of. replace t with (t - 16 + 2 * 8) at 2 by lia. rewrite N.mod_add by lia. reflexivity. Qed.

Section PawnBlocks.
Variable p : Position.
Hypothesis G : Good p.

Lemma pawn_src s Y : N.testbit (N.land (N.land (pawns p) (c_us p)) Y) s = true -> ub p s = true /\ pb p 0 s = true.
Proof.
  rewrite !N.land_spec. intros H. apply andb_true_iff in H. destruct H as [H _]. apply andb_true_iff in H. destruct H as [H1 H2].
  split; [exact H2|exact H1].
Qed.

Lemma empty_bit s : N.testbit (empty_bb p) s = true -> ub p s = false.
Proof.
  unfold empty_bb, occupied. rewrite testbit_bnot, N.lor_spec. intros H. apply andb_true_iff in H. destruct H as [_ H].
  apply negb_true_iff, orb_false_iff in H. exact (proj1 H).
Qed.

(* what promo_or_plain emits *)
Lemma promo_or_plain_in delta to g : In g (promo_or_plain delta to) ->
  exists pr, g = (PAWN, to - delta, to, pr) /\ (pr = NOPIECE \/ 1 <= pr <= 4).
Proof.
  unfold promo_or_plain. cbv zeta. destruct (rank_of to =? 7); cbn [In]; intros H.
  - repeat destruct H as [<-|H]; try contradiction; eexists; (split; [reflexivity|right; unfold QUEEN, ROOK, BISHOP, KNIGHT; lia]).
  - destruct H as [<-|[]]. eexists. split; [reflexivity|left; reflexivity].
Qed.

(* a pawn of ours from `from` to a square that is not ours, one rank up or two squares straight up, not en passant *)
Lemma pawn_move_sane from to pr : from < 64 -> to < 64 -> ub p from = true -> pb p 0 from = true -> ub p to = false ->
  mv_is_ep p (mkMv from to pr) = false -> (pr = NOPIECE \/ 1 <= pr <= 4) ->
  (rank_of to = rank_of from + 1 \/ to = from + 16) -> NCsane p (PAWN, from, to, pr).
Proof.
  intros Hf Ht Hu Hp Hnt Hne Hpr Hgeo. unfold NCsane. cbn [gen_mv m_from m_to gk fst]. split; [|intros _; exact Hgeo].
  apply (mk_sane p G); try assumption; try (unfold PAWN; lia).
  all: try (intros Hb; rewrite Hne in Hb; discriminate).
  all: destruct Hpr as [E|E]; [left; exact E|right; split; [reflexivity|exact E]].
Qed.

Lemma same_file_not_ep from to pr : file_of from = file_of to -> mv_is_ep p (mkMv from to pr) = false.
Proof. intros E. unfold mv_is_ep. cbn [m_from m_to]. rewrite E, N.eqb_refl. cbn [negb]. rewrite andb_false_r. reflexivity. Qed.

Lemma occupied_not_ep from to pr c : holds p to true c -> mv_is_ep p (mkMv from to pr) = false.
Proof. intros H. unfold mv_is_ep. cbn [m_from m_to]. rewrite (holds_piece_on _ _ _ _ H). apply andb_false_r. Qed.

Lemma singles_block g : In g (blk_singles p) -> NCsane p g.
Proof.
  unfold blk_singles. intros Hg. apply in_flat_map in Hg. destruct Hg as (to & Hto & Hg).
  destruct (promo_or_plain_in _ _ _ Hg) as (pr & -> & Hpr).
  apply bits_spec in Hto. unfold g_singles in Hto. rewrite !N.land_spec in Hto.
  apply andb_true_iff in Hto. destruct Hto as [Hto Ha]. apply andb_true_iff in Hto. destruct Hto as [Hn He].
  rewrite testbit_north in Hn. apply andb_true_iff in Hn. destruct Hn as [Hn Hs]. apply andb_true_iff in Hn. destruct Hn as [Hlt H8].
  apply N.ltb_lt in Hlt. apply N.leb_le in H8. unfold g_pushers in Hs. destruct (pawn_src _ _ Hs) as (Hu & Hp).
  apply pawn_move_sane; try assumption; try lia.
  all: match goal with
       | |- ub p _ = false => exact (empty_bit to He)
       | |- mv_is_ep _ _ = false => apply same_file_not_ep; apply file_sub8; lia
       | |- _ \/ _ => left; unfold rank_of; lia
       end.
Qed.

Lemma doubles_block g : In g (blk_doubles p) -> NCsane p g.
Proof.
  unfold blk_doubles. intros Hg. apply in_map_iff in Hg. destruct Hg as (to & <- & Hto).
  apply bits_spec in Hto. unfold g_doubles in Hto. rewrite !N.land_spec in Hto.
  repeat (apply andb_true_iff in Hto; destruct Hto as [Hto ?]).
  unfold north_north in Hto. rewrite testbit_shl in Hto.
  apply andb_true_iff in Hto. destruct Hto as [Hn Hs]. apply andb_true_iff in Hn. destruct Hn as [Hlt H16].
  apply N.ltb_lt in Hlt. apply N.leb_le in H16. unfold g_pushers in Hs. destruct (pawn_src _ _ Hs) as (Hu & Hp).
  apply pawn_move_sane; try assumption; try lia.
  all: match goal with
       | |- ub p _ = false => match goal with He : N.testbit (empty_bb p) ?t = true |- _ => exact (empty_bit t He) end
       | |- mv_is_ep _ _ = false => apply same_file_not_ep; apply file_sub16; lia
       | |- NOPIECE = NOPIECE \/ _ => left; reflexivity
       | |- _ \/ _ => right; lia
       end.
Qed.

Lemma capture_block delta (shifted : N) g :
  (forall to, N.testbit shifted to = true -> to < 64 /\ delta <= to /\ (ub p (to - delta) = true /\ pb p 0 (to - delta) = true)
                                             /\ rank_of to = rank_of (to - delta) + 1) ->
  In g (flat_map (promo_or_plain delta) (bits (N.land (N.land shifted (c_them p)) (gi_allowed (gen_info p))))) -> NCsane p g.
Proof.
  intros Hsh Hg. apply in_flat_map in Hg. destruct Hg as (to & Hto & Hg).
  destruct (promo_or_plain_in _ _ _ Hg) as (pr & -> & Hpr).
  apply bits_spec in Hto. rewrite !N.land_spec in Hto.
  apply andb_true_iff in Hto. destruct Hto as [Hto Ha]. apply andb_true_iff in Hto. destruct Hto as [Hs Ht].
  destruct (Hsh to Hs) as (Hlt & Hd & (Hu & Hp) & Hr).
  destruct (theirs_holds p (g_wf p G) to Hlt Ht) as (c & Hc).
  apply pawn_move_sane; try assumption; try lia.
  all: match goal with
       | |- ub p _ = false => exact (them_not_us p (g_dis p G) to Ht)
       | |- mv_is_ep _ _ = false => exact (occupied_not_ep _ _ _ c Hc)
       | |- _ \/ _ => left; exact Hr
       end.
Qed.

Lemma capsrc_bits x s : N.testbit (g_capsrc p x) s = true -> ub p s = true /\ pb p 0 s = true.
Proof.
  unfold g_capsrc. rewrite N.land_spec. intros H. apply andb_true_iff in H. destruct H as [H _].
  exact (pawn_src s _ H).
Qed.

Lemma cap_ne_block g : In g (blk_cap_ne p) -> NCsane p g.
Proof.
  unfold blk_cap_ne, g_cap_ne. apply capture_block. intros to H. rewrite east_north, testbit_north_east in H.
  repeat (apply andb_true_iff in H; destruct H as [H ?]).
  apply N.ltb_lt in H. match goal with X : (9 <=? to) = true |- _ => apply N.leb_le in X end.
  match goal with X : negb (to mod 8 =? 0) = true |- _ => apply negb_true_iff, N.eqb_neq in X end.
  split; [exact H|split; [assumption|split]].
  - apply (capsrc_bits (south_west (gi_bxrays (gen_info p)))). assumption.
  - unfold rank_of. lia.
Qed.

Lemma cap_nw_block g : In g (blk_cap_nw p) -> NCsane p g.
Proof.
  unfold blk_cap_nw, g_cap_nw. apply capture_block. intros to H. rewrite testbit_north_west in H.
  repeat (apply andb_true_iff in H; destruct H as [H ?]).
  apply N.ltb_lt in H. match goal with X : (7 <=? to) = true |- _ => apply N.leb_le in X end.
  match goal with X : negb (to mod 8 =? 7) = true |- _ => apply negb_true_iff, N.eqb_neq in X end.
  split; [exact H|split; [assumption|split]].
  - apply (capsrc_bits (south_east (gi_bxrays (gen_info p)))). assumption.
  - unfold rank_of. lia.
Qed.

(* en passant *)
Lemma ep_block g : In g (blk_ep p) -> NCsane p g.
Proof.
  unfold blk_ep. destruct (ep p) as [e|] eqn:Ee; [|contradiction].
  destruct (g_ep p G e Ee) as ((H8 & H64) & Hemp & Hv).
  assert (Hcand : forall (ne : bool), In g (ep_candidate p (gen_info p) ne e) -> NCsane p g).
  { intros ne Hg. unfold ep_candidate in Hg. cbv zeta in Hg.
    match type of Hg with In _ (if is_set ?sh e then _ else _) => destruct (is_set sh e) eqn:Hsh; [|contradiction] end.
    match type of Hg with In _ (if ?c then _ else _) => destruct c; [|contradiction] end.
    destruct Hg as [<-|[]].
    unfold is_set in Hsh.
    assert (Hsrc : let d := if ne then 9 else 7 in d <= e /\ ub p (e - d) = true /\ pb p 0 (e - d) = true /\ rank_of e = rank_of (e - d) + 1 /\ file_of (e - d) <> file_of e).
    { destruct ne; cbv zeta.
      - rewrite testbit_north_east in Hsh. repeat (apply andb_true_iff in Hsh; destruct Hsh as [Hsh ?]).
        match goal with X : (9 <=? e) = true |- _ => apply N.leb_le in X end.
        match goal with X : negb (e mod 8 =? 0) = true |- _ => apply negb_true_iff, N.eqb_neq in X end.
        match goal with X : N.testbit _ (e - 9) = true |- _ => rewrite !N.land_spec in X; repeat (apply andb_true_iff in X; destruct X as [X ?]) end.
        unfold ub, pb, is_set, rank_of, file_of. cbn [get_piece]. repeat split; try assumption; lia.
      - rewrite testbit_north_west in Hsh. repeat (apply andb_true_iff in Hsh; destruct Hsh as [Hsh ?]).
        match goal with X : (7 <=? e) = true |- _ => apply N.leb_le in X end.
        match goal with X : negb (e mod 8 =? 7) = true |- _ => apply negb_true_iff, N.eqb_neq in X end.
        match goal with X : N.testbit _ (e - 7) = true |- _ => rewrite !N.land_spec in X; repeat (apply andb_true_iff in X; destruct X as [X ?]) end.
        unfold ub, pb, is_set, rank_of, file_of. cbn [get_piece]. repeat split; try assumption; lia. }
    cbv zeta in Hsrc. destruct Hsrc as (Hd & Hu & Hp & Hr & Hfile).
    unfold NCsane. cbn [gen_mv m_from m_to gk fst]. split; [|intros _; left; exact Hr].
    apply (mk_sane p G); try assumption; try (unfold PAWN; lia); try (destruct ne; lia).
    all: try (destruct Hemp as (Hue & _); exact Hue).
    all: try (intros _; exact Ee).
    all: try (left; reflexivity). }
  intros Hg. apply in_app_or in Hg. destruct Hg as [Hg|Hg]; [exact (Hcand true Hg)|exact (Hcand false Hg)].
Qed.
End PawnBlocks.

(* ------------------------------------------------------------------ castling *)
Lemma gi_ksq_eq p : gi_ksq (gen_info p) = lsb (N.land (kings p) (c_us p)).
Proof.
  unfold gen_info. cbv zeta.
  repeat match goal with |- context [let '(a, b) := ?x in _] => destruct x end.
  reflexivity.
Qed.

(* what castling needs of the position beyond Good: rights are backed by rooks, the king stands on the home rank between them *)
Record CastleGood (p : Position) : Prop := {
  cg_k : us_ksc p = true -> holds p (sq_of (cf0 p) 0) false ROOK /\ lsb (N.land (kings p) (c_us p)) < sq_of (cf0 p) 0;
  cg_q : us_qsc p = true -> holds p (sq_of (cf1 p) 0) false ROOK /\ sq_of (cf1 p) 0 < lsb (N.land (kings p) (c_us p)) < 8
}.

Lemma line_between_end s1 s2 : s2 < 64 -> N.testbit (line_between s1 s2) s2 = true.
Proof. intros H. unfold line_between. rewrite N.lor_spec, (testbit_bit s2 s2 H), N.eqb_refl. apply orb_true_r. Qed.

Section CastleBlock.
Variable p : Position.
Hypothesis G : Good p.
Hypothesis CG : CastleGood p.
Let ksq := lsb (N.land (kings p) (c_us p)).

Lemma king_holds : holds p ksq false KING /\ ksq < 64.
Proof.
  pose proof (ksq_lt p (g_bb p G) (g_king p G)) as Hlt. fold ksq in Hlt. split; [|exact Hlt].
  pose proof (lsb_set _ (popcount1_nonzero _ (g_king p G))) as Hs. fold ksq in Hs. rewrite N.land_spec in Hs.
  apply andb_true_iff in Hs. destruct Hs as [Hk Hu].
  apply (ours_holds p (g_wf p G)); [unfold KING; lia|exact Hlt|exact Hu|exact Hk].
Qed.

(* the emptiness test of castle_ok, read at one square of the two paths *)
Lemma path_square rook_sq king_to rook_to x :
  is_emp (N.land (N.land (N.land (occupied p) (N.lor (line_between ksq king_to) (line_between rook_sq rook_to))) (bnot (bit ksq))) (bnot (bit rook_sq))) = true ->
  x < 64 -> rook_sq < 64 ->
  N.testbit (N.lor (line_between ksq king_to) (line_between rook_sq rook_to)) x = true ->
  x = ksq \/ x = rook_sq \/ empty_at p x.
Proof.
  intros He Hx Hr Hin. destruct king_holds as (_ & Hk).
  destruct (N.eq_dec x ksq) as [E1|N1]; [left; exact E1|]. destruct (N.eq_dec x rook_sq) as [E2|N2]; [right; left; exact E2|].
  right; right. unfold is_emp in He. apply N.eqb_eq in He.
  assert (Hb : N.testbit (N.land (N.land (N.land (occupied p) (N.lor (line_between ksq king_to) (line_between rook_sq rook_to))) (bnot (bit ksq))) (bnot (bit rook_sq))) x = false)
    by (rewrite He; apply N.bits_0).
  rewrite !N.land_spec, !testbit_bnot, Hin, !testbit_bit in Hb by assumption.
  replace (x <? 64) with true in Hb by (symmetry; apply N.ltb_lt; exact Hx).
  replace (x =? ksq) with false in Hb by (symmetry; apply N.eqb_neq; exact N1).
  replace (x =? rook_sq) with false in Hb by (symmetry; apply N.eqb_neq; exact N2).
  cbn [negb andb] in Hb. rewrite !andb_true_r in Hb.
  unfold occupied in Hb. rewrite N.lor_spec in Hb. apply orb_false_iff in Hb. destruct Hb as [Hu Ht].
  apply (vacant_empty p (g_wf p G)); assumption.
Qed.

Lemma castle_block_k g : In g (blk_castle_k p) -> csane p (gen_mv g) true /\ us_ksc p = true.
Proof.
  unfold blk_castle_k. destruct (castle_ok p (gen_info p) (us_ksc p) (sq_of (cf0 p) 0) G1 F1) eqn:Hc; [|contradiction].
  intros [<-|[]]. cbn [gen_mv]. rewrite gi_ksq_eq. fold ksq.
  unfold castle_ok in Hc. cbv zeta in Hc. rewrite gi_ksq_eq in Hc. fold ksq in Hc.
  repeat (apply andb_true_iff in Hc; destruct Hc as [Hc ?]).
  destruct (cg_k p CG Hc) as (Hrook & Hlt). fold ksq in Hlt. destruct king_holds as (Hking & Hk64).
  destruct (g_cf p G) as (C0 & _).
  assert (Hrs : sq_of (cf0 p) 0 < 8) by (unfold sq_of; lia).
  split; [|exact Hc].
  constructor; cbn [m_from m_to m_promo]; try assumption; try reflexivity.
  - lia.
  - lia.
  - symmetry. apply N.ltb_lt. exact Hlt.
  - match goal with X : is_emp _ = true |- _ => apply (path_square _ G1 F1 G1 X) end; [unfold G1; lia|lia|].
    rewrite N.lor_spec, line_between_end by (unfold G1; lia). reflexivity.
  - match goal with X : is_emp _ = true |- _ => apply (path_square _ G1 F1 F1 X) end; [unfold F1; lia|lia|].
    rewrite N.lor_spec, (line_between_end (sq_of (cf0 p) 0) F1) by (unfold F1; lia). apply orb_true_r.
Qed.

Lemma castle_block_q g : In g (blk_castle_q p) -> csane p (gen_mv g) false /\ us_qsc p = true.
Proof.
  unfold blk_castle_q. destruct (castle_ok p (gen_info p) (us_qsc p) (sq_of (cf1 p) 0) C1 D1) eqn:Hc; [|contradiction].
  intros [<-|[]]. cbn [gen_mv]. rewrite gi_ksq_eq. fold ksq.
  unfold castle_ok in Hc. cbv zeta in Hc. rewrite gi_ksq_eq in Hc. fold ksq in Hc.
  repeat (apply andb_true_iff in Hc; destruct Hc as [Hc ?]).
  destruct (cg_q p CG Hc) as (Hrook & Hlt & Hk8). fold ksq in Hlt, Hk8. destruct king_holds as (Hking & Hk64).
  destruct (g_cf p G) as (_ & C1' & _).
  assert (Hrs : sq_of (cf1 p) 0 < 8) by (unfold sq_of; lia).
  split; [|exact Hc].
  constructor; cbn [m_from m_to m_promo]; try assumption; try reflexivity.
  - lia.
  - symmetry. apply N.ltb_ge. lia.
  - match goal with X : is_emp _ = true |- _ => apply (path_square _ C1 D1 C1 X) end; [unfold C1; lia|lia|].
    rewrite N.lor_spec, line_between_end by (unfold C1; lia). reflexivity.
  - match goal with X : is_emp _ = true |- _ => apply (path_square _ C1 D1 D1 X) end; [unfold D1; lia|lia|].
    rewrite N.lor_spec, (line_between_end (sq_of (cf1 p) 0) D1) by (unfold D1; lia). apply orb_true_r.
Qed.
End CastleBlock.

(* ------------------------------------------------------------------ every generated move, classified *)
Theorem generated_move_cases p g : Good p -> In g (move_generator p) ->
  NCsane p g \/ In g (blk_castle_k p) \/ In g (blk_castle_q p).
Proof.
  intros G Hg. rewrite generator_blocks in Hg.
  repeat (apply in_app_or in Hg; destruct Hg as [Hg|Hg]).
  - left. exact (singles_block p G g Hg).
  - left. exact (doubles_block p G g Hg).
  - left. exact (cap_ne_block p G g Hg).
  - left. exact (cap_nw_block p G g Hg).
  - left. exact (ep_block p G g Hg).
  - left. exact (knight_block p G g Hg).
  - left. change (bishops p) with (get_piece p BISHOP) in Hg. refine (slider_block p G BISHOP batt _ _ g _ _ _ Hg); try (unfold BISHOP, PAWN; lia).
    intros s H. rewrite N.land_spec in H. apply andb_true_iff in H. exact (proj1 H).
  - left. change (bishops p) with (get_piece p BISHOP) in Hg. refine (slider_block p G BISHOP batt _ _ g _ _ _ Hg); try (unfold BISHOP, PAWN; lia). intros s H. exact H.
  - left. change (rooks p) with (get_piece p ROOK) in Hg. refine (slider_block p G ROOK ratt _ _ g _ _ _ Hg); try (unfold ROOK, PAWN; lia).
    intros s H. rewrite N.land_spec in H. apply andb_true_iff in H. exact (proj1 H).
  - left. change (rooks p) with (get_piece p ROOK) in Hg. refine (slider_block p G ROOK ratt _ _ g _ _ _ Hg); try (unfold ROOK, PAWN; lia). intros s H. exact H.
  - left. change (queens p) with (get_piece p QUEEN) in Hg. refine (slider_block p G QUEEN batt _ _ g _ _ _ Hg); try (unfold QUEEN, PAWN; lia).
    intros s H. rewrite N.land_spec in H. apply andb_true_iff in H. exact (proj1 H).
  - left. change (queens p) with (get_piece p QUEEN) in Hg. refine (slider_block p G QUEEN ratt _ _ g _ _ _ Hg); try (unfold QUEEN, PAWN; lia).
    intros s H. rewrite N.land_spec in H. apply andb_true_iff in H. exact (proj1 H).
  - left. change (queens p) with (get_piece p QUEEN) in Hg. refine (slider_block p G QUEEN qatt _ _ g _ _ _ Hg); try (unfold QUEEN, PAWN; lia). intros s H. exact H.
  - left. exact (king_block p G g Hg).
  - right. left. exact Hg.
  - right. right. exact Hg.
Qed.

Theorem generated_move_sane p g : Good p -> CastleGood p -> In g (move_generator p) ->
  NCsane p g \/ (csane p (gen_mv g) true /\ us_ksc p = true) \/ (csane p (gen_mv g) false /\ us_qsc p = true).
Proof.
  intros G CG Hg. destruct (generated_move_cases p g G Hg) as [H|[H|H]].
  - left. exact H.
  - right. left. exact (castle_block_k p G CG g H).
  - right. right. exact (castle_block_q p G CG g H).
Qed.

Lemma king_comm p : popcount (N.land (c_us p) (kings p)) = popcount (N.land (kings p) (c_us p)).
Proof. rewrite N.land_comm. reflexivity. Qed.

(* C02 without a per-move premise: every move the generator emits on a well-formed position refines the rules *)
Theorem legal_moves_refine u p m : Good p -> CastleGood p -> In m (legal_moves p) ->
  abs_state (makemove u p m) = apply (abs_state p) (dec p m).
Proof.
  intros G CG Hm. unfold legal_moves in Hm. apply in_map_iff in Hm. destruct Hm as (g & <- & Hg).
  assert (Hku : popcount (N.land (c_us p) (kings p)) = 1) by (rewrite king_comm; exact (g_king p G)).
  destruct (generated_move_sane p g G CG Hg) as [(S & Hpw) | [(S & _) | (S & _)]]. 1: set (k := gk g) in *.
  - exact (makemove_refines_noncastling u p (gen_mv g) k S (g_dis p G) Hku (g_cf p G) Hpw).
  - exact (makemove_refines_castling u p (gen_mv g) true S (g_dis p G) Hku (g_cf p G)).
  - exact (makemove_refines_castling u p (gen_mv g) false S (g_dis p G) Hku (g_cf p G)).
Qed.

(* C04 without a per-move premise *)
From Rawr Require Import KeyMove.

Record KeyGood (p : Position) : Prop := {
  kg_tk : them_ksc p = true -> tb p (sq_of (cf2 p) 7) = true;
  kg_tq : them_qsc p = true -> tb p (sq_of (cf3 p) 7) = true;
  kg_hash : hash p = calculate_hash p
}.

Theorem legal_moves_keys u p m : Good p -> CastleGood p -> KeyGood p -> In m (legal_moves p) ->
  predict_hash p m = calculate_hash (makemove u p m).
Proof.
  intros G CG KG Hm. unfold legal_moves in Hm. apply in_map_iff in Hm. destruct Hm as (g & <- & Hg).
  assert (Hku : popcount (N.land (c_us p) (kings p)) = 1) by (rewrite king_comm; exact (g_king p G)).
  assert (Hepl : forall e, ep p = Some e -> e < 64) by (intros e He; destruct (g_ep p G e He) as ((_ & H) & _); exact H).
  assert (Hbk : us_ksc p = true -> holds p (sq_of (cf0 p) 0) false ROOK) by (intros H; exact (proj1 (cg_k p CG H))).
  assert (Hbq : us_qsc p = true -> holds p (sq_of (cf1 p) 0) false ROOK) by (intros H; exact (proj1 (cg_q p CG H))).
  destruct (generated_move_sane p g G CG Hg) as [(S & Hpw) | [(S & Hf) | (S & Hf)]]. 1: set (k := gk g) in *.
  - exact (predict_noncastling u p (gen_mv g) k S (g_dis p G) Hku (g_bb p G) (g_wf p G) Hepl Hbk Hbq (kg_tk p KG) (kg_tq p KG) Hpw (kg_hash p KG)).
  - apply (predict_castling u p (gen_mv g) true S (g_dis p G) Hku (g_bb p G) (g_wf p G) Hbk Hbq Hf); [| |exact (kg_hash p KG)].
    + intros H. (* the generated castling move starts from the king's square *)
      assert (E : m_from (gen_mv g) = lsb (N.land (kings p) (c_us p))).
      { destruct (cs_king _ _ _ S) as (_ & Hu & _ & Hp). 
        apply lsb_unique; [exact (g_king p G)|]. rewrite N.land_spec. change (pb p 5 (m_from (gen_mv g)) && ub p (m_from (gen_mv g)) = true).
        rewrite Hu, (Hp 5) by lia. reflexivity. }
      rewrite E. exact (proj2 (cg_k p CG H)).
    + intros H.
      assert (E : m_from (gen_mv g) = lsb (N.land (kings p) (c_us p))).
      { destruct (cs_king _ _ _ S) as (_ & Hu & _ & Hp).
        apply lsb_unique; [exact (g_king p G)|]. rewrite N.land_spec. change (pb p 5 (m_from (gen_mv g)) && ub p (m_from (gen_mv g)) = true).
        rewrite Hu, (Hp 5) by lia. reflexivity. }
      rewrite E. exact (proj1 (proj2 (cg_q p CG H))).
  - apply (predict_castling u p (gen_mv g) false S (g_dis p G) Hku (g_bb p G) (g_wf p G) Hbk Hbq Hf); [| |exact (kg_hash p KG)].
    + intros H.
      assert (E : m_from (gen_mv g) = lsb (N.land (kings p) (c_us p))).
      { destruct (cs_king _ _ _ S) as (_ & Hu & _ & Hp).
        apply lsb_unique; [exact (g_king p G)|]. rewrite N.land_spec. change (pb p 5 (m_from (gen_mv g)) && ub p (m_from (gen_mv g)) = true).
        rewrite Hu, (Hp 5) by lia. reflexivity. }
      rewrite E. exact (proj2 (cg_k p CG H)).
    + intros H.
      assert (E : m_from (gen_mv g) = lsb (N.land (kings p) (c_us p))).
      { destruct (cs_king _ _ _ S) as (_ & Hu & _ & Hp).
        apply lsb_unique; [exact (g_king p G)|]. rewrite N.land_spec. change (pb p 5 (m_from (gen_mv g)) && ub p (m_from (gen_mv g)) = true).
        rewrite Hu, (Hp 5) by lia. reflexivity. }
      rewrite E. exact (proj1 (proj2 (cg_q p CG H))).
Qed.

Theorem legal_moves_keep_key_invariant p m : Good p -> CastleGood p -> KeyGood p -> In m (legal_moves p) ->
  hash (makemove true p m) = calculate_hash (makemove true p m).
Proof. intros G CG KG Hm. rewrite makemove_stores_prediction. exact (legal_moves_keys true p m G CG KG Hm). Qed.

(* ------------------------------------------------------------------ under the executable position test *)
Theorem good_pos_sound p : good_pos_b p = true -> Good p /\ CastleGood p /\ KeyGood p.
Proof.
  unfold good_pos_b. cbv zeta. intros H.
  apply andb_true_iff in H. destruct H as [H P0]. apply andb_true_iff in H. destruct H as [H P1].
  apply andb_true_iff in H. destruct H as [H P2]. apply andb_true_iff in H. destruct H as [H P3].
  apply andb_true_iff in H. destruct H as [H P4]. apply andb_true_iff in H. destruct H as [H P5].
  apply andb_true_iff in H. destruct H as [H P6]. apply andb_true_iff in H. destruct H as [H P7].
  apply andb_true_iff in H. destruct H as [H P8].
  unfold key_pos_b in H.
  apply andb_true_iff in H. destruct H as [H K]. apply andb_true_iff in H. destruct H as [H K0].
  apply andb_true_iff in H. destruct H as [H K1]. apply andb_true_iff in H. destruct H as [H K2].
  apply andb_true_iff in H. destruct H as [H K3]. apply andb_true_iff in H. destruct H as [H K4].
  apply andb_true_iff in H. destruct H as [H K5].
  pose proof (bb8_sound p H) as HB. pose proof (WF_sound p K5) as HW.
  apply N.eqb_eq in K, P8, P7. apply N.leb_le in P6, P5, P4, P3.
  pose proof (implb_sound _ _ _ (holds_b_sound p _ false ROOK) K3) as Hbk.
  pose proof (implb_sound _ _ _ (holds_b_sound p _ false ROOK) K2) as Hbq.
  pose proof (implb_sound _ _ _ (fun x => x) K1) as Htk.
  pose proof (implb_sound _ _ _ (fun x => x) K0) as Htq.
  split; [|split].
  - constructor; try assumption.
    + repeat split; assumption.
    + intros e He. rewrite He in P2.
      repeat (apply andb_true_iff in P2; destruct P2 as [P2 ?]).
      apply N.leb_le in P2. match goal with X : (e <? 64) = true |- _ => apply N.ltb_lt in X end.
      split; [split; assumption|split; [apply empty_b_sound; assumption|apply holds_b_sound; assumption]].
  - constructor.
    + intros Hf. split; [exact (Hbk Hf)|]. rewrite Hf in P1. cbn in P1. apply N.ltb_lt in P1. exact P1.
    + intros Hf. split; [exact (Hbq Hf)|]. rewrite Hf in P0. cbn in P0. apply andb_true_iff in P0. destruct P0 as [A B].
      apply N.ltb_lt in A, B. split; assumption.
  - constructor; assumption.
Qed.

Theorem good_pos_refines u p m : good_pos_b p = true -> In m (legal_moves p) ->
  abs_state (makemove u p m) = apply (abs_state p) (dec p m).
Proof. intros H. destruct (good_pos_sound p H) as (G & CG & _). exact (legal_moves_refine u p m G CG). Qed.

Theorem good_pos_keys u p m : good_pos_b p = true -> In m (legal_moves p) ->
  predict_hash p m = calculate_hash (makemove u p m).
Proof. intros H. destruct (good_pos_sound p H) as (G & CG & KG). exact (legal_moves_keys u p m G CG KG). Qed.

Theorem good_pos_key_invariant p m : good_pos_b p = true -> In m (legal_moves p) ->
  hash (makemove true p m) = calculate_hash (makemove true p m).
Proof. intros H. destruct (good_pos_sound p H) as (G & CG & KG). exact (legal_moves_keep_key_invariant p m G CG KG). Qed.
