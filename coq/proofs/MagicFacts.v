(* C10 core: the magic lookup (table written by build.rs, indexed by magic.rs) equals the coordinate
   ray walk for every square and EVERY occupancy.  Finite part: one vm_compute sweep over the 64
   squares x all subsets of the relevant mask (107 648 cases) on the constants regenerated from the
   source; unbounded part: the lifting lemmas below. *)
From Coq Require Import NArith ZArith List Bool Lia FMapPositive.
From Rawr Require Import Consts Bits Magic BitsFacts.
Import ListNotations.
Local Open Scope N_scope.

(* ---- enumeration of all subsets of a list of bit positions *)
Fixpoint sweep (bs : list N) (acc : N) (P : N -> bool) : bool :=
  match bs with
  | [] => P acc
  | b :: t => sweep t acc P && sweep t (N.lor acc (bit b)) P
  end.

Lemma sweep_complete bs : forall acc P,
  sweep bs acc P = true ->
  (forall b, In b bs -> b < 64) ->
  forall x, (forall i, N.testbit x i = true -> In i bs) -> P (N.lor acc x) = true.
Proof.
  induction bs as [|b t IH]; intros acc P Hs Hlt x Hx; cbn [sweep] in Hs.
  - assert (x = 0) as ->.
    { apply N.bits_inj. intros i. rewrite N.bits_0.
      destruct (N.testbit x i) eqn:E; [destruct (Hx i E)|reflexivity]. }
    rewrite N.lor_0_r. exact Hs.
  - apply andb_prop in Hs. destruct Hs as [Hs0 Hs1].
    assert (Hb : b < 64) by (apply Hlt; left; reflexivity).
    assert (Hlt' : forall c, In c t -> c < 64) by (intros c Hc; apply Hlt; right; exact Hc).
    destruct (N.testbit x b) eqn:Eb.
    + set (x' := N.clearbit x b).
      assert (Hx' : forall i, N.testbit x' i = true -> In i t).
      { intros i Hi. unfold x' in Hi. rewrite N.clearbit_eqb in Hi.
        apply andb_prop in Hi. destruct Hi as [Hi1 Hi2].
        destruct (Hx i Hi1) as [<-|Hin]; [|exact Hin].
        rewrite N.eqb_refl in Hi2. discriminate. }
      replace (N.lor acc x) with (N.lor (N.lor acc (bit b)) x').
      * apply IH; assumption.
      * apply N.bits_inj. intros i. rewrite !N.lor_spec. unfold x'.
        rewrite N.clearbit_eqb, testbit_bit by exact Hb.
        destruct (N.eqb_spec i b) as [->|Hne].
        -- rewrite Eb, N.eqb_refl. cbn. rewrite orb_true_r. reflexivity.
        -- replace (b =? i) with false by (symmetry; apply N.eqb_neq; congruence).
           cbn. rewrite orb_false_r, andb_true_r. reflexivity.
    + apply IH; try assumption.
      intros i Hi. destruct (Hx i Hi) as [<-|Hin]; [congruence|exact Hin].
Qed.

(* ---- the walk only reads the occupancy on the squares of a ray except its last one *)
Lemma walk_list_ext o1 o2 l :
  (forall s, In s (removelast l) -> N.testbit o1 s = N.testbit o2 s) ->
  walk_list o1 l = walk_list o2 l.
Proof.
  induction l as [|s t IH]; intros H; [reflexivity|].
  destruct t as [|s' t'].
  - cbn [walk_list]. rewrite N.lor_0_r. destruct (N.testbit o1 s), (N.testbit o2 s); reflexivity.
  - change (walk_list o1 (s :: s' :: t')) with
      (if N.testbit o1 s then bit s else N.lor (bit s) (walk_list o1 (s' :: t'))).
    change (walk_list o2 (s :: s' :: t')) with
      (if N.testbit o2 s then bit s else N.lor (bit s) (walk_list o2 (s' :: t'))).
    change (removelast (s :: s' :: t')) with (s :: removelast (s' :: t')) in H.
    rewrite (H s) by (left; reflexivity).
    rewrite IH; [reflexivity|]. intros u Hu. apply H. right. exact Hu.
Qed.

Lemma walk_dirs_ext dirs sq o1 o2 :
  (forall d s, In d dirs -> In s (removelast (ray_of sq d)) -> N.testbit o1 s = N.testbit o2 s) ->
  walk_dirs dirs sq o1 = walk_dirs dirs sq o2.
Proof.
  unfold walk_dirs. induction dirs as [|d t IH]; intros H; [reflexivity|].
  cbn [fold_right]. rewrite IH.
  - rewrite (walk_list_ext o1 o2); [reflexivity|]. intros s Hs. apply (H d); [left; reflexivity|exact Hs].
  - intros d' s Hd Hs. apply (H d'); [right; exact Hd|exact Hs].
Qed.

(* ---- finite facts, re-established on the regenerated constants *)
Definition mask_covers (mask : N -> N) (dirs : list (Z * Z)) : bool :=
  forallb (fun sq =>
    forallb (fun d => forallb (fun s => N.testbit (mask sq) s) (removelast (ray_of sq d))) dirs
    && forallb (fun b => b <? 64) (bits (mask sq)))
  squares64.

Definition sweep_pred (index : N -> N -> N) (dirs : list (Z * Z)) (t : tbl) (sq sub : N) : bool :=
  (index sq sub <? MAGIC_LEN) && (tget t (index sq sub) =? walk_dirs dirs sq sub).

Definition sweep_all (mask : N -> N) (index : N -> N -> N) (dirs : list (Z * Z)) (t : tbl) : bool :=
  forallb (fun sq => sweep (bits (mask sq)) 0 (sweep_pred index dirs t sq)) squares64.

Lemma bishop_mask_covers : mask_covers lib_bishop_mask bishop_dirs = true.
Proof. vm_compute. reflexivity. Qed.
Lemma rook_mask_covers : mask_covers lib_rook_mask rook_dirs = true.
Proof. vm_compute. reflexivity. Qed.

(* the two sweeps share one evaluation of the table *)
Definition bishop_sweep : bool := sweep_all lib_bishop_mask lib_bishop_index bishop_dirs build_table.
Definition rook_sweep : bool := sweep_all lib_rook_mask lib_rook_index rook_dirs build_table.

(* unfold these two names first whenever they meet their bodies in a conversion, so that the kernel
   never starts evaluating the sweep by lazy reduction *)
Strategy expand [bishop_sweep rook_sweep].

Lemma sweep_both_ok : bishop_sweep && rook_sweep = true.
Proof. vm_cast_no_check (eq_refl true). Qed.

Lemma bishop_sweep_ok : sweep_all lib_bishop_mask lib_bishop_index bishop_dirs build_table = true.
Proof. pose proof (andb_prop _ _ sweep_both_ok) as [H _]. unfold bishop_sweep in H. exact H. Qed.
Lemma rook_sweep_ok : sweep_all lib_rook_mask lib_rook_index rook_dirs build_table = true.
Proof. pose proof (andb_prop _ _ sweep_both_ok) as [_ H]. unfold rook_sweep in H. exact H. Qed.

Lemma in_squares64 sq : sq < 64 -> In sq squares64.
Proof.
  intros H. unfold squares64. rewrite <- (N2Nat.id sq). apply in_map. apply in_seq. lia.
Qed.

(* ---- generic lifting *)
Section Lift.
Variables (mask : N -> N) (index : N -> N -> N) (dirs : list (Z * Z)).
Hypothesis index_mask : forall sq occ, index sq occ = index sq (N.land occ (mask sq)).
Hypothesis Hcov : mask_covers mask dirs = true.
Hypothesis Hsweep : sweep_all mask index dirs build_table = true.

Lemma lookup_exact sq occ : sq < 64 ->
  index sq occ < MAGIC_LEN /\ tget build_table (index sq occ) = walk_dirs dirs sq occ.
Proof.
  intros Hsq. pose proof (in_squares64 sq Hsq) as Hin.
  unfold mask_covers in Hcov. rewrite forallb_forall in Hcov. specialize (Hcov sq Hin).
  apply andb_prop in Hcov. destruct Hcov as [Hc1 Hc2].
  rewrite forallb_forall in Hc1. rewrite forallb_forall in Hc2.
  unfold sweep_all in Hsweep. rewrite forallb_forall in Hsweep. specialize (Hsweep sq Hin).
  set (sub := N.land occ (mask sq)).
  assert (HP : sweep_pred index dirs build_table sq (N.lor 0 sub) = true).
  { apply (sweep_complete _ _ _ Hsweep).
    - intros b Hb. specialize (Hc2 b Hb). apply N.ltb_lt. exact Hc2.
    - intros i Hi. apply bits_spec. unfold sub in Hi. rewrite N.land_spec in Hi.
      apply andb_prop in Hi. apply Hi. }
  rewrite N.lor_0_l in HP. unfold sweep_pred in HP. apply andb_prop in HP. destruct HP as [HP1 HP2].
  apply N.ltb_lt in HP1. apply N.eqb_eq in HP2.
  rewrite (index_mask sq occ). fold sub. split; [exact HP1|]. rewrite HP2.
  apply walk_dirs_ext. intros d s Hd Hs. unfold sub. rewrite N.land_spec.
  specialize (Hc1 d Hd). rewrite forallb_forall in Hc1. rewrite (Hc1 s Hs). apply andb_true_r.
Qed.
End Lift.

Lemma bishop_index_mask sq occ :
  lib_bishop_index sq occ = lib_bishop_index sq (N.land occ (lib_bishop_mask sq)).
Proof.
  unfold lib_bishop_index, bishop_index, lib_bishop_mask.
  rewrite <- N.land_assoc, N.land_diag. reflexivity.
Qed.

Lemma rook_index_mask sq occ :
  lib_rook_index sq occ = lib_rook_index sq (N.land occ (lib_rook_mask sq)).
Proof.
  unfold lib_rook_index, rook_index, lib_rook_mask.
  rewrite <- N.land_assoc, N.land_diag. reflexivity.
Qed.

Theorem bishop_moves_exact sq occ : bishop_moves sq occ = bishop_walk sq occ.
Proof.
  unfold bishop_moves, bishop_walk. destruct (N.ltb_spec sq 64) as [H|H]; [|reflexivity].
  apply (lookup_exact lib_bishop_mask lib_bishop_index bishop_dirs
           bishop_index_mask bishop_mask_covers bishop_sweep_ok sq occ H).
Qed.

Theorem rook_moves_exact sq occ : rook_moves sq occ = rook_walk sq occ.
Proof.
  unfold rook_moves, rook_walk. destruct (N.ltb_spec sq 64) as [H|H]; [|reflexivity].
  apply (lookup_exact lib_rook_mask lib_rook_index rook_dirs
           rook_index_mask rook_mask_covers rook_sweep_ok sq occ H).
Qed.

Theorem queen_moves_exact sq occ : queen_moves sq occ = queen_walk sq occ.
Proof. unfold queen_moves, queen_walk. rewrite bishop_moves_exact, rook_moves_exact. reflexivity. Qed.

(* the lookups never index outside the generated array (no run-time panic) *)
Theorem bishop_index_in_range sq occ : sq < 64 -> lib_bishop_index sq occ < MAGIC_LEN.
Proof.
  intros H. apply (lookup_exact lib_bishop_mask lib_bishop_index bishop_dirs
           bishop_index_mask bishop_mask_covers bishop_sweep_ok sq occ H).
Qed.
Theorem rook_index_in_range sq occ : sq < 64 -> lib_rook_index sq occ < MAGIC_LEN.
Proof.
  intros H. apply (lookup_exact lib_rook_mask lib_rook_index rook_dirs
           rook_index_mask rook_mask_covers rook_sweep_ok sq occ H).
Qed.
