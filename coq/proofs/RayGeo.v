(* Geometry of the eight ray lists (finite sweeps over 64 squares x 8 directions) and list lemmas about the first
   occupied square of a ray: what the pin / check-mask theory of proofs/LegalPin.v stands on. *)
From Coq Require Import NArith ZArith List Bool Lia.
From Rawr Require Import Consts Bits Magic Position MakeStages BitsFacts AttackFacts GenSane GenNoDup RaySym.
Import ListNotations.
Local Open Scope N_scope.

Definition dir_eqb (a b : Z * Z) : bool := (fst a =? fst b)%Z && (snd a =? snd b)%Z.
Lemma dir_eqb_eq a b : dir_eqb a b = true -> a = b.
Proof.
  destruct a as [a1 a2], b as [b1 b2]. unfold dir_eqb. cbn [fst snd]. intros H. apply andb_true_iff in H. destruct H as [H1 H2].
  apply Z.eqb_eq in H1, H2. subst. reflexivity.
Qed.
Lemma dir_eqb_refl a : dir_eqb a a = true.
Proof. destruct a. unfold dir_eqb. cbn [fst snd]. rewrite !Z.eqb_refl. reflexivity. Qed.
Lemma dir_eqb_neq a b : dir_eqb a b = false -> a <> b.
Proof. intros H E. subst. rewrite dir_eqb_refl in H. discriminate. Qed.

Fixpoint memb (x : N) (l : list N) : bool := match l with [] => false | y :: t => (x =? y) || memb x t end.
Lemma memb_in x l : memb x l = true <-> In x l.
Proof.
  induction l as [|y t IH]; cbn [memb In]; [split; [discriminate|intros []]|].
  rewrite orb_true_iff, IH, N.eqb_eq. split; intros [H|H]; auto.
Qed.
Lemma memb_not_in x l : memb x l = false -> ~ In x l.
Proof. intros H Hin. apply memb_in in Hin. congruence. Qed.

Fixpoint nodupb (l : list N) : bool := match l with [] => true | x :: t => negb (memb x t) && nodupb t end.
Lemma nodupb_sound l : nodupb l = true -> NoDup l.
Proof.
  induction l as [|x t IH]; cbn [nodupb]; intros H; [constructor|].
  apply andb_true_iff in H. destruct H as [H1 H2]. apply negb_true_iff in H1.
  constructor; [exact (memb_not_in _ _ H1)|exact (IH H2)].
Qed.

(* the class of a direction: diagonal or orthogonal *)
Definition is_diag (d : Z * Z) : bool := negb (fst d =? 0)%Z && negb (snd d =? 0)%Z.
Definition class_dirs (d : Z * Z) : list (Z * Z) := if is_diag d then bishop_dirs else rook_dirs.

Lemma in_all_dirs_cases d : In d all_dirs ->
  d = (1, 1)%Z \/ d = (-1, 1)%Z \/ d = (1, -1)%Z \/ d = (-1, -1)%Z \/ d = (0, 1)%Z \/ d = (0, -1)%Z \/ d = (1, 0)%Z \/ d = (-1, 0)%Z.
Proof. unfold all_dirs, bishop_dirs, rook_dirs. cbn [app In]. intros H. repeat (destruct H as [<-|H]; [tauto|]). contradiction. Qed.

Lemma class_in_all d d' : In d all_dirs -> In d' (class_dirs d) -> In d' all_dirs.
Proof.
  intros _ H. unfold class_dirs in H. unfold all_dirs. apply in_or_app. destruct (is_diag d); [left|right]; exact H.
Qed.
Lemma class_self d : In d all_dirs -> In d (class_dirs d).
Proof.
  intros H. destruct (in_all_dirs_cases d H) as [->|[->|[->|[->|[->|[->|[->| ->]]]]]]]; unfold class_dirs, is_diag, bishop_dirs, rook_dirs; cbn; tauto.
Qed.
Lemma class_neg d : In d all_dirs -> In (negd d) (class_dirs d).
Proof.
  intros H. destruct (in_all_dirs_cases d H) as [->|[->|[->|[->|[->|[->|[->| ->]]]]]]]; unfold class_dirs, is_diag, bishop_dirs, rook_dirs, negd; cbn; tauto.
Qed.

(* ------------------------------------------------------------------ sweeps *)
Definition nodup_ok (a : N) (d : Z * Z) : bool := nodupb (ray_of a d).
Lemma nodup_ok_all : forallb (fun a => forallb (nodup_ok a) all_dirs) sq64_list = true.
Proof. vm_compute. reflexivity. Qed.
Lemma ray_nodup a d : a < 64 -> In d all_dirs -> NoDup (ray_of a d).
Proof.
  intros Ha Hd. pose proof nodup_ok_all as H. rewrite forallb_forall in H. specialize (H a (in_sq64 a Ha)).
  rewrite forallb_forall in H. exact (nodupb_sound _ (H d Hd)).
Qed.

(* the ray from the k-th square of a ray, in the same direction, is the rest of the ray *)
Definition fwd_ok (a : N) (d : Z * Z) : bool :=
  let l := ray_of a d in
  forallb (fun k => list_eqb (ray_of (nth k l 0) d) (skipn (S k) l)) (seq 0 (length l)).
Lemma fwd_ok_all : forallb (fun a => forallb (fwd_ok a) all_dirs) sq64_list = true.
Proof. vm_compute. reflexivity. Qed.
Lemma fwd_ray a d l1 b l2 : a < 64 -> In d all_dirs -> ray_of a d = l1 ++ b :: l2 -> ray_of b d = l2.
Proof.
  intros Ha Hd E. pose proof fwd_ok_all as H. rewrite forallb_forall in H. specialize (H a (in_sq64 a Ha)).
  rewrite forallb_forall in H. specialize (H d Hd). unfold fwd_ok in H. cbv zeta in H. rewrite forallb_forall in H.
  specialize (H (length l1)). rewrite E in H.
  assert (Hin : In (length l1) (seq 0 (length (l1 ++ b :: l2)))) by (apply in_seq; rewrite app_length; cbn [length]; lia).
  specialize (H Hin). apply list_eqb_eq in H.
  rewrite app_nth2, Nat.sub_diag in H by lia. cbn [nth] in H. rewrite H.
  replace (S (length l1)) with (length (l1 ++ [b]))%nat by (rewrite app_length; cbn [length]; lia).
  replace (l1 ++ b :: l2) with ((l1 ++ [b]) ++ l2) by (rewrite <- app_assoc; reflexivity).
  rewrite skipn_app, skipn_all, Nat.sub_diag. reflexivity.
Qed.

(* rays from one square in different directions share no square, and never contain the square itself *)
Definition disj_ok (a : N) (d1 : Z * Z) : bool :=
  negb (memb a (ray_of a d1))
  && forallb (fun d2 => dir_eqb d1 d2 || forallb (fun x => negb (memb x (ray_of a d2))) (ray_of a d1)) all_dirs.
Lemma disj_ok_all : forallb (fun a => forallb (disj_ok a) all_dirs) sq64_list = true.
Proof. vm_compute. reflexivity. Qed.
Lemma rays_disjoint a d1 d2 x : a < 64 -> In d1 all_dirs -> In d2 all_dirs -> In x (ray_of a d1) -> In x (ray_of a d2) -> d1 = d2.
Proof.
  intros Ha H1 H2 X1 X2. pose proof disj_ok_all as H. rewrite forallb_forall in H. specialize (H a (in_sq64 a Ha)).
  rewrite forallb_forall in H. specialize (H d1 H1). unfold disj_ok in H. apply andb_true_iff in H. destruct H as [_ H].
  rewrite forallb_forall in H. specialize (H d2 H2). apply orb_true_iff in H. destruct H as [H|H]; [exact (dir_eqb_eq _ _ H)|].
  rewrite forallb_forall in H. specialize (H x X1). apply negb_true_iff in H. apply memb_not_in in H. contradiction.
Qed.
Lemma ray_not_self a d : a < 64 -> In d all_dirs -> ~ In a (ray_of a d).
Proof.
  intros Ha H1. pose proof disj_ok_all as H. rewrite forallb_forall in H. specialize (H a (in_sq64 a Ha)).
  rewrite forallb_forall in H. specialize (H d H1). unfold disj_ok in H. apply andb_true_iff in H. destruct H as [H _].
  apply negb_true_iff in H. exact (memb_not_in _ _ H).
Qed.

(* a man on a ray from k that leaves the ray's line sideways (within the same class of directions) lands on no ray of that
   class from k, nor on k: "a diagonal step off a king diagonal never lands on a king diagonal" *)
Definition cross_ok (k : N) (d : Z * Z) : bool :=
  forallb (fun a =>
    forallb (fun d2 =>
      dir_eqb d2 d || dir_eqb d2 (negd d)
      || forallb (fun b => negb (b =? k) && forallb (fun d' => negb (memb b (ray_of k d'))) (class_dirs d)) (ray_of a d2))
    (class_dirs d))
  (ray_of k d).
Lemma cross_ok_all : forallb (fun k => forallb (cross_ok k) all_dirs) sq64_list = true.
Proof. vm_compute. reflexivity. Qed.
Lemma cross_rays k d a d2 b d' : k < 64 -> In d all_dirs -> In a (ray_of k d) -> In d2 (class_dirs d) -> d2 <> d -> d2 <> negd d ->
  In b (ray_of a d2) -> In d' (class_dirs d) -> b <> k /\ ~ In b (ray_of k d').
Proof.
  intros Hk Hd Ha Hd2 N1 N2 Hb Hd'. pose proof cross_ok_all as H. rewrite forallb_forall in H. specialize (H k (in_sq64 k Hk)).
  rewrite forallb_forall in H. specialize (H d Hd). unfold cross_ok in H. rewrite forallb_forall in H. specialize (H a Ha).
  rewrite forallb_forall in H. specialize (H d2 Hd2). apply orb_true_iff in H. destruct H as [H|H].
  - apply orb_true_iff in H. destruct H as [H|H]; apply dir_eqb_eq in H; contradiction.
  - rewrite forallb_forall in H. specialize (H b Hb). apply andb_true_iff in H. destruct H as [H1 H2].
    apply negb_true_iff, N.eqb_neq in H1. split; [exact H1|].
    rewrite forallb_forall in H2. specialize (H2 d' Hd'). apply negb_true_iff in H2. exact (memb_not_in _ _ H2).
Qed.

(* first squares of the pawn directions *)
Definition pawn_geo_ok (a : N) : bool :=
  (negb (a + 8 <? 64) || match ray_of a (0, 1)%Z with x :: _ => x =? a + 8 | [] => false end)
  && (negb ((a + 9 <? 64) && negb (a mod 8 =? 7)) || match ray_of a (1, 1)%Z with x :: _ => x =? a + 9 | [] => false end)
  && (negb ((a + 7 <? 64) && negb (a mod 8 =? 0)) || match ray_of a (-1, 1)%Z with x :: _ => x =? a + 7 | [] => false end).
Lemma pawn_geo_all : forallb pawn_geo_ok sq64_list = true.
Proof. vm_compute. reflexivity. Qed.
Lemma ray_n_head a : a + 8 < 64 -> exists t, ray_of a (0, 1)%Z = (a + 8) :: t.
Proof.
  intros H. pose proof pawn_geo_all as G. rewrite forallb_forall in G. specialize (G a (in_sq64 a ltac:(lia))).
  unfold pawn_geo_ok in G. apply andb_true_iff in G. destruct G as [G _]. apply andb_true_iff in G. destruct G as [G _].
  apply N.ltb_lt in H. rewrite H in G. cbn [negb orb] in G. destruct (ray_of a (0, 1)%Z) as [|x t]; [discriminate|].
  apply N.eqb_eq in G. subst x. exists t. reflexivity.
Qed.
Lemma ray_ne_head a : a + 9 < 64 -> a mod 8 <> 7 -> exists t, ray_of a (1, 1)%Z = (a + 9) :: t.
Proof.
  intros H Hm. pose proof pawn_geo_all as G. rewrite forallb_forall in G. specialize (G a (in_sq64 a ltac:(lia))).
  unfold pawn_geo_ok in G. apply andb_true_iff in G. destruct G as [G _]. apply andb_true_iff in G. destruct G as [_ G].
  apply N.ltb_lt in H. apply N.eqb_neq in Hm. rewrite H, Hm in G. cbn [negb andb orb] in G. destruct (ray_of a (1, 1)%Z) as [|x t]; [discriminate|].
  apply N.eqb_eq in G. subst x. exists t. reflexivity.
Qed.
Lemma ray_nw_head a : a + 7 < 64 -> a mod 8 <> 0 -> exists t, ray_of a (-1, 1)%Z = (a + 7) :: t.
Proof.
  intros H Hm. pose proof pawn_geo_all as G. rewrite forallb_forall in G. specialize (G a (in_sq64 a ltac:(lia))).
  unfold pawn_geo_ok in G. apply andb_true_iff in G. destruct G as [_ G].
  apply N.ltb_lt in H. apply N.eqb_neq in Hm. rewrite H, Hm in G. cbn [negb andb orb] in G. destruct (ray_of a (-1, 1)%Z) as [|x t]; [discriminate|].
  apply N.eqb_eq in G. subst x. exists t. reflexivity.
Qed.

(* ------------------------------------------------------------------ first occupied square of a list *)
Lemma first_hit_split occ X l : first_hit occ X l = true ->
  exists l1 x l2, l = l1 ++ x :: l2 /\ (forall s, In s l1 -> N.testbit occ s = false) /\ N.testbit occ x = true /\ N.testbit X x = true.
Proof.
  induction l as [|s t IH]; cbn [first_hit]; [discriminate|]. destruct (N.testbit occ s) eqn:Eo; intros H.
  - exists [], s, t. split; [reflexivity|split; [intros ? []|split; assumption]].
  - destruct (IH H) as (l1 & x & l2 & -> & H1 & H2 & H3). exists (s :: l1), x, l2.
    split; [reflexivity|split; [|split; assumption]]. intros y [<-|Hy]; [exact Eo|exact (H1 y Hy)].
Qed.
Lemma first_hit_intro occ X l1 x l2 : (forall s, In s l1 -> N.testbit occ s = false) -> N.testbit occ x = true ->
  first_hit occ X (l1 ++ x :: l2) = N.testbit X x.
Proof.
  intros H1 H2. induction l1 as [|s t IH]; cbn [app first_hit].
  - rewrite H2. reflexivity.
  - rewrite (H1 s (or_introl eq_refl)). apply IH. intros y Hy. apply H1. right. exact Hy.
Qed.
Lemma first_hit_ext occ occ' X X' l :
  (forall s, In s l -> N.testbit occ' s = N.testbit occ s /\ N.testbit X' s = N.testbit X s) -> first_hit occ' X' l = first_hit occ X l.
Proof.
  induction l as [|s t IH]; intros H; cbn [first_hit]; [reflexivity|].
  destruct (H s (or_introl eq_refl)) as (-> & ->). rewrite IH; [reflexivity|]. intros y Hy. apply H. right. exact Hy.
Qed.

(* the walk along a list whose first occupied square is x: exactly the vacant prefix and x *)
Lemma walk_prefix occ l1 x l2 b : (forall y, In y (l1 ++ x :: l2) -> y < 64) ->
  (forall s, In s l1 -> N.testbit occ s = false) -> N.testbit occ x = true ->
  N.testbit (walk_list occ (l1 ++ x :: l2)) b = true -> In b l1 \/ b = x.
Proof.
  intros Hl H1 H2. induction l1 as [|s t IH]; cbn [app walk_list]; intros H.
  - rewrite H2 in H. rewrite testbit_bit in H by (apply Hl; left; reflexivity). apply N.eqb_eq in H. right. exact H.
  - rewrite (H1 s (or_introl eq_refl)) in H. rewrite N.lor_spec, testbit_bit in H by (apply Hl; left; reflexivity).
    apply orb_true_iff in H. destruct H as [H|H].
    + apply N.eqb_eq in H. left. left. symmetry. exact H.
    + destruct IH as [Hin|E]; [intros y Hy; apply Hl; right; exact Hy|intros y Hy; apply H1; right; exact Hy|exact H| |].
      * left. right. exact Hin.
      * right. exact E.
Qed.
(* the walk along a wholly vacant list is the list *)
Lemma walk_vacant occ l b : (forall y, In y l -> y < 64) -> N.testbit (walk_list occ l) b = true -> In b l.
Proof. intros Hl. exact (walk_list_in occ l Hl b). Qed.

Lemma split_nodup_eq (l1 : list N) x l2 m1 m2 : NoDup (l1 ++ x :: l2) -> l1 ++ x :: l2 = m1 ++ x :: m2 -> l1 = m1 /\ l2 = m2.
Proof.
  revert m1. induction l1 as [|a t IH]; intros m1 Hnd E.
  - destruct m1 as [|b m1]; cbn [app] in E.
    + injection E as E. split; [reflexivity|exact E].
    + injection E as Eb E. subst b. exfalso. cbn [app] in Hnd. inversion Hnd as [|? ? Hnot _]. apply Hnot. rewrite E. apply in_or_app. right. left. reflexivity.
  - destruct m1 as [|b m1]; cbn [app] in E.
    + injection E as Ea E. subst a. exfalso. cbn [app] in Hnd. inversion Hnd as [|? ? Hnot _]. apply Hnot. apply in_or_app. right. left. reflexivity.
    + injection E as Ea E. subst b. cbn [app] in Hnd. inversion Hnd as [|? ? _ Hnd']. destruct (IH m1 Hnd' E) as (-> & ->). split; reflexivity.
Qed.
