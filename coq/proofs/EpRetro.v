(* C01/C03/C14: the en-passant state a generated move creates is consistent with the double push just played (`ep_ok_b`): with
   the pawn put back the side to move is not in check -- because the position before the push satisfied the invariant.  The
   hypothesis `GenLegal` of SearchBound.v is stated for positions satisfying the invariant AND `ep_ok_b`; without the latter it
   would be false (an en-passant capture can expose the king through the captured pawn's square when the en-passant state
   could not have arisen by play). *)
From Coq Require Import NArith ZArith List Bool Lia ZifyN ZifyBool.
From Rawr Require Import Consts Bits Magic Position MoveGen MakeMove MakeStages Eval Rules Abs
                         BitsFacts ShiftFacts FlipFacts AbsFacts LsbFacts HashFacts MakeFacts MakeAbs CastleFacts CastleAbs KeyAbs KeyMove
                         AttackFacts AttackAbs BoundFacts CountFacts GenSane GenNoDup CaptureFacts NotationFacts NoKingCapture Closure ClosureNull MenCount.
Import ListNotations.
Local Open Scope N_scope.
Ltac Zify.zify_post_hook ::= Z.div_mod_to_equations.

(* the attack query reads the eight boards only *)
Lemma is_sq_attacked_boards a b sq us :
  c_us a = c_us b -> c_them a = c_them b -> pawns a = pawns b -> knights a = knights b -> bishops a = bishops b ->
  rooks a = rooks b -> queens a = queens b -> kings a = kings b -> is_sq_attacked a sq us = is_sq_attacked b sq us.
Proof.
  intros E1 E2 E3 E4 E5 E6 E7 E8. unfold is_sq_attacked, get_side, occupied. rewrite E1, E2, E3, E4, E5, E6, E7, E8. reflexivity.
Qed.

(* the attack query commutes with the flip *)
Lemma attack_flip q s us : WF q -> HashFacts.BB8 q ->
  popcount (N.land (kings q) (c_us q)) = 1 -> popcount (N.land (kings q) (c_them q)) = 1 -> s < 64 ->
  is_sq_attacked (flip q) (flip_sq s) us = is_sq_attacked q s (negb us).
Proof.
  intros HW HB K1 K2 Hs.
  assert (HWf : WF (flip q)) by (apply KeyMove.WF_flip; exact HW).
  assert (HBf : HashFacts.BB8 (flip q)) by apply KeyMove.BB8_flip.
  destruct HB as (B1 & B2 & B3 & B4 & B5 & B6 & B7 & B8).
  assert (Kf : forall b, popcount (N.land (kings (flip q)) (get_side (flip q) b)) = 1).
  { intros b. unfold get_side. destruct b; cbn [flip kings c_us c_them]; rewrite BoundFacts.bswap_land, popcount_bswap by (apply land_lt_l; exact B8); assumption. }
  rewrite (attack_query_is_the_rules (flip q) (flip_sq s) us HWf HBf (flip_sq_lt _ Hs) (Kf us)).
  assert (Kq : popcount (N.land (kings q) (get_side q (negb us))) = 1) by (unfold get_side; destruct us; assumption).
  rewrite (attack_query_is_the_rules q s (negb us) HW (conj B1 (conj B2 (conj B3 (conj B4 (conj B5 (conj B6 (conj B7 B8))))))) Hs Kq).
  unfold Abs.spec_attacked. rewrite (board_of_flip q (WF_disjoint q HW (conj B1 (conj B2 (conj B3 (conj B4 (conj B5 (conj B6 (conj B7 B8))))))))).
  assert (Et : turn (flip q) = negb (turn q)) by reflexivity. rewrite Et.
  unfold Abs.rel_sq. rewrite Et. destruct (turn q), us; cbn [negb]; rewrite ?flip_sq_invol; reflexivity.
Qed.

Lemma board_ext X Y : X < TWO64 -> Y < TWO64 -> (forall i, i < 64 -> N.testbit X i = N.testbit Y i) -> X = Y.
Proof.
  intros HX HY H. apply N.bits_inj. intros i. destruct (N.ltb_spec i 64) as [Hi|Hi]; [exact (H i Hi)|].
  assert (forall Z, Z < TWO64 -> N.testbit Z i = false) as Hf.
  { intros Z HZ. destruct (N.testbit Z i) eqn:E; [|reflexivity]. pose proof (testbit_lt Z i HZ E). lia. }
  rewrite (Hf X HX), (Hf Y HY). reflexivity.
Qed.

Section DoublePush.
Variables (u : bool) (p : Position) (m : Mv).
Hypothesis I : Inv0 p.
Hypothesis S : sane p m PAWN.
Hypothesis H16 : m_to m = m_from m + 16.
Hypothesis Hto : empty_at p (m_to m).
Hypothesis Hpr : m_promo m = NOPIECE.
Let R := makemove u p m.
Let from := m_from m.
Let to := m_to m.
Let G := i0_good p I.

Lemma dp_not_ep : mv_is_ep p m = false.
Proof.
  unfold mv_is_ep. replace (file_of (m_from m) =? file_of (m_to m)) with true; [rewrite andb_false_r; reflexivity|].
  symmetry. apply N.eqb_eq. unfold file_of. rewrite H16. replace (m_from m + 16) with (m_from m + 2 * 8) by lia. rewrite N.mod_add by lia. reflexivity.
Qed.

Lemma dp_to_not_king : m_to m <> tksq p.
Proof.
  intros E. destruct (their_king_holds p (g_wf p G) (g_bb p G) (i0_tking p I)) as (HK & _). rewrite <- E in HK.
  exact (holds_not_empty _ _ _ _ HK Hto).
Qed.

(* the views of the result at the three kinds of squares *)
Lemma dp_view a : a < 64 ->
  (a = from /\ empty_at R (flip_sq a)) \/ (a = to /\ holds R (flip_sq a) true PAWN)
  \/ (a <> from /\ a <> to /\ ((empty_at p a /\ empty_at R (flip_sq a)) \/ exists t j, holds p a t j /\ holds R (flip_sq a) (negb t) j)).
Proof.
  intros Ha. destruct (rview_all u p m PAWN S I a Ha) as [E He|E Hh|Hb E He|N2 Hpe He|t j N1 N2 N3 Hh Hr].
  - left. split; assumption.
  - right. left. split; [exact E|]. unfold landed in Hh. rewrite Hpr in Hh. exact Hh.
  - rewrite dp_not_ep in Hb. discriminate.
  - destruct (N.eq_dec a from) as [E|N1].
    + exfalso. pose proof (sn_mover _ _ _ S) as Hm. fold from in Hm. rewrite <- E in Hm. exact (holds_not_empty _ _ _ _ Hm Hpe).
    + right. right. split; [exact N1|split; [exact N2|left; split; assumption]].
  - right. right. split; [exact N1|split; [exact N2|right; exists t, j; split; assumption]].
Qed.

Lemma dp_ep : ep R = Some (flip_sq (to - 8)).
Proof.
  destruct (R_fields u p m) as (_ & Eep & _). fold R in Eep. rewrite Eep. unfold mv_new_ep. rewrite (sane_piece p m PAWN S).
  change (PAWN =? PAWN) with true. fold from to. replace (to - from) with 16 by (unfold to, from; lia). reflexivity.
Qed.

Lemma dp_squares : flip_sq (to - 8) + 8 = flip_sq from /\ flip_sq (to - 8) - 8 = flip_sq to /\ to < 64 /\ from < 64 /\ 16 <= to.
Proof.
  pose proof (sn_to _ _ _ S) as Ht. pose proof (sn_from _ _ _ S) as Hf. fold to from in Ht, Hf |- *.
  assert (E : to = from + 16) by exact H16.
  change flip_sq with flipbit. rewrite !flipbit_arith by lia. repeat split; lia.
Qed.

Let e' := flip_sq (to - 8).
Let bb' := N.lor (bit (e' - 8)) (bit (e' + 8)).

Lemma dp_bb_bit i : i < 64 -> N.testbit bb' i = (flip_sq i =? to) || (flip_sq i =? from).
Proof.
  intros Hi. destruct dp_squares as (E8 & E8' & Ht & Hf & H16'). fold e' in E8, E8'.
  unfold bb'. rewrite N.lor_spec, E8, E8', !testbit_bit by (apply flip_sq_lt; assumption).
  assert (Hsw : forall x, x < 64 -> (i =? flip_sq x) = (flip_sq i =? x)).
  { intros x Hx. destruct (N.eqb_spec i (flip_sq x)) as [E|E], (N.eqb_spec (flip_sq i) x) as [E'|E']; try reflexivity; exfalso.
    - apply E'. rewrite E. apply flip_sq_invol.
    - apply E. rewrite <- E', flip_sq_invol. reflexivity. }
  rewrite (Hsw to Ht), (Hsw from Hf). reflexivity.
Qed.

Lemma bb'_lt : bb' < TWO64.
Proof. unfold bb'. apply lor_lt; apply bit_lt. Qed.

(* un-pushing the result gives the boards of the flipped original *)
Lemma dp_boards : let X := unpush R e' in
  c_us X = c_us (flip p) /\ c_them X = c_them (flip p) /\ pawns X = pawns (flip p) /\ knights X = knights (flip p)
  /\ bishops X = bishops (flip p) /\ rooks X = rooks (flip p) /\ queens X = queens (flip p) /\ kings X = kings (flip p).
Proof.
  cbv zeta. destruct (BB8_R u p m) as (R1 & R2 & R3 & R4 & R5 & R6 & R7 & R8). fold R in R1, R2, R3, R4, R5, R6, R7, R8.
  pose proof (sn_mover _ _ _ S) as (_ & Hfu & Hft & Hfp). fold from in Hfu, Hft, Hfp. cbn [negb] in Hfu.
  destruct Hto as (Htu & Htt & Htp). fold to in Htu, Htt, Htp.
  assert (Hcase : forall i, i < 64 -> let a := flip_sq i in
            ((flip_sq i =? to) || (flip_sq i =? from) = false -> ub R i = tb p a /\ tb R i = ub p a /\ forall j, j <= 5 -> pb R j i = pb p j a)
            /\ (flip_sq i = from -> ub R i = false /\ tb R i = false /\ forall j, j <= 5 -> pb R j i = false)
            /\ (flip_sq i = to -> ub R i = false /\ tb R i = true /\ forall j, j <= 5 -> pb R j i = (j =? PAWN))).
  { intros i Hi a. assert (Ha : a < 64) by (apply flip_sq_lt; exact Hi).
    assert (Ei : flip_sq a = i) by (unfold a; apply flip_sq_invol).
    destruct (dp_view a Ha) as [(E & (Hu & Ht & Hp))|[(E & (Hk & Hu & Ht & Hp))|(N1 & N2 & Hrest)]]; rewrite Ei in *.
    - split; [intros Hc; fold a in Hc; rewrite E, N.eqb_refl, orb_true_r in Hc; discriminate|]. split; [intros _; auto|].
      intros E'. fold a in E'. exfalso. apply (sn_ne _ _ _ S). fold from to. congruence.
    - split; [intros Hc; fold a in Hc; rewrite E, N.eqb_refl in Hc; discriminate|]. split.
      + intros E'. fold a in E'. exfalso. apply (sn_ne _ _ _ S). fold from to. congruence.
      + intros _. cbn [negb] in Hu. auto.
    - split; [|split; [intros E'; fold a in E'; contradiction|intros E'; fold a in E'; contradiction]].
      intros _. destruct Hrest as [((Eu & Et & Ep) & (Hu & Ht & Hp))|(t & j & (Hj & Eu & Et & Ep) & (_ & Hu & Ht & Hp))].
      + rewrite Hu, Ht, Eu, Et. split; [reflexivity|split; [reflexivity|]]. intros j Hj. rewrite (Hp j Hj), (Ep j Hj). reflexivity.
      + rewrite Hu, Ht, Eu, Et, negb_involutive. split; [reflexivity|split; [reflexivity|]]. intros j' Hj'. rewrite (Hp j' Hj'), (Ep j' Hj'). reflexivity. }
  assert (Hbit : forall (X Y : N) (fx : N -> bool) (fy : N -> bool), X < TWO64 -> Y < TWO64 ->
            (forall i, i < 64 -> N.testbit X i = fx i) -> (forall i, i < 64 -> N.testbit (bswap Y) i = fy (flip_sq i)) ->
            (forall i, i < 64 -> fx i = fy (flip_sq i)) -> X = bswap Y).
  { intros X Y fx fy HX HY H1 H2 H3. apply board_ext; [exact HX|apply bswap_lt|]. intros i Hi. rewrite (H1 i Hi), (H2 i Hi). exact (H3 i Hi). }
  assert (Hsw : forall Y i, i < 64 -> N.testbit (bswap Y) i = N.testbit Y (flip_sq i)).
  { intros Y i Hi. rewrite testbit_bswap. apply N.ltb_lt in Hi. rewrite Hi. reflexivity. }
  unfold unpush. fold bb'. cbn [flip c_us c_them pawns knights bishops rooks queens kings xor_them xor_piece set_them set_piece get_piece PAWN].
  repeat split.
  - (* c_us *) apply board_ext; [exact R1|apply bswap_lt|]. intros i Hi. rewrite (Hsw _ i Hi).
    change (ub R i = tb p (flip_sq i)). destruct (Hcase i Hi) as (Ho & Hf' & Ht').
    destruct (N.eqb_spec (flip_sq i) to) as [E|N2]; [destruct (Ht' E) as (-> & _); rewrite E; symmetry; exact Htt|].
    destruct (N.eqb_spec (flip_sq i) from) as [E|N1]; [destruct (Hf' E) as (-> & _); rewrite E; symmetry; exact Hft|].
    apply Ho. reflexivity.
  - (* c_them *) apply board_ext; [apply lxor_lt; [exact R2|exact bb'_lt]|apply bswap_lt|]. intros i Hi. rewrite (Hsw _ i Hi), N.lxor_spec, (dp_bb_bit i Hi).
    change (xorb (tb R i) ((flip_sq i =? to) || (flip_sq i =? from)) = ub p (flip_sq i)). destruct (Hcase i Hi) as (Ho & Hf' & Ht').
    destruct (N.eqb_spec (flip_sq i) to) as [E|N2]; [destruct (Ht' E) as (_ & -> & _); rewrite E, Htu; reflexivity|].
    destruct (N.eqb_spec (flip_sq i) from) as [E|N1]; [destruct (Hf' E) as (_ & -> & _); rewrite E, Hfu; reflexivity|].
    cbn [orb]. rewrite xorb_false_r. apply Ho. reflexivity.
  - (* pawns *) apply board_ext; [apply lxor_lt; [exact R3|exact bb'_lt]|apply bswap_lt|]. intros i Hi. rewrite (Hsw _ i Hi), N.lxor_spec, (dp_bb_bit i Hi).
    change (xorb (pb R 0 i) ((flip_sq i =? to) || (flip_sq i =? from)) = pb p 0 (flip_sq i)). destruct (Hcase i Hi) as (Ho & Hf' & Ht').
    destruct (N.eqb_spec (flip_sq i) to) as [E|N2]; [destruct (Ht' E) as (_ & _ & Hp); rewrite (Hp 0 ltac:(lia)), E, (Htp 0 ltac:(lia)); reflexivity|].
    destruct (N.eqb_spec (flip_sq i) from) as [E|N1]; [destruct (Hf' E) as (_ & _ & Hp); rewrite (Hp 0 ltac:(lia)), E, (Hfp 0 ltac:(lia)); reflexivity|].
    cbn [orb]. rewrite xorb_false_r. apply Ho; [reflexivity|lia].
  - apply board_ext; [exact R4|apply bswap_lt|]. intros i Hi. rewrite (Hsw _ i Hi). change (pb R 1 i = pb p 1 (flip_sq i)). destruct (Hcase i Hi) as (Ho & Hf' & Ht').
    destruct (N.eqb_spec (flip_sq i) to) as [E|N2]; [destruct (Ht' E) as (_ & _ & Hp); rewrite (Hp 1 ltac:(lia)), E, (Htp 1 ltac:(lia)); reflexivity|].
    destruct (N.eqb_spec (flip_sq i) from) as [E|N1]; [destruct (Hf' E) as (_ & _ & Hp); rewrite (Hp 1 ltac:(lia)), E, (Hfp 1 ltac:(lia)); reflexivity|].
    apply Ho; [reflexivity|lia].
  - apply board_ext; [exact R5|apply bswap_lt|]. intros i Hi. rewrite (Hsw _ i Hi). change (pb R 2 i = pb p 2 (flip_sq i)). destruct (Hcase i Hi) as (Ho & Hf' & Ht').
    destruct (N.eqb_spec (flip_sq i) to) as [E|N2]; [destruct (Ht' E) as (_ & _ & Hp); rewrite (Hp 2 ltac:(lia)), E, (Htp 2 ltac:(lia)); reflexivity|].
    destruct (N.eqb_spec (flip_sq i) from) as [E|N1]; [destruct (Hf' E) as (_ & _ & Hp); rewrite (Hp 2 ltac:(lia)), E, (Hfp 2 ltac:(lia)); reflexivity|].
    apply Ho; [reflexivity|lia].
  - apply board_ext; [exact R6|apply bswap_lt|]. intros i Hi. rewrite (Hsw _ i Hi). change (pb R 3 i = pb p 3 (flip_sq i)). destruct (Hcase i Hi) as (Ho & Hf' & Ht').
    destruct (N.eqb_spec (flip_sq i) to) as [E|N2]; [destruct (Ht' E) as (_ & _ & Hp); rewrite (Hp 3 ltac:(lia)), E, (Htp 3 ltac:(lia)); reflexivity|].
    destruct (N.eqb_spec (flip_sq i) from) as [E|N1]; [destruct (Hf' E) as (_ & _ & Hp); rewrite (Hp 3 ltac:(lia)), E, (Hfp 3 ltac:(lia)); reflexivity|].
    apply Ho; [reflexivity|lia].
  - apply board_ext; [exact R7|apply bswap_lt|]. intros i Hi. rewrite (Hsw _ i Hi). change (pb R 4 i = pb p 4 (flip_sq i)). destruct (Hcase i Hi) as (Ho & Hf' & Ht').
    destruct (N.eqb_spec (flip_sq i) to) as [E|N2]; [destruct (Ht' E) as (_ & _ & Hp); rewrite (Hp 4 ltac:(lia)), E, (Htp 4 ltac:(lia)); reflexivity|].
    destruct (N.eqb_spec (flip_sq i) from) as [E|N1]; [destruct (Hf' E) as (_ & _ & Hp); rewrite (Hp 4 ltac:(lia)), E, (Hfp 4 ltac:(lia)); reflexivity|].
    apply Ho; [reflexivity|lia].
  - apply board_ext; [exact R8|apply bswap_lt|]. intros i Hi. rewrite (Hsw _ i Hi). change (pb R 5 i = pb p 5 (flip_sq i)). destruct (Hcase i Hi) as (Ho & Hf' & Ht').
    destruct (N.eqb_spec (flip_sq i) to) as [E|N2]; [destruct (Ht' E) as (_ & _ & Hp); rewrite (Hp 5 ltac:(lia)), E, (Htp 5 ltac:(lia)); reflexivity|].
    destruct (N.eqb_spec (flip_sq i) from) as [E|N1]; [destruct (Hf' E) as (_ & _ & Hp); rewrite (Hp 5 ltac:(lia)), E, (Hfp 5 ltac:(lia)); reflexivity|].
    apply Ho; [reflexivity|lia].
Qed.

Theorem dp_ep_ok : ep_ok_b R = true.
Proof.
  destruct dp_squares as (E8 & E8' & Ht & Hf & H16'). fold e' in E8, E8'.
  unfold ep_ok_b. rewrite dp_ep. fold e'. apply andb_true_iff. split.
  - apply negb_true_iff. rewrite E8. unfold is_set, occupied. rewrite N.lor_spec.
    destruct (dp_view from Hf) as [(_ & (Hu & Htb & _))|[(E & _)|(N1 & _)]].
    + unfold ub, tb, is_set in Hu, Htb. rewrite Hu, Htb. reflexivity.
    + exfalso. apply (sn_ne _ _ _ S). exact E.
    + contradiction.
  - apply negb_true_iff.
    destruct dp_boards as (B1 & B2 & B3 & B4 & B5 & B6 & B7 & B8). fold e' in B1, B2, B3, B4, B5, B6, B7, B8.
    rewrite (is_sq_attacked_boards (unpush R e') (flip p) _ false B1 B2 B3 B4 B5 B6 B7 B8).
    destruct (nc_their_king u p m PAWN S I dp_to_not_king) as (_ & EK). fold R in EK. unfold uksq in EK. rewrite EK.
    destruct (their_king_holds p (g_wf p G) (g_bb p G) (i0_tking p I)) as (_ & HK64).
    rewrite (attack_flip p (tksq p) false (g_wf p G) (g_bb p G) (g_king p G) (i0_tking p I) HK64). cbn [negb].
    exact (i0_safe p I).
Qed.
End DoublePush.

(* ------------------------------------------------------------------ every generated move leaves a consistent en-passant state *)
Theorem ep_ok_step u p m : Inv0 p -> In m (legal_moves p) -> ep_ok_b (makemove u p m) = true.
Proof.
  intros I Hm. pose proof (i0_good p I) as G. pose proof (i0_cg p I) as CG.
  unfold legal_moves in Hm. apply in_map_iff in Hm. destruct Hm as (g & <- & Hg).
  destruct (R_fields u p (gen_mv g)) as (_ & Eep & _).
  destruct (mv_new_ep p (gen_mv g)) as [s|] eqn:En; [|unfold ep_ok_b; rewrite Eep; reflexivity].
  (* a new en-passant square: the move is a double push *)
  destruct (generated_move_cases p g G Hg) as [(S & Hpw)|[H|H]].
  - unfold mv_new_ep in En. rewrite (sane_piece p (gen_mv g) (gk g) S) in En.
    destruct ((gk g =? PAWN) && (m_to (gen_mv g) - m_from (gen_mv g) =? 16)) eqn:Ec; [|discriminate].
    apply andb_true_iff in Ec. destruct Ec as [Ek Ed]. apply N.eqb_eq in Ek, Ed.
    assert (H16 : m_to (gen_mv g) = m_from (gen_mv g) + 16) by lia.
    destruct (double_push_facts p g G CG Hg Ek H16) as (_ & Hpr).
    assert (Hdb : pawn_shape p g 16 false \/ True) by (right; exact Logic.I).
    rewrite Ek in S.
    assert (Hemp : empty_at p (m_to (gen_mv g))).
    { destruct (sn_target _ _ _ S) as [He|(c & Hc)]; [exact He|]. exfalso.
      (* a double push never lands on a man: it comes from the doubles block *)
      destruct (in_generator_block p g Hg) as (i & b & Hib & Hgb). pose proof (cls_double p g Ek H16) as Hcls.
      assert (Hd : In g (blk_doubles p)).
      { unfold tagged_blocks in Hib. cbv zeta in Hib. cbn [In] in Hib.
        repeat destruct Hib as [Hib|Hib]; try contradiction; injection Hib as <- <-; try exact Hgb; exfalso.
        - rewrite (pawn_cls p g 8 false (singles_shape p g Hgb)) in Hcls by lia. discriminate.
        - rewrite (pawn_cls p g 9 true (cap_ne_shape p g Hgb)) in Hcls by lia. discriminate.
        - rewrite (pawn_cls p g 7 true (cap_nw_shape p g Hgb)) in Hcls by lia. discriminate.
        - destruct (ep_shape p G g Hgb) as [X|X]; [rewrite (pawn_cls p g 9 false X) in Hcls by lia|rewrite (pawn_cls p g 7 false X) in Hcls by lia]; discriminate.
        - rewrite (knights_cls p g Hgb) in Hcls. discriminate.
        - rewrite (bishop_pinned_cls p g _ _ Hgb) in Hcls. discriminate.
        - rewrite (bishop_free_cls p g _ _ Hgb) in Hcls. discriminate.
        - rewrite (rook_pinned_cls p g _ _ Hgb) in Hcls. discriminate.
        - rewrite (rook_free_cls p g _ _ Hgb) in Hcls. discriminate.
        - rewrite (queen_b_cls p g _ _ Hgb) in Hcls. discriminate.
        - rewrite (queen_r_cls p g _ _ Hgb) in Hcls. discriminate.
        - rewrite (queen_free_cls p g _ _ Hgb) in Hcls. discriminate.
        - rewrite (king_steps_cls p g Hgb) in Hcls. discriminate.
        - rewrite (castle_k_cls p G CG g Hgb) in Hcls. discriminate.
        - rewrite (castle_q_cls p G CG g Hgb) in Hcls. discriminate. }
      destruct (doubles_shape p g Hd) as (to & pr & -> & _ & Htb). cbn [gen_mv m_to] in Hc. destruct Hc as (_ & _ & Ht & _). congruence. }
    exact (dp_ep_ok u p (gen_mv g) I S H16 Hemp Hpr).
  - destruct (castle_block_k p G CG g H) as (S & _). rewrite (c_no_new_ep p (gen_mv g) true S) in En. discriminate.
  - destruct (castle_block_q p G CG g H) as (S & _). rewrite (c_no_new_ep p (gen_mv g) false S) in En. discriminate.
Qed.

Lemma ep_ok_null p : ep_ok_b (makenull p) = true.
Proof. unfold ep_ok_b. destruct (null_fields p) as (E & _). rewrite E. reflexivity. Qed.

(* ------------------------------------------------------------------ the invariants of the search, with the en-passant consistency *)
Record Inv16R (p : Position) : Prop := { i16r : Inv16 p; i16r_ep : ep_ok_b p = true }.
Record InvSR (p : Position) : Prop := { isr : InvS p; isr_ep : ep_ok_b p = true }.

Lemma InvSR_16R p : InvSR p -> Inv16R p.
Proof. intros [H E]. constructor; [exact (InvS_16 p H)|exact E]. Qed.

Theorem inv16R_step u p m : Inv16R p -> In m (legal_moves p) -> in_check_them (makemove u p m) = false -> Inv16R (makemove u p m).
Proof.
  intros [H E] Hm Hl. constructor; [exact (inv16_step u p m H Hm Hl)|exact (ep_ok_step u p m (i16_inv p H) Hm)].
Qed.
Theorem invSR_step p m : InvSR p -> In m (legal_moves p) -> in_check_them (makemove true p m) = false -> InvSR (makemove true p m).
Proof.
  intros [H E] Hm Hl. constructor; [exact (invS_step p m H Hm Hl)|exact (ep_ok_step true p m (Inv_Inv0 p (is_inv p H)) Hm)].
Qed.
Theorem invSR_null p : InvSR p -> in_check p = false -> InvSR (makenull p).
Proof.
  intros [H E] Hc. constructor; [exact (invS_null p H (null_safe p (is_inv p H) Hc))|exact (ep_ok_null p)].
Qed.

Theorem invr_b_sound p : invr_b p = true -> InvSR p.
Proof. unfold invr_b. intros H. apply andb_true_iff in H. destruct H as [H1 H2]. constructor; [exact (invs_b_sound p H1)|exact H2]. Qed.
