(* C01, completeness: every legal move of the rules (spec/Rules.v) is emitted by the generator, in both frames, on every
   position satisfying the invariant and the en-passant consistency; with MovegenSound and GenNoDup this gives the exact
   equality (as duplicate-free lists up to order) of legal_moves and the rules' list.
   White frame: the rules' pseudo-legal list is read man by man (PseudoPieces, PseudoPawns, PseudoCastle), the rules' filter
   is the engine's safety test for every sane move (CompleteBridge), and the per-block completeness theorems
   (CompletePieces, CompletePawns, ConvEp, ConvKing, CompleteCastle) put the move into the generator's list.
   Black frame: the generator does not read the side-to-move flag (SetTurn) and the rules are mirror-symmetric (RulesMirror). *)
From Coq Require Import NArith ZArith List Bool Lia ZifyN ZifyBool.
From Rawr Require Import Consts Bits Magic Position MoveGen MakeMove MakeStages Rules Abs
                         BitsFacts AbsFacts HashFacts MakeFacts MakeAbs CastleFacts KeyAbs AttackAbs GenSane GenNoDup Closure EpRetro
                         GenLegal LegalBridge RulesMirror SetTurn PseudoBase PseudoPieces PseudoPawns PseudoCastle
                         CompleteBridge CompletePieces CompletePawns ConvEp ConvKing CompleteCastle NoKingCapture MovegenSound.
Import ListNotations.
Local Open Scope N_scope.
Ltac Zify.zify_post_hook ::= Z.div_mod_to_equations.

(* ------------------------------------------------------------------ White frame, safety given by an oracle *)
Section Core.
Variable p : Position.
Hypothesis Ht : turn p = false.
Hypothesis I : Inv0 p.
Hypothesis He : ep_ok_b p = true.
Variable sm : smove.
Hypothesis OrS : forall m k, sane p m k -> m_to m <> tksq p ->
   (k = PAWN -> rank_of (m_to m) = rank_of (m_from m) + 1 \/ m_to m = m_from m + 16) -> dec p m = sm ->
   in_check_them (makemove false p m) = false.
Hypothesis OrC : forall m kside, csane p m kside -> dec p m = sm -> in_check_them (makemove false p m) = false.

Let G : Good p := i0_good p I.

Lemma not_pawn_geo k (m : Mv) : k <> PAWN ->
  k = PAWN -> rank_of (m_to m) = rank_of (m_from m) + 1 \/ m_to m = m_from m + 16.
Proof. intros H E. contradiction. Qed.

Lemma holds_bit a k : holds p a false k -> pb p k a = true.
Proof. intros (Hk & _ & _ & Hp). rewrite (Hp k Hk). apply N.eqb_refl. Qed.

Lemma core_knight a : a < 64 -> holds p a false KNIGHT ->
  In sm (piece_moves (abs_state p) (fz a) (rz a) Knight) -> exists m, In m (legal_moves p) /\ dec p m = sm.
Proof.
  intros Ha Hh Hin.
  destruct (knight_rules_move p Ht G a sm Ha Hin) as (b & Hb & E & Hatt & Hub).
  exists (mkMv a b NOPIECE). split; [|symmetry; exact E].
  assert (Hk : KNIGHT <> PAWN) by (unfold KNIGHT, PAWN; lia).
  assert (S : sane p (mkMv a b NOPIECE) KNIGHT).
  { apply prep_sane; try assumption. unfold KNIGHT; lia. }
  pose proof (knight_nvk p a b I Ha Hb Hh Hatt) as NVK.
  apply (knight_complete false p a b I Ha Hb Hh Hatt Hub).
  exact (OrS _ KNIGHT S NVK (not_pawn_geo KNIGHT _ Hk) (eq_sym E)).
Qed.

Lemma core_bishop a : a < 64 -> holds p a false BISHOP ->
  In sm (piece_moves (abs_state p) (fz a) (rz a) Bishop) -> exists m, In m (legal_moves p) /\ dec p m = sm.
Proof.
  intros Ha Hh Hin.
  destruct (bishop_rules_move p Ht G a sm Ha Hin) as (b & Hb & E & Hatt & Hub).
  exists (mkMv a b NOPIECE). split; [|symmetry; exact E].
  assert (Hk : BISHOP <> PAWN) by (unfold BISHOP, PAWN; lia).
  assert (S : sane p (mkMv a b NOPIECE) BISHOP).
  { apply prep_sane; try assumption. unfold BISHOP; lia. }
  assert (Hbq : N.testbit (N.lor (bishops p) (queens p)) a = true).
  { rewrite N.lor_spec. pose proof (holds_bit a BISHOP Hh) as Hp. unfold pb, is_set in Hp.
    change (get_piece p BISHOP) with (bishops p) in Hp. rewrite Hp. reflexivity. }
  pose proof (diag_nvk p BISHOP a b I Ha Hb Hh Hbq Hatt) as NVK.
  apply (bishop_complete false p a b I Ha Hb Hh Hatt Hub).
  exact (OrS _ BISHOP S NVK (not_pawn_geo BISHOP _ Hk) (eq_sym E)).
Qed.

Lemma core_rook a : a < 64 -> holds p a false ROOK ->
  In sm (piece_moves (abs_state p) (fz a) (rz a) Rook) -> exists m, In m (legal_moves p) /\ dec p m = sm.
Proof.
  intros Ha Hh Hin.
  destruct (rook_rules_move p Ht G a sm Ha Hin) as (b & Hb & E & Hatt & Hub).
  exists (mkMv a b NOPIECE). split; [|symmetry; exact E].
  assert (Hk : ROOK <> PAWN) by (unfold ROOK, PAWN; lia).
  assert (S : sane p (mkMv a b NOPIECE) ROOK).
  { apply prep_sane; try assumption. unfold ROOK; lia. }
  assert (Hrq : N.testbit (N.lor (rooks p) (queens p)) a = true).
  { rewrite N.lor_spec. pose proof (holds_bit a ROOK Hh) as Hp. unfold pb, is_set in Hp.
    change (get_piece p ROOK) with (rooks p) in Hp. rewrite Hp. reflexivity. }
  pose proof (orth_nvk p ROOK a b I Ha Hb Hh Hrq Hatt) as NVK.
  apply (rook_complete false p a b I Ha Hb Hh Hatt Hub).
  exact (OrS _ ROOK S NVK (not_pawn_geo ROOK _ Hk) (eq_sym E)).
Qed.

Lemma core_queen a : a < 64 -> holds p a false QUEEN ->
  In sm (piece_moves (abs_state p) (fz a) (rz a) Queen) -> exists m, In m (legal_moves p) /\ dec p m = sm.
Proof.
  intros Ha Hh Hin.
  destruct (queen_rules_move p Ht G a sm Ha Hin) as (b & Hb & E & Hatt & Hub).
  exists (mkMv a b NOPIECE). split; [|symmetry; exact E].
  assert (Hk : QUEEN <> PAWN) by (unfold QUEEN, PAWN; lia).
  assert (S : sane p (mkMv a b NOPIECE) QUEEN).
  { apply prep_sane; try assumption. unfold QUEEN; lia. }
  pose proof (holds_bit a QUEEN Hh) as Hp. unfold pb, is_set in Hp. change (get_piece p QUEEN) with (queens p) in Hp.
  assert (NVK : b <> tksq p).
  { unfold qatt in Hatt. rewrite N.lor_spec in Hatt. apply orb_true_iff in Hatt. destruct Hatt as [Hd|Ho].
    - refine (diag_nvk p QUEEN a b I Ha Hb Hh _ Hd). rewrite N.lor_spec, Hp. apply orb_true_r.
    - refine (orth_nvk p QUEEN a b I Ha Hb Hh _ Ho). rewrite N.lor_spec, Hp. apply orb_true_r. }
  apply (queen_complete false p a b I Ha Hb Hh Hatt Hub).
  exact (OrS _ QUEEN S NVK (not_pawn_geo QUEEN _ Hk) (eq_sym E)).
Qed.

(* ---- pawns *)
Lemma plain_sane a b pr : a < 64 -> b < 64 -> holds p a false PAWN -> pawn_case_plain p a b pr ->
  sane p (mkMv a b pr) PAWN /\ b <> tksq p /\ (rank_of b = rank_of a + 1 \/ b = a + 16).
Proof.
  intros Ha Hb Hh [(-> & Hemp & Hpr)|[(-> & Hr & He1 & He2 & ->)|(Hgeo & Htb & Hpr)]].
  - assert (Hnep : mv_is_ep p (mkMv a (a + 8) pr) = false) by (apply same_file_not_ep; unfold file_of; lia).
    assert (Hrk : rank_of (a + 8) = rank_of a + 1) by (unfold rank_of; lia).
    split; [|split; [exact (empty_not_tksq p _ I Hemp)|left; exact Hrk]].
    apply pawn_sane; try assumption; [exact (proj1 (empty_bits p _ Hemp))|left; exact Hrk].
  - assert (Hnep : mv_is_ep p (mkMv a (a + 16) NOPIECE) = false) by (apply same_file_not_ep; unfold file_of; lia).
    split; [|split; [exact (empty_not_tksq p _ I He2)|right; reflexivity]].
    apply pawn_sane; try assumption.
    + exact (proj1 (empty_bits p _ He2)).
    + unfold promo_cond. replace (rank_of (a + 16) =? 7) with false by (symmetry; apply N.eqb_neq; unfold rank_of in *; lia). reflexivity.
    + right. reflexivity.
  - destruct (theirs_holds p (g_wf p G) b Hb Htb) as (c & Hc).
    pose proof (occupied_not_ep p a b pr c Hc) as Hnep.
    assert (Hrk : rank_of b = rank_of a + 1) by (unfold rank_of; lia).
    split; [|split; [|left; exact Hrk]].
    + apply pawn_sane; try assumption; [exact (them_not_us p (g_dis p G) b Htb)|left; exact Hrk].
    + destruct Hgeo as [(-> & Hf)|(-> & Hf)].
      * exact (pawn_ne_not_tksq p a I Hh Hb Hf).
      * exact (pawn_nw_not_tksq p a I Hh Hb Hf).
Qed.

Lemma ep_in_legal a b : In (PAWN, a, b, NOPIECE) (blk_ep p) -> In (mkMv a b NOPIECE) (legal_moves p).
Proof.
  intros H. apply (in_legal_moves p (PAWN, a, b, NOPIECE)). rewrite generator_blocks.
  do 4 (apply in_or_app; right). apply in_or_app. left. exact H.
Qed.

Lemma core_pawn a : a < 64 -> holds p a false PAWN ->
  In sm (piece_moves (abs_state p) (fz a) (rz a) Pawn) -> exists m, In m (legal_moves p) /\ dec p m = sm.
Proof.
  intros Ha Hh Hin.
  change (piece_moves (abs_state p) (fz a) (rz a) Pawn) with (pawn_moves (abs_state p) (fz a) (rz a)) in Hin.
  destruct (pawn_moves_char p Ht G a sm Ha Hin) as (b & pr & Hb & E & Hcase).
  exists (mkMv a b pr). split; [|symmetry; exact E].
  apply pawn_case_split in Hcase. destruct Hcase as [Hpl|(Hgeo & Ee & Htb & ->)].
  - destruct (plain_sane a b pr Ha Hb Hh Hpl) as (S & NVK & Hg).
    apply (pawn_plain_complete false p a b pr I Hh Hb Hpl).
    exact (OrS _ PAWN S NVK (fun _ => Hg) (eq_sym E)).
  - destruct (g_ep p G b Ee) as ((H8 & _) & Hemp & Hv).
    destruct (pawn_bits p a Hh) as (Hpa & Hua).
    assert (S : sane p (mkMv a b NOPIECE) PAWN).
    { apply (mk_sane p G a b NOPIECE PAWN); try assumption.
      - unfold PAWN; lia.
      - exact (proj1 (empty_bits p _ Hemp)).
      - intros _. exact Ee.
      - left. reflexivity. }
    pose proof (empty_not_tksq p b I Hemp) as NVK.
    assert (Hrk : rank_of b = rank_of a + 1) by (unfold rank_of; lia).
    pose proof (OrS _ PAWN S NVK (fun _ => or_introl Hrk) (eq_sym E)) as Hsafe.
    apply ep_in_legal.
    destruct Hgeo as [(-> & Hf)|(-> & Hf)].
    + pose proof (ep_complete_blk false p (a + 9) true I He Ee) as H. cbv beta iota zeta in H.
      rewrite N.add_sub in H. apply H; [split; [lia|exact Hf]|exact Hh|exact Hsafe].
    + pose proof (ep_complete_blk false p (a + 7) false I He Ee) as H. cbv beta iota zeta in H.
      rewrite N.add_sub in H. apply H; [split; [lia|exact Hf]|exact Hh|exact Hsafe].
Qed.

(* ---- the king *)
Let ksq := lsb (N.land (kings p) (c_us p)).

Lemma king_sq a : holds p a false KING -> a = ksq.
Proof.
  intros Hh. pose proof (view_of_king p true (g_bb p G) (g_king p G) a) as V. cbv beta iota in V.
  pose proof (holds_bit a KING Hh) as Hp. change KING with 5 in Hp. rewrite Hp in V. destruct Hh as (_ & Hu & _). rewrite Hu in V. cbn [andb negb] in V.
  symmetry in V. apply N.eqb_eq in V. exact V.
Qed.

Lemma castle_in_legal g : In g (blk_castle_k p) \/ In g (blk_castle_q p) -> In (gen_mv g) (legal_moves p).
Proof.
  intros H. apply (in_legal_moves p g). rewrite generator_blocks.
  do 14 (apply in_or_app; right). apply in_or_app. exact H.
Qed.

Lemma core_king_step : In sm (step_moves (board_of p) White (fz ksq) (rz ksq) king_d) ->
  exists m, In m (legal_moves p) /\ dec p m = sm.
Proof.
  intros Hin. destruct (king_holds p G) as (Hkh & Hk64). fold ksq in Hkh, Hk64.
  destruct (king_step_rules_move p Ht G ksq sm Hk64 Hin) as (b & Hb & E & Hadj & Hub).
  exists (mkMv ksq b NOPIECE). split; [|symmetry; exact E].
  pose proof (step_sane p b G Hb Hub) as S. fold ksq in S.
  assert (NVK : b <> tksq p).
  { intros Eb. pose proof (attacked_by_king p b Hadj) as Hatt. pose proof (i0_safe p I) as Hs.
    unfold in_check_them in Hs. rewrite Eb in Hatt. unfold tksq in Hatt. rewrite Hatt in Hs. discriminate Hs. }
  assert (Hk : KING <> PAWN) by (unfold KING, PAWN; lia).
  apply (king_step_generated false p b I Hb Hadj Hub NVK).
  exact (OrS _ KING S NVK (not_pawn_geo KING _ Hk) (eq_sym E)).
Qed.

Lemma core_castle_k : In sm (castle_moves (abs_state p) (fz ksq) (kright (abs_state p) White) true) ->
  exists m, In m (legal_moves p) /\ dec p m = sm.
Proof.
  intros Hin.
  assert (Hrest : castle_rest p (us_ksc p) (sq_of (cf0 p) 0) G1 F1 = true).
  { apply castle_rest_iff. rewrite sq_of_0.
    refine (rules_castle p Ht I (us_ksc p) (cf0 p) true (proj1 (g_cf p G)) _ _).
    - intros Hf. exact (wc_geo_k p I Hf).
    - rewrite <- (wc_kright p Ht). intros En. fold ksq in En. rewrite En in Hin. exact Hin. }
  destruct (castle_k_complete p Ht I sm Hin (castle_k_hpin0 p I Hrest)) as (g & Hg & E).
  exists (gen_mv g). split; [exact (castle_in_legal g (or_introl Hg))|exact E].
Qed.

Lemma core_castle_q : In sm (castle_moves (abs_state p) (fz ksq) (qright (abs_state p) White) false) ->
  exists m, In m (legal_moves p) /\ dec p m = sm.
Proof.
  intros Hin.
  assert (Hne : castle_moves (abs_state p) (fz ksq) (right_of (us_qsc p) (cf1 p)) false <> nil).
  { rewrite <- (wc_qright p Ht). intros En. rewrite En in Hin. exact Hin. }
  assert (Hgeo : us_qsc p = true -> holds p (cf1 p) false ROOK /\ cf1 p < ksq /\ ksq < 8).
  { intros Hf. destruct (wc_geo_q p I Hf) as (H1 & H2 & H3). split; [exact H1|split; [exact H2|exact H3]]. }
  destruct (rules_castle p Ht I (us_qsc p) (cf1 p) false (proj1 (proj2 (g_cf p G))) Hgeo Hne) as (Hq & Hnc & Hemp & Hatt).
  assert (Hrest : castle_rest p (us_qsc p) (sq_of (cf1 p) 0) C1 D1 = true).
  { apply castle_rest_iff. rewrite sq_of_0. split; [exact Hq|split; [exact Hnc|split; [exact Hemp|exact Hatt]]]. }
  destruct (Hgeo Hq) as (_ & Hlt & Hk8).
  assert (Hemp' := Hemp). rewrite <- (sq_of_0 (cf1 p)) in Hemp'.
  pose proof (csane_q p G (i0_cg p I) Hq Hemp') as CS. fold ksq in CS.
  assert (Edec : dec p (mkMv ksq (sq_of (cf1 p) 0) NOPIECE) = sm).
  { destruct (castle_moves_shape (abs_state p) (fz ksq) _ false sm (s_turn_white p Ht) Hin) as (rf & Er & ->).
    rewrite (wc_qright p Ht), Hq in Er. unfold right_of in Er. injection Er as <-.
    rewrite (dec_white p Ht). cbn [m_from m_to]. rewrite sq_of_0.
    rewrite (rz_low ksq Hk8), (rz_low (cf1 p)) by lia. rewrite (fz_low (cf1 p)) by lia. reflexivity. }
  pose proof (OrC _ false CS Edec) as Hsafe.
  destruct (castle_q_complete p Ht I sm Hin (castle_q_hpin false p I Hrest Hsafe)) as (g & Hg & E).
  exists (gen_mv g). split; [exact (castle_in_legal g (or_intror Hg))|exact E].
Qed.

Lemma core_king a : a < 64 -> holds p a false KING ->
  In sm (piece_moves (abs_state p) (fz a) (rz a) King) -> exists m, In m (legal_moves p) /\ dec p m = sm.
Proof.
  intros Ha Hh Hin. pose proof (king_sq a Hh) as Ea. rewrite Ea in Hin.
  destruct (piece_king_split p Ht ksq sm Hin) as [Hs|Hc].
  - exact (core_king_step Hs).
  - destruct (rz ksq =? home White)%Z; [|contradiction].
    apply in_app_or in Hc. destruct Hc as [Hc|Hc]; [exact (core_castle_k Hc)|exact (core_castle_q Hc)].
Qed.

(* ---- assembly *)
Theorem core : In sm (pseudo_moves (abs_state p)) -> exists m, In m (legal_moves p) /\ dec p m = sm.
Proof.
  intros Hin. destruct (pseudo_elim (abs_state p) sm Hin) as (f & r & k & Hsq & Hat & Hpm).
  rewrite (s_board_white p), (s_turn_white p Ht) in Hat.
  destruct (at_white_ours p f r k Ht G Hsq Hat) as (Ha & Hh & Ef & Er).
  set (a := zsq f r) in *. clearbody a. rewrite <- Ef, <- Er in Hpm.
  destruct k; cbn [N_of_kind] in Hh.
  - exact (core_pawn _ Ha Hh Hpm).
  - exact (core_knight _ Ha Hh Hpm).
  - exact (core_bishop _ Ha Hh Hpm).
  - exact (core_rook _ Ha Hh Hpm).
  - exact (core_queen _ Ha Hh Hpm).
  - exact (core_king _ Ha Hh Hpm).
Qed.
End Core.

(* ------------------------------------------------------------------ White frame: the oracle is the rules' filter *)
Theorem complete_white p sm : turn p = false -> Inv0 p -> ep_ok_b p = true -> In sm (legal (abs_state p)) ->
  exists m, In m (legal_moves p) /\ dec p m = sm.
Proof.
  intros Ht I He Hl. apply (core p Ht I He sm).
  - intros m k S NVK Hg E. apply (legal_filter_sane false p m k I S NVK Hg). rewrite E. exact Hl.
  - intros m ks S E. apply (legal_filter_csane false p m ks I S). rewrite E. exact Hl.
  - unfold legal in Hl. apply filter_In in Hl. exact (proj1 Hl).
Qed.

(* ------------------------------------------------------------------ Black frame: through the White twin *)
Lemma sane_of_set_turn p t m k : sane (set_turn p t) m k -> sane p m k.
Proof.
  intros S. constructor; [exact (sn_from _ _ _ S)|exact (sn_to _ _ _ S)|exact (sn_ne _ _ _ S)|exact (sn_mover _ _ _ S)|exact (sn_target _ _ _ S)
                         |exact (sn_kr _ _ _ S)|exact (sn_ep _ _ _ S)|exact (sn_promo _ _ _ S)].
Qed.

Lemma csane_of_set_turn p t m ks : csane (set_turn p t) m ks -> csane p m ks.
Proof.
  intros S. constructor; [exact (cs_from _ _ _ S)|exact (cs_to _ _ _ S)|exact (cs_ne _ _ _ S)|exact (cs_king _ _ _ S)|exact (cs_rook _ _ _ S)
                         |exact (cs_side _ _ _ S)|exact (cs_rsq _ _ _ S)|exact (cs_kt _ _ _ S)|exact (cs_rt _ _ _ S)|exact (cs_promo _ _ _ S)].
Qed.

Theorem complete_black p sm : turn p = true -> Inv0 p -> ep_ok_b p = true -> In sm (legal (abs_state p)) ->
  exists m, In m (legal_moves p) /\ dec p m = sm.
Proof.
  intros Ht I He Hl. pose proof (i0_good p I) as G. pose proof (i0_cg p I) as CG.
  assert (Hep : forall e, ep p = Some e -> e < 64) by (intros e Ee; destruct (g_ep p G e Ee) as ((_ & H) & _); exact H).
  assert (Hps : In (mirror_move sm) (pseudo_moves (abs_state (set_turn p false)))).
  { apply (proj2 (pseudo_abs_mirror p (mirror_move sm) Ht Hep)). rewrite mirror_move_invol.
    unfold legal in Hl. apply filter_In in Hl. exact (proj1 Hl). }
  assert (Hback : forall m, m_from m < 64 -> m_to m < 64 -> dec (set_turn p false) m = mirror_move sm -> dec p m = sm).
  { intros m Hf Hto E. rewrite (dec_mirror p m Ht Hf Hto), E. apply mirror_move_invol. }
  assert (He0 : ep_ok_b (set_turn p false) = true) by (rewrite ep_ok_set_turn; exact He).
  destruct (core (set_turn p false) eq_refl (Inv0_set_turn p false I) He0 (mirror_move sm)) as (m & Hm & E).
  - intros m k S0 NVK Hg E. pose proof (sane_of_set_turn p false m k S0) as S.
    pose proof (Hback m (sn_from _ _ _ S) (sn_to _ _ _ S) E) as Ed.
    rewrite in_check_after_set_turn.
    apply (legal_filter_sane false p m k I S NVK Hg). rewrite Ed. exact Hl.
  - intros m ks S0 E. pose proof (csane_of_set_turn p false m ks S0) as S.
    assert (Hf : m_from m < 64) by (pose proof (cs_from _ _ _ S); lia).
    assert (Hto : m_to m < 64) by (pose proof (cs_to _ _ _ S); lia).
    pose proof (Hback m Hf Hto E) as Ed.
    rewrite in_check_after_set_turn.
    apply (legal_filter_csane false p m ks I S). rewrite Ed. exact Hl.
  - exact Hps.
  - rewrite legal_moves_set_turn in Hm. exists m. split; [exact Hm|].
    destruct (generated_side_conditions p m G CG Hm) as (Hf & Hto & _). exact (Hback m Hf Hto E).
Qed.

(* ------------------------------------------------------------------ the theorems *)
Theorem legal_generated p sm : Inv0 p -> ep_ok_b p = true -> In sm (legal (abs_state p)) ->
  exists m, In m (legal_moves p) /\ dec p m = sm.
Proof.
  intros I He Hl. destruct (turn p) eqn:Ht.
  - exact (complete_black p sm Ht I He Hl).
  - exact (complete_white p sm Ht I He Hl).
Qed.

Theorem movegen_complete p sm : Inv0 p -> ep_ok_b p = true -> In sm (legal (abs_state p)) -> In (enc p sm) (legal_moves p).
Proof.
  intros I He Hl. destruct (legal_generated p sm I He Hl) as (m & Hm & E).
  rewrite <- E, (enc_dec_generated p m (i0_good p I) (i0_cg p I) Hm). exact Hm.
Qed.

Theorem movegen_exact p : Inv0 p -> ep_ok_b p = true ->
  (forall m, In m (legal_moves p) <-> In m (spec_legal p)) /\ NoDup (legal_moves p).
Proof.
  intros I He. split.
  - intros m. split.
    + exact (movegen_sound p m I He).
    + intros Hm. unfold spec_legal in Hm. apply in_map_iff in Hm. destruct Hm as (sm & <- & Hl).
      exact (movegen_complete p sm I He Hl).
  - exact (legal_moves_NoDup p (i0_good p I) (i0_cg p I)).
Qed.

Print Assumptions movegen_complete.
Print Assumptions movegen_exact.
