(* C20, game layer: the counting part SCount of the statistics invariant (proofs/StyleInv.v) is kept by every step of the
   game analysis of model/StyleGame.v: by the counters one move adds (add_move, for an event whose distance and rank are
   board coordinates), by the end of a game (end_game), hence by game_run / analyse_game over any sequence of generated
   moves from a position satisfying GenLegal.InvR.  The event of a generated move is such an event (move_event_ok). *)
From Coq Require Import NArith ZArith QArith List Bool Lia ZifyN ZifyBool Lqa.
From Rawr Require Import Consts Bits Magic Position MoveGen MakeMove MakeStages Style StyleGame StyleSpec
                         BitsFacts LsbFacts HashFacts AttackFacts GenSane Closure GenLegal LegalBridge
                         StyleFacts StyleInv.
Import ListNotations.
Local Open Scope Q_scope.

(* ------------------------------------------------------------------ 1. q1 and bump *)
Lemma q1_nn b : 0 <= q1 b.
Proof. destruct b; cbn [q1]; lra. Qed.
Lemma q1_le1 b : q1 b <= 1.
Proof. destruct b; cbn [q1]; lra. Qed.
Lemma q1_negb b : q1 b + q1 (negb b) == 1.
Proof. destruct b; cbn [q1 negb]; lra. Qed.

Lemma sumq_cons x l : sumq (x :: l) = x + sumq l.
Proof. reflexivity. Qed.

Lemma bump_length l : forall i, length (bump l i) = length l.
Proof.
  induction l as [|x r IH]; intros i.
  - reflexivity.
  - destruct i as [|j]; cbn [bump length]; [reflexivity|]. rewrite IH. reflexivity.
Qed.

Lemma bump_nonneg l : forall i, nonneg l -> nonneg (bump l i).
Proof.
  unfold nonneg. induction l as [|x r IH]; intros i H.
  - cbn [bump]. exact H.
  - inversion H as [|y t Hx Hr]; subst. destruct i as [|j]; cbn [bump].
    + constructor; [lra|exact Hr].
    + constructor; [exact Hx|apply IH; exact Hr].
Qed.

Lemma bump_sum l : forall i, (i < length l)%nat -> sumq (bump l i) == sumq l + 1.
Proof.
  induction l as [|x r IH]; intros i H.
  - cbn [length] in H. lia.
  - destruct i as [|j]; cbn [bump]; rewrite !sumq_cons.
    + lra.
    + cbn [length] in H. assert (Hj : (j < length r)%nat) by lia. pose proof (IH j Hj) as E. lra.
Qed.

Lemma bump_if_length c l i : length (bump_if c l i) = length l.
Proof. destruct c; cbn [bump_if]; [apply bump_length|reflexivity]. Qed.
Lemma bump_if_nonneg c l i : nonneg l -> nonneg (bump_if c l i).
Proof. intros H. destruct c; cbn [bump_if]; [apply bump_nonneg; exact H|exact H]. Qed.
Lemma bump_if_sum c l i : (i < length l)%nat -> sumq (bump_if c l i) == sumq l + q1 c.
Proof. intros H. destruct c; cbn [bump_if q1]; [apply bump_sum; exact H|lra]. Qed.

Lemma hist_keep c l i t : (i < 8)%nat ->
  length l = 8%nat /\ nonneg l /\ sumq l == t ->
  length (bump_if c l i) = 8%nat /\ nonneg (bump_if c l i) /\ sumq (bump_if c l i) == t + q1 c.
Proof.
  intros Hi (HL & HN & HS). split; [|split].
  - rewrite bump_if_length. exact HL.
  - apply bump_if_nonneg. exact HN.
  - rewrite bump_if_sum by (rewrite HL; exact Hi). lra.
Qed.

(* ------------------------------------------------------------------ 2. one move *)
Ltac projs :=
  cbn [num_wins num_draws num_losses num_games castle_same castle_opposite total_captures total_noncaptures total_moves
       checks nonchecks early_captures mid_captures late_captures extreme_captures capture_distance noncapture_distance
       game_length short_games medium_games long_games extreme_games num_win_ahead num_win_equal num_win_behind
       early_pawn_pushes mid_pawn_pushes late_pawn_pushes total_pawn_pushes total_pawn_pushes_towards_king
       num_rook_threats num_bishop_threats].

Ltac q1facts :=
  repeat match goal with
         | |- context [q1 ?b] => lazymatch goal with
                                 | _ : 0 <= q1 b |- _ => fail
                                 | _ => pose proof (q1_nn b); pose proof (q1_le1 b)
                                 end
         end.

Lemma add_move_games e s : num_games (add_move e s) = num_games s.
Proof. reflexivity. Qed.

Lemma q1_and_le a b : q1 (a && b) <= q1 a.
Proof. destruct a, b; cbn [q1 andb]; lra. Qed.

Lemma caps_split (cap : bool) (ply : N) :
  q1 (cap && (ply <? 30)%N) + q1 (cap && negb (ply <? 30)%N && (ply <? 50)%N)
  + q1 (cap && negb (ply <? 50)%N && (ply <? 70)%N) + q1 (cap && negb (ply <? 70)%N) == q1 cap.
Proof.
  destruct (N.ltb_spec ply 30), (N.ltb_spec ply 50), (N.ltb_spec ply 70); try lia;
    destruct cap; cbn [q1 negb andb]; lra.
Qed.

Lemma add_move_count e s : EvOK e -> SCount s -> SCount (add_move e s).
Proof.
  intros (Hd & Hr) C.
  destruct C as [NN Cg Cm Cc Cw Cl Cp Ccd Cnd Ct Ctw].
  constructor; unfold add_move; projs.
  - destruct NN as (? & ? & ? & ? & ? & ? & ? & ? & ? & ? & ? & ? & ? & ? & ? & ? & ? & ? & ? & ? & ? & ? & ?).
    repeat split; try assumption; q1facts; lra.
  - exact Cg.
  - pose proof (q1_negb (e_cap e)). lra.
  - pose proof (q1_negb (e_check e)). lra.
  - exact Cw.
  - exact Cl.
  - pose proof (caps_split (e_cap e) (e_ply e)). lra.
  - apply hist_keep; [exact Hd|exact Ccd].
  - apply hist_keep; [exact Hd|exact Cnd].
  - destruct Ct as (T1 & T2). q1facts. split; lra.
  - pose proof (q1_and_le (e_pawn e) (e_towards e)). lra.
Qed.

(* ------------------------------------------------------------------ 3. the end of a game *)
Lemma end_game_games plies us them o mat s : num_games (end_game plies us them o mat s) == num_games s + 1.
Proof. reflexivity. Qed.

Lemma len_split (plies : N) :
  q1 (plies <? 80)%N + q1 (negb (plies <? 80)%N && (plies <? 100)%N)
  + q1 (negb (plies <? 100)%N && (plies <? 140)%N) + q1 (negb (plies <? 140)%N) == 1.
Proof.
  destruct (N.ltb_spec plies 80), (N.ltb_spec plies 100), (N.ltb_spec plies 140); try lia;
    cbn [q1 negb andb]; lra.
Qed.

Lemma outcome_split (o : Outcome) :
  q1 (match o with Won => true | _ => false end) + q1 (match o with Drawn => true | _ => false end)
  + q1 (match o with Lost => true | _ => false end) == 1.
Proof. destruct o; cbn [q1]; lra. Qed.

Lemma mat_split (won : bool) (mat : comparison) :
  q1 (won && match mat with Gt => true | _ => false end) + q1 (won && match mat with Eq => true | _ => false end)
  + q1 (won && match mat with Lt => true | _ => false end) == q1 won.
Proof. destruct won, mat; cbn [q1 andb]; lra. Qed.

Lemma end_game_count plies us them o mat s : SCount s -> SCount (end_game plies us them o mat s).
Proof.
  intros C.
  destruct C as [NN Cg Cm Cc Cw Cl Cp Ccd Cnd Ct Ctw].
  constructor; unfold end_game; projs.
  - destruct NN as (? & ? & ? & ? & ? & ? & ? & ? & ? & ? & ? & ? & ? & ? & ? & ? & ? & ? & ? & ? & ? & ? & ?).
    repeat split; try assumption; q1facts; lra.
  - pose proof (outcome_split o). lra.
  - exact Cm.
  - exact Cc.
  - pose proof (mat_split (match o with Won => true | _ => false end) mat). lra.
  - pose proof (len_split plies). lra.
  - exact Cp.
  - exact Ccd.
  - exact Cnd.
  - exact Ct.
  - exact Ctw.
Qed.

(* ------------------------------------------------------------------ 4. the event of a generated move *)
Local Open Scope N_scope.
Ltac Zify.zify_post_hook ::= Z.div_mod_to_equations.

Lemma their_king_lt64 p : Inv0 p -> their_king p < 64.
Proof.
  intros I. pose proof (i0_good p I) as G. unfold their_king.
  destruct (g_bb p G) as (_ & B2 & _).
  apply lsb_lt64; [apply land_lt_r; exact B2|apply popcount1_nonzero; exact (i0_tking p I)].
Qed.

Lemma absdiff_le a b n : a < n -> b < n -> absdiff a b < n.
Proof. intros Ha Hb. unfold absdiff. destruct (N.ltb_spec a b); lia. Qed.

Lemma dist_lt8 k t : k < 64 -> t < 64 ->
  (N.to_nat (N.max (absdiff (file_of k) (file_of t)) (absdiff (rank_of k) (rank_of t))) < 8)%nat.
Proof.
  intros Hk Ht.
  assert (H1 : absdiff (file_of k) (file_of t) < 8) by (apply absdiff_le; unfold file_of; lia).
  assert (H2 : absdiff (rank_of k) (rank_of t) < 8) by (apply absdiff_le; unfold rank_of; lia).
  lia.
Qed.

Theorem move_event_ok p m ply : InvR p -> In m (legal_moves p) -> EvOK (move_event p m ply).
Proof.
  intros IR Hm.
  pose proof (Inv_Inv0 p (ir_inv p IR)) as I0.
  pose proof (their_king_lt64 p I0) as Hk.
  destruct (generated_side_conditions p m (i0_good p I0) (i0_cg p I0) Hm) as (_ & Ht & _).
  unfold EvOK, move_event. cbn [e_dist e_rank]. split.
  - apply dist_lt8; [exact Hk|exact Ht].
  - unfold rank_of. lia.
Qed.

(* ------------------------------------------------------------------ 5. a game *)
Lemma game_run_count_gen side ms : forall start s ply us them, InvR start -> gen_seq start ms -> SCount s ->
  SCount (gs_stats (fold_left (game_step side) ms (mkGS start ply us them s)))
  /\ num_games (gs_stats (fold_left (game_step side) ms (mkGS start ply us them s))) = num_games s
  /\ InvR (gs_pos (fold_left (game_step side) ms (mkGS start ply us them s))).
Proof.
  induction ms as [|m r IH]; intros start s ply us them IR GS C.
  - cbn [fold_left gs_stats gs_pos]. split; [exact C|split; [reflexivity|exact IR]].
  - cbn [gen_seq] in GS. destruct GS as (Hm & GS).
    pose proof (invR_step start m IR Hm) as IR'.
    cbn [fold_left].
    assert (E : game_step side (mkGS start ply us them s) m =
                if Bool.eqb (turn start) side
                then mkGS (makemove true start m) (ply + 1) (if castle_kind start m =? 0 then us else castle_kind start m) them
                          (add_move (move_event start m ply) s)
                else mkGS (makemove true start m) (ply + 1) us (if castle_kind start m =? 0 then them else castle_kind start m) s)
      by reflexivity.
    rewrite E. clear E.
    destruct (Bool.eqb (turn start) side).
    + destruct (IH (makemove true start m) (add_move (move_event start m ply) s) (ply + 1)
                   (if castle_kind start m =? 0 then us else castle_kind start m) them IR' GS
                   (add_move_count _ _ (move_event_ok start m ply IR Hm) C)) as (C1 & G1 & R1).
      split; [exact C1|split; [|exact R1]]. rewrite G1. apply add_move_games.
    + exact (IH (makemove true start m) s (ply + 1) us
                (if castle_kind start m =? 0 then them else castle_kind start m) IR' GS C).
Qed.

Theorem game_run_count side ms : forall start s ply us them, InvR start -> gen_seq start ms -> SCount s ->
  let g := fold_left (game_step side) ms (mkGS start ply us them s) in
  SCount (gs_stats g) /\ num_games (gs_stats g) = num_games s /\ InvR (gs_pos g).
Proof. intros start s ply us them IR GS C. cbv zeta. apply game_run_count_gen; assumption. Qed.

Theorem analyse_game_count side start h ms s : InvR start -> gen_seq start ms -> SCount s ->
  SCount (analyse_game side start h ms s) /\ (num_games (analyse_game side start h ms s) == num_games s + 1)%Q.
Proof.
  intros IR GS C. unfold analyse_game, game_run. cbv zeta.
  destruct (game_run_count_gen side ms start s 0 0 0 IR GS C) as (C1 & G1 & _).
  split.
  - apply end_game_count. exact C1.
  - rewrite end_game_games, G1. reflexivity.
Qed.

Print Assumptions analyse_game_count.
Print Assumptions move_event_ok.
