(* A SESSION-LEVEL invariant of the UCI command loop of the model (model/Uci.v).

   The per-command theorems (C15: only `position` with a rejected FEN panics; C03: a search answers with a legal move
   under InvSR / TBnd; C14: a search leaves a table satisfying TBnd; C02: the domain D is closed under generated moves)
   are lifted to EVERY history of commands:

   * `SessInv s` : the position of the engine state is in the domain D, every table entry's score is within the mate
     bounds (TBnd), the Chess960 flag stored in the position equals the option value, the Hash option is within
     [1, 4096] MB and the table has exactly the number of slots that option prescribes (hence at least one slot);
   * `init_inv` : the state phase 2 starts from satisfies SessInv, whatever `setoption` lines come before `isready`;
   * `step_inv` : every command keeps SessInv, provided a `position` command carries a FEN whose parsed position is in D
     (`PosLineOK`: a condition on the FEN text and the Chess960 option only; `position startpos ...` always meets it);
   * `step_panics_only_on_rejected_fen` : the only panic is `position` with a FEN the parser rejects;
   * `go_search_answers`, `go_cmd_answers`, `step_go_answers` : every `go depth N` / `go nodes N` that returns answers,
     as its last output line, `bestmove <a legal move>` whenever the position has a legal move;
   * `reached_inv`, `phase2_no_panic`, `session_go_answers`, `run_session_safe`, `run_session_startpos_safe` : the same
     along every script and for the whole session.

   NOT proved here (and not true of the model as it stands): that `go` returns `Cont` rather than `OutOfFuel` -- the
   model runs the search with SEARCH_FUEL = 400 while the proved sufficient bound is ROOT_FUEL = 61442;
   `session_search_would_answer` states what holds of the search with sufficient fuel in every reached state. *)
From Coq Require Import NArith ZArith List Bool String Lia ZifyN ZifyBool.
From Rawr Require Import Consts Bits Magic Position MoveGen MakeMove Fen Eval TT Search MakeStages Abs MakeFacts
  SearchFacts Closure MenCount EpRetro SearchBound GenLegal SearchTotal SearchFinal FenFacts DomainInv DomainClosed.
From Rawr Require TTFacts.
From Rawr Require Import Uci UciFacts.
Import ListNotations.
Local Open Scope N_scope.
Ltac Zify.zify_post_hook ::= Z.div_mod_to_equations.

(* ------------------------------------------------------------------ the Chess960 flag *)
(* the domain D does not read the flag (only to_uci and set_fen's caller do) *)
Lemma in_D_set_frc p b : in_D (set_frc p b) = in_D p.
Proof. destruct p; reflexivity. Qed.

Lemma legal_moves_set_frc p b : legal_moves (set_frc p b) = legal_moves p.
Proof. destruct p; reflexivity. Qed.

Lemma is_frc_set_frc p b : is_frc (set_frc p b) = b.
Proof. reflexivity. Qed.

(* makemove never touches the flag *)
Lemma is_frc_set_piece p i v : is_frc (set_piece p i v) = is_frc p.
Proof.
  unfold set_piece. destruct i as [|q]; [reflexivity|].
  destruct q as [q|q|]; try reflexivity; destruct q as [q|q|]; try reflexivity; destruct q; reflexivity.
Qed.
Lemma is_frc_xor_piece p i bb : is_frc (xor_piece p i bb) = is_frc p.
Proof. unfold xor_piece. apply is_frc_set_piece. Qed.
Lemma is_frc_xor_us p bb : is_frc (xor_us p bb) = is_frc p.
Proof. reflexivity. Qed.
Lemma is_frc_xor_them p bb : is_frc (xor_them p bb) = is_frc p.
Proof. reflexivity. Qed.
Lemma is_frc_castle_fix p a b c d e : is_frc (castle_fix p a b c d e) = is_frc p.
Proof. unfold castle_fix. cbv zeta. rewrite ?is_frc_xor_piece, ?is_frc_xor_us. reflexivity. Qed.
Lemma is_frc_st_move p ft k : is_frc (st_move p ft k) = is_frc p.
Proof. unfold st_move. rewrite is_frc_xor_piece. reflexivity. Qed.
Lemma is_frc_st_capture p to c : is_frc (st_capture p to c) = is_frc p.
Proof. unfold st_capture. destruct (is_set (c_them p) to); [rewrite is_frc_xor_piece|]; reflexivity. Qed.
Lemma is_frc_st_ep p b vic : is_frc (st_ep p b vic) = is_frc p.
Proof. unfold st_ep. destruct b; [rewrite is_frc_xor_piece|]; reflexivity. Qed.
Lemma is_frc_st_castle p p0 from to : is_frc (st_castle p p0 from to) = is_frc p.
Proof.
  unfold st_castle. destruct (is_occ (N.land (kings p) (rooks p)) && (from <? to)); [apply is_frc_castle_fix|].
  destruct (is_occ (N.land (kings p) (rooks p)) && (to <? from)); [apply is_frc_castle_fix|reflexivity].
Qed.
Lemma is_frc_st_promo p pr bb : is_frc (st_promo p pr bb) = is_frc p.
Proof. unfold st_promo. destruct (negb (pr =? NOPIECE)); [rewrite !is_frc_xor_piece|]; reflexivity. Qed.
Lemma is_frc_mv_start u p m : is_frc (mv_start u p m) = is_frc p.
Proof. unfold mv_start. destruct u; reflexivity. Qed.
Lemma is_frc_mv_boards u p m : is_frc (mv_boards u p m) = is_frc p.
Proof.
  unfold mv_boards. cbv zeta.
  rewrite is_frc_st_promo, is_frc_st_castle, is_frc_st_ep, is_frc_st_capture, is_frc_st_move. apply is_frc_mv_start.
Qed.
Lemma is_frc_flip q : is_frc (flip q) = is_frc q.
Proof. reflexivity. Qed.
Lemma is_frc_scer q hm fm e a b c d : is_frc (set_clocks_ep_rights q hm fm e a b c d) = is_frc q.
Proof. reflexivity. Qed.
Theorem is_frc_makemove u p m : is_frc (makemove u p m) = is_frc p.
Proof. rewrite makemove_stages, is_frc_flip, is_frc_scer. apply is_frc_mv_boards. Qed.

(* ------------------------------------------------------------------ what D gives *)
Lemma in_D_InvSR p : in_D p = true -> InvSR p.
Proof. intros H. apply invr_b_sound, in_D_invr, H. Qed.

Lemma in_D_halfmoves p : in_D p = true -> (0 <= halfmoves p)%Z.
Proof. intros H. pose proof (validate_sound p (df_valid p (in_D_facts p H))) as V. tauto. Qed.

Lemma search_fuel_ok : (Z.of_nat SEARCH_FUEL <= 2 * MATE_SCORE)%Z.
Proof. vm_compute. discriminate. Qed.

(* ------------------------------------------------------------------ moves *)
Lemma moves_cmd_keeps toks : forall p h out p' h' o',
  moves_cmd toks p h out = (p', h', o') -> in_D p = true -> in_D p' = true /\ is_frc p' = is_frc p.
Proof.
  induction toks as [|t rest IH]; intros p h out p' h' o' E HD; cbn [moves_cmd] in E.
  - injection E as <- _ _. split; [exact HD|reflexivity].
  - destruct (find_move p t) as [m|] eqn:Ef.
    + apply IH in E.
      * destruct E as [E1 E2]. split; [exact E1|]. rewrite E2. apply is_frc_makemove.
      * apply in_D_step; [exact HD|]. exact (find_move_legal p t m Ef).
    + exact (IH _ _ _ _ _ _ E HD).
Qed.

(* ------------------------------------------------------------------ position: the FEN text and the tokens after `moves` *)
Definition pos_split (toks : list str) : str * list str :=
  match toks with
  | t :: rest => if tok_is t "startpos" then (lit "startpos", tl rest)
                 else if tok_is t "fen" then (let '(f, r) := take_fen rest [] in (trim_end f, r)) else ([], rest)
  | [] => ([], [])
  end.
Definition pos_fen (toks : list str) : str := fst (pos_split toks).
Definition pos_rest (toks : list str) : list str := snd (pos_split toks).

Lemma position_cmd_fen mode toks p :
  position_cmd mode toks p =
  match set_fen mode (is_frc p) (pos_fen toks) with
  | None => None
  | Some q => Some (moves_cmd (pos_rest toks) q [hash q] [])
  end.
Proof.
  unfold position_cmd, pos_fen, pos_rest, pos_split.
  destruct toks as [|t rest]; [reflexivity|].
  destruct (tok_is t "startpos"); [reflexivity|].
  destruct (tok_is t "fen"); [|reflexivity].
  destruct (take_fen rest []) as [f r]. reflexivity.
Qed.

(* a FEN text is admissible (for a parser mode and a value of the Chess960 option) when the position the parser
   builds from it, if any, is in D.  (The parser accepts some positions outside D, e.g. with an en-passant square
   that no double push can have produced; for those the theorems about the search do not hold.) *)
Definition FenOK (mode frc : bool) (fen : str) : Prop :=
  forall q, set_fen mode frc fen = Some q -> in_D q = true.

Definition PosLineOK (mode : bool) (s : UState) (l : list str) : Prop :=
  match l with
  | c :: args => tok_is c "position" = true -> FenOK mode (u_frc s) (pos_fen args)
  | [] => True
  end.

Lemma startpos_fen_b : forall mode frc,
  match set_fen mode frc (lit "startpos") with Some q => in_D q | None => true end = true.
Proof. destruct mode, frc; vm_compute; reflexivity. Qed.

Theorem startpos_fen_ok mode frc : FenOK mode frc (lit "startpos").
Proof. intros q H. pose proof (startpos_fen_b mode frc) as B. rewrite H in B. exact B. Qed.

Lemma pos_fen_startpos t rest : tok_is t "startpos" = true -> pos_fen (t :: rest) = lit "startpos".
Proof. intros H. unfold pos_fen, pos_split. rewrite H. reflexivity. Qed.

(* ------------------------------------------------------------------ the invariant *)
Definition slots_of (mb : N) : N := mb * 1024 * 1024 / TTENTRY_BYTES_DEFAULT.

(* the part that holds from the very first line on *)
Record PreInv (s : UState) : Prop := mkPre {
  pi_pos : in_D (u_pos s) = true;
  pi_tbnd : TBnd (u_tt s);
  pi_frc : is_frc (u_pos s) = u_frc s;
  pi_hash : 1 <= u_hash s <= 4096 }.

(* and from `isready` (or the first other command) on: the table has the size the Hash option prescribes *)
Record SessInv (s : UState) : Prop := mkSess {
  si_pos : in_D (u_pos s) = true;
  si_tbnd : TBnd (u_tt s);
  si_frc : is_frc (u_pos s) = u_frc s;
  si_hash : 1 <= u_hash s <= 4096;
  si_len : t_len (u_tt s) = slots_of (u_hash s) }.

Lemma sess_pre s : SessInv s -> PreInv s.
Proof. intros [A B C D _]. exact (mkPre s A B C D). Qed.
Lemma pre_sess s : PreInv s -> t_len (u_tt s) = slots_of (u_hash s) -> SessInv s.
Proof. intros [A B C D] E. exact (mkSess s A B C D E). Qed.

Lemma slots_nonzero mb : 1 <= mb -> slots_of mb <> 0.
Proof. unfold slots_of, TTENTRY_BYTES_DEFAULT. lia. Qed.

Theorem sess_table_nonempty s : SessInv s -> t_len (u_tt s) <> 0.
Proof. intros I. rewrite (si_len s I). apply slots_nonzero. apply (si_hash s I). Qed.

Theorem sess_InvSR s : SessInv s -> InvSR (u_pos s).
Proof. intros I. apply in_D_InvSR, (si_pos s I). Qed.

Lemma tt_resize_len t mb : t_len (tt_resize t mb) = slots_of mb.
Proof. unfold tt_resize, slots_of. apply TTFacts.resize_len. Qed.
Lemma tt_clear_len t : t_len (tt_clear t) = t_len t.
Proof. unfold tt_clear. apply (TTFacts.clear_empties TTEntry tt_default t 0). Qed.

Lemma clamp_hash_range v : 1 <= clamp_hash v <= 4096.
Proof. unfold clamp_hash. lia. Qed.

(* ------------------------------------------------------------------ setoption *)
Lemma setoption_pre b s toks : PreInv s -> PreInv (setoption_cmd b s toks).
Proof.
  intros I. unfold setoption_cmd.
  destruct (setoption_parse toks) as [[name value]|]; [|exact I].
  destruct (tok_is name "Hash" || tok_is name "hash").
  - destruct (parse_uint USIZE_MAX value) as [v|]; [|exact I].
    constructor; cbn [u_pos u_hist u_tt u_hash u_frc].
    + exact (pi_pos s I).
    + destruct b; [apply TBnd_resize|]; exact (pi_tbnd s I).
    + exact (pi_frc s I).
    + apply clamp_hash_range.
  - destruct (tok_is name "UCI_Chess960"); [|exact I].
    constructor; cbn [u_pos u_hist u_tt u_hash u_frc].
    + rewrite in_D_set_frc. exact (pi_pos s I).
    + exact (pi_tbnd s I).
    + reflexivity.
    + exact (pi_hash s I).
Qed.

Lemma setoption_len s toks :
  t_len (u_tt s) = slots_of (u_hash s) ->
  t_len (u_tt (setoption_cmd true s toks)) = slots_of (u_hash (setoption_cmd true s toks)).
Proof.
  intros L. unfold setoption_cmd.
  destruct (setoption_parse toks) as [[name value]|]; [|exact L].
  destruct (tok_is name "Hash" || tok_is name "hash").
  - destruct (parse_uint USIZE_MAX value) as [v|]; [|exact L].
    cbn [u_tt u_hash]. apply tt_resize_len.
  - destruct (tok_is name "UCI_Chess960"); exact L.
Qed.

Theorem setoption_inv s toks : SessInv s -> SessInv (setoption_cmd true s toks).
Proof.
  intros I. apply pre_sess; [apply setoption_pre, sess_pre, I|apply setoption_len, (si_len s I)].
Qed.

(* ------------------------------------------------------------------ 1. the state phase 2 starts from *)
Lemma init_pos_in_D : in_D (u_pos init_state) = true.
Proof. vm_compute. reflexivity. Qed.
Lemma init_pos_frc : is_frc (u_pos init_state) = false.
Proof. vm_compute. reflexivity. Qed.

Lemma init_pre : PreInv init_state.
Proof.
  constructor.
  - exact init_pos_in_D.
  - apply TBnd_new.
  - exact init_pos_frc.
  - cbn [init_state u_hash]. lia.
Qed.

Lemma phase1_pre lines : forall s s' ready rest,
  PreInv s -> phase1 s lines = Some (s', ready, rest) -> PreInv s'.
Proof.
  induction lines as [|l lines IH]; intros s s' ready rest I E; cbn [phase1] in E.
  - injection E as <- _ _. exact I.
  - destruct l as [|c args].
    + injection E as <- _ _. exact I.
    + destruct (tok_is c "isready"); [injection E as <- _ _; exact I|].
      destruct (tok_is c "setoption"); [exact (IH _ _ _ _ (setoption_pre false s args I) E)|].
      destruct (tok_is c "quit"); [discriminate|].
      injection E as <- _ _. exact I.
Qed.

Definition start_state (s : UState) : UState :=
  mkU (u_pos s) (u_hist s) (tt_resize (u_tt s) (u_hash s)) (u_hash s) (u_frc s).

Lemma start_state_inv s : PreInv s -> SessInv (start_state s).
Proof.
  intros I. constructor; cbn [start_state u_pos u_hist u_tt u_hash u_frc].
  - exact (pi_pos s I).
  - apply TBnd_resize, (pi_tbnd s I).
  - exact (pi_frc s I).
  - exact (pi_hash s I).
  - apply tt_resize_len.
Qed.

Theorem init_inv lines s ready rest :
  phase1 init_state lines = Some (s, ready, rest) ->
  SessInv (mkU (u_pos s) (u_hist s) (tt_resize (u_tt s) (u_hash s)) (u_hash s) (u_frc s)).
Proof. intros E. apply (start_state_inv s). exact (phase1_pre lines _ _ _ _ init_pre E). Qed.

(* ------------------------------------------------------------------ go *)
Theorem go_search_inv s l s' o : SessInv s -> go_search s l = Cont s' o -> SessInv s' /\ u_pos s' = u_pos s.
Proof.
  intros I. unfold go_search.
  destruct (root (stop_of l) SEARCH_FUEL (u_pos s) (u_hist s) (u_tt s)) as [r|] eqn:E; [|discriminate].
  intros H. injection H as <- _. split; [|reflexivity].
  constructor; cbn [u_pos u_hist u_tt u_hash u_frc].
  - exact (si_pos s I).
  - exact (proj2 (search_scores_within_the_mate_bounds _ _ _ _ _ _ (sess_InvSR s I) (si_tbnd s I) search_fuel_ok E)).
  - exact (si_frc s I).
  - exact (si_hash s I).
  - rewrite (root_keeps_table_size _ _ _ _ _ _ E). exact (si_len s I).
Qed.

Lemma go_search_shape s l : (exists s' o, go_search s l = Cont s' o) \/ go_search s l = OutOfFuel.
Proof.
  unfold go_search. destruct (root (stop_of l) SEARCH_FUEL (u_pos s) (u_hist s) (u_tt s)); [left|right; reflexivity].
  eexists. eexists. reflexivity.
Qed.

(* (injection on an equation whose output side is a perft listing would try to evaluate it) *)
Lemma Cont_inj s o s' o' : Cont s o = Cont s' o' -> s = s' /\ o = o'.
Proof. intros H. injection H as H1 H2. split; assumption. Qed.

Theorem go_cmd_inv s args s' o : SessInv s -> go_cmd s args = Cont s' o -> SessInv s' /\ u_pos s' = u_pos s.
Proof.
  intros I. unfold go_cmd.
  destruct (parse_go args) as [[wt bt mtg|t|d|n| |d|d]|]; intros H.
  - discriminate H.
  - discriminate H.
  - exact (go_search_inv _ _ _ _ I H).
  - exact (go_search_inv _ _ _ _ I H).
  - discriminate H.
  - destruct (Cont_inj _ _ _ _ H) as [<- _]. split; [exact I|reflexivity].
  - destruct (Cont_inj _ _ _ _ H) as [<- _]. split; [exact I|reflexivity].
  - destruct (Cont_inj _ _ _ _ H) as [<- _]. split; [exact I|reflexivity].
Qed.

(* 4. every search that returns answers with a legal move whenever there is one; the answer is the last line *)
Theorem go_search_answers s l s' o :
  SessInv s -> go_search s l = Cont s' o -> legal_moves (u_pos s) <> [] ->
  exists m, In m (legal_moves (u_pos s)) /\ last o [] = lit "bestmove " ++ to_uci (u_pos s) m.
Proof.
  intros I. unfold go_search.
  destruct (root (stop_of l) SEARCH_FUEL (u_pos s) (u_hist s) (u_tt s)) as [r|] eqn:E; [|discriminate].
  intros H NE. injection H as _ <-.
  destruct (search_answers_with_a_legal_move _ _ _ _ _ _ (sess_InvSR s I) (si_tbnd s I) search_fuel_ok NE E)
    as (m & Hb & Hin).
  exists m. split; [exact Hin|]. rewrite Hb. apply last_last.
Qed.

Definition is_search_go (args : list str) : Prop :=
  (exists d, parse_go args = Some (GDepth d)) \/ (exists n, parse_go args = Some (GNodes n)).

Theorem go_cmd_answers s args s' o :
  SessInv s -> is_search_go args -> go_cmd s args = Cont s' o -> legal_moves (u_pos s) <> [] ->
  exists m, In m (legal_moves (u_pos s)) /\ last o [] = lit "bestmove " ++ to_uci (u_pos s) m.
Proof.
  intros I [[d P]|[n P]] H NE; unfold go_cmd in H; rewrite P in H; exact (go_search_answers _ _ _ _ I H NE).
Qed.

(* the line `go ...` reaches go_cmd *)
Lemma step_go mode s args : Uci.step mode s (lit "go" :: args) = go_cmd s args.
Proof.
  unfold Uci.step.
  replace (tok_is (lit "go") "ucinewgame") with false by (vm_compute; reflexivity).
  replace (tok_is (lit "go") "isready") with false by (vm_compute; reflexivity).
  replace (tok_is (lit "go") "print") with false by (vm_compute; reflexivity).
  replace (tok_is (lit "go") "display") with false by (vm_compute; reflexivity).
  replace (tok_is (lit "go") "board") with false by (vm_compute; reflexivity).
  replace (tok_is (lit "go") "go") with true by (vm_compute; reflexivity).
  reflexivity.
Qed.

Theorem step_go_answers mode s args s' o :
  SessInv s -> is_search_go args -> Uci.step mode s (lit "go" :: args) = Cont s' o -> legal_moves (u_pos s) <> [] ->
  exists m, In m (legal_moves (u_pos s)) /\ last o [] = lit "bestmove " ++ to_uci (u_pos s) m.
Proof. rewrite step_go. apply go_cmd_answers. Qed.

(* non-vacuous: `go depth 3` and `go nodes 1000` are search commands *)
Example go_depth_3 : is_search_go [lit "depth"; lit "3"].
Proof. left. exists 3%Z. vm_compute. reflexivity. Qed.
Example go_nodes_1000 : is_search_go [lit "nodes"; lit "1000"].
Proof. right. exists 1000%Z. vm_compute. reflexivity. Qed.

(* ------------------------------------------------------------------ 2. one command keeps the invariant *)
Lemma startpos_in_D : in_D startpos = true.
Proof. vm_compute. reflexivity. Qed.

Theorem step_inv mode s l s' o :
  SessInv s -> Uci.step mode s l = Cont s' o -> PosLineOK mode s l -> SessInv s'.
Proof.
  intros I E OK. unfold Uci.step in E. destruct l as [|c args].
  { injection E as <- _. exact I. }
  destruct (tok_is c "ucinewgame").
  { injection E as <- _. constructor; cbn [u_pos u_hist u_tt u_hash u_frc].
    - rewrite in_D_set_frc. exact startpos_in_D.
    - apply TBnd_clear.
    - reflexivity.
    - exact (si_hash s I).
    - rewrite tt_clear_len. exact (si_len s I). }
  destruct (tok_is c "isready"). { injection E as <- _. exact I. }
  destruct (tok_is c "print" || tok_is c "display" || tok_is c "board"). { injection E as <- _. exact I. }
  destruct (tok_is c "go"). { exact (proj1 (go_cmd_inv _ _ _ _ I E)). }
  destruct (tok_is c "position") eqn:Hpos.
  { destruct (position_cmd mode args (u_pos s)) as [[[p h] out]|] eqn:Ep; [|discriminate].
    injection E as <- _.
    rewrite position_cmd_fen in Ep.
    destruct (set_fen mode (is_frc (u_pos s)) (pos_fen args)) as [q|] eqn:Ef; [|discriminate].
    injection Ep as Ep.
    rewrite (si_frc s I) in Ef.
    pose proof (OK Hpos q Ef) as Dq.
    destruct (moves_cmd_keeps _ _ _ _ _ _ _ Ep Dq) as [Dp _].
    constructor; cbn [u_pos u_hist u_tt u_hash u_frc].
    - rewrite in_D_set_frc. exact Dp.
    - exact (si_tbnd s I).
    - reflexivity.
    - exact (si_hash s I).
    - exact (si_len s I). }
  destruct (tok_is c "moves").
  { destruct (moves_cmd args (u_pos s) (u_hist s) []) as [[p h] out] eqn:Em.
    injection E as <- _.
    destruct (moves_cmd_keeps _ _ _ _ _ _ _ Em (si_pos s I)) as [Dp Fp].
    constructor; cbn [u_pos u_hist u_tt u_hash u_frc].
    - exact Dp.
    - exact (si_tbnd s I).
    - rewrite Fp. exact (si_frc s I).
    - exact (si_hash s I).
    - exact (si_len s I). }
  destruct (tok_is c "setoption"). { injection E as <- _. apply setoption_inv, I. }
  destruct (tok_is c "history"). { injection E as <- _. exact I. }
  destruct (tok_is c "eval"). { injection E as <- _. exact I. }
  destruct (tok_is c "quit"). { discriminate. }
  injection E as <- _. exact I.
Qed.

(* a time-limited `go` hands back the state it was given *)
Lemma step_needs_clock mode s l s' : Uci.step mode s l = NeedsClock s' -> s' = s.
Proof.
  unfold Uci.step. destruct l as [|c args]; [discriminate|].
  repeat match goal with |- (if ?x then _ else _) = _ -> _ => destruct x eqn:?; try discriminate end.
  - unfold go_cmd. destruct (parse_go args) as [[]|]; try discriminate; unfold go_search;
      try (match goal with |- match ?x with _ => _ end = _ -> _ => destruct x; discriminate end);
      intros H; injection H as <-; reflexivity.
  - destruct (position_cmd mode args (u_pos s)) as [[[p h] o]|]; discriminate.
  - destruct (moves_cmd args (u_pos s) (u_hist s) []) as [[p h] o]. discriminate.
Qed.

(* ------------------------------------------------------------------ 3. the only panic *)
Theorem step_panics_only_on_rejected_fen mode s l site :
  Uci.step mode s l = Panic site ->
  exists c args, l = c :: args /\ tok_is c "position" = true
                 /\ set_fen mode (is_frc (u_pos s)) (pos_fen args) = None /\ site = lit "set_fen".
Proof.
  destruct l as [|c args]; [discriminate|]. intros H. exists c, args. split; [reflexivity|].
  revert H. unfold Uci.step.
  repeat match goal with |- (if ?x then _ else _) = _ -> _ => destruct x eqn:?; try discriminate end.
  - unfold go_cmd. destruct (parse_go args) as [[]|]; try discriminate; unfold go_search;
      match goal with |- match ?x with _ => _ end = _ -> _ => destruct x; discriminate end.
  - destruct (position_cmd mode args (u_pos s)) as [[[p h] o]|] eqn:Ep; [discriminate|].
    intros H. injection H as <-. split; [reflexivity|]. split; [|reflexivity].
    rewrite position_cmd_fen in Ep.
    destruct (set_fen mode (is_frc (u_pos s)) (pos_fen args)); [discriminate|reflexivity].
  - destruct (moves_cmd args (u_pos s) (u_hist s) []) as [[p h] o]. discriminate.
Qed.

(* with the invariant the flag read by the parser is the option value; and a line that meets the side condition with
   a FEN the parser accepts never panics *)
Theorem step_no_panic mode s l site :
  SessInv s -> Uci.step mode s l = Panic site ->
  exists c args, l = c :: args /\ tok_is c "position" = true /\ set_fen mode (u_frc s) (pos_fen args) = None.
Proof.
  intros I H. destruct (step_panics_only_on_rejected_fen mode s l site H) as (c & args & A & B & C & _).
  exists c, args. rewrite <- (si_frc s I). auto.
Qed.

(* ------------------------------------------------------------------ 5. scripts *)
(* a condition P on (state, line) holds for every line met along the run *)
Fixpoint script_all (P : UState -> list str -> Prop) (mode : bool) (s : UState) (lines : list (list str)) : Prop :=
  match lines with
  | [] => True
  | l :: rest =>
    P s l /\ match Uci.step mode s l with Cont s' _ => script_all P mode s' rest | _ => True end
  end.

(* the text of a `position` line: its FEN is accepted by the parser and the position is in D *)
Definition PosLineGood (mode : bool) (s : UState) (l : list str) : Prop :=
  match l with
  | c :: args => tok_is c "position" = true ->
                 exists q, set_fen mode (u_frc s) (pos_fen args) = Some q /\ in_D q = true
  | [] => True
  end.

(* script_dom: every accepted FEN gives a position of D (enough for the invariant);
   script_ok: moreover every FEN is accepted (so nothing panics) *)
Definition script_dom (mode : bool) := script_all (PosLineOK mode) mode.
Definition script_ok (mode : bool) := script_all (PosLineGood mode) mode.

Lemma pos_line_good mode s l : SessInv s -> PosLineGood mode s l ->
  PosLineOK mode s l /\ forall site, Uci.step mode s l <> Panic site.
Proof.
  intros I G. split.
  - destruct l as [|c args]; [exact Logic.I|]. intros Hc q Hq. destruct (G Hc) as (q' & E & D).
    rewrite E in Hq. injection Hq as <-. exact D.
  - intros site H. destruct (step_no_panic mode s l site I H) as (c & args & -> & Hc & E).
    destruct (G Hc) as (q' & E' & _). rewrite E in E'. discriminate.
Qed.

Lemma script_ok_dom mode lines : forall s, SessInv s -> script_ok mode s lines -> script_dom mode s lines.
Proof.
  unfold script_ok, script_dom.
  induction lines as [|l rest IH]; intros s I OK; cbn [script_all] in *; [exact Logic.I|].
  destruct OK as (G & K). destruct (pos_line_good mode s l I G) as [P _]. split; [exact P|].
  destruct (Uci.step mode s l) as [s1 o|o|site'|s1|] eqn:E; try exact Logic.I.
  exact (IH s1 (step_inv _ _ _ _ _ I E P) K).
Qed.

Inductive Reached (mode : bool) : UState -> list (list str) -> UState -> Prop :=
| R_here s lines : Reached mode s lines s
| R_step s l rest s1 o s2 : Uci.step mode s l = Cont s1 o -> Reached mode s1 rest s2 -> Reached mode s (l :: rest) s2.

Theorem reached_inv mode lines : forall s s',
  SessInv s -> script_dom mode s lines -> Reached mode s lines s' -> SessInv s'.
Proof.
  unfold script_dom.
  induction lines as [|l rest IH]; intros s s' I OK R.
  - inversion R; subst. exact I.
  - inversion R as [|s0 l0 rest0 s1 o s2 E R']; subst; [exact I|].
    cbn [script_all] in OK. destruct OK as (P & K). rewrite E in K.
    exact (IH _ _ (step_inv _ _ _ _ _ I E P) K R').
Qed.

Theorem phase2_no_panic mode lines : forall s out,
  SessInv s -> script_ok mode s lines -> forall site, phase2 mode s lines out <> Panic site.
Proof.
  unfold script_ok.
  induction lines as [|l rest IH]; intros s out I OK site; cbn [phase2].
  - discriminate.
  - cbn [script_all] in OK. destruct OK as (G & K). destruct (pos_line_good mode s l I G) as [P NP].
    destruct (Uci.step mode s l) as [s1 o|o|site'|s1|] eqn:E; try discriminate.
    + exact (IH _ _ (step_inv _ _ _ _ _ I E P) K site).
    + exfalso. exact (NP site' eq_refl).
Qed.

(* under the weaker condition a panic can only be the FEN parser's *)
Theorem phase2_panic_site mode lines : forall s out site,
  phase2 mode s lines out = Panic site -> site = lit "set_fen".
Proof.
  induction lines as [|l rest IH]; intros s out site H; cbn [phase2] in H; [discriminate|].
  destruct (Uci.step mode s l) as [s1 o|o|site'|s1|] eqn:E; try discriminate.
  - exact (IH _ _ _ H).
  - injection H as <-. destruct (step_panics_only_on_rejected_fen mode s l site' E) as (c & args & _ & _ & _ & S). exact S.
Qed.

(* where a run stops for a clock, the state is a reached one, hence satisfies the invariant *)
Theorem phase2_needs_clock_reached mode lines : forall s out s',
  phase2 mode s lines out = NeedsClock s' -> Reached mode s lines s'.
Proof.
  induction lines as [|l rest IH]; intros s out s' H; cbn [phase2] in H; [discriminate|].
  destruct (Uci.step mode s l) as [s1 o|o|site'|s1|] eqn:E; try discriminate.
  - exact (R_step mode _ _ _ _ _ _ E (IH _ _ _ H)).
  - injection H as <-. rewrite (step_needs_clock _ _ _ _ E). apply R_here.
Qed.

Theorem phase2_inv mode lines s out :
  SessInv s -> script_ok mode s lines ->
  (forall site, phase2 mode s lines out <> Panic site)
  /\ (forall s', Reached mode s lines s' -> SessInv s')
  /\ (forall s', phase2 mode s lines out = NeedsClock s' -> SessInv s').
Proof.
  intros I OK. pose proof (script_ok_dom mode lines s I OK) as OD.
  split; [exact (phase2_no_panic mode lines s out I OK)|]. split.
  - intros s' R. exact (reached_inv mode lines s s' I OD R).
  - intros s' H. exact (reached_inv mode lines s s' I OD (phase2_needs_clock_reached mode lines s out s' H)).
Qed.

(* every search command issued anywhere along an admissible script answers with a legal move *)
Theorem session_go_answers mode lines s s1 args s2 o :
  SessInv s -> script_dom mode s lines -> Reached mode s lines s1 ->
  is_search_go args -> Uci.step mode s1 (lit "go" :: args) = Cont s2 o -> legal_moves (u_pos s1) <> [] ->
  exists m, In m (legal_moves (u_pos s1)) /\ last o [] = lit "bestmove " ++ to_uci (u_pos s1) m.
Proof.
  intros I OK R G E NE. exact (step_go_answers mode s1 args s2 o (reached_inv mode lines s s1 I OK R) G E NE).
Qed.

(* and, fuel aside: in every reached state the search, run with sufficient fuel, RETURNS and answers with a legal
   move, for every limit (the model's `go` uses SEARCH_FUEL = 400 and may report OutOfFuel instead) *)
Theorem session_search_would_answer mode lines s s1 (stopf : Stats -> bool) :
  SessInv s -> script_dom mode s lines -> Reached mode s lines s1 -> legal_moves (u_pos s1) <> [] ->
  exists r, (forall fuel, (ROOT_FUEL <= fuel)%nat -> root stopf fuel (u_pos s1) (u_hist s1) (u_tt s1) = Some r)
            /\ exists m, rr_best r = Some m /\ In m (legal_moves (u_pos s1)).
Proof.
  intros I OK R NE. pose proof (reached_inv mode lines s s1 I OK R) as I1.
  apply search_always_answers_with_a_legal_move.
  - exact (sess_InvSR s1 I1).
  - exact (si_tbnd s1 I1).
  - exact (sess_table_nonempty s1 I1).
  - exact (in_D_halfmoves _ (si_pos s1 I1)).
  - exact NE.
Qed.

(* ------------------------------------------------------------------ 6. the whole session *)
Theorem run_session_safe mode lines :
  (forall s ready rest, phase1 init_state lines = Some (s, ready, rest) -> script_ok mode (start_state s) rest) ->
  forall site, run_session mode lines <> Panic site.
Proof.
  intros OK site. unfold run_session.
  destruct (phase1 init_state lines) as [[[s ready] rest]|] eqn:E; [|discriminate].
  exact (phase2_no_panic mode rest (start_state s) _ (init_inv lines s ready rest E) (OK s ready rest eq_refl) site).
Qed.

(* scripts whose `position` lines all say `position startpos [moves ...]` need no side condition at all *)
Definition startpos_line (l : list str) : Prop :=
  match l with
  | c :: args => tok_is c "position" = true -> exists t rest, args = t :: rest /\ tok_is t "startpos" = true
  | [] => True
  end.

Lemma startpos_line_good mode s l : startpos_line l -> PosLineGood mode s l.
Proof.
  destruct l as [|c args]; [intros _; exact Logic.I|]. intros H Hc.
  destruct (H Hc) as (t & rest & -> & Ht). rewrite (pos_fen_startpos t rest Ht).
  destruct (set_fen mode (u_frc s) (lit "startpos")) as [q|] eqn:E.
  - exists q. split; [reflexivity|]. exact (startpos_fen_ok mode (u_frc s) q E).
  - exfalso. revert E. destruct mode, (u_frc s); vm_compute; discriminate.
Qed.

Theorem startpos_script_ok mode lines : forall s,
  SessInv s -> Forall startpos_line lines -> script_ok mode s lines.
Proof.
  unfold script_ok.
  induction lines as [|l rest IH]; intros s I F; cbn [script_all]; [exact Logic.I|].
  inversion F as [|l0 rest0 Hl Hrest]; subst.
  pose proof (startpos_line_good mode s l Hl) as G.
  destruct (pos_line_good mode s l I G) as [P NP].
  split; [exact G|].
  destruct (Uci.step mode s l) as [s1 o|o|site'|s1|] eqn:E; try exact Logic.I.
  exact (IH s1 (step_inv _ _ _ _ _ I E P) Hrest).
Qed.

Lemma phase1_rest lines : forall s s' ready rest,
  phase1 s lines = Some (s', ready, rest) -> rest = [[]] \/ exists k, rest = skipn k lines.
Proof.
  induction lines as [|l lines IH]; intros s s' ready rest E; cbn [phase1] in E.
  - injection E as _ _ <-. left. reflexivity.
  - destruct l as [|c args].
    + injection E as _ _ <-. right. exists 0%nat. reflexivity.
    + destruct (tok_is c "isready"); [injection E as _ _ <-; right; exists 1%nat; reflexivity|].
      destruct (tok_is c "setoption").
      * destruct (IH _ _ _ _ E) as [H|[k H]]; [left; exact H|right; exists (S k); exact H].
      * destruct (tok_is c "quit"); [discriminate|]. injection E as _ _ <-. right. exists 0%nat. reflexivity.
Qed.

Lemma Forall_skipn {A} (P : A -> Prop) k : forall l, Forall P l -> Forall P (skipn k l).
Proof.
  induction k as [|k IH]; intros l F; [exact F|]. destruct l as [|a l]; [exact F|].
  cbn [skipn]. apply IH. inversion F; assumption.
Qed.

Theorem run_session_startpos_safe mode lines :
  Forall startpos_line lines -> forall site, run_session mode lines <> Panic site.
Proof.
  intros F. apply run_session_safe. intros s ready rest E.
  apply startpos_script_ok; [exact (init_inv lines s ready rest E)|].
  destruct (phase1_rest lines _ _ _ _ E) as [->|[k ->]].
  - constructor; [exact Logic.I|constructor].
  - apply Forall_skipn, F.
Qed.

Print Assumptions init_inv.
Print Assumptions step_inv.
Print Assumptions step_panics_only_on_rejected_fen.
Print Assumptions step_no_panic.
Print Assumptions go_search_answers.
Print Assumptions go_cmd_answers.
Print Assumptions step_go_answers.
Print Assumptions phase2_inv.
Print Assumptions session_go_answers.
Print Assumptions session_search_would_answer.
Print Assumptions run_session_safe.
Print Assumptions run_session_startpos_safe.
