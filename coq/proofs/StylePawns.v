(* C20, game layer: how the pawns of the analysed colour (`our_pawn side`, spec/StyleSpec.v) evolve when a generated move
   is played.  Squares are named from the analysed side's point of view; `makemove true p m` flips the frame, so after
   OUR move our pawns are `pawns q & c_them q` read at `a xor 56`, after THEIR move they are `pawns q & c_us q` read at `a`.

   The square-by-square views of Closure.v (`rview_all` for an ordinary move, `cview_all` for castling) give every
   statement by case analysis.

   NOTE (hypotheses).  `GenLegal.InvR` carries neither "no pawn on the first or last rank" nor "the en-passant square is on
   the sixth rank" (both are facts of the domain D only, proofs/DomainClosed.v).  Without the second one an en-passant
   capture onto the last rank would land an unpromoted pawn there, and without the first `pawn_ranks` is false.  Both are
   packed in `PawnDom`, which holds for the start position, for every position of D, and is kept by every generated move
   (`PawnDom_start`, `PawnDom_of_D`, `PawnDom_step`); `pawn_our_pawn` and `pawn_ranks` take it as one extra premise. *)
From Coq Require Import NArith ZArith List Bool Lia ZifyN ZifyBool.
From Rawr Require Import Consts Bits Magic Position MoveGen MakeMove MakeStages Rules Abs
                         BitsFacts FlipFacts AbsFacts HashFacts MakeFacts MakeAbs CastleFacts CastleAbs KeyAbs KeyMove FenFacts NotationFacts
                         GenSane GenNoDup Closure EpRetro LegalBridge DomainInv GenLegal DomainClosed Style StyleGame StyleSpec.
Import ListNotations.
Local Open Scope N_scope.
Ltac Zify.zify_post_hook ::= Z.div_mod_to_equations.

(* ------------------------------------------------------------------ pawns of the side to move / of the other side, one square *)
Definition up (p : Position) (s : N) : bool := is_set (N.land (pawns p) (c_us p)) s.
Definition tp (p : Position) (s : N) : bool := is_set (N.land (pawns p) (c_them p)) s.

Lemma up_eq p s : up p s = pb p 0 s && ub p s.
Proof. unfold up, pb, ub, is_set. cbn [get_piece]. apply N.land_spec. Qed.
Lemma tp_eq p s : tp p s = pb p 0 s && tb p s.
Proof. unfold tp, pb, tb, is_set. cbn [get_piece]. apply N.land_spec. Qed.

Lemma up_holds p s t j : holds p s t j -> up p s = (0 =? j) && negb t.
Proof. intros (_ & Hu & _ & Hp). rewrite up_eq, Hu, (Hp 0) by lia. reflexivity. Qed.
Lemma tp_holds p s t j : holds p s t j -> tp p s = (0 =? j) && t.
Proof. intros (_ & _ & Ht & Hp). rewrite tp_eq, Ht, (Hp 0) by lia. reflexivity. Qed.
Lemma up_empty p s : empty_at p s -> up p s = false.
Proof. intros (Hu & _ & _). rewrite up_eq, Hu. apply andb_false_r. Qed.
Lemma tp_empty p s : empty_at p s -> tp p s = false.
Proof. intros (_ & Ht & _). rewrite tp_eq, Ht. apply andb_false_r. Qed.

Lemma holds_pawn_bit p s t j : holds p s t j -> pb p 0 s = (0 =? j).
Proof. intros (_ & _ & _ & Hp). apply Hp. lia. Qed.

(* ------------------------------------------------------------------ our_pawn in the two frames *)
Lemma our_pawn_same side p a : Bool.eqb (turn p) side = true -> our_pawn side p a = up p a.
Proof. intros H. unfold our_pawn. rewrite H. reflexivity. Qed.
Lemma our_pawn_other side p a : Bool.eqb (turn p) side = false -> our_pawn side p a = tp p (flip_sq a).
Proof. intros H. unfold our_pawn. rewrite H. reflexivity. Qed.

Lemma turn_after u p m : turn (makemove u p m) = negb (turn p).
Proof. exact (proj1 (R_fields u p m)). Qed.

Lemma eqb_after_same u p m side : Bool.eqb (turn p) side = true -> Bool.eqb (turn (makemove u p m)) side = false.
Proof. rewrite turn_after. destruct (turn p), side; cbn; congruence. Qed.
Lemma eqb_after_other u p m side : Bool.eqb (turn p) side = false -> Bool.eqb (turn (makemove u p m)) side = true.
Proof. rewrite turn_after. destruct (turn p), side; cbn; congruence. Qed.

(* ------------------------------------------------------------------ the pawn facts of the domain that InvR does not carry *)
Definition PawnDom (p : Position) : Prop :=
  pawns_inside p /\ (forall e, ep p = Some e -> rank_of e = 5).

Theorem PawnDom_of_D p : in_D p = true -> PawnDom p.
Proof.
  intros HD. pose proof (in_D_facts p HD) as F.
  destruct (validate_sound p (df_valid p F)) as (P18 & _ & _ & _ & _ & _ & _ & _ & _ & _ & _ & _ & _ & _ & _ & _ & _ & Hep & _).
  split; [exact (emp_pawns_inside p P18)|]. intros e He. exact (proj1 (Hep e He)).
Qed.

Theorem PawnDom_start : PawnDom startpos.
Proof.
  split; [|intros e He; discriminate He].
  apply emp_pawns_inside. unfold emp2. vm_compute. reflexivity.
Qed.

(* a generated pawn move promotes exactly on the last rank *)
Lemma pawn_promo_cond p m : InvR p -> PawnDom p -> In m (legal_moves p) -> sane p m PAWN ->
  if rank_of (m_to m) =? 7 then 1 <= m_promo m <= 4 else m_promo m = NOPIECE.
Proof.
  intros IR (_ & Hep5) Hm S. pose proof (Inv_Inv0 p (ir_inv p IR)) as I0.
  exact (promo_ok_cond _ _ (promotions_exact p m (i0_good p I0) (i0_cg p I0) Hep5 Hm (sn_mover _ _ _ S))).
Qed.

Theorem PawnDom_step p m : InvR p -> PawnDom p -> In m (legal_moves p) -> PawnDom (makemove true p m).
Proof.
  intros IR PD Hm. pose proof PD as (Hin & Hep5).
  pose proof (Inv_Inv0 p (ir_inv p IR)) as I0. pose proof (i0_good p I0) as G. pose proof (i0_cg p I0) as CG.
  split.
  - pose proof Hm as Hm'. unfold legal_moves in Hm'. apply in_map_iff in Hm'. destruct Hm' as (g & Eg & Hg).
    destruct (generated_move_cases p g G Hg) as [(S & Hpw)|[H|H]].
    + rewrite <- Eg. apply (ncd_pawns_inside true p (gen_mv g) (gk g) S I0 Hin Hpw).
      intros Ek. rewrite Ek in S. rewrite <- Eg in Hm. exact (pawn_promo_cond p (gen_mv g) IR PD Hm S).
    + rewrite <- Eg. destruct (castle_block_k p G CG g H) as (S & _). exact (cad_pawns_inside true p (gen_mv g) true S I0 Hin).
    + rewrite <- Eg. destruct (castle_block_q p G CG g H) as (S & _). exact (cad_pawns_inside true p (gen_mv g) false S I0 Hin).
  - intros e He. destruct (R_fields true p m) as (_ & Eep & _). cbv zeta in Eep. rewrite Eep in He.
    unfold legal_moves in Hm. apply in_map_iff in Hm. destruct Hm as (g & Eg & Hg). subst m.
    destruct (generated_move_cases p g G Hg) as [(S & Hpw)|[H|H]].
    + unfold mv_new_ep in He. rewrite (sane_piece p (gen_mv g) (gk g) S) in He.
      destruct ((gk g =? PAWN) && (m_to (gen_mv g) - m_from (gen_mv g) =? 16)) eqn:Ec; [|discriminate].
      injection He as <-.
      apply andb_true_iff in Ec. destruct Ec as [Ek Ed]. apply N.eqb_eq in Ek, Ed.
      assert (H16 : m_to (gen_mv g) = m_from (gen_mv g) + 16) by lia.
      pose proof (double_rank p g G CG Hg Ek H16) as Hr3. apply flip_rank2. unfold rank_of in Hr3. lia.
    + destruct (castle_block_k p G CG g H) as (S & _). rewrite (c_no_new_ep p (gen_mv g) true S) in He. discriminate.
    + destruct (castle_block_q p G CG g H) as (S & _). rewrite (c_no_new_ep p (gen_mv g) false S) in He. discriminate.
Qed.

(* ------------------------------------------------------------------ one generated move, square by square (old frame square a) *)
Section Step.
Variables (p : Position) (m : Mv).
Hypothesis IR : InvR p.
Hypothesis Hm : In m (legal_moves p).
Let R := makemove true p m.
Let I0 : Inv0 p := Inv_Inv0 p (ir_inv p IR).

(* the generated move is an ordinary one with its pawn geometry, or a castling move *)
Lemma move_cases :
  (exists k, sane p m k /\ (k = PAWN -> rank_of (m_to m) = rank_of (m_from m) + 1 \/ (m_to m = m_from m + 16 /\ rank_of (m_to m) = 3)))
  \/ (exists kside, csane p m kside).
Proof.
  pose proof (i0_good p I0) as G. pose proof (i0_cg p I0) as CG.
  pose proof Hm as Hm'. unfold legal_moves in Hm'. apply in_map_iff in Hm'. destruct Hm' as (g & Eg & Hg).
  destruct (generated_move_cases p g G Hg) as [(S & Hpw)|[H|H]].
  - left. exists (gk g). rewrite <- Eg. split; [exact S|]. intros Ek. destruct (Hpw Ek) as [H1|H16]; [left; exact H1|right].
    split; [exact H16|exact (double_rank p g G CG Hg Ek H16)].
  - right. exists true. rewrite <- Eg. exact (proj1 (castle_block_k p G CG g H)).
  - right. exists false. rewrite <- Eg. exact (proj1 (castle_block_q p G CG g H)).
Qed.

(* the side that does not move can only lose pawns *)
Lemma their_pawns_after a : a < 64 -> up R (flip_sq a) = true -> tp p a = true.
Proof.
  intros Ha H. unfold R in H.
  destruct move_cases as [(k & S & _)|(kside & S)].
  - destruct (rview_all true p m k S I0 a Ha) as [E He|E Hh|Hb E He|N2 Hpe He|t j N1 N2 N3 Hh Hr].
    + rewrite (up_empty _ _ He) in H. discriminate.
    + rewrite (up_holds _ _ _ _ Hh), andb_false_r in H. discriminate.
    + rewrite (up_empty _ _ He) in H. discriminate.
    + rewrite (up_empty _ _ He) in H. discriminate.
    + rewrite (up_holds _ _ _ _ Hr), negb_involutive in H. rewrite (tp_holds _ _ _ _ Hh). exact H.
  - destruct (cview_all true p m kside S I0 a Ha) as [E Hh|E Hh|E N3 N4 He|N1 N2 N3 N4 Hpe He|t j N1 N2 N3 N4 Hh Hr].
    + rewrite (up_holds _ _ _ _ Hh), andb_false_r in H. discriminate.
    + rewrite (up_holds _ _ _ _ Hh), andb_false_r in H. discriminate.
    + rewrite (up_empty _ _ He) in H. discriminate.
    + rewrite (up_empty _ _ He) in H. discriminate.
    + rewrite (up_holds _ _ _ _ Hr), negb_involutive in H. rewrite (tp_holds _ _ _ _ Hh). exact H.
Qed.

(* the mover is no pawn: our pawns stay *)
Lemma our_pawns_other_after a : pb p 0 (m_from m) = false -> a < 64 -> tp R (flip_sq a) = up p a.
Proof.
  intros Hnp Ha. unfold R.
  destruct move_cases as [(k & S & _)|(kside & S)].
  - assert (Hk : (0 =? k) = false) by (rewrite <- (holds_pawn_bit _ _ _ _ (sn_mover _ _ _ S)); exact Hnp).
    assert (Epr : m_promo m = NOPIECE).
    { destruct (sn_promo _ _ _ S) as [E|(Ek & _)]; [exact E|]. rewrite Ek in Hk. discriminate. }
    destruct (rview_all true p m k S I0 a Ha) as [E He|E Hh|Hb E He|N2 Hpe He|t j N1 N2 N3 Hh Hr].
    + rewrite (tp_empty _ _ He), E, (up_holds _ _ _ _ (sn_mover _ _ _ S)), Hk. reflexivity.
    + rewrite (tp_holds _ _ _ _ Hh). unfold landed. rewrite Epr, N.eqb_refl, Hk. cbn [andb].
      rewrite E. destruct (sn_target _ _ _ S) as [He|(c & Hc)].
      * symmetry. exact (up_empty _ _ He).
      * rewrite (up_holds _ _ _ _ Hc). symmetry. apply andb_false_r.
    + rewrite (tp_empty _ _ He), E.
      destruct (sane_ep_facts p m k S Hb) as (_ & _ & Hv & _). rewrite (up_holds _ _ _ _ Hv). symmetry. apply andb_false_r.
    + rewrite (tp_empty _ _ He), (up_empty _ _ Hpe). reflexivity.
    + rewrite (tp_holds _ _ _ _ Hr), (up_holds _ _ _ _ Hh). reflexivity.
  - pose proof (up_holds _ _ _ _ (cs_king _ _ _ S)) as Uk. pose proof (up_holds _ _ _ _ (cs_rook _ _ _ S)) as Ur.
    unfold KING in Uk. unfold ROOK in Ur. cbn [N.eqb andb] in Uk, Ur.
    destruct (cview_all true p m kside S I0 a Ha) as [E Hh|E Hh|E N3 N4 He|N1 N2 N3 N4 Hpe He|t j N1 N2 N3 N4 Hh Hr].
    + rewrite (tp_holds _ _ _ _ Hh). unfold KING. cbn [N.eqb andb]. symmetry. rewrite E.
      destruct (cs_kt _ _ _ S) as [E'|[E'|E']]; [rewrite E'; exact Uk|rewrite E'; exact Ur|exact (up_empty _ _ E')].
    + rewrite (tp_holds _ _ _ _ Hh). unfold ROOK. cbn [N.eqb andb]. symmetry. rewrite E.
      destruct (cs_rt _ _ _ S) as [E'|[E'|E']]; [rewrite E'; exact Uk|rewrite E'; exact Ur|exact (up_empty _ _ E')].
    + rewrite (tp_empty _ _ He). symmetry. destruct E as [-> | ->]; [exact Uk|exact Ur].
    + rewrite (tp_empty _ _ He), (up_empty _ _ Hpe). reflexivity.
    + rewrite (tp_holds _ _ _ _ Hr), (up_holds _ _ _ _ Hh). reflexivity.
Qed.

(* the mover is a pawn *)
Lemma pawn_mover : pb p 0 (m_from m) = true ->
  sane p m PAWN /\ (rank_of (m_to m) = rank_of (m_from m) + 1 \/ (m_to m = m_from m + 16 /\ rank_of (m_to m) = 3)).
Proof.
  intros Hpw. destruct move_cases as [(k & S & Hg)|(kside & S)].
  - rewrite (holds_pawn_bit _ _ _ _ (sn_mover _ _ _ S)) in Hpw. apply N.eqb_eq in Hpw. subst k.
    split; [exact S|exact (Hg eq_refl)].
  - rewrite (holds_pawn_bit _ _ _ _ (cs_king _ _ _ S)) in Hpw. discriminate.
Qed.

Lemma our_pawns_pawn_after a : PawnDom p -> pb p 0 (m_from m) = true -> a < 64 ->
  tp R (flip_sq a) = if a =? m_from m then false else if a =? m_to m then (m_to m / 8 <? 7) else up p a.
Proof.
  intros PD Hpw Ha. destruct (pawn_mover Hpw) as (S & _). unfold R.
  pose proof (pawn_promo_cond p m IR PD Hm S) as Hpc.
  pose proof (sn_to _ _ _ S) as Hto. pose proof (sn_ne _ _ _ S) as Hne.
  destruct (rview_all true p m PAWN S I0 a Ha) as [E He|E Hh|Hb E He|N2 Hpe He|t j N1 N2 N3 Hh Hr].
  - rewrite (tp_empty _ _ He), E, N.eqb_refl. reflexivity.
  - rewrite (tp_holds _ _ _ _ Hh), andb_true_r, E.
    replace (m_to m =? m_from m) with false by (symmetry; apply N.eqb_neq; intros X; apply Hne; symmetry; exact X).
    rewrite N.eqb_refl. unfold landed, rank_of in *.
    destruct (N.eqb_spec (m_to m / 8) 7) as [E7|E7].
    + destruct (N.eqb_spec (m_promo m) NOPIECE) as [X|_]; [unfold NOPIECE in X; lia|].
      destruct (N.eqb_spec 0 (m_promo m)) as [X|_]; [lia|]. symmetry. apply N.ltb_ge. lia.
    + rewrite Hpc, N.eqb_refl. symmetry. apply N.ltb_lt. lia.
  - destruct (sane_ep_facts p m PAWN S Hb) as (_ & H8 & Hv & _ & _ & Hfv).
    rewrite (tp_empty _ _ He), E.
    replace (m_to m - 8 =? m_from m) with false by (symmetry; apply N.eqb_neq; intros X; apply Hfv; symmetry; exact X).
    replace (m_to m - 8 =? m_to m) with false by (symmetry; apply N.eqb_neq; lia).
    rewrite (up_holds _ _ _ _ Hv). symmetry. apply andb_false_r.
  - rewrite (tp_empty _ _ He), (up_empty _ _ Hpe).
    destruct (a =? m_from m); [reflexivity|]. apply N.eqb_neq in N2. rewrite N2. reflexivity.
  - apply N.eqb_neq in N1, N2. rewrite N1, N2, (tp_holds _ _ _ _ Hr), (up_holds _ _ _ _ Hh). reflexivity.
Qed.
End Step.

(* ------------------------------------------------------------------ the theorems *)
Theorem pawn_their_move side p m a : InvR p -> In m (legal_moves p) -> Bool.eqb (turn p) side = false -> a < 64 ->
  our_pawn side (makemove true p m) a = true -> our_pawn side p a = true.
Proof.
  intros IR Hm Ht Ha H.
  rewrite (our_pawn_same side _ a (eqb_after_other true p m side Ht)) in H.
  rewrite (our_pawn_other side p a Ht).
  apply (their_pawns_after p m IR Hm (flip_sq a) (flip_sq_lt a Ha)). rewrite flip_sq_invol. exact H.
Qed.

Theorem pawn_our_other side p m a : InvR p -> In m (legal_moves p) -> Bool.eqb (turn p) side = true ->
  is_set (pawns p) (m_from m) = false -> a < 64 ->
  our_pawn side (makemove true p m) a = our_pawn side p a.
Proof.
  intros IR Hm Ht Hnp Ha.
  rewrite (our_pawn_other side _ a (eqb_after_same true p m side Ht)), (our_pawn_same side p a Ht).
  exact (our_pawns_other_after p m IR Hm a Hnp Ha).
Qed.

Theorem pawn_our_pawn side p m : InvR p -> PawnDom p -> In m (legal_moves p) -> Bool.eqb (turn p) side = true ->
  is_set (pawns p) (m_from m) = true ->
  m_from m < 64 /\ m_to m < 64 /\ our_pawn side p (m_from m) = true /\
  (m_to m / 8 = m_from m / 8 + 1 \/ (m_from m / 8 = 1 /\ m_to m / 8 = 3)) /\
  (forall a, a < 64 -> our_pawn side (makemove true p m) a =
     if a =? m_from m then false else if a =? m_to m then (m_to m / 8 <? 7) else our_pawn side p a).
Proof.
  intros IR PD Hm Ht Hpw.
  destruct (pawn_mover p m IR Hm Hpw) as (S & Hg).
  split; [exact (sn_from _ _ _ S)|]. split; [exact (sn_to _ _ _ S)|]. split; [|split].
  - rewrite (our_pawn_same side p _ Ht), (up_holds _ _ _ _ (sn_mover _ _ _ S)). reflexivity.
  - unfold rank_of in Hg. destruct Hg as [H1|(H16 & H3)]; [left; exact H1|right]. split; [lia|exact H3].
  - intros a Ha.
    rewrite (our_pawn_other side _ a (eqb_after_same true p m side Ht)), (our_pawn_same side p a Ht).
    exact (our_pawns_pawn_after p m IR Hm a PD Hpw Ha).
Qed.

Theorem pawn_ranks side p a : InvR p -> PawnDom p -> a < 64 -> our_pawn side p a = true -> 1 <= a / 8 <= 6.
Proof.
  intros _ (Hin & _) Ha H. unfold our_pawn in H.
  destruct (Bool.eqb (turn p) side).
  - fold (up p a) in H. rewrite up_eq in H. apply andb_true_iff in H. pose proof (Hin a Ha (proj1 H)). lia.
  - fold (flip_sq a) in H. fold (tp p (flip_sq a)) in H. rewrite tp_eq in H. apply andb_true_iff in H.
    pose proof (Hin (flip_sq a) (flip_sq_lt a Ha) (proj1 H)) as Hr.
    pose proof (flip_inside (flip_sq a) (flip_sq_lt a Ha) Hr) as Hr'. rewrite flip_sq_invol in Hr'. lia.
Qed.

Lemma pawn_start_all side :
  forallb (fun a => Bool.eqb (our_pawn side startpos a) (a / 8 =? 1)) sq64_list = true.
Proof. destruct side; vm_compute; reflexivity. Qed.

Theorem pawn_start side a : a < 64 -> our_pawn side startpos a = (a / 8 =? 1).
Proof.
  intros Ha. pose proof (pawn_start_all side) as H. rewrite forallb_forall in H.
  apply eqb_prop. exact (H a (in_sq64 a Ha)).
Qed.

(* for the consumers that carry the domain test itself *)
Corollary pawn_our_pawn_D side p m : in_D p = true -> In m (legal_moves p) -> Bool.eqb (turn p) side = true ->
  is_set (pawns p) (m_from m) = true ->
  m_from m < 64 /\ m_to m < 64 /\ our_pawn side p (m_from m) = true /\
  (m_to m / 8 = m_from m / 8 + 1 \/ (m_from m / 8 = 1 /\ m_to m / 8 = 3)) /\
  (forall a, a < 64 -> our_pawn side (makemove true p m) a =
     if a =? m_from m then false else if a =? m_to m then (m_to m / 8 <? 7) else our_pawn side p a).
Proof. intros HD. exact (pawn_our_pawn side p m (in_D_InvR p HD) (PawnDom_of_D p HD)). Qed.
Corollary pawn_ranks_D side p a : in_D p = true -> a < 64 -> our_pawn side p a = true -> 1 <= a / 8 <= 6.
Proof. intros HD. exact (pawn_ranks side p a (in_D_InvR p HD) (PawnDom_of_D p HD)). Qed.

Print Assumptions pawn_their_move.
Print Assumptions pawn_our_other.
Print Assumptions pawn_our_pawn.
Print Assumptions pawn_ranks.
Print Assumptions pawn_start.
Print Assumptions PawnDom_step.
Print Assumptions PawnDom_start.
Print Assumptions PawnDom_of_D.
