(* C02 (null move): passing the turn leaves the absolute board and the castling rights untouched, clears the
   en-passant target and resets the clock, exactly as Rules.pass_turn says. *)
From Coq Require Import NArith ZArith List Bool Lia.
From Rawr Require Import Consts Bits Magic Position MoveGen MakeMove Rules Abs BitsFacts FlipFacts MagicFacts.
Import ListNotations.
Local Open Scope N_scope.

Lemma is_set_bswap x s : s < 64 -> is_set (bswap x) s = is_set x (flip_sq s).
Proof. intros H. unfold is_set, flip_sq. rewrite testbit_bswap. destruct (N.ltb_spec s 64); [reflexivity|lia]. Qed.

Lemma flip_sq_invol s : flip_sq (flip_sq s) = s.
Proof. apply flipbit_invol. Qed.

Lemma piece_on_flip p s : s < 64 -> piece_on (flip p) s = piece_on p (flip_sq s).
Proof. intros H. unfold piece_on, flip. cbn. rewrite !is_set_bswap by exact H. reflexivity. Qed.

Definition colours_disjoint (p : Position) : Prop := N.land (c_us p) (c_them p) = 0.

Lemma not_both p s : colours_disjoint p -> is_set (c_us p) s = true -> is_set (c_them p) s = true -> False.
Proof.
  unfold colours_disjoint, is_set. intros Hd H1 H2.
  assert (N.testbit (N.land (c_us p) (c_them p)) s = true) by (rewrite N.land_spec, H1, H2; reflexivity).
  rewrite Hd, N.bits_0 in H. discriminate.
Qed.

Lemma man_at_flip p a : colours_disjoint p -> a < 64 -> man_at (flip p) a = man_at p a.
Proof.
  intros Hd Ha. unfold man_at, rel_sq.
  assert (Hf : flip_sq a < 64) by (apply flipbit_lt; exact Ha).
  change (turn (flip p)) with (negb (turn p)).
  destruct (turn p); cbn [negb].
  - rewrite piece_on_flip by exact Ha.
    destruct (piece_on p (flip_sq a)); [|reflexivity].
    change (c_us (flip p)) with (bswap (c_them p)). change (c_them (flip p)) with (bswap (c_us p)).
    rewrite !is_set_bswap by exact Ha.
    destruct (is_set (c_us p) (flip_sq a)) eqn:E1, (is_set (c_them p) (flip_sq a)) eqn:E2; try reflexivity.
    exfalso. exact (not_both p _ Hd E1 E2).
  - rewrite piece_on_flip by exact Hf. rewrite flip_sq_invol.
    destruct (piece_on p a); [|reflexivity].
    change (c_us (flip p)) with (bswap (c_them p)). change (c_them (flip p)) with (bswap (c_us p)).
    rewrite !is_set_bswap by exact Hf. rewrite flip_sq_invol.
    destruct (is_set (c_us p) a) eqn:E1, (is_set (c_them p) a) eqn:E2; try reflexivity.
    exfalso. exact (not_both p _ Hd E1 E2).
Qed.

Lemma board_of_flip p : colours_disjoint p -> board_of (flip p) = board_of p.
Proof.
  intros Hd. unfold board_of. apply map_ext_in. intros i Hi. apply in_seq in Hi.
  apply man_at_flip; [exact Hd|lia].
Qed.

(* the placement and the piece boards of makenull are those of flip *)
Lemma makenull_board p : board_of (makenull p) = board_of (flip (set_hash p (hash (makenull p)))).
Proof. unfold board_of, man_at, rel_sq, piece_on, makenull, set_clocks_ep_rights. cbn. reflexivity. Qed.

Theorem makenull_spec p : colours_disjoint p ->
  abs_state (makenull p) = pass_turn (abs_state p).
Proof.
  intros Hd. unfold abs_state, pass_turn. cbn [s_board s_turn s_wk s_wq s_bk s_bq s_ep s_half s_full].
  rewrite makenull_board, board_of_flip by (destruct p; exact Hd).
  assert (Hb : board_of (set_hash p (hash (makenull p))) = board_of p) by (destruct p; reflexivity).
  rewrite Hb.
  unfold makenull, set_clocks_ep_rights, flip. cbn.
  destruct (turn p); cbn; reflexivity.
Qed.

(* the slider attacks used by the position-level model are the magic lookups of the code *)
Lemma sliders_exact sq occ :
  bishop_moves sq occ = batt sq occ /\ rook_moves sq occ = ratt sq occ /\ queen_moves sq occ = qatt sq occ.
Proof. unfold batt, ratt, qatt, queen_moves. rewrite bishop_moves_exact, rook_moves_exact. auto. Qed.
