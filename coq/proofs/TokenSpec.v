(* C05: the engine's token matcher (model/Uci.v, find_move) computes the specification's denotation of a token
   (spec/UciSpec.v, denotes), now that the generated list is the rules' list (MovegenSound, MovegenComplete).
   Both are "first element of a list whose printed name is the token, otherwise the conventional castling string of the
   mover resolved to the legal castling move from the e-file of that wing"; the lists are in a one-to-one correspondence
   through dec (dec_legal / legal_generated / dec_inj_legal), printed names agree (to_uci_is_move_str) and determine the
   move (to_uci_inj_legal), so the order of the lists does not matter. *)
From Coq Require Import NArith ZArith List Bool Lia ZifyN ZifyBool String.
From Rawr Require Import Consts Bits Magic Position MoveGen MakeMove MakeStages Fen Uci Rules Abs UciSpec
                         BitsFacts ShiftFacts FlipFacts AbsFacts LsbFacts HashFacts MakeFacts MakeAbs CastleFacts CastleAbs KeyAbs
                         NotationFacts CountFacts GenSane GenNoDup CaptureFacts NotationMoves KeyMove UciFacts NoKingCapture MenCount
                         Closure EpRetro GenLegal LegalBridge MovegenSound MovegenComplete.
Import ListNotations.
Local Open Scope list_scope.
Local Open Scope N_scope.
Ltac Zify.zify_post_hook ::= Z.div_mod_to_equations.

(* ------------------------------------------------------------------ the two lists correspond through dec *)
Lemma dec_legal p m : Inv0 p -> ep_ok_b p = true -> In m (legal_moves p) -> In (dec p m) (legal (abs_state p)).
Proof.
  intros I He Hm. unfold legal. apply filter_In. split; [exact (generated_pseudo p m I Hm)|].
  rewrite (check_filter_bridge false p m I Hm (gen_legal false p m I He Hm)). reflexivity.
Qed.

Lemma dec_inj_legal p m1 m2 : Good p -> CastleGood p -> In m1 (legal_moves p) -> In m2 (legal_moves p) ->
  dec p m1 = dec p m2 -> m1 = m2.
Proof.
  intros G CG H1 H2 E. rewrite <- (enc_dec_generated p m1 G CG H1), <- (enc_dec_generated p m2 G CG H2), E. reflexivity.
Qed.

(* ------------------------------------------------------------------ find over corresponding lists *)
Lemma find_transport {A B} (d : A -> B) (f : A -> bool) (g : B -> bool) (L : list A) (SL : list B) :
  (forall m, In m L -> In (d m) SL) ->
  (forall sm, In sm SL -> exists m, In m L /\ d m = sm) ->
  (forall m, In m L -> g (d m) = f m) ->
  (forall m1 m2, In m1 L -> In m2 L -> f m1 = true -> f m2 = true -> m1 = m2) ->
  find g SL = option_map d (find f L).
Proof.
  intros Hfw Hbw Hfg Hu. destruct (find f L) as [m|] eqn:Ef; cbn [option_map].
  - apply find_some in Ef. destruct Ef as (Hin & Hf).
    apply find_unique; [exact (Hfw m Hin)|rewrite (Hfg m Hin); exact Hf|].
    intros y Hy Hgy. destruct (Hbw y Hy) as (m' & Hm' & <-). rewrite (Hfg m' Hm') in Hgy.
    rewrite (Hu m' m Hm' Hin Hgy Hf). reflexivity.
  - destruct (find g SL) as [y|] eqn:Eg; [|reflexivity]. exfalso.
    apply find_some in Eg. destruct Eg as (Hy & Hgy). destruct (Hbw y Hy) as (m' & Hm' & <-).
    rewrite (Hfg m' Hm'), (find_none _ _ Ef m' Hm') in Hgy. discriminate.
Qed.

Lemma find_ext {A} (f g : A -> bool) l : (forall x, f x = g x) -> find f l = find g l.
Proof. intros H. induction l as [|a l IH]; cbn [find]; [reflexivity|]. rewrite H, IH. reflexivity. Qed.

Lemma sstr_eqb_str a : forall b, sstr_eqb a b = str_eqb a b.
Proof. induction a as [|x a IH]; intros [|y b]; cbn [sstr_eqb str_eqb]; try reflexivity. Qed.

(* ------------------------------------------------------------------ the castling move of one wing from the e-file *)
(* engine side / specification side of "legal castling move from the e-file towards the given wing" *)
Definition cast_f (p : Position) (qs : bool) (m : Mv) : bool :=
  ub p (m_to m) && (m_from m =? E1) && (if qs then m_to m <? E1 else E1 <? m_to m).
Definition cast_g (s : sstate) (qs : bool) (sm : smove) : bool :=
  is_castle s sm && (mf sm =? 4)%Z && (mr sm =? home (s_turn s))%Z && (if qs then (tf sm <? 4)%Z else (4 <? tf sm)%Z).
Definition alias_cand (p : Position) (qs : bool) : Mv := mkMv E1 (sq_of (if qs then cf1 p else cf0 p) 0) NOPIECE.

(* the castle file recorded for a wing whose right is gone is not the file of the other wing's rook (the matcher builds its
   candidate from the recorded file without looking at the right) *)
Definition alias_geo (p : Position) : Prop :=
  lsb (N.land (kings p) (c_us p)) = E1 -> xorb (us_ksc p) (us_qsc p) = true -> cf0 p <> cf1 p.

Lemma cast_agree p qs m : Good p -> CastleGood p -> In m (legal_moves p) ->
  cast_g (abs_state p) qs (dec p m) = cast_f p qs m.
Proof.
  intros G CG Hm. unfold cast_g, cast_f.
  destruct (legal_shape p m G CG Hm) as [k S U|kside S R U].
  - rewrite (not_castle p m k S), U. reflexivity.
  - rewrite (castle_is_castle p m kside S), U. cbn [andb].
    pose proof (cs_from _ _ _ S) as F8. pose proof (cs_to _ _ _ S) as T8.
    unfold dec. cbn [mf mr tf]. rewrite !file_rel, rank_rel by lia.
    change (s_turn (abs_state p)) with (colour_of_turn (turn p)).
    rewrite !N.mod_small by lia. rewrite (N.div_small (m_from m) 8) by lia.
    assert (E1' : (Z.of_N (m_from m) =? 4)%Z = (m_from m =? E1)).
    { unfold E1. destruct (Z.eqb_spec (Z.of_N (m_from m)) 4), (N.eqb_spec (m_from m) 4); try reflexivity; lia. }
    assert (E2 : (Z.of_N (if turn p then 7 - 0 else 0) =? home (colour_of_turn (turn p)))%Z = true).
    { destruct (turn p); reflexivity. }
    assert (E3 : (if qs then (Z.of_N (m_to m) <? 4)%Z else (4 <? Z.of_N (m_to m))%Z) = (if qs then m_to m <? E1 else E1 <? m_to m)).
    { unfold E1. destruct qs.
      - destruct (Z.ltb_spec (Z.of_N (m_to m)) 4), (N.ltb_spec (m_to m) 4); try reflexivity; lia.
      - destruct (Z.ltb_spec 4 (Z.of_N (m_to m))), (N.ltb_spec 4 (m_to m)); try reflexivity; lia. }
    rewrite E1', E2, E3, andb_true_r. reflexivity.
Qed.

(* a generated move that is the castling move of the wing from the e-file is the matcher's candidate *)
Lemma cast_cand p qs m : Good p -> CastleGood p -> In m (legal_moves p) -> cast_f p qs m = true -> m = alias_cand p qs.
Proof.
  intros G CG Hm Hf. unfold cast_f in Hf. apply andb_true_iff in Hf. destruct Hf as [Hf Hside].
  apply andb_true_iff in Hf. destruct Hf as [Hu Hfrom]. apply N.eqb_eq in Hfrom.
  destruct (legal_shape p m G CG Hm) as [k S U|kside S R _]; [congruence|].
  pose proof (cs_side _ _ _ S) as Eside. rewrite Hfrom in Eside.
  assert (Ek : kside = negb qs).
  { rewrite Eside. unfold E1 in *. destruct qs; cbn [negb].
    - apply N.ltb_lt in Hside. apply N.ltb_ge. lia.
    - exact Hside. }
  apply Mv_eq; unfold alias_cand; cbn [m_from m_to m_promo].
  - exact Hfrom.
  - rewrite (cs_rsq _ _ _ S), Ek. destruct qs; reflexivity.
  - exact (cs_promo _ _ _ S).
Qed.

(* conversely the candidate, if generated and landing on a man of ours, is that castling move *)
Lemma cast_cand_ok p qs : Good p -> CastleGood p -> alias_geo p ->
  In (alias_cand p qs) (legal_moves p) -> ub p (m_to (alias_cand p qs)) = true -> cast_f p qs (alias_cand p qs) = true.
Proof.
  intros G CG AG Hm Hu. unfold cast_f. rewrite Hu. cbn [andb].
  change (m_from (alias_cand p qs)) with E1. rewrite N.eqb_refl. cbn [andb].
  destruct (legal_shape p _ G CG Hm) as [k S U|kside S R _]; [congruence|].
  pose proof (cs_side _ _ _ S) as Eside. pose proof (cs_rsq _ _ _ S) as Ersq. pose proof (cs_ne _ _ _ S) as Ene.
  pose proof (csane_from_ksq p _ kside G S) as Eks.
  change (m_from (alias_cand p qs)) with E1 in Eside, Ene, Eks.
  destruct (g_cf p G) as (C0 & C1' & _).
  set (to := m_to (alias_cand p qs)) in *.
  assert (Eto : to = sq_of (if qs then cf1 p else cf0 p) 0) by reflexivity.
  assert (Hcf : kside = qs -> cf0 p = cf1 p).
  { intros ->. rewrite Eto in Ersq. unfold sq_of in Ersq. destruct qs; lia. }
  destruct kside, qs.
  - (* candidate built from the queen-side file, but it is the king-side castling move *)
    exfalso. specialize (Hcf eq_refl). destruct (us_qsc p) eqn:Q.
    + destruct (cg_q p CG Q) as (_ & HQ). rewrite <- Eks in HQ. symmetry in Eside. apply N.ltb_lt in Eside.
      rewrite Eto in Eside. lia.
    + apply (AG (eq_sym Eks)); [rewrite R, Q; reflexivity|exact Hcf].
  - symmetry. exact Eside.
  - symmetry in Eside. apply N.ltb_ge in Eside. apply N.ltb_lt. lia.
  - exfalso. specialize (Hcf eq_refl). destruct (us_ksc p) eqn:K.
    + destruct (cg_k p CG K) as (_ & HK). rewrite <- Eks in HK. symmetry in Eside. apply N.ltb_ge in Eside.
      rewrite Eto in Eside. lia.
    + apply (AG (eq_sym Eks)); [rewrite R, K; reflexivity|exact Hcf].
Qed.

Lemma mv_eqb_refl m : mv_eqb m m = true.
Proof. unfold mv_eqb. rewrite !N.eqb_refl. reflexivity. Qed.
Lemma mv_eqb_eq a b : mv_eqb a b = true -> a = b.
Proof.
  unfold mv_eqb. intros H. apply andb_true_iff in H. destruct H as [H E3]. apply andb_true_iff in H. destruct H as [E1' E2].
  apply N.eqb_eq in E1', E2, E3. exact (Mv_eq a b E1' E2 E3).
Qed.

(* the matcher's alias rule is "find the castling move of that wing from the e-file" *)
Lemma engine_alias p qs : Good p -> CastleGood p -> alias_geo p ->
  (if is_set (c_us p) (m_to (alias_cand p qs)) && existsb (mv_eqb (alias_cand p qs)) (legal_moves p)
   then Some (alias_cand p qs) else None) = find (cast_f p qs) (legal_moves p).
Proof.
  intros G CG AG. change (is_set (c_us p) ?x) with (ub p x).
  destruct (ub p (m_to (alias_cand p qs)) && existsb (mv_eqb (alias_cand p qs)) (legal_moves p)) eqn:Ec.
  - apply andb_true_iff in Ec. destruct Ec as [Hu Hex].
    apply existsb_exists in Hex. destruct Hex as (y & Hy & Eq). apply mv_eqb_eq in Eq. subst y.
    symmetry. apply find_unique; [exact Hy|exact (cast_cand_ok p qs G CG AG Hy Hu)|].
    intros y Hy' Hf. exact (cast_cand p qs y G CG Hy' Hf).
  - destruct (find (cast_f p qs) (legal_moves p)) as [y|] eqn:Ef; [|reflexivity]. exfalso.
    apply find_some in Ef. destruct Ef as (Hy & Hf). pose proof (cast_cand p qs y G CG Hy Hf) as ->.
    assert (Hu : ub p (m_to (alias_cand p qs)) = true).
    { unfold cast_f in Hf. apply andb_true_iff in Hf. destruct Hf as [Hf _]. apply andb_true_iff in Hf. exact (proj1 Hf). }
    assert (Hex : existsb (mv_eqb (alias_cand p qs)) (legal_moves p) = true).
    { apply existsb_exists. exists (alias_cand p qs). split; [exact Hy|apply mv_eqb_refl]. }
    rewrite Hu, Hex in Ec. discriminate.
Qed.

(* the specification's test "our king stands on the e-file of the home rank" is implied by what it then looks for *)
Lemma guard_redundant s qs : is_man (s_turn s) King (at_ (s_board s) 4 (home (s_turn s))) = false ->
  find (cast_g s qs) (legal s) = None.
Proof.
  intros Hg. destruct (find (cast_g s qs) (legal s)) as [y|] eqn:Ef; [|reflexivity]. exfalso.
  apply find_some in Ef. destruct Ef as (_ & Hc). unfold cast_g in Hc.
  apply andb_true_iff in Hc. destruct Hc as [Hc _]. apply andb_true_iff in Hc. destruct Hc as [Hc Hr].
  apply andb_true_iff in Hc. destruct Hc as [Hc Hf]. apply Z.eqb_eq in Hr, Hf.
  unfold is_castle in Hc. apply andb_true_iff in Hc. destruct Hc as [Hk _]. rewrite Hf, Hr, Hg in Hk. discriminate.
Qed.

(* the token flags of the two sides *)
Lemma tok_flag_k p t :
  match s_turn (abs_state p) with White => sstr_eqb t E1G1 | Black => sstr_eqb t E8G8 end
  = (tok_is t "e1g1" && negb (turn p)) || (tok_is t "e8g8" && negb (negb (turn p))).
Proof.
  change (s_turn (abs_state p)) with (colour_of_turn (turn p)). unfold tok_is. rewrite !sstr_eqb_str.
  change (lit "e1g1") with E1G1. change (lit "e8g8") with E8G8.
  destruct (turn p); cbn [colour_of_turn negb]; rewrite ?andb_true_r, ?andb_false_r, ?orb_false_r; reflexivity.
Qed.
Lemma tok_flag_q p t :
  match s_turn (abs_state p) with White => sstr_eqb t E1C1 | Black => sstr_eqb t E8C8 end
  = (tok_is t "e1c1" && negb (turn p)) || (tok_is t "e8c8" && negb (negb (turn p))).
Proof.
  change (s_turn (abs_state p)) with (colour_of_turn (turn p)). unfold tok_is. rewrite !sstr_eqb_str.
  change (lit "e1c1") with E1C1. change (lit "e8c8") with E8C8.
  destruct (turn p); cbn [colour_of_turn negb]; rewrite ?andb_true_r, ?andb_false_r, ?orb_false_r; reflexivity.
Qed.

(* ------------------------------------------------------------------ the theorem *)
Section Main.
Variable p : Position.
Hypothesis I : Inv0 p.
Hypothesis He : ep_ok_b p = true.
Hypothesis SG : std_geo p.

Let G : Good p := i0_good p I.
Let CG : CastleGood p := i0_cg p I.

(* step 1-3: the first rules move whose notation is the token is the decoded first generated move printing as the token *)
Lemma primary_find t :
  find (fun sm => sstr_eqb (move_str (is_frc p) (abs_state p) sm) t) (legal (abs_state p))
  = option_map (dec p) (find (fun m => str_eqb (to_uci p m) t) (legal_moves p)).
Proof.
  apply (find_transport (dec p)).
  - intros m Hm. exact (dec_legal p m I He Hm).
  - intros sm Hs. exact (legal_generated p sm I He Hs).
  - intros m Hm. rewrite sstr_eqb_str, <- (to_uci_is_move_str p m G CG Hm). reflexivity.
  - intros m1 m2 H1 H2 E1' E2. apply str_eqb_eq in E1', E2.
    apply (to_uci_inj_legal p m1 m2 G CG SG H1 H2). rewrite E1', E2. reflexivity.
Qed.

Lemma alias_find qs :
  find (cast_g (abs_state p) qs) (legal (abs_state p)) = option_map (dec p) (find (cast_f p qs) (legal_moves p)).
Proof.
  apply (find_transport (dec p)).
  - intros m Hm. exact (dec_legal p m I He Hm).
  - intros sm Hs. exact (legal_generated p sm I He Hs).
  - intros m Hm. exact (cast_agree p qs m G CG Hm).
  - intros m1 m2 H1 H2 E1' E2. rewrite (cast_cand p qs m1 G CG H1 E1'), (cast_cand p qs m2 G CG H2 E2). reflexivity.
Qed.

Theorem denotes_find_move t : alias_geo p ->
  denotes (is_frc p) (abs_state p) t = option_map (dec p) (find_move p t).
Proof.
  intros AG. unfold denotes, find_move. cbv zeta. rewrite primary_find.
  destruct (find (fun m => str_eqb (to_uci p m) t) (legal_moves p)) as [m|]; cbn [option_map]; [reflexivity|].
  rewrite tok_flag_k, tok_flag_q.
  set (K := (tok_is t "e1g1" && negb (turn p)) || (tok_is t "e8g8" && negb (negb (turn p)))).
  set (Q := (tok_is t "e1c1" && negb (turn p)) || (tok_is t "e8c8" && negb (negb (turn p)))).
  rewrite (find_ext _ (cast_g (abs_state p) (negb K)) (legal (abs_state p)))
    by (intros x; unfold cast_g; destruct K; reflexivity).
  assert (Hspec : (if is_man (s_turn (abs_state p)) King (at_ (s_board (abs_state p)) 4 (home (s_turn (abs_state p)))) && (K || Q)
                   then find (cast_g (abs_state p) (negb K)) (legal (abs_state p)) else None)
                  = if K || Q then find (cast_g (abs_state p) (negb K)) (legal (abs_state p)) else None).
  { destruct (is_man _ King _) eqn:Eg; cbn [andb]; [reflexivity|].
    rewrite (guard_redundant _ (negb K) Eg). destruct (K || Q); reflexivity. }
  assert (Hgoal : (if K || Q then find (cast_g (abs_state p) (negb K)) (legal (abs_state p)) else None)
                  = option_map (dec p)
                      match (if K then Some false else if Q then Some true else None) with
                      | Some qside =>
                          if is_set (c_us p) (m_to (alias_cand p qside)) && existsb (mv_eqb (alias_cand p qside)) (legal_moves p)
                          then Some (alias_cand p qside) else None
                      | None => None
                      end).
  { destruct K; cbn [orb negb].
    - rewrite (engine_alias p false G CG AG). apply alias_find.
    - destruct Q.
      + rewrite (engine_alias p true G CG AG). apply alias_find.
      + reflexivity. }
  etransitivity; [|etransitivity; [exact Hspec|exact Hgoal]].
  reflexivity.
Qed.

Theorem find_move_is_denotes t : alias_geo p ->
  match find_move p t with
  | Some m => denotes (is_frc p) (abs_state p) t = Some (dec p m)
  | None => denotes (is_frc p) (abs_state p) t = None
  end.
Proof. intros AG. rewrite (denotes_find_move t AG). destruct (find_move p t); reflexivity. Qed.

End Main.

Print Assumptions denotes_find_move.
Print Assumptions find_move_is_denotes.

(* ------------------------------------------------------------------ alias_geo cannot be dropped *)
(* White: Ke1 Ra1, queen-side right only; Black: Ke8.  The file recorded for the (absent) king-side right is a, the same as the
   queen-side file.  Standard mode, every other premise of the theorem holds.  The token e1g1 is no move's name; the matcher
   builds king-takes-rook with the recorded king-side file, finds it legal (it is the queen-side castling move) and plays it;
   by the specification e1g1 denotes nothing here.  (set_fen starts from the recorded files h, a, h, a and only records a king-side
   file east of the king and a queen-side file west of it, so the recorded files of one side are never equal there: TokGeo below.) *)
Definition alias_witness : Position :=
  mkPos 17 1152921504606846976 0 0 0 1 0 1152921504606846992 0%Z 1%Z false None false true false false 0 0 7 0
        9946021298548289059 false.

Theorem alias_geo_needed :
  Inv0 alias_witness /\ ep_ok_b alias_witness = true /\ std_geo alias_witness /\ ~ alias_geo alias_witness
  /\ find_move alias_witness (lit "e1g1") = Some (mkMv E1 0 NOPIECE)
  /\ denotes (is_frc alias_witness) (abs_state alias_witness) (lit "e1g1") = None.
Proof.
  assert (H : invr_b alias_witness = true) by (vm_compute; reflexivity).
  pose proof (invr_b_sound _ H) as [HS HE].
  split; [exact (Inv_Inv0 _ (MenCount.is_inv _ HS))|]. split; [exact HE|].
  split; [intros _ _; vm_compute; reflexivity|].
  split; [intros AG; apply AG; vm_compute; reflexivity|].
  split; vm_compute; reflexivity.
Qed.

(* ------------------------------------------------------------------ token lists: `moves t1 t2 ...` follows play_tokens *)
(* what the side conditions of the theorem need along a game: both sides' standard geometry, and the recorded castle files of
   each side in their natural order (true of every position set_fen builds from a FEN of a position satisfying the invariant:
   the defaults are h and a, a recorded king-side file is east of the king, a recorded queen-side file west of it) *)
Record TokGeo (p : Position) : Prop := {
  tg_us : is_frc p = false -> us_ksc p = true \/ us_qsc p = true -> uksq p = E1;
  tg_them : is_frc p = false -> them_ksc p = true \/ them_qsc p = true -> tksq p = 60;
  tg_f_us : cf1 p < cf0 p;
  tg_f_them : cf3 p < cf2 p
}.

Lemma TokGeo_std p : TokGeo p -> std_geo p.
Proof. intros T. exact (tg_us p T). Qed.
Lemma files_alias p : cf1 p < cf0 p -> alias_geo p.
Proof. intros H _ _. lia. Qed.
Lemma TokGeo_alias p : TokGeo p -> alias_geo p.
Proof. intros T. exact (files_alias p (tg_f_us p T)). Qed.

(* makemove never touches the Chess960 flag *)
Lemma frc_xor_piece p i bb : is_frc (xor_piece p i bb) = is_frc p.
Proof. unfold xor_piece, set_piece. destruct i as [|[[[]|[]|]|[[]|[]|]|]]; reflexivity. Qed.
Lemma frc_castle_fix p a b c d e : is_frc (castle_fix p a b c d e) = is_frc p.
Proof. unfold castle_fix. cbv zeta. rewrite !frc_xor_piece. reflexivity. Qed.
Lemma frc_boards u p0 m : is_frc (mv_boards u p0 m) = is_frc p0.
Proof.
  unfold mv_boards. cbv zeta.
  assert (H5 : forall q promo bb, is_frc (st_promo q promo bb) = is_frc q).
  { intros q promo bb. unfold st_promo. destruct (negb (promo =? NOPIECE)); [rewrite !frc_xor_piece|]; reflexivity. }
  assert (H4 : forall q q0 from to, is_frc (st_castle q q0 from to) = is_frc q).
  { intros q q0 from to. unfold st_castle.
    destruct (is_occ (N.land (kings q) (rooks q)) && (from <? to)); [apply frc_castle_fix|].
    destruct (is_occ (N.land (kings q) (rooks q)) && (to <? from)); [apply frc_castle_fix|reflexivity]. }
  assert (H3 : forall q b vic, is_frc (st_ep q b vic) = is_frc q).
  { intros q b vic. unfold st_ep. destruct b; [rewrite frc_xor_piece|]; reflexivity. }
  assert (H2 : forall q to c, is_frc (st_capture q to c) = is_frc q).
  { intros q to c. unfold st_capture. destruct (is_set (c_them q) to); [rewrite frc_xor_piece|]; reflexivity. }
  assert (H1 : forall q ft k, is_frc (st_move q ft k) = is_frc q).
  { intros q ft k. unfold st_move. rewrite frc_xor_piece. reflexivity. }
  rewrite H5, H4, H3, H2, H1. unfold mv_start. destruct u; reflexivity.
Qed.
Lemma frc_step u p m : is_frc (makemove u p m) = is_frc p.
Proof. rewrite makemove_stages. cbn [flip is_frc set_clocks_ep_rights]. apply frc_boards. Qed.

Lemma flip_e8 : flip_sq 60 = E1. Proof. reflexivity. Qed.
Lemma flip_e1 : flip_sq E1 = 60. Proof. reflexivity. Qed.

Lemma tokgeo_step u p m : Inv0 p -> In m (legal_moves p) -> TokGeo p -> TokGeo (makemove u p m).
Proof.
  intros I Hm T. pose proof (i0_good p I) as G. pose proof (i0_cg p I) as CG.
  destruct (R_fields u p m) as (_ & _ & Euk & Euq & Etk & Etq). cbv zeta in Euk, Euq, Etk, Etq.
  destruct (R_cf u p m) as (C0 & C1' & C2 & C3). cbv zeta in C0, C1', C2, C3.
  assert (Hus : forall (Ek : uksq (makemove u p m) = flip_sq (tksq p)),
            is_frc (makemove u p m) = false -> us_ksc (makemove u p m) = true \/ us_qsc (makemove u p m) = true ->
            uksq (makemove u p m) = E1).
  { intros Ek F Hr. rewrite frc_step in F. rewrite Ek, <- flip_e8. f_equal. apply (tg_them p T F).
    rewrite Euk, Euq in Hr. destruct Hr as [Hr|Hr]; apply keeps_right_true in Hr; [left|right]; exact (proj1 Hr). }
  unfold legal_moves in Hm. apply in_map_iff in Hm. destruct Hm as (g & <- & Hg).
  destruct (generated_move_cases p g G Hg) as [(S & _)|[H|H]].
  - pose proof (no_king_capture p g G CG (i0_tking p I) (i0_safe p I) Hg) as NVK.
    constructor.
    + exact (Hus (proj2 (nc_their_king u p (gen_mv g) (gk g) S I NVK))).
    + intros F Hr. rewrite frc_step in F.
      rewrite (proj2 (nc_our_king u p (gen_mv g) (gk g) S I NVK)), <- flip_e1. f_equal.
      rewrite Etk, Etq in Hr.
      assert (Hr' : (us_ksc p = true \/ us_qsc p = true) /\ m_from (gen_mv g) <> uksq p).
      { unfold uksq. rewrite N.land_comm.
        destruct Hr as [Hr|Hr]; apply keeps_right_true in Hr; destruct Hr as (Hf & Hn & _); (split; [|exact Hn]); [left|right]; exact Hf. }
      destruct Hr' as (Hfl & Hn).
      pose proof (nc_from_king p (gen_mv g) (gk g) S I NVK) as Ek.
      apply N.eqb_neq in Hn. rewrite Hn in Ek. unfold our_king_after. rewrite <- Ek.
      exact (tg_us p T F Hfl).
    + rewrite C0, C1'. exact (tg_f_them p T).
    + rewrite C2, C3. exact (tg_f_us p T).
  - destruct (castle_block_k p G CG g H) as (S & _). constructor.
    + exact (Hus (proj2 (ca_their_king u p (gen_mv g) true S I))).
    + intros _ Hr. destruct (ca_rights_lost u p (gen_mv g) true S I) as (L1 & L2). rewrite L1, L2 in Hr. destruct Hr; discriminate.
    + rewrite C0, C1'. exact (tg_f_them p T).
    + rewrite C2, C3. exact (tg_f_us p T).
  - destruct (castle_block_q p G CG g H) as (S & _). constructor.
    + exact (Hus (proj2 (ca_their_king u p (gen_mv g) false S I))).
    + intros _ Hr. destruct (ca_rights_lost u p (gen_mv g) false S I) as (L1 & L2). rewrite L1, L2 in Hr. destruct Hr; discriminate.
    + rewrite C0, C1'. exact (tg_f_them p T).
    + rewrite C2, C3. exact (tg_f_us p T).
Qed.

(* the tokens the engine reports as unknown, in order *)
Fixpoint unknown_tokens (toks : list str) (p : Position) : list str :=
  match toks with
  | [] => []
  | t :: rest => match find_move p t with
                 | Some m => unknown_tokens rest (makemove true p m)
                 | None => t :: unknown_tokens rest p
                 end
  end.
Definition unknown_msg (t : str) : str := lit "info string unknown move " ++ t.

Theorem moves_cmd_play_tokens_gen toks : forall p h out acc unk, Inv0 p -> ep_ok_b p = true -> TokGeo p ->
  let '(p', _, out') := moves_cmd toks p h out in
  play_tokens (is_frc p) (abs_state p) toks acc unk
    = (abs_state p', rev acc ++ map abs_state (positions_reached toks p), rev unk ++ unknown_tokens toks p)
  /\ out' = rev out ++ map unknown_msg (unknown_tokens toks p).
Proof.
  induction toks as [|t rest IH]; intros p h out acc unk I He T;
    cbn [moves_cmd play_tokens positions_reached unknown_tokens map].
  - rewrite !app_nil_r. split; reflexivity.
  - pose proof (find_move_is_denotes p I He (TokGeo_std p T) t (TokGeo_alias p T)) as D.
    destruct (find_move p t) as [m|] eqn:Ef.
    + rewrite D. cbv zeta.
      pose proof (find_move_legal p t m Ef) as Hm.
      rewrite <- (legal_moves_refine true p m (i0_good p I) (i0_cg p I) Hm).
      pose proof (gen_legal true p m I He Hm) as Hl.
      specialize (IH (makemove true p m) (hash (makemove true p m) :: h) out (abs_state (makemove true p m) :: acc) unk
                     (inv0_step true p m I Hm Hl) (ep_ok_step true p m I Hm) (tokgeo_step true p m I Hm T)).
      rewrite frc_step in IH.
      destruct (moves_cmd rest (makemove true p m) (hash (makemove true p m) :: h) out) as [[p' h'] o'].
      destruct IH as [IH1 IH2]. split; [|exact IH2].
      rewrite IH1. cbn [rev]. rewrite <- app_assoc. reflexivity.
    + rewrite D.
      match goal with |- context [moves_cmd rest p h ?o] =>
        specialize (IH p h o acc (t :: unk) I He T); destruct (moves_cmd rest p h o) as [[p' h'] o'] end.
      destruct IH as [IH1 IH2]. split.
      * refine (eq_trans IH1 _). cbn [rev]. rewrite <- app_assoc. reflexivity.
      * refine (eq_trans IH2 _). cbn [rev map]. rewrite <- app_assoc. reflexivity.
Qed.

(* `moves t1 ... tn` from position p: the final position abstracts to the final state of the game the tokens spell out, the
   positions reached abstract to the states reached, and the diagnostics name exactly the tokens that denote nothing *)
Theorem moves_cmd_follows_play_tokens toks p h : Inv0 p -> ep_ok_b p = true -> TokGeo p ->
  let '(p', _, out) := moves_cmd toks p h [] in
  play_tokens (is_frc p) (abs_state p) toks [] []
    = (abs_state p', map abs_state (positions_reached toks p), unknown_tokens toks p)
  /\ out = map unknown_msg (unknown_tokens toks p).
Proof. intros I He T. exact (moves_cmd_play_tokens_gen toks p h [] [] [] I He T). Qed.

Example tokgeo_startpos : TokGeo startpos.
Proof. constructor; try (intros _ _); vm_compute; reflexivity. Qed.

Print Assumptions alias_geo_needed.
Print Assumptions tokgeo_step.
Print Assumptions moves_cmd_follows_play_tokens.
