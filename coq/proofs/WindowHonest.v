(* C12, first half: "a value strictly inside the window is honest".

   Write  lo k = - MATE_SCORE + k  (the side to move at ply k is mated now) and  hi k = MATE_SCORE - k - 1  (the side to
   move at ply k mates with its next move).  For ANY stop predicate and ANY table with bounded scores (`TBnd`, the
   entries may be arbitrarily misleading), if negamax on window (a, b) returns a value v with a < v < b then
      lo ply <= v <= hi ply     and     v = lo ply  ->  the node's position has no legal move and is in check.
   Reason: a < v < b needs a window wider than one, i.e. a PV node; PV nodes never use the table for a cut-off, and
   whatever a PV node returns strictly inside its window is either a leaf value (quiescence, 0, the draw score: all
   far from the mate range), the mate/stalemate score of a node without moves, or the negated value of a child that
   was searched with the full PV window (- b, - alpha) and came back strictly inside it (induction).
   The file follows proofs/SearchBound.v: one lemma per stage with the recursive call abstract, then induction on fuel. *)
From Coq Require Import NArith ZArith List Bool Lia Permutation.
From Rawr Require Import Consts Bits Magic Position MoveGen MakeMove MakeStages Eval TT Search
                         Closure MenCount EpRetro TTFacts SearchFacts SearchFacts2 SearchBound.
From Rawr Require GenLegal.
Import ListNotations.
Local Open Scope Z_scope.

Definition lo (k : Z) : Z := - MATE_SCORE + k.
Definition hi (k : Z) : Z := MATE_SCORE - k - 1.

(* checkmated: no legal move and in check *)
Definition mated (q : Position) : Prop := legal_moves q = [] /\ in_check q = true.
(* the move m of p delivers checkmate *)
Definition mates (p : Position) (m : Mv) : Prop :=
  legal_moves (makemove true p m) = [] /\ in_check (makemove true p m) = true.

(* the largest ply for which the leaf values (|v| <= EVB = 400000) lie strictly inside (lo ply, hi ply) *)
Definition PLYMAX : Z := 599998.

Lemma child_inv p m : InvSR p -> In m (legal_moves p) -> InvSR (makemove true p m).
Proof.
  intros Hp Hm. apply invSR_step; [exact Hp|exact Hm|].
  apply GenLegal.gen_legal; [exact (Inv_Inv0 p (is_inv p (isr p Hp)))|exact (isr_ep p Hp)|exact Hm].
Qed.

Definition NRec := Position -> SS -> Z -> Z -> Z -> Z -> bool -> option (Z * SS).

(* the property, for an abstract recursive call *)
Definition whon (rec : NRec) (plymax : Z) : Prop :=
  forall q s a b pl d cn v s', InvSR q -> TBnd (ss_tt s) -> 0 <= pl <= plymax ->
  rec q s a b pl d cn = Some (v, s') -> a < v < b ->
  lo pl <= v <= hi pl /\ (v = lo pl -> legal_moves q = [] /\ in_check q = true).

(* ------------------------------------------------------------------ one move *)
(* a score strictly inside (alpha, beta) is the negated value of the child searched on the window (- beta, - alpha) *)
Lemma search_move_hon rec plymax p in_chk beta ply depth idx m np s alpha score s' :
  whon rec plymax -> nbnd rec plymax -> InvSR np -> TBnd (ss_tt s) -> 0 <= ply + 1 <= plymax ->
  search_move rec p in_chk beta ply depth idx m np s alpha = Some (score, s') -> alpha < score < beta ->
  lo ply + 2 <= score <= hi ply /\ (score = hi ply -> mated np).
Proof.
  intros Hw Hr Hnp Ht Hpl H Hin. unfold search_move in H. destruct (idx =? 0).
  - destruct (rec np s (- beta) (- alpha) (ply + 1) (depth - 1) true) as [[v s1]|] eqn:E; [|discriminate].
    destruct (some_pair_inv _ _ _ _ H) as [<- _].
    destruct (Hw _ _ _ _ _ _ _ _ _ Hnp Ht Hpl E ltac:(lia)) as (Hb & Hm). unfold lo, hi in *.
    split; [lia|]. intros Hs. apply Hm. lia.
  - match type of H with match ?r with _ => _ end = _ => destruct r as [[v s1]|] eqn:E; [|discriminate] end.
    destruct (Hr _ _ _ _ _ _ _ _ _ Hnp Ht Hpl E) as (_ & Ht1). cbn zeta in H.
    destruct ((alpha <? - v) && (- v <? beta)) eqn:Ec.
    + destruct (rec np s1 (- beta) (- alpha) (ply + 1) (depth - 1) true) as [[v2 s2]|] eqn:E2; [|discriminate].
      destruct (some_pair_inv _ _ _ _ H) as [<- _].
      destruct (Hw _ _ _ _ _ _ _ _ _ Hnp Ht1 Hpl E2 ltac:(lia)) as (Hb & Hm). unfold lo, hi in *.
      split; [lia|]. intros Hs. apply Hm. lia.
    + destruct (some_pair_inv _ _ _ _ H) as [<- _]. exfalso.
      apply andb_false_iff in Ec. destruct Ec as [Ec|Ec]; apply Z.ltb_ge in Ec; lia.
Qed.

(* ------------------------------------------------------------------ the move loop *)
(* invariant of the loop state (alpha, best, bm) of a node entered with alpha = a:
   - once alpha has been raised above a, it is at most best;
   - a best value strictly inside (a, beta) is honest, and if it is the mate-in-one value the best move mates. *)
Definition linv (p : Position) (a beta ply alpha best : Z) (bm : option Mv) : Prop :=
  (a < alpha -> alpha <= best) /\
  (a < best -> best < beta -> - INF < best ->
   lo ply + 2 <= best <= hi ply /\ (best = hi ply -> exists m, bm = Some m /\ mates p m)).

(* the state the loop is started in (a may be anything, even below - INF) *)
Lemma linv_init p a beta ply : linv p a beta ply a (- INF) None.
Proof. split; intros; lia. Qed.

Lemma linv_step p a beta ply alpha best bm score m :
  linv p a beta ply alpha best bm ->
  (alpha < score < beta -> lo ply + 2 <= score <= hi ply /\ (score = hi ply -> mates p m)) ->
  linv p a beta ply (if alpha <? score then score else alpha) (if best <? score then score else best)
       (if best <? score then Some m else bm).
Proof.
  intros (I1 & I2) Hs. destruct (Z.ltb_spec alpha score) as [Ha|Ha]; destruct (Z.ltb_spec best score) as [Hb|Hb].
  - split; [lia|]. intros H1 H2 _. destruct (Hs ltac:(lia)) as (B & M). split; [exact B|].
    intros E. exists m. split; [reflexivity|exact (M E)].
  - split; [lia|]. exact I2.
  - split; [lia|]. intros H1 H2 _. exfalso. lia.
  - split; [exact I1|exact I2].
Qed.

Lemma n_loop_hon rec plymax p in_chk a beta ply depth : whon rec plymax -> nbnd rec plymax -> InvSR p -> 0 <= ply + 1 <= plymax ->
  forall ms idx s alpha best bm r, (forall m, In m ms -> In m (legal_moves p)) -> TBnd (ss_tt s) ->
  linv p a beta ply alpha best bm ->
  n_loop rec p in_chk beta ply depth ms idx s alpha best bm = Some r ->
  linv p a beta ply (fst (fst (fst r))) (snd (fst (fst r))) (snd (fst r)).
Proof.
  intros Hw Hr Hp Hpl. induction ms as [|m ms IH]; intros idx s alpha best bm r Hms Ht Hi H; cbn [n_loop] in H.
  - injection H as <-. cbn [fst snd]. exact Hi.
  - match type of H with match ?x with _ => _ end = _ => destruct x as [[score s1]|] eqn:E; [|discriminate] end.
    assert (Hm : In m (legal_moves p)) by (apply Hms; left; reflexivity).
    assert (Hnp : InvSR (makemove true p m)) by exact (child_inv p m Hp Hm).
    assert (Ht0 : TBnd (ss_tt (push_hist (bump_nodes_ss s) (hash (makemove true p m))))) by exact Ht.
    pose proof (search_move_bnd GenLegal.gen_legal rec plymax _ _ _ _ _ _ _ _ _ _ _ _ Hr Hnp Ht0 Hpl E) as (_ & Ht1).
    pose proof (search_move_hon rec plymax _ _ _ _ _ _ _ _ _ _ _ _ Hw Hr Hnp Ht0 Hpl E) as Hh.
    pose proof (linv_step p a beta ply alpha best bm score m Hi Hh) as Hn.
    assert (Ht1' : TBnd (ss_tt (pop_hist s1))) by exact Ht1.
    cbn zeta in H.
    destruct (best <? score).
    + destruct (beta <=? _) in H.
      * injection H as <-. cbn [fst snd]. exact Hn.
      * exact (IH _ _ _ _ _ _ (fun x Hx => Hms x (or_intror Hx)) Ht1' Hn H).
    + destruct (beta <=? _) in H.
      * injection H as <-. cbn [fst snd]. exact Hn.
      * exact (IH _ _ _ _ _ _ (fun x Hx => Hms x (or_intror Hx)) Ht1' Hn H).
Qed.

(* ------------------------------------------------------------------ null move: a cut-off value is at least beta *)
Lemma null_move_cut rec p s is_root cn in_chk beta ply depth cut s' :
  null_move rec p s is_root cn in_chk beta ply depth = Some (Some cut, s') -> beta <= cut.
Proof.
  unfold null_move. destruct (negb is_root && cn && (2 <? depth) && negb in_chk && negb (is_endgame p)); [|discriminate].
  match goal with |- match ?x with _ => _ end = _ -> _ => destruct x as [[v s1]|]; [|discriminate] end.
  cbn zeta. destruct (Z.leb_spec beta (- v)) as [Hle|Hgt]; [|discriminate].
  intros H. destruct (some_pair_inv _ _ _ _ H) as [H1 _]. injection H1 as <-. exact Hle.
Qed.

(* ------------------------------------------------------------------ after the pruning tests *)
Lemma nm_moves_hon rec plymax p s a b ply depth is_root cn ttm v s' : whon rec plymax -> nbnd rec plymax -> InvSR p -> TBnd (ss_tt s) ->
  0 <= ply -> ply + 1 <= plymax -> plymax <= PLYMAX + 1 ->
  nm_moves rec p s a a b ply depth (in_check p) is_root cn ttm = Some (v, s') -> a < v < b ->
  lo ply <= v <= hi ply /\ (v = lo ply -> mated p).
Proof.
  intros Hw Hr Hp Ht Hp0 Hp1 Hpm H Hin. unfold nm_moves in H.
  destruct (null_move rec p s is_root cn (in_check p) b ply depth) as [[oc s1]|] eqn:En; [|discriminate].
  assert (Hpl : 0 <= ply + 1 <= plymax) by lia.
  pose proof (null_move_bnd GenLegal.gen_legal rec plymax _ _ _ _ _ _ _ _ _ Hr Hp Ht Hpl En) as (Ht1 & _).
  destruct oc as [cut|].
  - destruct (some_pair_inv _ _ _ _ H) as [<- _]. apply null_move_cut in En. exfalso. lia.
  - destruct (n_loop rec p (in_check p) b ply depth (sort_n p (legal_moves p) ttm) 0 s1 a (- INF) None) as [r|] eqn:El; [|discriminate].
    assert (Hleg : forall m, In m (sort_n p (legal_moves p) ttm) -> In m (legal_moves p)).
    { intros m Hm. apply (Permutation_in _ (sort_n_perm p (legal_moves p) ttm)). exact Hm. }
    pose proof (n_loop_hon rec plymax p (in_check p) a b ply depth Hw Hr Hp Hpl _ _ _ _ _ _ _ Hleg Ht1
                  (linv_init p a b ply) El) as Hl.
    pose proof (n_loop_bnd GenLegal.gen_legal rec plymax p (in_check p) b ply depth Hr Hp Hpl _ _ _ _ _ _ _ Hleg Ht1
                  (or_introl eq_refl) El) as (_ & Hbo).
    assert (Hnone : snd (fst r) = None -> legal_moves p = []).
    { intros Hn. remember (sort_n p (legal_moves p) ttm) as ms eqn:Ems.
      assert (Hperm : Permutation ms (legal_moves p)) by (rewrite Ems; apply sort_n_perm).
      destruct ms as [|m0 ms].
      - apply Permutation_nil in Hperm. exact Hperm.
      - exfalso. exact (n_loop_first_sets GenLegal.gen_legal rec plymax p _ _ _ _ m0 ms _ _ r Hr Hp Hpl Hleg Ht1 El Hn). }
    destruct r as [[[al be] bm] sL]. cbn [fst snd] in *. unfold nm_finish in H. destruct bm as [bmv|].
    + match type of H with match ?x with _ => _ end = _ => destruct x as [tt'|]; [|discriminate] end.
      destruct (some_pair_inv _ _ _ _ H) as [<- _]. destruct Hl as (_ & Hk).
      destruct Hbo as [Hbo|Hbo]; [discriminate|].
      destruct (Hk ltac:(lia) ltac:(lia) ltac:(unfold VB, MATE_SCORE, INF in *; lia)) as (Hb & _). unfold lo, hi in *. split; [lia|]. intros E. exfalso. lia.
    + destruct (some_pair_inv _ _ _ _ H) as [<- _]. unfold lo, hi, PLYMAX, MATE_SCORE, DRAW_SCORE in *.
      destruct (in_check p) eqn:Ec.
      * split; [lia|]. intros _. split; [exact (Hnone eq_refl)|exact Ec].
      * split; [lia|]. intros E. exfalso. lia.
Qed.

Section Honest.
Variable stopf : Stats -> bool.

(* ------------------------------------------------------------------ a PV node after the table probe *)
Lemma nm_prune_hon rec qrec plymax p s a b ply depth is_root cn ttm v s' : whon rec plymax -> nbnd rec plymax -> qbnd qrec ->
  InvSR p -> TBnd (ss_tt s) -> 0 <= ply -> ply + 1 <= plymax -> plymax <= PLYMAX + 1 ->
  nm_prune stopf rec qrec p s a a b ply depth (in_check p) is_root true cn ttm = Some (v, s') -> a < v < b ->
  lo ply <= v <= hi ply /\ (v = lo ply -> mated p).
Proof.
  intros Hw Hr Hq Hp Ht Hp0 Hp1 Hpm H Hin. unfold nm_prune in H.
  assert (Hleaf : forall x, Z.abs x <= EVB -> lo ply <= x <= hi ply /\ (x = lo ply -> mated p)).
  { intros x Hx. unfold lo, hi, EVB, PLYMAX, MATE_SCORE in *. split; [lia|]. intros E. exfalso. lia. }
  destruct (depth <=? 0).
  - destruct (qrec p (ss_stats s) a b ply) as [[v0 st]|] eqn:E; [|discriminate].
    destruct (some_pair_inv _ _ _ _ H) as [<- _]. apply Hq in E; [|exact (InvSR_16R p Hp)]. exact (Hleaf _ E).
  - destruct (stopf (ss_stats s) && negb (is_root && (st_depth (ss_stats s) <=? 1))).
    { destruct (some_pair_inv _ _ _ _ H) as [<- _]. apply Hleaf. unfold EVB. lia. }
    cbv zeta in H.
    destruct (((100 <=? halfmoves p) || _) && negb is_root).
    { destruct (some_pair_inv _ _ _ _ H) as [<- _]. apply Hleaf. unfold EVB, DRAW_SCORE. lia. }
    cbn [negb andb] in H.
    exact (nm_moves_hon rec plymax p s a b ply depth is_root cn ttm v s' Hw Hr Hp Ht Hp0 Hp1 Hpm H Hin).
Qed.

(* ------------------------------------------------------------------ the whole node: only a PV node can answer inside its window *)
Lemma nm_body_hon rec qrec plymax p s a b ply depth cn v s' : whon rec plymax -> nbnd rec plymax -> qbnd qrec ->
  InvSR p -> TBnd (ss_tt s) -> 0 <= ply -> ply + 1 <= plymax -> plymax <= PLYMAX + 1 ->
  nm_body stopf rec qrec p s a b ply depth cn = Some (v, s') -> a < v < b ->
  lo ply <= v <= hi ply /\ (v = lo ply -> mated p).
Proof.
  intros Hw Hr Hq Hp Ht Hp0 Hp1 Hpm H Hin. unfold nm_body in H. cbv zeta in H.
  match type of H with match ?x with _ => _ end = _ => destruct x as [tte|]; [|discriminate] end.
  unfold nm_probe in H. cbv zeta in H.
  destruct (Z.eqb_spec b (a + 1)) as [E|E]; [exfalso; lia|].
  cbn [negb] in H. rewrite !andb_false_r in H. cbn [andb] in H.
  apply (nm_prune_hon rec qrec plymax) in H; try assumption.
Qed.

Theorem negamax_whon : forall fuel plymax, plymax <= PLYMAX ->
  forall q s a b pl d cn v s', InvSR q -> TBnd (ss_tt s) -> 0 <= pl -> pl + Z.of_nat fuel <= plymax ->
  negamax stopf fuel q s a b pl d cn = Some (v, s') -> a < v < b ->
  lo pl <= v <= hi pl /\ (v = lo pl -> legal_moves q = [] /\ in_check q = true).
Proof.
  induction fuel as [|f IH]; intros plymax Hpm q s a b pl d cn v s' Hq Ht Hp0 Hp1 H Hin; [discriminate|].
  cbn [negamax] in H.
  apply (nm_body_hon (negamax stopf f) (qsearch f) (plymax - Z.of_nat f)) in H; try assumption; try lia.
  - intros q' s0 a0 b0 pl0 d0 cn0 v0 s0' Hq' Ht' Hpl' H' Hin'.
    apply (IH plymax Hpm q' s0 a0 b0 pl0 d0 cn0 v0 s0' Hq' Ht'); [lia|lia|exact H'|exact Hin'].
  - intros q' s0 a0 b0 pl0 d0 cn0 v0 s0' Hq' Ht' Hpl' H'.
    apply (negamax_bnd stopf GenLegal.gen_legal f plymax ltac:(unfold PLYMAX, VB, MATE_SCORE in *; lia) q' s0 a0 b0 pl0 d0 cn0 v0 s0' Hq' Ht'); [lia|lia|exact H'].
  - exact (qsearch_bnd stopf GenLegal.gen_legal f).
Qed.

(* the abstract forms, as the stage lemmas want them *)
Lemma negamax_whon_rec f plymax : plymax <= PLYMAX -> whon (negamax stopf f) (plymax - Z.of_nat f).
Proof.
  intros Hpm q s a b pl d cn v s' Hq Ht Hpl H Hin.
  exact (negamax_whon f plymax Hpm q s a b pl d cn v s' Hq Ht ltac:(lia) ltac:(lia) H Hin).
Qed.

Lemma negamax_nbnd_rec f plymax : plymax <= 2 * VB -> nbnd (negamax stopf f) (plymax - Z.of_nat f).
Proof.
  intros Hpm q s a b pl d cn v s' Hq Ht Hpl H.
  exact (negamax_bnd stopf GenLegal.gen_legal f plymax Hpm q s a b pl d cn v s' Hq Ht ltac:(lia) ltac:(lia) H).
Qed.

End Honest.

Print Assumptions negamax_whon.
