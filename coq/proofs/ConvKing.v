(* C01 (completeness half), king steps: the converse of LegalKing.v.  A step of the mover's king to an adjacent square
   not held by one of his own men, which does not leave the king attacked, is emitted by the move generator.
   The generator's test `is_safe to (occupied p xor bit from) P N B R Q K` (their men of the position before) is shown EQUAL to
   the negation of the square-by-square test `bit_attacked` on the board stage Q = mv_boards u p m at the target:
   their men in Q are their men before except on the target square, the occupancy of Q agrees with `occupied p xor bit from`
   off the target, and none of the squares either test looks at is the target itself (leaper offsets are never (0,0); a ray
   from a square never contains the square). *)
From Coq Require Import NArith ZArith List Bool Lia ZifyN ZifyBool.
From Rawr Require Import Consts Bits Magic Position MoveGen MakeMove MakeStages Rules Abs
                         BitsFacts ShiftFacts LeaperFacts FlipFacts AbsFacts LsbFacts HashFacts MakeFacts MakeAbs KeyAbs KeyMove
                         AttackFacts AttackAbs GenSane Closure EpRetro LegalBase NoKingCapture LegalKing.
Import ListNotations.
Local Open Scope N_scope.

(* ------------------------------------------------------------------ a leaper offset never looks at the square itself *)
Definition small_off (d : Z * Z) : Prop := (-8 < fst d < 8)%Z /\ (fst d <> 0 \/ snd d <> 0)%Z.

Lemma off_not_self sq d : small_off d -> on_board (zfile sq + fst d) (zrank sq + snd d) = true ->
  zsq (zfile sq + fst d) (zrank sq + snd d) <> sq.
Proof.
  destruct d as [dx dy]. unfold small_off, on_board, zsq, zfile, zrank. cbn [fst snd]. intros (H1 & H2) Hb E.
  apply andb_true_iff in Hb. destruct Hb as [Hb B4]. apply andb_true_iff in Hb. destruct Hb as [Hb B3].
  apply andb_true_iff in Hb. destruct Hb as [B1 B2].
  apply Z.leb_le in B1, B3. apply Z.ltb_lt in B2, B4.
  pose proof (Z.div_mod (Z.of_N sq) 8 ltac:(lia)) as Hdm.
  pose proof (Z.mod_pos_bound (Z.of_N sq) 8 ltac:(lia)) as Hmb.
  set (q := (Z.of_N sq / 8)%Z) in *. set (r := (Z.of_N sq mod 8)%Z) in *.
  assert (E' : (8 * (q + dy) + (r + dx))%Z = Z.of_N sq) by lia.
  lia.
Qed.

Lemma pawn_offs_small d : In d (pawn_offs true) -> small_off d.
Proof. unfold pawn_offs. cbn [In]. intros H. repeat (destruct H as [<-|H]; [unfold small_off; cbn [fst snd]; lia|]). contradiction. Qed.
Lemma knight_offs_small d : In d knight_offs -> small_off d.
Proof. unfold knight_offs. cbn [In]. intros H. repeat (destruct H as [<-|H]; [unfold small_off; cbn [fst snd]; lia|]). contradiction. Qed.
Lemma king_offs_small d : In d king_offs -> small_off d.
Proof. unfold king_offs. cbn [In]. intros H. repeat (destruct H as [<-|H]; [unfold small_off; cbn [fst snd]; lia|]). contradiction. Qed.

(* the anti-monotone companion of LegalKing.at_off_mono: the two sets need only be related off the square itself *)
Lemma at_off_mono_off x y sq d : small_off d -> (forall i, i <> sq -> N.testbit x i = true -> N.testbit y i = true) ->
  at_off x sq d = true -> at_off y sq d = true.
Proof.
  intros Hd H. unfold at_off. cbv zeta. intros E. apply andb_true_iff in E. destruct E as [E1 E2].
  rewrite E1, (H _ (off_not_self sq d Hd E1) E2). reflexivity.
Qed.

(* ------------------------------------------------------------------ assembling is_safe from its five clauses *)
Lemma is_safe_intro sq bl pw kn bi ro qu ki :
  is_set (pawns_bb false pw) sq = false ->
  is_occ (N.land (knights_bb (bit sq)) kn) = false ->
  is_occ (N.land (batt sq bl) (N.lor bi qu)) = false ->
  is_occ (N.land (ratt sq bl) (N.lor ro qu)) = false ->
  is_occ (N.land (adjacent (bit sq)) ki) = false ->
  is_safe sq bl pw kn bi ro qu ki = true.
Proof. intros H1 H2 H3 H4 H5. unfold is_safe. cbv zeta. rewrite H1, H2, H3, H4, H5. reflexivity. Qed.

(* ------------------------------------------------------------------ the board stage after a king step, read backwards *)
Section KingStepConv.
Variables (u : bool) (p : Position) (from to : N).
Let m := mkMv from to NOPIECE.
Hypothesis S : sane p m KING.
Let Q := mv_boards u p m.

(* their men of the position before, other than the one on the target, are still there in Q *)
Lemma kc_them j s : j <= 5 -> s <> to -> N.testbit (N.land (c_them p) (get_piece p j)) s = true ->
  N.testbit (N.land (get_piece Q j) (c_them Q)) s = true.
Proof.
  intros Hj Hs H. unfold Q. rewrite (Q_them u p m KING S j s Hj). unfold m. rewrite (ks_not_ep p from to S). cbn [m_to andb negb].
  rewrite N.land_comm, H. destruct (N.eqb_spec s to) as [E|_]; [contradiction|]. reflexivity.
Qed.

(* a slider clause of the generator at the target follows from the clause of Q *)
Lemma kc_slider (j : N) (dirs : list (Z * Z)) : j <= 5 -> (forall d, In d dirs -> In d (bishop_dirs ++ rook_dirs)) ->
  existsb (fun d => first_hit (occupied Q) (N.land (c_them Q) (N.lor (get_piece Q j) (queens Q))) (ray_of to d)) dirs = false ->
  existsb (fun d => first_hit (N.lxor (occupied p) (bit from))
                      (N.lor (N.land (c_them p) (get_piece p j)) (N.land (c_them p) (queens p))) (ray_of to d)) dirs = false.
Proof.
  intros Hj Hd. apply existsb_false_mono. intros d Hin.
  assert (Hne : forall s, In s (ray_of to d) -> s <> to).
  { intros s Hs E. rewrite E in Hs. exact (ray_no_self to d (sn_to _ _ _ S) (Hd d Hin) Hs). }
  apply first_hit_mono.
  - intros s Hs. symmetry. apply (ks_occ u p from to S). exact (Hne s Hs).
  - intros s Hs H. rewrite N.lor_spec in H. rewrite N.land_spec, N.lor_spec.
    apply orb_true_iff in H. destruct H as [H|H].
    + pose proof (kc_them j s Hj (Hne s Hs) H) as X. rewrite N.land_spec in X. apply andb_true_iff in X. destruct X as [X1 X2].
      rewrite X1, X2. reflexivity.
    + pose proof (kc_them 4 s ltac:(lia) (Hne s Hs) H) as X. cbn [get_piece] in X. rewrite N.land_spec in X.
      apply andb_true_iff in X. destruct X as [X1 X2]. rewrite X1, X2, orb_true_r. reflexivity.
Qed.

Theorem king_step_safe_conv : HashFacts.BB8 p ->
  bit_attacked Q to false = false ->
  is_safe to (N.lxor (occupied p) (bit from))
    (N.land (c_them p) (pawns p)) (N.land (c_them p) (knights p)) (N.land (c_them p) (bishops p))
    (N.land (c_them p) (rooks p)) (N.land (c_them p) (queens p)) (N.land (c_them p) (kings p)) = true.
Proof.
  intros (_ & B2 & _) H.
  pose proof (sn_to _ _ _ S) as Ht. cbn [m_to m] in Ht.
  unfold bit_attacked in H. cbv zeta in H. cbn [get_side negb] in H.
  apply orb_false_iff in H. destruct H as [H E5]. apply orb_false_iff in H. destruct H as [H E4].
  apply orb_false_iff in H. destruct H as [H E3]. apply orb_false_iff in H. destruct H as [E1 E2].
  apply is_safe_intro.
  - rewrite (pawn_clause to _ Ht (land_lt_l _ _ B2)). revert E1. apply existsb_false_mono. intros d Hd.
    apply at_off_mono_off; [exact (pawn_offs_small d Hd)|]. intros i Hi. exact (kc_them 0 i ltac:(lia) Hi).
  - rewrite (knight_clause to _ Ht). revert E2. apply existsb_false_mono. intros d Hd.
    apply at_off_mono_off; [exact (knight_offs_small d Hd)|]. intros i Hi. exact (kc_them 1 i ltac:(lia) Hi).
  - rewrite (bishop_clause to _ _ Ht (lor_them_sub p from to S _ _)).
    apply (kc_slider 2 bishop_dirs ltac:(lia)); [intros d Hd; apply in_or_app; left; exact Hd|exact E3].
  - rewrite (rook_clause to _ _ Ht (lor_them_sub p from to S _ _)).
    apply (kc_slider 3 rook_dirs ltac:(lia)); [intros d Hd; apply in_or_app; right; exact Hd|exact E4].
  - rewrite (king_clause to _ Ht). revert E5. apply existsb_false_mono. intros d Hd.
    apply at_off_mono_off; [exact (king_offs_small d Hd)|]. intros i Hi. exact (kc_them 5 i ltac:(lia) Hi).
Qed.

(* both directions at once: the generator's test IS the attack test on the board after the step *)
Theorem king_step_safe_eq : HashFacts.BB8 p ->
  is_safe to (N.lxor (occupied p) (bit from))
    (N.land (c_them p) (pawns p)) (N.land (c_them p) (knights p)) (N.land (c_them p) (bishops p))
    (N.land (c_them p) (rooks p)) (N.land (c_them p) (queens p)) (N.land (c_them p) (kings p))
  = negb (bit_attacked Q to false).
Proof.
  intros HB. destruct (bit_attacked Q to false) eqn:E; cbn [negb].
  - match goal with |- ?x = false => destruct x eqn:F; [|reflexivity] end.
    pose proof (king_step_safe u p from to S F HB) as X. fold m in X. fold Q in X. rewrite X in E. discriminate.
  - exact (king_step_safe_conv HB E).
Qed.
End KingStepConv.

(* ------------------------------------------------------------------ the king never steps onto its own square *)
Lemma step_sane p b : Good p -> b < 64 -> ub p b = false ->
  sane p (mkMv (lsb (N.land (kings p) (c_us p))) b NOPIECE) KING.
Proof.
  intros G Hb Hu. destruct (king_holds p G) as ((_ & Hku & _ & Hkp) & Hk64).
  cbn [negb] in Hku. specialize (Hkp 5 ltac:(lia)). rewrite N.eqb_refl in Hkp.
  exact (proj1 (piece_move_sane p G KING _ b ltac:(unfold KING; lia) ltac:(unfold KING, PAWN; lia) Hk64 Hb Hku Hkp Hu)).
Qed.

(* ------------------------------------------------------------------ the theorems *)
Theorem king_step_complete u p b : Inv0 p ->
  let k := lsb (N.land (kings p) (c_us p)) in
  b < 64 -> N.testbit (adjacent (bit k)) b = true -> ub p b = false -> b <> tksq p ->
  in_check_them (makemove u p (mkMv k b NOPIECE)) = false ->
  In (KING, k, b, NOPIECE) (king_steps p).
Proof.
  intros I k Hb Hadj Hu NVK Hsafe. pose proof (i0_good p I) as G.
  pose proof (step_sane p b G Hb Hu) as S. fold k in S.
  rewrite (nc_transfer u p _ KING S I NVK) in Hsafe.
  unfold our_king_after in Hsafe. rewrite N.eqb_refl in Hsafe. cbn [m_to] in Hsafe.
  pose proof (king_step_safe_conv u p k b S (g_bb p G) Hsafe) as Hs.
  unfold king_steps. apply in_flat_map. exists k. split.
  { apply bits_spec. unfold k. apply lsb_set. apply popcount1_nonzero. exact (g_king p G). }
  apply in_flat_map. exists b. split.
  { apply bits_spec. rewrite N.land_spec, testbit_bnot, Hadj.
    unfold ub, is_set in Hu. rewrite Hu. replace (b <? 64) with true by (symmetry; apply N.ltb_lt; exact Hb). reflexivity. }
  rewrite Hs. left. reflexivity.
Qed.

Print Assumptions king_step_complete.

(* the same, among the moves of the generator *)
Corollary king_step_generated u p b : Inv0 p ->
  let k := lsb (N.land (kings p) (c_us p)) in
  b < 64 -> N.testbit (adjacent (bit k)) b = true -> ub p b = false -> b <> tksq p ->
  in_check_them (makemove u p (mkMv k b NOPIECE)) = false ->
  In (mkMv k b NOPIECE) (legal_moves p).
Proof.
  intros I k Hb Hadj Hu NVK Hsafe.
  pose proof (king_step_complete u p b I Hb Hadj Hu NVK Hsafe) as Hg. fold k in Hg.
  unfold legal_moves. change (mkMv k b NOPIECE) with (gen_mv (KING, k, b, NOPIECE)). apply in_map.
  rewrite generator_blocks. do 13 (apply in_or_app; right). apply in_or_app. left. exact Hg.
Qed.

Print Assumptions king_step_generated.

(* the criterion, both ways: an admissible king step is generated exactly when it does not leave the king attacked *)
Theorem king_step_iff u p b : Inv0 p ->
  let k := lsb (N.land (kings p) (c_us p)) in
  b < 64 -> N.testbit (adjacent (bit k)) b = true -> ub p b = false -> b <> tksq p ->
  (In (KING, k, b, NOPIECE) (king_steps p) <-> in_check_them (makemove u p (mkMv k b NOPIECE)) = false).
Proof.
  intros I k Hb Hadj Hu NVK. split.
  - intros Hg. exact (king_step_legal u p _ I Hg).
  - intros H. exact (king_step_complete u p b I Hb Hadj Hu NVK H).
Qed.

Print Assumptions king_step_iff.
