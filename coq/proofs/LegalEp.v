(* C01 (soundness half), en passant: an en-passant capture emitted by the generator never leaves the mover's king attacked,
   on positions whose en-passant state is consistent (`ep_ok_b`: the double push the en-passant square records can have been
   the last move).  The hypothesis is needed: the generator does not test for a diagonal attack uncovered through the captured
   pawn's square.
   Notation: k our king, e the en-passant square (the target), v = e - 8 the captured pawn, a = e - 9 / e - 7 the capturing
   pawn, o = e + 8 the square the captured pawn came from.
   1. transfer (LegalBase.nc_transfer_sq): the test becomes `is_sq_attacked Q k false` on the board stage Q;
   2. pawn / knight attackers of k in Q attack k in p and are not v: `allowed` is their square, but the generator wants e or v
      in `allowed`;  their king: where it was, and not adjacent to ours (i0_safe);
   3. sliders: along the rank the generator's own test; along the other six directions at most one of a, v leaves the ray:
      none - a slider check in p, `allowed` is the checking ray;  a - a is pinned, and the generator's pin tests exclude the
      capture;  v - vertical: e closes the file again; diagonal: excluded by ep_ok_b. *)
From Coq Require Import NArith ZArith List Bool Lia ZifyN ZifyBool.
From Rawr Require Import Consts Bits Magic Position MoveGen MakeMove MakeStages Rules Abs
                         BitsFacts ShiftFacts LeaperFacts FlipFacts AbsFacts LsbFacts HashFacts MakeFacts MakeAbs KeyAbs KeyMove
                         AttackFacts AttackAbs AttackSets RayFacts GenSane GenNoDup Closure EpRetro LegalBase NoKingCapture
                         RaySym RayGeo PinFacts.
Import ListNotations.
Local Open Scope N_scope.
Ltac Zify.zify_post_hook ::= Z.div_mod_to_equations.

(* ------------------------------------------------------------------ geometry: three sweeps *)
Definition nonhoriz : list (Z * Z) := bishop_dirs ++ [(0, 1); (0, -1)]%Z.

(* a ray that is not horizontal never contains two horizontally adjacent squares *)
Definition adj_ok (k : N) (d : Z * Z) : bool := forallb (fun s => negb (memb (s + 1) (ray_of k d))) (ray_of k d).
Lemma adj_ok_all : forallb (fun k => forallb (adj_ok k) nonhoriz) sq64_list = true.
Proof. vm_compute. reflexivity. Qed.
Lemma ray_no_adj k d s : k < 64 -> In d nonhoriz -> In s (ray_of k d) -> In (s + 1) (ray_of k d) -> False.
Proof.
  intros Hk Hd H1 H2. pose proof adj_ok_all as A. rewrite forallb_forall in A. specialize (A k (in_sq64 k Hk)).
  rewrite forallb_forall in A. specialize (A d Hd). unfold adj_ok in A. rewrite forallb_forall in A. specialize (A s H1).
  apply negb_true_iff in A. exact (memb_not_in _ _ A H2).
Qed.

(* a diagonal never contains two squares of one file two ranks apart *)
Definition file_ok (k : N) (d : Z * Z) : bool := forallb (fun s => negb (memb (s + 16) (ray_of k d))) (ray_of k d).
Lemma file_ok_all : forallb (fun k => forallb (file_ok k) bishop_dirs) sq64_list = true.
Proof. vm_compute. reflexivity. Qed.
Lemma ray_no_file k d s : k < 64 -> In d bishop_dirs -> In s (ray_of k d) -> In (s + 16) (ray_of k d) -> False.
Proof.
  intros Hk Hd H1 H2. pose proof file_ok_all as A. rewrite forallb_forall in A. specialize (A k (in_sq64 k Hk)).
  rewrite forallb_forall in A. specialize (A d Hd). unfold file_ok in A. rewrite forallb_forall in A. specialize (A s H1).
  apply negb_true_iff in A. exact (memb_not_in _ _ A H2).
Qed.

(* the first squares of the two upward diagonals, when there are any *)
Definition up_head_ok (a : N) : bool :=
  match ray_of a (1, 1)%Z with [] => true | h :: _ => (h =? a + 9) && negb (a mod 8 =? 7) end
  && match ray_of a (-1, 1)%Z with [] => true | h :: _ => (h =? a + 7) && negb (a mod 8 =? 0) end.
Lemma up_head_all : forallb up_head_ok sq64_list = true.
Proof. vm_compute. reflexivity. Qed.
Lemma ne_head a h t : a < 64 -> ray_of a (1, 1)%Z = h :: t -> h = a + 9 /\ a mod 8 <> 7.
Proof.
  intros Ha E. pose proof up_head_all as A. rewrite forallb_forall in A. specialize (A a (in_sq64 a Ha)).
  unfold up_head_ok in A. apply andb_true_iff in A. destruct A as [A _]. rewrite E in A.
  apply andb_true_iff in A. destruct A as [A1 A2]. apply N.eqb_eq in A1. apply negb_true_iff, N.eqb_neq in A2. split; assumption.
Qed.
Lemma nw_head a h t : a < 64 -> ray_of a (-1, 1)%Z = h :: t -> h = a + 7 /\ a mod 8 <> 0.
Proof.
  intros Ha E. pose proof up_head_all as A. rewrite forallb_forall in A. specialize (A a (in_sq64 a Ha)).
  unfold up_head_ok in A. apply andb_true_iff in A. destruct A as [_ A]. rewrite E in A.
  apply andb_true_iff in A. destruct A as [A1 A2]. apply N.eqb_eq in A1. apply negb_true_iff, N.eqb_neq in A2. split; assumption.
Qed.

(* ------------------------------------------------------------------ the x-ray half of the pin fold *)
Section PinsX.
Variable p : Position.
Hypothesis Hk : g_k p < 64.
Variable X : N.

Lemma pins_mono_x ds e s : N.testbit (snd (pins p ds X)) s = true -> N.testbit (snd (pins p (e :: ds) X)) s = true.
Proof. cbn [pins fold_right]. fold (pins p ds X). exact (proj2 (pin_dir_mono p e X (pins p ds X) s)). Qed.

Lemma pins_complete_x ds e l1 a l2a x l2b : (forall e, In e ds -> In e dir_tab /\ X = g_chk p (fst e)) -> In e ds ->
  ray_of (g_k p) (fst e) = l1 ++ a :: l2a ++ x :: l2b ->
  (forall s, In s l1 -> N.testbit (occupied p) s = false) -> (forall s, In s l2a -> N.testbit (occupied p) s = false) ->
  ub p a = true -> N.testbit X x = true -> N.testbit (occupied p) x = true ->
  (forall s, ub p s = true -> N.testbit (occupied p) s = true) ->
  forall s, (In s l1 \/ s = a \/ In s l2a \/ s = x) -> N.testbit (snd (pins p ds X)) s = true.
Proof.
  intros Hds Hin El H1 H2 Ha Hx Hox Hsub s Hs. induction ds as [|e' ds IH]; [contradiction|].
  destruct (Hds e' (or_introl eq_refl)) as (He' & HX').
  destruct Hin as [->|Hin].
  - cbn [pins fold_right]. fold (pins p ds X).
    exact (proj2 (pin_dir_complete p e He' X HX' Hk (pins p ds X) l1 a l2a x l2b El H1 H2 Ha Hx Hox Hsub) s Hs).
  - apply pins_mono_x. apply IH; [intros e'' He''; apply Hds; right; exact He''|exact Hin].
Qed.
End PinsX.

(* the entries of the direction table for the diagonals and the file *)
Lemma diag_entry d : In d bishop_dirs -> exists en, In en [e_sw; e_se; e_nw; e_ne] /\ fst en = d.
Proof.
  unfold bishop_dirs. cbn [In]. intros [<-|[<-|[<-|[<-|[]]]]].
  - exists e_ne. cbn [In]. split; [tauto|reflexivity].
  - exists e_nw. cbn [In]. split; [tauto|reflexivity].
  - exists e_se. cbn [In]. split; [tauto|reflexivity].
  - exists e_sw. cbn [In]. split; [tauto|reflexivity].
Qed.
Lemma diag_entries p en : In en [e_sw; e_se; e_nw; e_ne] -> In en dir_tab /\ g_bq p = g_chk p (fst en).
Proof. unfold dir_tab. cbn [In]. intros [<-|[<-|[<-|[<-|[]]]]]; (split; [tauto|reflexivity]). Qed.
Lemma vert_entry d : d = (0, 1)%Z \/ d = (0, -1)%Z -> exists en, In en [e_s; e_n] /\ fst en = d.
Proof.
  intros [->| ->].
  - exists e_n. cbn [In]. split; [tauto|reflexivity].
  - exists e_s. cbn [In]. split; [tauto|reflexivity].
Qed.
Lemma vert_entries p en : In en [e_s; e_n] -> In en dir_tab /\ g_rq p = g_chk p (fst en).
Proof. unfold dir_tab. cbn [In]. intros [<-|[<-|[]]]; (split; [tauto|reflexivity]). Qed.

(* ------------------------------------------------------------------ what the generator tested *)
Definition ep_cand_set (p : Position) (ne : bool) : N :=
  N.land (N.land (N.land (c_us p) (pawns p)) (bnot (gi_rpinned (gen_info p))))
         (N.lor (bnot (gi_bpinned (gen_info p)))
                (bnot (if ne then south_east (gi_bxrays (gen_info p)) else south_west (gi_bxrays (gen_info p))))).
Definition ep_blockers (p : Position) (ne : bool) (e : N) : N :=
  N.lxor (N.lxor (N.lxor (occupied p) (bit e)) (south (bit e))) (if ne then south_west (bit e) else south_east (bit e)).

Lemma ep_cand_cond p ne e g : In g (ep_candidate p (gen_info p) ne e) ->
  g = (PAWN, e - (if ne then 9 else 7), e, NOPIECE)
  /\ N.testbit (if ne then north_east (ep_cand_set p ne) else north_west (ep_cand_set p ne)) e = true
  /\ (N.testbit (gi_allowed (gen_info p)) e = true \/ N.testbit (north (gi_allowed (gen_info p))) e = true)
  /\ is_emp (N.land (ray_e (g_k p) (ep_blockers p ne e)) (g_rq p)) = true
  /\ is_emp (N.land (ray_w (g_k p) (ep_blockers p ne e)) (g_rq p)) = true.
Proof.
  unfold ep_candidate. cbv zeta. rewrite gi_ksq_eq. fold (g_k p). fold (g_rq p). fold (ep_cand_set p ne). fold (ep_blockers p ne e).
  intros Hg.
  match type of Hg with In _ (if is_set ?sh e then _ else _) => destruct (is_set sh e) eqn:Hsh; [|contradiction] end.
  match type of Hg with In _ (if ?c then _ else _) => destruct c eqn:Hc; [|contradiction] end.
  destruct Hg as [<-|[]].
  apply andb_true_iff in Hc. destruct Hc as [Hc H3]. apply andb_true_iff in Hc. destruct Hc as [H1 H2].
  apply orb_true_iff in H1. unfold is_set in *.
  split; [reflexivity|split; [exact Hsh|split; [exact H1|split; assumption]]].
Qed.

(* ------------------------------------------------------------------ small general facts *)
Lemma occ_bits q s : N.testbit (occupied q) s = ub q s || tb q s.
Proof. unfold occupied. rewrite N.lor_spec. reflexivity. Qed.
Lemma them_sub q Y i : N.testbit (N.land (c_them q) Y) i = true -> N.testbit (occupied q) i = true.
Proof.
  rewrite N.land_spec. intros H. apply andb_true_iff in H. destruct H as [H _].
  unfold occupied. rewrite N.lor_spec, H. apply orb_true_r.
Qed.
Lemma testbit_bit' t s : s < 64 -> N.testbit (bit t) s = (s =? t).
Proof.
  intros Hs. destruct (N.lt_ge_cases t 64) as [Ht|Ht]; [exact (testbit_bit t s Ht)|].
  unfold bit. rewrite testbit_shl. destruct (N.leb_spec t s) as [H|H]; [lia|].
  rewrite andb_false_r. cbn [andb]. symmetry. apply N.eqb_neq. lia.
Qed.
Lemma existsb_false' {A} (f : A -> bool) l : existsb f l = false -> forall x, In x l -> f x = false.
Proof.
  intros H x Hx. destruct (f x) eqn:E; [|reflexivity].
  assert (X : existsb f l = true) by (apply existsb_exists; exists x; split; assumption). rewrite X in H. discriminate.
Qed.
Lemma head_split (l2a : list N) x l2b h t : l2a ++ x :: l2b = h :: t -> In h l2a \/ h = x.
Proof. destruct l2a as [|y l]; cbn [app]; intros E; injection E as E _; [right; symmetry; exact E|left; left; exact E]. Qed.
Lemma nonhoriz_all d : In d nonhoriz -> In d all_dirs.
Proof. unfold nonhoriz, all_dirs, bishop_dirs, rook_dirs. cbn [In app]. tauto. Qed.
Lemma all_dirs_split d : In d all_dirs -> In d nonhoriz \/ d = (1, 0)%Z \/ d = (-1, 0)%Z.
Proof. unfold nonhoriz, all_dirs, bishop_dirs, rook_dirs. cbn [In app]. intros H. repeat (destruct H as [<-|H]; [tauto|]). contradiction. Qed.
Lemma nonhoriz_split d : In d nonhoriz -> In d bishop_dirs \/ d = (0, 1)%Z \/ d = (0, -1)%Z.
Proof. unfold nonhoriz, bishop_dirs. cbn [In app]. intros H. repeat (destruct H as [<-|H]; [tauto|]). contradiction. Qed.

(* ------------------------------------------------------------------ one en-passant candidate *)
Section Ep.
Variables (u : bool) (p : Position) (e : N) (ne : bool) (g : Gen).
Hypothesis I : Inv0 p.
Hypothesis Ee : ep p = Some e.
Hypothesis Hok : ep_ok_b p = true.
Hypothesis Hg : In g (ep_candidate p (gen_info p) ne e).
Local Notation G := (i0_good p I).
Local Notation k := (g_k p).
Local Notation a := (e - (if ne then 9 else 7)).
Local Notation v := (e - 8).
Local Notation m := (mkMv (e - (if ne then 9 else 7)) e NOPIECE).
Local Notation Q := (mv_boards u p (mkMv (e - (if ne then 9 else 7)) e NOPIECE)).
Local Notation occ := (occupied p).
Local Notation bx := (gi_bxrays (gen_info p)).

Lemma e_rng : 8 <= e < 64. Proof. exact (proj1 (g_ep p G e Ee)). Qed.
Lemma e_empty : empty_at p e. Proof. exact (proj1 (proj2 (g_ep p G e Ee))). Qed.
Lemma v_pawn : holds p v true PAWN. Proof. exact (proj2 (proj2 (g_ep p G e Ee))). Qed.
Lemma gshape : g = (PAWN, a, e, NOPIECE). Proof. exact (proj1 (ep_cand_cond p ne e g Hg)). Qed.
Lemma k_lt : k < 64. Proof. exact (gk_lt p G). Qed.

Lemma src_facts : (if ne then 9 else 7) <= e /\ e mod 8 <> (if ne then 0 else 7) /\ ub p a = true /\ pb p 0 a = true
  /\ N.testbit (gi_rpinned (gen_info p)) a = false
  /\ (N.testbit (gi_bpinned (gen_info p)) a = true -> N.testbit (if ne then south_east bx else south_west bx) a = false).
Proof.
  destruct (ep_cand_cond p ne e g Hg) as (_ & Hsh & _). unfold ep_cand_set in Hsh. destruct ne.
  - rewrite testbit_north_east in Hsh. repeat (apply andb_true_iff in Hsh; destruct Hsh as [Hsh ?]).
    match goal with X : (9 <=? e) = true |- _ => apply N.leb_le in X end.
    match goal with X : negb (e mod 8 =? 0) = true |- _ => apply negb_true_iff, N.eqb_neq in X end.
    match goal with X : N.testbit _ (e - 9) = true |- _ => rewrite !N.land_spec, N.lor_spec, !testbit_bnot in X; rename X into HX end.
    apply andb_true_iff in HX. destruct HX as [HX K4]. apply andb_true_iff in HX. destruct HX as [HX K3].
    apply andb_true_iff in HX. destruct HX as [K1 K2].
    apply andb_true_iff in K3. destruct K3 as [_ K3]. apply negb_true_iff in K3.
    repeat split; try assumption.
    intros Hb. rewrite Hb in K4. cbn [negb] in K4. rewrite andb_false_r in K4. cbn [orb] in K4.
    apply andb_true_iff in K4. destruct K4 as [_ K4]. apply negb_true_iff in K4. exact K4.
  - rewrite testbit_north_west in Hsh. repeat (apply andb_true_iff in Hsh; destruct Hsh as [Hsh ?]).
    match goal with X : (7 <=? e) = true |- _ => apply N.leb_le in X end.
    match goal with X : negb (e mod 8 =? 7) = true |- _ => apply negb_true_iff, N.eqb_neq in X end.
    match goal with X : N.testbit _ (e - 7) = true |- _ => rewrite !N.land_spec, N.lor_spec, !testbit_bnot in X; rename X into HX end.
    apply andb_true_iff in HX. destruct HX as [HX K4]. apply andb_true_iff in HX. destruct HX as [HX K3].
    apply andb_true_iff in HX. destruct HX as [K1 K2].
    apply andb_true_iff in K3. destruct K3 as [_ K3]. apply negb_true_iff in K3.
    repeat split; try assumption.
    intros Hb. rewrite Hb in K4. cbn [negb] in K4. rewrite andb_false_r in K4. cbn [orb] in K4.
    apply andb_true_iff in K4. destruct K4 as [_ K4]. apply negb_true_iff in K4. exact K4.
Qed.

(* arithmetic of the four squares *)
Lemma sq_arith : a < 64 /\ a <> e /\ a <> v /\ v <> e /\ v < 64 /\ (a + 1 = v \/ v + 1 = a) /\ v + 8 = e
  /\ a + (if ne then 9 else 7) = e /\ a mod 8 <> (if ne then 7 else 0).
Proof.
  destruct src_facts as (Hd & Hm & _). pose proof e_rng as He. destruct ne; repeat split; lia.
Qed.

Lemma ua : ub p a = true. Proof. exact (proj1 (proj2 (proj2 src_facts))). Qed.
Lemma occ_a : N.testbit occ a = true. Proof. rewrite occ_bits, ua. reflexivity. Qed.
Lemma occ_v : N.testbit occ v = true.
Proof. destruct v_pawn as (_ & _ & Ht & _). rewrite occ_bits, Ht. apply orb_true_r. Qed.
Lemma occ_e : N.testbit occ e = false.
Proof. destruct e_empty as (Hu & Ht & _). rewrite occ_bits, Hu, Ht. reflexivity. Qed.
Lemma us_occ s : ub p s = true -> N.testbit occ s = true.
Proof. intros H. rewrite occ_bits, H. reflexivity. Qed.

(* the move *)
Lemma in_blk : In g (blk_ep p).
Proof. unfold blk_ep. rewrite Ee. apply in_or_app. destruct ne; [left|right]; exact Hg. Qed.
Lemma S : sane p m PAWN.
Proof. pose proof (proj1 (ep_block p G g in_blk)) as H. rewrite gshape in H. exact H. Qed.
Lemma is_ep : mv_is_ep p m = true.
Proof.
  unfold mv_is_ep. rewrite (sane_piece p m PAWN S). cbn [m_from m_to]. rewrite (empty_piece_on p e e_empty).
  change (PAWN =? PAWN) with true. cbn [andb]. rewrite andb_true_r. apply negb_true_iff, N.eqb_neq.
  destruct src_facts as (Hd & Hm & _). unfold file_of. destruct ne; lia.
Qed.
Lemma NVK : m_to m <> tksq p.
Proof.
  cbn [m_to]. intros E. destruct (their_king_holds p (g_wf p G) (g_bb p G) (i0_tking p I)) as (HK & _).
  rewrite <- E in HK. exact (holds_not_empty _ _ _ _ HK e_empty).
Qed.

(* the board stage *)
Lemma Qocc s : N.testbit (occupied Q) s = (s =? e) || (N.testbit occ s && negb (s =? a) && negb (s =? v)).
Proof. rewrite (Q_occ u p m PAWN S s), is_ep. reflexivity. Qed.
Lemma Qocc_e : N.testbit (occupied Q) e = true.
Proof. rewrite Qocc, N.eqb_refl. reflexivity. Qed.
Lemma Qthem j s : j <= 5 -> N.testbit (N.land (get_piece Q j) (c_them Q)) s = true ->
  N.testbit (N.land (get_piece p j) (c_them p)) s = true /\ s <> e /\ s <> v.
Proof.
  intros Hj H. rewrite (Q_them u p m PAWN S j s Hj), is_ep in H. cbn [m_to andb] in H.
  apply andb_true_iff in H. destruct H as [H H3]. apply andb_true_iff in H. destruct H as [H1 H2].
  apply negb_true_iff, N.eqb_neq in H2, H3. split; [exact H1|split; assumption].
Qed.
Lemma Qslide j s : j <= 5 -> N.testbit (N.land (c_them Q) (N.lor (get_piece Q j) (queens Q))) s = true ->
  N.testbit (N.land (c_them p) (N.lor (get_piece p j) (queens p))) s = true /\ s <> e /\ s <> v.
Proof.
  intros Hj H. rewrite N.land_spec, N.lor_spec in H. apply andb_true_iff in H. destruct H as [Ht H].
  rewrite N.land_spec, N.lor_spec. apply orb_true_iff in H. destruct H as [H|H].
  - destruct (Qthem j s Hj) as (H1 & H2); [rewrite N.land_spec, H, Ht; reflexivity|].
    rewrite N.land_spec in H1. apply andb_true_iff in H1. destruct H1 as [H1 H1']. rewrite H1, H1'. split; [reflexivity|exact H2].
  - destruct (Qthem 4 s ltac:(lia)) as (H1 & H2); [cbn [get_piece]; rewrite N.land_spec, H, Ht; reflexivity|].
    cbn [get_piece] in H1. rewrite N.land_spec in H1. apply andb_true_iff in H1. destruct H1 as [H1 H1']. rewrite H1, H1', orb_true_r. split; [reflexivity|exact H2].
Qed.
Lemma vac_p s : N.testbit (occupied Q) s = false -> s <> a -> s <> v -> N.testbit occ s = false.
Proof.
  intros H Ha Hv. rewrite Qocc in H. apply orb_false_iff in H. destruct H as [_ H].
  destruct (N.eqb_spec s a); [contradiction|]. destruct (N.eqb_spec s v); [contradiction|]. cbn [negb] in H. rewrite !andb_true_r in H. exact H.
Qed.
Lemma vac_ne s : N.testbit (occupied Q) s = false -> s <> e.
Proof. intros H E. rewrite E, Qocc_e in H. discriminate. Qed.

(* their sliders of the position before *)
Lemma chk_facts d x : N.testbit (g_chk p d) x = true -> x <> v -> N.testbit occ x = true /\ N.testbit (occupied Q) x = true /\ x <> a /\ x <> e.
Proof.
  intros H Hv. destruct (chk_sub p d x H) as (Ht & Ho).
  assert (Ha : x <> a) by (intros E; pose proof (them_not_us p (g_dis p G) x Ht) as Hu; rewrite E, ua in Hu; discriminate).
  assert (He : x <> e) by (intros E; rewrite E, occ_e in Ho; discriminate).
  split; [exact Ho|split; [|split; assumption]].
  rewrite Qocc, Ho. destruct (N.eqb_spec x a); [contradiction|]. destruct (N.eqb_spec x v); [contradiction|]. apply orb_true_r.
Qed.
Lemma chk_not_v d : N.testbit (g_chk p d) v = false.
Proof.
  destruct v_pawn as (_ & _ & _ & Hp). pose proof (Hp 2 ltac:(lia)) as H2. pose proof (Hp 3 ltac:(lia)) as H3. pose proof (Hp 4 ltac:(lia)) as H4.
  unfold pb, is_set in H2, H3, H4. cbn [get_piece] in H2, H3, H4. change (2 =? PAWN) with false in H2. change (3 =? PAWN) with false in H3. change (4 =? PAWN) with false in H4.
  unfold g_chk, g_bq, g_rq. destruct (is_diag d); rewrite N.land_spec, N.lor_spec, ?H2, ?H3, ?H4; apply andb_false_r.
Qed.

(* ------------------------------------------------------------------ pawns, knights, their king *)
Lemma allowed_ev : N.testbit (gi_allowed (gen_info p)) e = true \/ N.testbit (gi_allowed (gen_info p)) v = true.
Proof.
  destruct (ep_cand_cond p ne e g Hg) as (_ & _ & [H|H] & _); [left; exact H|right].
  rewrite testbit_north in H. apply andb_true_iff in H. exact (proj2 H).
Qed.

Lemma leaper_contra y : N.testbit (N.lor (g_patt p) (g_natt p)) y = true -> y <> e -> y <> v -> False.
Proof.
  intros Hy He Hv. destruct allowed_ev as [H|H]; pose proof (allowed_leaper p G y _ Hy H) as E; congruence.
Qed.

Lemma kbb_k : N.testbit (g_kbb p) k = true.
Proof. unfold g_kbb, g_k. rewrite N.land_comm. apply lsb_set, popcount1_nonzero. exact (g_king p G). Qed.

Lemma no_pawn : is_set (pawns_bb false (N.land (pawns Q) (c_them Q))) k = false.
Proof.
  destruct (is_set _ k) eqn:H; [exfalso|reflexivity]. unfold is_set in H. rewrite testbit_pawns_them in H.
  apply andb_true_iff in H. destruct H as [Hk H]. pose proof kbb_k as Hkb.
  destruct (g_bb p G) as (_ & B2 & _).
  assert (Hcase : forall y, N.testbit (N.land (pawns Q) (c_them Q)) y = true ->
            (y = k + 7 /\ k mod 8 <> 0) \/ (y = k + 9 /\ k mod 8 <> 7) -> False).
  { intros y Hy Hgeo. destruct (Qthem 0 y ltac:(lia) Hy) as (Hp & He & Hv). cbn [get_piece] in Hp.
    assert (Hy64 : y < 64) by (apply (testbit_lt _ y (land_lt_r _ _ B2) Hp)).
    rewrite N.land_spec in Hp. apply andb_true_iff in Hp. destruct Hp as [Hp1 Hp2].
    apply (leaper_contra y); [|exact He|exact Hv].
    rewrite N.lor_spec. apply orb_true_iff. left. unfold g_patt. rewrite !N.land_spec, N.lor_spec, Hp1, Hp2, !andb_true_r.
    rewrite testbit_north_east, testbit_north_west. apply N.ltb_lt in Hy64. rewrite Hy64. cbn [andb].
    destruct Hgeo as [(-> & Hm)|(-> & Hm)].
    - apply orb_true_iff. right. replace (k + 7 - 7) with k by lia. rewrite Hkb, andb_true_r.
      apply andb_true_iff. split; [apply negb_true_iff, N.eqb_neq; lia|apply N.leb_le; lia].
    - apply orb_true_iff. left. replace (k + 9 - 9) with k by lia. rewrite Hkb, andb_true_r.
      apply andb_true_iff. split; [apply negb_true_iff, N.eqb_neq; lia|apply N.leb_le; lia]. }
  apply orb_true_iff in H. destruct H as [H|H]; apply andb_true_iff in H; destruct H as [Hm Hy]; apply negb_true_iff, N.eqb_neq in Hm.
  - apply (Hcase (k + 7) Hy). left. split; [reflexivity|exact Hm].
  - apply (Hcase (k + 9) Hy). right. split; [reflexivity|exact Hm].
Qed.

Lemma no_knight : is_occ (N.land (N.land (knights_bb (bit k)) (knights Q)) (c_them Q)) = false.
Proof.
  destruct (is_occ _) eqn:H; [exfalso|reflexivity]. destruct (is_occ_exists _ H) as (y & Hy).
  rewrite <- N.land_assoc, N.land_spec in Hy. apply andb_true_iff in Hy. destruct Hy as [Hk Hy].
  destruct (Qthem 1 y ltac:(lia) Hy) as (Hp & He & Hv). cbn [get_piece] in Hp.
  rewrite N.land_spec in Hp. apply andb_true_iff in Hp. destruct Hp as [Hp1 Hp2].
  apply (leaper_contra y); [|exact He|exact Hv].
  rewrite N.lor_spec. apply orb_true_iff. right. unfold g_natt. rewrite !N.land_spec, Hk, Hp1, Hp2. reflexivity.
Qed.

Lemma no_king : is_set (adjacent (bit (lsb (N.land (kings Q) (c_them Q))))) k = false.
Proof.
  rewrite (proj2 (Q_their_king u p m PAWN S I NVK)).
  destruct (their_king_holds p (g_wf p G) (g_bb p G) (i0_tking p I)) as (_ & HK64).
  pose proof (i0_safe p I) as Hs. unfold in_check_them in Hs. rewrite is_sq_or in Hs. cbv zeta in Hs.
  apply orb_false_iff in Hs. destruct Hs as [_ Hs]. change (get_side p true) with (c_us p) in Hs. fold (g_k p) in Hs. fold (tksq p) in Hs.
  unfold is_set in *. rewrite <- (sym_use adjacent k (tksq p) adjacent_sym k_lt HK64). exact Hs.
Qed.

(* ------------------------------------------------------------------ sliders along the rank: the generator's own test *)
Lemma blockers_bits s : N.testbit (ep_blockers p ne e) s = N.testbit (occupied Q) s.
Proof.
  pose proof e_rng as He. destruct sq_arith as (Ha64 & Hae & Hav & Hve & Hv64 & Hadj & Hv8 & Hd & Hm). destruct src_facts as (Hd' & Hm' & _).
  assert (E3 : N.testbit (if ne then south_west (bit e) else south_east (bit e)) s = (s =? a)).
  { destruct ne.
    - rewrite testbit_south_west. destruct (N.eqb_spec s (e - 9)) as [->|Hn].
      + rewrite testbit_bit by lia. replace (e - 9 + 9) with e by lia. rewrite N.eqb_refl, andb_true_r.
        apply andb_true_iff. split; [apply N.ltb_lt; lia|apply negb_true_iff, N.eqb_neq; lia].
      + rewrite testbit_bit by lia. destruct (N.eqb_spec (s + 9) e); [lia|]. apply andb_false_r.
    - rewrite testbit_south_east. destruct (N.eqb_spec s (e - 7)) as [->|Hn].
      + rewrite testbit_bit by lia. replace (e - 7 + 7) with e by lia. rewrite N.eqb_refl, andb_true_r.
        apply andb_true_iff. split; [apply N.ltb_lt; lia|apply negb_true_iff, N.eqb_neq; lia].
      + rewrite testbit_bit by lia. destruct (N.eqb_spec (s + 7) e); [lia|]. apply andb_false_r. }
  unfold ep_blockers. rewrite !N.lxor_spec, E3, (testbit_vic e s) by lia. rewrite (testbit_bit e s) by lia. rewrite Qocc.
  destruct (N.eqb_spec s e) as [->|N1].
  - rewrite occ_e. destruct (N.eqb_spec e v); [lia|]. destruct (N.eqb_spec e a); [lia|]. reflexivity.
  - destruct (N.eqb_spec s v) as [->|N2].
    + rewrite occ_v. destruct (N.eqb_spec v a); [lia|]. reflexivity.
    + destruct (N.eqb_spec s a) as [->|N3]; [rewrite occ_a; reflexivity|]. cbn [negb orb]. rewrite !andb_true_r, !xorb_false_r. reflexivity.
Qed.

Lemma horiz_contra d l1' x l2' : d = (1, 0)%Z \/ d = (-1, 0)%Z -> ray_of k d = l1' ++ x :: l2' ->
  (forall s, In s l1' -> N.testbit (occupied Q) s = false) -> N.testbit (g_chk p d) x = true -> x <> v -> False.
Proof.
  intros Hd El Hvac HX Hxv.
  assert (Hrq : N.testbit (g_rq p) x = true) by (destruct Hd as [->| ->]; exact HX).
  destruct (chk_facts d x HX Hxv) as (_ & HoQ & _).
  assert (Hsub : forall i, N.testbit (g_rq p) i = true -> N.testbit (ep_blockers p ne e) i = true).
  { intros i Hi. rewrite blockers_bits. destruct (N.eq_dec i v) as [->|Hn]; [exfalso; pose proof (chk_not_v (1, 0)%Z) as Z; change (g_chk p (1, 0)%Z) with (g_rq p) in Z; congruence|].
    exact (proj1 (proj2 (chk_facts (1, 0)%Z i Hi Hn))). }
  assert (Hf : first_hit (ep_blockers p ne e) (g_rq p) (ray_of k d) = false).
  { destruct (ep_cand_cond p ne e g Hg) as (_ & _ & _ & C3 & C4). unfold is_emp in C3, C4.
    destruct Hd as [->| ->].
    - rewrite (ray_e_exact k _ k_lt) in C3.
      pose proof (walk_first (ep_blockers p ne e) (g_rq p) (ray_of k (1, 0)%Z) (RaySym.ray_lt k _) Hsub) as W.
      unfold is_occ in W. rewrite C3 in W. symmetry. exact W.
    - rewrite (ray_w_exact k _ k_lt) in C4.
      pose proof (walk_first (ep_blockers p ne e) (g_rq p) (ray_of k (-1, 0)%Z) (RaySym.ray_lt k _) Hsub) as W.
      unfold is_occ in W. rewrite C4 in W. symmetry. exact W. }
  rewrite El, first_hit_intro in Hf.
  - rewrite Hrq in Hf. discriminate.
  - intros s Hs. rewrite blockers_bits. exact (Hvac s Hs).
  - rewrite blockers_bits. exact HoQ.
Qed.

(* ------------------------------------------------------------------ no man leaves the ray: a slider check before the move *)
Lemma none_contra d l1' x l2' : In d all_dirs -> ray_of k d = l1' ++ x :: l2' ->
  (forall s, In s l1' -> N.testbit (occupied Q) s = false) -> N.testbit (g_chk p d) x = true -> x <> v ->
  ~ In a l1' -> ~ In v l1' -> False.
Proof.
  intros Hd El Hvac HX Hxv Na Nv.
  destruct (chk_facts d x HX Hxv) as (Hox & HoQ & Hxa & Hxe).
  assert (Hvp : forall s, In s l1' -> N.testbit occ s = false).
  { intros s Hs. apply vac_p; [exact (Hvac s Hs)|intros E; apply Na; rewrite <- E; exact Hs|intros E; apply Nv; rewrite <- E; exact Hs]. }
  destruct (dir_tab_has d Hd) as (f & Hf).
  assert (Hfh : first_hit occ (g_chk p (fst (d, f))) (ray_of k (fst (d, f))) = true).
  { cbn [fst]. rewrite El, (first_hit_intro occ _ l1' x l2' Hvp Hox). exact HX. }
  assert (Hall : forall b, N.testbit (gi_allowed (gen_info p)) b = true -> In b l1' \/ b = x).
  { intros b Hb. pose proof (allowed_slider p G (d, f) b Hf Hfh Hb) as W. cbn [fst] in W. rewrite El in W.
    apply (walk_prefix occ l1' x l2' b); [rewrite <- El; exact (RaySym.ray_lt k d)|exact Hvp|exact Hox|exact W]. }
  destruct allowed_ev as [H|H]; destruct (Hall _ H) as [Hin|E].
  - exact (vac_ne e (Hvac e Hin) eq_refl).
  - congruence.
  - exact (Nv Hin).
  - congruence.
Qed.

(* ------------------------------------------------------------------ the line through a man on a ray from k *)
Lemma line_head d l1 b l2a x l2b uu : In d all_dirs -> ray_of k d = l1 ++ b :: l2a ++ x :: l2b -> uu = d \/ uu = negd d ->
  exists h t, ray_of b uu = h :: t /\ (In h l1 \/ h = k \/ In h l2a \/ h = x).
Proof.
  intros Hd El [->| ->].
  - pose proof (fwd_ray k d l1 b _ k_lt Hd El) as E. destruct (l2a ++ x :: l2b) as [|h t] eqn:E2; [destruct l2a; discriminate|].
    exists h, t. split; [exact E|]. destruct (head_split _ _ _ _ _ E2); tauto.
  - destruct (back_ray k d l1 b _ k_lt Hd El) as (rest & Eb). destruct (rev l1) as [|h' t'] eqn:Er; cbn [app] in Eb.
    + exists k, rest. split; [exact Eb|tauto].
    + exists h', (t' ++ k :: rest). split; [exact Eb|left; apply in_rev; rewrite Er; left; reflexivity].
Qed.

Lemma e_not_k : e <> k.
Proof. intros E. destruct (king_holds p G) as (HK & _). fold (g_k p) in HK. rewrite <- E in HK. exact (holds_not_empty _ _ _ _ HK e_empty). Qed.

(* the en-passant square, occupied after the move, is not on the vacated line *)
Lemma e_off_line d l1 l2a x : (forall s, In s l1 -> N.testbit (occupied Q) s = false) -> (forall s, In s l2a -> N.testbit (occupied Q) s = false) ->
  N.testbit (g_chk p d) x = true -> x <> v -> In e l1 \/ e = k \/ In e l2a \/ e = x -> False.
Proof.
  intros V1 V2 HX Hxv [H|[H|[H|H]]].
  - exact (vac_ne e (V1 e H) eq_refl).
  - exact (e_not_k H).
  - exact (vac_ne e (V2 e H) eq_refl).
  - destruct (chk_facts d x HX Hxv) as (_ & _ & _ & Hxe). congruence.
Qed.

Lemma chk_diag d : In d bishop_dirs -> g_chk p d = g_bq p.
Proof. unfold bishop_dirs. cbn [In]. intros [<-|[<-|[<-|[<-|[]]]]]; reflexivity. Qed.

(* the vacancy of the two parts of the line before the move *)
Lemma parts_vacant d b c l1 l2a x l2b : In d nonhoriz -> ray_of k d = l1 ++ b :: l2a ++ x :: l2b -> (b = a /\ c = v) \/ (b = v /\ c = a) ->
  (forall s, In s l1 -> N.testbit (occupied Q) s = false) -> (forall s, In s l2a -> N.testbit (occupied Q) s = false) ->
  (forall s, In s l1 -> N.testbit occ s = false) /\ (forall s, In s l2a -> N.testbit occ s = false) /\ ~ In c (ray_of k d).
Proof.
  intros Hd El Hbc V1 V2. pose proof (ray_nodup k d k_lt (nonhoriz_all d Hd)) as Hnd. rewrite El in Hnd.
  pose proof (NoDup_remove_2 _ _ _ Hnd) as Hb.
  assert (Hbin : In b (ray_of k d)) by (rewrite El; apply in_or_app; right; left; reflexivity).
  assert (Hc : ~ In c (ray_of k d)).
  { intros Hc. destruct sq_arith as (_ & _ & _ & _ & _ & Hadj & _).
    destruct Hbc as [(Eb & Ec)|(Eb & Ec)]; rewrite Eb in Hbin; rewrite Ec in Hc; destruct Hadj as [E|E].
    - rewrite <- E in Hc. exact (ray_no_adj k d a k_lt Hd Hbin Hc).
    - rewrite <- E in Hbin. exact (ray_no_adj k d v k_lt Hd Hc Hbin).
    - rewrite <- E in Hbin. exact (ray_no_adj k d a k_lt Hd Hc Hbin).
    - rewrite <- E in Hc. exact (ray_no_adj k d v k_lt Hd Hbin Hc). }
  assert (Hgen : forall s, In s (l1 ++ l2a ++ x :: l2b) -> N.testbit (occupied Q) s = false -> N.testbit occ s = false).
  { intros s Hs Hq. assert (Hsb : s <> b) by (intros E; apply Hb; rewrite <- E; exact Hs).
    assert (Hsc : s <> c).
    { intros E. apply Hc. rewrite El, <- E. apply in_app_or in Hs. apply in_or_app. destruct Hs as [Hs|Hs]; [left; exact Hs|right; right; exact Hs]. }
    destruct Hbc as [(Eb & Ec)|(Eb & Ec)]; rewrite Eb in Hsb; rewrite Ec in Hsc; apply vac_p; assumption. }
  split; [|split; [|exact Hc]].
  - intros s Hs. apply Hgen; [apply in_or_app; left; exact Hs|exact (V1 s Hs)].
  - intros s Hs. apply Hgen; [apply in_or_app; right; apply in_or_app; left; exact Hs|exact (V2 s Hs)].
Qed.

(* ------------------------------------------------------------------ the capturing pawn leaves the ray: it is pinned *)
Lemma bx_line en l1 l2a x l2b : In en [e_sw; e_se; e_nw; e_ne] -> ray_of k (fst en) = l1 ++ a :: l2a ++ x :: l2b ->
  (forall s, In s l1 -> N.testbit occ s = false) -> (forall s, In s l2a -> N.testbit occ s = false) ->
  N.testbit (g_bq p) x = true -> N.testbit occ x = true ->
  N.testbit (gi_bpinned (gen_info p)) a = true /\ forall h, In h l1 \/ h = k \/ In h l2a \/ h = x -> N.testbit bx h = true.
Proof.
  intros Hin El V1 V2 HX Hox. destruct (gi_pins p) as (Ebp & Ebx & _). rewrite Ebp, Ebx. unfold pinsB. split.
  - exact (pins_complete p k_lt (g_bq p) _ en l1 a l2a x l2b (diag_entries p) Hin El V1 V2 ua HX Hox us_occ).
  - intros h Hh. rewrite N.lor_spec. destruct Hh as [Hh|[Hh|Hh]].
    + rewrite (pins_complete_x p k_lt (g_bq p) _ en l1 a l2a x l2b (diag_entries p) Hin El V1 V2 ua HX Hox us_occ h); [reflexivity|tauto].
    + rewrite Hh, kbb_k. apply orb_true_r.
    + rewrite (pins_complete_x p k_lt (g_bq p) _ en l1 a l2a x l2b (diag_entries p) Hin El V1 V2 ua HX Hox us_occ h); [reflexivity|tauto].
Qed.

Lemma diag_lines d : In d bishop_dirs ->
  (((1, 1)%Z = d \/ (1, 1)%Z = negd d) /\ ~ ((-1, 1)%Z = d \/ (-1, 1)%Z = negd d))
  \/ (((-1, 1)%Z = d \/ (-1, 1)%Z = negd d) /\ ~ ((1, 1)%Z = d \/ (1, 1)%Z = negd d)).
Proof.
  unfold bishop_dirs. cbn [In]. intros [<-|[<-|[<-|[<-|[]]]]]; unfold negd; cbn [fst snd Z.opp Pos.pred_double]; [left|right|right|left]; split; try tauto; intros [X|X]; discriminate X.
Qed.

Lemma a_contra d l1 l2a x l2b : In d nonhoriz -> ray_of k d = l1 ++ a :: l2a ++ x :: l2b ->
  (forall s, In s l1 -> N.testbit (occupied Q) s = false) -> (forall s, In s l2a -> N.testbit (occupied Q) s = false) ->
  N.testbit (g_chk p d) x = true -> x <> v -> False.
Proof.
  intros Hd El V1 V2 HX Hxv.
  destruct (parts_vacant d a v l1 l2a x l2b Hd El (or_introl (conj eq_refl eq_refl)) V1 V2) as (P1 & P2 & _).
  destruct (chk_facts d x HX Hxv) as (Hox & _).
  destruct sq_arith as (Ha64 & _ & _ & _ & _ & _ & _ & Hae & Ham). destruct src_facts as (_ & _ & _ & _ & Hrp & Hbp).
  destruct (nonhoriz_split d Hd) as [Hdiag|Hvert].
  - (* a diagonal *)
    destruct (diag_entry d Hdiag) as (en & Hin & Een). rewrite (chk_diag d Hdiag) in HX.
    assert (El' : ray_of k (fst en) = l1 ++ a :: l2a ++ x :: l2b) by (rewrite Een; exact El).
    destruct (bx_line en l1 l2a x l2b Hin El' P1 P2 HX Hox) as (Hpin & Hbx). specialize (Hbp Hpin).
    assert (Hcap : forall uu, uu = d \/ uu = negd d -> uu = (if ne then (1, 1)%Z else (-1, 1)%Z) -> False).
    { intros uu Hu Euu. destruct (line_head d l1 a l2a x l2b uu (nonhoriz_all d Hd) El Hu) as (h & t & Eh & Hh).
      assert (E : h = e).
      { rewrite Euu in Eh. destruct ne; [destruct (ne_head _ h t Ha64 Eh) as (-> & _)|destruct (nw_head _ h t Ha64 Eh) as (-> & _)]; exact Hae. }
      rewrite E in Hh. rewrite <- (chk_diag d Hdiag) in HX. exact (e_off_line d l1 l2a x V1 V2 HX Hxv Hh). }
    assert (Hoth : forall uu, uu = d \/ uu = negd d -> uu = (if ne then (-1, 1)%Z else (1, 1)%Z) -> False).
    { intros uu Hu Euu. destruct (line_head d l1 a l2a x l2b uu (nonhoriz_all d Hd) El Hu) as (h & t & Eh & Hh).
      pose proof (Hbx h Hh) as Hb. rewrite Euu in Eh. destruct ne.
      - destruct (nw_head _ h t Ha64 Eh) as (-> & Hm). rewrite testbit_south_east, Hb, andb_true_r in Hbp.
        apply andb_false_iff in Hbp. destruct Hbp as [X|X]; [apply N.ltb_ge in X; lia|apply negb_false_iff, N.eqb_eq in X; lia].
      - destruct (ne_head _ h t Ha64 Eh) as (-> & Hm). rewrite testbit_south_west, Hb, andb_true_r in Hbp.
        apply andb_false_iff in Hbp. destruct Hbp as [X|X]; [apply N.ltb_ge in X; lia|apply negb_false_iff, N.eqb_eq in X; lia]. }
    destruct (diag_lines d Hdiag) as [(Hl & _)|(Hl & _)].
    + destruct ne; [apply (Hcap (1, 1)%Z)|apply (Hoth (1, 1)%Z)]; try reflexivity; destruct Hl as [<-|Hl]; [left; reflexivity|right; exact Hl|left; reflexivity|right; exact Hl].
    + destruct ne; [apply (Hoth (-1, 1)%Z)|apply (Hcap (-1, 1)%Z)]; try reflexivity; destruct Hl as [<-|Hl]; [left; reflexivity|right; exact Hl|left; reflexivity|right; exact Hl].
  - (* the file *)
    destruct (vert_entry d Hvert) as (en & Hin & Een).
    assert (El' : ray_of k (fst en) = l1 ++ a :: l2a ++ x :: l2b) by (rewrite Een; exact El).
    assert (HX' : N.testbit (g_rq p) x = true) by (destruct Hvert as [->| ->]; exact HX).
    pose proof (pins_complete p k_lt (g_rq p) _ en l1 a l2a x l2b (vert_entries p) Hin El' P1 P2 ua HX' Hox us_occ) as Hpin.
    destruct (gi_pins p) as (_ & _ & _ & Erp & _). rewrite Erp, N.lor_spec in Hrp. unfold pinsV in Hrp. rewrite Hpin in Hrp. discriminate.
Qed.

(* ------------------------------------------------------------------ the captured pawn leaves the ray *)
Lemma unpush_diag d : In d bishop_dirs ->
  first_hit (occupied (unpush p e)) (N.land (c_them (unpush p e)) (N.lor (bishops (unpush p e)) (queens (unpush p e)))) (ray_of k d) = false.
Proof.
  intros Hd. pose proof Hok as H. unfold ep_ok_b in H. rewrite Ee in H. apply andb_true_iff in H. destruct H as [_ H]. apply negb_true_iff in H.
  fold (g_k p) in H. rewrite is_sq_or in H. cbv zeta in H.
  apply orb_false_iff in H. destruct H as [H _]. apply orb_false_iff in H. destruct H as [H _]. apply orb_false_iff in H. destruct H as [_ H].
  change (get_side (unpush p e) false) with (c_them (unpush p e)) in H.
  unfold batt, bishop_walk in H. replace (k <? 64) with true in H by (symmetry; apply N.ltb_lt; exact k_lt).
  rewrite walk_dirs_query in H by (apply them_sub). exact (existsb_false' _ _ H d Hd).
Qed.

Local Notation BB := (N.lor (bit (e - 8)) (bit (e + 8))).
Lemma unpush_eq : unpush p e = xor_piece (xor_them p BB) PAWN BB.
Proof. reflexivity. Qed.
Lemma unpush_bb_bit s : s < 64 -> N.testbit BB s = (s =? v) || (s =? e + 8).
Proof. intros Hs. rewrite N.lor_spec, !testbit_bit' by exact Hs. reflexivity. Qed.
Lemma unpush_occ s : s < 64 -> s <> e + 8 -> N.testbit (occupied (unpush p e)) s = N.testbit occ s && negb (s =? v).
Proof.
  intros Hs Ho. rewrite !occ_bits, unpush_eq, ub_xor_piece, ub_xor_them, tb_xor_piece, tb_xor_them, (unpush_bb_bit s Hs).
  destruct (N.eqb_spec s (e + 8)); [contradiction|]. rewrite orb_false_r.
  destruct (N.eqb_spec s v) as [->|_].
  - destruct v_pawn as (_ & Hu & Ht & _). rewrite Hu, Ht. reflexivity.
  - rewrite xorb_false_r, andb_true_r. reflexivity.
Qed.
Lemma unpush_X s : s < 64 -> s <> v -> s <> e + 8 ->
  N.testbit (N.land (c_them (unpush p e)) (N.lor (bishops (unpush p e)) (queens (unpush p e)))) s = N.testbit (g_bq p) s.
Proof.
  intros Hs Hv Ho. rewrite N.land_spec, N.lor_spec.
  change (N.testbit (c_them (unpush p e)) s) with (tb (unpush p e) s).
  change (N.testbit (bishops (unpush p e)) s) with (pb (unpush p e) 2 s).
  change (N.testbit (queens (unpush p e)) s) with (pb (unpush p e) 4 s).
  rewrite unpush_eq, tb_xor_piece, tb_xor_them, !pb_xor_piece, !pb_xor_them by (unfold PAWN; lia). rewrite (unpush_bb_bit s Hs).
  destruct (N.eqb_spec s v); [contradiction|]. destruct (N.eqb_spec s (e + 8)); [contradiction|].
  change (PAWN =? 2) with false. change (PAWN =? 4) with false. cbn [andb orb]. rewrite !xorb_false_r.
  unfold g_bq. rewrite N.land_spec, N.lor_spec. reflexivity.
Qed.

Lemma v_contra d l1 l2a x l2b : In d nonhoriz -> ray_of k d = l1 ++ v :: l2a ++ x :: l2b ->
  (forall s, In s l1 -> N.testbit (occupied Q) s = false) -> (forall s, In s l2a -> N.testbit (occupied Q) s = false) ->
  N.testbit (g_chk p d) x = true -> x <> v -> False.
Proof.
  intros Hd El V1 V2 HX Hxv.
  destruct (parts_vacant d v a l1 l2a x l2b Hd El (or_intror (conj eq_refl eq_refl)) V1 V2) as (P1 & P2 & _).
  destruct (chk_facts d x HX Hxv) as (Hox & _).
  destruct sq_arith as (_ & _ & _ & _ & Hv64 & _ & Hv8 & _). pose proof e_rng as He.
  destruct (nonhoriz_split d Hd) as [Hdiag|Hvert].
  - (* a diagonal: excluded by the consistency of the en-passant state *)
    pose proof (unpush_diag d Hdiag) as Hf.
    assert (Hin : forall s, In s (ray_of k d) -> s < 64 /\ s <> e + 8).
    { intros s Hs. split; [exact (RaySym.ray_lt k d s Hs)|]. intros E.
      assert (Hvin : In v (ray_of k d)) by (rewrite El; apply in_or_app; right; left; reflexivity).
      apply (ray_no_file k d v k_lt Hdiag Hvin). replace (v + 16) with (e + 8) by lia. rewrite <- E. exact Hs. }
    pose proof (ray_nodup k d k_lt (nonhoriz_all d Hd)) as Hnd. rewrite El in Hnd.
    assert (Hxin : In x (ray_of k d)) by (rewrite El; apply in_or_app; right; right; apply in_or_app; right; left; reflexivity).
    replace (l1 ++ v :: l2a ++ x :: l2b) with ((l1 ++ v :: l2a) ++ x :: l2b) in El by (rewrite <- app_assoc; reflexivity).
    rewrite El, first_hit_intro in Hf.
    + destruct (Hin x Hxin) as (Hx64 & Hxo). rewrite (unpush_X x Hx64 Hxv Hxo), <- (chk_diag d Hdiag), HX in Hf. discriminate.
    + intros s Hs. assert (Hsin : In s (ray_of k d)) by (rewrite El; apply in_or_app; left; exact Hs).
      destruct (Hin s Hsin) as (Hs64 & Hso). rewrite (unpush_occ s Hs64 Hso).
      apply in_app_or in Hs. destruct Hs as [Hs|[<-|Hs]].
      * rewrite (P1 s Hs). reflexivity.
      * rewrite N.eqb_refl. apply andb_false_r.
      * rewrite (P2 s Hs). reflexivity.
    + destruct (Hin x Hxin) as (Hx64 & Hxo). rewrite (unpush_occ x Hx64 Hxo), Hox.
      destruct (N.eqb_spec x v); [contradiction|reflexivity].
  - (* the file: the capturing pawn lands on it *)
    assert (Hu : (0, 1)%Z = d \/ (0, 1)%Z = negd d) by (destruct Hvert as [->| ->]; [left|right]; reflexivity).
    destruct (line_head d l1 v l2a x l2b (0, 1)%Z (nonhoriz_all d Hd) El Hu) as (h & t & Eh & Hh).
    destruct (ray_n_head v ltac:(lia)) as (t' & Et). rewrite Et in Eh. injection Eh as Eh _. rewrite <- Eh, Hv8 in Hh.
    exact (e_off_line d l1 l2a x V1 V2 HX Hxv Hh).
Qed.

(* ------------------------------------------------------------------ no slider attacks the king after the capture *)
Lemma slider_contra d l1' x l2' : In d all_dirs -> ray_of k d = l1' ++ x :: l2' ->
  (forall s, In s l1' -> N.testbit (occupied Q) s = false) -> N.testbit (g_chk p d) x = true -> x <> v -> False.
Proof.
  intros Hd El Hvac HX Hxv. destruct (all_dirs_split d Hd) as [Hn|Hh]; [|exact (horiz_contra d l1' x l2' Hh El Hvac HX Hxv)].
  destruct (in_dec N.eq_dec a l1') as [Ha|Na].
  - destruct (in_split a l1' Ha) as (l1 & l2a & E). rewrite E, <- app_assoc in El. cbn [app] in El.
    apply (a_contra d l1 l2a x l2' Hn El); [| |exact HX|exact Hxv]; intros s Hs; apply Hvac; rewrite E; apply in_or_app; [left|right; right]; exact Hs.
  - destruct (in_dec N.eq_dec v l1') as [Hv|Nv].
    + destruct (in_split v l1' Hv) as (l1 & l2a & E). rewrite E, <- app_assoc in El. cbn [app] in El.
      apply (v_contra d l1 l2a x l2' Hn El); [| |exact HX|exact Hxv]; intros s Hs; apply Hvac; rewrite E; apply in_or_app; [left|right; right]; exact Hs.
    + exact (none_contra d l1' x l2' Hd El Hvac HX Hxv Na Nv).
Qed.

Lemma no_slider (j : N) (dirs : list (Z * Z)) : (j = 2 /\ dirs = bishop_dirs) \/ (j = 3 /\ dirs = rook_dirs) ->
  existsb (fun d => first_hit (occupied Q) (N.land (c_them Q) (N.lor (get_piece Q j) (queens Q))) (ray_of k d)) dirs = false.
Proof.
  intros Hj. destruct (existsb _ dirs) eqn:H; [exfalso|reflexivity].
  apply existsb_exists in H. destruct H as (d & Hd & Hf).
  destruct (first_hit_split _ _ _ Hf) as (l1' & x & l2' & El & Hvac & Hox & HX).
  assert (Hj5 : j <= 5) by (destruct Hj as [(-> & _)|(-> & _)]; lia).
  destruct (Qslide j x Hj5 HX) as (HXp & Hxe & Hxv).
  apply (slider_contra d l1' x l2'); [|exact El|exact Hvac| |exact Hxv].
  - unfold all_dirs. apply in_or_app. destruct Hj as [(_ & ->)|(_ & ->)]; [left|right]; exact Hd.
  - destruct Hj as [(-> & ->)|(-> & ->)].
    + rewrite (chk_diag d Hd). exact HXp.
    + unfold rook_dirs in Hd. cbn [In] in Hd. destruct Hd as [<-|[<-|[<-|[<-|[]]]]]; exact HXp.
Qed.

Theorem ep_safe : is_sq_attacked Q k false = false.
Proof.
  rewrite is_sq_or. cbv zeta. change (get_side Q false) with (c_them Q).
  rewrite no_pawn, no_knight, no_king. cbn [orb]. rewrite orb_false_r.
  unfold batt, ratt, bishop_walk, rook_walk. replace (k <? 64) with true by (symmetry; apply N.ltb_lt; exact k_lt).
  rewrite !walk_dirs_query by (apply them_sub).
  pose proof (no_slider 2 bishop_dirs (or_introl (conj eq_refl eq_refl))) as H3.
  pose proof (no_slider 3 rook_dirs (or_intror (conj eq_refl eq_refl))) as H4.
  cbn [get_piece] in H3, H4. rewrite H3, H4. reflexivity.
Qed.

Theorem ep_cand_legal : in_check_them (makemove u p (gen_mv g)) = false.
Proof.
  rewrite gshape. cbn [gen_mv]. rewrite (nc_transfer_sq u p m PAWN S I NVK).
  unfold our_king_after. change (PAWN =? KING) with false. cbv iota. exact ep_safe.
Qed.
End Ep.

(* ------------------------------------------------------------------ the theorem *)
Theorem ep_legal u p g : Inv0 p -> ep_ok_b p = true -> In g (blk_ep p) -> in_check_them (makemove u p (gen_mv g)) = false.
Proof.
  intros I Hok Hg. unfold blk_ep in Hg. destruct (ep p) as [e|] eqn:Ee; [|contradiction].
  apply in_app_or in Hg. destruct Hg as [Hg|Hg].
  - exact (ep_cand_legal u p e true g I Ee Hok Hg).
  - exact (ep_cand_legal u p e false g I Ee Hok Hg).
Qed.

Print Assumptions ep_legal.
