(* C04 (null move): the incrementally updated key of makenull equals the key recomputed from scratch. *)
From Coq Require Import NArith ZArith List Bool Lia.
From Rawr Require Import Consts Bits Magic Position MoveGen MakeMove BitsFacts FlipFacts.
Import ListNotations.
Local Open Scope N_scope.

Lemma bswap_land a b : bswap (N.land a b) = N.land (bswap a) (bswap b).
Proof. apply N.bits_inj. intros i. rewrite N.land_spec, !testbit_bswap, N.land_spec. destruct (i <? 64); [reflexivity|]. reflexivity. Qed.

Definition BB8 (p : Position) : Prop :=
  c_us p < TWO64 /\ c_them p < TWO64 /\ pawns p < TWO64 /\ knights p < TWO64 /\ bishops p < TWO64
  /\ rooks p < TWO64 /\ queens p < TWO64 /\ kings p < TWO64.

Lemma lxor_swap a b c : N.lxor (N.lxor a b) c = N.lxor (N.lxor a c) b.
Proof. rewrite !N.lxor_assoc, (N.lxor_comm b c). reflexivity. Qed.

Lemma xor_if_alt c k h : xor_if c k h = N.lxor h (if c then k else 0).
Proof. destruct c; cbn [xor_if]; [reflexivity|rewrite N.lxor_0_r; reflexivity]. Qed.

Theorem makenull_hash p :
  BB8 p -> hash p = calculate_hash p -> hash (makenull p) = calculate_hash (makenull p).
Proof.
  destruct p as [us them pw kn bi ro qu ki hm fm t e uk uq tk tq f0 f1 f2 f3 h frc].
  unfold BB8. cbn [c_us c_them pawns knights bishops rooks queens kings hash].
  intros (B1 & B2 & B3 & B4 & B5 & B6 & B7 & B8) Hh.
  change (h = calculate_hash (mkPos us them pw kn bi ro qu ki hm fm t e uk uq tk tq f0 f1 f2 f3 0 frc)) in Hh.
  unfold makenull, flip, set_hash, set_clocks_ep_rights.
  cbn [turn ep us_ksc us_qsc them_ksc them_qsc pawns knights bishops rooks queens kings c_us c_them hash fullmoves halfmoves cf0 cf1 cf2 cf3 is_frc].
  rewrite Hh. clear Hh h.
  unfold calculate_hash, get_white, get_black, white_pov.
  cbn [turn ep us_ksc us_qsc them_ksc them_qsc pawns knights bishops rooks queens kings c_us c_them].
  destruct t; cbn [negb].
  all: rewrite ?bswap_land, ?bswap_invol by assumption.
  all: rewrite <- ?bswap_land.
  all: match goal with |- context [hash_pieces true KING ?x ?y] => generalize (hash_pieces true KING x y) end; intros X.
  all: destruct e as [e|]; rewrite !xor_if_alt; cbv iota; rewrite ?N.lxor_0_r.
  all: apply N.bits_inj; intros i; rewrite !N.lxor_spec;
    repeat match goal with |- context [N.testbit ?x i] => destruct (N.testbit x i) end; reflexivity.
Qed.
