(* C20: under the consistency conditions (the tool's own is_valid plus the histogram/threat/pawn-push facts that the
   game analysis establishes) no feature divides by zero, every feature and every style score lies in [0,1]. *)
From Coq Require Import ZArith QArith Qabs List Bool Lqa Lia.
From Rawr Require Import Style.
Import ListNotations.
Local Open Scope Q_scope.

Definition sumq (l : list Q) : Q := fold_right Qplus 0 l.
Definition nonneg (l : list Q) : Prop := Forall (fun x => 0 <= x) l.

Record SInv (s : SStats) : Prop := {
  i_games_pos : 0 < num_games s;
  i_nn : 0 <= num_wins s /\ 0 <= num_draws s /\ 0 <= num_losses s /\ 0 <= castle_same s /\ 0 <= castle_opposite s
         /\ 0 <= total_captures s /\ 0 <= total_noncaptures s /\ 0 <= checks s /\ 0 <= nonchecks s
         /\ 0 <= early_captures s /\ 0 <= mid_captures s /\ 0 <= late_captures s /\ 0 <= extreme_captures s
         /\ 0 <= short_games s /\ 0 <= medium_games s /\ 0 <= long_games s /\ 0 <= extreme_games s
         /\ 0 <= num_win_ahead s /\ 0 <= num_win_equal s /\ 0 <= num_win_behind s
         /\ 0 <= total_pawn_pushes_towards_king s /\ 0 <= num_rook_threats s /\ 0 <= num_bishop_threats s;
  i_games : num_games s == num_wins s + num_draws s + num_losses s;
  i_moves : total_moves s == total_captures s + total_noncaptures s;
  i_checks : total_moves s == checks s + nonchecks s;
  i_wins : num_wins s == num_win_ahead s + num_win_equal s + num_win_behind s;
  i_len : num_games s == short_games s + medium_games s + long_games s + extreme_games s;
  i_caps : total_captures s == early_captures s + mid_captures s + late_captures s + extreme_captures s;
  i_cd : length (capture_distance s) = 8%nat /\ nonneg (capture_distance s) /\ sumq (capture_distance s) == total_captures s;
  i_nd : length (noncapture_distance s) = 8%nat /\ nonneg (noncapture_distance s)
         /\ sumq (noncapture_distance s) == total_noncaptures s;
  i_threats : num_rook_threats s <= total_moves s /\ num_bishop_threats s <= total_moves s;
  i_towards : total_pawn_pushes_towards_king s <= total_pawn_pushes s;
  i_pushes : length (early_pawn_pushes s) = 8%nat /\ nonneg (early_pawn_pushes s)
             /\ dot push_weights (early_pawn_pushes s) <= (31 # 5) * total_early_moves s
             /\ (0 < total_pawn_pushes s -> 0 < total_early_moves s)
}.

Lemma qeqb_false a : ~ a == 0 -> qeqb a 0 = false.
Proof. intros H. unfold qeqb. destruct (Qeq_bool a 0) eqn:E; [|reflexivity]. apply Qeq_bool_iff in E. contradiction. Qed.
Lemma qeqb_true a : qeqb a 0 = true -> a == 0.
Proof. unfold qeqb. apply Qeq_bool_iff. Qed.

Lemma in_unit_true v : 0 <= v -> v <= 1 -> in_unit v = true.
Proof. intros H1 H2. unfold in_unit. apply andb_true_intro. split; apply Qle_bool_iff; assumption. Qed.

Lemma odiv_bound a b c : 0 <= a -> a <= c * b -> 0 < b -> exists v, odiv a b = Some v /\ 0 <= v /\ v <= c.
Proof.
  intros Ha Hab Hb. unfold odiv. rewrite qeqb_false by lra. eexists. split; [reflexivity|]. split.
  - apply Qle_shift_div_l; [exact Hb|lra].
  - apply Qle_shift_div_r; [exact Hb|exact Hab].
Qed.

Lemma f_ratio_unit a b : 0 <= a -> a <= b -> exists v, f_ratio a b = Some v /\ 0 <= v /\ v <= 1.
Proof.
  intros Ha Hab. unfold f_ratio. destruct (qeqb b 0) eqn:E.
  - exists 0. split; [reflexivity|lra].
  - assert (Hb : 0 < b). { destruct (Qlt_le_dec 0 b) as [H|H]; [exact H|]. assert (b == 0) by lra. unfold qeqb in E.
      assert (Qeq_bool b 0 = true) by (apply Qeq_bool_iff; assumption). congruence. }
    apply odiv_bound; lra.
Qed.

Lemma two_stage num n : 0 <= num -> num <= (6 # 10) * n -> 0 < n ->
  exists v, (match odiv num n with Some x => odiv x (6 # 10) | None => None end) = Some v /\ 0 <= v /\ v <= 1.
Proof.
  intros H1 H2 H3. destruct (odiv_bound num n (6 # 10) H1 H2 H3) as (x & -> & Hx0 & Hx1).
  apply odiv_bound; lra.
Qed.

Lemma pos_or_zero a : 0 <= a -> qeqb a 0 = false -> 0 < a.
Proof.
  intros H E. destruct (Qlt_le_dec 0 a) as [H1|H1]; [exact H1|]. assert (a == 0) by lra.
  assert (Qeq_bool a 0 = true) by (apply Qeq_bool_iff; assumption). unfold qeqb in E. congruence.
Qed.

Section Features.
Variable s : SStats.
Hypothesis I : SInv s.

Ltac nn := destruct (i_nn s I) as (? & ? & ? & ? & ? & ? & ? & ? & ? & ? & ? & ? & ? & ? & ? & ? & ? & ? & ? & ? & ? & ? & ?).

Lemma f_game_length_unit : exists v, f_game_length s = Some v /\ 0 <= v /\ v <= 1.
Proof. nn. pose proof (i_len s I). pose proof (i_games_pos s I). unfold f_game_length. apply two_stage; lra. Qed.

Lemma p_game_length_unit : exists v, p_game_length s = Some v /\ 0 <= v /\ v <= 1.
Proof. nn. pose proof (i_len s I). pose proof (i_games_pos s I). unfold p_game_length. apply two_stage; lra. Qed.

Lemma f_capture_early_unit : exists v, f_capture_early s = Some v /\ 0 <= v /\ v <= 1.
Proof.
  nn. pose proof (i_caps s I). unfold f_capture_early. destruct (qeqb (total_captures s) 0) eqn:E.
  - exists 0. split; [reflexivity|lra].
  - apply two_stage; [lra|lra|apply pos_or_zero; assumption].
Qed.

Lemma p_capture_early_unit : exists v, p_capture_early s = Some v /\ 0 <= v /\ v <= 1.
Proof.
  nn. pose proof (i_caps s I). unfold p_capture_early. destruct (qeqb (total_captures s) 0) eqn:E.
  - exists 0. split; [reflexivity|lra].
  - apply two_stage; [lra|lra|apply pos_or_zero; assumption].
Qed.

Lemma near_king_unit hist total : length hist = 8%nat -> nonneg hist -> sumq hist == total ->
  exists v, f_near_king hist total = Some v /\ 0 <= v /\ v <= 1.
Proof.
  intros Hl Hn Hs. unfold f_near_king.
  destruct hist as [|h0 [|h1 [|h2 [|h3 [|h4 [|h5 [|h6 [|h7 [|]]]]]]]]]; cbn in Hl; try discriminate.
  unfold nonneg in *. repeat match goal with H : Forall _ (_ :: _) |- _ => inversion H; subst; clear H end. cbv beta in *.
  cbn [sumq fold_right] in Hs. cbn [dot dist_weights].
  destruct (qeqb (8 * total) 0) eqn:E.
  - exists 0. split; [reflexivity|lra].
  - assert (0 < 8 * total) by (apply pos_or_zero; [lra|exact E]).
    apply odiv_bound; lra.
Qed.

Lemma f_capture_near_king_unit : exists v, f_capture_near_king s = Some v /\ 0 <= v /\ v <= 1.
Proof. destruct (i_cd s I) as (H1 & H2 & H3). apply near_king_unit; assumption. Qed.
Lemma f_move_near_king_unit : exists v, f_move_near_king s = Some v /\ 0 <= v /\ v <= 1.
Proof. destruct (i_nd s I) as (H1 & H2 & H3). apply near_king_unit; assumption. Qed.

Lemma f_castle_opposite_unit : exists v, f_castle_opposite s = Some v /\ 0 <= v /\ v <= 1.
Proof.
  nn. unfold f_castle_opposite. destruct (qeqb (castle_opposite s + castle_same s) 0) eqn:E.
  - exists 0. split; [reflexivity|lra].
  - assert (0 < castle_opposite s + castle_same s) by (apply pos_or_zero; [lra|exact E]). apply odiv_bound; lra.
Qed.

Lemma nonneg_dot_push l : length l = 8%nat -> nonneg l -> 0 <= dot push_weights l.
Proof.
  intros Hl Hn. destruct l as [|h0 [|h1 [|h2 [|h3 [|h4 [|h5 [|h6 [|h7 [|]]]]]]]]]; cbn in Hl; try discriminate.
  unfold nonneg in *. repeat match goal with H : Forall _ (_ :: _) |- _ => inversion H; subst; clear H end. cbv beta in *.
  cbn [dot push_weights]. lra.
Qed.

Lemma f_push_pawns_unit : 0 <= total_pawn_pushes s -> exists v, f_push_pawns s = Some v /\ 0 <= v /\ v <= 1.
Proof.
  intros Hp. destruct (i_pushes s I) as (H1 & H2 & H3 & H4). unfold f_push_pawns.
  destruct (qeqb (total_pawn_pushes s) 0) eqn:E.
  - exists 0. split; [reflexivity|lra].
  - assert (0 < total_pawn_pushes s) by (apply pos_or_zero; assumption). specialize (H4 H).
    apply odiv_bound; [apply nonneg_dot_push; assumption|lra|lra].
Qed.

Lemma f_checks_unit : exists v, f_checks s = Some v /\ 0 <= v /\ v <= 1.
Proof. nn. pose proof (i_checks s I). apply f_ratio_unit; lra. Qed.
Lemma f_wins_behind_unit : exists v, f_wins_behind s = Some v /\ 0 <= v /\ v <= 1.
Proof. nn. pose proof (i_wins s I). apply f_ratio_unit; lra. Qed.
Lemma f_capture_frequency_unit : exists v, f_capture_frequency s = Some v /\ 0 <= v /\ v <= 1.
Proof. nn. pose proof (i_moves s I). apply f_ratio_unit; lra. Qed.
Lemma f_push_towards_king_unit : exists v, f_push_towards_king s = Some v /\ 0 <= v /\ v <= 1.
Proof. nn. pose proof (i_towards s I). apply f_ratio_unit; lra. Qed.
Lemma f_rook_threats_unit : exists v, f_rook_threats s = Some v /\ 0 <= v /\ v <= 1.
Proof. nn. destruct (i_threats s I). apply f_ratio_unit; lra. Qed.
Lemma f_bishop_threats_unit : exists v, f_bishop_threats s = Some v /\ 0 <= v /\ v <= 1.
Proof. nn. destruct (i_threats s I). apply f_ratio_unit; lra. Qed.
End Features.

(* ---- the weighted loop *)
Definition all_unit (fs : list (Q * option Q)) : Prop :=
  Forall (fun e => 0 <= fst e /\ exists v, snd e = Some v /\ 0 <= v /\ v <= 1) fs.

Lemma weighted_ok fs : all_unit fs -> forall acc, exists sc, weighted fs acc = Some sc /\ acc <= sc /\ sc <= acc + weight_sum fs.
Proof.
  induction 1 as [|[w o] t [Hw (v & Ho & H0 & H1)] Ht IH]; intros acc; cbn [weighted weight_sum fold_right].
  - exists acc. split; [reflexivity|lra].
  - cbn [fst snd] in *. subst o. rewrite in_unit_true by assumption.
    destruct (IH (acc + w * v)) as (sc & -> & Ha & Hb). exists sc. split; [reflexivity|].
    fold (weight_sum t) in *. assert (0 <= w * v) by (apply Qmult_le_0_compat; assumption).
    assert (w * v <= w) by nra.
    split; lra.
Qed.

Theorem aggression_in_unit s : SInv s -> 0 <= total_pawn_pushes s ->
  exists q, aggression_score s = Score q /\ 0 <= q /\ q <= 1.
Proof.
  intros I Hp. unfold aggression_score.
  rewrite qeqb_false by (pose proof (i_games_pos s I); lra).
  assert (Hall : all_unit (aggression_features s)).
  { unfold aggression_features, all_unit. repeat constructor; cbn [fst snd]; try lra;
      first [apply f_game_length_unit | apply f_capture_early_unit | apply f_capture_near_king_unit | apply f_move_near_king_unit
            | apply f_castle_opposite_unit | apply f_push_pawns_unit | apply f_checks_unit | apply f_wins_behind_unit
            | apply f_capture_frequency_unit | apply f_push_towards_king_unit | apply f_rook_threats_unit
            | apply f_bishop_threats_unit]; assumption. }
  destruct (weighted_ok _ Hall 0) as (sc & -> & Hlo & Hhi).
  assert (Hw : weight_sum (aggression_features s) == 402 # 10) by (cbn; reflexivity).
  cbv zeta.
  set (scaled := sc / weight_sum (aggression_features s)).
  assert (Hs0 : 0 <= scaled) by (unfold scaled; apply Qle_shift_div_l; lra).
  destruct (Qle_bool 1 (2 * scaled)) eqn:E.
  - rewrite in_unit_true by lra. exists 1. split; [reflexivity|lra].
  - assert (~ 1 <= 2 * scaled) by (intros H; apply Qle_bool_iff in H; congruence).
    rewrite in_unit_true by lra. eexists. split; [reflexivity|lra].
Qed.

Theorem positional_in_unit s : SInv s -> exists q, positional_score s = Score q /\ 0 <= q /\ q <= 1.
Proof.
  intros I. unfold positional_score.
  rewrite qeqb_false by (pose proof (i_games_pos s I); lra).
  assert (Hall : all_unit (positional_features s)).
  { unfold positional_features, all_unit. repeat constructor; cbn [fst snd]; try lra;
      first [apply p_game_length_unit | apply p_capture_early_unit]; assumption. }
  destruct (weighted_ok _ Hall 0) as (sc & -> & Hlo & Hhi).
  assert (Hw : weight_sum (positional_features s) == 3) by (cbn; reflexivity).
  cbv zeta.
  assert (0 <= sc / weight_sum (positional_features s)) by (apply Qle_shift_div_l; lra).
  assert (sc / weight_sum (positional_features s) <= 1) by (apply Qle_shift_div_r; lra).
  rewrite in_unit_true by assumption. eexists. split; [reflexivity|split; assumption].
Qed.

Theorem pawn_pusher_in_unit s : 0 < num_games s -> exists q, pawn_pusher_score s = Score q /\ 0 <= q /\ q <= 1.
Proof.
  intros H. unfold pawn_pusher_score. rewrite qeqb_false by lra. cbn. eexists. split; [reflexivity|]. split; [|].
  - unfold Qle; cbn; lia.
  - unfold Qle; cbn; lia.
Qed.
