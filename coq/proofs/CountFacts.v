(* C08: count_moves (the bulk counter of perft) = the number of moves the generator emits. *)
From Coq Require Import NArith ZArith List Bool Lia ZifyN ZifyBool.
From Rawr Require Import Consts Bits Magic Position MoveGen MakeMove BitsFacts ShiftFacts NotationFacts BoundFacts.
Import ListNotations.
Local Open Scope N_scope.
Ltac Zify.zify_post_hook ::= Z.div_mod_to_equations.

(* ---- the set bits of an intersection are the set bits of one operand that are set in the other *)
Definition bits' (n : N) (i : N) : list N := match n with 0 => [] | Npos r => bits_pos r i end.

Lemma bits'_double n i : bits' (N.double n) i = bits' n (N.succ i).
Proof. destruct n; reflexivity. Qed.
Lemma bits'_succ_double n i : bits' (N.succ_double n) i = i :: bits' n (N.succ i).
Proof. destruct n; reflexivity. Qed.

Lemma filter_ext_in' {A} (f g : A -> bool) l : (forall x, In x l -> f x = g x) -> filter f l = filter g l.
Proof.
  induction l as [|x l IH]; intros H; cbn [filter]; [reflexivity|].
  rewrite (H x (or_introl eq_refl)), IH; [reflexivity|]. intros y Hy. apply H. right. exact Hy.
Qed.

Lemma bits_pos_ge p : forall i j, In j (bits_pos p i) -> i <= j.
Proof.
  induction p as [q IH|q IH|]; intros i j H; cbn [bits_pos] in H.
  - destruct H as [<-|H]; [lia|]. specialize (IH _ _ H). lia.
  - specialize (IH _ _ H). lia.
  - destruct H as [<-|[]]. lia.
Qed.

Lemma bits_land_pos p : forall q i,
  bits' (Pos.land p q) i = filter (fun j => N.testbit (Npos q) (j - i)) (bits_pos p i).
Proof.
  induction p as [p IH|p IH|]; intros q i; destruct q as [q|q|]; cbn [Pos.land bits_pos filter].
  - (* p~1, q~1 *) rewrite bits'_succ_double, IH. rewrite N.sub_diag. cbn [N.testbit Pos.testbit]. f_equal.
    apply filter_ext_in'. intros j Hj. pose proof (bits_pos_ge _ _ _ Hj).
    cbv beta. replace (j - i) with (N.succ (j - N.succ i)) by lia. symmetry.
    exact (N.testbit_odd_succ (Npos q) (j - N.succ i) ltac:(lia)).
  - (* p~1, q~0 *) rewrite bits'_double, IH. rewrite N.sub_diag. cbn [N.testbit Pos.testbit].
    apply filter_ext_in'. intros j Hj. pose proof (bits_pos_ge _ _ _ Hj).
    cbv beta. replace (j - i) with (N.succ (j - N.succ i)) by lia. symmetry.
    exact (N.testbit_even_succ (Npos q) (j - N.succ i) ltac:(lia)).
  - (* p~1, 1 *) rewrite N.sub_diag. cbn [N.testbit Pos.testbit bits' bits_pos]. f_equal.
    symmetry. rewrite (filter_ext_in' _ (fun _ => false)).
    + induction (bits_pos p (N.succ i)); [reflexivity|assumption].
    + intros j Hj. pose proof (bits_pos_ge _ _ _ Hj). replace (j - i) with (N.succ (j - N.succ i)) by lia.
      destruct (j - N.succ i); reflexivity.
  - (* p~0, q~1 *) rewrite bits'_double, IH.
    apply filter_ext_in'. intros j Hj. pose proof (bits_pos_ge _ _ _ Hj).
    cbv beta. replace (j - i) with (N.succ (j - N.succ i)) by lia. symmetry.
    exact (N.testbit_odd_succ (Npos q) (j - N.succ i) ltac:(lia)).
  - rewrite bits'_double, IH.
    apply filter_ext_in'. intros j Hj. pose proof (bits_pos_ge _ _ _ Hj).
    cbv beta. replace (j - i) with (N.succ (j - N.succ i)) by lia. symmetry.
    exact (N.testbit_even_succ (Npos q) (j - N.succ i) ltac:(lia)).
  - cbn [bits']. symmetry. rewrite (filter_ext_in' _ (fun _ => false)).
    + induction (bits_pos p (N.succ i)); [reflexivity|assumption].
    + intros j Hj. pose proof (bits_pos_ge _ _ _ Hj). replace (j - i) with (N.succ (j - N.succ i)) by lia.
      destruct (j - N.succ i); reflexivity.
  - rewrite N.sub_diag. reflexivity.
  - rewrite N.sub_diag. reflexivity.
  - rewrite N.sub_diag. reflexivity.
Qed.

Theorem bits_land a m : bits (N.land a m) = filter (N.testbit m) (bits a).
Proof.
  destruct a as [|p]; [reflexivity|]. destruct m as [|q].
  - cbn [N.land bits]. symmetry. rewrite (filter_ext_in' _ (fun _ => false)) by (intros; apply N.bits_0).
    induction (bits_pos p 0); [reflexivity|assumption].
  - change (N.land (Npos p) (Npos q)) with (Pos.land p q). change (bits (Pos.land p q)) with (bits' (Pos.land p q) 0).
    rewrite bits_land_pos. cbn [bits]. apply filter_ext_in'. intros j _. rewrite N.sub_0_r. reflexivity.
Qed.

(* ---- masks *)
Definition RANK8 : N := 18374686479671623680.      (* 0xFF00000000000000 *)

Lemma testbit_RANK8 i : N.testbit RANK8 i = (i <? 64) && (56 <=? i).
Proof. apply (testbit_small_mask RANK8 eq_refl (fun i => 56 <=? i)). vm_compute. reflexivity. Qed.
Lemma testbit_RANK7 i : N.testbit RANK7 i = (i <? 64) && ((48 <=? i) && (i <? 56)).
Proof. apply (testbit_small_mask RANK7 eq_refl (fun i => (48 <=? i) && (i <? 56))). vm_compute. reflexivity. Qed.
Lemma testbit_BELOW7 i : N.testbit BELOW_RANK7 i = (i <? 64) && (i <? 48).
Proof. apply (testbit_small_mask BELOW_RANK7 eq_refl (fun i => i <? 48)). vm_compute. reflexivity. Qed.

(* ---- a block of pawn targets: four moves for a target on the last rank, one otherwise *)
Lemma promo_len delta to : to < 64 ->
  length (promo_or_plain delta to) = if N.testbit RANK8 to then 4%nat else 1%nat.
Proof.
  intros H. unfold promo_or_plain. cbv zeta. rewrite testbit_RANK8. unfold rank_of.
  replace (to <? 64) with true by (symmetry; apply N.ltb_lt; exact H). cbn [andb].
  destruct (N.eqb_spec (to / 8) 7), (N.leb_spec 56 to); try reflexivity; lia.
Qed.

Lemma flat_promo_len delta l : (forall x, In x l -> x < 64) ->
  length (flat_map (promo_or_plain delta) l)
  = (4 * length (filter (N.testbit RANK8) l) + length (filter (fun x => negb (N.testbit RANK8 x)) l))%nat.
Proof.
  induction l as [|x l IH]; intros H; cbn [flat_map filter]; [reflexivity|].
  rewrite app_length, IH by (intros y Hy; apply H; right; exact Hy).
  rewrite (promo_len delta x) by (apply H; left; reflexivity).
  destruct (N.testbit RANK8 x); cbn [negb length]; lia.
Qed.

Lemma filter_negb_bits T : T < TWO64 ->
  filter (fun x => negb (N.testbit RANK8 x)) (bits T) = bits (N.land T (bnot RANK8)).
Proof.
  intros HT. rewrite bits_land. apply filter_ext_in'. intros x Hx.
  rewrite testbit_bnot. pose proof (bits_lt64 T x HT Hx) as Hl.
  replace (x <? 64) with true by (symmetry; apply N.ltb_lt; exact Hl). reflexivity.
Qed.

Theorem promo_block_count delta T : T < TWO64 ->
  N.of_nat (length (flat_map (promo_or_plain delta) (bits T)))
  = 4 * popcount (N.land T RANK8) + popcount (N.land T (bnot RANK8)).
Proof.
  intros HT. rewrite flat_promo_len by (intros x Hx; exact (bits_lt64 T x HT Hx)).
  rewrite (filter_negb_bits T HT), <- bits_land. rewrite !popcount_length_bits. lia.
Qed.

(* ---- a one-rank-up shift sends the seventh rank to the eighth and everything below to below the eighth *)
Ltac cmp_cases :=
  repeat match goal with
  | |- context [?a <? ?b] => destruct (N.ltb_spec a b)
  | |- context [?a <=? ?b] => destruct (N.leb_spec a b)
  | |- context [?a =? ?b] => destruct (N.eqb_spec a b)
  end; cbn [andb negb orb]; try reflexivity; try lia.

Lemma north_R7 b : N.land (north b) RANK8 = north (N.land b RANK7).
Proof.
  apply N.bits_inj. intros i. rewrite N.land_spec, !testbit_north, N.land_spec, testbit_RANK8, testbit_RANK7.
  destruct (N.testbit b (i - 8)); rewrite ?andb_false_r; [|reflexivity]. rewrite ?andb_true_r. cmp_cases.
Qed.
Lemma north_B7 b : N.land (north b) (bnot RANK8) = north (N.land b BELOW_RANK7).
Proof.
  apply N.bits_inj. intros i. rewrite N.land_spec, !testbit_north, N.land_spec, testbit_bnot, testbit_RANK8, testbit_BELOW7.
  destruct (N.testbit b (i - 8)); rewrite ?andb_false_r; [|reflexivity]. rewrite ?andb_true_r. cmp_cases.
Qed.
Lemma ne_R7 b : N.land (north_east b) RANK8 = north_east (N.land b RANK7).
Proof.
  apply N.bits_inj. intros i. rewrite N.land_spec, !testbit_north_east, N.land_spec, testbit_RANK8, testbit_RANK7.
  destruct (N.testbit b (i - 9)); rewrite ?andb_false_r; [|reflexivity]. rewrite ?andb_true_r. cmp_cases.
Qed.
Lemma ne_B7 b : N.land (north_east b) (bnot RANK8) = north_east (N.land b BELOW_RANK7).
Proof.
  apply N.bits_inj. intros i. rewrite N.land_spec, !testbit_north_east, N.land_spec, testbit_bnot, testbit_RANK8, testbit_BELOW7.
  destruct (N.testbit b (i - 9)); rewrite ?andb_false_r; [|reflexivity]. rewrite ?andb_true_r. cmp_cases.
Qed.
Lemma nw_R7 b : N.land (north_west b) RANK8 = north_west (N.land b RANK7).
Proof.
  apply N.bits_inj. intros i. rewrite N.land_spec, !testbit_north_west, N.land_spec, testbit_RANK8, testbit_RANK7.
  destruct (N.testbit b (i - 7)); rewrite ?andb_false_r; [|reflexivity]. rewrite ?andb_true_r. cmp_cases.
Qed.
Lemma nw_B7 b : N.land (north_west b) (bnot RANK8) = north_west (N.land b BELOW_RANK7).
Proof.
  apply N.bits_inj. intros i. rewrite N.land_spec, !testbit_north_west, N.land_spec, testbit_bnot, testbit_RANK8, testbit_BELOW7.
  destruct (N.testbit b (i - 7)); rewrite ?andb_false_r; [|reflexivity]. rewrite ?andb_true_r. cmp_cases.
Qed.

Lemma east_north b : east (north b) = north_east b.
Proof.
  apply N.bits_inj. intros i. rewrite testbit_east, testbit_north, testbit_north_east.
  replace (i - 1 - 8) with (i - 9) by lia.
  destruct (N.testbit b (i - 9)); rewrite ?andb_false_r; [|reflexivity]. rewrite ?andb_true_r. cmp_cases.
Qed.

Lemma land_perm3 a b c m : N.land (N.land (N.land a b) c) m = N.land (N.land (N.land a m) b) c.
Proof.
  apply N.bits_inj. intros i. rewrite !N.land_spec.
  destruct (N.testbit a i), (N.testbit b i), (N.testbit c i), (N.testbit m i); reflexivity.
Qed.
Lemma land_perm2 a b m : N.land (N.land a b) m = N.land (N.land a m) b.
Proof.
  apply N.bits_inj. intros i. rewrite !N.land_spec.
  destruct (N.testbit a i), (N.testbit b i), (N.testbit m i); reflexivity.
Qed.

Lemma north_lt b : north b < TWO64. Proof. apply shl_lt. Qed.
Lemma shift_by_lt l a m b : m < TWO64 -> shift_by l a m b < TWO64.
Proof. intros H. unfold shift_by. apply land_lt_r. exact H. Qed.
Lemma ne_lt b : north_east b < TWO64. Proof. apply shift_by_lt. reflexivity. Qed.
Lemma nw_lt b : north_west b < TWO64. Proof. apply shift_by_lt. reflexivity. Qed.

(* the three pawn blocks *)
Lemma block_north X A B :
  N.of_nat (length (flat_map (promo_or_plain 8) (bits (N.land (N.land (north X) A) B))))
  = 4 * popcount (N.land (N.land (north (N.land X RANK7)) A) B) + popcount (N.land (N.land (north (N.land X BELOW_RANK7)) A) B).
Proof.
  rewrite promo_block_count by (apply land_lt_l, land_lt_l, north_lt).
  rewrite (land_perm3 (north X) A B RANK8), (land_perm3 (north X) A B (bnot RANK8)), north_R7, north_B7. reflexivity.
Qed.
Lemma block_ne X A B :
  N.of_nat (length (flat_map (promo_or_plain 9) (bits (N.land (N.land (north_east X) A) B))))
  = 4 * popcount (N.land (N.land (north_east (N.land X RANK7)) A) B) + popcount (N.land (N.land (north_east (N.land X BELOW_RANK7)) A) B).
Proof.
  rewrite promo_block_count by (apply land_lt_l, land_lt_l, ne_lt).
  rewrite (land_perm3 (north_east X) A B RANK8), (land_perm3 (north_east X) A B (bnot RANK8)), ne_R7, ne_B7. reflexivity.
Qed.
Lemma block_nw X A B :
  N.of_nat (length (flat_map (promo_or_plain 7) (bits (N.land (N.land (north_west X) A) B))))
  = 4 * popcount (N.land (N.land (north_west (N.land X RANK7)) A) B) + popcount (N.land (N.land (north_west (N.land X BELOW_RANK7)) A) B).
Proof.
  rewrite promo_block_count by (apply land_lt_l, land_lt_l, nw_lt).
  rewrite (land_perm3 (north_west X) A B RANK8), (land_perm3 (north_west X) A B (bnot RANK8)), nw_R7, nw_B7. reflexivity.
Qed.

Lemma knight_block allowed l :
  fold_left (fun acc from => acc + popcount (N.land (knights_bb (bit from)) allowed)) l 0
  = N.of_nat (length (flat_map (fun from => map (fun to => (KNIGHT, from, to, NOPIECE)) (bits (N.land (knights_bb (bit from)) allowed))) l)).
Proof.
  assert (H : forall l acc, fold_left (fun a from => a + popcount (N.land (knights_bb (bit from)) allowed)) l acc
            = acc + N.of_nat (length (flat_map (fun from => map (fun to => (KNIGHT, from, to, NOPIECE))
                                                            (bits (N.land (knights_bb (bit from)) allowed))) l))).
  { clear l. induction l as [|x l IH]; intros acc; cbn [fold_left flat_map]; [cbn; lia|].
    rewrite IH, app_length, map_length, popcount_length_bits, Nat2N.inj_add. lia. }
  rewrite H. apply N.add_0_l.
Qed.

Theorem count_moves_is_length p : count_moves p = N.of_nat (length (move_generator p)).
Proof.
  unfold count_moves, move_generator. cbv zeta.
  rewrite !app_length, !Nat2N.inj_add.
  rewrite block_north, map_length, <- popcount_length_bits.
  rewrite east_north, block_ne, block_nw.
  rewrite <- knight_block.
  rewrite <- !count_sliders_eq.
  (* align the source sets: (upawns & X) & RANK7 = (upawns & RANK7) & X *)
  set (up := N.land (pawns p) (c_us p)).
  rewrite (land_perm2 up _ RANK7), (land_perm2 up _ BELOW_RANK7).
  rewrite (land_perm3 up (bnot (gi_rpinned (gen_info p))) (N.lor (bnot (gi_bpinned (gen_info p))) (south_west (gi_bxrays (gen_info p)))) RANK7),
          (land_perm3 up (bnot (gi_rpinned (gen_info p))) (N.lor (bnot (gi_bpinned (gen_info p))) (south_west (gi_bxrays (gen_info p)))) BELOW_RANK7),
          (land_perm3 up (bnot (gi_rpinned (gen_info p))) (N.lor (bnot (gi_bpinned (gen_info p))) (south_east (gi_bxrays (gen_info p)))) RANK7),
          (land_perm3 up (bnot (gi_rpinned (gen_info p))) (N.lor (bnot (gi_bpinned (gen_info p))) (south_east (gi_bxrays (gen_info p)))) BELOW_RANK7).
  destruct (ep p); [rewrite app_length, Nat2N.inj_add|];
  destruct (castle_ok p (gen_info p) (us_ksc p) (sq_of (cf0 p) 0) G1 F1), (castle_ok p (gen_info p) (us_qsc p) (sq_of (cf1 p) 0) C1 D1);
  cbn [length]; lia.
Qed.

Corollary count_moves_is_number_of_legal_moves p : count_moves p = N.of_nat (length (legal_moves p)).
Proof. unfold legal_moves. rewrite map_length. apply count_moves_is_length. Qed.
