(* C04: the key recomputed from scratch is a function of the specification state alone:
   calculate_hash p = spec_key (abs_state p) -- hence independent of the stored perspective, of the move counters and
   of how the position was reached. *)
From Coq Require Import NArith ZArith List Bool Lia ZifyN ZifyBool.
From Rawr Require Import Consts Bits Magic Position MoveGen MakeMove MakeStages Rules Abs KeySpec
                         BitsFacts FlipFacts AbsFacts MakeFacts MakeAbs HashFacts HashSum.
Import ListNotations.
Local Open Scope N_scope.
Ltac Zify.zify_post_hook ::= Z.div_mod_to_equations.

(* every square holds nothing, or exactly one kind of exactly one side *)
Definition wf_sq (p : Position) (s : N) : Prop := empty_at p s \/ exists t k, holds p s t k.
Definition WF (p : Position) : Prop := forall s, s < 64 -> wf_sq p s.

Lemma bsum_board p : forall n k,
  bsum (map (fun i => man_at p (N.of_nat i)) (seq k n)) (N.of_nat k) = XAr (fun a => mkey (man_at p a) a) n (N.of_nat k).
Proof.
  induction n as [|n IH]; intros k; cbn [seq map bsum XAr]; [reflexivity|].
  rewrite <- Nat2N.inj_succ, IH. reflexivity.
Qed.

Lemma bsum_board_of p : bsum (board_of p) 0 = XA (fun a => mkey (man_at p a) a).
Proof. exact (bsum_board p 64 0). Qed.

(* one term of the recomputation: colour, kind, absolute square *)
Definition cbit (p : Position) (blk : bool) (s : N) : bool :=
  if blk then (if turn p then ub p s else tb p s) else (if turn p then tb p s else ub p s).
Definition term (p : Position) (blk : bool) (pc a : N) : N :=
  if cbit p blk (rel_sq p a) && pb p pc (rel_sq p a) then key blk pc a else 0.

Lemma side_board p (blk : bool) pc a : a < 64 ->
  N.testbit (white_pov (N.land (if blk then get_black p else get_white p) (get_piece p pc)) (turn p)) a
  = cbit p blk (rel_sq p a) && pb p pc (rel_sq p a).
Proof.
  intros Ha. unfold white_pov, get_black, get_white, cbit, rel_sq, ub, tb, pb, is_set.
  destruct (turn p), blk; rewrite ?testbit_bswap, ?N.land_spec;
  try (replace (a <? 64) with true by (symmetry; apply N.ltb_lt; exact Ha)); reflexivity.
Qed.

Lemma hp_term p (blk : bool) pc h : BB8 p -> pc <= 5 ->
  hash_pieces blk pc (white_pov (N.land (if blk then get_black p else get_white p) (get_piece p pc)) (turn p)) h
  = N.lxor h (XA (term p blk pc)).
Proof.
  intros HB Hpc. rewrite hash_pieces_XA.
  - f_equal. apply XA_ext. intros a Ha. unfold term. rewrite side_board by exact Ha. reflexivity.
  - destruct HB as (B1 & B2 & B3 & B4 & B5 & B6 & B7 & B8).
    assert (Hc : (if blk then get_black p else get_white p) < TWO64) by (unfold get_black, get_white; destruct blk, (turn p); assumption).
    unfold white_pov. destruct (turn p); [apply bswap_lt|apply land_lt_l; exact Hc].
Qed.

(* the twelve terms of one square add up to the key of the man standing there *)
Definition terms (p : Position) (a : N) : N :=
  N.lxor (N.lxor (N.lxor (N.lxor (N.lxor (N.lxor (N.lxor (N.lxor (N.lxor (N.lxor (N.lxor
    (term p false 0 a) (term p false 1 a)) (term p false 2 a)) (term p false 3 a)) (term p false 4 a)) (term p false 5 a))
    (term p true 0 a)) (term p true 1 a)) (term p true 2 a)) (term p true 3 a)) (term p true 4 a)) (term p true 5 a).

Lemma N_of_kind_of_N k : k <= 5 -> N_of_kind (kind_of_N k) = k.
Proof. intros H. kinds k H; reflexivity. Qed.

Lemma terms_man p a : a < 64 -> wf_sq p (rel_sq p a) -> terms p a = mkey (man_at p a) a.
Proof.
  intros Ha [He | (t & k & Hh)].
  - rewrite (man_at_empty _ _ He). destruct He as (_ & _ & Hp).
    unfold terms, term. rewrite (Hp 0), (Hp 1), (Hp 2), (Hp 3), (Hp 4), (Hp 5) by lia.
    rewrite !andb_false_r. reflexivity.
  - rewrite (man_at_holds _ _ _ _ Hh). destruct Hh as (Hk & Hu & Ht & Hp).
    unfold terms, term, cbit. rewrite (Hp 0), (Hp 1), (Hp 2), (Hp 3), (Hp 4), (Hp 5) by lia. rewrite Hu, Ht.
    unfold mkey. rewrite N_of_kind_of_N by exact Hk.
    destruct (turn p), t; cbn [negb xorb colour_of_turn is_black andb]; kinds k Hk; cbn [N.eqb Pos.eqb andb]; rewrite ?N.lxor_0_l, ?N.lxor_0_r; reflexivity.
Qed.

Lemma xa12 (f0 f1 f2 f3 f4 f5 g0 g1 g2 g3 g4 g5 : N -> N) :
  N.lxor (N.lxor (N.lxor (N.lxor (N.lxor (N.lxor (N.lxor (N.lxor (N.lxor (N.lxor (N.lxor (N.lxor 0
    (XA f0)) (XA f1)) (XA f2)) (XA f3)) (XA f4)) (XA f5)) (XA g0)) (XA g1)) (XA g2)) (XA g3)) (XA g4)) (XA g5)
  = XA (fun a => N.lxor (N.lxor (N.lxor (N.lxor (N.lxor (N.lxor (N.lxor (N.lxor (N.lxor (N.lxor (N.lxor
      (f0 a) (f1 a)) (f2 a)) (f3 a)) (f4 a)) (f5 a)) (g0 a)) (g1 a)) (g2 a)) (g3 a)) (g4 a)) (g5 a)).
Proof. rewrite N.lxor_0_l. rewrite !XA_lxor. reflexivity. Qed.

Theorem pieces_key p : BB8 p -> WF p ->
  (let side (colour : bool) (h : N) : N :=
     let cb := if colour then get_black p else get_white p in
     let h := hash_pieces colour PAWN (white_pov (N.land cb (pawns p)) (turn p)) h in
     let h := hash_pieces colour KNIGHT (white_pov (N.land cb (knights p)) (turn p)) h in
     let h := hash_pieces colour BISHOP (white_pov (N.land cb (bishops p)) (turn p)) h in
     let h := hash_pieces colour ROOK (white_pov (N.land cb (rooks p)) (turn p)) h in
     let h := hash_pieces colour QUEEN (white_pov (N.land cb (queens p)) (turn p)) h in
     hash_pieces colour KING (white_pov (N.land cb (kings p)) (turn p)) h in
   side true (side false 0)) = bsum (board_of p) 0.
Proof.
  intros HB HW. cbv zeta.
  change (pawns p) with (get_piece p 0). change (knights p) with (get_piece p 1). change (bishops p) with (get_piece p 2).
  change (rooks p) with (get_piece p 3). change (queens p) with (get_piece p 4). change (kings p) with (get_piece p 5).
  unfold PAWN, KNIGHT, BISHOP, ROOK, QUEEN, KING.
  rewrite !(hp_term p false) by (exact HB || lia).
  rewrite !(hp_term p true) by (exact HB || lia).
  rewrite xa12, bsum_board_of.
  apply XA_ext. intros a Ha. apply (terms_man p a Ha). apply HW. apply rel_sq_lt. exact Ha.
Qed.

Lemma has_right flag f : has (right_of flag f) = flag.
Proof. destruct flag; reflexivity. Qed.

(* the recomputed key is the specification's key of the abstract state *)
Theorem key_of_abs p : BB8 p -> WF p -> (forall e, ep p = Some e -> e < 64) ->
  calculate_hash p = spec_key (abs_state p).
Proof.
  intros HB HW He. pose proof (pieces_key p HB HW) as HP. cbv zeta in HP.
  unfold calculate_hash. cbv zeta. rewrite HP. clear HP.
  unfold spec_key, abs_state. cbv zeta. cbn [s_board s_ep s_wk s_wq s_bk s_bq s_turn].
  generalize (bsum (board_of p) 0). intros B.
  assert (Hx : exists E, match ep p with Some e => N.lxor B (ep_key e) | None => B end = E /\
                match (match ep p with Some e => Some (Z.of_N (rel_sq p e mod 8), Z.of_N (rel_sq p e / 8)) | None => None end) with
                | Some (f, _) => N.lxor B (nthN KEYS_EP (Z.to_N f) 0) | None => B end = E).
  { destruct (ep p) as [e|] eqn:Ee.
    - exists (N.lxor B (ep_key e)). split; [reflexivity|]. cbv beta iota.
      rewrite N2Z.id, (file_rel p e) by (apply He; reflexivity). reflexivity.
    - exists B. split; reflexivity. }
  destruct Hx as (E & H1 & H2). rewrite H1, H2. clear H1 H2.
  destruct (turn p); cbn [negb colour_of_turn is_black]; rewrite !has_right; rewrite !xor_if_alt.
  - apply N.bits_inj. intros i. rewrite !N.lxor_spec.
    repeat match goal with |- context [N.testbit ?x i] => destruct (N.testbit x i) end; reflexivity.
  - reflexivity.
Qed.

(* corollaries: the key does not depend on the counters, nor on the perspective the position is stored from *)
Corollary key_ignores_counters p q : BB8 p -> WF p -> (forall e, ep p = Some e -> e < 64) ->
  BB8 q -> WF q -> (forall e, ep q = Some e -> e < 64) ->
  s_board (abs_state p) = s_board (abs_state q) -> s_turn (abs_state p) = s_turn (abs_state q) ->
  has (s_wk (abs_state p)) = has (s_wk (abs_state q)) -> has (s_wq (abs_state p)) = has (s_wq (abs_state q)) ->
  has (s_bk (abs_state p)) = has (s_bk (abs_state q)) -> has (s_bq (abs_state p)) = has (s_bq (abs_state q)) ->
  option_map fst (s_ep (abs_state p)) = option_map fst (s_ep (abs_state q)) ->
  calculate_hash p = calculate_hash q.
Proof.
  intros B1 W1 E1 B2 W2 E2 Hb Ht H1 H2 H3 H4 He.
  rewrite (key_of_abs p B1 W1 E1), (key_of_abs q B2 W2 E2). unfold spec_key. cbv zeta.
  rewrite Hb, Ht, H1, H2, H3, H4.
  destruct (s_ep (abs_state p)) as [[f1 r1]|], (s_ep (abs_state q)) as [[f2 r2]|]; cbn in He; try discriminate; [inversion He; subst|]; reflexivity.
Qed.
